package main

import (
	"fmt"
	"math"
	"math/rand/v2"
	"sort"

	"gonum.org/v1/gonum/stat/distuv"
	"gonum.org/v1/gonum/stat/sampleuv"
	"gonum.org/v1/gonum/verifx/vrt"
)

// The samplers are checked against exact replay models: every source of
// randomness handed to gonum is a seeded *vrt.Rand, and the harness derives
// the same stream a second time to recompute what the documented procedure
// must produce. Distributional claims (Rejection, Weighted,
// WithoutReplacement) are additionally judged by the DKW band.

// driftProposal is an asymmetric random-walk proposal for Metropolis-
// Hastings: x = y + step*(z + drift), z standard normal from its own stream.
type driftProposal struct {
	rng         *vrt.Rand
	step, drift float64
	calls       int
}

func (p *driftProposal) ConditionalRand(y float64) float64 {
	p.calls++
	return y + p.step*(p.rng.Norm()+p.drift)
}

func (p *driftProposal) ConditionalLogProb(x, y float64) float64 {
	z := (x-y)/p.step - p.drift
	return -0.5*z*z - math.Log(p.step) - 0.5*math.Log(2*math.Pi)
}

// countingRLP wraps a RandLogProber and counts Rand calls.
type countingRLP struct {
	d     distuv.RandLogProber
	calls int
	drawn []float64
}

func (c *countingRLP) Rand() float64 {
	c.calls++
	v := c.d.Rand()
	c.drawn = append(c.drawn, v)
	return v
}
func (c *countingRLP) LogProb(x float64) float64 { return c.d.LogProb(x) }

func (m *mon) runSampleUV() {
	n := m.c.Pick(40, 400)
	vrt.Parallel(n, func(i int) {
		a := m.newAcc()
		defer a.flush()
		m.suvIID(a, i)
		m.suvLatin(a, i)
		m.suvImportance(a, i)
		m.suvRejection(a, i)
		m.suvMH(a, i)
		m.suvWeightedExact(a, i)
		m.suvWithoutReplacementExact(a, i)
	})
	nd := m.c.Pick(6, 24)
	vrt.Parallel(nd, func(i int) {
		a := m.newAcc()
		defer a.flush()
		m.suvDistributional(a, i)
	})
}

func (m *mon) suvIID(a *acc, idx int) {
	n := []int{0, 1, 17, 100}[idx%4]
	d1 := distuv.Gamma{Alpha: 2.5, Beta: 0.7, Src: m.c.RNG("suv.iid", idx)}
	d2 := distuv.Gamma{Alpha: 2.5, Beta: 0.7, Src: m.c.RNG("suv.iid", idx)}
	batch := make([]float64, n)
	for i := range batch {
		batch[i] = math.NaN()
	}
	sampleuv.IIDer{Dist: d1}.Sample(batch)
	a.eval("sampleuv.IIDer.Sample|-", 1)
	for i := range batch {
		if w := d2.Rand(); batch[i] != w {
			a.fail("sampleuv.IIDer.Sample|-|not-successive-draws", fmt.Sprintf("n=%d case %d", n, idx), "batch[%d] = %v, want %v", i, batch[i], w)
			return
		}
	}
	// uniform-weight wrapper
	w := make([]float64, n)
	sampleuv.SampleUniformWeighted{Sampler: sampleuv.IIDer{Dist: d1}}.SampleWeighted(batch, w)
	a.eval("sampleuv.SampleUniformWeighted.SampleWeighted|-", 1)
	for i := range w {
		if w[i] != 1 {
			a.fail("sampleuv.SampleUniformWeighted.SampleWeighted|-|weight-not-1", fmt.Sprintf("n=%d", n), "weights[%d] = %v", i, w[i])
			return
		}
	}
	if n > 0 {
		if _, panicked := try(func() {
			sampleuv.SampleUniformWeighted{Sampler: sampleuv.IIDer{Dist: d1}}.SampleWeighted(batch, make([]float64, n+1))
		}); !panicked {
			a.fail("sampleuv.SampleUniformWeighted.SampleWeighted|length-mismatch|no-panic", "", "documented panic missing")
		}
	}
}

func (m *mon) suvLatin(a *acc, idx int) {
	n := []int{1, 2, 7, 50, 1000, 3}[idx%6]
	var q distuv.Quantiler
	var cdf func(float64) float64
	kind := "unit-uniform"
	switch idx % 3 {
	case 0:
		q, cdf = distuv.UnitUniform, func(x float64) float64 { return x }
	case 1:
		nn := distuv.Normal{Mu: 2, Sigma: 3}
		q, cdf, kind = nn, nn.CDF, "normal"
	case 2:
		e := distuv.Exponential{Rate: 0.3}
		q, cdf, kind = e, e.CDF, "exponential"
	}
	where := fmt.Sprintf("sampleuv.LatinHypercube n=%d %s case %d", n, kind, idx)
	batch := make([]float64, n)
	for i := range batch {
		batch[i] = math.NaN()
	}
	sampleuv.LatinHypercube{Q: q, Src: m.src("suv.lhs", idx)}.Sample(batch)
	a.eval("sampleuv.LatinHypercube.Sample|"+kind, 1)
	u := make([]float64, n)
	for i, x := range batch {
		u[i] = cdf(x)
	}
	sort.Float64s(u)
	for i, v := range u {
		lo, hi := float64(i)/float64(n), float64(i+1)/float64(n)
		if !(v >= lo-1e-12 && v <= hi+1e-12) {
			a.fail("sampleuv.LatinHypercube.Sample|"+kind+"|not-one-sample-per-stratum", where, "sorted CDF value #%d = %.17g outside [%g,%g]", i, v, lo, hi)
			return
		}
	}
}

func (m *mon) suvImportance(a *acc, idx int) {
	n := []int{1, 10, 200}[idx%3]
	target := distuv.Normal{Mu: 1, Sigma: 0.5}
	prop := distuv.Laplace{Mu: 0.5, Scale: 1.5, Src: m.c.RNG("suv.imp", idx)}
	clone := distuv.Laplace{Mu: 0.5, Scale: 1.5, Src: m.c.RNG("suv.imp", idx)}
	batch, w := make([]float64, n), make([]float64, n)
	sampleuv.Importance{Target: target, Proposal: prop}.SampleWeighted(batch, w)
	a.eval("sampleuv.Importance.SampleWeighted|-", 1)
	where := fmt.Sprintf("sampleuv.Importance n=%d case %d", n, idx)
	for i := range batch {
		v := clone.Rand()
		if batch[i] != v {
			a.fail("sampleuv.Importance.SampleWeighted|-|sample-not-from-proposal-stream", where, "batch[%d] = %v want %v", i, batch[i], v)
			return
		}
		ww := math.Exp(target.LogProb(v) - clone.LogProb(v))
		a.near("suv.importance", "sampleuv.Importance.SampleWeighted|-|weight!=p/q", where, w[i], ww, 1e-14*ww)
	}
	if _, panicked := try(func() {
		sampleuv.Importance{Target: target, Proposal: prop}.SampleWeighted(batch, make([]float64, n+1))
	}); !panicked {
		a.fail("sampleuv.Importance.SampleWeighted|length-mismatch|no-panic", where, "documented panic missing")
	}
}

func (m *mon) suvRejection(a *acc, idx int) {
	n := []int{1, 10, 200}[idx%3]
	target := distuv.Beta{Alpha: 2, Beta: 5}
	cOK := idx%4 != 3
	c := 2.5 // max density of Beta(2,5) is 2.4576
	if !cOK {
		c = 1.2
	}
	mk := func() (*countingRLP, rand.Source) {
		return &countingRLP{d: distuv.Uniform{Min: 0, Max: 1, Src: m.c.RNG("suv.rej.p", idx)}}, m.c.RNG("suv.rej.u", idx)
	}
	prop, src := mk()
	rj := &sampleuv.Rejection{C: c, Target: target, Proposal: prop, Src: src}
	batch := make([]float64, n)
	for i := range batch {
		batch[i] = 7
	}
	rj.Sample(batch)
	class := "c-sufficient"
	if !cOK {
		class = "c-too-small"
	}
	a.eval("sampleuv.Rejection.Sample|"+class, 1)
	where := fmt.Sprintf("sampleuv.Rejection n=%d c=%g case %d", n, c, idx)
	// replay
	p2, s2 := mk()
	u := rand.New(s2)
	want := make([]float64, 0, n)
	proposed := 0
	failed := false
	for len(want) < n {
		proposed++
		v := p2.Rand()
		acc := math.Exp(target.LogProb(v)-p2.LogProb(v)) / c
		if acc > 1 {
			failed = true
			break
		}
		if acc > u.Float64() {
			want = append(want, v)
		}
	}
	if rj.Proposed() != proposed || prop.calls != proposed {
		a.fail("sampleuv.Rejection.Proposed|"+class+"|wrong-count", where, "Proposed() = %d, proposal.Rand called %d times, model %d", rj.Proposed(), prop.calls, proposed)
	}
	if failed {
		if rj.Err() != sampleuv.ErrRejection {
			a.fail("sampleuv.Rejection.Err|"+class+"|not-ErrRejection", where, "Err() = %v", rj.Err())
		}
		for i, v := range batch {
			if !math.IsNaN(v) {
				a.fail("sampleuv.Rejection.Sample|"+class+"|samples-not-NaN-after-failure", where, "batch[%d] = %v", i, v)
				break
			}
		}
		return
	}
	if rj.Err() != nil {
		a.fail("sampleuv.Rejection.Err|"+class+"|spurious-error", where, "Err() = %v", rj.Err())
	}
	for i := range batch {
		if batch[i] != want[i] {
			a.fail("sampleuv.Rejection.Sample|"+class+"|accepted-samples-differ-from-model", where, "batch[%d] = %v want %v", i, batch[i], want[i])
			return
		}
	}
	if _, panicked := try(func() {
		(&sampleuv.Rejection{C: 0.5, Target: target, Proposal: prop, Src: src}).Sample(batch)
	}); !panicked {
		a.fail("sampleuv.Rejection.Sample|c<1|no-panic", where, "panic for c < 1 missing")
	}
}

func (m *mon) suvMH(a *acc, idx int) {
	r := m.c.RNG("suv.mh.case", idx)
	n := r.PickInt(1, 2, 5, 30, 100)
	burn := r.PickInt(0, 0, 1, 3, 10, 37, 150)
	rate := r.PickInt(0, 1, 1, 2, 3, 7, 40, 250)
	prefill := []float64{math.NaN(), 123, 0}[idx%3]
	target := distuv.Normal{Mu: 1, Sigma: 2}
	initial := -3.0
	mk := func() (*driftProposal, rand.Source) {
		return &driftProposal{rng: m.c.RNG("suv.mh.p", idx), step: 1.5, drift: 0.3}, m.c.RNG("suv.mh.u", idx)
	}
	prop, src := mk()
	batch := make([]float64, n)
	for i := range batch {
		batch[i] = prefill
	}
	mh := sampleuv.MetropolisHastings{Initial: initial, Target: target, Proposal: prop, Src: src, BurnIn: burn, Rate: rate}
	class := "burn-in=0"
	if burn > 0 {
		class = "burn-in>0"
	}
	if rate > 1 {
		class += ",rate>1"
	}
	where := fmt.Sprintf("sampleuv.MetropolisHastings n=%d BurnIn=%d Rate=%d prefill=%v case %d", n, burn, rate, prefill, idx)
	m.c.LastCase(where)
	if msg, panicked := try(func() { mh.Sample(batch) }); panicked {
		a.fail("sampleuv.MetropolisHastings.Sample|"+class+"|panics", where, "panic: %s", msg)
		return
	}
	a.eval("sampleuv.MetropolisHastings.Sample|"+class, 1)
	// model chain: one proposal draw and one uniform per step
	er := rate
	if er == 0 {
		er = 1
	}
	T := burn + er*n + er
	p2, s2 := mk()
	u := rand.New(s2)
	chain := make([]float64, T+1)
	chain[0] = initial
	cur := initial
	curLP := target.LogProb(cur)
	tie := false
	for t := 1; t <= T; t++ {
		x := p2.ConditionalRand(cur)
		lp := target.LogProb(x)
		acc := math.Exp(lp + p2.ConditionalLogProb(cur, x) - p2.ConditionalLogProb(x, cur) - curLP)
		uu := u.Float64()
		if math.Abs(acc-uu) < 1e-9 {
			tie = true
		}
		if acc > uu {
			cur, curLP = x, lp
		}
		chain[t] = cur
	}
	if tie {
		a.noverdict("suv.mh.acceptance-tie")
		return
	}
	// documented: the first BurnIn states are ignored, then every Rate-th
	// state is kept. Which residue class of steps is kept is not stated: any
	// phase s0 in 1..Rate is admissible.
	match := false
	for s0 := 1; s0 <= er && !match; s0++ {
		ok := true
		for k := 0; k < n; k++ {
			if batch[k] != chain[burn+s0+k*er] {
				ok = false
				break
			}
		}
		match = ok
	}
	if !match {
		a.fail("sampleuv.MetropolisHastings.Sample|"+class+"|chain-differs-from-documented-procedure", where,
			"batch[:%d] = %v; model chain after burn-in starts %v", min(n, 4), batch[:min(n, 4)], chain[burn+1:min(len(chain), burn+5)])
	}
}

func (m *mon) suvWeightedExact(a *acc, idx int) {
	r := m.c.RNG("suv.weighted", idx)
	n := r.PickInt(1, 2, 3, 8, 33, 100)
	w := make([]float64, n)
	pos := 0
	for i := range w {
		switch r.Intn(4) {
		case 0:
			w[i] = 0
		default:
			w[i] = math.Exp(r.Uniform(-3, 3))
		}
		if w[i] > 0 {
			pos++
		}
	}
	where := fmt.Sprintf("sampleuv.Weighted n=%d case %d w=%v", n, idx, w)
	m.c.LastCase(where)
	s := sampleuv.NewWeighted(w, m.c.RNG("suv.weighted.src", idx))
	if s.Len() != n {
		a.fail("sampleuv.Weighted.Len|-|wrong", where, "Len() = %d", s.Len())
	}
	seen := map[int]bool{}
	for k := 0; k < pos; k++ {
		i, ok := s.Take()
		a.eval("sampleuv.Weighted.Take|items-remaining", 1)
		if !ok || i < 0 || i >= n {
			a.fail("sampleuv.Weighted.Take|items-remaining|reports-exhausted-or-bad-index", where, "take %d of %d: (%d,%v)", k+1, pos, i, ok)
			return
		}
		if w[i] == 0 {
			a.fail("sampleuv.Weighted.Take|items-remaining|takes-zero-weight-item", where, "took index %d", i)
			return
		}
		if seen[i] {
			a.fail("sampleuv.Weighted.Take|items-remaining|takes-item-twice", where, "index %d", i)
			return
		}
		seen[i] = true
	}
	// exhausted: documented to return false
	i, ok := s.Take()
	a.eval("sampleuv.Weighted.Take|exhausted", 1)
	if ok || i != -1 {
		a.fail("sampleuv.Weighted.Take|exhausted|returns-item", where, "got (%d,%v) after all %d positive-weight items were taken", i, ok, pos)
	}
	// Reweight / ReweightAll: a single positive weight must be the one taken
	if n >= 2 {
		z := make([]float64, n)
		s.ReweightAll(z)
		k := r.Intn(n)
		s.Reweight(k, 2.5)
		if i, ok := s.Take(); !ok || i != k {
			a.fail("sampleuv.Weighted.Reweight|-|only-positive-item-not-taken", where, "got (%d,%v) want %d", i, ok, k)
		}
		if i, ok := s.Take(); ok {
			a.fail("sampleuv.Weighted.Take|exhausted|returns-item", where, "got (%d,%v) after the only item was taken", i, ok)
		}
	}
}

func (m *mon) suvWithoutReplacementExact(a *acc, idx int) {
	r := m.c.RNG("suv.wor", idx)
	k := r.PickInt(1, 2, 3, 5, 10, 31)
	n := k + r.PickInt(0, 1, 2, k*k-k, k*k-k+1, k*k, 5*k*k)
	if n < k {
		n = k
	}
	class := "direct"
	if n < k*k {
		class = "permutation"
	}
	where := fmt.Sprintf("sampleuv.WithoutReplacement k=%d n=%d case %d", k, n, idx)
	idxs := make([]int, k)
	for i := range idxs {
		idxs[i] = -7
	}
	sampleuv.WithoutReplacement(idxs, n, m.c.RNG("suv.wor.src", idx))
	a.eval("sampleuv.WithoutReplacement|"+class, 1)
	seen := map[int]bool{}
	for _, v := range idxs {
		if v < 0 || v >= n || seen[v] {
			a.fail("sampleuv.WithoutReplacement|"+class+"|not-distinct-indices-in-range", where, "idxs = %v", idxs)
			return
		}
		seen[v] = true
	}
	if idx%10 == 0 {
		if _, panicked := try(func() { sampleuv.WithoutReplacement(make([]int, n+1), n, nil) }); !panicked {
			a.fail("sampleuv.WithoutReplacement|len>n|no-panic", where, "documented panic missing")
		}
	}
}

// suvDistributional: DKW bands on sampler output frequencies.
func (m *mon) suvDistributional(a *acc, idx int) {
	N := m.nDraws()
	eps := dkwEps(N)
	// (1) Rejection output follows the target
	{
		target := distuv.Beta{Alpha: 2, Beta: 5}
		prop := distuv.Uniform{Min: 0, Max: 1, Src: m.c.RNG("suv.dist.rej.p", idx)}
		rj := &sampleuv.Rejection{C: 2.5 + float64(idx%3), Target: target, Proposal: prop, Src: m.c.RNG("suv.dist.rej.u", idx)}
		batch := make([]float64, N)
		rj.Sample(batch)
		a.eval("sampleuv.Rejection.Sample|distribution", N)
		sort.Float64s(batch)
		D := ksContinuous(batch, target.CDF)
		a.near("suv.dkw", "sampleuv.Rejection.Sample|c-sufficient|empirical-CDF-outside-DKW-band", fmt.Sprintf("Rejection Beta(2,5) N=%d case %d", N, idx), D, 0, eps)
		// expected number of proposals is N*c: 8-sigma band of the negative binomial
		c := rj.C
		meanP := float64(N) * c
		sd := math.Sqrt(float64(N) * c * (c - 1))
		a.near("suv.rejection.proposed", "sampleuv.Rejection.Proposed|c-sufficient|far-from-N*c", fmt.Sprintf("N=%d c=%g", N, c), float64(rj.Proposed()), meanP, 8*sd)
	}
	// (2) Weighted: the first Take follows the weights
	{
		r := m.c.RNG("suv.dist.w", idx)
		n := []int{2, 3, 8, 33}[idx%4]
		w := make([]float64, n)
		var tot float64
		for i := range w {
			w[i] = math.Exp(r.Uniform(-2, 2))
			if i%5 == 4 {
				w[i] = 0
			}
			tot += w[i]
		}
		src := m.c.RNG("suv.dist.w.src", idx)
		s := sampleuv.NewWeighted(w, src)
		counts := make([]int, n)
		second := make([]int, n)
		trials := N / 2
		for t := 0; t < trials; t++ {
			s.ReweightAll(w)
			i, _ := s.Take()
			counts[i]++
			if n > 2 && i == 0 {
				j, _ := s.Take()
				second[j]++
			}
		}
		a.eval("sampleuv.Weighted.Take|distribution", trials)
		D, cum, cw := 0.0, 0, 0.0
		for i := range w {
			cum += counts[i]
			cw += w[i]
			D = math.Max(D, math.Abs(float64(cum)/float64(trials)-cw/tot))
		}
		a.near("suv.dkw", "sampleuv.Weighted.Take|first-take|frequencies-outside-DKW-band", fmt.Sprintf("Weighted n=%d trials=%d case %d", n, trials, idx), D, 0, dkwEps(trials))
		// second take given that item 0 went first: proportional to the remaining weights
		if n > 2 && counts[0] > 1000 {
			D, cum, cw = 0, 0, 0
			for i := 1; i < n; i++ {
				cum += second[i]
				cw += w[i]
				D = math.Max(D, math.Abs(float64(cum)/float64(counts[0])-cw/(tot-w[0])))
			}
			if second[0] != 0 {
				a.fail("sampleuv.Weighted.Take|second-take|takes-item-twice", "", "item 0 taken twice")
			}
			a.near("suv.dkw", "sampleuv.Weighted.Take|second-take|frequencies-outside-DKW-band", fmt.Sprintf("Weighted n=%d trials=%d case %d", n, counts[0], idx), D, 0, dkwEps(counts[0]))
		}
	}
	// (3) WithoutReplacement: uniform over the k-subsets / first element uniform
	{
		kn := [][2]int{{3, 8}, {3, 9}, {2, 4}, {2, 5}, {1, 6}, {4, 16}}[idx%6]
		k, n := kn[0], kn[1]
		class := "direct"
		if n < k*k {
			class = "permutation"
		}
		src := m.c.RNG("suv.dist.wor.src", idx)
		trials := N / 2
		first := make([]int, n)
		subsets := map[int]int{}
		idxs := make([]int, k)
		for t := 0; t < trials; t++ {
			sampleuv.WithoutReplacement(idxs, n, src)
			first[idxs[0]]++
			code := 0
			for _, v := range idxs {
				code |= 1 << v
			}
			subsets[code]++
		}
		a.eval("sampleuv.WithoutReplacement|"+class+",distribution", trials)
		D, cum := 0.0, 0
		for i := range first {
			cum += first[i]
			D = math.Max(D, math.Abs(float64(cum)/float64(trials)-float64(i+1)/float64(n)))
		}
		a.near("suv.dkw", "sampleuv.WithoutReplacement|"+class+"|first-index-not-uniform", fmt.Sprintf("k=%d n=%d trials=%d", k, n, trials), D, 0, dkwEps(trials))
		// subsets in increasing code order
		nsub := 1
		for i := 0; i < k; i++ {
			nsub = nsub * (n - i) / (i + 1)
		}
		codes := make([]int, 0, len(subsets))
		for c := range subsets {
			codes = append(codes, c)
		}
		sort.Ints(codes)
		// enumerate all k-subsets in code order to get each subset's rank
		rank := map[int]int{}
		rk := 0
		for c := 0; c < 1<<n; c++ {
			if popcount(c) == k {
				rank[c] = rk
				rk++
			}
		}
		D, cum = 0, 0
		prev := -1
		for _, c := range codes {
			// gap of empty subsets before c
			if rank[c] > prev+1 {
				D = math.Max(D, math.Abs(float64(cum)/float64(trials)-float64(rank[c])/float64(nsub)))
			}
			cum += subsets[c]
			D = math.Max(D, math.Abs(float64(cum)/float64(trials)-float64(rank[c]+1)/float64(nsub)))
			prev = rank[c]
		}
		a.near("suv.dkw", "sampleuv.WithoutReplacement|"+class+"|subsets-not-uniform", fmt.Sprintf("k=%d n=%d trials=%d", k, n, trials), D, 0, dkwEps(trials))
	}
}

func popcount(x int) int {
	c := 0
	for ; x != 0; x &= x - 1 {
		c++
	}
	return c
}

// ksContinuous returns sup|F_N - F| for a sorted sample.
func ksContinuous(sorted []float64, F func(float64) float64) float64 {
	n := float64(len(sorted))
	D := 0.0
	for j, x := range sorted {
		f := F(x)
		D = math.Max(D, math.Max(float64(j+1)/n-f, f-float64(j)/n))
	}
	return D
}
