package main

import (
	"fmt"
	"math"
	"sort"

	"gonum.org/v1/gonum/mat"
	"gonum.org/v1/gonum/stat/distmat"
	"gonum.org/v1/gonum/stat/distuv"
	"gonum.org/v1/gonum/verifx/vrt"
)

func (m *mon) runMat() {
	n := m.c.Pick(40, 400)
	vrt.Parallel(n, func(i int) {
		a := m.newAcc()
		defer a.flush()
		m.wishartDensity(a, i)
	})
	nr := m.c.Pick(8, 40)
	vrt.Parallel(nr, func(i int) {
		a := m.newAcc()
		defer a.flush()
		m.wishartRand(a, i)
		m.permutation(a, i)
		m.unitVector(a, i)
	})
}

func refMvLgamma(v float64, d int) float64 {
	s := float64(d*(d-1)) / 4 * math.Log(math.Pi)
	for j := 1; j <= d; j++ {
		s += lgamma(v + float64(1-j)/2)
	}
	return s
}

func wishartCase(r *vrt.Rand, idx int) (dim int, nu float64, v matrix) {
	dim = r.Range(1, 4)
	switch idx % 4 {
	case 0:
		nu = float64(dim-1) + r.Uniform(0.05, 1) // just above the admissible bound
	case 1:
		nu = float64(dim + r.Range(0, 6))
	case 2:
		nu = float64(dim) + r.Uniform(0, 30)
	case 3:
		nu = float64(dim) + 0.5
	}
	v = randSPD(r, dim, 0.1, 10)
	return
}

func (m *mon) wishartDensity(a *acc, idx int) {
	r := m.c.RNG("mat.wishart", idx)
	dim, nu, v := wishartCase(r, idx)
	where := fmt.Sprintf("distmat.Wishart case %d dim=%d nu=%g", idx, dim, nu)
	m.c.LastCase(where)
	w, ok := distmat.NewWishart(v.sym(), nu, nil)
	a.eval("distmat.NewWishart|spd", 1)
	if !ok {
		a.fail("distmat.NewWishart|spd|fails", where, "ok=false")
		return
	}
	lv, _ := chol(v)
	vinv := spdInverse(v)
	for k := 0; k < 3; k++ {
		x := randSPD(r, dim, 0.05, 30)
		lx, _ := chol(x)
		tr := 0.0
		prod := vinv.mul(x)
		for i := 0; i < dim; i++ {
			tr += prod[i][i]
		}
		fd := float64(dim)
		want := 0.5*((nu-fd-1)*cholLogDet(lx)-tr-nu*fd*math.Ln2-nu*cholLogDet(lv)) - refMvLgamma(nu/2, dim)
		got := w.LogProbSym(x.sym())
		a.eval("distmat.Wishart.LogProbSym|spd", 1)
		a.near("mat.wishart.logprob", "distmat.Wishart.LogProbSym|spd|differs-from-formula", where, got, want, 1e-9*math.Max(1, math.Abs(want)))
		a.near("mat.wishart.prob", "distmat.Wishart.ProbSym|spd|!=exp(LogProbSym)", where, w.ProbSym(x.sym()), math.Exp(got), 1e-13*math.Exp(got)+1e-300)
		var ch mat.Cholesky
		ch.Factorize(x.sym())
		a.near("mat.wishart.logprob", "distmat.Wishart.LogProbSymChol|spd|!=LogProbSym", where, w.LogProbSymChol(&ch), got, 1e-12*math.Max(1, math.Abs(got)))
	}
	// not positive definite => -Inf / 0
	bad := randSPD(r, dim, 0.5, 2)
	bad[0][0] = -1
	if lp := w.LogProbSym(bad.sym()); !math.IsInf(lp, -1) {
		a.fail("distmat.Wishart.LogProbSym|not-positive-definite|not-minus-Inf", where, "got %g", lp)
	}
	var mean mat.SymDense
	w.MeanSymTo(&mean)
	a.eval("distmat.Wishart.MeanSymTo|-", 1)
	wm := v.clone()
	for i := range wm {
		for j := range wm {
			wm[i][j] *= nu
		}
	}
	matNear(a, "mat.wishart.mean", "distmat.Wishart.MeanSymTo|-|!=nu*V", where, &mean, wm, 1e-12*wm.maxAbs())
	if _, panicked := try(func() { distmat.NewWishart(v.sym(), float64(dim-1), nil) }); !panicked {
		a.fail("distmat.NewWishart|nu<=dim-1|no-panic", where, "documented panic missing")
	}
}

func (m *mon) wishartRand(a *acc, idx int) {
	r := m.c.RNG("mat.wishart.rand", idx)
	dim, nu, v := wishartCase(r, idx)
	N := m.c.Pick(20000, 100000)
	useChol := idx%2 == 1
	method := "RandSymTo"
	if useChol {
		method = "RandCholTo"
	}
	where := fmt.Sprintf("distmat.Wishart.%s case %d dim=%d nu=%g N=%d", method, idx, dim, nu, N)
	m.c.LastCase(where)
	w, _ := distmat.NewWishart(v.sym(), nu, m.src("mat.wishart.src", idx))
	// directions for the exact projection law  w'Xw / w'Vw ~ chi^2_nu
	var dirs [][]float64
	for i := 0; i < dim; i++ {
		e := make([]float64, dim)
		e[i] = 1
		dirs = append(dirs, e)
	}
	for k := 0; k < 2; k++ {
		d := make([]float64, dim)
		for i := range d {
			d[i] = r.Norm()
		}
		dirs = append(dirs, d)
	}
	proj := make([][]float64, len(dirs))
	sum := newMatrix(dim, dim)
	var x mat.SymDense
	for t := 0; t < N; t++ {
		msg, panicked := try(func() {
			if useChol {
				var ch mat.Cholesky
				w.RandCholTo(&ch)
				x.Reset()
				ch.ToSym(&x)
			} else {
				x.Reset()
				w.RandSymTo(&x)
			}
		})
		if panicked {
			a.fail("distmat.Wishart."+method+"|-|panics", where, "panic: %s", msg)
			return
		}
		xm := fromSym(&x)
		for i := range xm {
			for j := range xm {
				sum[i][j] += xm[i][j]
			}
		}
		for k, d := range dirs {
			proj[k] = append(proj[k], dot(d, xm.mulVec(d)))
		}
		// (for nu close to dim-1 a draw is positive definite only in exact arithmetic)
		if t < 50 && nu >= float64(dim)+1 {
			if _, ok := chol(xm); !ok {
				a.fail("distmat.Wishart."+method+"|-|draw-not-positive-definite", where, "draw %v", xm)
				return
			}
		}
	}
	a.eval("distmat.Wishart."+method+"|rand", N)
	chi := distuv.ChiSquared{K: nu}
	eps := dkwEps(N)
	for k, d := range dirs {
		s := dot(d, v.mulVec(d))
		p := proj[k]
		sort.Float64s(p)
		D, at := 0.0, 0.0
		n := float64(N)
		for j, y := range p {
			f := chi.CDF(y / s)
			if dd := float64(j+1)/n - f; dd > D {
				D, at = dd, y
			}
			if dd := f - float64(j)/n; dd > D {
				D, at = dd, y
			}
		}
		cl := "axis"
		if k >= dim {
			cl = "oblique"
		}
		a.near("mat.wishart.dkw", "distmat.Wishart."+method+"|"+cl+"-quadratic-form|empirical-CDF-outside-DKW-band", fmt.Sprintf("%s dir=%v sup at %g", where, d, at), D, 0, eps)
	}
	// sample mean of every entry inside 8 standard errors: Var(X_ij) = nu (v_ij^2 + v_ii v_jj)
	// (seeded pass only: the nil-source pass keeps to non-asymptotic bands)
	for i := 0; i < dim && !m.nilSrc; i++ {
		for j := i; j < dim; j++ {
			sd := math.Sqrt(nu * (v[i][j]*v[i][j] + v[i][i]*v[j][j]) / float64(N))
			a.near("mat.wishart.mean8", "distmat.Wishart."+method+"|entry|sample-mean-outside-8-sigma", fmt.Sprintf("%s entry (%d,%d)", where, i, j), sum[i][j]/float64(N), nu*v[i][j], 8*sd)
		}
	}
}

func (m *mon) permutation(a *acc, idx int) {
	n := []int{1, 2, 3, 4, 3, 5, 2, 4}[idx%8]
	N := m.c.Pick(20000, 100000)
	where := fmt.Sprintf("distmat.UniformPermutation n=%d N=%d case %d", n, N, idx)
	m.c.LastCase(where)
	p := distmat.NewUniformPermutation(m.c.RNG("mat.perm.src", idx))
	fact := 1
	for i := 2; i <= n; i++ {
		fact *= i
	}
	counts := make([]int, fact)
	dst := mat.NewDense(n, n, nil)
	for t := 0; t < N; t++ {
		dst.Zero()
		p.PermTo(dst)
		// must be a permutation matrix; compute its Lehmer index
		perm := make([]int, n)
		colSeen := make([]bool, n)
		for i := 0; i < n; i++ {
			cnt := 0
			for j := 0; j < n; j++ {
				switch dst.At(i, j) {
				case 1:
					cnt++
					perm[i] = j
					if colSeen[j] {
						cnt = 99
					}
					colSeen[j] = true
				case 0:
				default:
					cnt = 99
				}
			}
			if cnt != 1 {
				a.fail("distmat.UniformPermutation.PermTo|-|not-a-permutation-matrix", where, "row %d of %v", i, mat.Formatted(dst))
				return
			}
		}
		code := 0
		for i := 0; i < n; i++ {
			c := 0
			for j := i + 1; j < n; j++ {
				if perm[j] < perm[i] {
					c++
				}
			}
			code = code*(n-i) + c
		}
		counts[code]++
	}
	a.eval("distmat.UniformPermutation.PermTo|-", N)
	// DKW on the (arbitrarily ordered) index of the permutation
	D := 0.0
	cum := 0
	for k, c := range counts {
		cum += c
		D = math.Max(D, math.Abs(float64(cum)/float64(N)-float64(k+1)/float64(fact)))
	}
	a.near("mat.perm.dkw", "distmat.UniformPermutation.PermTo|-|permutation-frequencies-outside-DKW-band", where, D, 0, dkwEps(N))
	if _, panicked := try(func() { p.PermTo(mat.NewDense(2, 3, nil)) }); !panicked {
		a.fail("distmat.UniformPermutation.PermTo|not-square|no-panic", where, "documented panic missing")
	}
}

func (m *mon) unitVector(a *acc, idx int) {
	d := []int{1, 2, 3, 4, 7, 2, 3, 5}[idx%8]
	N := m.c.Pick(20000, 100000)
	where := fmt.Sprintf("distmat.UnitVector dim=%d N=%d case %d", d, N, idx)
	m.c.LastCase(where)
	u := distmat.NewUnitVector(m.src("mat.unit.src", idx))
	v := mat.NewVecDense(d, nil)
	first := make([]float64, N)
	for t := 0; t < N; t++ {
		u.UnitVecTo(v)
		var s float64
		for i := 0; i < d; i++ {
			s += v.AtVec(i) * v.AtVec(i)
		}
		if math.Abs(s-1) > 1e-13 {
			a.fail("distmat.UnitVector.UnitVecTo|-|not-unit-length", where, "|v|^2 = %.17g", s)
			return
		}
		first[t] = v.AtVec(0)
	}
	a.eval("distmat.UnitVector.UnitVecTo|-", N)
	sort.Float64s(first)
	// the first coordinate of a uniform point on S^(d-1): (x+1)/2 ~ Beta((d-1)/2,(d-1)/2); d=1: +-1
	D := 0.0
	n := float64(N)
	if d == 1 {
		neg := 0
		for _, x := range first {
			if math.Abs(math.Abs(x)-1) > 1e-15 {
				a.fail("distmat.UnitVector.UnitVecTo|-|not-unit-length", where, "v = %v", x)
				return
			}
			if x < 0 {
				neg++
			}
		}
		D = math.Abs(float64(neg)/n - 0.5)
	} else {
		b := distuv.Beta{Alpha: float64(d-1) / 2, Beta: float64(d-1) / 2}
		D = ksContinuous(first, func(x float64) float64 { return b.CDF((x + 1) / 2) })
	}
	a.near("mat.unit.dkw", "distmat.UnitVector.UnitVecTo|-|first-coordinate-outside-DKW-band", where, D, 0, dkwEps(N))
}
