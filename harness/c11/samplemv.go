package main

import (
	"fmt"
	"math"
	"math/rand/v2"
	"sort"

	"gonum.org/v1/gonum/mat"
	"gonum.org/v1/gonum/stat/distmv"
	"gonum.org/v1/gonum/stat/samplemv"
	"gonum.org/v1/gonum/verifx/vrt"
)

// squareTarget is an unnormalised density on the unit square:
// 4*x0*(1-x1) <= 4, so c = 4 bounds it against the unit uniform proposal.
type squareTarget struct{}

func (squareTarget) LogProb(x []float64) float64 {
	if x[0] < 0 || x[0] > 1 || x[1] < 0 || x[1] > 1 {
		return math.Inf(-1)
	}
	return math.Log(4 * x[0] * (1 - x[1]))
}

// countingMV wraps a distmv.RandLogProber and counts Rand calls.
type countingMV struct {
	d     distmv.RandLogProber
	calls int
}

func (c *countingMV) Rand(x []float64) []float64  { c.calls++; return c.d.Rand(x) }
func (c *countingMV) LogProb(x []float64) float64 { return c.d.LogProb(x) }

func (m *mon) runSampleMV() {
	n := m.c.Pick(40, 400)
	vrt.Parallel(n, func(i int) {
		a := m.newAcc()
		defer a.flush()
		m.smvIID(a, i)
		m.smvLatin(a, i)
		m.smvHalton(a, i)
		m.smvImportance(a, i)
		m.smvRejection(a, i)
		m.smvMH(a, i)
	})
}

func nanDense(r, c int, v float64) *mat.Dense {
	d := mat.NewDense(r, c, nil)
	for i := 0; i < r; i++ {
		for j := 0; j < c; j++ {
			d.Set(i, j, v)
		}
	}
	return d
}

func (m *mon) smvIID(a *acc, idx int) {
	rows, dim := []int{1, 5, 40}[idx%3], 1+idx%3
	mu := make([]float64, dim)
	sg := randSPD(m.c.RNG("smv.iid.case", idx), dim, 0.2, 5).sym()
	d1, _ := distmv.NewNormal(mu, sg, m.c.RNG("smv.iid", idx))
	d2, _ := distmv.NewNormal(mu, sg, m.c.RNG("smv.iid", idx))
	b := nanDense(rows, dim, math.NaN())
	samplemv.IID{Dist: d1}.Sample(b)
	a.eval("samplemv.IID.Sample|-", 1)
	for i := 0; i < rows; i++ {
		w := d2.Rand(nil)
		for j := range w {
			if b.At(i, j) != w[j] {
				a.fail("samplemv.IID.Sample|-|not-successive-draws", fmt.Sprintf("rows=%d dim=%d case %d", rows, dim, idx), "row %d = %v want %v", i, b.RawRowView(i), w)
				return
			}
		}
	}
	wts := make([]float64, rows)
	samplemv.SampleUniformWeighted{Sampler: samplemv.IID{Dist: d1}}.SampleWeighted(b, wts)
	for i := range wts {
		if wts[i] != 1 {
			a.fail("samplemv.SampleUniformWeighted.SampleWeighted|-|weight-not-1", "", "weights[%d] = %v", i, wts[i])
			return
		}
	}
}

func (m *mon) smvLatin(a *acc, idx int) {
	rows, dim := []int{1, 2, 9, 64, 500}[idx%5], 1+idx%4
	where := fmt.Sprintf("samplemv.LatinHypercube rows=%d dim=%d case %d", rows, dim, idx)
	b := nanDense(rows, dim, []float64{math.NaN(), 0.5, 0}[idx%3])
	samplemv.LatinHypercube{Q: distmv.NewUnitUniform(dim, nil), Src: m.src("smv.lhs", idx)}.Sample(b)
	a.eval("samplemv.LatinHypercube.Sample|unit-uniform", 1)
	for j := 0; j < dim; j++ {
		col := mat.Col(nil, j, b)
		sort.Float64s(col)
		for i, v := range col {
			lo, hi := float64(i)/float64(rows), float64(i+1)/float64(rows)
			if !(v >= lo-1e-15 && v <= hi+1e-15) {
				a.fail("samplemv.LatinHypercube.Sample|unit-uniform|not-one-sample-per-stratum", where, "column %d sorted value #%d = %.17g outside [%g,%g]", j, i, v, lo, hi)
				return
			}
		}
	}
}

var smallPrimes = []int{2, 3, 5, 7, 11, 13}

func (m *mon) smvHalton(a *acc, idx int) {
	rows, dim := []int{1, 8, 27, 100, 625}[idx%5], 1+idx%5
	prefill := []float64{0, 0, 0.25, math.NaN()}[idx%4]
	class := "zeroed-batch"
	if prefill != 0 {
		class = "batch-with-previous-content"
	}
	where := fmt.Sprintf("samplemv.Halton rows=%d dim=%d prefill=%v case %d", rows, dim, prefill, idx)
	m.c.LastCase(where)
	b := nanDense(rows, dim, prefill)
	h := samplemv.Halton{Kind: samplemv.Owen, Q: distmv.NewUnitUniform(dim, nil), Src: m.src("smv.halton", idx)}
	if msg, panicked := try(func() { h.Sample(b) }); panicked {
		a.fail("samplemv.Halton.Sample|"+class+"|panics", where, "panic: %s", msg)
		return
	}
	a.eval("samplemv.Halton.Sample|"+class, 1)
	// radical-inverse structure: in base b_j the first b^k points (and every
	// aligned block of b^k consecutive points) fall one each into the b^k
	// intervals of length b^-k
	for j := 0; j < dim; j++ {
		base := smallPrimes[j]
		for i := 0; i < rows; i++ {
			if v := b.At(i, j); !(v >= 0 && v <= 1) {
				a.fail("samplemv.Halton.Sample|"+class+"|value-outside-unit-interval", where, "batch[%d,%d] = %v", i, j, v)
				return
			}
		}
		for bk := base; bk <= rows; bk *= base {
			for start := 0; start+bk <= rows; start += bk {
				seen := make([]bool, bk)
				for i := start; i < start+bk; i++ {
					v := b.At(i, j)
					cell := int(math.Floor(v * float64(bk)))
					// a value exactly on a cell boundary may belong to either side
					if cell >= bk {
						cell = bk - 1
					}
					if seen[cell] {
						if fr := v*float64(bk) - float64(cell); fr < 1e-12 && cell > 0 && !seen[cell-1] {
							cell--
						} else {
							a.fail("samplemv.Halton.Sample|"+class+"|block-not-stratified", where, "column %d (base %d): rows %d..%d do not hit every interval of length 1/%d once", j, base, start, start+bk-1, bk)
							return
						}
					}
					seen[cell] = true
				}
			}
		}
	}
	if _, panicked := try(func() {
		samplemv.Halton{Kind: 99, Q: distmv.NewUnitUniform(dim, nil), Src: m.c.RNG("smv.halton", idx)}.Sample(mat.NewDense(2, dim, nil))
	}); !panicked {
		a.fail("samplemv.Halton.Sample|unknown-kind|no-panic", where, "documented panic missing")
	}
}

func (m *mon) smvImportance(a *acc, idx int) {
	rows := []int{1, 10, 100}[idx%3]
	dim := 2
	mu := []float64{0.3, -0.2}
	sg := randSPD(m.c.RNG("smv.imp.case", idx), dim, 0.5, 2).sym()
	target, _ := distmv.NewNormal(mu, sg, nil)
	wide := mat.NewSymDense(2, []float64{4, 0.5, 0.5, 3})
	prop, _ := distmv.NewNormal([]float64{0, 0}, wide, m.c.RNG("smv.imp", idx))
	clone, _ := distmv.NewNormal([]float64{0, 0}, wide, m.c.RNG("smv.imp", idx))
	b := nanDense(rows, dim, math.NaN())
	w := make([]float64, rows)
	samplemv.Importance{Target: target, Proposal: prop}.SampleWeighted(b, w)
	a.eval("samplemv.Importance.SampleWeighted|-", 1)
	where := fmt.Sprintf("samplemv.Importance rows=%d case %d", rows, idx)
	for i := 0; i < rows; i++ {
		v := clone.Rand(nil)
		if b.At(i, 0) != v[0] || b.At(i, 1) != v[1] {
			a.fail("samplemv.Importance.SampleWeighted|-|sample-not-from-proposal-stream", where, "row %d = %v want %v", i, b.RawRowView(i), v)
			return
		}
		ww := math.Exp(target.LogProb(v) - clone.LogProb(v))
		a.near("smv.importance", "samplemv.Importance.SampleWeighted|-|weight!=p/q", where, w[i], ww, 1e-13*ww)
	}
	if _, panicked := try(func() {
		samplemv.Importance{Target: target, Proposal: prop}.SampleWeighted(b, make([]float64, rows+1))
	}); !panicked {
		a.fail("samplemv.Importance.SampleWeighted|length-mismatch|no-panic", where, "documented panic missing")
	}
}

func (m *mon) smvRejection(a *acc, idx int) {
	rows := []int{1, 10, 100}[idx%3]
	cOK := idx%4 != 3
	c := 4.0
	if !cOK {
		c = 2
	}
	class := "c-sufficient"
	if !cOK {
		class = "c-too-small"
	}
	mk := func() (*countingMV, rand.Source) {
		return &countingMV{d: distmv.NewUnitUniform(2, m.c.RNG("smv.rej.p", idx))}, m.c.RNG("smv.rej.u", idx)
	}
	prop, src := mk()
	rj := &samplemv.Rejection{C: c, Target: squareTarget{}, Proposal: prop, Src: src}
	b := nanDense(rows, 2, 7)
	rj.Sample(b)
	a.eval("samplemv.Rejection.Sample|"+class, 1)
	where := fmt.Sprintf("samplemv.Rejection rows=%d c=%g case %d", rows, c, idx)
	p2, s2 := mk()
	u := rand.New(s2)
	var want [][]float64
	proposed := 0
	failed := false
	v := make([]float64, 2)
	for len(want) < rows {
		proposed++
		p2.Rand(v)
		acc := math.Exp(squareTarget{}.LogProb(v)-p2.LogProb(v)) / c
		if acc > 1 {
			failed = true
			break
		}
		if acc > u.Float64() {
			want = append(want, append([]float64(nil), v...))
		}
	}
	if rj.Proposed() != proposed || prop.calls != proposed {
		a.fail("samplemv.Rejection.Proposed|"+class+"|wrong-count", where, "Proposed() = %d, proposal.Rand called %d times, model %d", rj.Proposed(), prop.calls, proposed)
	}
	if failed {
		if rj.Err() != samplemv.ErrRejection {
			a.fail("samplemv.Rejection.Err|"+class+"|not-ErrRejection", where, "Err() = %v", rj.Err())
		}
		for i := 0; i < rows; i++ {
			if !math.IsNaN(b.At(i, 0)) || !math.IsNaN(b.At(i, 1)) {
				a.fail("samplemv.Rejection.Sample|"+class+"|samples-not-NaN-after-failure", where, "row %d = %v", i, b.RawRowView(i))
				break
			}
		}
		return
	}
	if rj.Err() != nil {
		a.fail("samplemv.Rejection.Err|"+class+"|spurious-error", where, "Err() = %v", rj.Err())
	}
	for i := 0; i < rows; i++ {
		if b.At(i, 0) != want[i][0] || b.At(i, 1) != want[i][1] {
			a.fail("samplemv.Rejection.Sample|"+class+"|accepted-samples-differ-from-model", where, "row %d = %v want %v", i, b.RawRowView(i), want[i])
			return
		}
	}
}

func (m *mon) smvMH(a *acc, idx int) {
	r := m.c.RNG("smv.mh.case", idx)
	rows := r.PickInt(1, 2, 5, 30, 100)
	burn := r.PickInt(0, 0, 1, 3, 10, 37, 150)
	rate := r.PickInt(0, 1, 1, 2, 3, 7, 40, 250)
	prefill := []float64{math.NaN(), 123, 0}[idx%3]
	dim := 2
	tsg := randSPD(r, dim, 0.5, 3).sym()
	target, _ := distmv.NewNormal([]float64{1, -1}, tsg, nil)
	psg := mat.NewSymDense(2, []float64{1.2, 0.3, 0.3, 0.8})
	initial := []float64{-2, 3}
	mk := func() (*samplemv.ProposalNormal, rand.Source) {
		p, _ := samplemv.NewProposalNormal(psg, m.c.RNG("smv.mh.p", idx))
		return p, m.c.RNG("smv.mh.u", idx)
	}
	prop, src := mk()
	b := nanDense(rows, dim, prefill)
	class := "burn-in=0"
	if burn > 0 {
		class = "burn-in>0"
	}
	if rate > 1 {
		class += ",rate>1"
	}
	where := fmt.Sprintf("samplemv.MetropolisHastingser rows=%d BurnIn=%d Rate=%d prefill=%v case %d", rows, burn, rate, prefill, idx)
	m.c.LastCase(where)
	mh := samplemv.MetropolisHastingser{Initial: initial, Target: target, Proposal: prop, Src: src, BurnIn: burn, Rate: rate}
	if msg, panicked := try(func() { mh.Sample(b) }); panicked {
		a.fail("samplemv.MetropolisHastingser.Sample|"+class+"|panics", where, "panic: %s", msg)
		return
	}
	a.eval("samplemv.MetropolisHastingser.Sample|"+class, 1)
	if initial[0] != -2 || initial[1] != 3 {
		a.fail("samplemv.MetropolisHastingser.Sample|"+class+"|modifies-Initial", where, "Initial = %v", initial)
	}
	er := rate
	if er == 0 {
		er = 1
	}
	T := burn + er*rows + er
	p2, s2 := mk()
	u := rand.New(s2)
	chain := make([][]float64, T+1)
	cur := append([]float64(nil), initial...)
	chain[0] = cur
	curLP := target.LogProb(cur)
	tie := false
	for t := 1; t <= T; t++ {
		x := p2.ConditionalRand(nil, cur)
		lp := target.LogProb(x)
		acc := math.Exp(lp + p2.ConditionalLogProb(cur, x) - p2.ConditionalLogProb(x, cur) - curLP)
		uu := u.Float64()
		if math.Abs(acc-uu) < 1e-9 {
			tie = true
		}
		if acc > uu {
			cur, curLP = x, lp
		}
		chain[t] = cur
	}
	if tie {
		a.noverdict("smv.mh.acceptance-tie")
		return
	}
	match := false
	for s0 := 1; s0 <= er && !match; s0++ {
		ok := true
		for k := 0; k < rows && ok; k++ {
			c := chain[burn+s0+k*er]
			ok = b.At(k, 0) == c[0] && b.At(k, 1) == c[1]
		}
		match = ok
	}
	if !match {
		a.fail("samplemv.MetropolisHastingser.Sample|"+class+"|chain-differs-from-documented-procedure", where,
			"row 0 = %v; model chain after burn-in starts %v", b.RawRowView(0), chain[burn+1])
	}
}
