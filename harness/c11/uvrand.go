package main

import (
	"fmt"
	"math"
	"sort"

	"gonum.org/v1/gonum/verifx/vrt"
)

// dkwDelta is the per-distribution false-alarm probability of the
// Dvoretzky-Kiefer-Wolfowitz band sup|F_N - F| <= sqrt(ln(2/delta)/(2N))
// (Massart's tight constant; valid for every N and every law, discrete
// included).
const dkwDelta = 1e-12

func dkwEps(n int) float64 { return math.Sqrt(math.Log(2/dkwDelta) / (2 * float64(n))) }

func (m *mon) nDraws() int {
	if m.nilSrc {
		return m.c.Pick(20000, 50000)
	}
	return m.c.Pick(50000, 200000)
}

// runUVRand draws N variates from every law that has a Rand method and
// judges support membership, the DKW band against the law's own CDF and
// 8-sigma bands on the sample mean and variance.
func (m *mon) runUVRand() {
	m.runStable()
	m.uvRandLaws()
}

func (m *mon) uvRandLaws() {
	laws := m.uvLaws()
	N := m.nDraws()
	vrt.Parallel(len(laws), func(i int) {
		l := laws[i]
		d := l.mk(m.src("uvrand", i))
		R, ok := d.(rander)
		if !ok {
			return
		}
		a := m.newAcc()
		defer a.flush()
		m.c.LastCase("uvrand " + l.String())
		F, hasF := d.(cdfer)
		where := l.String()
		class := m.rclass(l.pclass)
		xs := make([]float64, N)
		pmsg, panicked := try(func() {
			for j := range xs {
				xs[j] = R.Rand()
			}
		})
		a.eval("distuv."+l.typ+".Rand|"+class, N)
		if panicked {
			a.fail(sig(l, "Rand", class, "panics"), where, "panic: %s", pmsg)
			return
		}
		// support membership (exact)
		for _, x := range xs {
			if math.IsNaN(x) || x < l.lo || x > l.hi || (l.discrete && x != math.Floor(x)) {
				a.fail(sig(l, "Rand", class, "draw-outside-support"), where, "Rand() = %v, support [%g,%g]", x, l.lo, l.hi)
				return
			}
		}
		if l.discrete {
			if P, ok := d.(prober); ok {
				seen := map[float64]bool{}
				for _, x := range xs {
					if !seen[x] {
						seen[x] = true
						if P.Prob(x) == 0 {
							a.fail(sig(l, "Rand", class, "draw-has-zero-probability"), where, "Rand() = %v but Prob = 0", x)
							return
						}
					}
				}
			}
		}
		sort.Float64s(xs)
		if hasF {
			eps := dkwEps(N)
			D, at := 0.0, 0.0
			n := float64(N)
			if l.discrete {
				for j := 0; j < N; {
					k := j
					for k < N && xs[k] == xs[j] {
						k++
					}
					// F_N jumps from j/n to k/n at xs[j]
					f := F.CDF(xs[j])
					fm := 0.0
					if xs[j] > 0 {
						fm = F.CDF(xs[j] - 1)
					}
					if dd := math.Abs(float64(k)/n - f); dd > D {
						D, at = dd, xs[j]
					}
					if dd := math.Abs(float64(j)/n - fm); dd > D {
						D, at = dd, xs[j]-1
					}
					j = k
				}
			} else {
				// A draw is the rounding of a real number: where the strict
				// comparison fails, F_N(x) is compared with F one ulp above
				// and F_N(x-) with F one ulp below (matters only where a
				// visible part of the mass sits inside one ulp, e.g. next
				// to 1 for Beta with a small second shape).
				for j := 0; j < N; {
					k := j
					for k < N && xs[k] == xs[j] {
						k++
					}
					x := xs[j]
					f := F.CDF(x)
					if dd := float64(k)/n - f; dd > D {
						if dd > eps {
							try(func() { dd = float64(k)/n - F.CDF(math.Nextafter(x, math.Inf(1))) })
						}
						if dd > D {
							D, at = dd, x
						}
					}
					if dd := f - float64(j)/n; dd > D {
						if dd > eps {
							try(func() { dd = F.CDF(math.Nextafter(x, math.Inf(-1))) - float64(j)/n })
						}
						if dd > D {
							D, at = dd, x
						}
					}
					j = k
				}
			}
			a.eval("distuv."+l.typ+".CDF|ecdf", N)
			a.near("rand.dkw", sig(l, "Rand", class, "empirical-CDF-outside-DKW-band"), fmt.Sprintf("%s N=%d sup at x=%g", where, N, at), D, 0, eps)
		}
		if !m.nilSrc {
			m.sampleMoments(a, l, d, xs, class)
		}
	})
}

// sampleMoments compares the sample mean and variance with the closed forms
// inside 8 standard errors, for laws whose tails make that band safe.
func (m *mon) sampleMoments(a *acc, l *law, d any, xs []float64, class string) {
	if l.clt < 1 || l.edge {
		return
	}
	where := l.String()
	n := float64(len(xs))
	var s kahan
	for _, x := range xs {
		s.add(x)
	}
	xbar := s.s / n
	var s2, s4 kahan
	for _, x := range xs {
		dx := x - xbar
		s2.add(dx * dx)
		s4.add(dx * dx * dx * dx)
	}
	sv := s2.s / (n - 1)
	m4 := s4.s / n
	vr := sv
	if vv, ok := d.(variancer); ok {
		if g := vv.Variance(); isFinite(g) && g > 0 {
			vr = g
		}
	}
	if mm, ok := d.(meaner); ok {
		if g := mm.Mean(); isFinite(g) {
			a.near("rand.mean", sig(l, "Rand", class, "sample-mean-outside-8-sigma"), where, xbar, g, 8*math.Sqrt(vr/n)+1e-300)
		}
	}
	if l.clt >= 2 {
		if vv, ok := d.(variancer); ok {
			g := vv.Variance()
			k4 := 1.5 * m4 // plug-in, inflated
			if ek, ok := d.(exkurtosiser); ok {
				if e := ek.ExKurtosis(); isFinite(e) {
					k4 = (e + 3) * g * g
				}
			}
			se := math.Sqrt(math.Max(k4-g*g, 0.1*g*g) / n)
			a.near("rand.variance", sig(l, "Rand", class, "sample-variance-outside-8-sigma"), where, sv, g, 8*se+1e-300)
		}
	}
}
