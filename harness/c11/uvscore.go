package main

import (
	"fmt"
	"math"

	"gonum.org/v1/gonum/verifx/vrt"
)

const (
	// Score / ScoreInput against Richardson-extrapolated central differences
	// of LogProb: |analytic - numeric| <= tolScore*max(|numeric|, 1/scale) + 10*errEst.
	// Worst observed ratio on the pinned tree: see evidence notes (score.*).
	tolScore = 1e-6
)

// runUVScore compares Score (gradient of LogProb in the parameters, in the
// documented order) and ScoreInput (derivative in x) with finite
// differences of LogProb taken through freshly constructed values.
func (m *mon) runUVScore() {
	var laws []*law
	for _, l := range m.uvLaws() {
		if l.with != nil {
			laws = append(laws, l)
		}
	}
	vrt.Parallel(len(laws), func(i int) {
		l := laws[i]
		a := m.newAcc()
		defer a.flush()
		d := l.mk(nil)
		where := l.String()
		m.c.LastCase("uvscore " + where)
		Q, hasQ := d.(quantiler)
		if !hasQ {
			return
		}
		if l.typ == "Triangle" && l.pclass != "mode-interior" {
			a.noverdict("uvscore.parameter-on-constraint-boundary")
			return
		}
		sc, hasScore := d.(scorer)
		si, hasSI := d.(scoreInputer)
		for _, p := range []float64{0.03, 0.2, 0.41, 0.5, 0.63, 0.9, 0.995} {
			x := Q.Quantile(p)
			// distance to the nearest point where LogProb is not smooth
			dist := math.Inf(1)
			for _, k := range append([]float64{l.lo, l.hi}, append(l.knots, l.theta...)...) {
				if l.typ == "Weibull" || l.typ == "Exponential" || l.typ == "Normal" {
					// parameters of these laws are not locations of kinks
					if k != l.lo && k != l.hi {
						continue
					}
				}
				if dd := math.Abs(x - k); dd < dist {
					dist = dd
				}
			}
			if l.typ == "Normal" {
				dist = math.Inf(1)
			}
			if dist < 1e-6*l.scale {
				a.noverdict("uvscore.x-at-kink")
				continue
			}
			if hasScore {
				var got []float64
				if msg, panicked := try(func() { got = sc.Score(nil, x) }); panicked {
					a.fail(sig(l, "Score", "interior", "panics"), where, "Score(nil, %g) panics: %s", x, msg)
					continue
				}
				a.eval("distuv."+l.typ+".Score|interior", 1)
				if len(got) != len(l.theta) {
					a.fail(sig(l, "Score", "interior", "wrong-length"), where, "len(Score) = %d, want %d", len(got), len(l.theta))
					continue
				}
				// in-place form must agree with the allocating form
				buf := make([]float64, len(l.theta))
				ret := sc.Score(buf, x)
				for j := range buf {
					if !(buf[j] == got[j] || (math.IsNaN(buf[j]) && math.IsNaN(got[j]))) || &ret[0] != &buf[0] {
						a.fail(sig(l, "Score", "interior", "in-place-differs"), where, "Score(buf,x) = %v (returned same slice: %v), Score(nil,x) = %v", buf, &ret[0] == &buf[0], got)
						break
					}
				}
				for j := range l.theta {
					h := 1e-2 * math.Max(math.Abs(l.theta[j])*0.1, l.scale*0.1)
					if l.typ == "Weibull" || l.typ == "Exponential" {
						h = 1e-2 * l.theta[j]
					}
					if h > 0.2*dist {
						h = 0.2 * dist
					}
					f := func(t float64) float64 {
						th := append([]float64(nil), l.theta...)
						th[j] = t
						return l.with(th).(logprober).LogProb(x)
					}
					num, errEst := richardson(f, l.theta[j], h)
					a.eval("distuv."+l.typ+".LogProb|finite-difference", 6)
					nat := 1 / math.Max(math.Abs(l.theta[j]), l.scale)
					a.near("score.param", sig(l, "Score", "interior", "d/d"+l.thetaNames[j]+"-differs-from-finite-difference"),
						fmt.Sprintf("%s x=%g", where, x), got[j], num, tolScore*math.Max(math.Abs(num), nat)+10*errEst)
				}
			}
			if hasSI {
				var got float64
				if msg, panicked := try(func() { got = si.ScoreInput(x) }); panicked {
					a.fail(sig(l, "ScoreInput", "interior", "panics"), where, "ScoreInput(%g) panics: %s", x, msg)
					continue
				}
				a.eval("distuv."+l.typ+".ScoreInput|interior", 1)
				h := math.Min(1e-3*l.scale, 0.2*dist)
				lp := d.(logprober)
				num, errEst := richardson(lp.LogProb, x, h)
				a.near("score.input", sig(l, "ScoreInput", "interior", "differs-from-finite-difference"),
					fmt.Sprintf("%s x=%g", where, x), got, num, tolScore*math.Max(math.Abs(num), 1/l.scale)+10*errEst)
			}
		}
	})
}
