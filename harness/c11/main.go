// Command c11 is the monitor for property C11: each probability
// distribution's methods describe one and the same law.
//
// It observes the exported API of stat/distuv, stat/distmv, stat/distmat,
// stat/sampleuv, stat/samplemv and mathext on a deterministic workload and
// judges every answer against the harness's own numerics:
//
//   - distuv: the method set of every type is discovered by interface
//     assertion; CDF/Survival/Prob/LogProb/Quantile are cross-checked on a
//     quantile grid (and outside the support), densities are integrated by
//     tanh-sinh / exp-sinh quadrature panel by panel and compared with CDF
//     differences, closed-form moments / entropy / median / mode with the
//     integrals; discrete laws by exact summation; Rand by support
//     membership, the DKW band and 8-sigma sample moments; Score/ScoreInput by
//     Richardson-extrapolated central differences of LogProb; Fit by
//     stationarity of the weighted likelihood; ConjugateUpdate by pooling.
//   - distmv / distmat / samplers / mathext: see the respective files.
package main

import (
	"flag"
	"strings"

	"gonum.org/v1/gonum/verifx/vrt"
)

var only = flag.String("sub", "", "run only the named sub-monitors (comma separated; debugging)")

func main() { vrt.Main("C11", run) }

func run(c *vrt.Ctx) {
	m := newMon(c)
	subs := []struct {
		name string
		f    func()
	}{
		{"uv", m.runUV},
		{"uvrand", m.runUVRand},
		{"uvscore", m.runUVScore},
		{"uvfit", m.runUVFit},
		{"uvdist", m.runUVStatDist},
		{"mathext", m.runMathext},
		{"mv", m.runMV},
		{"mat", m.runMat},
		{"sampleuv", m.runSampleUV},
		{"samplemv", m.runSampleMV},
		{"history", m.runHistory},
		{"nilsrc", m.runNilSrc},
		{"docs", func() { a := m.newAcc(); m.runDocs(a); a.flush() }},
	}
	want := map[string]bool{}
	if *only != "" {
		for _, s := range strings.Split(*only, ",") {
			want[s] = true
		}
	}
	for _, s := range subs {
		if len(want) != 0 && !want[s.name] {
			continue
		}
		s.f()
	}
	m.flushNotes()
}
