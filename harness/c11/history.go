package main

import (
	"fmt"
	"math"
	"sort"

	"gonum.org/v1/gonum/mat"
	"gonum.org/v1/gonum/spatial/r1"
	"gonum.org/v1/gonum/stat/distmat"
	"gonum.org/v1/gonum/stat/distmv"
	"gonum.org/v1/gonum/stat/distuv"
	"gonum.org/v1/gonum/stat/samplemv"
	"gonum.org/v1/gonum/stat/sampleuv"
	"gonum.org/v1/gonum/verifx/vrt"
)

// Mutation histories: every object with mutators or cached state is driven
// through a seeded history and must afterwards answer every query like a
// freshly constructed object with the same parameters (exactly where the
// computation is the same, inside a rounding band where the object keeps
// running sums), and its Rand must follow the law of the current
// parameters (DKW band).

const (
	// Categorical keeps its total by adding weight differences: a rounding
	// band relative to the value, for weights within e^-2..e^2 and <= 14 operations.
	tolHistCategorical = 1e-11
)

func (m *mon) runHistory() {
	lengths := []int{1, 2, 3, 5, 7, 8, 9, 12, 16, 17, 31, 40}
	if m.c.Thorough() {
		lengths = lengths[:0]
		for n := 1; n <= 40; n++ {
			lengths = append(lengths, n)
		}
	}
	type job struct{ n, idx int }
	var jobs []job
	for _, n := range lengths {
		for idx := 0; idx < n; idx++ {
			jobs = append(jobs, job{n, idx})
		}
	}
	vrt.Parallel(len(jobs), func(i int) {
		a := m.newAcc()
		defer a.flush()
		m.histCategorical(a, jobs[i].n, jobs[i].idx, i)
		m.histWeighted(a, jobs[i].n, jobs[i].idx, i)
	})
	nr := m.c.Pick(8, 60)
	vrt.Parallel(nr, func(i int) {
		a := m.newAcc()
		defer a.flush()
		m.histCategoricalRand(a, i)
		m.histWeightedRand(a, i)
	})
	n := m.c.Pick(40, 300)
	vrt.Parallel(n, func(i int) {
		a := m.newAcc()
		defer a.flush()
		m.histFit(a, i)
		m.histNormalMV(a, i)
		m.histDstReuse(a, i)
		m.histSamplers(a, i)
	})
	a := m.newAcc()
	m.ownership(a)
	a.flush()
}

// ownership: constructors copy their slice arguments and accessors return
// copies, so later changes by the caller must not reach the object.
func (m *mon) ownership(a *acc) {
	w := []float64{1, 2, 3, 4, 0, 7, 0.5}
	c := distuv.NewCategorical(w, nil)
	p3 := c.Prob(3)
	w[3] = 100
	if c.Prob(3) != p3 {
		a.fail("distuv.NewCategorical|caller-modifies-argument|object-changed", "w[3] = 100 after construction", "Prob(3) %v -> %v", p3, c.Prob(3))
	}
	w2 := []float64{5, 1, 1, 1, 1, 1, 1}
	c.ReweightAll(w2)
	p0 := c.Prob(0)
	w2[0] = 0
	if c.Prob(0) != p0 {
		a.fail("distuv.Categorical.ReweightAll|caller-modifies-argument|object-changed", "w[0] = 0 after ReweightAll", "Prob(0) %v -> %v", p0, c.Prob(0))
	}
	sw := []float64{0, 0, 1, 0}
	s := sampleuv.NewWeighted(sw, m.c.RNG("own.weighted"))
	sw[0], sw[2] = 1, 0
	if i, ok := s.Take(); !ok || i != 2 {
		a.fail("sampleuv.NewWeighted|caller-modifies-argument|object-changed", "weights swapped after construction", "Take() = (%d,%v), want 2", i, ok)
	}
	mu := []float64{1, 2}
	sg := mat.NewSymDense(2, []float64{2, 0.3, 0.3, 1})
	n, _ := distmv.NewNormal(mu, sg, nil)
	x := []float64{0.5, 0.5}
	lp := n.LogProb(x)
	mu[0] = 50
	sg.SetSym(0, 0, 40)
	if n.LogProb(x) != lp {
		a.fail("distmv.NewNormal|caller-modifies-argument|object-changed", "mu and sigma changed after construction", "LogProb %v -> %v", lp, n.LogProb(x))
	}
	got := n.Mean(nil)
	got[1] = -77
	if n.Mean(nil)[1] != 2 {
		a.fail("distmv.Normal.Mean|caller-modifies-result|object-changed", "Mean(nil)[1] = -77", "Mean now %v", n.Mean(nil))
	}
	mu = []float64{1, 2}
	sg = mat.NewSymDense(2, []float64{2, 0.3, 0.3, 1})
	st, _ := distmv.NewStudentsT(mu, sg, 4, nil)
	lp = st.LogProb(x)
	mu[0] = 50
	sg.SetSym(0, 0, 40)
	if st.LogProb(x) != lp {
		a.fail("distmv.NewStudentsT|caller-modifies-argument|object-changed", "mu and sigma changed after construction", "LogProb %v -> %v", lp, st.LogProb(x))
	}
	al := []float64{2, 3, 4}
	d := distmv.NewDirichlet(al, nil)
	m0 := d.Mean(nil)[0]
	al[0] = 90
	if d.Mean(nil)[0] != m0 {
		a.fail("distmv.NewDirichlet|caller-modifies-argument|object-changed", "alpha[0] = 90 after construction", "Mean[0] %v -> %v", m0, d.Mean(nil)[0])
	}
	bn := []r1.Interval{{Min: 0, Max: 2}, {Min: -1, Max: 1}}
	u := distmv.NewUniform(bn, nil)
	e := u.Entropy()
	bn[0].Max = 200
	bb := u.Bounds(nil)
	bb[1].Max = 300
	if u.Entropy() != e {
		a.fail("distmv.NewUniform|caller-modifies-argument-or-Bounds-result|object-changed", "bounds changed by the caller", "Entropy %v -> %v", e, u.Entropy())
	}
	wv := mat.NewSymDense(2, []float64{2, 0.3, 0.3, 1})
	wi, _ := distmat.NewWishart(wv, 3.5, nil)
	lw := wi.LogProbSym(sg)
	wv.SetSym(1, 1, 30)
	if wi.LogProbSym(sg) != lw {
		a.fail("distmat.NewWishart|caller-modifies-argument|object-changed", "V changed after construction", "LogProbSym %v -> %v", lw, wi.LogProbSym(sg))
	}
	a.eval("ownership|constructors-and-accessors", 9)
}

func histWeights(r *vrt.Rand, n int) []float64 {
	w := make([]float64, n)
	pos := false
	for i := range w {
		if r.Intn(5) != 0 {
			w[i] = math.Exp(r.Uniform(-2, 2))
			pos = true
		}
	}
	if !pos {
		w[r.Intn(n)] = 1
	}
	return w
}

func histNewWeight(r *vrt.Rand, old float64) float64 {
	switch r.Intn(4) {
	case 0:
		return 0
	case 1:
		return old * 3.7
	}
	return math.Exp(r.Uniform(-2, 2))
}

// categoricalHistory applies a prefix of random mutations followed by a
// Reweight of index last (if last >= 0) and returns the model weights.
func categoricalHistory(r *vrt.Rand, c distuv.Categorical, w []float64, prefix, last int) (desc string, err string) {
	n := len(w)
	total := func() float64 {
		var s float64
		for _, v := range w {
			s += v
		}
		return s
	}
	apply := func(idx int, nw float64) {
		if total()-w[idx]+nw <= 0 {
			nw = 1 // keep at least one positive weight (documented requirement)
		}
		desc += fmt.Sprintf(" Reweight(%d,%.3g)", idx, nw)
		if msg, panicked := try(func() { c.Reweight(idx, nw) }); panicked {
			err = msg
		}
		w[idx] = nw
	}
	for k := 0; k < prefix && err == ""; k++ {
		if r.Intn(6) == 0 {
			nw := histWeights(r, n)
			copy(w, nw)
			desc += " ReweightAll"
			if msg, panicked := try(func() { c.ReweightAll(nw) }); panicked {
				err = msg
			}
			continue
		}
		idx := r.Intn(n)
		apply(idx, histNewWeight(r, w[idx]))
	}
	if last >= 0 && err == "" {
		nw := histNewWeight(r, w[last])
		if nw == w[last] {
			nw = w[last] + 1
		}
		apply(last, nw)
	}
	return desc, err
}

func (m *mon) histCategorical(a *acc, n, idx, caseNo int) {
	r := m.c.RNG("hist.cat", n, idx)
	w := histWeights(r, n)
	c := distuv.NewCategorical(w, nil)
	model := append([]float64(nil), w...)
	desc, perr := categoricalHistory(r, c, model, r.Intn(4), idx)
	where := fmt.Sprintf("distuv.Categorical n=%d history:%s", n, desc)
	m.c.LastCase(where)
	a.eval("distuv.Categorical.Reweight|history", 1)
	if perr != "" {
		a.fail("distuv.Categorical.Reweight|valid-weights|panics", where, "panic: %s", perr)
		return
	}
	if m.c.WantSample() && n == 8 && idx == 6 {
		m.c.Sample(map[string]any{"sub": "history", "object": "Categorical", "history": desc, "weights": model})
	}
	fresh := distuv.NewCategorical(model, nil)
	cmp := func(method string, got, want float64) {
		a.near("hist.categorical", "distuv.Categorical."+method+"|after-mutation-history|differs-from-fresh-object", where, got, want,
			tolHistCategorical*math.Max(math.Abs(want), 1e-300)+1e-300)
	}
	if c.Len() != n {
		a.fail("distuv.Categorical.Len|after-mutation-history|differs-from-fresh-object", where, "Len() = %d", c.Len())
	}
	var sum kahan
	for k := 0; k < n; k++ {
		x := float64(k)
		p := c.Prob(x)
		sum.add(p)
		cmp("Prob", p, fresh.Prob(x))
		lp, flp := c.LogProb(x), fresh.LogProb(x)
		if !(math.IsInf(lp, -1) && math.IsInf(flp, -1)) {
			a.near("hist.categorical", "distuv.Categorical.LogProb|after-mutation-history|differs-from-fresh-object", where, lp, flp, 1e-10)
		}
		cmp("CDF", c.CDF(x), fresh.CDF(x))
		cmp("CDF", c.CDF(x+0.5), fresh.CDF(x+0.5))
	}
	a.eval("distuv.Categorical.Prob|after-mutation-history", 3*n)
	a.near("hist.categorical", "distuv.Categorical.Prob|after-mutation-history|does-not-sum-to-1", where, sum.s, 1, 1e-10)
	cmp("Mean", c.Mean(), fresh.Mean())
	a.near("hist.categorical", "distuv.Categorical.Entropy|after-mutation-history|differs-from-fresh-object", where, c.Entropy(), fresh.Entropy(), 1e-10)
}

func (m *mon) histCategoricalRand(a *acc, idx int) {
	r := m.c.RNG("hist.cat.rand", idx)
	n := r.PickInt(7, 8, 9, 12, 17, 31, 40)
	w := histWeights(r, n)
	c := distuv.NewCategorical(w, m.c.RNG("hist.cat.rand.src", idx))
	model := append([]float64(nil), w...)
	// make sure an even index >= 6 and an odd one take part
	last := 6 + 2*r.Intn((n-5)/2)
	if idx%2 == 1 {
		last = r.Intn(n)
	}
	desc, perr := categoricalHistory(r, c, model, 2+r.Intn(8), last)
	N := m.c.Pick(20000, 100000)
	where := fmt.Sprintf("distuv.Categorical n=%d N=%d history:%s", n, N, desc)
	m.c.LastCase(where)
	if perr != "" {
		a.fail("distuv.Categorical.Reweight|valid-weights|panics", where, "panic: %s", perr)
		return
	}
	counts := make([]int, n)
	msg, panicked := try(func() {
		for t := 0; t < N; t++ {
			x := c.Rand()
			k := int(x)
			if float64(k) != x || k < 0 || k >= n {
				panic(fmt.Sprintf("draw %v outside 0..%d", x, n-1))
			}
			counts[k]++
		}
	})
	a.eval("distuv.Categorical.Rand|after-mutation-history", N)
	if panicked {
		a.fail("distuv.Categorical.Rand|after-mutation-history|panics", where, "panic: %s", msg)
		return
	}
	var tot float64
	for _, v := range model {
		tot += v
	}
	D, cum, cw := 0.0, 0, 0.0
	for k := range model {
		cum += counts[k]
		cw += model[k]
		D = math.Max(D, math.Abs(float64(cum)/float64(N)-cw/tot))
	}
	a.near("hist.dkw", "distuv.Categorical.Rand|after-mutation-history|frequencies-outside-DKW-band", where, D, 0, dkwEps(N))
}

// histWeighted: sampleuv.Weighted documents that Reweight keeps the heap
// state consistent with a reset, so after any history the sequence of Take
// results equals that of a fresh object over the same weights and stream.
func (m *mon) histWeighted(a *acc, n, idx, caseNo int) {
	r := m.c.RNG("hist.weighted", n, idx)
	w := histWeights(r, n)
	s := sampleuv.NewWeighted(w, m.c.RNG("hist.weighted.src", n, idx))
	model := append([]float64(nil), w...)
	desc := ""
	prefix := r.Intn(5)
	withTake := r.Intn(3) == 0
	for k := 0; k <= prefix; k++ {
		op := r.Intn(6)
		if op == 1 && !withTake {
			op = 2
		}
		switch {
		case k == prefix: // the designated index last
			nw := histNewWeight(r, model[idx]) + 0.25
			s.Reweight(idx, nw)
			model[idx] = nw
			desc += fmt.Sprintf(" Reweight(%d,%.3g)", idx, nw)
		case op == 0:
			nw := histWeights(r, n)
			s.ReweightAll(nw)
			copy(model, nw)
			desc += " ReweightAll"
		case op == 1:
			i, ok := s.Take()
			desc += fmt.Sprintf(" Take->%d", i)
			if ok && i >= 0 && i < n {
				if model[i] == 0 {
					a.fail("sampleuv.Weighted.Take|after-mutation-history|takes-zero-weight-item", fmt.Sprintf("n=%d history:%s", n, desc), "index %d", i)
					return
				}
				model[i] = 0
			}
		default:
			j := r.Intn(n)
			nw := histNewWeight(r, model[j])
			s.Reweight(j, nw)
			model[j] = nw
			desc += fmt.Sprintf(" Reweight(%d,%.3g)", j, nw)
		}
	}
	where := fmt.Sprintf("sampleuv.Weighted n=%d history:%s", n, desc)
	m.c.LastCase(where)
	a.eval("sampleuv.Weighted.Reweight|history", 1)
	// a fresh object over the current weights on an identical stream (the
	// history consumed no random numbers unless it contained a Take)
	fresh := sampleuv.NewWeighted(model, m.c.RNG("hist.weighted.src", n, idx))
	pos := 0
	for _, v := range model {
		if v > 0 {
			pos++
		}
	}
	seen := map[int]bool{}
	for k := 0; k < pos; k++ {
		i, ok := s.Take()
		if !ok || i < 0 || i >= n || model[i] == 0 || seen[i] {
			a.fail("sampleuv.Weighted.Take|after-mutation-history|not-a-remaining-positive-item", where, "take %d of %d returned (%d,%v)", k+1, pos, i, ok)
			return
		}
		seen[i] = true
		fi, fok := fresh.Take()
		if !fok {
			a.fail("sampleuv.Weighted.Take|fresh|reports-exhausted-early", where, "take %d of %d", k+1, pos)
			return
		}
		// Reweight is documented (source comment) to keep the heap identical
		// to that of a reset, so the same stream gives the same items; a
		// difference needs a stale or differently rounded partial sum.
		if !withTake && fi != i {
			a.fail("sampleuv.Weighted.Take|after-mutation-history|differs-from-fresh-object-on-the-same-stream", where, "take %d: %d, fresh object %d", k+1, i, fi)
			return
		}
	}
	if i, ok := s.Take(); ok || i != -1 {
		a.fail("sampleuv.Weighted.Take|after-mutation-history|returns-item-when-exhausted", where, "got (%d,%v)", i, ok)
	}
	a.eval("sampleuv.Weighted.Take|after-mutation-history", pos+1)
}

// histWeightedRand: the first Take after a deterministic history follows
// the current weights.
func (m *mon) histWeightedRand(a *acc, idx int) {
	r := m.c.RNG("hist.weighted.rand", idx)
	n := r.PickInt(7, 8, 9, 12, 17, 31, 40)
	w0 := histWeights(r, n)
	type op struct {
		idx int
		w   float64
		all []float64
	}
	var ops []op
	model := append([]float64(nil), w0...)
	for k := 0; k < 2+r.Intn(6); k++ {
		if r.Intn(6) == 0 {
			nw := histWeights(r, n)
			ops = append(ops, op{all: nw})
			copy(model, nw)
			continue
		}
		j := r.Intn(n)
		if k == 0 {
			j = 6 + 2*r.Intn((n-5)/2)
		}
		nw := histNewWeight(r, model[j]) + 0.1
		ops = append(ops, op{idx: j, w: nw})
		model[j] = nw
	}
	trials := m.c.Pick(20000, 100000)
	s := sampleuv.NewWeighted(w0, m.c.RNG("hist.weighted.rand.src", idx))
	counts := make([]int, n)
	for t := 0; t < trials; t++ {
		s.ReweightAll(w0)
		for _, o := range ops {
			if o.all != nil {
				s.ReweightAll(o.all)
			} else {
				s.Reweight(o.idx, o.w)
			}
		}
		i, ok := s.Take()
		if !ok || i < 0 || i >= n {
			a.fail("sampleuv.Weighted.Take|after-mutation-history|not-a-remaining-positive-item", fmt.Sprintf("n=%d case %d", n, idx), "(%d,%v)", i, ok)
			return
		}
		counts[i]++
	}
	a.eval("sampleuv.Weighted.Take|after-mutation-history,distribution", trials)
	var tot float64
	for _, v := range model {
		tot += v
	}
	D, cum, cw := 0.0, 0, 0.0
	for k := range model {
		cum += counts[k]
		cw += model[k]
		D = math.Max(D, math.Abs(float64(cum)/float64(trials)-cw/tot))
	}
	a.near("hist.dkw", "sampleuv.Weighted.Take|after-mutation-history|frequencies-outside-DKW-band", fmt.Sprintf("sampleuv.Weighted n=%d trials=%d case %d ops=%d", n, trials, idx, len(ops)), D, 0, dkwEps(trials))
}

// histFit: Fit on a receiver that already holds other parameters (and a
// source) equals Fit on a fresh receiver; chained ConjugateUpdates equal the
// pooled fit.
func (m *mon) histFit(a *acc, idx int) {
	r := m.c.RNG("hist.fit", idx)
	for _, fk := range fitKinds {
		n := r.Range(3, 40)
		gen := func(n int) ([]float64, []float64) {
			x := make([]float64, n)
			w := make([]float64, n)
			for i := range x {
				x[i] = fk.gen(r)
				w[i] = math.Exp(r.Uniform(-1, 1))
			}
			sort.Float64s(x)
			return x, w
		}
		xa, wa := gen(n)
		xb, wb := gen(r.Range(3, 40))
		xc, wc := gen(r.Range(3, 40))
		if idx%3 == 0 {
			wa, wb, wc = nil, nil, nil
		}
		where := fmt.Sprintf("distuv.%s reuse case %d", fk.name, idx)
		m.c.LastCase(where)
		used := fk.fresh()
		used.Fit(xa, wa)
		used.Fit(xb, wb)
		fresh := fk.fresh()
		fresh.Fit(xb, wb)
		a.eval("distuv."+fk.name+".Fit|receiver-reused", 2)
		pu, pf := fk.params(used), fk.params(fresh)
		for k := range pu {
			a.near("hist.fit", "distuv."+fk.name+".Fit|receiver-reused|depends-on-previous-parameters:"+fk.names[k], where, pu[k], pf[k], 0)
		}
		cj, ok := fk.fresh().(conjugater)
		if !ok {
			continue
		}
		sumw := func(w []float64, n int) float64 {
			if w == nil {
				return float64(n)
			}
			var s float64
			for _, v := range w {
				s += v
			}
			return s
		}
		cj.Fit(xa, wa)
		str := make([]float64, cj.NumSuffStat())
		for i := range str {
			str[i] = sumw(wa, len(xa))
		}
		for _, bw := range [][2][]float64{{xb, wb}, {xc, wc}} {
			ss := make([]float64, cj.NumSuffStat())
			nn := cj.SuffStat(ss, bw[0], bw[1])
			cj.ConjugateUpdate(ss, nn, str)
		}
		a.eval("distuv."+fk.name+".ConjugateUpdate|chained", 2)
		all := append(append(append([]float64(nil), xa...), xb...), xc...)
		var allw []float64
		if wa != nil {
			allw = append(append(append([]float64(nil), wa...), wb...), wc...)
		}
		pooled := fk.fresh()
		pooled.Fit(all, allw)
		pg, pp := fk.params(cj), fk.params(pooled)
		for k := range pg {
			a.near("hist.conjugate", "distuv."+fk.name+".ConjugateUpdate|chained|differs-from-pooled-fit:"+fk.names[k], where, pg[k], pp[k],
				1e-9*math.Max(math.Abs(pp[k]), math.Abs(pp[len(pp)-1])))
		}
		want := sumw(wa, len(xa)) + sumw(wb, len(xb)) + sumw(wc, len(xc))
		for k := range str {
			a.near("hist.conjugate", "distuv."+fk.name+".ConjugateUpdate|chained|prior-strength-not-advanced", where, str[k], want, 1e-12*want)
		}
	}
}

// histNormalMV: a distmv.Normal after SetMean answers like a fresh Normal
// with that mean, including its random stream.
func (m *mon) histNormalMV(a *acc, idx int) {
	r := m.c.RNG("hist.mvnormal", idx)
	dim, mu, sigma := mvCase(r)
	mu2 := make([]float64, dim)
	for i := range mu2 {
		mu2[i] = r.Uniform(-5, 5)
	}
	where := fmt.Sprintf("distmv.Normal after SetMean case %d dim=%d", idx, dim)
	m.c.LastCase(where)
	used, ok1 := distmv.NewNormal(mu, sigma.sym(), m.c.RNG("hist.mvnormal.src", idx))
	fresh, ok2 := distmv.NewNormal(mu2, sigma.sym(), m.c.RNG("hist.mvnormal.src", idx))
	if !ok1 || !ok2 {
		return
	}
	// use the object first, then move it
	x := make([]float64, dim)
	for i := range x {
		x[i] = r.Uniform(-5, 5)
	}
	used.LogProb(x)
	burn := used.Rand(nil)
	fresh.Rand(nil)
	_ = burn
	used.SetMean(mu2)
	a.eval("distmv.Normal.SetMean|history", 1)
	eq := func(method string, got, want []float64) {
		for i := range got {
			if got[i] != want[i] {
				a.fail("distmv.Normal."+method+"|after-SetMean|differs-from-fresh-object", where, "%s: got %v want %v", method, got, want)
				return
			}
		}
	}
	eq("LogProb", []float64{used.LogProb(x)}, []float64{fresh.LogProb(x)})
	eq("Mean", used.Mean(nil), fresh.Mean(nil))
	eq("Rand", used.Rand(nil), fresh.Rand(nil))
	eq("ScoreInput", used.ScoreInput(nil, x), fresh.ScoreInput(nil, x))
	p := make([]float64, dim)
	for i := range p {
		p[i] = r.Uniform(0.01, 0.99)
	}
	eq("Quantile", used.Quantile(nil, p), fresh.Quantile(nil, p))
	eq("TransformNormal", used.TransformNormal(nil, x), fresh.TransformNormal(nil, x))
	eq("Entropy", []float64{used.Entropy()}, []float64{fresh.Entropy()})
	if dim >= 2 {
		ob := []int{r.Intn(dim)}
		v := []float64{r.Uniform(-2, 2)}
		cu, oku := used.ConditionNormal(ob, v, nil)
		cf, okf := fresh.ConditionNormal(ob, v, nil)
		if oku && okf {
			eq("ConditionNormal", cu.Mean(nil), cf.Mean(nil))
		}
		mu3, ok3 := used.MarginalNormal([]int{0}, nil)
		mf3, okf3 := fresh.MarginalNormal([]int{0}, nil)
		if ok3 && okf3 {
			eq("MarginalNormal", mu3.Mean(nil), mf3.Mean(nil))
		}
	}
	ms, mf := used.MarginalNormalSingle(0, nil), fresh.MarginalNormalSingle(0, nil)
	eq("MarginalNormalSingle", []float64{ms.Mu, ms.Sigma}, []float64{mf.Mu, mf.Sigma})
	a.eval("distmv.Normal|after-SetMean", 10)
	// the caller's slices must not be aliased or modified
	mu2[0] += 1
	if used.Mean(nil)[0] == mu2[0] {
		a.fail("distmv.Normal.SetMean|history|aliases-argument", where, "mean follows the caller's slice")
	}
}

// histDstReuse: methods that store into a caller-provided destination give
// the same answer whether the destination is nil/empty or holds previous
// content.
func (m *mon) histDstReuse(a *acc, idx int) {
	r := m.c.RNG("hist.dst", idx)
	dim, mu, sigma := mvCase(r)
	where := fmt.Sprintf("dst reuse case %d dim=%d", idx, dim)
	m.c.LastCase(where)
	dirty := func() *mat.SymDense {
		s := mat.NewSymDense(dim, nil)
		for i := 0; i < dim; i++ {
			for j := i; j < dim; j++ {
				s.SetSym(i, j, 7+float64(i*j))
			}
		}
		return s
	}
	symEq := func(sig string, got, want *mat.SymDense) {
		for i := 0; i < dim; i++ {
			for j := 0; j < dim; j++ {
				if got.At(i, j) != want.At(i, j) {
					a.fail(sig, where, "[%d,%d]: %v with a used destination, %v with an empty one", i, j, got.At(i, j), want.At(i, j))
					return
				}
			}
		}
	}
	n, _ := distmv.NewNormal(mu, sigma.sym(), nil)
	var e mat.SymDense
	n.CovarianceMatrix(&e)
	d := dirty()
	n.CovarianceMatrix(d)
	symEq("distmv.Normal.CovarianceMatrix|used-destination|differs-from-empty-destination", d, &e)
	nu := 2.5 + float64(idx%5)
	st, _ := distmv.NewStudentsT(mu, sigma.sym(), nu, nil)
	var e2 mat.SymDense
	st.CovarianceMatrix(&e2)
	d = dirty()
	st.CovarianceMatrix(d)
	symEq("distmv.StudentsT.CovarianceMatrix|used-destination|differs-from-empty-destination", d, &e2)
	alpha := make([]float64, dim)
	for i := range alpha {
		alpha[i] = math.Exp(r.Uniform(-1, 2))
	}
	if dim >= 2 {
		di := distmv.NewDirichlet(alpha, nil)
		var e3 mat.SymDense
		di.CovarianceMatrix(&e3)
		d = dirty()
		di.CovarianceMatrix(d)
		symEq("distmv.Dirichlet.CovarianceMatrix|used-destination|differs-from-empty-destination", d, &e3)
	}
	w, okw := distmat.NewWishart(sigma.sym(), float64(dim)+1.5, nil)
	if okw {
		var e4 mat.SymDense
		w.MeanSymTo(&e4)
		d = dirty()
		w.MeanSymTo(d)
		symEq("distmat.Wishart.MeanSymTo|used-destination|differs-from-empty-destination", d, &e4)
		// a second call (the covariance is cached after the first) and a
		// density evaluation in between
		w.LogProbSym(sigma.sym())
		d = dirty()
		w.MeanSymTo(d)
		symEq("distmat.Wishart.MeanSymTo|second-call|differs-from-first", d, &e4)
		// RandSymTo into a used destination: same stream, same matrix
		w1, _ := distmat.NewWishart(sigma.sym(), float64(dim)+1.5, m.c.RNG("hist.dst.w", idx))
		w2, _ := distmat.NewWishart(sigma.sym(), float64(dim)+1.5, m.c.RNG("hist.dst.w", idx))
		var x1 mat.SymDense
		w1.RandSymTo(&x1)
		x2 := dirty()
		w2.RandSymTo(x2)
		symEq("distmat.Wishart.RandSymTo|used-destination|differs-from-empty-destination", x2, &x1)
	}
	a.eval("dst-reuse|CovarianceMatrix,MeanSymTo,RandSymTo", 9)
	// vector destinations: Rand/Mean/Quantile with a used dst equal the allocating form
	vecEq := func(sig string, got, want []float64) {
		for i := range got {
			if got[i] != want[i] {
				a.fail(sig, where, "got %v with a used destination, %v with nil", got, want)
				return
			}
		}
	}
	used := func() []float64 {
		v := make([]float64, dim)
		for i := range v {
			v[i] = 99
		}
		return v
	}
	na, _ := distmv.NewNormal(mu, sigma.sym(), m.c.RNG("hist.dst.n", idx))
	nb, _ := distmv.NewNormal(mu, sigma.sym(), m.c.RNG("hist.dst.n", idx))
	vecEq("distmv.Normal.Rand|used-destination|differs-from-nil-destination", na.Rand(used()), nb.Rand(nil))
	sa, _ := distmv.NewStudentsT(mu, sigma.sym(), nu, m.c.RNG("hist.dst.t", idx))
	sb, _ := distmv.NewStudentsT(mu, sigma.sym(), nu, m.c.RNG("hist.dst.t", idx))
	vecEq("distmv.StudentsT.Rand|used-destination|differs-from-nil-destination", sa.Rand(used()), sb.Rand(nil))
	bnds := make([]r1.Interval, dim)
	for i := range bnds {
		bnds[i] = r1.Interval{Min: -1 - float64(i), Max: 2}
	}
	ua := distmv.NewUniform(bnds, m.c.RNG("hist.dst.u", idx))
	ub := distmv.NewUniform(bnds, m.c.RNG("hist.dst.u", idx))
	vecEq("distmv.Uniform.Rand|used-destination|differs-from-nil-destination", ua.Rand(used()), ub.Rand(nil))
	da := distmv.NewDirichlet(alpha, m.c.RNG("hist.dst.d", idx))
	db := distmv.NewDirichlet(alpha, m.c.RNG("hist.dst.d", idx))
	vecEq("distmv.Dirichlet.Rand|used-destination|differs-from-nil-destination", da.Rand(used()), db.Rand(nil))
	a.eval("dst-reuse|Rand", 8)
	// documented: "If dst is not nil, the ... will be stored in-place into dst
	// and returned": the returned slice is dst and holds the nil-form values
	xq := make([]float64, dim)
	pq := make([]float64, dim)
	for i := range xq {
		xq[i] = r.Uniform(-2, 2)
		pq[i] = r.Uniform(0.05, 0.95)
	}
	nd, _ := distmv.NewNormal(mu, sigma.sym(), nil)
	ud := distmv.NewUniform(bnds, nil)
	dd := distmv.NewDirichlet(alpha, nil)
	for _, t := range []struct {
		name string
		f    func(dst []float64) []float64
	}{
		{"distmv.Normal.Mean", nd.Mean},
		{"distmv.Normal.Quantile", func(d []float64) []float64 { return nd.Quantile(d, pq) }},
		{"distmv.Normal.ScoreInput", func(d []float64) []float64 { return nd.ScoreInput(d, xq) }},
		{"distmv.Normal.TransformNormal", func(d []float64) []float64 { return nd.TransformNormal(d, xq) }},
		{"distmv.StudentsT.Mean", st.Mean},
		{"distmv.Uniform.Mean", ud.Mean},
		{"distmv.Uniform.CDF", func(d []float64) []float64 { return ud.CDF(d, xq) }},
		{"distmv.Uniform.Quantile", func(d []float64) []float64 { return ud.Quantile(d, pq) }},
		{"distmv.Dirichlet.Mean", dd.Mean},
	} {
		want := t.f(nil)
		dst := used()
		ret := t.f(dst)
		a.eval(t.name+"|dst-provided", 2)
		if len(ret) != dim || &ret[0] != &dst[0] {
			a.fail(t.name+"|dst-provided|does-not-return-dst", where, "returned slice is not the destination")
			continue
		}
		vecEq(t.name+"|dst-provided|differs-from-nil-destination", dst, want)
		if _, panicked := try(func() { t.f(make([]float64, dim+1)) }); !panicked {
			a.fail(t.name+"|dst-wrong-length|no-panic", where, "documented panic missing")
		}
	}
	gb := make([]r1.Interval, dim)
	if rb := ud.Bounds(gb); &rb[0] != &gb[0] || rb[dim-1] != bnds[dim-1] {
		a.fail("distmv.Uniform.Bounds|dst-provided|does-not-return-dst", where, "got %v", rb)
	}
	// UniformPermutation reused with changing sizes stays a permutation matrix
	up := distmat.NewUniformPermutation(m.c.RNG("hist.dst.perm", idx))
	for _, sz := range []int{3, 7, 3, 1, 8, 7} {
		p := mat.NewDense(sz, sz, nil)
		up.PermTo(p)
		for i := 0; i < sz; i++ {
			var rs, cs float64
			for j := 0; j < sz; j++ {
				rs += p.At(i, j)
				cs += p.At(j, i)
			}
			if rs != 1 || cs != 1 {
				a.fail("distmat.UniformPermutation.PermTo|size-changed-between-calls|not-a-permutation-matrix", where, "size %d row/col %d sums %v %v", sz, i, rs, cs)
				return
			}
		}
	}
	a.eval("distmat.UniformPermutation.PermTo|size-changed-between-calls", 6)
}

// histSamplers: sampler objects used twice.
func (m *mon) histSamplers(a *acc, idx int) {
	where := fmt.Sprintf("sampler reuse case %d", idx)
	m.c.LastCase(where)
	// Rejection: a failed call followed by a good one must clear the error
	// and restart the proposal count
	target := distuv.Beta{Alpha: 2, Beta: 5}
	prop := &countingRLP{d: distuv.Uniform{Min: 0, Max: 1, Src: m.c.RNG("hist.rej.p", idx)}}
	rj := &sampleuv.Rejection{C: 1.05, Target: target, Proposal: prop, Src: m.c.RNG("hist.rej.u", idx)}
	b := make([]float64, 50)
	rj.Sample(b)
	firstErr := rj.Err()
	rj.C = 2.5
	before := prop.calls
	rj.Sample(b)
	a.eval("sampleuv.Rejection.Sample|reused-after-failure", 2)
	if firstErr == nil {
		a.noverdict("hist.rejection.first-call-did-not-fail")
	} else {
		if rj.Err() != nil {
			a.fail("sampleuv.Rejection.Err|reused-after-failure|stale-error", where, "Err() = %v after a successful call", rj.Err())
		}
		if rj.Proposed() != prop.calls-before {
			a.fail("sampleuv.Rejection.Proposed|reused-after-failure|not-restarted", where, "Proposed() = %d, proposals in the second call %d", rj.Proposed(), prop.calls-before)
		}
		for i, v := range b {
			if !(v >= 0 && v <= 1) {
				a.fail("sampleuv.Rejection.Sample|reused-after-failure|sample-outside-support", where, "batch[%d] = %v", i, v)
				break
			}
		}
	}
	// ProposalNormal keeps a Normal whose mean it moves: the conditional
	// density must depend on its arguments only, not on the call history
	r := m.c.RNG("hist.prop", idx)
	psg := randSPD(r, 2, 0.3, 3)
	p1, _ := samplemv.NewProposalNormal(psg.sym(), m.c.RNG("hist.prop.src", idx))
	p2, _ := samplemv.NewProposalNormal(psg.sym(), m.c.RNG("hist.prop.src", idx))
	x, y, z := []float64{r.Norm(), r.Norm()}, []float64{r.Norm(), r.Norm()}, []float64{5 * r.Norm(), 5 * r.Norm()}
	want := p2.ConditionalLogProb(x, y)
	p1.ConditionalLogProb(z, x)
	d1 := p1.ConditionalRand(nil, z)
	p2.ConditionalRand(nil, z)
	_ = d1
	got := p1.ConditionalLogProb(x, y)
	a.eval("samplemv.ProposalNormal.ConditionalLogProb|after-other-calls", 1)
	if got != want {
		a.fail("samplemv.ProposalNormal.ConditionalLogProb|after-other-calls|depends-on-call-history", where, "got %v want %v", got, want)
	}
	ref := refNormalLogProb(x, y, psg)
	a.near("hist.proposal", "samplemv.ProposalNormal.ConditionalLogProb|after-other-calls|differs-from-formula", where, got, ref, 1e-9*math.Max(1, math.Abs(ref)))
}
