package main

import (
	"fmt"
	"math"
	"math/rand/v2"

	"gonum.org/v1/gonum/stat/distuv"
)

// law describes one distuv value together with what the harness knows about
// the law it is documented to represent (support, tail class, ...). What the
// value can *do* is not listed here: it is discovered by interface assertion.
type law struct {
	typ    string // gonum type name
	label  string // parameter setting, for reports
	pclass string // implementation branch class of the setting (sampler branch, shape class)
	mk     func(src rand.Source) any

	lo, hi   float64 // closed hull of the support
	discrete bool
	nAtoms   int       // discrete: number of atoms to enumerate (0..nAtoms-1 covers all but <1e-18 of the mass)
	knots    []float64 // interior points where the density is not smooth

	singLo, singHi bool // density unbounded at lo / hi
	// maxMoment is the supremum of k with E|X|^k finite (+Inf for light tails).
	maxMoment float64
	// clt is the largest k for which the k-th sample moment of N >= 5e4 draws
	// is safely inside an 8-sigma band (0: none, 1: mean only, 2: mean and variance).
	clt int
	// edge marks a degenerate but documented-valid setting (P = 0, P = 1):
	// only totality / normalisation / support checks apply.
	edge bool

	scale float64 // natural length scale (for absolute tolerances)

	// theta/with: parameter vector in the documented Score order and a
	// constructor for perturbed parameters (Score-capable types only).
	theta      []float64
	thetaNames []string
	with       func(theta []float64) any
}

func (l *law) String() string { return "distuv." + l.typ + "{" + l.label + "}" }

var (
	shapesFull = []float64{0.3, 0.5, 0.9, 1, 1.1, 2, 5, 17, 50}
	scalesFull = []float64{1e-2, 0.3, 1, 7, 1e2}
	locsFull   = []float64{-30, 0, 2.5}
)

func inf() float64 { return math.Inf(1) }

func shapeClass(a float64) string {
	switch {
	case a < 0.2:
		return "shape<0.2"
	case a < 1:
		return "shape<1"
	case a == 1:
		return "shape=1"
	case a <= 20:
		return "shape>1"
	default:
		return "shape>20"
	}
}

// allLaws returns the full parameter grid of every distuv type.
func allLaws() map[string][]*law {
	out := map[string][]*law{}
	add := func(l *law) { out[l.typ] = append(out[l.typ], l) }

	// Bernoulli.
	for _, p := range []float64{0.02, 0.3, 0.5, 0.7, 0.98, 0.25, 0.75, 0.999, 0, 1} {
		p := p
		pc := "p<0.5"
		switch {
		case p == 0.5:
			pc = "p=0.5"
		case p > 0.5:
			pc = "p>0.5"
		}
		add(&law{typ: "Bernoulli", label: fmt.Sprintf("P=%g", p), pclass: pc,
			mk: func(s rand.Source) any { return distuv.Bernoulli{P: p, Src: s} },
			lo: 0, hi: 1, discrete: true, nAtoms: 2, maxMoment: inf(), clt: 2, edge: p == 0 || p == 1, scale: 1})
	}

	// Beta.
	for _, a := range shapesFull {
		for _, b := range shapesFull {
			a, b := a, b
			add(&law{typ: "Beta", label: fmt.Sprintf("Alpha=%g Beta=%g", a, b), pclass: shapeClass(a) + "," + shapeClass(b),
				mk: func(s rand.Source) any { return distuv.Beta{Alpha: a, Beta: b, Src: s} },
				lo: 0, hi: 1, singLo: a < 1, singHi: b < 1, maxMoment: inf(), clt: 2, scale: 1})
		}
	}
	for _, ab := range [][2]float64{{0.1, 0.15}, {0.15, 3}, {4, 0.1}, {0.2, 0.2}} { // Gamma small-shape sampler inside Beta.Rand
		a, b := ab[0], ab[1]
		add(&law{typ: "Beta", label: fmt.Sprintf("Alpha=%g Beta=%g", a, b), pclass: shapeClass(a) + "," + shapeClass(b),
			mk: func(s rand.Source) any { return distuv.Beta{Alpha: a, Beta: b, Src: s} },
			lo: 0, hi: 1, singLo: a < 1, singHi: b < 1, maxMoment: inf(), clt: 2, scale: 1})
	}

	// Binomial: sampler branches N<25 (direct), N>=25 && N*min(p,1-p)<1
	// (Poisson proposal), else (Cauchy proposal); p>0.5 is flipped.
	for _, n := range []float64{1, 5, 24, 25, 26, 40, 100, 200, 1000} {
		for _, p := range []float64{0.0005, 0.0099, 0.01, 0.0101, 0.03, 0.2, 0.5, 0.8, 0.97, 0.9901, 0.9995, 0, 1} {
			n, p := n, p
			pm := math.Min(p, 1-p)
			pc := "cauchy"
			switch {
			case n < 25:
				pc = "direct"
			case n*pm < 1:
				pc = "poisson"
			}
			if p > 0.5 {
				pc += ",flipped"
			}
			add(&law{typ: "Binomial", label: fmt.Sprintf("N=%g P=%g", n, p), pclass: pc,
				mk: func(s rand.Source) any { return distuv.Binomial{N: n, P: p, Src: s} },
				lo: 0, hi: n, discrete: true, nAtoms: int(n) + 1, maxMoment: inf(), clt: 2, edge: p == 0 || p == 1,
				scale: math.Max(1, math.Sqrt(n*p*(1-p)))})
		}
	}

	// Categorical.
	for i, w := range [][]float64{
		{3},
		{1, 1},
		{0.2, 0.8},
		{0, 1, 0},
		{1, 2, 3, 4, 5},
		{5, 0, 0, 1e-3, 2, 0},
		{1e-6, 1e6, 1, 1e3},
		{1, 1, 1, 1, 1, 1, 1, 1, 1, 1, 1, 1, 1, 1, 1, 1, 1},
		{0.5, 0.25, 0.125, 0.0625, 0.03125, 0.015625, 0.0078125, 0.0078125},
		{0.05, 0.1, 0.15, 0.02}, // sums to less than 1
		{2, 0, 2, 0, 2, 0, 2, 0, 2, 0, 2, 0, 2, 0, 2, 0, 2, 0, 2, 0, 2, 0, 2, 0, 2, 0, 2, 0, 2, 0, 2, 0, 7},
	} {
		w := w
		add(&law{typ: "Categorical", label: fmt.Sprintf("w#%d=%v", i, w), pclass: fmt.Sprintf("len=%d", len(w)),
			mk: func(s rand.Source) any { return distuv.NewCategorical(w, s) },
			lo: 0, hi: float64(len(w) - 1), discrete: true, nAtoms: len(w), maxMoment: inf(), clt: 2, scale: float64(len(w))})
	}

	// Chi, ChiSquared (Rand via Gamma{K/2}: branches at K = 0.4 and K = 2).
	for _, k := range []float64{0.3, 0.39, 0.4, 0.5, 0.9, 1, 1.1, 2, 2.5, 5, 17, 50, 100} {
		k := k
		pc := shapeClass(k / 2)
		add(&law{typ: "Chi", label: fmt.Sprintf("K=%g", k), pclass: pc,
			mk: func(s rand.Source) any { return distuv.Chi{K: k, Src: s} },
			lo: 0, hi: inf(), singLo: k < 1, maxMoment: inf(), clt: 2, scale: math.Sqrt(k)})
		add(&law{typ: "ChiSquared", label: fmt.Sprintf("K=%g", k), pclass: pc,
			mk: func(s rand.Source) any { return distuv.ChiSquared{K: k, Src: s} },
			lo: 0, hi: inf(), singLo: k < 2, maxMoment: inf(), clt: 2, scale: math.Max(k, 1)})
	}

	// Exponential.
	for _, r := range []float64{1e-2, 0.3, 1, 2.5, 7, 1e2} {
		r := r
		add(&law{typ: "Exponential", label: fmt.Sprintf("Rate=%g", r), pclass: "-",
			mk: func(s rand.Source) any { return distuv.Exponential{Rate: r, Src: s} },
			lo: 0, hi: inf(), maxMoment: inf(), clt: 2, scale: 1 / r,
			theta: []float64{r}, thetaNames: []string{"Rate"},
			with: func(t []float64) any { return distuv.Exponential{Rate: t[0]} }})
	}

	// F.
	for _, d1 := range []float64{0.6, 1, 2, 2.5, 5, 20, 50} {
		for _, d2 := range []float64{0.6, 2, 3, 4.5, 5, 6.5, 9, 12, 30, 50} {
			d1, d2 := d1, d2
			clt := 0
			if d2 > 9.5 {
				clt = 1
			}
			if d2 > 24 {
				clt = 2
			}
			add(&law{typ: "F", label: fmt.Sprintf("D1=%g D2=%g", d1, d2), pclass: shapeClass(d1/2) + "," + shapeClass(d2/2),
				mk: func(s rand.Source) any { return distuv.F{D1: d1, D2: d2, Src: s} },
				lo: 0, hi: inf(), singLo: d1 < 2, maxMoment: d2 / 2, clt: clt, scale: 1})
		}
	}

	// Gamma (sampler branches: alpha<0.2, 0.2<=alpha<1, alpha=1, alpha>1).
	for _, a := range []float64{0.1, 0.19, 0.2, 0.21, 0.3, 0.5, 0.9, 1, 1.1, 2, 5, 17, 21, 50} {
		for _, b := range scalesFull {
			a, b := a, b
			add(&law{typ: "Gamma", label: fmt.Sprintf("Alpha=%g Beta=%g", a, b), pclass: shapeClass(a),
				mk: func(s rand.Source) any { return distuv.Gamma{Alpha: a, Beta: b, Src: s} },
				lo: 0, hi: inf(), singLo: a < 1, maxMoment: inf(), clt: 2, scale: math.Max(a, 1) / b})
		}
	}

	// GumbelRight.
	for _, mu := range locsFull {
		for _, b := range scalesFull {
			mu, b := mu, b
			add(&law{typ: "GumbelRight", label: fmt.Sprintf("Mu=%g Beta=%g", mu, b), pclass: "-",
				mk: func(s rand.Source) any { return distuv.GumbelRight{Mu: mu, Beta: b, Src: s} },
				lo: -inf(), hi: inf(), maxMoment: inf(), clt: 2, scale: b})
		}
	}

	// InverseGamma.
	for _, a := range []float64{0.1, 0.2, 0.3, 0.9, 1, 1.6, 2, 2.6, 3.6, 4.6, 5, 9, 17, 50} {
		for _, b := range scalesFull {
			a, b := a, b
			clt := 0
			if a > 4.5 {
				clt = 1
			}
			if a > 12 {
				clt = 2
			}
			add(&law{typ: "InverseGamma", label: fmt.Sprintf("Alpha=%g Beta=%g", a, b), pclass: shapeClass(a),
				mk: func(s rand.Source) any { return distuv.InverseGamma{Alpha: a, Beta: b, Src: s} },
				lo: 0, hi: inf(), maxMoment: a, clt: clt, scale: b / math.Max(a, 1)})
		}
	}

	// Laplace.
	for _, mu := range locsFull {
		for _, b := range scalesFull {
			mu, b := mu, b
			add(&law{typ: "Laplace", label: fmt.Sprintf("Mu=%g Scale=%g", mu, b), pclass: "-",
				mk: func(s rand.Source) any { return distuv.Laplace{Mu: mu, Scale: b, Src: s} },
				lo: -inf(), hi: inf(), knots: []float64{mu}, maxMoment: inf(), clt: 2, scale: b,
				theta: []float64{mu, b}, thetaNames: []string{"Mu", "Scale"},
				with: func(t []float64) any { return distuv.Laplace{Mu: t[0], Scale: t[1]} }})
		}
	}

	// Logistic (no Rand, no Src).
	for _, mu := range locsFull {
		for _, b := range scalesFull {
			mu, b := mu, b
			add(&law{typ: "Logistic", label: fmt.Sprintf("Mu=%g S=%g", mu, b), pclass: "-",
				mk: func(s rand.Source) any { return distuv.Logistic{Mu: mu, S: b} },
				lo: -inf(), hi: inf(), maxMoment: inf(), clt: 2, scale: b})
		}
	}

	// LogNormal.
	for _, mu := range []float64{-3, 0, 1.5} {
		for _, sg := range []float64{0.05, 0.25, 0.5, 1, 1.5} {
			mu, sg := mu, sg
			clt := 0
			if sg <= 0.5 {
				clt = 2
			}
			add(&law{typ: "LogNormal", label: fmt.Sprintf("Mu=%g Sigma=%g", mu, sg), pclass: "-",
				mk: func(s rand.Source) any { return distuv.LogNormal{Mu: mu, Sigma: sg, Src: s} },
				lo: 0, hi: inf(), maxMoment: inf(), clt: clt, scale: math.Exp(mu)})
		}
	}

	// Normal.
	for _, mu := range locsFull {
		for _, sg := range scalesFull {
			mu, sg := mu, sg
			add(&law{typ: "Normal", label: fmt.Sprintf("Mu=%g Sigma=%g", mu, sg), pclass: "-",
				mk: func(s rand.Source) any { return distuv.Normal{Mu: mu, Sigma: sg, Src: s} },
				lo: -inf(), hi: inf(), maxMoment: inf(), clt: 2, scale: sg,
				theta: []float64{mu, sg}, thetaNames: []string{"Mu", "Sigma"},
				with: func(t []float64) any { return distuv.Normal{Mu: t[0], Sigma: t[1]} }})
		}
	}

	// Pareto.
	for _, xm := range []float64{1e-2, 1, 7, 1e2} {
		for _, a := range []float64{0.3, 0.9, 1, 1.6, 2, 2.6, 3.6, 4.6, 5, 9, 17, 50} {
			xm, a := xm, a
			clt := 0
			if a > 4.5 {
				clt = 1
			}
			if a > 12 {
				clt = 2
			}
			add(&law{typ: "Pareto", label: fmt.Sprintf("Xm=%g Alpha=%g", xm, a), pclass: shapeClass(a),
				mk: func(s rand.Source) any { return distuv.Pareto{Xm: xm, Alpha: a, Src: s} },
				lo: xm, hi: inf(), maxMoment: a, clt: clt, scale: xm})
		}
	}

	// Poisson (sampler branches: lambda<10 direct, >=10 PTRS).
	for _, lam := range []float64{0.01, 0.5, 1, 3, 9.9, 9.999, 10, 10.001, 10.5, 12, 17, 30, 50, 100} {
		lam := lam
		pc := "lambda<10"
		if lam >= 10 {
			pc = "lambda>=10"
		}
		add(&law{typ: "Poisson", label: fmt.Sprintf("Lambda=%g", lam), pclass: pc,
			mk: func(s rand.Source) any { return distuv.Poisson{Lambda: lam, Src: s} },
			lo: 0, hi: inf(), discrete: true, nAtoms: int(lam+40*math.Sqrt(lam)+60) + 1, maxMoment: inf(), clt: 2,
			scale: math.Max(1, math.Sqrt(lam))})
	}

	// StudentsT (Rand via Gamma{Nu/2}: branches at Nu = 0.4 and Nu = 2).
	for _, ms := range [][2]float64{{0, 1}, {-30, 1e-2}, {2.5, 7}, {0, 1e2}} {
		for _, nu := range []float64{0.3, 0.39, 0.4, 0.6, 1, 1.6, 2, 2.6, 3, 3.6, 4.6, 5, 9, 12.5, 50} {
			mu, sg, nu := ms[0], ms[1], nu
			clt := 0
			if nu > 4.5 {
				clt = 1
			}
			if nu > 12 {
				clt = 2
			}
			add(&law{typ: "StudentsT", label: fmt.Sprintf("Mu=%g Sigma=%g Nu=%g", mu, sg, nu), pclass: shapeClass(nu / 2),
				mk: func(s rand.Source) any { return distuv.StudentsT{Mu: mu, Sigma: sg, Nu: nu, Src: s} },
				lo: -inf(), hi: inf(), maxMoment: nu, clt: clt, scale: sg})
		}
	}

	// Triangle.
	for _, abc := range [][3]float64{
		{0, 1, 0.5}, {0, 1, 0}, {0, 1, 1}, {0, 1, 0.1}, {0, 1, 0.9},
		{-30, -29.99, -29.995}, {-5, 100, 1}, {2.5, 9.5, 2.5}, {2.5, 9.5, 9.5}, {-100, 100, 99},
		{1e-2, 3e-2, 1.5e-2}, {-1, 1, 0},
	} {
		a, b, cc := abc[0], abc[1], abc[2]
		pc := "mode-interior"
		if cc == a {
			pc = "mode=a"
		} else if cc == b {
			pc = "mode=b"
		}
		var knots []float64
		if cc != a && cc != b {
			knots = []float64{cc}
		}
		add(&law{typ: "Triangle", label: fmt.Sprintf("a=%g b=%g c=%g", a, b, cc), pclass: pc,
			mk: func(s rand.Source) any { return distuv.NewTriangle(a, b, cc, s) },
			lo: a, hi: b, knots: knots, maxMoment: inf(), clt: 2, scale: b - a,
			theta: []float64{a, b, cc}, thetaNames: []string{"a", "b", "c"},
			with: func(t []float64) any { return distuv.NewTriangle(t[0], t[1], t[2], nil) }})
	}

	// Uniform.
	for _, mm := range [][2]float64{{0, 1}, {-30, -29.99}, {-5, 100}, {2.5, 9.5}, {-1e2, 1e2}, {1e-2, 3e-2}, {-1, 0}, {7, 8}} {
		lo, hi := mm[0], mm[1]
		add(&law{typ: "Uniform", label: fmt.Sprintf("Min=%g Max=%g", lo, hi), pclass: "-",
			mk: func(s rand.Source) any { return distuv.Uniform{Min: lo, Max: hi, Src: s} },
			lo: lo, hi: hi, maxMoment: inf(), clt: 2, scale: hi - lo,
			theta: []float64{lo, hi}, thetaNames: []string{"Min", "Max"},
			with: func(t []float64) any { return distuv.Uniform{Min: t[0], Max: t[1]} }})
	}

	// Weibull.
	for _, k := range []float64{0.3, 0.5, 0.9, 1, 1.1, 2, 3.6, 5, 17, 50} {
		for _, lam := range scalesFull {
			k, lam := k, lam
			clt := 2
			if k < 0.5 {
				clt = 0
			} else if k < 0.9 {
				clt = 1
			}
			add(&law{typ: "Weibull", label: fmt.Sprintf("K=%g Lambda=%g", k, lam), pclass: shapeClass(k),
				mk: func(s rand.Source) any { return distuv.Weibull{K: k, Lambda: lam, Src: s} },
				lo: 0, hi: inf(), singLo: k < 1, maxMoment: inf(), clt: clt, scale: lam,
				theta: []float64{k, lam}, thetaNames: []string{"K", "λ"},
				with: func(t []float64) any { return distuv.Weibull{K: t[0], Lambda: t[1]} }})
		}
	}
	return out
}

// pickLaws returns the laws of one type for the tier: all of them in the
// thorough tier, n of them in the quick tier chosen round-robin over the
// branch classes (so that every class is represented) with a seed-rotated
// choice inside each class.
func pickLaws(all []*law, thorough bool, n int, seed uint64) []*law {
	if thorough || len(all) <= n {
		return all
	}
	var order []string
	by := map[string][]*law{}
	for _, l := range all {
		if l.edge {
			continue
		}
		if _, ok := by[l.pclass]; !ok {
			order = append(order, l.pclass)
		}
		by[l.pclass] = append(by[l.pclass], l)
	}
	var out []*law
	for round := 0; len(out) < n; round++ {
		progressed := false
		for _, pc := range order {
			ls := by[pc]
			if round >= len(ls) {
				continue
			}
			idx := (int(seed%1000) + round*7) % len(ls)
			// avoid repeats inside a class: linear probe
			for tries := 0; tries < len(ls); tries++ {
				cand := ls[(idx+tries)%len(ls)]
				dup := false
				for _, o := range out {
					if o == cand {
						dup = true
						break
					}
				}
				if !dup {
					out = append(out, cand)
					progressed = true
					break
				}
			}
			if len(out) == n {
				break
			}
		}
		if !progressed {
			break
		}
	}
	// one documented-valid edge setting, if the type has any
	for _, l := range all {
		if l.edge {
			out = append(out, l)
			break
		}
	}
	return out
}

// typeOrder is the fixed iteration order over the distuv types.
var typeOrder = []string{
	"Bernoulli", "Beta", "Binomial", "Categorical", "Chi", "ChiSquared", "Exponential", "F", "Gamma",
	"GumbelRight", "InverseGamma", "Laplace", "Logistic", "LogNormal", "Normal", "Pareto", "Poisson",
	"StudentsT", "Triangle", "Uniform", "Weibull",
}
