package main

import (
	"fmt"
	"math"
	"os"
	"path/filepath"
	"regexp"
	"strconv"
	"strings"

	"gonum.org/v1/gonum/mat"
	"gonum.org/v1/gonum/stat/distmv"
	"gonum.org/v1/gonum/stat/distuv"
)

// Documentation checks: a statement of a doc comment is compared with the
// observed behaviour. The comment is read from $VERIF_REPO (default /repo)
// at run time, so that a documentation repair silences the check; if the
// sentence is no longer there (or no longer parses) no verdict is issued.

func repoRoot() string {
	if r := os.Getenv("VERIF_REPO"); r != "" {
		return r
	}
	return "/repo"
}

func readRepo(rel string) (string, bool) {
	b, err := os.ReadFile(filepath.Join(repoRoot(), rel))
	return string(b), err == nil
}

// docAbove returns the comment block immediately above the first line
// containing decl.
func docAbove(src, decl string) (string, bool) {
	lines := strings.Split(src, "\n")
	for i, l := range lines {
		if strings.HasPrefix(l, decl) {
			j := i
			for j > 0 && strings.HasPrefix(strings.TrimSpace(lines[j-1]), "//") {
				j--
			}
			return strings.Join(lines[j:i], "\n"), true
		}
	}
	return "", false
}

var orderRe = regexp.MustCompile(`The order is \[([^\]]*)\]`)

func (m *mon) runDocs(a *acc) {
	// (a) Score: "The order is [∂LogProb / ∂X, ...]" must name the
	// parameters with respect to which the components are the derivatives
	// (the derivatives themselves are checked numerically in uvscore).
	for _, t := range []struct {
		typ, file, decl string
		names           []string
	}{
		{"Exponential", "stat/distuv/exponential.go", "func (e Exponential) Score(", []string{"rate"}},
		{"Laplace", "stat/distuv/laplace.go", "func (l Laplace) Score(", []string{"mu", "scale"}},
		{"Normal", "stat/distuv/norm.go", "func (n Normal) Score(", []string{"mu", "sigma"}},
		{"Triangle", "stat/distuv/triangle.go", "func (t Triangle) Score(", []string{"a", "b", "c"}},
		{"Uniform", "stat/distuv/uniform.go", "func (u Uniform) Score(", []string{"min", "max"}},
		{"Weibull", "stat/distuv/weibull.go", "func (w Weibull) Score(", []string{"k", "λ|lambda"}},
	} {
		src, ok := readRepo(t.file)
		if !ok {
			a.noverdict("docs.source-not-readable")
			continue
		}
		doc, ok := docAbove(src, t.decl)
		mm := orderRe.FindStringSubmatch(doc)
		if !ok || mm == nil {
			a.noverdict("docs.sentence-not-found")
			continue
		}
		a.eval("distuv."+t.typ+".Score|doc", 1)
		parts := strings.Split(mm[1], ",")
		good := len(parts) == len(t.names)
		for i := 0; good && i < len(parts); i++ {
			p := strings.TrimSpace(parts[i])
			k := strings.LastIndex(p, "∂")
			if k < 0 {
				good = false
				break
			}
			got := strings.ToLower(strings.TrimSpace(p[k+len("∂"):]))
			match := false
			for _, alt := range strings.Split(t.names[i], "|") {
				if got == alt {
					match = true
				}
			}
			good = match
		}
		if !good {
			a.fail("distuv."+t.typ+".Score|doc|documented-order-names-other-parameters", "doc comment of "+t.decl,
				"documented order [%s], parameters of the type in Score order: %v", mm[1], t.names)
		}
	}
	// (b) Gamma: "If Beta == X, this is equivalent to a Chi-Squared distribution"
	if src, ok := readRepo("stat/distuv/gamma.go"); ok {
		re := regexp.MustCompile(`If Beta == ([0-9./]+), this is equivalent to a Chi-Squared`)
		if mm := re.FindStringSubmatch(src); mm != nil {
			val := math.NaN()
			if strings.Contains(mm[1], "/") {
				p := strings.SplitN(mm[1], "/", 2)
				n, e1 := strconv.ParseFloat(p[0], 64)
				d, e2 := strconv.ParseFloat(p[1], 64)
				if e1 == nil && e2 == nil {
					val = n / d
				}
			} else if v, err := strconv.ParseFloat(strings.TrimSuffix(mm[1], "."), 64); err == nil {
				val = v
			}
			if !math.IsNaN(val) {
				a.eval("distuv.Gamma|doc", 1)
				g := distuv.Gamma{Alpha: 1.5, Beta: val}
				c := distuv.ChiSquared{K: 3}
				if math.Abs(g.Prob(2)-c.Prob(2)) > 1e-12 || math.Abs(g.CDF(2)-c.CDF(2)) > 1e-12 {
					a.fail("distuv.Gamma|doc|documented-chi-squared-equivalence-wrong", "stat/distuv/gamma.go field Beta",
						"doc: Beta == %s gives a Chi-Squared; Gamma{1.5,%g}.Prob(2) = %g, ChiSquared{3}.Prob(2) = %g (the chi-squared law is Gamma{k/2, rate 1/2})", mm[1], val, g.Prob(2), c.Prob(2))
				}
			} else {
				a.noverdict("docs.sentence-not-found")
			}
		} else {
			a.noverdict("docs.sentence-not-found")
		}
	}
	// (c) Renyi: "equal to <half|twice> the Bhattacharyya distance when α = 0.5"
	if src, ok := readRepo("stat/distmv/statdist.go"); ok {
		re := regexp.MustCompile(`equal to (half|twice|two times) the Bhattacharyya distance when α = 0\.5`)
		if mm := re.FindStringSubmatch(src); mm != nil {
			factor := 2.0
			if mm[1] == "half" {
				factor = 0.5
			}
			l, _ := distmv.NewNormal([]float64{0, 1}, mat.NewSymDense(2, []float64{2, 0.3, 0.3, 1}), nil)
			r, _ := distmv.NewNormal([]float64{1, -1}, mat.NewSymDense(2, []float64{1, -0.2, -0.2, 3}), nil)
			ren := distmv.Renyi{Alpha: 0.5}.DistNormal(l, r)
			bh := distmv.Bhattacharyya{}.DistNormal(l, r)
			a.eval("distmv.Renyi|doc", 1)
			if math.Abs(ren-factor*bh) > 1e-10*math.Abs(ren) {
				a.fail("distmv.Renyi|doc|documented-relation-to-Bhattacharyya-wrong", "stat/distmv/statdist.go type Renyi",
					"doc: D_1/2 equals %s the Bhattacharyya distance; observed Renyi = %g, Bhattacharyya = %g (ratio %g)", mm[1], ren, bh, ren/bh)
			}
		} else {
			a.noverdict("docs.sentence-not-found")
		}
	}
	_ = fmt.Sprint
}
