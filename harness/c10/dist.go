package main

import (
	"fmt"
	"math"

	"gonum.org/v1/gonum/stat"
	"gonum.org/v1/gonum/verifx/vrt"
)

// Probability-vector distances and entropies, Mode, StdErr, StdScore.

const (
	dGeneric = "generic"
	dZeros   = "with-zeros" // p and q share some exact zeros, p has extra zeros
	dNear    = "p~q"        // q equal to p or a 1e-9 .. 1e-3 relative perturbation of p
)

func genProb(r *vrt.Rand, n int, zeroFrac float64) []float64 {
	p := make([]float64, n)
	var s float64
	for {
		s = 0
		for i := range p {
			if r.Chance(zeroFrac) {
				p[i] = 0
			} else {
				p[i] = math.Exp(2 * r.Norm())
			}
			s += p[i]
		}
		if s > 0 {
			break
		}
	}
	for i := range p {
		p[i] /= s
	}
	return p
}

func normalise(p []float64) {
	var s float64
	for _, v := range p {
		s += v
	}
	for i := range p {
		p[i] /= s
	}
}

func genPQ(r *vrt.Rand, class string, n int) (p, q []float64) {
	switch class {
	case dGeneric:
		return genProb(r, n, 0), genProb(r, n, 0)
	case dZeros:
		q = genProb(r, n, 0.2)
		p = make([]float64, n)
		any := false
		for i := range p {
			if q[i] != 0 && !r.Chance(0.2) {
				p[i] = math.Exp(2 * r.Norm())
				any = true
			}
		}
		if !any {
			for i := range p {
				p[i] = q[i]
			}
		}
		normalise(p)
		return p, q
	default:
		p = genProb(r, n, 0)
		q = cp(p)
		if r.Bool() {
			eps := math.Pow(10, r.Uniform(-9, -3))
			for i := range q {
				q[i] *= 1 + eps*r.Sym()
			}
			normalise(q)
		}
		return p, q
	}
}

func bsumF(f func(i int) float64, n int) bf {
	s := bZero()
	for i := 0; i < n; i++ {
		acc(s, bF(f(i)))
	}
	return s
}

// klTerm is p*log(p/q) evaluated without cancellation.
func klTerm(p, q float64) float64 {
	if p == 0 {
		return 0
	}
	if math.Abs(p-q) < q/2 {
		return p * math.Log1p((p-q)/q)
	}
	return p * (math.Log(p) - math.Log(q))
}

func (m *mon) runDist() {
	c := m.c
	cases := c.Pick(6000, 58500)
	classes := []string{dGeneric, dZeros, dNear}
	vrt.Parallel(cases, func(ci int) {
		r := c.RNG("dist", ci)
		class := classes[ci%3]
		n := genN(r, 1)
		p, q := genPQ(r, class, n)
		nn := float64(n + 8)
		// Bhattacharyya coefficient (exact) for Hellinger and Bhattacharyya
		bc := bZero()
		for i := range p {
			acc(bc, bSqrt(bMul(bF(p[i]), bF(q[i]))))
		}
		bcf := bTo(bc)
		if 1-bcf < 1e-6 {
			// the path class is a property of the data, not of the generator:
			// any (numerically) coinciding pair is in the p~q class
			class = dNear
		}
		perm := r.Perm(n)
		pp, pq := permute(perm, p), permute(perm, q)
		replay := func(f string) func() any {
			return func() any { return replayCase{"func": f, "p": p, "q": q, "class": class} }
		}
		slackNorm := math.Abs(bTo(bsumF(func(i int) float64 { return p[i] }, n))-1) + math.Abs(bTo(bsumF(func(i int) float64 { return q[i] }, n))-1)

		type chk struct {
			name string
			f    func(p, q []float64) float64
			ref  bf
			unit float64
			sym  bool
			// sq: compare squares (value is a square root of a quantity near zero)
			sq bool
		}
		var checks []chk

		// Entropy
		{
			var ua float64
			ref := bsumF(func(i int) float64 {
				if p[i] == 0 {
					return 0
				}
				t := -p[i] * math.Log(p[i])
				ua += math.Abs(t)
				return t
			}, n)
			checks = append(checks, chk{name: "Entropy", f: func(p, _ []float64) float64 { return stat.Entropy(p) }, ref: ref, unit: nn*u*2*ua + 4*u})
		}
		// CrossEntropy
		{
			var ua float64
			ref := bsumF(func(i int) float64 {
				if p[i] == 0 {
					return 0
				}
				t := -p[i] * math.Log(q[i])
				ua += math.Abs(t)
				return t
			}, n)
			checks = append(checks, chk{name: "CrossEntropy", f: stat.CrossEntropy, ref: ref, unit: nn*u*2*ua + 4*u})
		}
		// KullbackLeibler
		{
			var ua float64
			ref := bsumF(func(i int) float64 {
				if p[i] == 0 {
					return 0
				}
				ua += p[i] * (math.Abs(math.Log(p[i])) + math.Abs(math.Log(q[i])))
				return klTerm(p[i], q[i])
			}, n)
			checks = append(checks, chk{name: "KullbackLeibler", f: stat.KullbackLeibler, ref: ref, unit: nn*u*2*ua + 4*u})
		}
		// JensenShannon
		var jsUnit float64
		{
			var ua float64
			ref := bsumF(func(i int) float64 {
				a, b := p[i], q[i]
				if a+b == 0 {
					return 0
				}
				lm := math.Abs(math.Log(0.5 * (a + b)))
				var t float64
				if a != 0 {
					t += 0.5 * a * math.Log1p((a-b)/(a+b))
					ua += 0.5 * a * (math.Abs(math.Log(a)) + lm)
				}
				if b != 0 {
					t += 0.5 * b * math.Log1p((b-a)/(a+b))
					ua += 0.5 * b * (math.Abs(math.Log(b)) + lm)
				}
				return t
			}, n)
			jsUnit = nn*u*2*ua + 4*u
			checks = append(checks, chk{name: "JensenShannon", f: stat.JensenShannon, ref: ref, unit: jsUnit, sym: true})
		}
		{
			h2 := bSub(bI(1), bc)
			if h2.Sign() < 0 {
				h2 = bZero() // p, q sum to 1 only up to rounding: the distance is 0
			}
			checks = append(checks, chk{name: "Hellinger", f: stat.Hellinger, ref: h2, unit: nn*u*2*bcf + slackNorm + 4*u, sym: true, sq: true})
		}
		if bcf > 0 {
			checks = append(checks, chk{name: "Bhattacharyya", f: stat.Bhattacharyya, ref: bF(-math.Log(bcf)), unit: nn*u*2 + 4*u*math.Abs(math.Log(bcf)) + 4*u, sym: true})
		}
		// ChiSquare on counts obs = N*p (rounded), exp = N*q
		{
			N := float64(r.PickInt(10, 100, 1000))
			obs, exp := make([]float64, n), make([]float64, n)
			for i := range p {
				obs[i] = math.Round(N * p[i] * (1 + 0.3*r.Sym()))
				exp[i] = N * q[i]
			}
			ref := bZero()
			okDomain := true
			for i := range obs {
				if obs[i] == 0 && exp[i] == 0 {
					continue
				}
				if exp[i] == 0 {
					okDomain = false // expected frequency zero with a non-zero observation: distance infinite/undefined
					break
				}
				d := bSub(bF(obs[i]), bF(exp[i]))
				acc(ref, bQuo(bMul(d, d), bF(exp[i])))
			}
			if okDomain {
				rp := func() any { return replayCase{"func": "ChiSquare", "obs": obs, "exp": exp} }
				var got, got2 float64
				c.LastCase(fmt.Sprintf("ChiSquare n=%d case=%d", n, ci))
				if m.try("ChiSquare", class, rp, func() { got = stat.ChiSquare(cp(obs), cp(exp)) }) {
					c.Eval("ChiSquare|def|"+class, true)
					unit := nn*u*4*bTo(ref) + 1e-300
					if m.band("ChiSquare", class, "definition", got, ref, unit, rp) && n >= 2 {
						if m.try("ChiSquare", class, rp, func() { got2 = stat.ChiSquare(permute(perm, obs), permute(perm, exp)) }) {
							c.Eval("ChiSquare|permutation|"+class, true)
							m.rel("ChiSquare", class, "permutation-dependent", got, got2, 2*unit, rp)
						}
					}
				}
			}
		}

		for _, k := range checks {
			var got float64
			c.LastCase(fmt.Sprintf("%s n=%d class=%s case=%d", k.name, n, class, ci))
			ok := m.try(k.name, class, replay(k.name), func() { got = k.f(cp(p), cp(q)) })
			c.Eval(k.name+"|def|"+class, true)
			if !ok {
				continue
			}
			g := got
			if k.sq {
				g = got * got
			}
			if !m.band(k.name, class, "definition", g, k.ref, k.unit, replay(k.name)) {
				continue
			}
			if n <= 4 && ci%7 == 0 && m.wantSample("dist") {
				c.Sample(replayCase{"func": k.name, "p": p, "q": q, "result": got})
			}
			sqf := func(v float64) float64 {
				if k.sq {
					return v * v
				}
				return v
			}
			if n >= 2 {
				var g2 float64
				if m.try(k.name, class, replay(k.name), func() { g2 = k.f(pp, pq) }) {
					c.Eval(k.name+"|permutation|"+class, true)
					m.rel(k.name, class, "permutation-dependent", g, sqf(g2), 2*k.unit, replay(k.name))
				}
			}
			if k.sym {
				var g2 float64
				if m.try(k.name, class, replay(k.name), func() { g2 = k.f(cp(q), cp(p)) }) {
					c.Eval(k.name+"|symmetry|"+class, true)
					m.rel(k.name, class, "not symmetric in (p,q)", g, sqf(g2), 2*k.unit, replay(k.name))
				}
			}
			switch k.name {
			case "JensenShannon":
				if got < -BandC*jsUnit || got > math.Ln2+BandC*jsUnit {
					c.Violationf(sig(k.name, class, "outside [0, ln 2]"), replay(k.name)(), "JensenShannon = %v", got)
				}
			case "Hellinger":
				if got < 0 || got > 1+BandC*k.unit {
					c.Violationf(sig(k.name, class, "outside [0, 1]"), replay(k.name)(), "Hellinger = %v", got)
				}
			}
		}
	})
}

// runMode checks Mode: the returned value must be one of the values of
// maximal total weight (any of them, per the doc), the count that maximal
// total; plus ones/permutation/replication relations on the count.
func (m *mon) runMode() {
	c := m.c
	cases := c.Pick(6000, 58500)
	kinds := []string{wNil, wOnes, wInts, wIntsZ, wPos, wMix, wZeros}
	vrt.Parallel(cases, func(ci int) {
		r := c.RNG("mode", ci)
		n := genN(r, 1)
		class, wk := cross(ci, []string{clsTies, clsTies, clsRuns, clsConst, clsCont}, kinds)
		x := genData(r, class, n)
		w := genWeights(r, wk, n)
		replay := func() any { return replayCase{"func": "Mode", "x": x, "weights": w} }
		exactTot := func(x, w []float64) (map[float64]bf, bf) {
			tot := map[float64]bf{}
			for i, v := range x {
				wi := 1.0
				if w != nil {
					wi = w[i]
				}
				if tot[v] == nil {
					tot[v] = bZero()
				}
				acc(tot[v], bF(wi))
			}
			max := bZero()
			for _, t := range tot {
				if t.Cmp(max) > 0 {
					max = t
				}
			}
			return tot, max
		}
		tot, max := exactTot(x, w)
		if max.Sign() == 0 {
			return
		}
		var val, cnt float64
		c.LastCase(fmt.Sprintf("Mode n=%d case=%d", n, ci))
		ok := m.try("Mode", class, replay, func() { val, cnt = stat.Mode(cp(x), cp(w)) })
		c.Eval("Mode|def|"+wk+"|"+class, true)
		if !ok {
			return
		}
		unit := float64(n+8) * u * bTo(max)
		if !m.band("Mode.count", class, "definition", cnt, max, unit, replay) {
			return
		}
		t, found := tot[val]
		if !found {
			c.Violationf(sig("Mode.value", class, "not a sample value"), replay(), "Mode returned %v which is not in x", val)
			return
		}
		if bTo(bSub(max, t)) > BandC*unit {
			c.Violationf(sig("Mode.value", class, "not of maximal weight"), replay(), "Mode returned %v with total weight %v, maximum is %v", val, bTo(t), bTo(max))
			return
		}
		var c2 float64
		if n >= 2 {
			p := r.Perm(n)
			if m.try("Mode", class, replay, func() { _, c2 = stat.Mode(permute(p, x), permute(p, w)) }) {
				c.Eval("Mode|permutation|"+wk+"|"+class, true)
				m.rel("Mode.count", class, "permutation-dependent", cnt, c2, 2*unit, replay)
			}
		}
		if wk == wNil {
			if m.try("Mode", class, replay, func() { _, c2 = stat.Mode(cp(x), ones(n)) }) {
				c.Eval("Mode|nil-vs-ones|"+class, true)
				m.rel("Mode.count", class, "ones-weights != nil-weights", cnt, c2, 2*unit, replay)
			}
		}
		if wk == wOnes {
			if m.try("Mode", class, replay, func() { _, c2 = stat.Mode(cp(x), nil) }) {
				c.Eval("Mode|ones-vs-nil|"+class, true)
				m.rel("Mode.count", class, "ones-weights != nil-weights", cnt, c2, 2*unit, replay)
			}
		}
		if wk == wInts || wk == wIntsZ {
			rx, _ := replicate(x, w)
			if m.try("Mode", class, replay, func() { _, c2 = stat.Mode(rx, nil) }) {
				c.Eval("Mode|replication|"+wk+"|"+class, true)
				m.rel("Mode.count", class, "integer-weights != replication", cnt, c2, 2*unit, replay)
			}
		}
	})
	// documented empty case
	v, cnt := stat.Mode(nil, nil)
	c.Eval("Mode|empty", false)
	if v != 0 || cnt != 0 {
		c.Violationf(sig("Mode", "empty", "not (0,0)"), nil, "Mode(nil,nil) = %v,%v", v, cnt)
	}
}

// runScalar checks the two closed-form helpers.
func (m *mon) runScalar() {
	c := m.c
	cases := c.Pick(4000, 39000)
	vrt.Parallel(cases, func(ci int) {
		r := c.RNG("scalar", ci)
		e := scaleExps[r.Intn(len(scaleExps))] / 2
		std := math.Ldexp(math.Abs(r.Norm())+0.01, e)
		n := float64(r.Range(1, 100000))
		if r.Bool() {
			n = r.Uniform(0.5, 1000)
		}
		rp := func() any { return replayCase{"func": "StdErr", "std": std, "n": n} }
		var got float64
		if m.try("StdErr", "scalar", rp, func() { got = stat.StdErr(std, n) }) {
			c.Eval("StdErr|def|"+scaleClass(e), true)
			ref := bQuo(bF(std), bSqrt(bF(n)))
			m.band("StdErr", "scalar", "definition", got, ref, 4*u*bTo(ref), rp)
		}
		x, mu := math.Ldexp(r.Norm(), e), math.Ldexp(r.Norm(), e)
		rp2 := func() any { return replayCase{"func": "StdScore", "x": x, "mean": mu, "std": std} }
		if m.try("StdScore", "scalar", rp2, func() { got = stat.StdScore(x, mu, std) }) {
			c.Eval("StdScore|def|"+scaleClass(e), true)
			ref := bQuo(bSub(bF(x), bF(mu)), bF(std))
			m.band("StdScore", "scalar", "definition", got, ref, 4*u*math.Abs(bTo(ref)), rp2)
		}
	})
}
