package main

import (
	"fmt"
	"math"
	"sort"

	"gonum.org/v1/gonum/stat"
	"gonum.org/v1/gonum/verifx/vrt"
)

// ---------------------------------------------------------------- Quantile / CDF

// cumExact returns the exact cumulative weights and the total.
func cumExact(n int, w []float64) ([]bf, bf) {
	cum := make([]bf, n)
	s := bZero()
	for i := 0; i < n; i++ {
		if w == nil {
			acc(s, bI(1))
		} else {
			acc(s, bF(w[i]))
		}
		cum[i] = bCopy(s)
	}
	return cum, s
}

// firstGE returns the first index with cum[i] >= t, or n-1 if none.
func firstGE(cum []bf, t bf) int {
	i := sort.Search(len(cum), func(i int) bool { return cum[i].Cmp(t) >= 0 })
	if i == len(cum) {
		i = len(cum) - 1
	}
	return i
}

// quantEmp is the exact Empirical quantile index for cumulative target t.
func quantEmp(cum []bf, t bf) int { return firstGE(cum, t) }

// quantLin is the exact LinInterp quantile for cumulative target t.
func quantLin(x, w []float64, cum []bf, t bf) float64 {
	i := firstGE(cum, t)
	if i == 0 {
		return x[0]
	}
	tt := bSub(cum[i], t)
	if tt.Sign() < 0 {
		tt = bZero()
	}
	if w != nil {
		if w[i] == 0 {
			return x[i] // only reachable through the band perturbation
		}
		tt = bQuo(tt, bF(w[i]))
	}
	if tt.Cmp(bI(1)) > 0 {
		tt = bI(1)
	}
	return bTo(bAdd(bMul(tt, bF(x[i-1])), bMul(bSub(bI(1), tt), bF(x[i]))))
}

// quantSlack is the relative perturbation of the cumulative target within
// which the selected order statistic may differ from the exact one: the
// running sum carries (n-1)u, the total (n-1)u, the product p*W one more u.
func quantSlack(n int) float64 { return 4 * float64(n+8) * u }

var cumKinds = []struct {
	k    stat.CumulantKind
	name string
}{{stat.Empirical, "Empirical"}, {stat.LinInterp, "LinInterp"}}

func (m *mon) runQuantile() {
	c := m.c
	cases := c.Pick(2500, 26000)
	kinds := []string{wNil, wNil, wOnes, wInts, wIntsZ, wPos, wPos, wMix, wZeros}
	classes := []string{clsCont, clsTies, clsTies, clsRuns, clsRuns, clsConst, clsGrid, clsOffset}
	vrt.Parallel(cases, func(ci int) {
		r := c.RNG("quantile", ci)
		class, wk := cross(ci, classes, kinds) // every data class under every weight kind
		n := genN(r, 1)
		e := scaleExps[r.Intn(len(scaleExps))]
		if class == clsGrid {
			e = 0
		}
		x := scaleBy(genData(r, class, n), e)
		w := genWeights(r, wk, n)
		if scalableKind(wk) {
			// weight scale classes ~1e-30, 1, ~1e30: only sums of weights are
			// formed, so every class is in range
			w = scaleBy(w, weightExps[r.Intn(len(weightExps))])
		}
		x, w = sortTogether(x, w)
		m.quantileCase(r, ci, x, w, class, wk, true)
		if w != nil {
			// scaling all weights by 2^k scales every partial sum exactly: the
			// selected order statistic and the CDF must not change at all
			k := r.PickInt(60, -60, 200, -200)
			w2 := scaleBy(w, k)
			p := r.PickFloat(0, 1, 0.5, r.Float64(), r.Float64())
			q := x[r.Intn(n)]
			rp := func() any { return replayCase{"func": "Quantile/CDF", "p": p, "q": q, "x": x, "weights": w, "k": k} }
			var a1, a2, b1, b2, c1, c2 float64
			if m.try("Quantile", "weight-scaling", rp, func() {
				a1, a2 = stat.Quantile(p, stat.Empirical, cp(x), cp(w)), stat.Quantile(p, stat.Empirical, cp(x), w2)
				b1, b2 = stat.Quantile(p, stat.LinInterp, cp(x), cp(w)), stat.Quantile(p, stat.LinInterp, cp(x), w2)
				c1, c2 = stat.CDF(q, stat.Empirical, cp(x), cp(w)), stat.CDF(q, stat.Empirical, cp(x), w2)
			}) {
				c.EvalN("Quantile/CDF|weight-scale|"+wk+"|"+class, 6, true)
				un := 8 * u * math.Max(math.Abs(x[0]), math.Abs(x[n-1]))
				if a1 != a2 {
					c.Violationf(sig("Quantile/Empirical", "weighted", "changes when all weights are scaled by 2^k"), rp(), "%v vs %v", a1, a2)
				}
				m.rel("Quantile/LinInterp", "weighted", "changes when all weights are scaled by 2^k", b1, b2, un, rp)
				m.rel("CDF", "weighted", "changes when all weights are scaled by 2^k", c1, c2, float64(n+8)*u*2, rp)
			}
		}
		if (wk == wInts || wk == wIntsZ) && n <= 80 {
			// integer weights == replication: the replicated sample has the same
			// exact quantile function, so it is judged by the same oracle.
			rx, _ := replicate(x, w)
			m.quantileCase(r, ci, rx, nil, class, "replicated", true)
		}
		if wk == wNil {
			// nil weights == unit weights: the same sample with explicit ones is
			// judged by the same oracle (the CDF values are also compared
			// directly inside quantileCase).
			m.quantileCase(r, ci, x, ones(n), class, "ones-of-nil", false)
		}
	})
}

func (m *mon) quantileCase(r *vrt.Rand, ci int, x, w []float64, class, wk string, cdfToo bool) {
	c := m.c
	n := len(x)
	cum, W := cumExact(n, w)
	if W.Sign() <= 0 {
		c.Count("noverdict.zero-total-weight", 1)
		return
	}
	Wf := bTo(W)
	eps := quantSlack(n)
	maxAbs := math.Max(math.Abs(x[0]), math.Abs(x[n-1]))
	// p grid: endpoints, interior, exact k/W boundaries and their neighbours
	ps := []float64{0, 1, math.SmallestNonzeroFloat64, math.Nextafter(1, 0), 0.5, r.Float64(), r.Float64(), r.Float64() * 0.01, 1 - r.Float64()*0.01}
	for k := 0; k < 3; k++ {
		i := r.Intn(n)
		pb := bTo(cum[i]) / Wf
		if pb >= 0 && pb <= 1 {
			ps = append(ps, pb, math.Nextafter(pb, 0), math.Nextafter(pb, 2))
		}
	}
	ps2 := ps[:0]
	for _, p := range ps {
		if p >= 0 && p <= 1 {
			ps2 = append(ps2, p)
		}
	}
	ps = ps2
	sort.Float64s(ps)
	weighted := "unweighted"
	if w != nil {
		weighted = "weighted"
	}
	exactSums := Wf < 1<<52
	for _, v := range w {
		if v != math.Trunc(v) {
			exactSums = false
		}
	}
	for _, ck := range cumKinds {
		prev := math.Inf(-1)
		for _, p := range ps {
			pclass := weighted + ",p<1"
			if p >= 1-eps {
				pclass = weighted + ",p~1"
			}
			replay := func() any {
				return replayCase{"func": "Quantile", "p": p, "kind": ck.name, "x": x, "weights": w, "data_class": class, "weight_kind": wk}
			}
			var q float64
			c.LastCase(fmt.Sprintf("Quantile %s p=%v n=%d wk=%s case=%d", ck.name, p, n, wk, ci))
			ok := m.try("Quantile", pclass, replay, func() { q = stat.Quantile(p, ck.k, cp(x), cp(w)) })
			c.Eval("Quantile|"+ck.name+"|"+wk+"|"+class+"|"+pclass, true)
			if !ok {
				continue
			}
			if !isFinite(q) {
				c.Violationf(sig("Quantile/"+ck.name, weighted, "non-finite result"), replay(), "Quantile = %v", q)
				continue
			}
			t := bMul(bF(p), W)
			d := bMul(bF(eps), W)
			if exactSums && bF(p*Wf).Cmp(t) == 0 {
				// nil or integer weights: every partial sum is exact in any
				// order, and here p*W is exact too, so IEEE arithmetic leaves
				// exactly one admissible order statistic (boundaries k/W decide
				// ">=" against ">").
				d = bZero()
			}
			tlo, thi := bSub(t, d), bAdd(t, d)
			if ck.k == stat.Empirical {
				ilo, ihi := quantEmp(cum, tlo), quantEmp(cum, thi)
				if q < x[ilo] || q > x[ihi] || !contains(x[ilo:ihi+1], q) {
					c.Violationf(sig("Quantile/Empirical", weighted, "definition"), replay(), "Quantile(%v) = %v, the defining order statistic is x[%d..%d] = %v..%v", p, q, ilo, ihi, x[ilo], x[ihi])
					continue
				}
				if q < prev {
					c.Violationf(sig("Quantile/Empirical", weighted, "decreasing in p"), replay(), "Quantile(%v) = %v below the value %v at a smaller p", p, q, prev)
				}
				// CDF(Quantile(p)) >= p - 4u*n
				if cdfToo {
					var f float64
					if m.try("CDF", weighted, replay, func() { f = stat.CDF(q, stat.Empirical, cp(x), cp(w)) }) {
						c.Eval("CDF|of-quantile|"+wk+"|"+class, true)
						if !(f >= p-eps) {
							c.Violationf(sig("CDF∘Quantile", weighted, "CDF(Quantile(p)) < p"), replay(), "p = %v, Quantile = %v, CDF = %v", p, q, f)
						}
					}
				}
			} else {
				s := 8 * u * maxAbs
				lo, hi := quantLin(x, w, cum, tlo), quantLin(x, w, cum, thi)
				if q < lo-s || q > hi+s {
					c.Violationf(sig("Quantile/LinInterp", weighted, "definition"), replay(), "Quantile(%v) = %.17g, defining interpolation lies in [%.17g, %.17g]", p, q, lo, hi)
					continue
				}
				if q < prev-s {
					c.Violationf(sig("Quantile/LinInterp", weighted, "decreasing in p"), replay(), "Quantile(%v) = %v below the value %v at a smaller p", p, q, prev)
				}
				if q < x[0]-s || q > x[n-1]+s {
					c.Violationf(sig("Quantile/LinInterp", weighted, "outside data range"), replay(), "Quantile(%v) = %v outside [%v, %v]", p, q, x[0], x[n-1])
				}
			}
			prev = q
		}
	}
	if n <= 6 && ci%7 == 4 && m.wantSample("quantile") {
		c.Sample(replayCase{"func": "Quantile", "x": x, "weights": w, "p_grid": ps})
	}
	// Affine equivariance of the Empirical quantile for increasing exact maps.
	if class == clsGrid {
		a := math.Ldexp(1, r.Range(-3, 3))
		b := float64(r.Range(-1024000, 1024000)) / 1024
		ax := make([]float64, n)
		for i, v := range x {
			ax[i] = a*v + b
		}
		p := r.Float64()
		var q1, q2 float64
		rp := func() any { return replayCase{"func": "Quantile", "p": p, "x": x, "weights": w, "a": a, "b": b} }
		if m.try("Quantile", weighted+",p<1", rp, func() {
			q1 = stat.Quantile(p, stat.Empirical, cp(x), cp(w))
			q2 = stat.Quantile(p, stat.Empirical, ax, cp(w))
		}) {
			c.EvalN("Quantile|affine|"+wk, 2, true)
			if q2 != a*q1+b {
				c.Violationf(sig("Quantile/Empirical", weighted, "not affine-equivariant"), rp(), "Q(a x + b) = %v, a Q(x) + b = %v", q2, a*q1+b)
			}
		}
	}
	if !cdfToo {
		return
	}
	// CDF definition at every distinct sample value (tied or not), +-1 ulp
	// around each, between neighbours, below the minimum and above the maximum.
	qs := qGrid(r, x, 40)
	allOnes := w != nil
	for _, v := range w {
		if v != 1 {
			allOnes = false
		}
	}
	prevF := math.Inf(-1)
	for _, q := range qs {
		if !isFinite(q) {
			continue
		}
		replay := func() any { return replayCase{"func": "CDF", "q": q, "x": x, "weights": w} }
		var f float64
		ok := m.try("CDF", weighted, replay, func() { f = stat.CDF(q, stat.Empirical, cp(x), cp(w)) })
		c.Eval("CDF|def|"+wk+"|"+class, true)
		if !ok {
			continue
		}
		le := bZero()
		for i, v := range x {
			if v <= q {
				if w == nil {
					acc(le, bI(1))
				} else {
					acc(le, bF(w[i]))
				}
			}
		}
		ref := bQuo(le, W)
		unit := float64(n+8) * u * 2
		if !m.band("CDF", weighted, "definition", f, ref, unit, replay) {
			continue
		}
		if f < 0 || f > 1+BandC*unit {
			c.Violationf(sig("CDF", weighted, "outside [0,1]"), replay(), "CDF = %v", f)
		}
		if f < prevF-BandC*unit {
			c.Violationf(sig("CDF", weighted, "decreasing in q"), replay(), "CDF(%v) = %v < %v", q, f, prevF)
		}
		prevF = f
		// nil weights == unit weights at this very q
		if w == nil || allOnes {
			other := ones(n)
			if allOnes {
				other = nil
			}
			var f2 float64
			if m.try("CDF", "nil-vs-ones", replay, func() { f2 = stat.CDF(q, stat.Empirical, cp(x), other) }) {
				c.Eval("CDF|ones-vs-nil|"+class, true)
				m.rel("CDF", "ties-aware q grid", "ones-weights != nil-weights", f, f2, 2*unit, replay)
			}
		}
	}
}

func contains(s []float64, v float64) bool {
	for _, x := range s {
		if x == v {
			return true
		}
	}
	return false
}

// ---------------------------------------------------------------- Histogram

func genDividers(r *vrt.Rand, x []float64) []float64 {
	lo, hi := x[0], x[len(x)-1]
	span := hi - lo
	if span == 0 {
		span = math.Max(math.Abs(lo), 1)
	}
	if r.Intn(4) == 0 {
		// one divider at every distinct sample value (each tie run is its own
		// bin; inclusion of the lower edge decides everything), optionally
		// with the +-1 ulp neighbours as extra dividers
		d := distinct(x)
		if len(d) > 30 {
			d = d[:30:30]
			d = append(d, hi)
		}
		if r.Bool() {
			for _, v := range append([]float64(nil), d...) {
				d = append(d, math.Nextafter(v, math.Inf(1)))
				if v != lo {
					d = append(d, math.Nextafter(v, math.Inf(-1)))
				}
			}
		}
		d = append(d, math.Nextafter(hi, math.Inf(1)), hi+span)
		sort.Float64s(d)
		return d
	}
	nb := r.Range(1, 12)
	d := make([]float64, 0, nb+3)
	// lowest divider: exactly x[0] or below
	if r.Bool() {
		d = append(d, lo)
	} else {
		d = append(d, lo-span*r.Float64())
	}
	for k := 0; k < nb-1; k++ {
		switch r.Intn(4) {
		case 0: // exactly a data value (edge inclusion matters)
			d = append(d, x[r.Intn(len(x))])
		case 1: // duplicate divider (empty bin)
			d = append(d, d[r.Intn(len(d))])
		default:
			d = append(d, lo+span*r.Float64())
		}
	}
	// highest divider: just above the maximum, or further
	if r.Bool() {
		d = append(d, math.Nextafter(hi, math.Inf(1)))
	} else {
		d = append(d, hi+span*(0.001+r.Float64()))
	}
	sort.Float64s(d)
	// the first must be <= x[0]: guaranteed since lo or lower is included and
	// every other divider is >= lo.
	return d
}

func (m *mon) runHistogram() {
	c := m.c
	cases := c.Pick(8000, 78000)
	kinds := []string{wNil, wOnes, wInts, wIntsZ, wPos, wMix, wZeros}
	classes := []string{clsCont, clsTies, clsTies, clsRuns, clsRuns, clsConst, clsGrid, clsOffset}
	vrt.Parallel(cases, func(ci int) {
		r := c.RNG("hist", ci)
		class, wk := cross(ci, classes, kinds)
		n := genN(r, 1)
		e := scaleExps[r.Intn(len(scaleExps))]
		x := scaleBy(genData(r, class, n), e)
		w := genWeights(r, wk, n)
		x, w = sortTogether(x, w)
		div := genDividers(r, x)
		if !isFinite(div[0]) || !isFinite(div[len(div)-1]) {
			return
		}
		replay := func() any { return replayCase{"func": "Histogram", "dividers": div, "x": x, "weights": w} }
		wclass := "unweighted"
		if w != nil {
			wclass = "weighted"
		}
		var count []float64
		passCount := r.Bool()
		var given []float64
		if passCount {
			given = make([]float64, len(div)-1)
			vrt.FillTaint(given)
		}
		c.LastCase(fmt.Sprintf("Histogram n=%d bins=%d wk=%s case=%d", n, len(div)-1, wk, ci))
		ok := m.try("Histogram", wclass, replay, func() { count = stat.Histogram(given, cp(div), cp(x), cp(w)) })
		c.Eval(fmt.Sprintf("Histogram|%s|%s|given=%v", wk, class, passCount), true)
		if !ok {
			return
		}
		if len(count) != len(div)-1 {
			c.Violationf(sig("Histogram", wclass, "wrong number of bins"), replay(), "len(count) = %d for %d dividers", len(count), len(div))
			return
		}
		if passCount && &count[0] != &given[0] {
			c.Violationf(sig("Histogram", wclass, "count not stored in the provided slice"), replay(), "returned slice is not the provided one")
		}
		// bin-by-bin counting per the doc: dividers[j] <= x < dividers[j+1]
		tot := bZero()
		totW := bZero()
		for j := range count {
			ref := bZero()
			var a float64
			for i, v := range x {
				if div[j] <= v && v < div[j+1] {
					wi := 1.0
					if w != nil {
						wi = w[i]
					}
					acc(ref, bF(wi))
					a += wi
				}
			}
			if !m.band("Histogram", wclass, "bin count != weight with dividers[j] <= x < dividers[j+1]", count[j], ref, float64(n+8)*u*a, func() any {
				return replayCase{"func": "Histogram", "dividers": div, "x": x, "weights": w, "bin": j, "count": count}
			}) {
				return
			}
			acc(tot, bF(count[j]))
		}
		for i := range x {
			if w == nil {
				acc(totW, bI(1))
			} else {
				acc(totW, bF(w[i]))
			}
		}
		m.band("Histogram", wclass, "total weight not conserved", bTo(tot), totW, float64(n+8)*u*bTo(totW)*2, replay)
		if n <= 6 && ci%7 == 6 && m.wantSample("histogram") {
			c.Sample(replayCase{"func": "Histogram", "dividers": div, "x": x, "weights": w, "count": count})
		}
		// metamorphic: ones == nil, integer weights == replication
		var c2 []float64
		switch wk {
		case wNil:
			if m.try("Histogram", wclass, replay, func() { c2 = stat.Histogram(nil, cp(div), cp(x), ones(n)) }) {
				c.Eval("Histogram|nil-vs-ones|"+class, true)
				for j := range count {
					m.rel("Histogram", wclass, "ones-weights != nil-weights", count[j], c2[j], float64(n+8)*u*2*count[j], replay)
				}
			}
		case wOnes:
			if m.try("Histogram", wclass, replay, func() { c2 = stat.Histogram(nil, cp(div), cp(x), nil) }) {
				c.Eval("Histogram|ones-vs-nil|"+class, true)
				for j := range count {
					m.rel("Histogram", wclass, "ones-weights != nil-weights", count[j], c2[j], float64(n+8)*u*2*count[j], replay)
				}
			}
		case wInts, wIntsZ:
			rx, _ := replicate(x, w)
			if m.try("Histogram", wclass, replay, func() { c2 = stat.Histogram(nil, cp(div), rx, nil) }) {
				c.Eval("Histogram|replication|"+class, true)
				for j := range count {
					m.rel("Histogram", wclass, "integer-weights != replication", count[j], c2[j], float64(n+8)*u*2*count[j], replay)
				}
			}
		}
	})
	// documented: empty x gives all-zero counts
	cnt := stat.Histogram(nil, []float64{0, 1, 2}, nil, nil)
	c.Eval("Histogram|empty-x", false)
	if len(cnt) != 2 || cnt[0] != 0 || cnt[1] != 0 {
		c.Violationf(sig("Histogram", "empty", "non-zero counts"), nil, "Histogram of no data = %v", cnt)
	}
}

// ---------------------------------------------------------------- Kolmogorov-Smirnov

func ecdfAt(t float64, x, w []float64, W bf) bf {
	s := bZero()
	for i, v := range x {
		if v <= t {
			if w == nil {
				acc(s, bI(1))
			} else {
				acc(s, bF(w[i]))
			}
		}
	}
	return bQuo(s, W)
}

func (m *mon) runKS() {
	c := m.c
	cases := c.Pick(2500, 26000)
	kinds := []string{wNil, wOnes, wInts, wIntsZ, wPos, wMix, wZeros}
	vrt.Parallel(cases, func(ci int) {
		r := c.RNG("ks", ci)
		n1, n2 := genN(r, 1), genN(r, 1)
		if n1 > 80 {
			n1 = r.Range(1, 80)
		}
		if n2 > 80 {
			n2 = r.Range(1, 80)
		}
		ksClasses := []string{"continuous", "shared-ties", "tie-runs", "ties-vs-continuous", "identical", "disjoint", "shifted"}
		cls := ksClasses[(ci/(len(kinds)*len(kinds)))%len(ksClasses)] // full cross product with k1, k2 below
		var x, y []float64
		switch cls {
		case "tie-runs":
			x, y = genData(r, clsRuns, n1), genData(r, clsRuns, n2)
		case "ties-vs-continuous":
			x, y = genData(r, clsTies, n1), genData(r, clsCont, n2)
		case "continuous":
			x, y = genData(r, clsCont, n1), genData(r, clsCont, n2)
		case "shared-ties":
			x, y = genData(r, clsTies, n1), genData(r, clsTies, n2)
		case "identical":
			x = genData(r, pickStr(r, clsCont, clsTies, clsRuns), n1)
			y = cp(x)
			n2 = n1
		case "disjoint":
			x, y = genData(r, clsCont, n1), genData(r, clsCont, n2)
			for i := range y {
				y[i] += 1e4
			}
		case "shifted":
			x, y = genData(r, clsCont, n1), genData(r, clsCont, n2)
			for i := range y {
				y[i] += 0.5
			}
		}
		k1, k2 := kinds[ci%len(kinds)], kinds[(ci/len(kinds))%len(kinds)]
		wx, wy := genWeights(r, k1, n1), genWeights(r, k2, n2)
		if cls == "identical" && r.Bool() {
			wy, k2 = cp(wx), k1
		}
		x, wx = sortTogether(x, wx)
		y, wy = sortTogether(y, wy)
		m.ksCase(ci, x, wx, y, wy, cls, k1+"/"+k2)
		if k1 == wNil {
			// nil weights == unit weights
			rp := func() any {
				return replayCase{"func": "KolmogorovSmirnov", "x": x, "xWeights": nil, "y": y, "yWeights": wy}
			}
			var a, b float64
			if m.try("KolmogorovSmirnov", cls, rp, func() {
				a = stat.KolmogorovSmirnov(cp(x), nil, cp(y), cp(wy))
				b = stat.KolmogorovSmirnov(cp(x), ones(n1), cp(y), cp(wy))
			}) {
				c.EvalN("KolmogorovSmirnov|nil-vs-ones|"+cls, 2, true)
				m.rel("KolmogorovSmirnov", "sorted samples", "ones-weights != nil-weights", a, b, float64(n1+n2+8)*u*4, rp)
			}
		}
		if (k1 == wInts || k1 == wIntsZ) && n1 <= 40 {
			rx, _ := replicate(x, wx)
			m.ksCase(ci, rx, nil, y, wy, cls, "replicated/"+k2)
		}
	})
	// documented special cases
	c.EvalN("KolmogorovSmirnov|empty", 3, false)
	if v := stat.KolmogorovSmirnov(nil, nil, nil, nil); v != 0 {
		c.Violationf(sig("KolmogorovSmirnov", "empty", "both empty != 0"), nil, "got %v", v)
	}
	if v := stat.KolmogorovSmirnov([]float64{1}, nil, nil, nil); v != 1 {
		c.Violationf(sig("KolmogorovSmirnov", "empty", "one empty != 1"), nil, "got %v", v)
	}
	if v := stat.KolmogorovSmirnov(nil, nil, []float64{1}, []float64{2}); v != 1 {
		c.Violationf(sig("KolmogorovSmirnov", "empty", "one empty != 1"), nil, "got %v", v)
	}
}

func (m *mon) ksCase(ci int, x, wx, y, wy []float64, cls, wk string) {
	c := m.c
	_, W1 := cumExact(len(x), wx)
	_, W2 := cumExact(len(y), wy)
	if W1.Sign() <= 0 || W2.Sign() <= 0 {
		return
	}
	replay := func() any {
		return replayCase{"func": "KolmogorovSmirnov", "x": x, "xWeights": wx, "y": y, "yWeights": wy}
	}
	var got float64
	c.LastCase(fmt.Sprintf("KS n1=%d n2=%d cls=%s case=%d", len(x), len(y), cls, ci))
	ok := m.try("KolmogorovSmirnov", cls, replay, func() { got = stat.KolmogorovSmirnov(cp(x), cp(wx), cp(y), cp(wy)) })
	c.Eval("KolmogorovSmirnov|"+cls+"|"+wk, true)
	if !ok {
		return
	}
	// sup over the merged sample of |F1 - F2|
	sup := bZero()
	pts := append(cp(x), y...)
	sort.Float64s(pts)
	for i, t := range pts {
		if i > 0 && t == pts[i-1] {
			continue
		}
		d := bAbs(bSub(ecdfAt(t, x, wx, W1), ecdfAt(t, y, wy, W2)))
		if d.Cmp(sup) > 0 {
			sup = d
		}
	}
	unit := float64(len(x)+len(y)+8) * u * 2
	if m.band("KolmogorovSmirnov", "sorted samples", "!= sup |F1 - F2|", got, sup, unit, replay) {
		if got < 0 || got > 1+BandC*unit {
			c.Violationf(sig("KolmogorovSmirnov", "sorted samples", "outside [0,1]"), replay(), "KS = %v", got)
		}
		var g2 float64
		if m.try("KolmogorovSmirnov", cls, replay, func() { g2 = stat.KolmogorovSmirnov(cp(y), cp(wy), cp(x), cp(wx)) }) {
			c.Eval("KolmogorovSmirnov|swap|"+cls, true)
			m.rel("KolmogorovSmirnov", "sorted samples", "not symmetric in the two samples", got, g2, 2*unit, replay)
		}
	}
	if len(x) <= 5 && len(y) <= 5 && ci%7 == 3 && m.wantSample("ks") {
		c.Sample(replayCase{"func": "KolmogorovSmirnov", "x": x, "xWeights": wx, "y": y, "yWeights": wy, "result": got})
	}
}

// ---------------------------------------------------------------- ROC / TOC

func (m *mon) runROC() {
	c := m.c
	cases := c.Pick(4000, 39000)
	kinds := []string{wNil, wOnes, wInts, wPos, wMix}
	vrt.Parallel(cases, func(ci int) {
		r := c.RNG("roc", ci)
		n := genN(r, 2)
		if n > 100 {
			n = r.Range(2, 100)
		}
		rocClasses := []string{clsCont, clsTies, clsTies, clsRuns, clsRuns, clsConst}
		class, wk := cross(ci, rocClasses, kinds)            // ties under every weight kind
		cutMode := (ci / (len(rocClasses) * len(kinds))) % 3 // 0 auto, 1 random given, 2 given at every distinct value +-1 ulp
		y := genData(r, class, n)
		w := genWeights(r, wk, n)
		classes := make([]bool, n)
		sep := r.Float64()
		for i := range classes {
			classes[i] = r.Chance(0.5) != (r.Chance(sep) && y[i] > 0)
		}
		// documented domain: both classes present (rates are ratios to class totals)
		classes[r.Intn(n)] = true
		j := r.Intn(n)
		for classes[j] && countTrue(classes) == 1 {
			j = r.Intn(n)
		}
		classes[j] = false
		// sort jointly (reference sort; SortWeightedLabeled has its own monitor)
		idx := make([]int, n)
		for i := range idx {
			idx[i] = i
		}
		sort.SliceStable(idx, func(a, b int) bool { return y[idx[a]] < y[idx[b]] })
		y, w = permute(idx, y), permute(idx, w)
		cl2 := make([]bool, n)
		for i, k := range idx {
			cl2[i] = classes[k]
		}
		classes = cl2

		var cutoffs []float64
		mode := "auto"
		if cutMode == 2 {
			mode = "given"
			cutoffs = qGrid(r, y, 25)
		} else if cutMode == 1 {
			mode = "given"
			k := r.Range(1, 8)
			for i := 0; i < k; i++ {
				switch r.Intn(4) {
				case 0:
					cutoffs = append(cutoffs, y[r.Intn(n)])
				case 1:
					cutoffs = append(cutoffs, y[n-1]+r.Float64())
				case 2:
					cutoffs = append(cutoffs, y[0]-r.Float64())
				default:
					cutoffs = append(cutoffs, y[0]+(y[n-1]-y[0])*r.Float64())
				}
			}
			sort.Float64s(cutoffs)
		}
		replay := func() any {
			return replayCase{"func": "ROC", "cutoffs": cutoffs, "y": y, "classes": classes, "weights": w}
		}
		var tpr, fpr, thr []float64
		cut0 := cp(cutoffs)
		c.LastCase(fmt.Sprintf("ROC n=%d mode=%s case=%d", n, mode, ci))
		ok := m.try("ROC", mode, replay, func() { tpr, fpr, thr = stat.ROC(cutoffs, cp(y), append([]bool(nil), classes...), cp(w)) })
		c.Eval("ROC|"+mode+"|"+wk+"|"+class, true)
		if !ok {
			return
		}
		// expected thresholds
		var want []float64
		if mode == "auto" {
			for i, v := range y {
				if i == 0 || v != y[i-1] {
					want = append(want, v)
				}
			}
			want = append(want, math.Inf(1))
		} else {
			want = cp(cut0)
			for i := range cutoffs {
				if cutoffs[i] != cut0[i] {
					c.Violationf(sig("ROC", mode, "provided cutoffs mutated"), replay(), "cutoffs changed at %d", i)
					break
				}
			}
		}
		for i, j := 0, len(want)-1; i < j; i, j = i+1, j-1 {
			want[i], want[j] = want[j], want[i]
		}
		if len(thr) != len(want) || len(tpr) != len(want) || len(fpr) != len(want) {
			c.Violationf(sig("ROC", mode, "wrong result length"), replay(), "len(thresh)=%d len(tpr)=%d len(fpr)=%d, want %d", len(thr), len(tpr), len(fpr), len(want))
			return
		}
		for i := range want {
			if thr[i] != want[i] {
				c.Violationf(sig("ROC", mode, "wrong thresholds"), replay(), "thresh[%d] = %v, want %v", i, thr[i], want[i])
				return
			}
		}
		// threshold sweep definition: rates for y >= thresh[i]
		pos, neg := bZero(), bZero()
		for i := range y {
			wi := 1.0
			if w != nil {
				wi = w[i]
			}
			if classes[i] {
				acc(pos, bF(wi))
			} else {
				acc(neg, bF(wi))
			}
		}
		unit := float64(n+8) * u * 2
		for k, t := range thr {
			tp, fp := bZero(), bZero()
			for i := range y {
				if y[i] >= t {
					wi := 1.0
					if w != nil {
						wi = w[i]
					}
					if classes[i] {
						acc(tp, bF(wi))
					} else {
						acc(fp, bF(wi))
					}
				}
			}
			rp := func() any {
				return replayCase{"func": "ROC", "cutoffs": cut0, "y": y, "classes": classes, "weights": w, "index": k, "tpr": tpr, "fpr": fpr, "thresh": thr}
			}
			if !m.band("ROC.tpr", mode, "!= weighted rate of positives with y >= thresh", tpr[k], bQuo(tp, pos), unit, rp) ||
				!m.band("ROC.fpr", mode, "!= weighted rate of negatives with y >= thresh", fpr[k], bQuo(fp, neg), unit, rp) {
				return
			}
			if k > 0 && (tpr[k] < tpr[k-1] || fpr[k] < fpr[k-1]) {
				c.Violationf(sig("ROC", mode, "curve not monotone"), rp(), "at index %d: tpr %v -> %v, fpr %v -> %v", k, tpr[k-1], tpr[k], fpr[k-1], fpr[k])
				return
			}
			if tpr[k] < 0 || tpr[k] > 1 || fpr[k] < 0 || fpr[k] > 1 {
				c.Violationf(sig("ROC", mode, "rate outside [0,1]"), rp(), "tpr=%v fpr=%v", tpr[k], fpr[k])
				return
			}
		}
		// (the end points (0,0) at thresh=+Inf and (1,1) at thresh=min(y) are
		// covered by the definition band: 1 - nPos*(1/nPos) may be 2^-53, not 0)
		if wk == wNil {
			// nil weights == unit weights, same cutoffs
			var t2, f2 []float64
			if m.try("ROC", mode, replay, func() { t2, f2, _ = stat.ROC(cp(cut0), cp(y), append([]bool(nil), classes...), ones(n)) }) {
				c.Eval("ROC|nil-vs-ones|"+mode+"|"+class, true)
				if len(t2) != len(tpr) {
					c.Violationf(sig("ROC", mode, "ones-weights != nil-weights"), replay(), "result lengths %d vs %d", len(tpr), len(t2))
				} else {
					for k := range tpr {
						if !m.rel("ROC.tpr", mode, "ones-weights != nil-weights", tpr[k], t2[k], 2*unit, replay) ||
							!m.rel("ROC.fpr", mode, "ones-weights != nil-weights", fpr[k], f2[k], 2*unit, replay) {
							break
						}
					}
				}
			}
		}
		if n <= 6 && ci%7 == 5 && m.wantSample("roc") {
			c.Sample(replayCase{"func": "ROC", "cutoffs": cut0, "y": y, "classes": classes, "weights": w, "tpr": tpr, "fpr": fpr, "thresh": thr})
		}

		// TOC on the same sorted classes/weights
		var mn, ntp, mx []float64
		rpT := func() any { return replayCase{"func": "TOC", "classes": classes, "weights": w} }
		ok = m.try("TOC", wkClass(w), rpT, func() { mn, ntp, mx = stat.TOC(append([]bool(nil), classes...), cp(w)) })
		c.Eval("TOC|"+wk+"|"+class, true)
		if !ok {
			return
		}
		if len(mn) != n+1 || len(ntp) != n+1 || len(mx) != n+1 {
			c.Violationf(sig("TOC", wkClass(w), "wrong result length"), rpT(), "lengths %d %d %d, want %d", len(mn), len(ntp), len(mx), n+1)
			return
		}
		wt := func(i int) float64 {
			if w == nil {
				return 1
			}
			return w[i]
		}
		totw, totp := bZero(), bZero()
		for i := 0; i < n; i++ {
			acc(totw, bF(wt(i)))
			if classes[i] {
				acc(totp, bF(wt(i)))
			}
		}
		cumw, cump := bZero(), bZero()
		unitT := float64(n+8) * u * 2 * bTo(totw)
		for i := 0; i <= n; i++ {
			if i > 0 {
				j := n - i
				acc(cumw, bF(wt(j)))
				if classes[j] {
					acc(cump, bF(wt(j)))
				}
			}
			// min_i = max(0, TP - (totw - cumw_i)), max_i = min(TP, cumw_i)
			lo := bSub(totp, bSub(totw, cumw))
			if lo.Sign() < 0 {
				lo = bZero()
			}
			hi := cumw
			if totp.Cmp(hi) < 0 {
				hi = totp
			}
			if !m.band("TOC.ntp", wkClass(w), "!= sum of positive weights above rank", ntp[i], cump, unitT, rpT) ||
				!m.band("TOC.min", wkClass(w), "!= max(0, TP - weight below rank)", mn[i], lo, unitT, rpT) ||
				!m.band("TOC.max", wkClass(w), "!= min(TP, weight above rank)", mx[i], hi, unitT, rpT) {
				return
			}
			if !(mn[i] <= ntp[i]+BandC*unitT && ntp[i] <= mx[i]+BandC*unitT) {
				c.Violationf(sig("TOC", wkClass(w), "ntp outside [min,max]"), rpT(), "i=%d min=%v ntp=%v max=%v", i, mn[i], ntp[i], mx[i])
				return
			}
		}
		if wk == wNil {
			var mn2, ntp2, mx2 []float64
			if m.try("TOC", "weighted", rpT, func() { mn2, ntp2, mx2 = stat.TOC(append([]bool(nil), classes...), ones(n)) }) && len(ntp2) == n+1 {
				c.Eval("TOC|nil-vs-ones|"+class, true)
				for i := 0; i <= n; i++ {
					if !m.rel("TOC.ntp", "unweighted", "ones-weights != nil-weights", ntp[i], ntp2[i], 2*unitT, rpT) ||
						!m.rel("TOC.min", "unweighted", "ones-weights != nil-weights", mn[i], mn2[i], 2*unitT, rpT) ||
						!m.rel("TOC.max", "unweighted", "ones-weights != nil-weights", mx[i], mx2[i], 2*unitT, rpT) {
						break
					}
				}
			}
		}
	})
	// documented empties
	c.EvalN("ROC/TOC|empty", 2, false)
	if a, b, d := stat.ROC(nil, nil, nil, nil); a != nil || b != nil || d != nil {
		c.Violationf(sig("ROC", "empty", "non-nil result"), nil, "ROC of no data returned non-nil")
	}
	if a, b, d := stat.TOC(nil, nil); a != nil || b != nil || d != nil {
		c.Violationf(sig("TOC", "empty", "non-nil result"), nil, "TOC of no data returned non-nil")
	}
}

func wkClass(w []float64) string {
	if w == nil {
		return "unweighted"
	}
	return "weighted"
}

func countTrue(b []bool) int {
	n := 0
	for _, v := range b {
		if v {
			n++
		}
	}
	return n
}

// ---------------------------------------------------------------- SortWeighted*

type triple struct {
	x, w float64
	l    bool
}

func (m *mon) runSort() {
	c := m.c
	cases := c.Pick(4000, 39000)
	vrt.Parallel(cases, func(ci int) {
		r := c.RNG("sort", ci)
		n := genN(r, 1) - 1*boolI(ci%50 == 0) // includes n = 0 occasionally
		if n < 0 {
			n = 0
		}
		x := genData(r, pickStr(r, clsCont, clsTies, clsRuns, clsConst), n)
		var w []float64
		var l []bool
		hasW, hasL := ci%2 == 0, ci%4 < 2
		if hasW {
			w = make([]float64, n)
			for i := range w {
				w[i] = float64(i) + 0.25 // distinct tags: pairing is observable
			}
		}
		if hasL {
			l = make([]bool, n)
			for i := range l {
				l[i] = r.Bool()
			}
		}
		before := map[triple]int{}
		for i := range x {
			t := triple{x: x[i]}
			if hasW {
				t.w = w[i]
			}
			if hasL {
				t.l = l[i]
			}
			before[t]++
		}
		x0, w0, l0 := cp(x), cp(w), append([]bool(nil), l...)
		replay := func() any { return replayCase{"x": x0, "weights": w0, "labels": l0} }
		name := "SortWeightedLabeled"
		var ok bool
		if ci%3 == 0 && !hasL {
			name = "SortWeighted"
			ok = m.try(name, "in-domain", replay, func() { stat.SortWeighted(x, w) })
		} else {
			ok = m.try(name, "in-domain", replay, func() { stat.SortWeightedLabeled(x, l, w) })
		}
		c.Eval(fmt.Sprintf("%s|w=%v|l=%v", name, hasW, hasL), n > 1)
		if !ok {
			return
		}
		if !sort.Float64sAreSorted(x) {
			c.Violationf(sig(name, "in-domain", "result not sorted"), replay(), "x after = %v", x)
			return
		}
		for i := range x {
			t := triple{x: x[i]}
			if hasW {
				t.w = w[i]
			}
			if hasL {
				t.l = l[i]
			}
			before[t]--
		}
		for _, v := range before {
			if v != 0 {
				c.Violationf(sig(name, "in-domain", "pairing of data, weights and labels not preserved"), replay(), "after: x=%v w=%v l=%v", x, w, l)
				return
			}
		}
	})
}

func boolI(b bool) int {
	if b {
		return 1
	}
	return 0
}
