package main

import (
	"fmt"
	"math"

	"gonum.org/v1/gonum/mat"
	"gonum.org/v1/gonum/stat/mds"
	"gonum.org/v1/gonum/stat/spatial"
	"gonum.org/v1/gonum/verifx/ref"
	"gonum.org/v1/gonum/verifx/vrt"
)

// ---------------------------------------------------------------- Moran's I, Getis-Ord G*

// moranI evaluates I = (n/S0) * sum_ij w_ij z_i z_j / sum_i z_i^2 exactly.
func moranI(data []float64, L [][]float64) (I bf, unit float64, ok bool) {
	n := len(data)
	mo := newMoments(data, nil)
	if mo.S2.Sign() == 0 {
		return nil, 0, false
	}
	num, s0 := bZero(), bZero()
	var anum float64
	for i := 0; i < n; i++ {
		for j := 0; j < n; j++ {
			w := L[i][j]
			if w == 0 {
				continue
			}
			acc(s0, bF(w))
			acc(num, bMul(bF(w), bMul(mo.d[i], mo.d[j])))
			anum += math.Abs(w * mo.df[i] * mo.df[j])
		}
	}
	if s0.Sign() == 0 {
		return nil, 0, false
	}
	I = bMul(bQuo(bI(n), s0), bQuo(num, mo.S2))
	nn := float64(n*n + 8)
	var dsum, wsum float64
	for i := 0; i < n; i++ {
		dsum += math.Abs(mo.df[i])
		for j := 0; j < n; j++ {
			wsum += math.Abs(L[i][j]) * (math.Abs(mo.df[i]) + math.Abs(mo.df[j]))
		}
	}
	scale := float64(n) / bTo(s0) / mo.S2f
	unit = scale*(nn*u*4*anum+mo.delta*wsum) + math.Abs(bTo(I))*nn*u*4 + math.Abs(bTo(I))*2*mo.delta*dsum/mo.S2f
	return I, unit, true
}

func permuteAll(a []float64, f func([]float64)) {
	var rec func(k int)
	rec = func(k int) {
		if k == len(a) {
			f(a)
			return
		}
		for i := k; i < len(a); i++ {
			a[k], a[i] = a[i], a[k]
			rec(k + 1)
			a[k], a[i] = a[i], a[k]
		}
	}
	rec(0)
}

// moranVarFormula is the randomisation variance of I (Cliff & Ord), i.e. the
// variance of I over all n! assignments of the data values to the locations.
func moranVarFormula(data []float64, L [][]float64) bf {
	n := len(data)
	mo := newMoments(data, nil)
	s0, s1, s2 := bZero(), bZero(), bZero()
	for i := 0; i < n; i++ {
		p := bZero()
		for j := 0; j < n; j++ {
			wij, wji := bF(L[i][j]), bF(L[j][i])
			acc(s0, wij)
			v := bAdd(wij, wji)
			acc(s1, bMul(v, v))
			acc(p, v)
		}
		acc(s2, bMul(p, p))
	}
	s1 = bQuo(s1, bI(2))
	N := bI(n)
	m2 := bQuo(mo.S2, N)
	m4 := bQuo(mo.centralSum(4), N)
	k := bQuo(m4, bMul(m2, m2)) // sample kurtosis b2 = m4/m2^2
	s0sq := bMul(s0, s0)
	n2 := bMul(N, N)
	A := bMul(N, bAdd(bSub(bMul(bAdd(bSub(n2, bMul(bI(3), N)), bI(3)), s1), bMul(N, s2)), bMul(bI(3), s0sq)))
	B := bMul(k, bAdd(bSub(bMul(bSub(n2, N), s1), bMul(bI(2), bMul(N, s2))), bMul(bI(6), s0sq)))
	C := bMul(bMul(bI(n-1), bI(n-2)), bMul(bI(n-3), s0sq))
	e := bQuo(bI(-1), bI(n-1))
	return bSub(bQuo(bSub(A, B), C), bMul(e, e))
}

func genLocality(r *vrt.Rand, n int, kind string) (L [][]float64, m mat.Matrix) {
	L = make([][]float64, n)
	for i := range L {
		L[i] = make([]float64, n)
	}
	val := func() float64 {
		if r.Bool() {
			return 1
		}
		return r.Uniform(0.1, 2)
	}
	switch kind {
	case "dense-symmetric":
		for i := 0; i < n; i++ {
			for j := i + 1; j < n; j++ {
				if r.Chance(0.6) {
					L[i][j] = val()
					L[j][i] = L[i][j]
				}
			}
		}
	case "dense-asymmetric":
		for i := 0; i < n; i++ {
			for j := 0; j < n; j++ {
				if i != j && r.Chance(0.6) {
					L[i][j] = val()
				}
			}
		}
	case "band-symmetric", "band-asymmetric":
		kl, ku := r.Range(1, 3), r.Range(1, 3)
		if kind == "band-symmetric" {
			ku = kl
		} else if kl == ku {
			ku = kl + 1
		}
		if kl > n-1 {
			kl = n - 1
		}
		if ku > n-1 {
			ku = n - 1
		}
		b := mat.NewBandDense(n, n, kl, ku, nil)
		for i := 0; i < n; i++ {
			for j := maxInt(0, i-kl); j <= i+ku && j < n; j++ {
				if i == j {
					continue
				}
				v := val()
				if kind == "band-symmetric" && j < i {
					v = L[j][i]
				}
				L[i][j] = v
				b.SetBand(i, j, v)
			}
		}
		return L, b
	}
	// make sure no row is entirely zero-weight overall (S0 > 0)
	if n > 1 && L[0][1] == 0 {
		L[0][1] = 1
		if kind == "dense-symmetric" {
			L[1][0] = 1
		}
	}
	d := mat.NewDense(n, n, nil)
	for i := range L {
		for j := range L[i] {
			d.Set(i, j, L[i][j])
		}
	}
	return L, d
}

func (m *mon) runSpatial() {
	c := m.c
	cases := c.Pick(400, 3900)
	kinds := []string{"dense-symmetric", "dense-asymmetric", "band-symmetric", "band-asymmetric"}
	vrt.Parallel(cases, func(ci int) {
		r := c.RNG("spatial", ci)
		kind := kinds[ci%len(kinds)]
		n := r.Range(4, 30)
		if ci%3 == 0 {
			n = r.Range(4, 6) // exhaustive randomisation distribution
		}
		data := genData(r, pickStr(r, clsCont, clsCont, clsOffset, clsTies), n)
		L, loc := genLocality(r, n, kind)
		replay := func() any {
			return replayCase{"func": "GlobalMoransI", "data": data, "locality": L, "locality_kind": kind}
		}
		Iref, unitI, okI := moranI(data, L)
		if !okI {
			c.Count("noverdict.constant-data-or-empty-locality:GlobalMoransI", 1)
			return
		}
		var gi, gv, gz float64
		c.LastCase(fmt.Sprintf("GlobalMoransI n=%d kind=%s case=%d", n, kind, ci))
		ok := m.try("GlobalMoransI", kind, replay, func() { gi, gv, gz = spatial.GlobalMoransI(cp(data), nil, loc) })
		c.Eval("GlobalMoransI|"+kind, true)
		if !ok {
			return
		}
		m.band("GlobalMoransI.I", kind, "!= (n/S0) sum w_ij z_i z_j / sum z_i^2", gi, Iref, unitI, replay)

		// Var(I): the variance of I under random assignment of the data to the
		// locations.  For n <= 6 it is obtained by enumerating all n!
		// assignments (no formula involved), otherwise by the Cliff-Ord formula
		// (which the enumeration validates on every small case).
		vref := moranVarFormula(data, L)
		if n <= 6 {
			s1, s2 := bZero(), bZero()
			cnt := 0
			permuteAll(cp(data), func(a []float64) {
				I, _, _ := moranI(a, L)
				acc(s1, I)
				acc(s2, bMul(I, I))
				cnt++
			})
			mean := bQuo(s1, bI(cnt))
			venum := bSub(bQuo(s2, bI(cnt)), bMul(mean, mean))
			if d := bTo(bAbs(bSub(venum, vref))); d > 1e-20*(1+math.Abs(bTo(vref))) {
				c.Inconclusive("GlobalMoransI.v", fmt.Sprintf("reference formula disagrees with enumeration by %g", d))
				return
			}
			vref = venum
		}
		unitV := float64(n*n+8) * u * 64 * (math.Abs(bTo(vref)) + 1)
		m.band("GlobalMoransI.v", "all localities", "!= variance of I under randomisation", gv, vref, unitV, func() any {
			return replayCase{"func": "GlobalMoransI", "data": data, "locality": L, "locality_kind": kind, "returned_var": gv, "randomisation_var": bTo(vref)}
		})
		// z is judged against the returned I and v (internal consistency), so
		// that a wrong v does not raise a second signature.
		if gv > 0 && isFinite(gv) && isFinite(gi) {
			zref := bQuo(bSub(bF(gi), bQuo(bI(-1), bI(n-1))), bSqrt(bF(gv)))
			m.band("GlobalMoransI.z", kind, "!= (I - E[I]) / sqrt(v)", gz, zref, 8*u*(math.Abs(bTo(zref))+1/math.Sqrt(gv)), replay)
		}
		// representation independence: the same locality as a dense matrix
		if _, isDense := loc.(*mat.Dense); !isDense {
			var di, dv, dz float64
			if m.try("GlobalMoransI", kind, replay, func() { di, dv, dz = spatial.GlobalMoransI(cp(data), nil, mat.DenseCopyOf(loc)) }) {
				c.Eval("GlobalMoransI|dense-copy|"+kind, true)
				m.rel("GlobalMoransI.I", kind, "band matrix and its dense copy give different results", gi, di, 2*unitI, replay)
				m.rel("GlobalMoransI.v", kind, "band matrix and its dense copy give different results", gv, dv, 2*unitV, replay)
				_ = dz
			}
		}
		if n <= 5 && ci%7 == 2 && m.wantSample("spatial") {
			c.Sample(replayCase{"func": "GlobalMoransI", "data": data, "locality": L, "I": gi, "v": gv, "z": gz})
		}

		// Getis-Ord G*_i for every i
		mo := newMoments(data, nil)
		N := bI(n)
		xbar := mo.mean
		sx2 := bZero()
		for _, v := range data {
			acc(sx2, bMul(bF(v), bF(v)))
		}
		S2 := bSub(bQuo(sx2, N), bMul(xbar, xbar))
		if S2.Sign() <= 0 {
			return
		}
		S := bSqrt(S2)
		for i := 0; i < n; i++ {
			sw, swx, sww := bZero(), bZero(), bZero()
			var aswx float64
			for j := 0; j < n; j++ {
				w := bF(L[i][j])
				acc(sw, w)
				acc(swx, bMul(w, bF(data[j])))
				acc(sww, bMul(w, w))
				aswx += math.Abs(L[i][j] * data[j])
			}
			inner := bQuo(bSub(bMul(N, sww), bMul(sw, sw)), bI(n-1))
			if inner.Sign() <= 0 || bTo(inner) < 1e-6*bTo(sww) {
				c.Count("noverdict.degenerate-row:GetisOrdGStar", 1)
				continue
			}
			num := bSub(swx, bMul(xbar, sw))
			den := bMul(S, bSqrt(inner))
			gref := bQuo(num, den)
			denf := bTo(den)
			swf, swwf := bTo(sw), bTo(sww)
			nnu := float64(n+8) * u
			unit := (nnu*4*(aswx+math.Abs(mo.meanf)*swf)+mo.delta*swf)/denf +
				math.Abs(bTo(gref))*(relUnitS2(mo)+nnu*8*(float64(n)*swwf+swf*swf)/(float64(n-1)*bTo(inner))+8*u)
			rp := func() any {
				return replayCase{"func": "GetisOrdGStar", "i": i, "data": data, "locality": L, "locality_kind": kind}
			}
			var g float64
			if !m.try("GetisOrdGStar", kind, rp, func() { g = spatial.GetisOrdGStar(i, cp(data), nil, loc) }) {
				return
			}
			c.Eval("GetisOrdGStar|"+kind, true)
			if !m.band("GetisOrdGStar", kind, "!= documented G*_i formula", g, gref, unit, rp) {
				return
			}
		}
	})
}

// ---------------------------------------------------------------- Torgerson scaling

func (m *mon) runMDS() {
	c := m.c
	cases := c.Pick(600, 5800)
	vrt.Parallel(cases, func(ci int) {
		r := c.RNG("mds", ci)
		n := r.Range(2, 25)
		d := r.Range(1, 4)
		class := pickStr(r, "generic", "generic", "collinear", "duplicate-points", "lattice")
		pts := make([][]float64, n)
		for i := range pts {
			pts[i] = make([]float64, d)
			for k := range pts[i] {
				switch class {
				case "lattice":
					pts[i][k] = float64(r.Range(-3, 3))
				default:
					pts[i][k] = 3 * r.Norm()
				}
			}
			if class == "collinear" {
				t := r.Norm()
				for k := range pts[i] {
					pts[i][k] = t * float64(k+1)
				}
			}
			if class == "duplicate-points" && i > 0 && r.Chance(0.3) {
				copy(pts[i], pts[r.Intn(i)])
			}
		}
		dis := mat.NewSymDense(n, nil)
		var maxd2 float64
		d2 := make([][]float64, n)
		for i := range d2 {
			d2[i] = make([]float64, n)
		}
		for i := 0; i < n; i++ {
			for j := i + 1; j < n; j++ {
				var s float64
				for k := 0; k < d; k++ {
					s += (pts[i][k] - pts[j][k]) * (pts[i][k] - pts[j][k])
				}
				dis.SetSym(i, j, math.Sqrt(s))
				d2[i][j], d2[j][i] = s, s
				maxd2 = math.Max(maxd2, s)
			}
		}
		if maxd2 == 0 {
			return // all points coincide: nothing to recover
		}
		replay := func() any {
			return replayCase{"func": "TorgersonScaling", "points": pts, "dissimilarity": symRows(dis)}
		}
		var dst mat.Dense
		var k int
		var eig []float64
		eigdst := make([]float64, n)
		c.LastCase(fmt.Sprintf("TorgersonScaling n=%d d=%d class=%s case=%d", n, d, class, ci))
		ok := m.try("TorgersonScaling", class, replay, func() { k, eig = mds.TorgersonScaling(&dst, eigdst, dis) })
		c.Eval("TorgersonScaling|"+class+fmt.Sprintf("|d=%d", d), true)
		if !ok {
			return
		}
		if k == 0 || dst.IsEmpty() {
			c.Violationf(sig("TorgersonScaling", class, "scaling reported failure"), replay(), "k = %d", k)
			return
		}
		rr, cc := dst.Dims()
		if rr != n || cc != k || len(eig) != n {
			c.Violationf(sig("TorgersonScaling", class, "wrong result shape"), replay(), "dst %dx%d, k=%d, len(eig)=%d", rr, cc, k, len(eig))
			return
		}
		for i := 1; i < n; i++ {
			if eig[i] > eig[i-1] {
				c.Violationf(sig("TorgersonScaling", class, "eigenvalues not descending"), replay(), "eig = %v", eig)
				return
			}
		}
		// eigenvalues of the doubly centred Gram matrix of the planted points
		G := ref.New(n, n)
		cen := make([]float64, d)
		for i := range pts {
			for kk := range cen {
				cen[kk] += pts[i][kk] / float64(n)
			}
		}
		for i := 0; i < n; i++ {
			for j := 0; j < n; j++ {
				var s float64
				for kk := 0; kk < d; kk++ {
					s += (pts[i][kk] - cen[kk]) * (pts[j][kk] - cen[kk])
				}
				G.Set(i, j, s)
			}
		}
		w, _ := ref.SymEig(G)
		lam1 := w[n-1]
		unit := float64(n+8) * float64(n+8) * u * 4 * lam1
		for i := 0; i < n; i++ {
			if !m.band("TorgersonScaling.eig", class, "!= eigenvalues of the centred Gram matrix", eig[i], bF(w[n-1-i]), unit, replay) {
				return
			}
		}
		// the configuration reproduces the dissimilarities
		for i := 0; i < n; i++ {
			for j := i + 1; j < n; j++ {
				var s float64
				for kk := 0; kk < k; kk++ {
					df := dst.At(i, kk) - dst.At(j, kk)
					s += df * df
				}
				if !m.band("TorgersonScaling", class, "coordinates do not reproduce the planted distances", s, bF(d2[i][j]), unit, replay) {
					return
				}
			}
		}
	})
}
