package main

import (
	"fmt"
	"math"
	"sort"

	"gonum.org/v1/gonum/mat"
	"gonum.org/v1/gonum/stat"
	"gonum.org/v1/gonum/verifx/ref"
	"gonum.org/v1/gonum/verifx/vrt"
)

// dataset is an n x d sample with optional row weights.
type dataset struct {
	n, d int
	cols [][]float64
	w    []float64
}

func (ds *dataset) dense() *mat.Dense {
	a := mat.NewDense(ds.n, ds.d, nil)
	for j, col := range ds.cols {
		for i, v := range col {
			a.Set(i, j, v)
		}
	}
	return a
}

func (ds *dataset) rows() [][]float64 {
	r := make([][]float64, ds.n)
	for i := range r {
		r[i] = make([]float64, ds.d)
		for j := range ds.cols {
			r[i][j] = ds.cols[j][i]
		}
	}
	return r
}

// exactCov returns the exact weighted covariance matrix (normalised by W-1),
// its float image, and per-entry rounding units for the uncorrected matrix
// two-pass algorithm.
func exactCov(ds *dataset) (cov [][]bf, covf *ref.M, unit [][]float64, ms []*moments) {
	d := ds.d
	ms = make([]*moments, d)
	for j := range ms {
		ms[j] = newMoments(ds.cols[j], ds.w)
	}
	W := ms[0].W
	Wf := ms[0].Wf
	if Wf < 2 {
		return nil, nil, nil, ms // callers issue no verdict (doc: W <= 1 needs a biased estimator)
	}
	wm1 := bSub(W, bI(1))
	cov = make([][]bf, d)
	unit = make([][]float64, d)
	covf = ref.New(d, d)
	nn := float64(ds.n + 8)
	for i := 0; i < d; i++ {
		cov[i] = make([]bf, d)
		unit[i] = make([]float64, d)
	}
	w := ms[0].w
	for i := 0; i < d; i++ {
		for j := i; j < d; j++ {
			s := bZero()
			var a float64
			for k := 0; k < ds.n; k++ {
				acc(s, bMul(bF(w[k]), bMul(ms[i].d[k], ms[j].d[k])))
				a += w[k] * (math.Abs(ms[i].df[k]) + ms[i].delta) * (math.Abs(ms[j].df[k]) + ms[j].delta)
			}
			c := bQuo(s, wm1)
			cov[i][j], cov[j][i] = c, c
			cf := bTo(c)
			covf.Set(i, j, cf)
			covf.Set(j, i, cf)
			un := (nn*u*4*a+Wf*ms[i].delta*ms[j].delta)/(Wf-1) + math.Abs(cf)*nn*u*Wf/(Wf-1)
			unit[i][j], unit[j][i] = un, un
		}
	}
	return cov, covf, unit, ms
}

func genDataset(r *vrt.Rand, n, d int, class string) *dataset {
	ds := &dataset{n: n, d: d, cols: make([][]float64, d)}
	base := genData(r, clsCont, n)
	for j := range ds.cols {
		switch class {
		case "correlated":
			col := genData(r, clsCont, n)
			mix := r.Sym()
			for i := range col {
				col[i] = mix*base[i] + (1-math.Abs(mix))*col[i] + float64(j)
			}
			ds.cols[j] = col
		case "mixed-scale":
			col := genData(r, clsCont, n)
			s := math.Pow(10, float64(r.Range(-3, 3)))
			for i := range col {
				col[i] *= s
			}
			ds.cols[j] = col
		case "offset":
			ds.cols[j] = genData(r, clsOffset, n)
		case "ties":
			ds.cols[j] = genData(r, clsTies, n)
		case "grid":
			ds.cols[j] = genData(r, clsGrid, n)
		case "rank-deficient":
			if j < 2 || j%2 == 0 {
				ds.cols[j] = genData(r, clsGrid, n)
			} else {
				col := make([]float64, n)
				for i := range col {
					col[i] = ds.cols[0][i] + 2*ds.cols[j-1][i] // exact linear combination
				}
				ds.cols[j] = col
			}
		}
	}
	return ds
}

func (m *mon) runCovMatrix() {
	c := m.c
	cases := c.Pick(800, 7800)
	kinds := []string{wNil, wOnes, wInts, wIntsZ, wPos, wZeros, wMix}
	classes := []string{"correlated", "mixed-scale", "offset", "ties", "grid", "rank-deficient"}
	vrt.Parallel(cases, func(ci int) {
		r := c.RNG("covmat", ci)
		n, d := r.Range(2, 40), r.Range(1, 6)
		class, wk := cross(ci, classes, kinds)
		ds := genDataset(r, n, d, class)
		ds.w = genWeights(r, wk, n)
		cov, covf, unit, ms := exactCov(ds)
		if ms[0].Wf < 2 {
			c.Count("noverdict.total-weight<2:CovarianceMatrix", 1)
			return
		}
		replay := func() any { return replayCase{"func": "CovarianceMatrix", "rows": ds.rows(), "weights": ds.w} }
		var dst mat.SymDense
		if r.Bool() {
			dst = *mat.NewSymDense(d, nil) // non-empty destination of the right size
			for i := 0; i < d; i++ {
				for j := i; j < d; j++ {
					dst.SetSym(i, j, vrt.Taint(i*d+j))
				}
			}
		}
		var x mat.Matrix = ds.dense()
		repr := "Dense"
		if r.Bool() {
			x = mat.DenseCopyOf(ds.dense().T()).T() // a transposed view
			repr = "Transpose"
		}
		c.LastCase(fmt.Sprintf("CovarianceMatrix n=%d d=%d class=%s wk=%s case=%d", n, d, class, wk, ci))
		ok := m.try("CovarianceMatrix", class, replay, func() { stat.CovarianceMatrix(&dst, x, cp(ds.w)) })
		c.Eval("CovarianceMatrix|"+class+"|"+wk+"|"+repr, true)
		if !ok {
			return
		}
		if rr, cc := dst.Dims(); rr != d || cc != d {
			c.Violationf(sig("CovarianceMatrix", "shape", "wrong dimensions"), replay(), "got %dx%d want %dx%d", rr, cc, d, d)
			return
		}
		good := true
		for i := 0; i < d && good; i++ {
			for j := 0; j < d && good; j++ {
				if !vrt.SameBits(dst.At(i, j), dst.At(j, i)) {
					c.Violationf(sig("CovarianceMatrix", "all", "not symmetric"), replay(), "C[%d,%d]=%v C[%d,%d]=%v", i, j, dst.At(i, j), j, i, dst.At(j, i))
					good = false
				}
				if j < i {
					continue
				}
				if !m.band("CovarianceMatrix", "all", "entry != weighted covariance of the two columns", dst.At(i, j), cov[i][j], unit[i][j], replay) {
					good = false
					break
				}
				// agreement with the pairwise scalar function
				var pc float64
				if m.try("Covariance", "all", replay, func() { pc = stat.Covariance(cp(ds.cols[i]), cp(ds.cols[j]), cp(ds.w)) }) {
					c.Eval("Covariance|pairwise-vs-matrix", true)
					if !m.rel("CovarianceMatrix", "all", "disagrees with pairwise Covariance", dst.At(i, j), pc, 2*unit[i][j], replay) {
						good = false
					}
				}
			}
		}
		if !good {
			return
		}
		m.psd("CovarianceMatrix", r, &dst, covf, float64(n+8), replay)
		if n <= 4 && d <= 3 && ci%7 == 2 && m.wantSample("matrix") {
			c.Sample(replayCase{"func": "CovarianceMatrix", "rows": ds.rows(), "weights": ds.w, "result": symRows(&dst)})
		}

		// metamorphic: ones == nil, integer weights == replicated rows, row permutation
		other := func(clause string, ds2 *dataset) {
			var d2 mat.SymDense
			if !m.try("CovarianceMatrix", class, replay, func() { stat.CovarianceMatrix(&d2, ds2.dense(), cp(ds2.w)) }) {
				return
			}
			c.Eval("CovarianceMatrix|"+clause+"|"+class, true)
			_, _, unit2, _ := exactCov(ds2)
			for i := 0; i < d; i++ {
				for j := i; j < d; j++ {
					if !m.rel("CovarianceMatrix", "all", clause, dst.At(i, j), d2.At(i, j), unit[i][j]+unit2[i][j], replay) {
						return
					}
				}
			}
		}
		switch wk {
		case wOnes:
			other("ones-weights != nil-weights", &dataset{n: n, d: d, cols: ds.cols})
		case wInts, wIntsZ:
			rds := &dataset{d: d, cols: make([][]float64, d)}
			for j := range ds.cols {
				rds.cols[j], _ = replicate(ds.cols[j], ds.w)
			}
			rds.n = len(rds.cols[0])
			other("integer-weights != replication", rds)
		}
		perm := r.Perm(n)
		pds := &dataset{n: n, d: d, cols: make([][]float64, d), w: permute(perm, ds.w)}
		for j := range ds.cols {
			pds.cols[j] = permute(perm, ds.cols[j])
		}
		other("permutation-dependent", pds)

		// CorrelationMatrix: needs every column to vary on the weighted support
		for j := range ms {
			if ms[j].S2.Sign() == 0 {
				c.Count("noverdict.constant-column:CorrelationMatrix", 1)
				return
			}
		}
		var cor mat.SymDense
		if r.Bool() {
			cor = *mat.NewSymDense(d, nil) // destination already holding data
			for i := 0; i < d; i++ {
				for j := i; j < d; j++ {
					cor.SetSym(i, j, vrt.Taint(i*d+j))
				}
			}
		}
		rp := func() any { return replayCase{"func": "CorrelationMatrix", "rows": ds.rows(), "weights": ds.w} }
		ok = m.try("CorrelationMatrix", class, rp, func() { stat.CorrelationMatrix(&cor, x, cp(ds.w)) })
		c.Eval("CorrelationMatrix|"+class+"|"+wk+"|"+repr, true)
		if !ok {
			return
		}
		corf := ref.New(d, d)
		for i := 0; i < d; i++ {
			if cor.At(i, i) != 1 {
				c.Violationf(sig("CorrelationMatrix", "all", "diagonal != 1"), rp(), "R[%d,%d] = %v", i, i, cor.At(i, i))
				return
			}
			corf.Set(i, i, 1)
			for j := i + 1; j < d; j++ {
				den := bSqrt(bMul(cov[i][i], cov[j][j]))
				rref := bQuo(cov[i][j], den)
				corf.Set(i, j, bTo(rref))
				corf.Set(j, i, bTo(rref))
				sd := math.Sqrt(bTo(cov[i][i]) * bTo(cov[j][j]))
				un := unit[i][j]/sd + math.Abs(bTo(rref))*(unit[i][i]/bTo(cov[i][i])+unit[j][j]/bTo(cov[j][j])) + 8*u
				if !vrt.SameBits(cor.At(i, j), cor.At(j, i)) {
					c.Violationf(sig("CorrelationMatrix", "all", "not symmetric"), rp(), "R[%d,%d]=%v R[%d,%d]=%v", i, j, cor.At(i, j), j, i, cor.At(j, i))
					return
				}
				if !m.band("CorrelationMatrix", "all", "entry != weighted correlation of the two columns", cor.At(i, j), rref, un, rp) {
					return
				}
				if math.Abs(cor.At(i, j)) > 1+BandC*un {
					c.Violationf(sig("CorrelationMatrix", "all", "|r| > 1 beyond rounding"), rp(), "R[%d,%d] = %.17g", i, j, cor.At(i, j))
					return
				}
				var pr float64
				if m.try("Correlation", "all", rp, func() { pr = stat.Correlation(cp(ds.cols[i]), cp(ds.cols[j]), cp(ds.w)) }) {
					c.Eval("Correlation|pairwise-vs-matrix", true)
					if !m.rel("CorrelationMatrix", "all", "disagrees with pairwise Correlation", cor.At(i, j), pr, 2*un, rp) {
						return
					}
				}
			}
		}
		m.psd("CorrelationMatrix", r, &cor, corf, float64(n+8), rp)
	})
}

func symRows(s *mat.SymDense) [][]float64 {
	n := s.SymmetricDim()
	o := make([][]float64, n)
	for i := range o {
		o[i] = make([]float64, n)
		for j := range o[i] {
			o[i][j] = s.At(i, j)
		}
	}
	return o
}

// psd checks positive semi-definiteness up to rounding: 50 probe vectors and
// the smallest eigenvalue computed by the reference Jacobi solver.
func (m *mon) psd(name string, r *vrt.Rand, s *mat.SymDense, exact *ref.M, nn float64, replay func() any) {
	d := s.SymmetricDim()
	var tr float64
	for i := 0; i < d; i++ {
		tr += math.Abs(s.At(i, i))
	}
	tol := BandC * nn * u * float64(d) * 4 * tr
	for k := 0; k < 50; k++ {
		v := make([]float64, d)
		var nv float64
		for i := range v {
			v[i] = r.Norm()
			nv += v[i] * v[i]
		}
		q := bZero()
		for i := 0; i < d; i++ {
			for j := 0; j < d; j++ {
				acc(q, bMul(bF(v[i]), bMul(bF(s.At(i, j)), bF(v[j]))))
			}
		}
		if bTo(q) < -tol*nv {
			m.c.Violationf(sig(name, "all", "indefinite beyond rounding (probe vector)"), replay(), "v'Cv = %.3g for |v|^2 = %.3g, trace %.3g", bTo(q), nv, tr)
			return
		}
	}
	w, _ := ref.SymEig(ref.FromAt(s))
	m.noteRatio(name+"|min-eigenvalue", math.Max(0, -w[0])/(nn*u*float64(d)*4*tr+1e-300))
	if w[0] < -tol {
		m.c.Violationf(sig(name, "all", "indefinite beyond rounding (smallest eigenvalue)"), replay(), "smallest eigenvalue %.3g, trace %.3g", w[0], tr)
	}
	_ = exact
}

// ---------------------------------------------------------------- Mahalanobis

// bigSolve solves A z = b by Gaussian elimination with partial pivoting in
// big.Float arithmetic.
func bigSolve(a [][]float64, b []float64) []bf {
	n := len(b)
	A := make([][]bf, n)
	for i := range A {
		A[i] = make([]bf, n+1)
		for j := 0; j < n; j++ {
			A[i][j] = bF(a[i][j])
		}
		A[i][n] = bF(b[i])
	}
	for k := 0; k < n; k++ {
		p := k
		for i := k + 1; i < n; i++ {
			if bAbs(A[i][k]).Cmp(bAbs(A[p][k])) > 0 {
				p = i
			}
		}
		A[k], A[p] = A[p], A[k]
		for i := k + 1; i < n; i++ {
			f := bQuo(A[i][k], A[k][k])
			for j := k; j <= n; j++ {
				A[i][j] = bSub(A[i][j], bMul(f, A[k][j]))
			}
		}
	}
	z := make([]bf, n)
	for i := n - 1; i >= 0; i-- {
		s := A[i][n]
		for j := i + 1; j < n; j++ {
			s = bSub(s, bMul(A[i][j], z[j]))
		}
		z[i] = bQuo(s, A[i][i])
	}
	return z
}

func (m *mon) runMahalanobis() {
	c := m.c
	cases := c.Pick(1500, 13000)
	vrt.Parallel(cases, func(ci int) {
		r := c.RNG("mahalanobis", ci)
		d := r.Range(1, 6)
		// SPD matrix G'G + I with moderate condition number
		g := make([][]float64, d)
		for i := range g {
			g[i] = r.Floats(d, r.Norm)
		}
		sig := mat.NewSymDense(d, nil)
		a := make([][]float64, d)
		for i := range a {
			a[i] = make([]float64, d)
		}
		for i := 0; i < d; i++ {
			for j := i; j < d; j++ {
				var s float64
				for k := 0; k < d; k++ {
					s += g[k][i] * g[k][j]
				}
				if i == j {
					s += 1
				}
				sig.SetSym(i, j, s)
				a[i][j], a[j][i] = s, s
			}
		}
		x, y := r.Floats(d, r.Norm), r.Floats(d, r.Norm)
		if ci%10 == 0 {
			y = cp(x) // zero distance
		}
		replay := func() any { return replayCase{"func": "Mahalanobis", "x": x, "y": y, "sigma": a} }
		var chol mat.Cholesky
		if !chol.Factorize(sig) {
			return
		}
		var got float64
		ok := m.try("Mahalanobis", "spd", replay, func() {
			got = stat.Mahalanobis(mat.NewVecDense(d, cp(x)), mat.NewVecDense(d, cp(y)), &chol)
		})
		c.Eval(fmt.Sprintf("Mahalanobis|d=%d", d), true)
		if !ok {
			return
		}
		diff := make([]float64, d)
		for i := range diff {
			diff[i] = x[i] - y[i] // same single rounding as the documented x-y
		}
		z := bigSolve(a, diff)
		q := bZero()
		for i := range z {
			acc(q, bMul(z[i], bF(diff[i])))
		}
		cond := ref.Cond2(ref.FromFunc(d, d, func(i, j int) float64 { return a[i][j] }))
		// compare squared distances (the distance may be exactly zero)
		m.band("Mahalanobis", "spd", "D^2 != (x-y)' Sigma^-1 (x-y)", got*got, q, float64(d+8)*u*8*cond*bTo(q), replay)
	})
}

// ---------------------------------------------------------------- PC / CC

func matRows(a mat.Matrix) [][]float64 {
	r, c := a.Dims()
	o := make([][]float64, r)
	for i := range o {
		o[i] = make([]float64, c)
		for j := range o[i] {
			o[i][j] = a.At(i, j)
		}
	}
	return o
}

func (m *mon) runPC() {
	c := m.c
	cases := c.Pick(800, 7800)
	kinds := []string{wNil, wOnes, wPos, wInts, wZeros, wNil}
	classes := []string{"correlated", "mixed-scale", "offset", "grid", "rank-deficient"}
	vrt.Parallel(cases, func(ci int) {
		r := c.RNG("pc", ci)
		// One PC value is used for a history of 1..3 analyses with changing
		// shapes and weights (the type is documented as reusable: results "are
		// only valid if the call to PrincipalComponents was successful").
		var pc stat.PC
		steps := r.Range(1, 3)
		prevWeighted := false
		for step := 0; step < steps; step++ {
			n, d := r.Range(2, 30), r.Range(1, 6)
			class := classes[r.Intn(len(classes))]
			wk := kinds[r.Intn(len(kinds))]
			if step > 0 && prevWeighted && r.Bool() {
				wk = wNil
			}
			ds := genDataset(r, n, d, class)
			ds.w = genWeights(r, wk, n)
			hist := "fresh receiver"
			if step > 0 {
				hist = "reused receiver"
				if prevWeighted && ds.w == nil {
					hist = "reused receiver, weights then nil weights"
				}
			}
			prevWeighted = ds.w != nil
			if !m.pcStep(ci, r, &pc, ds, class, wk, hist) {
				return
			}
		}
	})
}

// pcStep runs one analysis on pc and judges it; false stops the history.
func (m *mon) pcStep(ci int, r *vrt.Rand, pc *stat.PC, ds *dataset, class, wk, hist string) bool {
	c := m.c
	n, d := ds.n, ds.d
	_, covf, _, ms := exactCov(ds)
	if ms[0].Wf < 2 {
		return false
	}
	shape := "n>=d"
	if n < d {
		shape = "n<d"
	}
	k := n
	if d < k {
		k = d
	}
	replay := func() any {
		return replayCase{"func": "PC.PrincipalComponents", "rows": ds.rows(), "weights": ds.w, "history": hist}
	}
	var okPC bool
	var vars []float64
	var vecs mat.Dense
	givenDst := r.Bool()
	if givenDst {
		// non-empty destinations of the documented shape
		vars = make([]float64, k)
		vrt.FillTaint(vars)
		vecs = *mat.NewDense(d, k, nil)
		for i := 0; i < d; i++ {
			for j := 0; j < k; j++ {
				vecs.Set(i, j, vrt.Taint(i*k+j))
			}
		}
	}
	c.LastCase(fmt.Sprintf("PC n=%d d=%d class=%s wk=%s hist=%s case=%d", n, d, class, wk, hist, ci))
	ok := m.try("PC", hist, replay, func() {
		okPC = pc.PrincipalComponents(ds.dense(), cp(ds.w))
		if okPC {
			vars = pc.VarsTo(vars)
			pc.VectorsTo(&vecs)
		}
	})
	c.Eval(fmt.Sprintf("PC|%s|%s|%s|%s|dst=%v", class, wk, shape, hist, givenDst), true)
	if !ok {
		return false
	}
	if !okPC {
		c.Violationf(sig("PC", hist, "analysis reported failure"), replay(), "PrincipalComponents returned false")
		return false
	}
	vr, vc := vecs.Dims()
	if len(vars) != k || vr != d || vc != k {
		c.Violationf(sig("PC", hist, "wrong result shape"), replay(), "len(vars)=%d vecs %dx%d, want %d and %dx%d", len(vars), vr, vc, k, d, k)
		return false
	}
	var tr float64
	for i := 0; i < d; i++ {
		tr += covf.At(i, i)
	}
	unit := float64(n+8) * u * float64(d) * 8 * tr
	for j := range ms {
		// a column's computed mean is off by up to delta: W*delta^2/(W-1) of
		// spurious variance (matters only for (numerically) constant columns)
		unit += ms[j].Wf * ms[j].delta * ms[j].delta / (ms[j].Wf - 1)
	}
	for i, v := range vars {
		if !isFinite(v) || v < 0 || (i > 0 && v > vars[i-1]) {
			c.Violationf(sig("PC", hist, "variances not non-negative descending"), replay(), "vars = %v", vars)
			return false
		}
	}
	// orthonormal loadings
	var worst float64
	for a := 0; a < k; a++ {
		for b := a; b < k; b++ {
			var s float64
			for i := 0; i < d; i++ {
				s += vecs.At(i, a) * vecs.At(i, b)
			}
			if a == b {
				s -= 1
			}
			worst = math.Max(worst, math.Abs(s))
		}
	}
	m.noteRatio("PC|orthonormality", worst/(float64(d+8)*u*8))
	if !(worst <= BandC*float64(d+8)*u*8) {
		c.Violationf(sig("PC", hist, "loadings not orthonormal"), replay(), "max |V'V - I| = %.3g", worst)
		return false
	}
	// variances == leading eigenvalues of the weighted covariance matrix
	w, _ := ref.SymEig(covf)
	sort.Sort(sort.Reverse(sort.Float64Slice(w)))
	for i := 0; i < k; i++ {
		if !m.band("PC.vars", hist, "!= eigenvalues of the weighted covariance matrix", vars[i], bF(w[i]), unit, replay) {
			return false
		}
	}
	// reconstruction: V diag(vars) V' == Cov
	for i := 0; i < d; i++ {
		for j := i; j < d; j++ {
			var s float64
			for a := 0; a < k; a++ {
				s += vecs.At(i, a) * vars[a] * vecs.At(j, a)
			}
			if !m.band("PC", hist, "V diag(vars) V' != covariance matrix", s, bF(covf.At(i, j)), unit, replay) {
				return false
			}
		}
	}
	return true
}

func (m *mon) runCC() {
	c := m.c
	cases := c.Pick(300, 3200)
	kinds := []string{wNil, wOnes, wPos}
	vrt.Parallel(cases, func(ci int) {
		r := c.RNG("cc", ci)
		var cc stat.CC // one value for a history of 1..3 analyses
		steps := r.Range(1, 3)
		for step := 0; step < steps; step++ {
			hist := "fresh receiver"
			if step > 0 {
				hist = "reused receiver"
			}
			if !m.ccStep(ci, r, &cc, kinds[r.Intn(len(kinds))], hist) {
				return
			}
		}
	})
}

func (m *mon) ccStep(ci int, r *vrt.Rand, ccp *stat.CC, wk, hist string) bool {
	c := m.c
	{
		cc := ccp
		yd := r.Range(1, 3)
		xd := r.Range(yd, 4) // doc: CorrsTo has length yd, LeftTo is xd x yd => xd >= yd
		n := r.Range(xd+yd+3, 40)
		// y shares latent factors with x
		xs := &dataset{n: n, d: xd, cols: make([][]float64, xd)}
		ys := &dataset{n: n, d: yd, cols: make([][]float64, yd)}
		latent := r.Floats(n, r.Norm)
		for j := range xs.cols {
			xs.cols[j] = r.Floats(n, r.Norm)
			a, off := 0.7*r.Sym(), float64(r.Range(-5, 5))
			for i := range xs.cols[j] {
				xs.cols[j][i] += a*latent[i] + off
			}
		}
		for j := range ys.cols {
			ys.cols[j] = r.Floats(n, r.Norm)
			mix, a := r.Sym(), 0.7*r.Sym()
			for i := range ys.cols[j] {
				ys.cols[j][i] += mix*xs.cols[j%xd][i] + a*latent[i]
			}
		}
		w := genWeights(r, wk, n)
		xs.w, ys.w = w, w
		all := &dataset{n: n, d: xd + yd, cols: append(append([][]float64{}, xs.cols...), ys.cols...), w: w}
		_, covf, _, ms := exactCov(all)
		if ms[0].Wf < 2 {
			return true
		}
		sub := func(r0, r1, c0, c1 int) *ref.M {
			return ref.FromFunc(r1-r0, c1-c0, func(i, j int) float64 { return covf.At(r0+i, c0+j) })
		}
		Sx, Sy, Sxy := sub(0, xd, 0, xd), sub(xd, xd+yd, xd, xd+yd), sub(0, xd, xd, xd+yd)
		invSqrt := func(S *ref.M) (*ref.M, float64) {
			w, v := ref.SymEig(S)
			dm := ref.New(S.R, S.R)
			for i, e := range w {
				dm.Set(i, i, 1/math.Sqrt(e))
			}
			return ref.Mul(ref.Mul(v, dm), v.T()), w[len(w)-1] / w[0]
		}
		Sxi, condX := invSqrt(Sx)
		Syi, condY := invSqrt(Sy)
		if !(condX < 1e6 && condY < 1e6) || condX < 0 || condY < 0 {
			c.Count("noverdict.ill-conditioned:CC", 1)
			return true
		}
		want := ref.SingularValues(ref.Mul(ref.Mul(Sxi, Sxy), Syi))
		weighted := wkClass(w) + ", " + hist
		replay := func() any {
			return replayCase{"func": "CC.CanonicalCorrelations", "x": xs.rows(), "y": ys.rows(), "weights": w, "history": hist}
		}
		var err error
		var corrs []float64
		var ls, rs, lb, rb mat.Dense
		givenDst := r.Bool()
		if givenDst {
			// non-empty destinations of the documented shapes
			corrs = make([]float64, yd)
			vrt.FillTaint(corrs)
			ls, lb = *mat.NewDense(xd, yd, nil), *mat.NewDense(xd, yd, nil)
			rs, rb = *mat.NewDense(yd, yd, nil), *mat.NewDense(yd, yd, nil)
			for _, mm := range []*mat.Dense{&ls, &lb, &rs, &rb} {
				rr, cc := mm.Dims()
				for i := 0; i < rr; i++ {
					for j := 0; j < cc; j++ {
						mm.Set(i, j, vrt.Taint(i*cc+j))
					}
				}
			}
		}
		c.LastCase(fmt.Sprintf("CC n=%d xd=%d yd=%d wk=%s case=%d", n, xd, yd, wk, ci))
		ok := m.try("CC", weighted, replay, func() {
			err = cc.CanonicalCorrelations(xs.dense(), ys.dense(), cp(w))
			if err == nil {
				corrs = cc.CorrsTo(corrs)
				cc.LeftTo(&ls, true)
				cc.RightTo(&rs, true)
				cc.LeftTo(&lb, false)
				cc.RightTo(&rb, false)
			}
		})
		c.Eval(fmt.Sprintf("CC|xd=%d|yd=%d|%s|%s|dst=%v", xd, yd, wk, hist, givenDst), true)
		if !ok {
			return false
		}
		if err != nil {
			c.Violationf(sig("CC", weighted, "analysis reported failure"), replay(), "CanonicalCorrelations: %v", err)
			return false
		}
		if len(corrs) != yd {
			c.Violationf(sig("CC", weighted, "wrong number of correlations"), replay(), "len = %d want %d", len(corrs), yd)
			return false
		}
		unit := float64(n+8) * u * 16 * (condX + condY)
		for i, v := range corrs {
			if !m.band("CC.corrs", weighted, "!= singular values of Sx^-1/2 Sxy Sy^-1/2", v, bF(want[i]), unit, replay) {
				return false
			}
			if v < 0 || v > 1+BandC*unit || (i > 0 && v > corrs[i-1]) {
				c.Violationf(sig("CC.corrs", weighted, "not descending in [0,1]"), replay(), "corrs = %v", corrs)
				return false
			}
		}
		// sphered-space vectors are orthonormal
		for _, mm := range []struct {
			name string
			a    *mat.Dense
		}{{"left", &ls}, {"right", &rs}} {
			rr, cc2 := mm.a.Dims()
			var worst float64
			for a := 0; a < cc2; a++ {
				for b := a; b < cc2; b++ {
					var s float64
					for i := 0; i < rr; i++ {
						s += mm.a.At(i, a) * mm.a.At(i, b)
					}
					if a == b {
						s -= 1
					}
					worst = math.Max(worst, math.Abs(s))
				}
			}
			if worst > BandC*float64(rr+8)*u*8 {
				c.Violationf(sig("CC."+mm.name, weighted, "sphered-space vectors not orthonormal"), replay(), "max |U'U - I| = %.3g", worst)
				return false
			}
		}
		// back-transformed vectors: canonical variables are uncorrelated with
		// equal variance, A' Sx A = s I.  For nil weights s = 1 (unit variance
		// under the documented sample covariance); for non-nil weights the doc
		// does not fix the normalisation, only proportionality is demanded.
		A := ref.FromAt(&lb)
		B := ref.FromAt(&rb)
		G := ref.Mul(ref.Mul(A.T(), Sx), A)
		H := ref.Mul(ref.Mul(B.T(), Sy), B)
		K := ref.Mul(ref.Mul(A.T(), Sxy), B)
		s := G.At(0, 0)
		if w == nil || wk == wOnes {
			if math.Abs(s-1) > BandC*unit {
				c.Violationf(sig("CC.left", weighted, "canonical variables not of unit variance"), replay(), "a1' Sx a1 = %.17g", s)
				return false
			}
		} else if math.Abs(s-1) > BandC*unit {
			c.Count("observed.CC_weighted_backtransform_scale_not_1", 1)
		}
		for i := 0; i < yd; i++ {
			for j := 0; j < yd; j++ {
				wantG, wantK := 0.0, 0.0
				if i == j {
					wantG = s
					wantK = s * corrs[i]
				}
				if math.Abs(G.At(i, j)-wantG) > BandC*unit*s || math.Abs(H.At(i, j)-wantG) > BandC*unit*s {
					c.Violationf(sig("CC", weighted, "back-transformed canonical variables correlated or of unequal variance"), replay(), "A'SxA[%d,%d] = %.6g, B'SyB[%d,%d] = %.6g, scale %.6g", i, j, G.At(i, j), i, j, H.At(i, j), s)
					return false
				}
				if math.Abs(K.At(i, j)-wantK) > BandC*unit*s {
					c.Violationf(sig("CC", weighted, "cross-covariance of canonical variables != diag(corrs)"), replay(), "A'SxyB[%d,%d] = %.6g want %.6g", i, j, K.At(i, j), wantK)
					return false
				}
			}
		}
	}
	return true
}
