package main

import (
	"fmt"
	"math"
	"sort"
	"sync"

	"gonum.org/v1/gonum/verifx/vrt"
)

// mon carries the shared monitor state.
type mon struct {
	c *vrt.Ctx

	mu     sync.RWMutex
	ratios map[string]float64 // worst observed |got-ref|/unit per check (calibration record)

	// evaluation counts are accumulated in shards and handed to vrt in bulk
	// (vrt.Ctx.Eval takes one global lock per call, which serialises the
	// 16 workers at ~1e6 calls).
	shards  [64]evalShard
	sampled map[string]int
}

type evalShard struct {
	mu sync.Mutex
	n  map[string]int
	_  [40]byte
}

func newMon(c *vrt.Ctx) *mon {
	m := &mon{c: c, ratios: map[string]float64{}}
	for i := range m.shards {
		m.shards[i].n = map[string]int{}
	}
	return m
}

// wantSample reports whether sub may still offer a literal sample (one per
// source file, so that the 8 kept samples show different parts of the API).
func (m *mon) wantSample(sub string) bool {
	if !m.c.WantSample() {
		return false
	}
	m.mu.Lock()
	defer m.mu.Unlock()
	if m.sampled == nil {
		m.sampled = map[string]int{}
	}
	if m.sampled[sub] >= 1 {
		return false
	}
	m.sampled[sub]++
	return true
}

// eval records one real call of gonum code under the case-class key.
func (m *mon) eval(ci int, key string) {
	sh := &m.shards[uint(ci)%64]
	sh.mu.Lock()
	sh.n[key]++
	sh.mu.Unlock()
}

func (m *mon) flushEvals() {
	for i := range m.shards {
		sh := &m.shards[i]
		sh.mu.Lock()
		for k, n := range sh.n {
			m.c.EvalN(k, n, true)
		}
		sh.n = map[string]int{}
		sh.mu.Unlock()
	}
}

// BandC is the multiple of a check's rounding unit that is tolerated.
//
// Every unit below is a first-order forward error bound of the documented
// formula ((n+8)*u*sum|terms| plus the propagated rounding of the mean, the
// standard deviation and the normalisers), so a correct implementation is
// expected to stay below ~1 unit.  Calibration on the pinned tree (seeds
// 1,2,3,7,42, quick and thorough tiers, default and noasm builds) gave a
// worst accepted ratio of 0.65 (HarmonicMean, definition) over all checks
// (see the notes "calibration.*" in the evidence); the band is set to 200
// units, i.e. 300 x the calibrated worst case.
// Realistic breaks (wrong normaliser, wrong sign, wrong bin) give errors of
// 1e-3 .. 1 relative, i.e. 1e10 units or more.
const BandC = 200.0

// band compares got with the exact reference.  name is the routine (and
// output), class the path class used in the signature, clause the failing
// clause.  It returns true when the value is accepted.
func (m *mon) band(name, class, clause string, got float64, ref bf, unit float64, replay func() any) bool {
	return m.bandLim(1e290, name, class, clause, got, ref, unit, replay)
}

// bandLim is band with an explicit representability limit: references outside
// [1/lim, lim] get no verdict.  Routines evaluated in log space (geometric and
// harmonic mean) are judged up to 1e305; plain sums only up to 1e290, leaving
// room for the n-fold accumulation.
func (m *mon) bandLim(lim float64, name, class, clause string, got float64, ref bf, unit float64, replay func() any) bool {
	reff := bTo(ref)
	if !isFinite(reff) || (reff != 0 && math.Abs(reff) < 1/lim) || math.Abs(reff) > lim {
		// reference not representable with full precision: no verdict
		m.c.Count("noverdict.unrepresentable-reference", 1)
		return true
	}
	if !isFinite(got) {
		m.c.Violationf(sig(name, class, "non-finite result"), replay(), "%s returned %v; the defining formula gives %.17g", name, got, reff)
		return false
	}
	unit += 1e-300
	ratio := absDiff(got, ref) / unit
	m.noteRatio(name+"|"+clause, ratio)
	if ratio > BandC {
		m.c.Violationf(sig(name, class, clause), replay(), "%s = %.17g, reference %.17g, |diff| = %.3g = %.3g rounding units (band %g)", name, got, reff, absDiff(got, ref), ratio, BandC)
		return false
	}
	return true
}

// rel compares two gonum results that must agree up to rounding; unit is the
// sum of their definition units.
func (m *mon) rel(name, class, clause string, a, b, unit float64, replay func() any) bool {
	if !isFinite(a) || !isFinite(b) {
		if !isFinite(a) {
			return true // already judged by the definition monitor
		}
		// the transformed input has the same (finite) defining value
		m.c.Violationf(sig(name, class, "non-finite result"), replay(), "%s returned %v on an equivalent input (%s); the original input gives %v", name, b, clause, a)
		return false
	}
	unit += 1e-300
	ratio := math.Abs(a-b) / unit
	m.noteRatio(name+"|"+clause, ratio)
	if ratio > 2*BandC {
		m.c.Violationf(sig(name, class, clause), replay(), "%s: %.17g vs %.17g, |diff| = %.3g = %.3g rounding units (band %g)", name, a, b, math.Abs(a-b), ratio, 2*BandC)
		return false
	}
	return true
}

func (m *mon) noteRatio(key string, r float64) {
	if math.IsNaN(r) {
		r = math.Inf(1)
	}
	m.mu.RLock()
	cur, ok := m.ratios[key]
	m.mu.RUnlock()
	if ok && r <= cur {
		return
	}
	m.mu.Lock()
	if cur, ok := m.ratios[key]; !ok || r > cur {
		m.ratios[key] = r
	}
	m.mu.Unlock()
}

func (m *mon) flushNotes() {
	m.flushEvals()
	m.mu.Lock()
	defer m.mu.Unlock()
	keys := make([]string, 0, len(m.ratios))
	worst, worstKey := 0.0, ""
	for k, v := range m.ratios {
		keys = append(keys, k)
		if v > worst && v <= 2*BandC {
			worst, worstKey = v, k
		}
	}
	sort.Strings(keys)
	top := map[string]string{}
	for _, k := range keys {
		if m.ratios[k] > 0.05 {
			top[k] = fmt.Sprintf("%.3g", m.ratios[k])
		}
	}
	m.c.Note("calibration.worst_accepted_ratio", fmt.Sprintf("%.3g (%s)", worst, worstKey))
	m.c.Note("calibration.ratios_above_0.05", top)
	m.c.Note("calibration.band_units", BandC)
}

func sig(name, class, clause string) string { return name + "|" + class + "|" + clause }

// try runs f, returning a violation-ready description of a panic.
func (m *mon) try(name, class string, replay func() any, f func()) bool {
	if p := vrt.Try(f); p != nil {
		m.c.Violationf(sig(name, class, "panic:"+panicClass(p)), replay(), "%s panicked on an in-domain input: %s", name, p.Msg)
		return false
	}
	return true
}

func panicClass(p *vrt.PanicInfo) string {
	if p.Runtime {
		if p.Fault {
			return "memory fault"
		}
		msg := p.Msg
		// strip values: "index out of range [5] with length 5" -> class only
		for _, k := range []string{"index out of range", "slice bounds out of range", "nil pointer", "integer divide by zero"} {
			if containsStr(msg, k) {
				return "runtime:" + k
			}
		}
		return "runtime error"
	}
	if len(p.Msg) > 60 {
		return p.Msg[:60]
	}
	return p.Msg
}

func containsStr(s, sub string) bool {
	for i := 0; i+len(sub) <= len(s); i++ {
		if s[i:i+len(sub)] == sub {
			return true
		}
	}
	return false
}

// cp returns a copy of s (nil stays nil).
func cp(s []float64) []float64 {
	if s == nil {
		return nil
	}
	return append([]float64(nil), s...)
}

// short trims slices for replay objects.
type replayCase map[string]any
