package main

import (
	"math"
	"sort"

	"gonum.org/v1/gonum/verifx/vrt"
)

// Data classes (see variants.json "rule").
const (
	clsCont   = "continuous"
	clsOffset = "offset"   // continuous with |mean| up to 1e4 standard deviations
	clsTies   = "ties"     // 1..5 distinct values
	clsConst  = "constant" // a single repeated value
	clsGrid   = "grid"     // multiples of 2^-10 in [-64,64]: affine maps with dyadic a,b are exact
)

var dataClasses = []string{clsCont, clsCont, clsOffset, clsTies, clsTies, clsConst, clsGrid, clsGrid}

// genN draws a sample size in 1..200 with emphasis on small sizes.
func genN(r *vrt.Rand, min int) int {
	var n int
	switch r.Intn(4) {
	case 0:
		n = r.Range(1, 8)
	case 1:
		n = r.Range(1, 40)
	default:
		n = r.Range(1, 200)
	}
	if n < min {
		n = min
	}
	return n
}

// genData draws n values of the given class (unsorted, finite, unscaled).
func genData(r *vrt.Rand, class string, n int) []float64 {
	x := make([]float64, n)
	switch class {
	case clsCont:
		s := r.PickFloat(1, 1, 0.01, 100)
		for i := range x {
			x[i] = s * r.Norm()
		}
	case clsOffset:
		off := r.PickFloat(10, -1e3, 1e4) * (1 + r.Float64())
		for i := range x {
			x[i] = off + r.Norm()
		}
	case clsTies:
		k := r.Range(1, 5)
		vals := make([]float64, k)
		for i := range vals {
			vals[i] = float64(r.Range(-6, 6)) / 2
		}
		for i := range x {
			x[i] = vals[r.Intn(k)]
		}
	case clsConst:
		v := r.PickFloat(0.1, -3.7, 1, 1e3/3, 0)
		if r.Bool() {
			v = r.Norm()
		}
		for i := range x {
			x[i] = v
		}
	case clsGrid:
		for i := range x {
			x[i] = float64(r.Range(-65536, 65536)) / 1024
		}
	case clsRuns:
		return genRuns(r, n)
	}
	return x
}

// Scale exponents (powers of two, so that scaling is exact): 2^465 ~ 1e140,
// 2^200 ~ 1.6e60.
var scaleExps = []int{0, 0, 0, 0, 200, -200, 465, -465}

func scaleBy(x []float64, e int) []float64 {
	if e == 0 {
		return x
	}
	y := make([]float64, len(x))
	for i, v := range x {
		y[i] = math.Ldexp(v, e)
	}
	return y
}

// Weight scale classes: weights multiplied by 2^ew (2^100 ~ 1.3e30), applied
// to the non-integer weight kinds.
var weightExps = []int{0, 0, 0, 100, -100}

func scalableKind(wk string) bool { return wk == wPos || wk == wMix || wk == wZeros }

// degOf is the degree of the largest power of the data formed by a routine
// whose admissible data exponent is maxExp (1000: log space, none).
func degOf(maxExp int) int {
	switch {
	case maxExp >= 1000:
		return 0
	case maxExp >= 465:
		return 2
	default:
		return 4
	}
}

// fits reports whether weights scaled by 2^ew times data scaled by 2^e stay
// representable through a routine of the given admissible data exponent.
// Plain sums of w*x^deg legitimately overflow/underflow beyond that (the docs
// promise no range robustness), so those combinations get no verdict.
func fits(ew, e, maxExp int) bool {
	if absInt(e) > maxExp {
		return false
	}
	return ew == 0 || absInt(ew)+degOf(maxExp)*absInt(e) <= 950
}

func scaleClass(e int) string {
	if e == 0 {
		return "normal-scale"
	}
	return "extreme-scale"
}

// Weight kinds.
const (
	wNil   = "nil"
	wOnes  = "ones"
	wInts  = "ints"  // integers 1..5
	wIntsZ = "ints0" // integers 0..4 with at least one positive
	wPos   = "pos"   // uniform (0.05, 3)
	wMix   = "mix"   // tiny/huge mixture 1e-8 .. 1e8
	wZeros = "zeros" // positive with ~30 % exact zeros, at least one positive
)

func genWeights(r *vrt.Rand, kind string, n int) []float64 {
	if kind == wNil {
		return nil
	}
	w := make([]float64, n)
	for i := range w {
		switch kind {
		case wOnes:
			w[i] = 1
		case wInts:
			w[i] = float64(r.Range(1, 5))
		case wIntsZ:
			w[i] = float64(r.Range(0, 4))
		case wPos:
			w[i] = r.Uniform(0.05, 3)
		case wMix:
			w[i] = math.Pow(10, r.Uniform(-8, 8))
		case wZeros:
			if r.Chance(0.3) {
				w[i] = 0
			} else {
				w[i] = r.Uniform(0.05, 3)
			}
		}
	}
	if kind == wIntsZ || kind == wZeros {
		w[r.Intn(n)] = float64(r.Range(1, 3))
	}
	return w
}

// cross returns the (class, kind) pair of case ci so that EVERY combination
// of the two lists occurs (indexing both lists by ci modulo their lengths
// only visits combinations compatible with gcd(len, len) and silently drops
// the rest, e.g. "ties with nil weights").
func cross(ci int, classes, kinds []string) (class, kind string) {
	k := ci % (len(classes) * len(kinds))
	return classes[k%len(classes)], kinds[k/len(classes)]
}

// distinct returns the distinct values of the sorted slice x.
func distinct(x []float64) []float64 {
	var d []float64
	for i, v := range x {
		if i == 0 || v != x[i-1] {
			d = append(d, v)
		}
	}
	return d
}

// qGrid returns evaluation points for functions of a threshold on the sorted
// sample x: every distinct sample value (at most maxDistinct of them, always
// including the extremes), +-1 ulp around each, a point between each pair of
// neighbours, and points below the minimum and above the maximum.
func qGrid(r *vrt.Rand, x []float64, maxDistinct int) []float64 {
	d := distinct(x)
	if len(d) > maxDistinct {
		keep := []float64{d[0], d[len(d)-1]}
		for len(keep) < maxDistinct {
			keep = append(keep, d[r.Intn(len(d))])
		}
		sort.Float64s(keep)
		d = distinct(keep)
	}
	span := math.Max(d[len(d)-1]-d[0], math.Max(math.Abs(d[0]), 1e-300))
	qs := []float64{d[0] - span, d[0] - span*r.Float64(), d[len(d)-1] + span*r.Float64(), d[len(d)-1] + span}
	for i, v := range d {
		qs = append(qs, v, math.Nextafter(v, math.Inf(-1)), math.Nextafter(v, math.Inf(1)))
		if i+1 < len(d) {
			qs = append(qs, v+(d[i+1]-v)*r.Float64())
		}
	}
	out := qs[:0]
	for _, q := range qs {
		if isFinite(q) {
			out = append(out, q)
		}
	}
	sort.Float64s(out)
	return out
}

const clsRuns = "tie-runs" // sorted runs of repeated values: ties at the minimum, in the interior and at the maximum

func genRuns(r *vrt.Rand, n int) []float64 {
	x := make([]float64, 0, n)
	v := float64(r.Range(-8, 8)) / 4
	for len(x) < n {
		run := r.PickInt(1, 1, 2, 3, 5, 9)
		for k := 0; k < run && len(x) < n; k++ {
			x = append(x, v)
		}
		v += float64(r.Range(1, 6)) / 4
	}
	r.Shuffle(len(x), func(i, j int) { x[i], x[j] = x[j], x[i] })
	return x
}

func hasZero(w []float64) bool {
	for _, v := range w {
		if v == 0 {
			return true
		}
	}
	return false
}

// replicate expands integer weights into repeated observations.
func replicate(x, w []float64, others ...[]float64) (rx []float64, ro [][]float64) {
	ro = make([][]float64, len(others))
	for i, v := range x {
		for k := 0; k < int(w[i]); k++ {
			rx = append(rx, v)
			for j, o := range others {
				ro[j] = append(ro[j], o[i])
			}
		}
	}
	return rx, ro
}

func permute(p []int, s []float64) []float64 {
	if s == nil {
		return nil
	}
	o := make([]float64, len(s))
	for i, j := range p {
		o[i] = s[j]
	}
	return o
}

// sortTogether sorts x ascending carrying w along (reference implementation of
// SortWeighted, stable).
func sortTogether(x, w []float64) ([]float64, []float64) {
	idx := make([]int, len(x))
	for i := range idx {
		idx[i] = i
	}
	sort.SliceStable(idx, func(a, b int) bool { return x[idx[a]] < x[idx[b]] })
	return permute(idx, x), permute(idx, w)
}

func isConstant(x []float64) bool {
	for _, v := range x {
		if v != x[0] {
			return false
		}
	}
	return true
}

func trunc(s []float64) []float64 {
	return s
}
