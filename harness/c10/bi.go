package main

import (
	"fmt"
	"math"

	"gonum.org/v1/gonum/stat"
	"gonum.org/v1/gonum/verifx/vrt"
)

// bimoments holds the exact second-order quantities of a weighted paired sample.
type bimoments struct {
	mx, my *moments
	Sxy    bf
	Axy    float64 // sum w |dx dy|
	n      int
	w      []float64
}

func newBimoments(x, y, w []float64) *bimoments {
	b := &bimoments{mx: newMoments(x, w), my: newMoments(y, w), n: len(x)}
	b.w = b.mx.w
	s := bZero()
	for i := range x {
		acc(s, bMul(bF(b.w[i]), bMul(b.mx.d[i], b.my.d[i])))
		// magnitude of the products actually formed: the computed means are off
		// by up to delta, so the computed deviations are |d|+delta at most
		b.Axy += b.w[i] * (math.Abs(b.mx.df[i]) + b.mx.delta) * (math.Abs(b.my.df[i]) + b.my.delta)
	}
	b.Sxy = s
	return b
}

func (b *bimoments) nn() float64 { return float64(b.n + 8) }

// unitSxy is the rounding unit of the (corrected) centred cross product sum.
func (b *bimoments) unitSxy() float64 {
	return b.nn() * u * 2 * b.Axy
}

type biStat struct {
	name     string
	outs     []string
	minN     int
	minW     float64
	zerosOK  bool
	needVarX bool
	needVarY bool
	maxExp   int
	noRep    bool // integer weights are not frequency weights for this statistic
	noTies   bool // only judged on samples without tied pairs (Kendall has its own tie monitor)
	call     func(x, y, w []float64, aux []float64) []float64
	ref      func(b *bimoments, aux []float64) ([]bf, []float64, bool)
	// aff gives the expected outputs for (a*x+b, c*y+d) and the rounding slack
	// of forming that expectation in float64.
	aff       func(a, b, c, d float64, out []float64) (want, slack []float64)
	scaleOnly bool
}

func bivarMomentStat(r, s int) biStat {
	return biStat{
		name: fmt.Sprintf("BivariateMoment(%d,%d)", r, s), outs: []string{""}, minN: 1, zerosOK: true, maxExp: 200,
		call: func(x, y, w []float64, _ []float64) []float64 {
			return one(stat.BivariateMoment(float64(r), float64(s), x, y, w))
		},
		ref: func(b *bimoments, _ []float64) ([]bf, []float64, bool) {
			sum := bZero()
			var sa, sax, say float64
			for i := range b.w {
				acc(sum, bMul(bF(b.w[i]), bMul(bPowI(b.mx.d[i], r), bPowI(b.my.d[i], s))))
				ax, ay := math.Abs(b.mx.df[i]), math.Abs(b.my.df[i])
				sa += b.w[i] * math.Pow(ax, float64(r)) * math.Pow(ay, float64(s))
				sax += b.w[i] * math.Pow(ax, float64(r-1)) * math.Pow(ay, float64(s))
				say += b.w[i] * math.Pow(ax, float64(r)) * math.Pow(ay, float64(s-1))
			}
			W := b.mx.Wf
			_, _ = sax, say
			var prop float64
			for i := range b.w {
				ax, ay := math.Abs(b.mx.df[i]), math.Abs(b.my.df[i])
				prop += (b.w[i] / W) * (math.Pow(ax+b.mx.delta, float64(r))*math.Pow(ay+b.my.delta, float64(s)) - math.Pow(ax, float64(r))*math.Pow(ay, float64(s)))
			}
			unit := b.nn()*u*float64(r+s+2)*sa/W + prop
			return []bf{bQuo(sum, b.mx.W)}, one(unit), true
		},
		aff: func(a, _, c, _ float64, out []float64) ([]float64, []float64) {
			return one(math.Pow(a, float64(r)) * math.Pow(c, float64(s)) * out[0]), one(0)
		},
	}
}

// kendallRef evaluates the tau-a definition: (concordant - discordant) pairs,
// each weighted by w_i*w_j, over the total pair weight; tied pairs are neither
// concordant nor discordant.
func kendallRef(x, y, w []float64) (ref bf, ties bool, pairs int) {
	if w == nil {
		// unit pair weights: exact integer counting
		var num int
		for i := range x {
			for j := i + 1; j < len(x); j++ {
				pairs++
				switch {
				case x[j] == x[i] || y[j] == y[i]:
					ties = true
				case (x[j] > x[i]) == (y[j] > y[i]):
					num++
				default:
					num--
				}
			}
		}
		if pairs == 0 {
			return nil, ties, pairs
		}
		return bQuo(bI(num), bI(pairs)), ties, pairs
	}
	num, den := bZero(), bZero()
	for i := range x {
		for j := i + 1; j < len(x); j++ {
			pw := bI(1)
			if w != nil {
				pw = bMul(bF(w[i]), bF(w[j]))
			}
			acc(den, pw)
			pairs++
			dx, dy := x[j]-x[i], y[j]-y[i]
			switch {
			case x[j] == x[i] || y[j] == y[i]:
				ties = true
			case (dx > 0) == (dy > 0):
				acc(num, pw)
			default:
				acc(num, bNeg(pw))
			}
		}
	}
	if den.Sign() == 0 {
		return nil, ties, pairs
	}
	return bQuo(num, den), ties, pairs
}

var biStats = buildBiStats()

func buildBiStats() []biStat {
	l := []biStat{
		{
			name: "Covariance", outs: []string{""}, minN: 2, minW: 2, zerosOK: true, maxExp: 465,
			call: func(x, y, w []float64, _ []float64) []float64 { return one(stat.Covariance(x, y, w)) },
			ref: func(b *bimoments, _ []float64) ([]bf, []float64, bool) {
				W := b.mx.Wf
				ref := bQuo(b.Sxy, bSub(b.mx.W, bI(1)))
				return []bf{ref}, one(b.unitSxy()/(W-1) + math.Abs(bTo(ref))*b.nn()*u*W/(W-1)), true
			},
			aff: func(a, _, c, _ float64, out []float64) ([]float64, []float64) { return one(a * c * out[0]), one(0) },
		},
		{
			name: "Correlation", outs: []string{""}, minN: 2, zerosOK: true, needVarX: true, needVarY: true, maxExp: 465,
			call: func(x, y, w []float64, _ []float64) []float64 { return one(stat.Correlation(x, y, w)) },
			ref: func(b *bimoments, _ []float64) ([]bf, []float64, bool) {
				den := bSqrt(bMul(b.mx.S2, b.my.S2))
				ref := bQuo(b.Sxy, den)
				// work with scale-free quantities so that the unit itself does not
				// overflow for 1e+-140 data
				sx, sy := math.Sqrt(b.mx.S2f), math.Sqrt(b.my.S2f)
				var axy float64
				for i := range b.w {
					axy += b.w[i] * (math.Abs(b.mx.df[i]/sx) + b.mx.delta/sx) * (math.Abs(b.my.df[i]/sy) + b.my.delta/sy)
				}
				unit := b.nn()*u*2*axy +
					math.Abs(bTo(ref))*(relUnitS2(b.mx)+relUnitS2(b.my))/2 + 4*u
				return []bf{ref}, one(unit), true
			},
			aff: func(a, _, c, _ float64, out []float64) ([]float64, []float64) {
				return one(sign(a) * sign(c) * out[0]), one(0)
			},
		},
		{
			name: "Kendall", outs: []string{""}, minN: 2, zerosOK: true, maxExp: 465, noRep: true, noTies: true,
			call: func(x, y, w []float64, _ []float64) []float64 { return one(stat.Kendall(x, y, w)) },
			ref: func(b *bimoments, _ []float64) ([]bf, []float64, bool) {
				ref, _, pairs := kendallRef(b.mx.x, b.my.x, b.w)
				den := 0.0
				for i := range b.w {
					for j := i + 1; j < len(b.w); j++ {
						den += b.w[i] * b.w[j]
					}
				}
				if den == 0 || ref == nil {
					return nil, nil, false // doc silent: total pair weight zero
				}
				return []bf{ref}, one(float64(pairs+8) * u * 2), true
			},
			aff: func(a, _, c, _ float64, out []float64) ([]float64, []float64) {
				return one(sign(a) * sign(c) * out[0]), one(0)
			},
		},
		{
			name: "LinearRegression", outs: []string{"alpha", "beta"}, minN: 2, zerosOK: true, needVarX: true, maxExp: 200,
			call: func(x, y, w []float64, _ []float64) []float64 {
				a, b := stat.LinearRegression(x, y, w, false)
				return []float64{a, b}
			},
			ref: func(b *bimoments, _ []float64) ([]bf, []float64, bool) {
				// normal equations of  min sum w (y - alpha - beta x)^2
				beta := bQuo(b.Sxy, b.mx.S2)
				alpha := bSub(b.my.mean, bMul(beta, b.mx.mean))
				bt := math.Abs(bTo(beta))
				W := b.mx.Wf
				// gonum forms beta as cov/var, both normalised by (W-1); away from
				// W = 1 this adds 2*nn*u*W/|W-1| relative error.  At W ~ 1 the
				// documented formula has no singularity, so no allowance is made
				// there (see the normalised-weights class).
				norm := 0.0
				if math.Abs(W-1) >= 0.25 {
					norm = 2 * b.nn() * u * W / math.Abs(W-1)
				}
				ub := b.unitSxy()/b.mx.S2f + bt*relUnitS2(b.mx) + bt*norm + 4*u*bt
				ua := b.my.delta + math.Abs(b.mx.meanf)*ub + bt*b.mx.delta + 4*u*(math.Abs(b.my.meanf)+bt*math.Abs(b.mx.meanf))
				return []bf{alpha, beta}, []float64{ua, ub}, true
			},
			aff: func(a, b, c, d float64, out []float64) ([]float64, []float64) {
				beta := c * out[1] / a
				alpha := c*out[0] + d - beta*b
				return []float64{alpha, beta}, []float64{4 * u * (math.Abs(c*out[0]) + math.Abs(d) + math.Abs(beta*b)), 0}
			},
		},
		{
			name: "LinearRegression(origin)", outs: []string{"alpha", "beta"}, minN: 1, zerosOK: true, maxExp: 200, scaleOnly: true,
			call: func(x, y, w []float64, _ []float64) []float64 {
				a, b := stat.LinearRegression(x, y, w, true)
				return []float64{a, b}
			},
			ref: func(b *bimoments, _ []float64) ([]bf, []float64, bool) {
				sxy, sxx := bZero(), bZero()
				var axy float64
				for i := range b.w {
					xi, yi, wi := bF(b.mx.x[i]), bF(b.my.x[i]), bF(b.w[i])
					acc(sxy, bMul(wi, bMul(xi, yi)))
					acc(sxx, bMul(wi, bMul(xi, xi)))
					axy += b.w[i] * math.Abs(b.mx.x[i]*b.my.x[i])
				}
				if sxx.Sign() == 0 {
					return nil, nil, false // all x zero: slope undefined
				}
				beta := bQuo(sxy, sxx)
				return []bf{bZero(), beta}, []float64{0, b.nn() * u * 3 * (axy/bTo(sxx) + math.Abs(bTo(beta)))}, true
			},
			aff: func(a, _, c, _ float64, out []float64) ([]float64, []float64) {
				return []float64{0, c * out[1] / a}, []float64{0, 0}
			},
		},
		{
			name: "RSquared", outs: []string{""}, minN: 2, zerosOK: true, needVarY: true, maxExp: 200,
			call: func(x, y, w []float64, aux []float64) []float64 { return one(stat.RSquared(x, y, w, aux[0], aux[1])) },
			ref: func(b *bimoments, aux []float64) ([]bf, []float64, bool) {
				al, be := bF(aux[0]), bF(aux[1])
				res := bZero()
				var ures float64
				for i := range b.w {
					d := bSub(bF(b.my.x[i]), bAdd(al, bMul(be, bF(b.mx.x[i]))))
					acc(res, bMul(bF(b.w[i]), bMul(d, d)))
					e := 3 * u * (math.Abs(aux[0]) + math.Abs(aux[1]*b.mx.x[i]) + math.Abs(b.my.x[i]))
					ures += b.w[i] * (2*math.Abs(bTo(d))*e + e*e)
				}
				return rsqRef(b, res, ures)
			},
		},
		{
			name: "RSquaredFrom", outs: []string{""}, minN: 2, zerosOK: true, needVarY: true, maxExp: 200,
			call: func(x, y, w []float64, aux []float64) []float64 {
				return one(stat.RSquaredFrom(estimates(x, aux), y, w))
			},
			ref: func(b *bimoments, aux []float64) ([]bf, []float64, bool) {
				est := estimates(b.mx.x, aux)
				res := bZero()
				for i := range b.w {
					d := bSub(bF(b.my.x[i]), bF(est[i]))
					acc(res, bMul(bF(b.w[i]), bMul(d, d)))
				}
				return rsqRef(b, res, 0)
			},
		},
		{
			name: "RNoughtSquared", outs: []string{""}, minN: 1, zerosOK: true, maxExp: 200,
			call: func(x, y, w []float64, aux []float64) []float64 { return one(stat.RNoughtSquared(x, y, w, aux[1])) },
			ref: func(b *bimoments, aux []float64) ([]bf, []float64, bool) {
				ssr, tot := bZero(), bZero()
				be := bF(aux[1])
				for i := range b.w {
					f := bMul(be, bF(b.mx.x[i]))
					acc(ssr, bMul(bF(b.w[i]), bMul(f, f)))
					yi := bF(b.my.x[i])
					acc(tot, bMul(bF(b.w[i]), bMul(yi, yi)))
				}
				if tot.Sign() == 0 {
					return nil, nil, false // all y zero: ratio undefined
				}
				ref := bQuo(ssr, tot)
				return []bf{ref}, one(b.nn() * u * 6 * bTo(ref)), true
			},
		},
	}
	for _, rs := range [][2]int{{1, 1}, {2, 1}, {1, 2}, {2, 2}, {3, 1}, {0, 2}} {
		l = append(l, bivarMomentStat(rs[0], rs[1]))
	}
	return l
}

func relUnitS2(m *moments) float64 { return m.unitS2() / m.S2f }

func estimates(x []float64, aux []float64) []float64 {
	e := make([]float64, len(x))
	for i, v := range x {
		e[i] = aux[0] + aux[1]*v
	}
	return e
}

func rsqRef(b *bimoments, res bf, ures float64) ([]bf, []float64, bool) {
	tot := b.my.S2
	q := bQuo(res, tot)
	ref := bSub(bI(1), q)
	qf := bTo(q)
	resf := bTo(res)
	// tot is an uncorrected two-pass sum: it carries W*delta^2 on top of rounding.
	utot := b.nn()*u*b.my.S2f + b.my.Wf*b.my.delta*b.my.delta
	unit := qf*(b.nn()*u*3+utot/b.my.S2f) + 2*u*(1+qf)
	if resf > 0 {
		unit += qf * ures / resf
	} else {
		unit += ures / b.my.S2f
	}
	return []bf{ref}, one(unit), true
}

const (
	biCorrelated = "correlated"
	biIndep      = "independent"
	biTies       = "ties"
	biPerfect    = "perfectly-correlated"
	biGrid       = "grid"
	biConstY     = "constant-y"
)

var biClasses = []string{biCorrelated, biCorrelated, biIndep, biTies, biPerfect, biGrid, biGrid, biConstY}

func genBiData(r *vrt.Rand, class string, n int) (x, y []float64) {
	switch class {
	case biCorrelated:
		x = genData(r, pickStr(r, clsCont, clsOffset), n)
		rho := r.Sym()
		s, off := r.PickFloat(1, 0.1, 30), r.PickFloat(0, 5, -200)
		xm := 0.0
		for _, v := range x {
			xm += v
		}
		xm /= float64(n)
		y = make([]float64, n)
		for i := range y {
			y[i] = off + s*(rho*(x[i]-xm)+math.Sqrt(1-rho*rho)*r.Norm())
		}
	case biIndep:
		x = genData(r, clsCont, n)
		y = genData(r, clsCont, n)
	case biTies:
		x = genData(r, clsTies, n)
		y = genData(r, clsTies, n)
	case biPerfect:
		x = genData(r, clsGrid, n)
		a := math.Ldexp(1, r.Range(-2, 2))
		if r.Bool() {
			a = -a
		}
		b := float64(r.Range(-2048, 2048)) / 1024
		y = make([]float64, n)
		for i := range y {
			y[i] = a*x[i] + b
		}
	case biGrid:
		x = genData(r, clsGrid, n)
		y = genData(r, clsGrid, n)
	case biConstY:
		x = genData(r, clsCont, n)
		y = genData(r, clsConst, n)
	}
	return x, y
}

func pickStr(r *vrt.Rand, c ...string) string { return c[r.Intn(len(c))] }

const wNorm = "normalised" // positive weights divided by their sum (total weight 1 up to rounding)

var biWeightKinds = []string{wNil, wOnes, wInts, wIntsZ, wPos, wMix, wZeros, wNorm}

func genBiWeights(r *vrt.Rand, kind string, n int) []float64 {
	if kind != wNorm {
		return genWeights(r, kind, n)
	}
	w := genWeights(r, wPos, n)
	var s float64
	for _, v := range w {
		s += v
	}
	for i := range w {
		w[i] /= s
	}
	return w
}

func (m *mon) runBi() {
	c := m.c
	cases := c.Pick(320, 3200)
	vrt.Parallel(cases, func(ci int) {
		r := c.RNG("bi", ci)
		class := biClasses[ci%len(biClasses)]
		n := genN(r, 1)
		if r.Intn(3) > 0 && n > 60 {
			n = r.Range(1, 60) // Kendall's reference is O(n^2) in big arithmetic
		}
		x0, y0 := genBiData(r, class, n)
		e := scaleExps[r.Intn(len(scaleExps))]
		if class == biGrid || class == biPerfect {
			e = 0
		}
		x, y := scaleBy(x0, e), scaleBy(y0, e)
		sc := scaleClass(e)
		constX, constY := isConstant(x), isConstant(y)
		aux := []float64{math.Ldexp(r.Norm(), e), r.Norm()}
		if r.Bool() && n >= 2 && !constX {
			// near the least squares line
			al, be := stat.LinearRegression(x0, y0, nil, false)
			aux = []float64{math.Ldexp(al, e) * (1 + 0.01*r.Sym()), be * (1 + 0.01*r.Sym())}
		}
		perm := r.Perm(n)
		_, tied, _ := kendallRef(x, y, nil)
		ew := weightExps[r.Intn(len(weightExps))] // weight scale class of this case
		kw := r.PickInt(60, -60)                  // exact rescaling of the weights for the invariance relation
		for _, wk := range biWeightKinds {
			w := genBiWeights(r, wk, n)
			ewk := 0
			if scalableKind(wk) {
				ewk = ew
				w = scaleBy(w, ewk)
			}
			c.LastCase(fmt.Sprintf("bivariate stats n=%d class=%s wk=%s ew=%d case=%d (stream bi)", n, class, wk, ewk, ci))
			bm := newBimoments(x, y, w)
			var bmRep *bimoments
			var rx, ry []float64
			if (wk == wInts || wk == wIntsZ) && n <= 40 {
				var o [][]float64
				rx, o = replicate(x, w, y)
				ry = o[0]
				bmRep = newBimoments(rx, ry, nil)
			}
			zero := w != nil && hasZero(w)
			effConstX, effConstY := constX, constY
			if zero {
				// variance over the positive-weight support
				effConstX = bm.mx.S2.Sign() == 0
				effConstY = bm.my.S2.Sign() == 0
			}
			for si := range biStats {
				S := &biStats[si]
				if n < S.minN || bm.mx.Wf < S.minW || (zero && !S.zerosOK) || (S.needVarX && effConstX) || (S.needVarY && effConstY) || !fits(ewk, e, S.maxExp) {
					continue
				}
				if wk == wNorm && S.name != "LinearRegression" && S.name != "Correlation" && S.name != "RSquared" && S.name != "LinearRegression(origin)" && S.name != "RNoughtSquared" && S.name != "Kendall" {
					continue // statistics normalised by (W-1) are documented as not applicable for W <= 1
				}
				if S.noTies && tied {
					continue
				}
				cls := sc
				if ewk != 0 && e == 0 {
					cls = "extreme-weights"
				}
				if wk == wNorm && S.name == "LinearRegression" {
					cls = "normalised-weights" // total weight 1: see the ref comment
				}
				replay := func() any {
					return replayCase{"func": S.name, "x": x, "y": y, "weights": w, "aux(alpha,beta)": aux, "data_class": class, "weight_kind": wk}
				}
				refs, units, ok := S.ref(bm, aux)
				if !ok {
					c.Count("noverdict.ill-defined:"+S.name, 1)
					continue
				}
				// gradual underflow of w*(deviation products), see runUni
				uflow := bm.nn() * 1e-322 * math.Max(1, 1/bm.mx.Wf)
				for k := range units {
					units[k] += uflow
				}
				var out []float64
				key := S.name + "|def|" + wk + "|" + class + "|" + sc
				okc := m.try(S.name, cls, replay, func() { out = S.call(cp(x), cp(y), cp(w), aux) })
				m.eval(ci, key)
				if !okc {
					continue
				}
				okAll := true
				for k := range out {
					if !m.band(S.name+dot(S.outs[k]), cls, "definition", out[k], refs[k], units[k], replay) {
						okAll = false
					}
				}
				if S.name == "Correlation" && isFinite(out[0]) && math.Abs(out[0]) > 1 {
					// |r| <= 1 up to rounding: 8 ulp of 1
					if math.Abs(out[0]) > 1+16*u {
						c.Violationf(sig("Correlation", cls, "|r| > 1 beyond rounding"), replay(), "Correlation = %.17g", out[0])
					} else {
						c.Count("observed.Correlation_exceeds_1_by_at_most_8ulp", 1)
					}
				}
				if !okAll {
					continue
				}
				if n <= 5 && ci%7 == 5 && m.wantSample("bi") {
					c.Sample(replayCase{"func": S.name, "x": x, "y": y, "weights": w, "result": out, "reference": bTo(refs[0])})
				}
				if wk == wOnes {
					var o2 []float64
					if m.try(S.name, cls, replay, func() { o2 = S.call(cp(x), cp(y), nil, aux) }) {
						m.eval(ci, S.name+"|ones-vs-nil|"+class+"|"+sc)
						for k := range out {
							m.rel(S.name+dot(S.outs[k]), cls, "ones-weights != nil-weights", out[k], o2[k], 2*units[k], replay)
						}
					}
				}
				// rescaling all weights by an exact power of two changes no
				// statistic that is normalised by the total weight
				if w != nil && S.minW == 0 && fits(ewk+kw, e, S.maxExp) {
					var o2 []float64
					w2 := scaleBy(w, kw)
					if m.try(S.name, cls, replay, func() { o2 = S.call(cp(x), cp(y), w2, aux) }) {
						m.eval(ci, S.name+"|weight-scale|"+wk+"|"+class+"|"+sc)
						for k := range out {
							m.rel(S.name+dot(S.outs[k]), cls, "changes when all weights are scaled by 2^k", out[k], o2[k], 2*units[k], func() any {
								return replayCase{"func": S.name, "x": x, "y": y, "weights": w, "k": kw, "aux(alpha,beta)": aux}
							})
						}
					}
				}
				if bmRep != nil && !S.noRep && len(rx) >= S.minN {
					_, u2, ok2 := S.ref(bmRep, aux)
					var o2 []float64
					if ok2 && m.try(S.name, cls, replay, func() { o2 = S.call(cp(rx), cp(ry), nil, aux) }) {
						m.eval(ci, S.name+"|replication|"+wk+"|"+class+"|"+sc)
						for k := range out {
							m.rel(S.name+dot(S.outs[k]), cls, "integer-weights != replication", out[k], o2[k], units[k]+u2[k], replay)
						}
					}
				}
				if n >= 2 {
					var o2 []float64
					px, py, pw := permute(perm, x), permute(perm, y), permute(perm, w)
					if m.try(S.name, cls, replay, func() { o2 = S.call(px, py, pw, aux) }) {
						m.eval(ci, S.name+"|permutation|"+wk+"|"+class+"|"+sc)
						for k := range out {
							m.rel(S.name+dot(S.outs[k]), cls, "permutation-dependent", out[k], o2[k], 2*units[k], replay)
						}
					}
				}
				if S.aff != nil && (class == biGrid || class == biPerfect) {
					a, cc := math.Ldexp(1, r.Range(-3, 3)), math.Ldexp(1, r.Range(-3, 3))
					b, d := 0.0, 0.0
					if !S.scaleOnly {
						if r.Bool() {
							a = -a
						}
						if r.Bool() {
							cc = -cc
						}
						b = float64(r.Range(-102400, 102400)) / 1024
						d = float64(r.Range(-102400, 102400)) / 1024
					}
					ax, ay := make([]float64, n), make([]float64, n)
					for i := range x {
						ax[i] = a*x[i] + b
						ay[i] = cc*y[i] + d
					}
					bm2 := newBimoments(ax, ay, w)
					_, u2, ok2 := S.ref(bm2, aux)
					var o2 []float64
					if ok2 && m.try(S.name, cls, replay, func() { o2 = S.call(ax, ay, cp(w), aux) }) {
						m.eval(ci, S.name+"|affine|"+wk+"|"+class)
						want, slack := S.aff(a, b, cc, d, out)
						slope, _ := S.aff(a, 0, cc, 0, onesLike(out))
						for k := range out {
							un := u2[k] + slack[k] + math.Abs(slope[k])*units[k]
							if S.name == "LinearRegression" && k == 0 {
								// alpha' also depends on beta: |b| * unit(beta')
								un += math.Abs(b) * (u2[1] + math.Abs(slope[1])*units[1])
							}
							m.rel(S.name+dot(S.outs[k]), cls, "not affine-equivariant", o2[k], want[k], un, func() any {
								return replayCase{"func": S.name, "x": x, "y": y, "weights": w, "a": a, "b": b, "c": cc, "d": d, "f(x,y)": out, "f(ax+b,cy+d)": o2}
							})
						}
					}
				}
			}
			// Kendall with ties: separate narrow monitor
			if tied && n >= 2 && (wk == wNil || wk == wPos) && e == 0 {
				m.kendallTies(ci, x, y, w, perm, class, wk)
			}
		}
	})
}

// kendallTies judges Kendall on samples containing tied pairs against the
// tau-a definition (tied pairs are neither concordant nor discordant) and
// against invariance under a joint permutation.
func (m *mon) kendallTies(ci int, x, y, w []float64, perm []int, class, wk string) {
	c := m.c
	replay := func() any { return replayCase{"func": "Kendall", "x": x, "y": y, "weights": w} }
	ref, _, pairs := kendallRef(x, y, w)
	if ref == nil {
		return
	}
	var got, got2 float64
	if !m.try("Kendall", "ties", replay, func() { got = stat.Kendall(cp(x), cp(y), cp(w)) }) {
		return
	}
	m.eval(ci, "Kendall|ties|def|"+wk+"|"+class)
	unit := float64(pairs+8) * u * 2
	m.band("Kendall", "ties", "definition (tau-a)", got, ref, unit, replay)
	if !(math.Abs(got) <= 1+unit) {
		c.Violationf(sig("Kendall", "ties", "|tau| > 1"), replay(), "Kendall = %v", got)
	}
	px, py, pw := permute(perm, x), permute(perm, y), permute(perm, w)
	if m.try("Kendall", "ties", replay, func() { got2 = stat.Kendall(px, py, pw) }) {
		m.eval(ci, "Kendall|ties|permutation|"+wk+"|"+class)
		m.rel("Kendall", "ties", "permutation-dependent", got, got2, 2*unit, func() any {
			return replayCase{"func": "Kendall", "x": x, "y": y, "weights": w, "perm": perm, "tau": got, "tau_permuted": got2}
		})
	}
}
