// Command c10 is the monitor for property C10: descriptive statistics are
// total on their documented domain and obey their defining identities.
//
// Three kinds of monitors observe the exported API of stat, stat/spatial and
// stat/mds on seeded workloads:
//
//  1. definition monitors: every result is compared with the documented
//     formula evaluated in 320-bit big.Float arithmetic, inside a rounding
//     band derived from a first-order error analysis of that formula;
//  2. metamorphic monitors: ones-weights == nil-weights, integer weights ==
//     replication, joint permutation invariance, affine equivariance on
//     exactly transformable (dyadic grid) data;
//  3. order-statistic coherence: Quantile total/monotone/in-range on a p grid
//     that contains 0, 1 and the k/W boundaries +-1 ulp, CDF(Quantile(p)) >= p,
//     histogram conservation and bin-by-bin counts, KS == sup |F1-F2|, ROC
//     threshold-sweep definition and monotonicity, TOC, SortWeighted*.
package main

import (
	"flag"

	"gonum.org/v1/gonum/verifx/vrt"
)

var only = flag.String("sub", "", "run only the named sub-monitor (debugging)")

func main() { vrt.Main("C10", run) }

func run(c *vrt.Ctx) {
	m := newMon(c)
	subs := []struct {
		name string
		f    func()
	}{
		{"uni", m.runUni},
		{"bi", m.runBi},
		{"dist", m.runDist},
		{"mode", m.runMode},
		{"scalar", m.runScalar},
		{"quantile", m.runQuantile},
		{"histogram", m.runHistogram},
		{"ks", m.runKS},
		{"roc", m.runROC},
		{"sort", m.runSort},
		{"covmat", m.runCovMatrix},
		{"mahalanobis", m.runMahalanobis},
		{"pc", m.runPC},
		{"cc", m.runCC},
		{"spatial", m.runSpatial},
		{"mds", m.runMDS},
	}
	for _, s := range subs {
		if *only != "" && *only != s.name {
			continue
		}
		s.f()
	}
	m.flushNotes()
}
