package main

import (
	"fmt"
	"math"

	"gonum.org/v1/gonum/stat"
	"gonum.org/v1/gonum/verifx/vrt"
)

// uniStat describes one scalar-valued (or tuple-valued) statistic of a
// weighted sample (x, w): how to call gonum, its exact defining formula with
// its rounding unit, its documented domain and its affine transformation law.
type uniStat struct {
	name    string
	outs    []string
	minN    int     // smallest admissible sample size
	minW    float64 // smallest admissible total weight (doc: "when weights sum to 1 or less a biased estimator should be used", and n-2, n-3 normalisers)
	zerosOK bool    // zero weights admissible ("positive weights" in the doc => false)
	posX    bool    // doc: "only applies with positive x"
	needVar bool    // undefined for a constant sample (division by a zero standard deviation)
	maxExp  int     // largest |binary scale exponent| for which all intermediate powers stay representable
	wrap2pi bool    // result is an angle
	call    func(x, w []float64, aux float64) []float64
	ref     func(m *moments, aux float64) (ref []bf, unit []float64, ok bool)
	// aff returns the expected outputs for the sample a*x+b given the outputs
	// for x (nil: no affine law is claimed).  It must be affine in out.
	aff func(a, b float64, out []float64) []float64
	// scaleOnly: the law only holds for b = 0, a > 0.
	scaleOnly bool
}

func one(f float64) []float64 { return []float64{f} }

func varianceRef(m *moments) (bf, float64) {
	wm1 := bSub(m.W, bI(1))
	ref := bQuo(m.S2, wm1)
	w1 := m.Wf - 1
	unit := m.unitS2()/w1 + math.Abs(bTo(ref))*m.nn()*u*m.Wf/w1
	return ref, unit
}

func popVarianceRef(m *moments) (bf, float64) {
	ref := bQuo(m.S2, m.W)
	return ref, m.unitS2()/m.Wf + math.Abs(bTo(ref))*m.nn()*u
}

func sqrtRef(v bf, unitV float64) (bf, float64) {
	vf := bTo(v)
	if vf <= unitV {
		// (numerically) constant sample: the computed variance is rounding
		// noise of size unitV, its square root of size sqrt(unitV).
		return bSqrt(v), math.Sqrt(unitV + 1e-300)
	}
	s := math.Sqrt(vf)
	return bSqrt(v), unitV/(2*s) + 2*u*s
}

// standardised returns sum w z^k (exact) and sum w |z|^k (float) for
// z = d / s with s the unbiased standard deviation.
func standardised(m *moments, k int) (bf, float64, float64, float64) {
	v, unitV := varianceRef(m)
	s := bSqrt(v)
	sf := bTo(s)
	e := bZero()
	var ea, eam1 float64
	for i := range m.x {
		z := bQuo(m.d[i], s)
		acc(e, bMul(bF(m.w[i]), bPowI(z, k)))
		za := math.Abs(m.df[i] / sf)
		ea += m.w[i] * math.Pow(za, float64(k))
		eam1 += m.w[i] * math.Pow(za, float64(k-1))
	}
	relS := unitV/(2*bTo(v)) + 2*u
	dz := m.delta / sf
	unitE := m.nn()*u*float64(k+2)*ea + float64(k)*dz*eam1 + float64(k)*relS*ea
	return e, ea, unitE, sf
}

func momentStat(k int) uniStat {
	return uniStat{
		name: fmt.Sprintf("Moment(%d)", k), outs: []string{""}, minN: 1, zerosOK: true, maxExp: 0,
		call: func(x, w []float64, _ float64) []float64 { return one(stat.Moment(float64(k), x, w)) },
		ref: func(m *moments, _ float64) ([]bf, []float64, bool) {
			ref := bQuo(m.centralSum(k), m.W)
			// rounding of the k-th powers and the sum, plus the propagated
			// rounding delta of the computed mean: sum w ((|d|+delta)^k - |d|^k)
			var prop float64
			for i := range m.x {
				a := math.Abs(m.df[i])
				prop += (m.w[i] / m.Wf) * (math.Pow(a+m.delta, float64(k)) - math.Pow(a, float64(k)))
			}
			unit := m.nn()*u*float64(k+2)*m.absCentral(k)/m.Wf + prop
			if k == 0 {
				unit = 4 * u
			}
			return []bf{ref}, one(unit), true
		},
		aff: func(a, b float64, out []float64) []float64 { return one(math.Pow(a, float64(k)) * out[0]) },
	}
}

func maxInt(a, b int) int {
	if a > b {
		return a
	}
	return b
}

func momentAboutStat(k int) uniStat {
	return uniStat{
		name: fmt.Sprintf("MomentAbout(%d)", k), outs: []string{""}, minN: 1, zerosOK: true, maxExp: 200,
		call: func(x, w []float64, aux float64) []float64 { return one(stat.MomentAbout(float64(k), x, aux, w)) },
		ref: func(m *moments, aux float64) ([]bf, []float64, bool) {
			s := bZero()
			var sa float64
			for i, v := range m.x {
				d := bSub(bF(v), bF(aux))
				acc(s, bMul(bF(m.w[i]), bPowI(d, k)))
				sa += m.w[i] * math.Pow(math.Abs(v-aux), float64(k))
			}
			return []bf{bQuo(s, m.W)}, one(m.nn()*u*float64(k+2)*sa/m.Wf + 4*u*boolF(k == 0)), true
		},
		aff: func(a, b float64, out []float64) []float64 { return one(math.Pow(a, float64(k)) * out[0]) },
	}
}

func boolF(b bool) float64 {
	if b {
		return 1
	}
	return 0
}

func sign(a float64) float64 {
	if a < 0 {
		return -1
	}
	return 1
}

var uniStats = buildUniStats()

func buildUniStats() []uniStat {
	meanRef := func(m *moments) (bf, float64) { return m.mean, m.delta + 2*u*math.Abs(m.meanf) }
	l := []uniStat{
		{
			name: "Mean", outs: []string{""}, minN: 1, zerosOK: true, maxExp: 465,
			call: func(x, w []float64, _ float64) []float64 { return one(stat.Mean(x, w)) },
			ref: func(m *moments, _ float64) ([]bf, []float64, bool) {
				r, un := meanRef(m)
				return []bf{r}, one(un), true
			},
			aff: func(a, b float64, out []float64) []float64 { return one(a*out[0] + b) },
		},
		{
			name: "Variance", outs: []string{""}, minN: 2, minW: 2, zerosOK: true, maxExp: 465,
			call: func(x, w []float64, _ float64) []float64 { return one(stat.Variance(x, w)) },
			ref: func(m *moments, _ float64) ([]bf, []float64, bool) {
				r, un := varianceRef(m)
				return []bf{r}, one(un), true
			},
			aff: func(a, b float64, out []float64) []float64 { return one(a * a * out[0]) },
		},
		{
			name: "StdDev", outs: []string{""}, minN: 2, minW: 2, zerosOK: true, maxExp: 465,
			call: func(x, w []float64, _ float64) []float64 { return one(stat.StdDev(x, w)) },
			ref: func(m *moments, _ float64) ([]bf, []float64, bool) {
				v, un := varianceRef(m)
				r, us := sqrtRef(v, un)
				return []bf{r}, one(us), true
			},
			aff: func(a, b float64, out []float64) []float64 { return one(math.Abs(a) * out[0]) },
		},
		{
			name: "MeanVariance", outs: []string{"mean", "variance"}, minN: 2, minW: 2, zerosOK: true, maxExp: 465,
			call: func(x, w []float64, _ float64) []float64 { a, b := stat.MeanVariance(x, w); return []float64{a, b} },
			ref: func(m *moments, _ float64) ([]bf, []float64, bool) {
				mr, mu := meanRef(m)
				r, un := varianceRef(m)
				return []bf{mr, r}, []float64{mu, un}, true
			},
			aff: func(a, b float64, out []float64) []float64 { return []float64{a*out[0] + b, a * a * out[1]} },
		},
		{
			name: "MeanStdDev", outs: []string{"mean", "std"}, minN: 2, minW: 2, zerosOK: true, maxExp: 465,
			call: func(x, w []float64, _ float64) []float64 { a, b := stat.MeanStdDev(x, w); return []float64{a, b} },
			ref: func(m *moments, _ float64) ([]bf, []float64, bool) {
				mr, mu := meanRef(m)
				v, un := varianceRef(m)
				r, us := sqrtRef(v, un)
				return []bf{mr, r}, []float64{mu, us}, true
			},
			aff: func(a, b float64, out []float64) []float64 { return []float64{a*out[0] + b, math.Abs(a) * out[1]} },
		},
		{
			name: "PopVariance", outs: []string{""}, minN: 1, zerosOK: true, maxExp: 465,
			call: func(x, w []float64, _ float64) []float64 { return one(stat.PopVariance(x, w)) },
			ref: func(m *moments, _ float64) ([]bf, []float64, bool) {
				r, un := popVarianceRef(m)
				return []bf{r}, one(un), true
			},
			aff: func(a, b float64, out []float64) []float64 { return one(a * a * out[0]) },
		},
		{
			name: "PopStdDev", outs: []string{""}, minN: 1, zerosOK: true, maxExp: 465,
			call: func(x, w []float64, _ float64) []float64 { return one(stat.PopStdDev(x, w)) },
			ref: func(m *moments, _ float64) ([]bf, []float64, bool) {
				v, un := popVarianceRef(m)
				r, us := sqrtRef(v, un)
				return []bf{r}, one(us), true
			},
			aff: func(a, b float64, out []float64) []float64 { return one(math.Abs(a) * out[0]) },
		},
		{
			name: "PopMeanVariance", outs: []string{"mean", "variance"}, minN: 1, zerosOK: true, maxExp: 465,
			call: func(x, w []float64, _ float64) []float64 { a, b := stat.PopMeanVariance(x, w); return []float64{a, b} },
			ref: func(m *moments, _ float64) ([]bf, []float64, bool) {
				mr, mu := meanRef(m)
				r, un := popVarianceRef(m)
				return []bf{mr, r}, []float64{mu, un}, true
			},
			aff: func(a, b float64, out []float64) []float64 { return []float64{a*out[0] + b, a * a * out[1]} },
		},
		{
			name: "PopMeanStdDev", outs: []string{"mean", "std"}, minN: 1, zerosOK: true, maxExp: 465,
			call: func(x, w []float64, _ float64) []float64 { a, b := stat.PopMeanStdDev(x, w); return []float64{a, b} },
			ref: func(m *moments, _ float64) ([]bf, []float64, bool) {
				mr, mu := meanRef(m)
				v, un := popVarianceRef(m)
				r, us := sqrtRef(v, un)
				return []bf{mr, r}, []float64{mu, us}, true
			},
			aff: func(a, b float64, out []float64) []float64 { return []float64{a*out[0] + b, math.Abs(a) * out[1]} },
		},
		{
			// Adjusted Fisher-Pearson coefficient G1 = n/((n-1)(n-2)) sum z^3 with
			// z standardised by the unbiased standard deviation (Doane & Seward,
			// cited in the source) and n := sum of weights.
			name: "Skew", outs: []string{""}, minN: 3, minW: 3, zerosOK: true, needVar: true, maxExp: 465,
			call: func(x, w []float64, _ float64) []float64 { return one(stat.Skew(x, w)) },
			ref: func(m *moments, _ float64) ([]bf, []float64, bool) {
				e, _, unitE, _ := standardised(m, 3)
				W := m.W
				K := bQuo(W, bMul(bSub(W, bI(1)), bSub(W, bI(2))))
				ref := bMul(e, K)
				Wf := m.Wf
				unit := bTo(K)*unitE + math.Abs(bTo(ref))*m.nn()*u*(1+Wf/(Wf-1)+Wf/(Wf-2))
				return []bf{ref}, one(unit), true
			},
			aff: func(a, b float64, out []float64) []float64 { return one(sign(a) * out[0]) },
		},
		{
			// Standard unbiased estimator G2 (Wikipedia "Kurtosis", cited in the
			// source): (n+1)n/((n-1)(n-2)(n-3)) sum z^4 - 3(n-1)^2/((n-2)(n-3)).
			name: "ExKurtosis", outs: []string{""}, minN: 4, minW: 4.5, zerosOK: true, needVar: true, maxExp: 465,
			call: func(x, w []float64, _ float64) []float64 { return one(stat.ExKurtosis(x, w)) },
			ref: func(m *moments, _ float64) ([]bf, []float64, bool) {
				e, _, unitE, _ := standardised(m, 4)
				W := m.W
				w1, w2, w3 := bSub(W, bI(1)), bSub(W, bI(2)), bSub(W, bI(3))
				mul := bQuo(bMul(bAdd(W, bI(1)), W), bMul(w1, bMul(w2, w3)))
				off := bQuo(bMul(bI(3), bMul(w1, w1)), bMul(w2, w3))
				ref := bSub(bMul(e, mul), off)
				Wf := m.Wf
				unit := bTo(mul)*unitE + (math.Abs(bTo(bMul(e, mul)))+bTo(off))*m.nn()*u*2*(1+Wf/(Wf-1)+Wf/(Wf-2)+Wf/(Wf-3))
				return []bf{ref}, one(unit), true
			},
			aff: func(a, b float64, out []float64) []float64 { return one(out[0]) },
		},
		{
			name: "GeometricMean", outs: []string{""}, minN: 1, posX: true, maxExp: 1000, scaleOnly: true, // evaluated in log space
			call: func(x, w []float64, _ float64) []float64 { return one(stat.GeometricMean(x, w)) },
			ref: func(m *moments, _ float64) ([]bf, []float64, bool) {
				s := bZero()
				var sa float64
				for i, v := range m.x {
					l := math.Log(v)
					acc(s, bMul(bF(m.w[i]), bF(l)))
					sa += m.w[i] * math.Abs(l)
				}
				L := bTo(bQuo(s, m.W))
				g := math.Exp(L)
				return []bf{bF(g)}, one(g * (m.nn()*u*2*sa/m.Wf + 4*u + 2*u*math.Abs(L))), true
			},
			aff: func(a, b float64, out []float64) []float64 { return one(a * out[0]) },
		},
		{
			name: "HarmonicMean", outs: []string{""}, minN: 1, posX: true, maxExp: 1000, scaleOnly: true, // evaluated in log space ("hm = exp(log(W) - log(sum w/x))")
			call: func(x, w []float64, _ float64) []float64 { return one(stat.HarmonicMean(x, w)) },
			ref: func(m *moments, _ float64) ([]bf, []float64, bool) {
				s := bZero()
				var maxLog float64
				for i, v := range m.x {
					acc(s, bQuo(bF(m.w[i]), bF(v)))
					maxLog = math.Max(maxLog, math.Abs(math.Log(m.w[i]))+math.Abs(math.Log(v)))
				}
				ref := bQuo(m.W, s)
				h := bTo(ref)
				// gonum evaluates exp(log W - logsumexp(log w_i - log x_i)): every
				// logarithm carries an absolute error u*|log|.
				return []bf{ref}, one(h * u * (m.nn() + math.Abs(math.Log(m.Wf)) + 4*maxLog)), true
			},
			aff: func(a, b float64, out []float64) []float64 { return one(a * out[0]) },
		},
		{
			name: "CircularMean", outs: []string{""}, minN: 1, zerosOK: true, maxExp: 0, wrap2pi: true,
			call: func(x, w []float64, _ float64) []float64 { return one(stat.CircularMean(x, w)) },
			ref: func(m *moments, _ float64) ([]bf, []float64, bool) {
				ax, ay := bZero(), bZero()
				for i, v := range m.x {
					acc(ax, bMul(bF(m.w[i]), bF(math.Cos(v))))
					acc(ay, bMul(bF(m.w[i]), bF(math.Sin(v))))
				}
				axf, ayf := bTo(ax), bTo(ay)
				R := math.Hypot(axf, ayf)
				if R < 1e-3*m.Wf {
					// resultant (numerically) zero: the direction is undefined
					return nil, nil, false
				}
				return []bf{bF(math.Atan2(ayf, axf))}, one(m.nn()*u*2*m.Wf/R + 8*u), true
			},
		},
	}
	for k := 0; k <= 5; k++ {
		l = append(l, momentStat(k))
	}
	for k := 1; k <= 4; k++ {
		l = append(l, momentAboutStat(k))
	}
	// representable range of x^k for the scaled classes
	for i := range l {
		switch l[i].name {
		case "Moment(3)", "MomentAbout(3)", "Moment(4)", "MomentAbout(4)":
			l[i].maxExp = 200
		case "Moment(5)":
			l[i].maxExp = 0
		case "Moment(0)", "Moment(1)", "Moment(2)", "MomentAbout(1)", "MomentAbout(2)":
			l[i].maxExp = 465
		}
	}
	return l
}

var uniWeightKinds = []string{wNil, wOnes, wInts, wIntsZ, wPos, wMix, wZeros}

const (
	clsPosCont = "positive-continuous"
	clsPosTies = "positive-ties"
)

func genUniData(r *vrt.Rand, i int) (x []float64, class string) {
	classes := []string{clsCont, clsCont, clsOffset, clsTies, clsTies, clsConst, clsGrid, clsGrid, clsPosCont, clsPosTies}
	class = classes[i%len(classes)]
	min := 1
	n := genN(r, min)
	switch class {
	case clsPosCont:
		x = make([]float64, n)
		s := r.PickFloat(0.1, 1, 3)
		for i := range x {
			x[i] = math.Exp(s * r.Norm())
		}
	case clsPosTies:
		x = make([]float64, n)
		k := r.Range(1, 4)
		for i := range x {
			x[i] = float64(1+r.Intn(k)) / 2
		}
	default:
		x = genData(r, class, n)
	}
	return x, class
}

func allPositive(x []float64) bool {
	for _, v := range x {
		if !(v > 0) {
			return false
		}
	}
	return true
}

// runUni drives the definition and metamorphic monitors for all univariate
// statistics.
func (m *mon) runUni() {
	c := m.c
	cases := c.Pick(350, 3900)
	vrt.Parallel(cases, func(ci int) {
		r := c.RNG("uni", ci)
		x0, class := genUniData(r, ci)
		e := scaleExps[r.Intn(len(scaleExps))]
		if class == clsGrid {
			e = 0
		}
		if (class == clsPosCont || class == clsPosTies) && r.Intn(3) == 0 {
			// near the ends of the float64 range: only the log-space routines
			// (geometric and harmonic mean) are judged there
			e = r.PickInt(1000, -1000)
		}
		ew := weightExps[r.Intn(len(weightExps))] // weight scale class of this case
		kw := r.PickInt(60, -60)                  // exact rescaling of the weights for the invariance relation
		x := scaleBy(x0, e)
		n := len(x)
		sc := scaleClass(e)
		aux := math.Ldexp(x0[r.Intn(n)]+r.PickFloat(0, 0.5, -1), e)
		constant := isConstant(x)
		pos := allPositive(x)
		perm := r.Perm(n)
		for _, wk := range uniWeightKinds {
			w := genWeights(r, wk, n)
			ewk := 0
			if scalableKind(wk) {
				ewk = ew
				w = scaleBy(w, ewk)
			}
			c.LastCase(fmt.Sprintf("univariate stats n=%d class=%s wk=%s ew=%d case=%d (stream uni)", n, class, wk, ewk, ci))
			mo := newMoments(x, w)
			var moRep *moments
			var rx []float64
			if (wk == wInts || wk == wIntsZ) && n <= 60 {
				rx, _ = replicate(x, w)
				moRep = newMoments(rx, nil)
			}
			zero := w != nil && hasZero(w)
			constant := constant
			if zero {
				constant = mo.S2.Sign() == 0 // variance over the positive-weight support
			}
			for si := range uniStats {
				S := &uniStats[si]
				if n < S.minN || mo.Wf < S.minW || (zero && !S.zerosOK) || (S.posX && !pos) || (S.needVar && constant) || !fits(ewk, e, S.maxExp) {
					continue
				}
				sc := sc
				if constant {
					sc = "constant sample"
				}
				if ewk != 0 && e == 0 {
					sc = "extreme-weights"
				}
				lim := 1e290
				if S.maxExp >= 1000 {
					lim = 1e305
				}
				replay := func() any {
					return replayCase{"func": S.name, "x": x, "weights": w, "aux": aux, "data_class": class, "weight_kind": wk}
				}
				refs, units, ok := S.ref(mo, aux)
				if !ok {
					c.Count("noverdict.ill-defined:"+S.name, 1)
					continue
				}
				// gradual underflow: gonum forms plain sums of w*(deviation)^k; a
				// term below 2^-1022 (tiny weights times the u*|x|-sized deviations
				// of a (near-)constant sample) is rounded with ABSOLUTE error
				// 2^-1075, which the division by a tiny total weight magnifies.
				// This floor is part of every unit, hence of the definition band
				// and of all relations (which use sums of units).
				uflow := mo.nn() * 1e-322 * math.Max(1, 1/mo.Wf)
				for k := range units {
					units[k] += uflow
				}
				var out []float64
				xc, wc := cp(x), cp(w)
				if !m.try(S.name, sc, replay, func() { out = S.call(xc, wc, aux) }) {
					m.eval(ci, S.name+"|def|"+wk+"|"+class+"|"+sc)
					continue
				}
				m.eval(ci, S.name+"|def|"+wk+"|"+class+"|"+sc)
				okAll := true
				for k := range out {
					g := out[k]
					if S.wrap2pi {
						rf := bTo(refs[k])
						g = rf + math.Remainder(g-rf, 2*math.Pi)
					}
					if !m.bandLim(lim, S.name+dot(S.outs[k]), sc, "definition", g, refs[k], units[k], replay) {
						okAll = false
					}
				}
				if !okAll {
					continue
				}
				if n <= 6 && ci%7 == 3 && m.wantSample("uni") {
					c.Sample(replayCase{"func": S.name, "x": x, "weights": w, "result": out, "reference": bTo(refs[0])})
				}
				// (2a) ones weights == nil weights
				if wk == wOnes {
					var o2 []float64
					if m.try(S.name, sc, replay, func() { o2 = S.call(cp(x), nil, aux) }) {
						m.eval(ci, S.name+"|ones-vs-nil|"+class+"|"+sc)
						for k := range out {
							m.rel(S.name+dot(S.outs[k]), sc, "ones-weights != nil-weights", wrapTo(S, out[k], o2[k]), o2[k], 2*units[k], replay)
						}
					}
				}
				// (2e) rescaling all weights by an exact power of two changes no
				// statistic that is normalised by the total weight
				if w != nil && S.minW == 0 && fits(ewk+kw, e, S.maxExp) {
					var o2 []float64
					w2 := scaleBy(w, kw)
					if m.try(S.name, sc, replay, func() { o2 = S.call(cp(x), w2, aux) }) {
						m.eval(ci, S.name+"|weight-scale|"+wk+"|"+class+"|"+sc)
						for k := range out {
							m.rel(S.name+dot(S.outs[k]), sc, "changes when all weights are scaled by 2^k", wrapTo(S, out[k], o2[k]), o2[k], 2*units[k], func() any {
								return replayCase{"func": S.name, "x": x, "weights": w, "k": kw, "data_class": class, "weight_kind": wk}
							})
						}
					}
				}
				// (2b) integer weights == replication
				if moRep != nil && len(rx) >= S.minN {
					r2, u2, ok2 := S.ref(moRep, aux)
					var o2 []float64
					if ok2 && m.try(S.name, sc, replay, func() { o2 = S.call(cp(rx), nil, aux) }) {
						m.eval(ci, S.name+"|replication|"+wk+"|"+class+"|"+sc)
						_ = r2
						for k := range out {
							m.rel(S.name+dot(S.outs[k]), sc, "integer-weights != replication", wrapTo(S, out[k], o2[k]), o2[k], units[k]+u2[k], replay)
						}
					}
				}
				// (2c) joint permutation
				if n >= 2 {
					var o2 []float64
					px, pw := permute(perm, x), permute(perm, w)
					if m.try(S.name, sc, replay, func() { o2 = S.call(px, pw, aux) }) {
						m.eval(ci, S.name+"|permutation|"+wk+"|"+class+"|"+sc)
						for k := range out {
							m.rel(S.name+dot(S.outs[k]), sc, "permutation-dependent", wrapTo(S, out[k], o2[k]), o2[k], 2*units[k], replay)
						}
					}
				}
				// (2f) log-space routines: exact power-of-two scale equivariance
				// between the end of the float64 range and the unscaled data
				if S.scaleOnly && absInt(e) == 1000 {
					var o0 []float64
					if m.try(S.name, sc, replay, func() { o0 = S.call(cp(x0), cp(w), aux) }) {
						m.eval(ci, S.name+"|extreme-scale-equivariance|"+wk+"|"+class)
						for k := range out {
							m.rel(S.name+dot(S.outs[k]), sc, "not scale-equivariant", out[k], math.Ldexp(o0[k], e), 4*units[k], replay)
						}
					}
				}
				// (2d) affine equivariance on exactly transformable data
				if S.aff != nil && class == clsGrid || S.aff != nil && S.scaleOnly && e == 0 {
					a := math.Ldexp(1, r.Range(-3, 3))
					b := 0.0
					if !S.scaleOnly {
						if r.Bool() {
							a = -a
						}
						b = float64(r.Range(-1024000, 1024000)) / 1024
					}
					ax := make([]float64, n)
					for i, v := range x {
						ax[i] = a*v + b
					}
					aaux := a*aux + b
					mo2 := newMoments(ax, w)
					_, u2, ok2 := S.ref(mo2, aaux)
					var o2 []float64
					if ok2 && m.try(S.name, sc, replay, func() { o2 = S.call(ax, cp(w), aaux) }) {
						m.eval(ci, S.name+"|affine|"+wk+"|"+class)
						want := S.aff(a, b, out)
						slope := S.aff(a, 0, onesLike(out))
						for k := range out {
							m.rel(S.name+dot(S.outs[k]), sc, "not affine-equivariant", o2[k], want[k], u2[k]+math.Abs(slope[k])*units[k], func() any {
								return replayCase{"func": S.name, "x": x, "weights": w, "a": a, "b": b, "f(x)": out, "f(a*x+b)": o2}
							})
						}
					}
				}
			}
		}
	})
}

func wrapTo(S *uniStat, a, b float64) float64 {
	if S.wrap2pi {
		return b + math.Remainder(a-b, 2*math.Pi)
	}
	return a
}

func onesLike(s []float64) []float64 { return ones(len(s)) }

func dot(s string) string {
	if s == "" {
		return ""
	}
	return "." + s
}

func absInt(a int) int {
	if a < 0 {
		return -a
	}
	return a
}
