package main

import (
	"math"
	"math/big"
)

// Reference arithmetic: every defining formula is evaluated in big.Float with
// a 320-bit mantissa (exponent range is unbounded, so 1e+-150 scaled data do
// not overflow/underflow in the reference).  Transcendental functions (log,
// exp, sin, cos, atan2) are not available in big.Float: those formulas use
// float64 math for the element-wise function and a big.Float accumulation.
const prec = 320

type bf = *big.Float

func bF(x float64) bf { return new(big.Float).SetPrec(prec).SetFloat64(x) }
func bI(x int) bf     { return new(big.Float).SetPrec(prec).SetInt64(int64(x)) }
func bZero() bf       { return new(big.Float).SetPrec(prec) }
func bAdd(a, b bf) bf { return new(big.Float).SetPrec(prec).Add(a, b) }
func bSub(a, b bf) bf { return new(big.Float).SetPrec(prec).Sub(a, b) }
func bMul(a, b bf) bf { return new(big.Float).SetPrec(prec).Mul(a, b) }
func bQuo(a, b bf) bf { return new(big.Float).SetPrec(prec).Quo(a, b) }
func bSqrt(a bf) bf   { return new(big.Float).SetPrec(prec).Sqrt(a) }
func bAbs(a bf) bf    { return new(big.Float).SetPrec(prec).Abs(a) }
func bNeg(a bf) bf    { return new(big.Float).SetPrec(prec).Neg(a) }
func bPowI(a bf, k int) bf {
	r := bI(1)
	for i := 0; i < k; i++ {
		r = bMul(r, a)
	}
	return r
}
func bCopy(a bf) bf    { return new(big.Float).Copy(a) }
func bTo(a bf) float64 { f, _ := a.Float64(); return f }

// acc adds b into a in place.
func acc(a, b bf) { a.Add(a, b) }

// absDiff returns |got - ref| as a float64 (computed in big precision so that
// nearly equal values are not subject to cancellation in the oracle itself).
func absDiff(got float64, ref bf) float64 {
	return bTo(bAbs(bSub(bF(got), ref)))
}

func isFinite(f float64) bool { return !math.IsNaN(f) && !math.IsInf(f, 0) }

// fsum returns the plain float64 sum of |v| for tolerance magnitudes.
func sumAbs(s []float64) float64 {
	var t float64
	for _, v := range s {
		t += math.Abs(v)
	}
	return t
}

// moments bundles the exact first/second-order quantities of a weighted
// sample; the definition monitors derive their references from it.
type moments struct {
	n     int
	x, w  []float64 // w is never nil here (ones substituted)
	W     bf        // sum of weights
	Wf    float64
	mean  bf
	meanf float64
	d     []bf      // x_i - mean (exact)
	df    []float64 // float64 images of d
	S2    bf        // sum w d^2
	S2f   float64
	A1    float64 // sum |w x|
	delta float64 // rounding unit of the computed mean: nn*u*A1/W
}

const u = 1.0 / (1 << 53)

func ones(n int) []float64 {
	w := make([]float64, n)
	for i := range w {
		w[i] = 1
	}
	return w
}

func newMoments(x, w []float64) *moments {
	if w == nil {
		w = ones(len(x))
	}
	m := &moments{n: len(x), x: x, w: w}
	W := bZero()
	sx := bZero()
	for i, v := range x {
		bw := bF(w[i])
		acc(W, bw)
		acc(sx, bMul(bw, bF(v)))
		m.A1 += math.Abs(w[i] * v)
	}
	m.W = W
	m.Wf = bTo(W)
	if W.Sign() <= 0 {
		return m
	}
	m.mean = bQuo(sx, W)
	m.meanf = bTo(m.mean)
	m.d = make([]bf, len(x))
	m.df = make([]float64, len(x))
	S2 := bZero()
	for i, v := range x {
		d := bSub(bF(v), m.mean)
		m.d[i] = d
		m.df[i] = bTo(d)
		acc(S2, bMul(bF(w[i]), bMul(d, d)))
	}
	m.S2 = S2
	m.S2f = bTo(S2)
	m.delta = float64(m.n+8) * u * m.A1 / m.Wf
	return m
}

// centralSum returns sum w d^k exactly.
func (m *moments) centralSum(k int) bf {
	s := bZero()
	for i := range m.x {
		acc(s, bMul(bF(m.w[i]), bPowI(m.d[i], k)))
	}
	return s
}

// absCentral returns sum w |d|^k in float64 (tolerance magnitude).
func (m *moments) absCentral(k int) float64 {
	var s float64
	for i := range m.x {
		s += m.w[i] * math.Pow(math.Abs(m.df[i]), float64(k))
	}
	return s
}

func (m *moments) nn() float64 { return float64(m.n + 8) }

// unitS2 is the rounding unit of the corrected two-pass sum of squares.
func (m *moments) unitS2() float64 {
	var a float64
	for i := range m.x {
		t := math.Abs(m.df[i]) + m.delta
		a += m.w[i] * t * t
	}
	return m.nn() * u * a
}
