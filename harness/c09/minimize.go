package main

import (
	"errors"
	"fmt"
	"math"
	"runtime"
	"sort"
	"sync"
	"sync/atomic"
	"time"

	"gonum.org/v1/gonum/mat"
	"gonum.org/v1/gonum/optimize"
	"gonum.org/v1/gonum/verifx/vrt"
)

// ---- sub-check 3: optimize.Minimize ----------------------------------------------------------------
//
// Observers:
//   - minState: ledger of every user callback (Func/Grad/Hess/Status/Recorder)
//   - proxy:    a Method wrapping the real one that sits on the operation /
//               result channels and checks the documented task protocol online
//   - the yield hook H2 (optimize.VerifSetYield) and perturbations inside the
//     callbacks widen the set of schedules
//   - goroutine-leak monitor after every batch; deadlocks are caught by the Go
//     runtime ("all goroutines are asleep") or vctl's stall/CPU watchdogs.

var (
	userStop  = optimize.NewStatus("c09-user-stop", true, nil)
	errStatus = errors.New("c09: Problem.Status failed")
	errRecord = errors.New("c09: Recorder.Record failed")
	errRecIni = errors.New("c09: Recorder.Init failed")

	errMethodPanic = errors.New("c09: the method goroutine panicked (contained by the proxy)")
)

const minBackstop = 300 // FuncEvaluations backstop of cases whose cause is not an evaluation limit

type recEntry struct {
	op       optimize.Operation
	stats    optimize.Stats
	f        float64
	funcDone int
}

type minCase struct {
	idx      int
	batch    int
	method   string
	conc     int
	cause    string
	k        int
	dim      int
	proxy    bool
	recorder bool
	initVals bool
	rows     int
	procs    int
	pattern  string
}

func (mc *minCase) String() string {
	return fmt.Sprintf("Minimize case=%d batch=%d method=%s Concurrent=%d cause=%s k=%d dim=%d proxy=%v recorder=%v initValues=%v rows=%d GOMAXPROCS=%d pattern=%s",
		mc.idx, mc.batch, mc.method, mc.conc, mc.cause, mc.k, mc.dim, mc.proxy, mc.recorder, mc.initVals, mc.rows, mc.procs, mc.pattern)
}

func (mc *minCase) global() bool {
	return mc.method == "GuessAndCheck" || mc.method == "ListSearch" || mc.method == "CmaEsChol"
}

// minState is the goroutine-safe ledger of one Minimize call.
type minState struct {
	mc  *minCase
	a   []float64 // minimiser of the objective
	w   []float64 // curvatures
	pat *perturb

	mu          sync.Mutex
	funcCalls   int
	funcDone    int
	gradCalls   int
	hessCalls   int
	inflight    int
	maxInflight int
	argChanged  int
	vals        map[uint64][]uint64 // hash(x) -> F bits returned by Func for that x
	minF        float64             // minimum non-NaN value Func returned
	statusCalls int
	recs        []recEntry
	recInflight int
	recMaxInfl  int
	recErrGiven bool
	recErrOp    optimize.Operation
	statErrSeen bool
	clauses     map[string]string // protocol clause violated -> detail (first)
}

func (s *minState) clause(name, format string, args ...any) {
	s.mu.Lock()
	if _, ok := s.clauses[name]; !ok {
		s.clauses[name] = fmt.Sprintf(format, args...)
	}
	s.mu.Unlock()
}

func (s *minState) obj(x []float64) float64 {
	v := 1.0
	for i, xi := range x {
		d := xi - s.a[i]
		v += s.w[i] * d * d
	}
	return v
}

func (s *minState) objGrad(g, x []float64) {
	for i, xi := range x {
		g[i] = 2 * s.w[i] * (xi - s.a[i])
	}
}

func (s *minState) enter() {
	s.inflight++
	if s.inflight > s.maxInflight {
		s.maxInflight = s.inflight
	}
}

func (s *minState) Func(x []float64) float64 {
	key := hashFloats(x)
	if pure {
		statelessYield(key)
		return s.obj(x)
	}
	s.mu.Lock()
	s.funcCalls++
	seq := s.funcCalls
	s.enter()
	s.mu.Unlock()
	s.pat.at(key)
	v := s.obj(x)
	switch s.mc.cause {
	case "negInf":
		if seq == s.mc.k {
			v = math.Inf(-1)
		}
	case "nan":
		if seq >= s.mc.k {
			v = math.NaN()
		}
	}
	changed := hashFloats(x) != key
	s.mu.Lock()
	s.inflight--
	s.funcDone++
	s.vals[key] = append(s.vals[key], math.Float64bits(v))
	if v < s.minF {
		s.minF = v
	}
	if changed {
		s.argChanged++
	}
	s.mu.Unlock()
	return v
}

func (s *minState) Grad(g, x []float64) {
	key := hashFloats(x)
	if pure {
		s.objGrad(g, x)
		statelessYield(key ^ 0x55)
		return
	}
	s.mu.Lock()
	s.gradCalls++
	s.enter()
	s.mu.Unlock()
	s.objGrad(g, x)
	gk := hashFloats(g)
	s.pat.at(key ^ 0x55)
	changed := hashFloats(x) != key || hashFloats(g) != gk
	s.mu.Lock()
	s.inflight--
	if changed {
		s.argChanged++
	}
	s.mu.Unlock()
}

func (s *minState) Hess(h *mat.SymDense, x []float64) {
	key := hashFloats(x)
	if !pure {
		s.mu.Lock()
		s.hessCalls++
		s.enter()
		s.mu.Unlock()
	}
	n := len(x)
	for i := 0; i < n; i++ {
		for j := i; j < n; j++ {
			v := 0.0
			if i == j {
				v = 2 * s.w[i]
			}
			h.SetSym(i, j, v)
		}
	}
	if pure {
		statelessYield(key ^ 0xaa)
		return
	}
	s.pat.at(key ^ 0xaa)
	changed := hashFloats(x) != key
	s.mu.Lock()
	s.inflight--
	if changed {
		s.argChanged++
	}
	s.mu.Unlock()
}

func (s *minState) Status() (optimize.Status, error) {
	s.mu.Lock()
	s.statusCalls++
	n := s.statusCalls
	s.mu.Unlock()
	s.pat.at(uint64(n) ^ 0x77)
	switch s.mc.cause {
	case "statusStop":
		if n >= s.mc.k {
			return userStop, nil
		}
	case "statusErr":
		if n >= s.mc.k {
			s.mu.Lock()
			s.statErrSeen = true
			s.mu.Unlock()
			return optimize.Failure, errStatus
		}
	}
	return optimize.NotTerminated, nil
}

type minRecorder struct{ s *minState }

func (r minRecorder) Init() error {
	if r.s.mc.cause == "recInitErr" {
		return errRecIni
	}
	return nil
}

func (r minRecorder) Record(loc *optimize.Location, op optimize.Operation, st *optimize.Stats) error {
	s := r.s
	s.mu.Lock()
	s.recInflight++
	if s.recInflight > s.recMaxInfl {
		s.recMaxInfl = s.recInflight
	}
	s.recs = append(s.recs, recEntry{op: op, stats: *st, f: loc.F, funcDone: s.funcDone})
	n := len(s.recs)
	s.mu.Unlock()
	s.pat.at(uint64(n) ^ 0x99)
	var err error
	s.mu.Lock()
	s.recInflight--
	if s.mc.cause == "recErr" && n >= s.mc.k {
		if !s.recErrGiven {
			s.recErrGiven = true
			s.recErrOp = op
		}
		err = errRecord
	}
	s.mu.Unlock()
	return err
}

// ---- the protocol proxy ------------------------------------------------------------------------------

// sentEval is what the proxy remembers of an evaluation task it forwarded.
// Only the fields copied in the Task value are kept: the Location of a task
// that is never started may legitimately be reused by the method once result
// is closed (CmaEsChol does so with tasks[0]), so its contents must not be
// read here; they are read when the task comes back on result.
type sentEval struct {
	op optimize.Operation
	id int
}

type proxy struct {
	inner optimize.Method
	s     *minState

	mu           sync.Mutex
	nInit        int
	outstanding  map[*optimize.Location]sentEval // evaluations sent and not yet returned
	majorsOut    map[*optimize.Location]int      // MajorIterations sent and not yet echoed
	evalSent     int
	evalReturned int
	funcReturned int
	gradReturned int
	hessReturned int
	retKeys      map[uint64]int // multiset of X of returned Func evaluations
	postSeen     int
	majorsSent   int
	lastMajorF   float64
	lastMajorX   []float64
	methodDone   bool

	resultClosed atomic.Bool
	opClosed     atomic.Bool
	runReturned  atomic.Bool
	panicked     atomic.Bool
}

func (p *proxy) Init(dim, tasks int) int {
	n := p.inner.Init(dim, tasks)
	p.mu.Lock()
	p.nInit = n
	p.mu.Unlock()
	if n > tasks {
		p.s.clause("method-Init-returned-more-than-tasks", "Init(%d,%d) = %d", dim, tasks, n)
	}
	return n
}

func (p *proxy) Uses(has optimize.Available) (optimize.Available, error) { return p.inner.Uses(has) }

// Status implements optimize.Statuser. Minimize must not call it before Run
// has closed the operation channel.
func (p *proxy) Status() (optimize.Status, error) {
	if !p.opClosed.Load() {
		p.s.clause("Status-called-before-method-closed-operation", "Method.Status called while the operation channel was still open")
	}
	if p.panicked.Load() {
		return optimize.Failure, errMethodPanic
	}
	st, ok := p.inner.(optimize.Statuser)
	if !ok {
		p.s.clause("Status-called-on-non-Statuser", "Status called although the wrapped method is no Statuser")
		return optimize.Failure, nil
	}
	return st.Status()
}

func (p *proxy) Run(operation chan<- optimize.Task, result <-chan optimize.Task, tasks []optimize.Task) {
	p.mu.Lock()
	n := p.nInit
	p.mu.Unlock()
	if len(tasks) != n {
		p.s.clause("tasks-length-differs-from-Init", "len(tasks) = %d, Init returned %d", len(tasks), n)
	}
	if cap(operation) != n || cap(result) != n {
		p.s.clause("channel-buffer-differs-from-Init", "cap(operation) = %d, cap(result) = %d, Init returned %d", cap(operation), cap(result), n)
	}
	if len(tasks) > 0 && tasks[0].Location == nil {
		p.s.clause("initial-task-without-location", "tasks[0].Location == nil")
	}
	opIn := make(chan optimize.Task, n)
	resOut := make(chan optimize.Task, n)
	var wg sync.WaitGroup
	wg.Add(2)
	go func() {
		defer wg.Done()
		for t := range opIn {
			p.onOp(t)
			operation <- t
		}
		if !p.resultClosed.Load() {
			p.s.clause("method-closed-operation-before-result-was-closed", "the method closed operation although result had not been closed")
		}
		p.opClosed.Store(true)
		close(operation)
	}()
	go func() {
		defer wg.Done()
		for t := range result {
			p.onResult(t)
			resOut <- t
		}
		p.onResultClosed()
		p.resultClosed.Store(true)
		close(resOut)
	}()
	func() {
		// A panic in the method goroutine would kill the process. Record
		// it and finish the protocol on the method's behalf (read result
		// until it is closed, then close operation) so that Minimize
		// returns and the run goes on.
		defer func() {
			if r := recover(); r != nil {
				p.s.clause("method-goroutine-panicked", "Method.Run panicked: %v", r)
				p.panicked.Store(true)
				opIn <- optimize.Task{Op: optimize.MethodDone, Location: tasks[0].Location}
				for range resOut {
				}
				close(opIn)
			}
		}()
		p.inner.Run(opIn, resOut, tasks)
	}()
	p.runReturned.Store(true)
	wg.Wait()
}

func isEval(op optimize.Operation) bool {
	const mask = optimize.FuncEvaluation | optimize.GradEvaluation | optimize.HessEvaluation
	return op&mask != 0 && op&^mask == 0
}

func (p *proxy) onOp(t optimize.Task) {
	p.mu.Lock()
	defer p.mu.Unlock()
	switch {
	case isEval(t.Op):
		if t.Location == nil {
			p.s.clause("method-sent-evaluation-without-location", "op %v", t.Op)
			return
		}
		if _, dup := p.outstanding[t.Location]; dup {
			p.s.clause("method-sent-location-that-is-still-in-flight", "op %v id %d", t.Op, t.ID)
		}
		p.outstanding[t.Location] = sentEval{op: t.Op, id: t.ID}
		p.evalSent++
	case t.Op == optimize.MajorIteration:
		p.majorsSent++
		p.majorsOut[t.Location]++
		p.lastMajorF = t.F
		p.lastMajorX = append(p.lastMajorX[:0], t.X...)
	case t.Op == optimize.MethodDone:
		p.methodDone = true
	}
}

func (p *proxy) onResult(t optimize.Task) {
	p.mu.Lock()
	defer p.mu.Unlock()
	switch {
	case t.Op == optimize.PostIteration:
		p.postSeen++
		if p.postSeen > 1 {
			p.s.clause("second-PostIteration", "PostIteration was sent on result %d times", p.postSeen)
		}
	case isEval(t.Op):
		se, ok := p.outstanding[t.Location]
		if !ok {
			p.s.clause("evaluation-returned-that-was-not-outstanding", "an evaluation task (op %v, id %d) arrived on result that was never sent or had already been returned", t.Op, t.ID)
			return
		}
		delete(p.outstanding, t.Location)
		p.evalReturned++
		if se.op != t.Op || se.id != t.ID {
			p.s.clause("returned-task-Op-or-ID-modified", "sent op %v id %d, returned op %v id %d", se.op, se.id, t.Op, t.ID)
		}
		xkey := hashFloats(t.X)
		if t.Op&optimize.FuncEvaluation != 0 {
			p.funcReturned++
			p.retKeys[xkey]++
			fb := math.Float64bits(t.F)
			p.s.mu.Lock()
			found := false
			for _, b := range p.s.vals[xkey] {
				if b == fb {
					found = true
				}
			}
			p.s.mu.Unlock()
			if !found {
				p.s.clause("returned-F-is-not-what-Func-returned-for-X", "task came back with F = %v for X = %v, but Func never returned that value for that X", t.F, t.X)
			}
		}
		if t.Op&optimize.GradEvaluation != 0 {
			p.gradReturned++
			want := make([]float64, len(t.X))
			p.s.objGrad(want, t.X)
			if len(t.Gradient) != len(want) || hashFloats(want) != hashFloats(t.Gradient) {
				p.s.clause("returned-Gradient-is-not-Grad-of-X", "task came back with Gradient %v for X = %v, Grad gives %v", t.Gradient, t.X, want)
			}
		}
		if t.Op&optimize.HessEvaluation != 0 {
			p.hessReturned++
		}
	case t.Op == optimize.MajorIteration:
		if p.majorsOut[t.Location] <= 0 {
			p.s.clause("MajorIteration-echoed-that-was-not-sent", "a MajorIteration arrived on result that the method had not sent (or was echoed twice)")
			return
		}
		p.majorsOut[t.Location]--
	case t.Op == optimize.MethodDone:
		p.s.clause("MethodDone-echoed-on-result", "the MethodDone task was returned on result")
	}
}

func (p *proxy) onResultClosed() {
	p.mu.Lock()
	defer p.mu.Unlock()
	if p.postSeen != 1 {
		p.s.clause("result-closed-without-exactly-one-PostIteration", "result was closed after %d PostIteration tasks", p.postSeen)
	}
}

// ---- case construction -----------------------------------------------------------------------------------

type uniRander struct{ r *vrt.Rand }

func (u uniRander) Rand(x []float64) []float64 {
	for i := range x {
		x[i] = u.r.Uniform(-3, 3)
	}
	return x
}

var (
	minMethods = []string{"GuessAndCheck", "ListSearch", "CmaEsChol", "GuessAndCheck", "ListSearch", "CmaEsChol", "NelderMead", "BFGS", "LBFGS", "CG", "GradientDescent", "Newton"}
	gradCauses = map[string]bool{"gradLimit": true, "gradThresh": true}
)

func usesGrad(m string) bool {
	switch m {
	case "BFGS", "LBFGS", "CG", "GradientDescent", "Newton":
		return true
	}
	return false
}

var minCauses = []string{"funcLimit", "iterLimit", "runtime", "statusStop", "statusErr", "recErr", "recInitErr", "negInf", "nan", "converge", "gradLimit", "hessLimit", "gradThresh", "none"}

func buildMinCase(r *vrt.Rand, idx, batch, procs int) *minCase {
	mc := &minCase{idx: idx, batch: batch, procs: procs}
	mc.method = minMethods[r.Intn(len(minMethods))]
	for {
		mc.cause = minCauses[r.Intn(len(minCauses))]
		if gradCauses[mc.cause] && !usesGrad(mc.method) {
			continue
		}
		if mc.cause == "hessLimit" && mc.method != "Newton" {
			continue
		}
		break
	}
	mc.conc = r.Intn(9) // 0 (default) .. 8
	mc.dim = r.Range(1, 4)
	mc.proxy = r.Intn(3) != 0
	if mc.method == "ListSearch" && mc.cause == "nan" {
		// Up to /repo commit 6bb7add ListSearch panicked in its own goroutine
		// when the first value it saw was NaN; only the proxy can contain a
		// panic of the method goroutine, so this combination keeps using it.
		mc.proxy = true
	}
	mc.recorder = r.Bool() || mc.cause == "recErr" || mc.cause == "recInitErr"
	mc.initVals = !mc.global() && r.Intn(4) == 0
	switch mc.cause {
	case "funcLimit", "iterLimit", "gradLimit", "hessLimit":
		mc.k = r.Range(1, 30)
	case "statusStop", "statusErr", "recErr", "negInf", "nan":
		mc.k = r.Range(1, 20)
	}
	if pure {
		// No ledger, no proxy, no Status/Recorder callbacks: causes that need
		// call counting are replaced by the plain evaluation limit.
		mc.proxy, mc.recorder = false, false
		switch mc.cause {
		case "statusStop", "statusErr", "recErr", "recInitErr", "negInf", "nan":
			mc.cause = "funcLimit"
			mc.k = r.Range(1, 30)
		}
	}
	mc.rows = r.Range(1, 24)
	if mc.method == "ListSearch" && mc.cause != "converge" && mc.cause != "none" {
		// never exhaust the list before the cause (or the backstop) strikes
		mc.rows = minBackstop + 64
	}
	return mc
}

// minOutcome is what runMinCase hands to the checker.
type minOutcome struct {
	res      *optimize.Result
	err      error
	panicked *vrt.PanicInfo
	px       *proxy
	s        *minState
	settings *optimize.Settings
	locs     *mat.Dense
	pop      int // CmaEsChol population size
}

func runMinCase(c *vrt.Ctx, mc *minCase, r *vrt.Rand, allowSleep bool) *minOutcome {
	s := &minState{mc: mc, vals: map[uint64][]uint64{}, clauses: map[string]string{}, minF: math.Inf(1)}
	s.a = r.Floats(mc.dim, func() float64 { return r.Uniform(-2, 2) })
	s.w = r.Floats(mc.dim, func() float64 { return r.Uniform(0.5, 3) })
	s.pat = newPerturb(r, allowSleep)
	mc.pattern = patternNames[s.pat.pattern]
	out := &minOutcome{s: s}

	var method optimize.Method
	switch mc.method {
	case "GuessAndCheck":
		method = &optimize.GuessAndCheck{Rander: uniRander{vrt.NewRand(r.Uint64())}}
	case "ListSearch":
		out.locs = mat.NewDense(mc.rows, mc.dim, r.Floats(mc.rows*mc.dim, func() float64 { return r.Uniform(-3, 3) }))
		method = &optimize.ListSearch{Locs: out.locs}
	case "CmaEsChol":
		cm := &optimize.CmaEsChol{Src: vrt.NewRand(r.Uint64()), Population: r.PickInt(0, 0, 2, 5, 9), StopLogDet: math.NaN()}
		if mc.cause == "converge" {
			cm.StopLogDet = 1000 // any covariance is "too peaked": the first update declares MethodDone
		}
		out.pop = cm.Population
		if out.pop == 0 {
			out.pop = 4 + int(3*math.Log(float64(mc.dim)))
		}
		method = cm
	case "NelderMead":
		method = &optimize.NelderMead{}
	case "BFGS":
		method = &optimize.BFGS{}
	case "LBFGS":
		method = &optimize.LBFGS{}
	case "CG":
		method = &optimize.CG{}
	case "GradientDescent":
		method = &optimize.GradientDescent{}
	case "Newton":
		method = &optimize.Newton{}
	}
	if mc.proxy {
		out.px = &proxy{inner: method, s: s, outstanding: map[*optimize.Location]sentEval{}, majorsOut: map[*optimize.Location]int{}, retKeys: map[uint64]int{}}
		method = out.px
	}

	p := optimize.Problem{Func: s.Func}
	if usesGrad(mc.method) {
		p.Grad = s.Grad
	}
	if mc.method == "Newton" {
		p.Hess = s.Hess
	}
	if (mc.cause == "statusStop" || mc.cause == "statusErr" || r.Intn(4) == 0) && !pure {
		p.Status = s.Status
	}
	st := &optimize.Settings{Concurrent: mc.conc}
	if mc.global() && mc.cause != "none" {
		st.Converger = optimize.NeverTerminate{}
	}
	st.FuncEvaluations = minBackstop
	switch mc.cause {
	case "funcLimit":
		st.FuncEvaluations = mc.k
	case "gradLimit":
		st.GradEvaluations = mc.k
	case "hessLimit":
		st.HessEvaluations = mc.k
	case "iterLimit":
		st.MajorIterations = mc.k
	case "runtime":
		st.Runtime = time.Nanosecond
	case "gradThresh":
		st.GradientThreshold = 1e6
	}
	if mc.recorder {
		st.Recorder = minRecorder{s}
	}
	x0 := r.Floats(mc.dim, func() float64 { return r.Uniform(-3, 3) })
	if mc.initVals {
		iv := &optimize.Location{F: s.obj(x0)}
		if usesGrad(mc.method) && r.Bool() {
			iv.Gradient = make([]float64, mc.dim)
			s.objGrad(iv.Gradient, x0)
		}
		st.InitValues = iv
	}
	out.settings = st
	c.LastCase(mc.String())
	out.panicked = vrt.Try(func() { out.res, out.err = optimize.Minimize(p, x0, st, method) })
	return out
}

// ---- the per-case oracle -------------------------------------------------------------------------------------

func checkMinCase(c *vrt.Ctx, mc *minCase, o *minOutcome) {
	s := o.s
	path := mc.method
	if mc.conc > 1 {
		path += ",concurrent"
	} else {
		path += ",one-task"
	}
	base := "Minimize|" + path + "|"
	rp := map[string]any{"case": mc.String(), "a": s.a, "w": s.w}
	viol := func(clause, format string, args ...any) {
		c.Violationf(base+clause, rp, "%s: %s", mc, fmt.Sprintf(format, args...))
	}
	if o.panicked != nil {
		viol("panicked", "Minimize panicked: %s\n%s", o.panicked.Msg, o.panicked.Stack)
		return
	}
	if pure {
		// Only what Minimize itself reports can be checked without a ledger.
		if o.res == nil {
			viol("returned-nil-result", "Minimize returned a nil Result with error %v", o.err)
			return
		}
		if o.res.Status == optimize.NotTerminated {
			viol("returned-NotTerminated", "Minimize returned with Status NotTerminated (err %v)", o.err)
		}
		sl := mc.conc - 1
		if sl < 0 {
			sl = 0
		}
		if st := o.settings; st.FuncEvaluations > 0 && o.res.FuncEvaluations > st.FuncEvaluations+sl {
			viol("FuncEvaluations-limit-exceeded-beyond-slack", "Stats.FuncEvaluations %d, limit %d, Concurrent %d", o.res.FuncEvaluations, st.FuncEvaluations, mc.conc)
		}
		if (mc.method == "GuessAndCheck" || mc.method == "ListSearch") && o.res.FuncEvaluations > 0 && math.Float64bits(o.res.F) != math.Float64bits(s.obj(o.res.X)) {
			viol("result-F-is-not-f-of-result-X", "Result.F = %v but f(Result.X) = %v", o.res.F, s.obj(o.res.X))
		}
		return
	}
	s.mu.Lock()
	defer s.mu.Unlock()
	for name, detail := range s.clauses {
		if name == "method-goroutine-panicked" {
			viol(name, "%s", detail)
			continue
		}
		viol("protocol:"+name, "%s", detail)
	}
	if o.px != nil && o.px.panicked.Load() {
		return // the rest of the oracle presupposes a method that ran to completion
	}
	slack := mc.conc - 1
	if slack < 0 {
		slack = 0
	}
	if s.inflight != 0 {
		viol("callback-still-running-after-return", "%d evaluations were still running when Minimize returned", s.inflight)
	}
	nmax := mc.conc
	if nmax < 1 {
		nmax = 1
	}
	if s.maxInflight > nmax {
		viol("more-simultaneous-evaluations-than-Concurrent", "%d evaluations ran at once, Settings.Concurrent = %d", s.maxInflight, mc.conc)
	}
	if s.argChanged > 0 {
		viol("argument-buffer-changed-during-callback", "in %d calls the x (or gradient) buffer handed to a Problem function changed while it was running", s.argChanged)
	}
	if s.recMaxInfl > 1 {
		viol("Recorder-called-concurrently", "%d Record calls were running at once", s.recMaxInfl)
	}

	// Early failures: (nil, err).
	if o.res == nil {
		switch {
		case mc.cause == "recInitErr" && o.err == errRecIni:
		case mc.cause == "statusErr" && mc.k == 1 && o.err == errStatus:
		case mc.cause == "recErr" && mc.k == 1 && o.err == errRecord:
		default:
			viol("returned-nil-result", "Minimize returned a nil Result with error %v", o.err)
		}
		if s.funcCalls != 0 {
			viol("evaluations-before-failed-initialisation", "Func was called %d times although Minimize failed during initialisation", s.funcCalls)
		}
		return
	}
	res := o.res
	if mc.cause == "recInitErr" || (mc.cause == "statusErr" && mc.k == 1) || (mc.cause == "recErr" && mc.k == 1) {
		viol("initialisation-error-ignored", "cause %s must make Minimize return (nil, err); got status %v err %v", mc.cause, res.Status, o.err)
	}

	// Stats == ledger (every started evaluation is returned and counted exactly once).
	if res.FuncEvaluations != s.funcCalls {
		viol("Stats.FuncEvaluations-differs-from-ledger", "Stats.FuncEvaluations = %d, Func was called %d times", res.FuncEvaluations, s.funcCalls)
	}
	if res.GradEvaluations != s.gradCalls {
		viol("Stats.GradEvaluations-differs-from-ledger", "Stats.GradEvaluations = %d, Grad was called %d times", res.GradEvaluations, s.gradCalls)
	}
	if res.HessEvaluations != s.hessCalls {
		viol("Stats.HessEvaluations-differs-from-ledger", "Stats.HessEvaluations = %d, Hess was called %d times", res.HessEvaluations, s.hessCalls)
	}
	// Limits up to the documented slack.
	st := o.settings
	if st.FuncEvaluations > 0 && s.funcCalls > st.FuncEvaluations+slack {
		viol("FuncEvaluations-limit-exceeded-beyond-slack", "Func called %d times, limit %d, Concurrent %d", s.funcCalls, st.FuncEvaluations, mc.conc)
	}
	if st.GradEvaluations > 0 && s.gradCalls > st.GradEvaluations+slack {
		viol("GradEvaluations-limit-exceeded-beyond-slack", "Grad called %d times, limit %d, Concurrent %d", s.gradCalls, st.GradEvaluations, mc.conc)
	}
	if st.HessEvaluations > 0 && s.hessCalls > st.HessEvaluations+slack {
		viol("HessEvaluations-limit-exceeded-beyond-slack", "Hess called %d times, limit %d, Concurrent %d", s.hessCalls, st.HessEvaluations, mc.conc)
	}
	if st.MajorIterations > 0 && res.MajorIterations > st.MajorIterations+slack {
		viol("MajorIterations-limit-exceeded-beyond-slack", "%d major iterations, limit %d, Concurrent %d", res.MajorIterations, st.MajorIterations, mc.conc)
	}
	if res.Status == optimize.NotTerminated {
		viol("returned-NotTerminated", "Minimize returned with Status NotTerminated (err %v)", o.err)
	}
	// A limit status must be backed by the counter.
	switch res.Status {
	case optimize.FunctionEvaluationLimit:
		if st.FuncEvaluations <= 0 || s.funcCalls < st.FuncEvaluations {
			viol("limit-status-without-limit-reached", "FunctionEvaluationLimit with %d calls, limit %d", s.funcCalls, st.FuncEvaluations)
		}
	case optimize.GradientEvaluationLimit:
		if st.GradEvaluations <= 0 || s.gradCalls < st.GradEvaluations {
			viol("limit-status-without-limit-reached", "GradientEvaluationLimit with %d calls, limit %d", s.gradCalls, st.GradEvaluations)
		}
	case optimize.HessianEvaluationLimit:
		if st.HessEvaluations <= 0 || s.hessCalls < st.HessEvaluations {
			viol("limit-status-without-limit-reached", "HessianEvaluationLimit with %d calls, limit %d", s.hessCalls, st.HessEvaluations)
		}
	case optimize.IterationLimit:
		if st.MajorIterations <= 0 || res.MajorIterations < st.MajorIterations {
			viol("limit-status-without-limit-reached", "IterationLimit with %d iterations, limit %d", res.MajorIterations, st.MajorIterations)
		}
	}

	// Expected status / error per cause (only where the cause is the only
	// possible reason to stop: the global methods with NeverTerminate).
	wantErr := error(nil)
	switch {
	case s.statErrSeen:
		wantErr = errStatus
	case s.recErrGiven:
		wantErr = errRecord
	}
	if mc.global() {
		if o.err != wantErr {
			viol("wrong-error-returned", "Minimize returned error %v, want %v (cause %s)", o.err, wantErr, mc.cause)
		}
	} else if (o.err == errStatus && !s.statErrSeen) || (o.err == errRecord && !s.recErrGiven) || o.err == errRecIni {
		// Local methods may stop with their own error first; but an error of
		// a callback must not be reported unless the callback returned it.
		viol("callback-error-returned-that-no-callback-gave", "Minimize returned error %v (cause %s)", o.err, mc.cause)
	}
	if mc.global() {
		want := optimize.NotTerminated
		switch mc.cause {
		case "funcLimit":
			want = optimize.FunctionEvaluationLimit
		case "iterLimit":
			want = optimize.IterationLimit
		case "runtime":
			want = optimize.RuntimeLimit
		case "statusStop":
			want = userStop
		case "statusErr":
			want = optimize.Failure
		case "negInf":
			want = optimize.FunctionNegativeInfinity
		case "recErr":
			if s.recErrGiven && s.recErrOp != optimize.PostIteration {
				want = optimize.Failure
			} else {
				want = optimize.FunctionEvaluationLimit
			}
		case "converge":
			if mc.method != "GuessAndCheck" {
				want = optimize.MethodConverge
			} else {
				want = optimize.FunctionEvaluationLimit
			}
		case "nan":
			if mc.method == "GuessAndCheck" {
				want = optimize.FunctionEvaluationLimit
			}
		}
		// The backstop may strike first when the cause cannot.
		if want != optimize.NotTerminated && res.Status != want {
			backstopOK := res.Status == optimize.FunctionEvaluationLimit && s.funcCalls >= minBackstop && mc.cause != "funcLimit"
			// CmaEsChol only looks at its population once it is complete; a
			// -Inf value is then reported, unless the backstop came first.
			if !backstopOK {
				viol("wrong-status-for-"+mc.cause, "Status = %v, want %v", res.Status, want)
			}
		}
	}

	// Best of the evaluated set (order-independent methods).
	if (mc.method == "GuessAndCheck" || mc.method == "ListSearch") && s.funcCalls > 0 {
		if math.IsInf(s.minF, 1) && (math.IsNaN(res.F) || math.IsInf(res.F, 1)) {
			// every evaluation returned NaN (or +Inf): there is no best
			// point; +Inf (nothing accepted) and NaN (a NaN point) are both
			// admissible reports.
		} else if math.Float64bits(res.F) != math.Float64bits(s.minF) {
			viol("result-F-is-not-the-minimum-of-the-evaluated-set", "Result.F = %v, minimum value returned by Func over %d calls = %v", res.F, s.funcCalls, s.minF)
		} else if !math.IsInf(s.minF, 1) {
			ok := false
			for _, b := range s.vals[hashFloats(res.X)] {
				if b == math.Float64bits(res.F) {
					ok = true
				}
			}
			if !ok {
				viol("result-X-was-not-evaluated-to-F", "Result.X = %v was never evaluated to Result.F = %v", res.X, res.F)
			}
		}
	}
	// CmaEsChol (ForgetBest unset) reports the best sample over all
	// populations. Runs that stop inside the FIRST population are left to C19
	// (before /repo commit 6ac559f fs was not initialised there and
	// unevaluated slots counted as 0); once
	// a population has been completed, every slot is reset to NaN and the
	// result must be the minimum of the evaluated set, evaluated at Result.X -
	// whatever the order in which the workers delivered the values.
	if mc.method == "CmaEsChol" && mc.cause != "nan" && s.funcCalls >= o.pop+nmax && res.MajorIterations > 0 {
		if math.Float64bits(res.F) != math.Float64bits(s.minF) {
			viol("result-F-is-not-the-minimum-of-the-evaluated-set", "Result.F = %v, minimum value returned by Func over %d calls = %v (population %d)", res.F, s.funcCalls, s.minF, o.pop)
		} else {
			ok := false
			for _, b := range s.vals[hashFloats(res.X)] {
				if b == math.Float64bits(res.F) {
					ok = true
				}
			}
			if !ok {
				viol("result-X-was-not-evaluated-to-F", "Result.X = %v was never evaluated to Result.F = %v", res.X, res.F)
			}
		}
	}
	if mc.method == "ListSearch" && res.Status == optimize.MethodConverge && o.locs != nil {
		rows, _ := o.locs.Dims()
		want := map[uint64]int{}
		for i := 0; i < rows; i++ {
			want[hashFloats(o.locs.RawRowView(i))]++
		}
		bad := len(want) != len(s.vals)
		for k, n := range want {
			if len(s.vals[k]) != n {
				bad = true
			}
		}
		if bad {
			viol("ListSearch-converged-without-evaluating-every-row-once", "%d rows, %d Func calls", rows, s.funcCalls)
		}
	}

	// Recorder ledger.
	if mc.recorder && len(s.recs) > 0 {
		if s.recs[0].op != optimize.InitIteration {
			viol("first-record-is-not-InitIteration", "first Record had op %v", s.recs[0].op)
		}
		nInit, nPost := 0, 0
		var prev optimize.Stats
		for i, e := range s.recs {
			switch e.op {
			case optimize.InitIteration:
				nInit++
			case optimize.PostIteration:
				nPost++
			}
			if e.stats.FuncEvaluations < prev.FuncEvaluations || e.stats.MajorIterations < prev.MajorIterations || e.stats.GradEvaluations < prev.GradEvaluations {
				viol("recorded-Stats-not-monotone", "record %d has stats %+v after %+v", i, e.stats, prev)
			}
			if e.stats.FuncEvaluations > e.funcDone {
				viol("recorded-Stats-count-evaluations-that-had-not-finished", "record %d reports %d function evaluations, only %d had completed", i, e.stats.FuncEvaluations, e.funcDone)
			}
			prev = e.stats
		}
		if nInit != 1 {
			viol("InitIteration-not-recorded-exactly-once", "%d InitIteration records", nInit)
		}
		last := s.recs[len(s.recs)-1]
		if o.err == nil && (nPost != 1 || last.op != optimize.PostIteration) {
			viol("PostIteration-not-recorded-exactly-once-at-the-end", "%d PostIteration records, last op %v", nPost, last.op)
		}
		if o.err == nil && last.op == optimize.PostIteration && math.Float64bits(last.f) != math.Float64bits(res.F) {
			viol("PostIteration-record-differs-from-Result", "recorded F %v, Result.F %v", last.f, res.F)
		}
	}

	// Proxy accounting after the run.
	if px := o.px; px != nil {
		px.mu.Lock()
		// (Method.Run itself may still be returning: Minimize does not wait for it.)
		if !px.opClosed.Load() || !px.resultClosed.Load() {
			viol("protocol:Minimize-returned-before-the-channels-were-closed", "operation closed %v, result closed %v", px.opClosed.Load(), px.resultClosed.Load())
		}
		if px.funcReturned != s.funcCalls || px.gradReturned != s.gradCalls || px.hessReturned != s.hessCalls {
			viol("protocol:started-evaluations-not-returned-exactly-once", "Func/Grad/Hess called %d/%d/%d times, %d/%d/%d evaluation results were returned to the method",
				s.funcCalls, s.gradCalls, s.hessCalls, px.funcReturned, px.gradReturned, px.hessReturned)
		} else {
			bad := len(px.retKeys) != len(s.vals)
			for k, n := range px.retKeys {
				if len(s.vals[k]) != n {
					bad = true
				}
			}
			if bad {
				viol("protocol:returned-evaluations-are-not-the-evaluated-points", "the multiset of X of returned evaluations differs from the multiset of points Func was called with")
			}
		}
		if px.methodDone && px.postSeen == 0 {
			viol("protocol:MethodDone-did-not-trigger-PostIteration", "the method declared MethodDone but no PostIteration was sent")
		}
		if px.majorsSent > 0 && o.err == nil {
			if math.Float64bits(px.lastMajorF) != math.Float64bits(res.F) || hashFloats(px.lastMajorX) != hashFloats(res.X) {
				viol("protocol:last-MajorIteration-not-reflected-in-Result", "the last MajorIteration the method sent had F = %v, X = %v; Result has F = %v, X = %v (%d majors sent, %d counted)",
					px.lastMajorF, px.lastMajorX, res.F, res.X, px.majorsSent, res.MajorIterations)
			}
		}
		if px.majorsSent != res.MajorIterations {
			viol("protocol:MajorIterations-sent-differ-from-Stats", "the method sent %d MajorIterations, Stats.MajorIterations = %d", px.majorsSent, res.MajorIterations)
		}
		px.mu.Unlock()
	}
}

// ---- driver ------------------------------------------------------------------------------------------------------

var minYield atomic.Pointer[perturb]

func minYieldHook(site string) {
	if p := minYield.Load(); p != nil {
		p.at(hashStr(site))
	}
}

func runMinimize(c *vrt.Ctx, race bool) {
	batches, per := c.Pick(48, 360), c.Pick(96, 128)
	if race {
		batches, per = c.Pick(10, 120), c.Pick(48, 96)
	}
	setYieldHook(minYieldHook)
	defer setYieldHook(nil)
	prev := runtime.GOMAXPROCS(0)
	defer runtime.GOMAXPROCS(prev)
	procs := []int{16, 4, 2, 16, 8, 1}
	var total, withProxy atomic.Int64
	statuses := sync.Map{}
	causeCount := sync.Map{}
	hiInflight := atomic.Int64{}
	leaked := false
	for b := 0; b < batches; b++ {
		p := procs[b%len(procs)]
		runtime.GOMAXPROCS(p)
		br := c.RNG("min-batch", b)
		yp := newPerturb(br, false)
		if !pure {
			minYield.Store(yp)
		}
		before := vrt.SnapshotGoroutines()
		vrt.Parallel(per, func(i int) {
			idx := b*per + i
			r := c.RNG("min-case", idx)
			mc := buildMinCase(r, idx, b, p)
			o := runMinCase(c, mc, r, true)
			checkMinCase(c, mc, o)
			total.Add(1)
			if mc.proxy {
				withProxy.Add(1)
			}
			o.s.mu.Lock()
			nf := o.s.funcCalls
			mi := int64(o.s.maxInflight)
			o.s.mu.Unlock()
			if pure && o.res != nil {
				nf = o.res.FuncEvaluations
			}
			for {
				cur := hiInflight.Load()
				if mi <= cur || hiInflight.CompareAndSwap(cur, mi) {
					break
				}
			}
			concCls := "1"
			if mc.conc > 1 {
				concCls = fmt.Sprint(mc.conc)
			}
			c.Eval(fmt.Sprintf("Minimize|%s|%s|C=%s|proxy=%v|P=%d", mc.method, mc.cause, concCls, mc.proxy, p), nf > 0)
			if o.res != nil {
				k := mc.cause + "->" + o.res.Status.String()
				v, _ := statuses.LoadOrStore(k, new(atomic.Int64))
				v.(*atomic.Int64).Add(1)
			}
			v, _ := causeCount.LoadOrStore(mc.method+"/"+mc.cause, new(atomic.Int64))
			v.(*atomic.Int64).Add(1)
			if c.WantSample() && i == 3 && o.res != nil {
				c.Sample(map[string]any{"sub": "minimize", "case": mc.String(), "status": o.res.Status.String(), "F": o.res.F, "func_calls": nf, "stats": fmt.Sprintf("%+v", o.res.Stats)})
			}
		})
		minYield.Store(nil)
		c.LastCase(fmt.Sprintf("Minimize leak check after batch %d", b))
		if sites := leakSites(before, leakWait); sites != nil && !leaked {
			leaked = true
			for _, s := range sites {
				c.Violationf("goroutine-leak|Minimize|"+s, map[string]any{"batch": b, "cases": []int{b * per, b*per + per - 1}, "GOMAXPROCS": p},
					"after batch %d (cases %d..%d) goroutines created by %s were still alive %v after the last Minimize returned", b, b*per, b*per+per-1, s, leakWait)
			}
		}
		c.Count("minimize.yield_hook_yields", yp.yields.Load())
	}
	runtime.GOMAXPROCS(prev)
	c.Count("minimize.cases", total.Load())
	c.Count("minimize.cases_with_protocol_proxy", withProxy.Load())
	c.Note("minimize.max_simultaneous_evaluations_seen", hiInflight.Load())
	sm := map[string]int64{}
	statuses.Range(func(k, v any) bool { sm[k.(string)] = v.(*atomic.Int64).Load(); return true })
	keys := make([]string, 0, len(sm))
	for k := range sm {
		keys = append(keys, k)
	}
	sort.Strings(keys)
	var list []string
	for _, k := range keys {
		list = append(list, fmt.Sprintf("%s:%d", k, sm[k]))
	}
	c.Note("minimize.cause_to_status_counts", list)
	nmc := 0
	causeCount.Range(func(k, v any) bool { nmc++; return true })
	c.Note("minimize.method_cause_pairs_exercised", nmc)
	runMinimizeTies(c, race)
}
