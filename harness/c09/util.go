package main

import (
	"hash/fnv"
	"math"
	"runtime"
	"sort"
	"strings"
	"sync/atomic"
	"time"

	"gonum.org/v1/gonum/verifx/vrt"
)

const u64 = 1.1102230246251565e-16 // unit roundoff of float64, 2^-53
const u32 = 5.9604644775390625e-08 // unit roundoff of float32, 2^-24

func mix(x uint64) uint64 {
	x += 0x9e3779b97f4a7c15
	x = (x ^ (x >> 30)) * 0xbf58476d1ce4e5b9
	x = (x ^ (x >> 27)) * 0x94d049bb133111eb
	return x ^ (x >> 31)
}

func hashStr(s string) uint64 {
	h := fnv.New64a()
	h.Write([]byte(s))
	return h.Sum64()
}

// hashWords folds words into one 64-bit digest (order dependent).
func hashWords(ws ...uint64) uint64 {
	h := uint64(0xcbf29ce484222325)
	for _, w := range ws {
		h = mix(h ^ w)
	}
	return h
}

func bitsOf(s []float64) []uint64 {
	b := make([]uint64, len(s))
	for i, v := range s {
		b[i] = math.Float64bits(v)
	}
	return b
}

func hashFloats(s []float64) uint64 {
	h := uint64(len(s)) + 0x1234
	for _, v := range s {
		h = mix(h ^ math.Float64bits(v))
	}
	return h
}

// Perturbation patterns (schedule diversity, DESIGN I6). A perturb value is
// immutable apart from its atomic call counter, so it may be shared by all
// goroutines of a case.
const (
	pNone     = iota // never yield
	pEvery           // runtime.Gosched at every site
	pBursty          // a burst of yields on ~1 call in 8
	pSlowOne         // calls whose key hashes to class 0 are slow (spin/sleep), others run free
	pSpin            // short busy spins of varying length at every site
	pPatterns        // number of patterns
)

var patternNames = [pPatterns]string{"none", "every", "bursty", "slow-one", "spin"}

type perturb struct {
	pattern int
	seed    uint64
	sleep   bool // pSlowOne may use time.Sleep (creates a short-lived timer)
	n       atomic.Uint64
	yields  atomic.Int64
}

func newPerturb(r *vrt.Rand, allowSleep bool) *perturb {
	return &perturb{pattern: r.Intn(pPatterns), seed: r.Uint64(), sleep: allowSleep && r.Bool()}
}

var spinSink atomic.Uint64

func spin(n int) {
	x := uint64(n)
	for i := 0; i < n; i++ {
		x = x*6364136223846793005 + 1442695040888963407
	}
	if x == 42 {
		spinSink.Add(1)
	}
}

// at perturbs the calling goroutine. key identifies the site or the worker
// (for pSlowOne the slowness is a function of the key only, so that one
// worker / one site is consistently slow).
func (p *perturb) at(key uint64) {
	if p == nil {
		return
	}
	n := p.n.Add(1)
	h := mix(p.seed ^ mix(n) ^ key)
	switch p.pattern {
	case pNone:
	case pEvery:
		runtime.Gosched()
		p.yields.Add(1)
	case pBursty:
		if h&7 == 0 {
			k := int(h>>8)%6 + 2
			for i := 0; i < k; i++ {
				runtime.Gosched()
			}
			p.yields.Add(int64(k))
		}
	case pSlowOne:
		if mix(p.seed^key)%4 == 0 {
			if p.sleep {
				time.Sleep(time.Duration(20+h%60) * time.Microsecond)
			} else {
				spin(2000 + int(h%6000))
				runtime.Gosched()
			}
			p.yields.Add(1)
		}
	case pSpin:
		spin(int(h % 3000))
		if h&3 == 0 {
			runtime.Gosched()
			p.yields.Add(1)
		}
	}
}

// statelessYield perturbs the schedule as a pure function of key: it touches
// no shared state (not even an atomic), so it adds no happens-before edge.
func statelessYield(key uint64) {
	h := mix(key)
	switch h & 7 {
	case 0, 1:
		runtime.Gosched()
	case 2:
		spin(int(h>>8) % 4000)
	case 3:
		spin(int(h>>8) % 1000)
		runtime.Gosched()
	}
}

// shortSite turns a goroutine creation site into a signature component.
func shortSite(site string) string {
	site = strings.TrimPrefix(site, "gonum.org/v1/gonum/")
	if i := strings.Index(site, ".func"); i >= 0 {
		site = site[:i]
	}
	return site
}

// leakSites polls for quiescence and returns the creation sites (shortened,
// sorted, distinct) of goroutines alive now in excess of before.
func leakSites(before vrt.GoroutineSnapshot, wait time.Duration) []string {
	extra := vrt.LeakedSince(before, wait)
	if len(extra) == 0 {
		return nil
	}
	set := map[string]bool{}
	for _, s := range extra {
		set[shortSite(s)] = true
	}
	out := make([]string, 0, len(set))
	for s := range set {
		out = append(out, s)
	}
	sort.Strings(out)
	return out
}

// leakWait is how long the leak monitor polls before it declares goroutines
// parked for good. The goroutines it waits for (fd workers after close(quit),
// the optimizer's method goroutine after Run closed operation) only need to be
// scheduled once to exit, so this is generous even on a loaded machine.
const leakWait = 20 * time.Second

// dot2 returns a compensated dot product sum_i a[i*inca]*b[i*incb] (Ogita,
// Rump, Oishi Dot2: result as if computed in twice the working precision)
// and the sum of |a_i*b_i|.
func dot2(n int, a []float64, inca int, b []float64, incb int) (s, abs float64) {
	var c float64
	for i := 0; i < n; i++ {
		x, y := a[i*inca], b[i*incb]
		p := x * y
		e := math.FMA(x, y, -p)
		t := s + p
		// two-sum
		bb := t - s
		e2 := (s - (t - bb)) + (p - bb)
		s = t
		c += e + e2
		abs += math.Abs(p)
	}
	return s + c, abs
}
