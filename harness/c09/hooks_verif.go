//go:build verif

package main

import (
	blasgonum "gonum.org/v1/gonum/blas/gonum"
	"gonum.org/v1/gonum/mat"
	"gonum.org/v1/gonum/optimize"
)

// hooksAvailable reports whether gonum was built with the verif hooks
// (H1 pool sanitizer, H2 optimizer yield points, H3 gemm block hook).
const hooksAvailable = true

func setBlockHook(f func(double bool, i, j, leni, lenj int)) { blasgonum.VerifSetBlockHook(f) }
func setYieldHook(f func(site string))                       { optimize.VerifSetYield(f) }
func poolPoison(on bool)                                     { mat.VerifPoolPoison(on) }
func poolReset()                                             { mat.VerifPoolReset() }
func isPoison(f float64) bool                                { return mat.VerifIsPoison(f) }

type poolSnap struct {
	gets, puts             int64
	outstanding, highWater int
	errors                 []string
}

func poolSnapshot() poolSnap {
	s := mat.VerifPoolSnapshot()
	p := poolSnap{outstanding: s.Outstanding, highWater: s.HighWater, errors: s.Errors}
	for i := range s.Gets {
		p.gets += s.Gets[i]
		p.puts += s.Puts[i]
	}
	return p
}
