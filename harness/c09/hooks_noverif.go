//go:build !verif

package main

// Without the verif tag gonum has no hooks: the monitor then runs "pure"
// (no sanitizer lock, no yield points), which is what the racepure variant
// wants: no synchronisation is added to the code under the race detector.
const hooksAvailable = false

func setBlockHook(f func(double bool, i, j, leni, lenj int)) {}
func setYieldHook(f func(site string))                       {}
func poolPoison(on bool)                                     {}
func poolReset()                                             {}
func isPoison(f float64) bool                                { return false }

type poolSnap struct {
	gets, puts             int64
	outstanding, highWater int
	errors                 []string
}

func poolSnapshot() poolSnap { return poolSnap{} }
