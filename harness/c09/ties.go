package main

import (
	"fmt"
	"math"
	"runtime"
	"sync"
	"sync/atomic"

	"gonum.org/v1/gonum/mat"
	"gonum.org/v1/gonum/optimize"
	"gonum.org/v1/gonum/verifx/vrt"
)

// ---- sub-check 3b: ties must not be decided by the scheduler -------------------------------------------
//
// Smooth objectives never produce two samples with the same value, so "the
// best of the evaluated set" is unique and any order of arrival of the
// workers' results gives the same answer. Here the objectives tie on purpose
// (plateau, quantised, constant, +Inf outside a box) and the multi-task
// methods are run with the same seeded source serially and with
// Settings.Concurrent 2..8 under perturbed schedules:
//
//   CmaEsChol (with and without ForgetBest), stopped at a generation boundary
//   (iteration limit or method convergence): samples are drawn in a fixed
//   order and stored by sample ID, so the whole Result (X bits, F, status,
//   counters) must equal the serial run's.
//   ListSearch run to exhaustion: the evaluated set is the whole list, so
//   Result.X/F must equal the serial run's.
//   GuessAndCheck: the evaluated set itself legitimately depends on the
//   schedule (limits have Concurrent-1 slack), so the requirement is the
//   answer a serial run over the SAME evaluated points gives: among the
//   evaluated points of minimal value, the one drawn first.

type tieObjective struct {
	name string
	f    func(x []float64) float64
}

func tieObjectives(r *vrt.Rand, dim int) []tieObjective {
	a := r.Floats(dim, func() float64 { return r.Uniform(-1, 1) })
	smooth := func(x []float64) float64 {
		v := 1.0
		for i, xi := range x {
			d := xi - a[i]
			v += d * d
		}
		return v
	}
	norm2 := func(x []float64) float64 {
		var s float64
		for _, v := range x {
			s += v * v
		}
		return s
	}
	return []tieObjective{
		{"plateau", func(x []float64) float64 { return math.Max(0, norm2(x)-16) }},
		{"small-plateau", func(x []float64) float64 { return math.Max(0, norm2(x)-0.25) }},
		{"quantised", func(x []float64) float64 { return math.Floor(smooth(x)*2) / 2 }},
		{"constant", func(x []float64) float64 { return 3 }},
		{"inf-outside-box", func(x []float64) float64 {
			for _, v := range x {
				if math.Abs(v) > 0.75 {
					return math.Inf(1)
				}
			}
			return math.Floor(smooth(x))
		}},
		{"inf-everywhere-near-start", func(x []float64) float64 {
			if norm2(x) < 400 {
				return math.Inf(1)
			}
			return 1
		}},
	}
}

type tieResult struct {
	status optimize.Status
	f      float64
	x      []float64
	stats  optimize.Stats
	err    error
	calls  int64
	ties   bool // at least two evaluated points share the minimal value
}

func (a *tieResult) same(b *tieResult) bool {
	return a.status == b.status && math.Float64bits(a.f) == math.Float64bits(b.f) && hashFloats(a.x) == hashFloats(b.x) &&
		a.stats.FuncEvaluations == b.stats.FuncEvaluations && a.stats.MajorIterations == b.stats.MajorIterations && (a.err == nil) == (b.err == nil)
}

func (a *tieResult) String() string {
	return fmt.Sprintf("status=%v F=%v X=%v evals=%d majors=%d err=%v", a.status, a.f, a.x, a.stats.FuncEvaluations, a.stats.MajorIterations, a.err)
}

// tieLedger records (only outside the pure mode) the value of every
// evaluated point and the order in which points were drawn.
type tieLedger struct {
	mu    sync.Mutex
	vals  map[uint64]float64
	draw  map[uint64]int
	ndraw int
}

type tieRander struct {
	r *vrt.Rand
	l *tieLedger
}

// Rand draws a uniform point and records the order of the draws.
func (t tieRander) Rand(x []float64) []float64 {
	for i := range x {
		x[i] = t.r.Uniform(-3, 3)
	}
	if t.l != nil {
		t.l.mu.Lock()
		k := hashFloats(x)
		if _, ok := t.l.draw[k]; !ok {
			t.l.draw[k] = t.l.ndraw
		}
		t.l.ndraw++
		t.l.mu.Unlock()
	}
	return x
}

type tieConfig struct {
	method     string // CmaEsChol | CmaEsChol-ForgetBest | ListSearch | GuessAndCheck
	dim        int
	obj        tieObjective
	pop        int
	iters      int // MajorIterations limit (0: method convergence)
	rows       int
	srcSeed    uint64
	x0         []float64
	locs       *mat.Dense
	stopLogDet float64
	// reuse: every run of the configuration uses the SAME Method value
	// (re-seeded source), after runs with other Concurrent settings, instead
	// of a fresh one: Init must reset it completely.
	reuse  bool
	stored optimize.Method
}

func (tc *tieConfig) methodValue() optimize.Method { return tc.stored }

func (tc *tieConfig) String() string {
	return fmt.Sprintf("%s objective=%s dim=%d population=%d MajorIterations=%d rows=%d source-seed=%#x method-value-reused=%v", tc.method, tc.obj.name, tc.dim, tc.pop, tc.iters, tc.rows, tc.srcSeed, tc.reuse)
}

// run executes one Minimize call of the configuration.
func (tc *tieConfig) run(conc int, salt uint64, withLedger bool) *tieResult {
	var led *tieLedger
	if withLedger {
		led = &tieLedger{vals: map[uint64]float64{}, draw: map[uint64]int{}}
	}
	var calls atomic.Int64
	f := func(x []float64) float64 {
		key := hashFloats(x)
		if salt != 0 {
			statelessYield(key ^ salt)
		}
		v := tc.obj.f(x)
		if led != nil {
			led.mu.Lock()
			led.vals[key] = v
			led.mu.Unlock()
		}
		if !pure {
			calls.Add(1)
		}
		return v
	}
	var method optimize.Method
	st := &optimize.Settings{Concurrent: conc, Converger: optimize.NeverTerminate{}, MajorIterations: tc.iters, FuncEvaluations: 5000}
	if tc.reuse && tc.method != "" && tc.methodValue() != nil {
		method = tc.methodValue()
		switch m := method.(type) {
		case *optimize.CmaEsChol:
			m.Src = vrt.NewRand(tc.srcSeed)
		case *optimize.GuessAndCheck:
			m.Rander = tieRander{vrt.NewRand(tc.srcSeed), led}
		}
	} else {
		switch tc.method {
		case "CmaEsChol", "CmaEsChol-ForgetBest":
			method = &optimize.CmaEsChol{Src: vrt.NewRand(tc.srcSeed), Population: tc.pop, StopLogDet: tc.stopLogDet, ForgetBest: tc.method == "CmaEsChol-ForgetBest"}
		case "ListSearch":
			method = &optimize.ListSearch{Locs: tc.locs}
		case "GuessAndCheck":
			method = &optimize.GuessAndCheck{Rander: tieRander{vrt.NewRand(tc.srcSeed), led}}
		}
		if tc.reuse {
			tc.stored = method
		}
	}
	res := &tieResult{}
	var r *optimize.Result
	p := vrt.Try(func() { r, res.err = optimize.Minimize(optimize.Problem{Func: f}, tc.x0, st, method) })
	if p != nil {
		res.err = fmt.Errorf("panic: %s", p.Msg)
		return res
	}
	if r == nil {
		return res
	}
	res.status, res.f, res.x, res.stats = r.Status, r.F, append([]float64(nil), r.X...), r.Stats
	res.calls = calls.Load()
	if led != nil {
		// The answer of a serial run over the same evaluated points: the
		// point of minimal value that was drawn first.
		led.mu.Lock()
		minF, n := math.Inf(1), 0
		for _, v := range led.vals {
			if v < minF {
				minF = v
			}
		}
		best, bestDraw := uint64(0), -1
		for k, v := range led.vals {
			if v == minF {
				n++
				if d := led.draw[k]; bestDraw < 0 || d < bestDraw {
					best, bestDraw = k, d
				}
			}
		}
		led.mu.Unlock()
		res.ties = n > 1
		res.stats.Runtime = 0
		if bestDraw >= 0 && (hashFloats(res.x) != best || math.Float64bits(res.f) != math.Float64bits(minF)) {
			res.err = fmt.Errorf("not-first-drawn-minimum: %d evaluated points tie at the minimum %v; the first drawn of them is draw #%d", n, minF, bestDraw)
		}
	}
	return res
}

func runMinimizeTies(c *vrt.Ctx, race bool) {
	nconf := c.Pick(72, 600)
	reps := c.Pick(2, 4)
	if race {
		nconf, reps = c.Pick(36, 160), c.Pick(1, 2)
	}
	methods := []string{"CmaEsChol", "CmaEsChol-ForgetBest", "ListSearch", "GuessAndCheck"}
	if pure {
		methods = methods[:3] // GuessAndCheck needs the ledger
	}
	prev := runtime.GOMAXPROCS(0)
	defer runtime.GOMAXPROCS(prev)
	var runs, differing, tied atomic.Int64
	for half, p := range []int{16, 4} {
		runtime.GOMAXPROCS(p)
		vrt.Parallel(nconf/2, func(i int) {
			ci := half*(nconf/2) + i
			r := c.RNG("tie-config", ci)
			tc := &tieConfig{method: methods[ci%len(methods)], dim: r.Range(1, 4)}
			objs := tieObjectives(r, tc.dim)
			tc.obj = objs[(ci/len(methods))%len(objs)]
			tc.srcSeed = r.Uint64() | 1
			tc.x0 = r.Floats(tc.dim, func() float64 { return r.Uniform(-1, 1) })
			tc.stopLogDet = math.NaN()
			tc.reuse = r.Bool()
			switch tc.method {
			case "CmaEsChol", "CmaEsChol-ForgetBest":
				tc.pop = r.PickInt(0, 6, 12)
				tc.iters = r.Range(1, 6)
				if r.Intn(5) == 0 {
					tc.iters, tc.stopLogDet = 0, 1000 // method convergence after the first generation
				}
			case "ListSearch":
				tc.rows = r.Range(2, 30)
				tc.locs = mat.NewDense(tc.rows, tc.dim, r.Floats(tc.rows*tc.dim, func() float64 { return r.Uniform(-3, 3) }))
			case "GuessAndCheck":
				tc.iters = r.Range(2, 40)
			}
			path := "Minimize|" + tc.method + ",concurrent,ties|"
			c.LastCase("tie check " + tc.String())
			serial := tc.run(1, 0, tc.method == "GuessAndCheck")
			runs.Add(1)
			c.Eval(fmt.Sprintf("Minimize-ties|%s|%s|serial", tc.method, tc.obj.name), true)
			if tc.method == "GuessAndCheck" && serial.err != nil {
				// The rule "first drawn among the minima" must describe the serial run, or the oracle is wrong.
				c.Inconclusive("minimize-ties", "serial GuessAndCheck does not follow the first-drawn-minimum rule: "+serial.err.Error()+" ("+tc.String()+")")
				return
			}
			for conc := 2; conc <= 8; conc++ {
				for rep := 0; rep < reps; rep++ {
					salt := mix(uint64(ci)<<16|uint64(conc)<<8|uint64(rep)) | 1
					got := tc.run(conc, salt, tc.method == "GuessAndCheck")
					runs.Add(1)
					c.Eval(fmt.Sprintf("Minimize-ties|%s|%s|C=%d|P=%d", tc.method, tc.obj.name, conc, p), true)
					rp := map[string]any{"config": tc.String(), "x0": tc.x0, "Concurrent": conc, "GOMAXPROCS": p, "serial": serial.String(), "concurrent": got.String()}
					if tc.method == "GuessAndCheck" {
						if got.ties {
							tied.Add(1)
						}
						if got.err != nil {
							differing.Add(1)
							c.Violationf(path+"tie-for-the-minimum-decided-by-completion-order", rp,
								"%s Concurrent=%d: Result %s; %v (a serial run over the same evaluated points reports that one: scheduling decided the tie)", tc, conc, got, got.err)
						}
						continue
					}
					if !got.same(serial) {
						differing.Add(1)
						c.Violationf(path+"result-differs-from-serial-run", rp,
							"%s: with Concurrent=%d the result is {%s}, the serial run with the same source gives {%s}; the evaluated samples are the same, so only the order of completion can have decided", tc, conc, got, serial)
					}
				}
			}
			if c.WantSample() && i == 1 {
				c.Sample(map[string]any{"sub": "minimize-ties", "config": tc.String(), "serial": serial.String()})
			}
		})
	}
	runtime.GOMAXPROCS(prev)
	c.Count("minimize_ties.runs", runs.Load())
	c.Count("minimize_ties.runs_differing", differing.Load())
	c.Count("minimize_ties.guessandcheck_runs_with_tied_minimum", tied.Load())
}
