package main

import (
	"fmt"
	"math"
	"os"
	"path/filepath"
	"runtime"
	"strings"
	"sync"

	"gonum.org/v1/gonum/diff/fd"
	"gonum.org/v1/gonum/integrate/quad"
	"gonum.org/v1/gonum/mat"
	"gonum.org/v1/gonum/verifx/vrt"
)

// ---- sub-check 2: quad.Fixed and diff/fd under concurrency ------------------------------------
//
// Every user callback handed to gonum is wrapped in a ledger that records the
// multiset of evaluation points, the number of simultaneously running calls,
// and whether the argument buffers stayed unchanged while the callback was
// running (a worker sharing its x/y scratch with another worker would change
// them under the callback's feet).

type callLedger struct {
	mu          sync.Mutex
	pts         map[uint64]int
	calls       int
	inflight    int
	maxInflight int
	argChanged  int
	p           *perturb
	pure        bool // record nothing, take no lock (racepure mode)
}

func newLedger(p *perturb) *callLedger { return &callLedger{pts: map[uint64]int{}, p: p} }

func (l *callLedger) begin(key uint64) {
	if l.pure {
		statelessYield(key)
		return
	}
	l.mu.Lock()
	l.pts[key]++
	l.calls++
	l.inflight++
	if l.inflight > l.maxInflight {
		l.maxInflight = l.inflight
	}
	l.mu.Unlock()
	l.p.at(key)
}

func (l *callLedger) end(changed bool) {
	if l.pure {
		return
	}
	l.mu.Lock()
	l.inflight--
	if changed {
		l.argChanged++
	}
	l.mu.Unlock()
}

func (l *callLedger) sameMultiset(o *callLedger) bool {
	if len(l.pts) != len(o.pts) {
		return false
	}
	for k, n := range l.pts {
		if o.pts[k] != n {
			return false
		}
	}
	return true
}

// sameMultisetExcept compares the point multisets of a and b, ignoring key
// in a when skip is set.
func sameMultisetExcept(a, b *callLedger, key uint64, skip bool) bool {
	na := len(a.pts)
	if _, ok := a.pts[key]; ok && skip {
		na--
	}
	if na != len(b.pts) {
		return false
	}
	for k, n := range a.pts {
		if skip && k == key {
			continue
		}
		if b.pts[k] != n {
			return false
		}
	}
	return true
}

// scalar wraps a pure func(float64) float64.
func (l *callLedger) scalar(f func(float64) float64) func(float64) float64 {
	return func(x float64) float64 {
		l.begin(math.Float64bits(x))
		v := f(x)
		l.end(false)
		return v
	}
}

// vector wraps a pure func([]float64) float64.
func (l *callLedger) vector(f func([]float64) float64) func([]float64) float64 {
	return func(x []float64) float64 {
		key := hashFloats(x)
		l.begin(key)
		v := f(x)
		l.end(hashFloats(x) != key)
		return v
	}
}

// ---- quad.Fixed ---------------------------------------------------------------------------------

// plainRule hides FixedLocationSingle of a rule so that the FixedLocations
// branch of quad.Fixed is taken.
type plainRule struct{ r quad.FixedLocationer }

func (p plainRule) FixedLocations(x, w []float64, min, max float64) {
	p.r.FixedLocations(x, w, min, max)
}

// trapezoid is a user-defined FixedLocationSingler.
type trapezoid struct{}

func (trapezoid) FixedLocationSingle(n, k int, min, max float64) (x, w float64) {
	if n == 1 {
		return (min + max) / 2, max - min
	}
	h := (max - min) / float64(n-1)
	w = h
	if k == 0 || k == n-1 {
		w = h / 2
	}
	return min + float64(k)*h, w
}

func (t trapezoid) FixedLocations(x, w []float64, min, max float64) {
	for k := range x {
		x[k], w[k] = t.FixedLocationSingle(len(x), k, min, max)
	}
}

func quadF(x float64) float64 {
	return math.Exp(-x*x/3)*(1+0.3*math.Sin(5*x)) - 0.2*math.Exp(-math.Abs(x))
}

type quadCase struct {
	name     string
	min, max float64
	rule     quad.FixedLocationer
	singler  bool
}

func quadCases() []quadCase {
	inf := math.Inf(1)
	return []quadCase{
		{"nil-rule,finite", -1.5, 2.25, nil, true},
		{"nil-rule,-inf..inf", -inf, inf, nil, true},
		{"nil-rule,a..inf", 0.5, inf, nil, true},
		{"nil-rule,-inf..b", -inf, 1.25, nil, true},
		{"Legendre", -3, 0.5, quad.Legendre{}, true},
		{"Legendre-locations-only", -3, 0.5, plainRule{quad.Legendre{}}, false},
		{"Hermite", -inf, inf, quad.Hermite{}, false},
		{"user-singler", 0, 4, trapezoid{}, true},
	}
}

func concClass(conc int) string {
	switch {
	case conc <= 0:
		return "serial"
	case conc == 1:
		return "one-worker"
	}
	return "concurrent"
}

func runQuad(c *vrt.Ctx, race bool) {
	ns := []int{1, 2, 3, 5, 8, 17, 64}
	reps := c.Pick(2, 12)
	if race {
		ns = []int{1, 3, 8, 17}
		reps = c.Pick(1, 8)
	}
	procs := []int{16, 4, 2, 1}
	prev := runtime.GOMAXPROCS(0)
	defer runtime.GOMAXPROCS(prev)
	var calls, evals int64
	maxRatio := 0.0
	hiInflight := 0
	leaked := false
	for rep := 0; rep < reps; rep++ {
		p := procs[rep%len(procs)]
		runtime.GOMAXPROCS(p)
		for qi, qc := range quadCases() {
			for _, n := range ns {
				// serial reference
				l0 := newLedger(nil)
				v0 := quad.Fixed(l0.scalar(quadF), qc.min, qc.max, n, qc.rule, 0)
				sumAbs := quad.Fixed(func(x float64) float64 { return math.Abs(quadF(x)) }, qc.min, qc.max, n, qc.rule, 0)
				base := "quad.Fixed|"
				kind := "locations"
				if qc.singler {
					kind = "singler"
				}
				if l0.calls != n {
					c.Violationf(base+"serial,"+kind+"|f-evaluated-wrong-number-of-times", map[string]any{"rule": qc.name, "n": n, "calls": l0.calls},
						"quad.Fixed(rule=%s, n=%d, concurrent=0) evaluated f %d times; documented: n times", qc.name, n, l0.calls)
				}
				var concs []int
				if c.Thorough() && !race {
					for k := -1; k <= n+2; k++ {
						concs = append(concs, k)
					}
				} else {
					set := map[int]bool{}
					for _, k := range []int{-1, 0, 1, 2, 3, n / 2, n - 1, n, n + 3} {
						if k >= -1 && !set[k] {
							set[k] = true
							concs = append(concs, k)
						}
					}
				}
				for _, conc := range concs {
					r := c.RNG("quad", rep, qi, n, conc)
					pt := newPerturb(r, !race)
					l := newLedger(pt)
					l.pure = pure
					cls := concClass(conc) + "," + kind
					desc := fmt.Sprintf("quad.Fixed rule=%s n=%d concurrent=%d GOMAXPROCS=%d pattern=%s", qc.name, n, conc, p, patternNames[pt.pattern])
					c.LastCase(desc)
					before := vrt.SnapshotGoroutines()
					v := quad.Fixed(l.scalar(quadF), qc.min, qc.max, n, qc.rule, conc)
					calls++
					evals += int64(l.calls)
					c.Eval(fmt.Sprintf("quad.Fixed|%s|n=%d|%s|P=%d", qc.name, n, concBucket(conc, n), p), true)
					rp := map[string]any{"rule": qc.name, "n": n, "concurrent": conc, "min": qc.min, "max": qc.max, "GOMAXPROCS": p}
					if pure {
						// no ledger in this mode
					} else if l.calls != n {
						c.Violationf(base+cls+"|f-evaluated-wrong-number-of-times", rp, "%s: f evaluated %d times, documented n=%d", desc, l.calls, n)
					} else if !l.sameMultiset(l0) {
						c.Violationf(base+cls+"|evaluation-points-differ-from-serial", rp, "%s: the multiset of evaluation points differs from the serial run", desc)
					}
					limit := conc
					if limit < 1 {
						limit = 1
					}
					if l.maxInflight > limit {
						c.Violationf(base+cls+"|more-than-concurrent-simultaneous-evaluations", rp, "%s: %d evaluations of f were running at once", desc, l.maxInflight)
					}
					if l.maxInflight > hiInflight {
						hiInflight = l.maxInflight
					}
					if conc <= 1 {
						if math.Float64bits(v) != math.Float64bits(v0) {
							c.Violationf(base+cls+"|result-not-bit-identical-to-serial", rp, "%s: %v (%#x) vs serial %v (%#x); with one worker the reduction order is fixed", desc, v, math.Float64bits(v), v0, math.Float64bits(v0))
						}
					} else {
						// quadBand: both sums carry at most (n-1)u sum|w f| of
						// rounding error plus one rounding per product; the
						// concurrent one adds <= conc partial-sum additions.
						band := 2 * float64(n+conc+2) * u64 * sumAbs
						d := math.Abs(v - v0)
						if !(d <= band) {
							c.Violationf(base+cls+"|result-outside-rounding-band-of-serial", rp, "%s: %v vs serial %v, |diff| %.3g > band %.3g", desc, v, v0, d, band)
						} else if band > 0 && d/band > maxRatio {
							maxRatio = d / band
						}
					}
					if !leaked {
						if sites := leakSites(before, leakWait); sites != nil {
							leaked = true // later calls would only wait for the same goroutines again
							for _, s := range sites {
								c.Violationf("goroutine-leak|quad.Fixed|"+s, rp, "%s: goroutines created by %s still alive after return", desc, s)
							}
						}
					}
					if c.WantSample() && conc == 3 && n == 8 {
						rp["result"] = v
						rp["serial"] = v0
						rp["sub"] = "quad"
						c.Sample(rp)
					}
				}
			}
		}
	}
	runtime.GOMAXPROCS(prev)
	c.Count("quad.calls", calls)
	c.Count("quad.f_evaluations", evals)
	c.Note("quad.max_band_ratio", maxRatio)
	c.Note("quad.max_simultaneous_evaluations_seen", hiInflight)
}

func concBucket(conc, n int) string {
	switch {
	case conc < 0:
		return "c<0"
	case conc <= 3:
		return fmt.Sprintf("c=%d", conc)
	case conc < n:
		return "3<c<n"
	case conc == n:
		return "c=n"
	}
	return "c>n"
}

// ---- diff/fd ------------------------------------------------------------------------------------------

type fdFormula struct {
	name string
	f    fd.Formula
}

func fdFormulas() []fdFormula {
	return []fdFormula{
		{"Forward", fd.Forward},
		{"Backward", fd.Backward},
		{"Central", fd.Central},
		{"Forward2nd", fd.Forward2nd},
		{"Backward2nd", fd.Backward2nd},
		{"Central2nd", fd.Central2nd},
		// second-order accurate one-sided first derivative (uses the origin)
		{"user-3pt-origin", fd.Formula{Stencil: []fd.Point{{Loc: 0, Coeff: -1.5}, {Loc: 1, Coeff: 2}, {Loc: 2, Coeff: -0.5}}, Derivative: 1, Step: 1e-5}},
		// fourth-order central first derivative (no origin)
		{"user-4pt", fd.Formula{Stencil: []fd.Point{{Loc: -2, Coeff: 1. / 12}, {Loc: -1, Coeff: -8. / 12}, {Loc: 1, Coeff: 8. / 12}, {Loc: 2, Coeff: -1. / 12}}, Derivative: 1, Step: 1e-3}},
		// forward difference with the origin listed twice (repeated locations are not forbidden)
		{"user-origin-twice", fd.Formula{Stencil: []fd.Point{{Loc: 0, Coeff: -0.5}, {Loc: 1, Coeff: 1}, {Loc: 0, Coeff: -0.5}}, Derivative: 1, Step: 2e-6}},
		// five-point second derivative (uses the origin)
		{"user-5pt-2nd", fd.Formula{Stencil: []fd.Point{{Loc: -2, Coeff: -1. / 12}, {Loc: -1, Coeff: 16. / 12}, {Loc: 0, Coeff: -30. / 12}, {Loc: 1, Coeff: 16. / 12}, {Loc: 2, Coeff: -1. / 12}}, Derivative: 2, Step: 1e-3}},
	}
}

func absFormula(f fd.Formula) fd.Formula {
	g := f
	g.Stencil = make([]fd.Point, len(f.Stencil))
	for i, p := range f.Stencil {
		g.Stencil[i] = fd.Point{Loc: p.Loc, Coeff: math.Abs(p.Coeff)}
	}
	return g
}

func zeros(st []fd.Point) (z int) {
	for _, p := range st {
		if p.Loc == 0 {
			z++
		}
	}
	return z
}

func fdScalar(x float64) float64 { return math.Sin(1.3*x) + 0.5*x*x + math.Exp(-x) }

func fdVec(x []float64) float64 {
	s := 1.5
	for i, v := range x {
		w := x[(i+1)%len(x)]
		s += math.Sin(0.7*float64(i)+v)*math.Cos(0.3*w) + 0.1*v*v
	}
	return s
}

func fdCross(x, y []float64) float64 {
	s := 1.0
	for i := range x {
		s += math.Sin(x[i]+0.5*y[i]) + 0.1*x[i]*y[i]
	}
	return s
}

func fdJac(y, x []float64) {
	var q float64
	for _, v := range x {
		q += v * v
	}
	for k := range y {
		y[k] = math.Sin(float64(k+1)*x[k%len(x)]) + 0.1*float64(k+1)*q
	}
}

// fdCall is one finite-difference routine call, runnable with Concurrent on
// or off and in an "absolute" variant (|f|, |coeff|) that yields the sum of
// the magnitudes of the terms of every output element.
type fdCall struct {
	routine     string
	formula     fdFormula
	step        float64
	originKnown bool
	n, m        int
	x, y        []float64
	terms       int // number of summed terms per output element
	expect      int // documented number of evaluations of f
	originKey   uint64
	usesOrigin  bool

	dstState      string // "" fresh | empty | zero | dirty | nan | reused (destination state, see fillDst)
	hostile       bool   // the callback trashes its argument slices before returning
	callerChanged string // set by run: which caller-owned argument was modified
}

func (fc *fdCall) String() string {
	return fmt.Sprintf("fd.%s formula=%s step=%v OriginKnown=%v n=%d m=%d", fc.routine, fc.formula.name, fc.step, fc.originKnown, fc.n, fc.m)
}

// trash overwrites a slice a user callback was handed with garbage, as a
// callback that uses its argument as scratch space would (NaNs or huge finite
// values, chosen by the argument's content).
func trash(x []float64, key uint64) {
	for i := range x {
		if key&1 == 0 {
			x[i] = math.NaN()
		} else {
			x[i] = 7e77 * float64(i+1)
		}
	}
}

// fillDst puts a destination of n elements into the given state.
func fillDst(d []float64, state string) {
	for i := range d {
		switch state {
		case "dirty", "reused":
			d[i] = -3e55 * float64(i+1)
		case "nan":
			if i%2 == 0 {
				d[i] = vrt.Taint(i)
			} else {
				d[i] = 4.25e11
			}
		default:
			d[i] = 0
		}
	}
}

// run executes the call. l may be nil (no ledger). abs selects the
// magnitude variant. With fc.hostile set the callback computes its value,
// then overwrites the slices it was given before it returns. After the call
// fc.callerChanged tells whether the caller's x, y or OriginValue differ
// from what was passed in.
func (fc *fdCall) run(concurrent bool, l *callLedger, abs bool) []float64 {
	fc.callerChanged = ""
	hostile := fc.hostile
	sameBits := func(a, b []float64) bool { return len(a) == len(b) && hashFloats(a) == hashFloats(b) }
	form := fc.formula.f
	if abs {
		form = absFormula(form)
	}
	wrapS := func(f func(float64) float64) func(float64) float64 {
		g := f
		if abs {
			g = func(x float64) float64 { return math.Abs(f(x)) }
		}
		if l != nil {
			return l.scalar(g)
		}
		return g
	}
	wrapV := func(f func([]float64) float64) func([]float64) float64 {
		g := f
		if abs {
			g = func(x []float64) float64 { return math.Abs(f(x)) }
		}
		if l != nil {
			g = l.vector(g)
		}
		if hostile {
			inner := g
			g = func(x []float64) float64 {
				key := hashFloats(x)
				v := inner(x)
				trash(x, key)
				return v
			}
		}
		return g
	}
	st := &fd.Settings{Formula: form, Step: fc.step, Concurrent: concurrent, OriginKnown: fc.originKnown}
	switch fc.routine {
	case "Derivative":
		if fc.originKnown {
			st.OriginValue = fdScalar(fc.x[0])
			if abs {
				st.OriginValue = math.Abs(st.OriginValue)
			}
		}
		return []float64{fd.Derivative(wrapS(fdScalar), fc.x[0], st)}
	case "Gradient", "Hessian", "Laplacian":
		if fc.originKnown {
			st.OriginValue = fdVec(fc.x)
			if abs {
				st.OriginValue = math.Abs(st.OriginValue)
			}
		}
		x := append([]float64(nil), fc.x...)
		switch fc.routine {
		case "Gradient":
			var gdst []float64
			if fc.dstState != "" && fc.dstState != "empty" {
				gdst = make([]float64, fc.n)
				fillDst(gdst, fc.dstState)
				if fc.dstState == "reused" {
					x2 := append([]float64(nil), fc.x...)
					for i := range x2 {
						x2[i] += 0.37
					}
					fd.Gradient(gdst, fdVec, x2, &fd.Settings{Formula: form, Step: fc.step, Concurrent: concurrent})
				}
			}
			out := fd.Gradient(gdst, wrapV(fdVec), x, st)
			if gdst != nil && &out[0] != &gdst[0] {
				fc.callerChanged = "dst (result not stored in place)"
			}
			if !sameBits(x, fc.x) {
				fc.callerChanged = "x"
			}
			return out
		case "Hessian":
			h := mat.NewSymDense(fc.n, nil)
			if fc.dstState == "empty" {
				h = &mat.SymDense{}
			} else if fc.dstState != "" {
				fillDst(h.RawSymmetric().Data, fc.dstState)
				if fc.dstState == "reused" {
					x2 := append([]float64(nil), fc.x...)
					for i := range x2 {
						x2[i] += 0.37
					}
					fd.Hessian(h, fdVec, x2, &fd.Settings{Formula: form, Step: fc.step, Concurrent: concurrent})
				}
			}
			fd.Hessian(h, wrapV(fdVec), x, st)
			if fc.dstState != "" {
				// only the upper triangle is the matrix; report it densely
				out := make([]float64, 0, fc.n*fc.n)
				for i := 0; i < fc.n; i++ {
					for j := 0; j < fc.n; j++ {
						out = append(out, h.At(i, j))
					}
				}
				if !sameBits(x, fc.x) {
					fc.callerChanged = "x"
				}
				return out
			}
			if !sameBits(x, fc.x) {
				fc.callerChanged = "x"
			}
			return append([]float64(nil), h.RawSymmetric().Data...)
		default:
			out := []float64{fd.Laplacian(wrapV(fdVec), x, st)}
			if !sameBits(x, fc.x) {
				fc.callerChanged = "x"
			}
			return out
		}
	case "CrossLaplacian":
		if fc.originKnown {
			st.OriginValue = fdCross(fc.x, fc.y)
			if abs {
				st.OriginValue = math.Abs(st.OriginValue)
			}
		}
		x := append([]float64(nil), fc.x...)
		y := append([]float64(nil), fc.y...)
		f := func(x, y []float64) float64 {
			var key uint64
			if l != nil {
				key = hashWords(hashFloats(x), hashFloats(y))
				l.begin(key)
			}
			v := fdCross(x, y)
			if abs {
				v = math.Abs(v)
			}
			if l != nil {
				l.end(hashWords(hashFloats(x), hashFloats(y)) != key)
			}
			if hostile {
				k := hashFloats(x)
				trash(x, k)
				trash(y, k>>1)
			}
			return v
		}
		out := []float64{fd.CrossLaplacian(f, x, y, st)}
		if !sameBits(x, fc.x) || !sameBits(y, fc.y) {
			fc.callerChanged = "x or y"
		}
		return out
	case "Jacobian":
		js := &fd.JacobianSettings{Formula: form, Step: fc.step, Concurrent: concurrent}
		if fc.originKnown {
			o := make([]float64, fc.m)
			fdJac(o, fc.x)
			if abs {
				for i := range o {
					o[i] = math.Abs(o[i])
				}
			}
			js.OriginValue = o
		}
		x := append([]float64(nil), fc.x...)
		f := func(y, x []float64) {
			var key uint64
			if l != nil {
				key = hashFloats(x)
				// occupy y before the perturbation point so that a
				// shared y would be overwritten by another worker
				fdJac(y, x)
				ykey := hashFloats(y)
				l.begin(key)
				l.end(hashFloats(x) != key || hashFloats(y) != ykey)
			}
			fdJac(y, x)
			if abs {
				for i := range y {
					y[i] = math.Abs(y[i])
				}
			}
			if hostile {
				trash(x, hashFloats(x))
			}
		}
		dst := mat.NewDense(fc.m, fc.n, nil)
		for i := 0; i < fc.m; i++ {
			for j := 0; j < fc.n; j++ {
				dst.Set(i, j, 7.5) // must be overwritten
			}
		}
		if fc.dstState != "" && fc.dstState != "empty" {
			fillDst(dst.RawMatrix().Data, fc.dstState)
			if fc.dstState == "reused" {
				x2 := append([]float64(nil), fc.x...)
				for i := range x2 {
					x2[i] += 0.37
				}
				fd.Jacobian(dst, fdJac, x2, &fd.JacobianSettings{Formula: form, Step: fc.step, Concurrent: concurrent})
			}
		}
		var origin0 []float64
		if js.OriginValue != nil {
			origin0 = append([]float64(nil), js.OriginValue...)
		}
		fd.Jacobian(dst, f, x, js)
		if !sameBits(x, fc.x) {
			fc.callerChanged = "x"
		} else if origin0 != nil && !sameBits(origin0, js.OriginValue) {
			fc.callerChanged = "OriginValue"
		}
		return append([]float64(nil), dst.RawMatrix().Data...)
	}
	panic("unknown routine")
}

func buildFDCalls(c *vrt.Ctx, race bool) []*fdCall {
	var out []*fdCall
	dims := []int{1, 2, 3, 5}
	if c.Thorough() && !race {
		dims = []int{1, 2, 3, 5, 9}
	}
	idx := 0
	for _, routine := range []string{"Derivative", "Gradient", "Jacobian", "Hessian", "Laplacian", "CrossLaplacian"} {
		for _, ff := range fdFormulas() {
			order := ff.f.Derivative
			switch routine {
			case "Laplacian":
				if order != 2 {
					continue
				}
			case "Derivative":
			default:
				if order != 1 {
					continue
				}
			}
			for _, ok := range []bool{false, true} {
				for _, n := range dims {
					if routine == "Derivative" && n != 1 {
						continue
					}
					for _, step := range []float64{0, 1e-3} {
						if step != 0 && n > 2 {
							continue
						}
						r := c.RNG("fd-case", idx)
						idx++
						fc := &fdCall{routine: routine, formula: ff, step: step, originKnown: ok, n: n, m: 1}
						fc.x = r.Floats(n, func() float64 { return r.Uniform(-1.5, 1.5) })
						s, z := len(ff.f.Stencil), zeros(ff.f.Stencil)
						fc.usesOrigin = z > 0
						origin := 0
						if z > 0 && !ok {
							origin = 1
						}
						switch routine {
						case "Derivative":
							fc.terms = s
							fc.expect = s
							if ok {
								fc.expect = s - z
							}
							fc.originKey = math.Float64bits(fc.x[0])
						case "Gradient":
							fc.terms = s
							fc.expect = n*(s-z) + origin
							fc.originKey = hashFloats(fc.x)
						case "Jacobian":
							fc.m = []int{1, 3, 6}[idx%3]
							fc.terms = s
							fc.expect = n*(s-z) + origin
							fc.originKey = hashFloats(fc.x)
						case "Hessian":
							fc.terms = s * s
							fc.expect = n*(n+1)/2*(s*s-z*z) + origin
							fc.originKey = hashFloats(fc.x)
						case "Laplacian":
							fc.terms = n * s
							fc.expect = n*(s-z) + origin
							fc.originKey = hashFloats(fc.x)
						case "CrossLaplacian":
							fc.y = r.Floats(n, func() float64 { return r.Uniform(-1.5, 1.5) })
							fc.terms = n * s * s
							fc.expect = n*(s*s-z*z) + origin
							fc.originKey = hashWords(hashFloats(fc.x), hashFloats(fc.y))
						}
						out = append(out, fc)
					}
				}
			}
		}
	}
	return out
}

// originKnownDocumentedAsIgnored reads the doc comment of fd.Settings from the
// tree under test: if it says that OriginKnown is not honoured when
// Concurrent is set, the extra evaluation is documented behaviour.
func originKnownDocumentedAsIgnored() bool {
	repo := os.Getenv("VERIF_REPO")
	if repo == "" {
		repo = "/repo"
	}
	b, err := os.ReadFile(filepath.Join(repo, "diff", "fd", "diff.go"))
	if err != nil {
		return false
	}
	lines := strings.Split(string(b), "\n")
	for i, l := range lines {
		if strings.Contains(l, "OriginKnown") && strings.Contains(l, "bool") {
			lo := i - 6
			if lo < 0 {
				lo = 0
			}
			ctx := strings.ToLower(strings.Join(lines[lo:i+1], "\n"))
			if j := strings.LastIndex(ctx, "\n\n"); j >= 0 {
				ctx = ctx[j:]
			}
			return strings.Contains(ctx, "concurrent")
		}
	}
	return false
}

// checkWrongSizedDst: a destination of the wrong size must be rejected with
// the documented panic, serially and concurrently.
func checkWrongSizedDst(c *vrt.Ctx) {
	x := []float64{0.3, -0.2, 0.9}
	for _, conc := range []bool{false, true} {
		cls := "serial"
		if conc {
			cls = "concurrent"
		}
		try := func(routine string, f func()) {
			c.Eval("fd."+routine+"|"+cls+",wrong-sized-dst", true)
			if p := vrt.TryFast(f); p == nil {
				c.Violationf("fd."+routine+"|"+cls+",wrong-sized-dst|no-panic", nil, "fd.%s accepted a destination whose size does not match len(x) = 3 (Concurrent=%v); the documentation promises a panic", routine, conc)
			} else if p.Runtime {
				c.Violationf("fd."+routine+"|"+cls+",wrong-sized-dst|runtime-panic", nil, "fd.%s with a wrong-sized destination: runtime panic %q instead of the documented one", routine, p.Msg)
			}
		}
		try("Gradient", func() { fd.Gradient(make([]float64, 2), fdVec, x, &fd.Settings{Concurrent: conc}) })
		try("Gradient", func() { fd.Gradient(make([]float64, 4), fdVec, x, &fd.Settings{Concurrent: conc}) })
		try("Hessian", func() { fd.Hessian(mat.NewSymDense(2, nil), fdVec, x, &fd.Settings{Concurrent: conc}) })
		try("Hessian", func() { fd.Hessian(mat.NewSymDense(4, nil), fdVec, x, &fd.Settings{Concurrent: conc}) })
		try("Jacobian", func() { fd.Jacobian(mat.NewDense(2, 2, nil), fdJac, x, &fd.JacobianSettings{Concurrent: conc}) })
		try("Jacobian", func() { fd.Jacobian(mat.NewDense(2, 4, nil), fdJac, x, &fd.JacobianSettings{Concurrent: conc}) })
	}
}

func runFD(c *vrt.Ctx, race bool) {
	checkWrongSizedDst(c)
	callsList := buildFDCalls(c, race)
	reps := c.Pick(2, 16)
	if race {
		reps = c.Pick(1, 6)
	}
	procs := []int{16, 4, 2, 1}
	prev := runtime.GOMAXPROCS(0)
	defer runtime.GOMAXPROCS(prev)
	docIgnored := originKnownDocumentedAsIgnored()
	c.Note("fd.doc_says_OriginKnown_ignored_when_concurrent", docIgnored)
	var ncalls, nevals int64
	maxRatio := 0.0
	hiInflight := 0
	leaked := map[string]bool{}
	for rep := 0; rep < reps; rep++ {
		p := procs[rep%len(procs)]
		runtime.GOMAXPROCS(p)
		for ci, fc := range callsList {
			base := "fd." + fc.routine + "|"
			okCls := ""
			if fc.originKnown && fc.usesOrigin {
				okCls = ",origin-known"
			}
			rp := map[string]any{"call": fc.String(), "x": fc.x, "y": fc.y, "GOMAXPROCS": p}
			// serial run with ledger
			l0 := newLedger(nil)
			v0 := fc.run(false, l0, false)
			if rep == 0 {
				ncalls++
				c.Eval("fd."+fc.routine+"|serial|"+fc.formula.name+okCls, true)
				if fc.originKnown && fc.usesOrigin && l0.pts[fc.originKey] > 0 {
					c.Violationf(base+"serial"+okCls+"|origin-evaluated-although-OriginKnown", rp, "%s serial: f was evaluated at the origin although OriginKnown is set", fc)
				} else if l0.calls != fc.expect {
					c.Violationf(base+"serial"+okCls+"|f-evaluated-wrong-number-of-times", rp, "%s serial: f evaluated %d times, expected %d", fc, l0.calls, fc.expect)
				}
			}
			mag := fc.run(false, nil, true)
			// Hostile callback (uses its argument slices as scratch space
			// after computing the value): every fd routine copies x before
			// each call "in case it is modified", so the result, the
			// evaluation points and the caller's data must be unaffected.
			hostileCheck := func(conc bool, path string) {
				if fc.routine == "Derivative" {
					return // scalar argument
				}
				lh := newLedger(nil)
				lh.pure = pure
				fc.hostile = true
				vh := fc.run(conc, lh, false)
				fc.hostile = false
				ncalls++
				cls := path + ",hostile-callback" + okCls
				c.Eval(fmt.Sprintf("fd.%s|%s|%s|n=%d", fc.routine, cls, fc.formula.name, fc.n), true)
				hdesc := fmt.Sprintf("%s Concurrent=%v GOMAXPROCS=%d, f overwrites its argument slices before returning", fc, conc, p)
				switch {
				case fc.callerChanged != "":
					c.Violationf(base+cls+"|caller-argument-modified", rp, "%s: the caller's %s was modified (f was handed the caller's slice instead of a copy)", hdesc, fc.callerChanged)
				case !pure && !sameMultisetExcept(lh, l0, fc.originKey, false):
					c.Violationf(base+cls+"|evaluation-points-differ-from-benign-run", rp, "%s: f was evaluated at other points (%d calls) than with a side-effect free f (%d calls): a buffer f had overwritten was reused", hdesc, lh.calls, l0.calls)
				default:
					for i := range vh {
						bad := false
						if !conc || p == 1 {
							bad = math.Float64bits(vh[i]) != math.Float64bits(v0[i])
						} else {
							band := (2*float64(fc.terms) + 16) * u64 * math.Abs(mag[i])
							bad = !(math.Abs(vh[i]-v0[i]) <= band)
						}
						if bad {
							c.Violationf(base+cls+"|result-differs-from-benign-callback", rp, "%s: element %d = %v, with a side-effect free f the serial result is %v", hdesc, i, vh[i], v0[i])
							break
						}
					}
				}
			}
			// Destination-state dimension: the result is "stored in dst"
			// whatever dst held before (empty, zero, finite garbage,
			// NaN-tainted, or the result of a previous call at another x).
			dstCheck := func(conc bool, path string) {
				var states []string
				switch fc.routine {
				case "Gradient", "Hessian":
					states = []string{"empty", "zero", "dirty", "nan", "reused"}
				case "Jacobian":
					states = []string{"zero", "dirty", "nan", "reused"}
				default:
					return
				}
				// one state per call and repetition, all states over the run
				state := states[(ci+rep)%len(states)]
				ref := v0
				if fc.routine == "Hessian" {
					// v0 is the raw backing data of a zeroed fresh dst: expand symmetric
					ref = make([]float64, 0, fc.n*fc.n)
					for i := 0; i < fc.n; i++ {
						for j := 0; j < fc.n; j++ {
							a, b := i, j
							if a > b {
								a, b = b, a
							}
							ref = append(ref, v0[a*fc.n+b])
						}
					}
				}
				fc.dstState = state
				vd := fc.run(conc, nil, false)
				fc.dstState = ""
				ncalls++
				cls := path + ",dst-" + state
				c.Eval(fmt.Sprintf("fd.%s|%s|%s%s|n=%d", fc.routine, cls, fc.formula.name, okCls, fc.n), true)
				ddesc := fmt.Sprintf("%s Concurrent=%v GOMAXPROCS=%d destination state %q", fc, conc, p, state)
				if fc.callerChanged != "" {
					c.Violationf(base+cls+"|caller-argument-modified", rp, "%s: %s", ddesc, fc.callerChanged)
					return
				}
				if len(vd) != len(ref) {
					c.Violationf(base+cls+"|result-shape-differs-from-fresh-dst", rp, "%s: %d values, want %d", ddesc, len(vd), len(ref))
					return
				}
				for i := range vd {
					bad := false
					if !conc || p == 1 {
						bad = math.Float64bits(vd[i]) != math.Float64bits(ref[i])
					} else {
						mi := i
						if fc.routine == "Hessian" {
							a, b := i/fc.n, i%fc.n
							if a > b {
								a, b = b, a
							}
							mi = a*fc.n + b
						}
						band := (2*float64(fc.terms) + 16) * u64 * math.Abs(mag[mi])
						bad = !(math.Abs(vd[i]-ref[i]) <= band)
					}
					if bad {
						c.Violationf(base+cls+"|result-differs-from-fresh-dst", rp, "%s: element %d = %v, with a fresh destination the serial result is %v (old contents of dst leak into the result)", ddesc, i, vd[i], ref[i])
						return
					}
				}
			}
			if rep == 0 {
				hostileCheck(false, "serial")
			}
			dstCheck(false, "serial")
			// concurrent run
			r := c.RNG("fd", rep, ci)
			pt := newPerturb(r, !race)
			l := newLedger(pt)
			l.pure = pure
			path := "concurrent"
			if p == 1 {
				path = "concurrent-flag,GOMAXPROCS=1"
			}
			desc := fmt.Sprintf("%s Concurrent=true GOMAXPROCS=%d pattern=%s", fc, p, patternNames[pt.pattern])
			c.LastCase(desc)
			before := vrt.SnapshotGoroutines()
			v := fc.run(true, l, false)
			ncalls++
			nevals += int64(l.calls)
			c.Eval(fmt.Sprintf("fd.%s|%s|%s%s|n=%d|step=%v", fc.routine, path, fc.formula.name, okCls, fc.n, fc.step), true)
			if l.maxInflight > hiInflight {
				hiInflight = l.maxInflight
			}
			cls := path + okCls
			extraOrigin := 0
			if fc.originKnown && fc.usesOrigin && l.pts[fc.originKey] > 0 {
				extraOrigin = l.pts[fc.originKey]
				if !docIgnored {
					c.Violationf(base+cls+"|origin-evaluated-although-OriginKnown", rp,
						"%s: f was evaluated %d time(s) at the origin although Settings.OriginKnown is set (the serial path makes %d evaluations, this one %d)", desc, extraOrigin, l0.calls, l.calls)
				}
			}
			if pure {
				// no ledger in this mode
			} else if l.calls-extraOrigin != fc.expect {
				c.Violationf(base+cls+"|f-evaluated-wrong-number-of-times", rp, "%s: f evaluated %d times (not counting %d at a known origin), expected %d", desc, l.calls-extraOrigin, extraOrigin, fc.expect)
			} else {
				if !sameMultisetExcept(l, l0, fc.originKey, extraOrigin > 0) {
					c.Violationf(base+cls+"|evaluation-points-differ-from-serial", rp, "%s: the multiset of evaluation points differs from the serial run", desc)
				}
			}
			if l.argChanged > 0 {
				c.Violationf(base+cls+"|argument-buffer-changed-during-callback", rp, "%s: in %d calls the x/y buffers handed to f changed while f was running (scratch shared between workers)", desc, l.argChanged)
			}
			if len(v) != len(v0) {
				c.Violationf(base+cls+"|result-shape-differs-from-serial", rp, "%s: %d values vs %d", desc, len(v), len(v0))
			} else if p == 1 {
				for i := range v {
					if math.Float64bits(v[i]) != math.Float64bits(v0[i]) {
						c.Violationf(base+cls+"|result-not-bit-identical-to-serial", rp, "%s: element %d = %v vs %v; with GOMAXPROCS=1 there is a single worker", desc, i, v[i], v0[i])
						break
					}
				}
			} else {
				for i := range v {
					// fdBand: each output element is a sum of `terms` products
					// (<= 3 roundings each) plus one final scaling, summed in
					// an arbitrary order: twice the a-priori bound.
					band := (2*float64(fc.terms) + 16) * u64 * math.Abs(mag[i])
					d := math.Abs(v[i] - v0[i])
					if !(d <= band) {
						c.Violationf(base+cls+"|result-outside-rounding-band-of-serial", rp, "%s: element %d = %v vs serial %v, |diff| %.3g > band %.3g", desc, i, v[i], v0[i], d, band)
						break
					}
					if band > 0 && d/band > maxRatio {
						maxRatio = d / band
					}
				}
			}
			if p == 1 {
				dstCheck(true, "serial")
			} else {
				dstCheck(true, path)
			}
			if p == 1 {
				hostileCheck(true, "serial") // GOMAXPROCS=1 takes the serial code
			} else {
				hostileCheck(true, path)
			}
			if !leaked[fc.routine] {
				if sites := leakSites(before, leakWait); sites != nil {
					leaked[fc.routine] = true // later calls would only wait for the same kind of goroutines again
					for _, s := range sites {
						c.Violationf("goroutine-leak|fd."+fc.routine+"|"+s, rp, "%s: goroutines created by %s still alive after return", desc, s)
					}
				}
			}
			if c.WantSample() && ci%37 == 5 {
				c.Sample(map[string]any{"sub": "fd", "call": fc.String(), "x": fc.x, "result": v, "serial": v0, "f_calls": l.calls})
			}
		}
	}
	runtime.GOMAXPROCS(prev)
	c.Count("fd.calls", ncalls)
	c.Count("fd.f_evaluations_concurrent", nevals)
	c.Note("fd.max_band_ratio", maxRatio)
	c.Note("fd.max_simultaneous_evaluations_seen", hiInflight)
	c.Note("fd.call_configurations", len(callsList))
}

func runQuadFD(c *vrt.Ctx, race bool) {
	runQuad(c, race)
	runFD(c, race)
}
