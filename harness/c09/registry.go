package main

import (
	"fmt"
	"strings"
	"sync"
	"sync/atomic"
	"time"

	"github.com/anishathalye/porcupine"

	"gonum.org/v1/gonum/stat/card"
	"gonum.org/v1/gonum/unit"
	"gonum.org/v1/gonum/verifx/vrt"
)

// ---- sub-check 5: shared registries -------------------------------------------------------------------
//
// N goroutines issue a few operations each against the process-global
// registries of package unit (NewDimension / SymbolExists / Dimension.String)
// and stat/card (RegisterHash + the look-up done by UnmarshalBinary). Call
// and return of every operation are stamped from one atomic counter; the
// recorded history must be linearizable with respect to a small sequential
// model (checked with porcupine). Histories are short (<= 48 operations) and
// numerous. cardtypes_gen.go is produced by the python snippet kept in the
// monitor's history (64 pairs of same-named local types).

var regClock atomic.Int64

const regCheckTimeout = 30 * time.Second

type regOp struct {
	kind string // unit: new|exists|string ; card: register|lookup
	arg  int    // symbol index / name index
	alt  int    // card: variant (0 = a, 1 = b); unit string: offset
}

type regOut struct {
	panicked bool
	val      int    // unit new: dimension offset relative to base; card lookup/exists: 0/1
	str      string // unit string: returned symbol
}

func (o regOut) String() string {
	if o.panicked {
		return "panic"
	}
	return fmt.Sprintf("%d/%q", o.val, o.str)
}

// ---- unit ---------------------------------------------------------------------------------------------------

const unitSyms = 4

// unit model state: comma separated list of the history's symbols in
// registration order.
func unitModel() porcupine.Model {
	return porcupine.Model{
		Init: func() interface{} { return "" },
		Step: func(state, input, output interface{}) (bool, interface{}) {
			st := state.(string)
			var list []string
			if st != "" {
				list = strings.Split(st, ",")
			}
			in, out := input.(regOp), output.(regOut)
			sym := fmt.Sprint(in.arg)
			has := false
			for _, s := range list {
				if s == sym {
					has = true
				}
			}
			switch in.kind {
			case "new":
				if has {
					return out.panicked, st
				}
				if out.panicked || out.val != len(list) {
					return false, st
				}
				return true, strings.Join(append(list, sym), ",")
			case "exists":
				return !out.panicked && (out.val == 1) == has, st
			case "string":
				if in.alt < len(list) {
					return !out.panicked && out.str == list[in.alt], st
				}
				return out.panicked, st
			}
			return false, st
		},
		DescribeOperation: func(input, output interface{}) string {
			in := input.(regOp)
			return fmt.Sprintf("%s(%d,%d) -> %v", in.kind, in.arg, in.alt, output.(regOut))
		},
	}
}

func runUnitHistories(c *vrt.Ctx, race bool) {
	hists := c.Pick(2000, 20000)
	if race {
		hists = c.Pick(400, 6000)
	}
	model := unitModel()
	var nops, illegal, unknown int64
	for h := 0; h < hists; h++ {
		r := c.RNG("unit-hist", h)
		prefix := fmt.Sprintf("c09s%dh%d", c.Seed, h)
		// The sentinel fixes the dimension value the history starts from.
		base := int(unit.NewDimension(prefix+"base")) + 1
		sym := func(k int) string { return fmt.Sprintf("%s_%d", prefix, k) }
		ng := r.Range(2, 6)
		scripts := make([][]regOp, ng)
		for g := range scripts {
			n := r.Range(2, 8)
			for k := 0; k < n; k++ {
				var op regOp
				switch r.Intn(3) {
				case 0:
					op = regOp{kind: "new", arg: r.Intn(unitSyms)}
				case 1:
					op = regOp{kind: "exists", arg: r.Intn(unitSyms)}
				default:
					op = regOp{kind: "string", alt: r.Intn(unitSyms)}
				}
				scripts[g] = append(scripts[g], op)
			}
		}
		pt := newPerturb(r, false)
		c.LastCase(fmt.Sprintf("unit registry history %d goroutines=%d pattern=%s", h, ng, patternNames[pt.pattern]))
		ops := make([][]porcupine.Operation, ng)
		var wg sync.WaitGroup
		start := make(chan struct{})
		for g := range scripts {
			wg.Add(1)
			go func(g int) {
				defer wg.Done()
				<-start
				for k, op := range scripts[g] {
					pt.at(uint64(g)<<8 | uint64(k))
					var out regOut
					call := regClock.Add(1)
					p := vrt.TryFast(func() {
						switch op.kind {
						case "new":
							out.val = int(unit.NewDimension(sym(op.arg))) - base
						case "exists":
							if unit.SymbolExists(sym(op.arg)) {
								out.val = 1
							}
						case "string":
							s := unit.Dimension(base + op.alt).String()
							// map the symbol back to its index
							out.str = strings.TrimPrefix(s, prefix+"_")
						}
					})
					ret := regClock.Add(1)
					if p != nil {
						out = regOut{panicked: true}
					}
					ops[g] = append(ops[g], porcupine.Operation{ClientId: g, Input: op, Call: call, Output: out, Return: ret})
				}
			}(g)
		}
		close(start)
		wg.Wait()
		var hist []porcupine.Operation
		for _, l := range ops {
			hist = append(hist, l...)
		}
		nops += int64(len(hist))
		c.EvalN(fmt.Sprintf("registry|unit|goroutines=%d|%s", ng, patternNames[pt.pattern]), len(hist), true)
		switch porcupine.CheckOperationsTimeout(model, hist, regCheckTimeout) {
		case porcupine.Illegal:
			illegal++
			var desc []string
			for _, o := range hist {
				desc = append(desc, fmt.Sprintf("[%d,%d] g%d %s", o.Call, o.Return, o.ClientId, model.DescribeOperation(o.Input, o.Output)))
			}
			c.Violationf("registry|unit|history-not-linearizable", map[string]any{"history": desc, "base": base, "prefix": prefix},
				"unit registry: a recorded history of %d operations by %d goroutines is not linearizable w.r.t. the sequential model (NewDimension returns consecutive values and panics on duplicates, SymbolExists/String read the same list):\n%s", len(hist), ng, strings.Join(desc, "\n"))
		case porcupine.Unknown:
			unknown++
		}
		if c.WantSample() && h == 5 {
			c.Sample(map[string]any{"sub": "registry-unit", "goroutines": ng, "operations": len(hist)})
		}
	}
	c.Count("registry.unit_histories", int64(hists))
	c.Count("registry.unit_operations", nops)
	if unknown > 0 {
		c.Inconclusive("registry-unit", fmt.Sprintf("%d histories could not be decided within %v", unknown, regCheckTimeout))
	}
}

// ---- card ---------------------------------------------------------------------------------------------------

const cardNamesPerHist = 2

// card model state: one digit per name, 0 absent, 1 variant a, 2 variant b.
func cardModel() porcupine.Model {
	return porcupine.Model{
		Init: func() interface{} { return [cardNamesPerHist]int{} },
		Step: func(state, input, output interface{}) (bool, interface{}) {
			st := state.([cardNamesPerHist]int)
			in, out := input.(regOp), output.(regOut)
			switch in.kind {
			case "register":
				cur := st[in.arg]
				switch {
				case cur == 0:
					if out.panicked {
						return false, st
					}
					st[in.arg] = in.alt + 1
					return true, st
				case cur == in.alt+1:
					return !out.panicked, st
				default:
					return out.panicked, st
				}
			case "lookup":
				return !out.panicked && (out.val == 1) == (st[in.arg] != 0), st
			}
			return false, st
		},
		DescribeOperation: func(input, output interface{}) string {
			in := input.(regOp)
			return fmt.Sprintf("%s(name %d, variant %d) -> %v", in.kind, in.arg, in.alt, output.(regOut))
		},
	}
}

func runCardHistories(c *vrt.Ctx, race bool) {
	pairs := cardPairs()
	hists := c.Pick(16, len(pairs)/cardNamesPerHist)
	if race {
		hists = c.Pick(8, len(pairs)/cardNamesPerHist)
	}
	model := cardModel()
	var nops, unknown int64
	for h := 0; h < hists; h++ {
		r := c.RNG("card-hist", h)
		mine := pairs[h*cardNamesPerHist : (h+1)*cardNamesPerHist]
		// Serialised sketches naming each hash type (MarshalBinary does not
		// touch the registry).
		blobs := make([][]byte, len(mine))
		for i, p := range mine {
			sk, err := card.NewHyperLogLog64(4, p.a())
			if err != nil {
				c.Inconclusive("registry-card", "cannot build sketch: "+err.Error())
				return
			}
			sk.Write([]byte("c09"))
			b, err := sk.MarshalBinary()
			if err != nil {
				c.Inconclusive("registry-card", "cannot marshal sketch: "+err.Error())
				return
			}
			blobs[i] = b
		}
		ng := r.Range(3, 6)
		scripts := make([][]regOp, ng)
		for g := range scripts {
			n := r.Range(3, 8)
			for k := 0; k < n; k++ {
				if r.Bool() {
					alt := 0
					if r.Intn(3) == 0 {
						alt = 1
					}
					scripts[g] = append(scripts[g], regOp{kind: "register", arg: r.Intn(len(mine)), alt: alt})
				} else {
					scripts[g] = append(scripts[g], regOp{kind: "lookup", arg: r.Intn(len(mine))})
				}
			}
		}
		pt := newPerturb(r, false)
		c.LastCase(fmt.Sprintf("card registry history %d goroutines=%d", h, ng))
		ops := make([][]porcupine.Operation, ng)
		var wg sync.WaitGroup
		start := make(chan struct{})
		for g := range scripts {
			wg.Add(1)
			go func(g int) {
				defer wg.Done()
				<-start
				for k, op := range scripts[g] {
					pt.at(uint64(g)<<8 | uint64(k))
					var out regOut
					call := regClock.Add(1)
					p := vrt.TryFast(func() {
						switch op.kind {
						case "register":
							if op.alt == 0 {
								card.RegisterHash(mine[op.arg].a)
							} else {
								card.RegisterHash(mine[op.arg].b)
							}
						case "lookup":
							var sk card.HyperLogLog64
							if err := sk.UnmarshalBinary(blobs[op.arg]); err == nil {
								out.val = 1
							}
						}
					})
					ret := regClock.Add(1)
					if p != nil {
						out = regOut{panicked: true}
					}
					ops[g] = append(ops[g], porcupine.Operation{ClientId: g, Input: op, Call: call, Output: out, Return: ret})
				}
			}(g)
		}
		close(start)
		wg.Wait()
		var hist []porcupine.Operation
		for _, l := range ops {
			hist = append(hist, l...)
		}
		nops += int64(len(hist))
		c.EvalN(fmt.Sprintf("registry|card|goroutines=%d|%s", ng, patternNames[pt.pattern]), len(hist), true)
		switch porcupine.CheckOperationsTimeout(model, hist, regCheckTimeout) {
		case porcupine.Illegal:
			var desc []string
			for _, o := range hist {
				desc = append(desc, fmt.Sprintf("[%d,%d] g%d %s", o.Call, o.Return, o.ClientId, model.DescribeOperation(o.Input, o.Output)))
			}
			c.Violationf("registry|card|history-not-linearizable", map[string]any{"history": desc},
				"card hash registry: a recorded history of %d operations by %d goroutines is not linearizable w.r.t. the sequential model (first registration of a name wins, a different type under the same name panics, look-up succeeds iff registered):\n%s", len(hist), ng, strings.Join(desc, "\n"))
		case porcupine.Unknown:
			unknown++
		}
	}
	c.Count("registry.card_histories", int64(hists))
	c.Count("registry.card_operations", nops)
	if unknown > 0 {
		c.Inconclusive("registry-card", fmt.Sprintf("%d histories could not be decided within %v", unknown, regCheckTimeout))
	}
}

// runRegistryPure hammers the registries from many goroutines without
// recording anything (no clock, no shared monitor state): only the race
// detector and the runtime (concurrent map access faults, deadlock) observe.
func runRegistryPure(c *vrt.Ctx) {
	rounds := c.Pick(60, 1500)
	var total int64
	for h := 0; h < rounds; h++ {
		prefix := fmt.Sprintf("c09p%dh%d", c.Seed, h)
		base := unit.NewDimension(prefix + "base")
		ng := 4 + h%5
		c.LastCase(fmt.Sprintf("unit registry pure round %d goroutines=%d", h, ng))
		var wg sync.WaitGroup
		start := make(chan struct{})
		for g := 0; g < ng; g++ {
			wg.Add(1)
			go func(g int) {
				defer wg.Done()
				<-start
				for k := 0; k < 12; k++ {
					key := uint64(h)<<20 | uint64(g)<<8 | uint64(k)
					statelessYield(key)
					sym := fmt.Sprintf("%s_%d", prefix, mix(key)%5)
					switch mix(key^7) % 3 {
					case 0:
						vrt.TryFast(func() { unit.NewDimension(sym) })
					case 1:
						unit.SymbolExists(sym)
					default:
						vrt.TryFast(func() { _ = (base + unit.Dimension(mix(key)%6)).String() })
					}
				}
			}(g)
		}
		close(start)
		wg.Wait()
		total += int64(ng * 12)
	}
	c.EvalN("registry|unit|pure", int(total), true)
	pairs := cardPairs()
	var ctotal int64
	for h := 0; h*cardNamesPerHist+1 < len(pairs) && h < c.Pick(16, 32); h++ {
		mine := pairs[h*cardNamesPerHist : (h+1)*cardNamesPerHist]
		blobs := make([][]byte, len(mine))
		for i, p := range mine {
			sk, _ := card.NewHyperLogLog64(4, p.a())
			blobs[i], _ = sk.MarshalBinary()
		}
		var wg sync.WaitGroup
		start := make(chan struct{})
		for g := 0; g < 6; g++ {
			wg.Add(1)
			go func(g int) {
				defer wg.Done()
				<-start
				for k := 0; k < 10; k++ {
					key := uint64(h)<<20 | uint64(g)<<8 | uint64(k) | 1<<40
					statelessYield(key)
					i := int(mix(key) % uint64(len(mine)))
					switch mix(key^3) % 4 {
					case 0:
						vrt.TryFast(func() { card.RegisterHash(mine[i].a) })
					case 1:
						vrt.TryFast(func() { card.RegisterHash(mine[i].b) })
					default:
						var sk card.HyperLogLog64
						_ = sk.UnmarshalBinary(blobs[i])
					}
				}
			}(g)
		}
		close(start)
		wg.Wait()
		ctotal += 60
	}
	c.EvalN("registry|card|pure", int(ctotal), true)
	c.Count("registry.pure_operations", total+ctotal)
}

func runRegistry(c *vrt.Ctx, race bool) {
	if pure {
		runRegistryPure(c)
		return
	}
	runUnitHistories(c, race)
	runCardHistories(c, race)
}
