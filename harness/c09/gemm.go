package main

import (
	"fmt"
	"math"
	"runtime"
	"sort"
	"sync"
	"sync/atomic"

	"gonum.org/v1/gonum/blas"
	blasgonum "gonum.org/v1/gonum/blas/gonum"
	"gonum.org/v1/gonum/verifx/vrt"
)

// ---- sub-check 1: parallel Dgemm / Sgemm ------------------------------------------------
//
// Refuting events: two executions of the same >= 4 block call whose outputs
// differ in any bit (same GOMAXPROCS: run-to-run; different GOMAXPROCS:
// path chosen by GOMAXPROCS); a block trace (hook H3) that does not tile C
// exactly once; an element outside the rounding band of the reference; a
// write into the padding of C.

const gemmBlock = 64 // blas/gonum blockSize; only used to predict the tiling

type gemmCase struct {
	double      bool
	tA, tB      blas.Transpose
	m, n, k     int
	lda, ldb    int
	ldc         int
	alpha, beta float64
	nanPad      bool // padding of C holds payload NaNs (else a finite canary)

	a, b, c0 []float64 // float64 master copies (exactly representable in float32 when !double)
	a32, b32 []float32
	c032     []float32
}

func (g *gemmCase) routine() string {
	if g.double {
		return "Dgemm"
	}
	return "Sgemm"
}

func tch(t blas.Transpose) string {
	if t == blas.NoTrans {
		return "N"
	}
	return "T"
}

func (g *gemmCase) class() string { return tch(g.tA) + tch(g.tB) }

func (g *gemmCase) String() string {
	return fmt.Sprintf("%s %s m=%d n=%d k=%d lda=%d ldb=%d ldc=%d alpha=%v beta=%v", g.routine(), g.class(), g.m, g.n, g.k, g.lda, g.ldb, g.ldc, g.alpha, g.beta)
}

const padCanary = 0.123456789

type blockRec struct{ i, j, leni, lenj int }

type gemmTrace struct {
	mu     sync.Mutex
	blocks []blockRec
	double []bool
	p      *perturb
}

var curTrace atomic.Pointer[gemmTrace]

func gemmHook(double bool, i, j, leni, lenj int) {
	t := curTrace.Load()
	if t == nil {
		return
	}
	t.mu.Lock()
	t.blocks = append(t.blocks, blockRec{i, j, leni, lenj})
	t.double = append(t.double, double)
	t.mu.Unlock()
	t.p.at(uint64(i)<<20 | uint64(j))
}

func blocksOf(n int) int { return (n + gemmBlock - 1) / gemmBlock }

func buildGemmCases(c *vrt.Ctx, race bool) []*gemmCase {
	type shape struct{ m, n, k int }
	shapes := []shape{
		{128, 128, 5},   // exactly 4 full blocks, one k block
		{65, 129, 70},   // 2x3 blocks with ragged edges, 2 k blocks
		{130, 70, 129},  // 3x2 blocks, 3 k blocks (k > 64: the order of the k blocks matters)
		{1, 257, 65},    // 1x5 blocks, a single row
		{257, 1, 66},    // 5x1 blocks, a single column
		{200, 193, 64},  // 4x4 blocks, k exactly one block
		{64, 256, 200},  // 1x4 full blocks, 4 k blocks
		{193, 65, 1},    // 4x2 blocks, k = 1
		{129, 129, 130}, // 3x3 blocks
	}
	if race {
		shapes = []shape{{65, 129, 70}, {130, 70, 129}, {1, 257, 65}, {128, 128, 5}}
	} else if c.Thorough() {
		shapes = append(shapes, shape{320, 65, 33}, shape{66, 330, 127}, shape{255, 255, 65}, shape{4 * 64, 64, 3 * 64}, shape{127, 129, 191})
	}
	trs := []blas.Transpose{blas.NoTrans, blas.Trans}
	var cases []*gemmCase
	idx := 0
	for _, double := range []bool{true, false} {
		for _, tA := range trs {
			for _, tB := range trs {
				for si, sh := range shapes {
					r := c.RNG("gemm-case", idx)
					idx++
					g := &gemmCase{double: double, tA: tA, tB: tB, m: sh.m, n: sh.n, k: sh.k}
					// scalars: cycle so that every (routine, trans) sees beta 0, 1 and general
					switch (si + idx) % 4 {
					case 0:
						g.alpha, g.beta = 1, 0
					case 1:
						g.alpha, g.beta = -0.75, 1
					case 2:
						g.alpha, g.beta = 1.5, -0.5
					default:
						g.alpha, g.beta = 0.625, 0.25
					}
					ra, ca := sh.m, sh.k
					if tA != blas.NoTrans {
						ra, ca = sh.k, sh.m
					}
					rb, cb := sh.k, sh.n
					if tB != blas.NoTrans {
						rb, cb = sh.n, sh.k
					}
					g.lda = ca + r.PickInt(0, 0, 1, 3)
					g.ldb = cb + r.PickInt(0, 0, 2, 5)
					g.ldc = sh.n + r.PickInt(0, 1, 4)
					g.nanPad = r.Bool()
					gen := func() float64 {
						v := r.SmallFinite()
						if !double {
							v = float64(float32(v))
						}
						return v
					}
					g.a = r.Floats(ra*g.lda, gen)
					g.b = r.Floats(rb*g.ldb, gen)
					g.c0 = r.Floats(sh.m*g.ldc, gen)
					for i := 0; i < sh.m; i++ {
						for j := sh.n; j < g.ldc; j++ {
							if g.nanPad {
								g.c0[i*g.ldc+j] = vrt.Taint(i*g.ldc + j)
							} else {
								g.c0[i*g.ldc+j] = padCanary
							}
						}
					}
					if !double {
						g.a32 = to32(g.a)
						g.b32 = to32(g.b)
						g.c032 = to32(g.c0)
						for i := 0; i < sh.m; i++ {
							for j := sh.n; j < g.ldc; j++ {
								if g.nanPad {
									g.c032[i*g.ldc+j] = vrt.Taint32(i*g.ldc + j)
								}
							}
						}
					}
					cases = append(cases, g)
				}
			}
		}
	}
	return cases
}

func to32(s []float64) []float32 {
	o := make([]float32, len(s))
	for i, v := range s {
		o[i] = float32(v)
	}
	return o
}

// call executes the case once on a fresh copy of C and returns the result
// bits of the whole C array (padding included).
func (g *gemmCase) call(impl blasgonum.Implementation) []uint64 {
	if g.double {
		cc := append([]float64(nil), g.c0...)
		impl.Dgemm(g.tA, g.tB, g.m, g.n, g.k, g.alpha, g.a, g.lda, g.b, g.ldb, g.beta, cc, g.ldc)
		return bitsOf(cc)
	}
	cc := append([]float32(nil), g.c032...)
	impl.Sgemm(g.tA, g.tB, g.m, g.n, g.k, float32(g.alpha), g.a32, g.lda, g.b32, g.ldb, float32(g.beta), cc, g.ldc)
	out := make([]uint64, len(cc))
	for i, v := range cc {
		out[i] = uint64(math.Float32bits(v))
	}
	return out
}

func (g *gemmCase) elem(bits []uint64, i, j int) float64 {
	if g.double {
		return math.Float64frombits(bits[i*g.ldc+j])
	}
	return float64(math.Float32frombits(uint32(bits[i*g.ldc+j])))
}

// gemmBandC1/C2: |got-ref| <= (C1*K + C2) * u * (|alpha| sum|a||b| + |beta||c|),
// twice the a-priori bound for any summation order with or without FMA (Higham
// ASNA 3.1/3.6), the same band C01 uses. Largest ratio observed on the pinned
// tree over seeds 1,2,3,7,42: 0.36 (noted in the evidence as gemm.max_band_ratio).
const (
	gemmBandC1 = 2
	gemmBandC2 = 8
)

// checkReference compares the result with the monitor's own reference.
func (g *gemmCase) checkReference(c *vrt.Ctx, bits []uint64, maxRatio *float64) {
	u := u64
	if !g.double {
		u = u32
	}
	for i := 0; i < g.m; i++ {
		for j := 0; j < g.n; j++ {
			var s, abs float64
			switch {
			case g.tA == blas.NoTrans && g.tB == blas.NoTrans:
				s, abs = dot2(g.k, g.a[i*g.lda:], 1, g.b[j:], g.ldb)
			case g.tA != blas.NoTrans && g.tB == blas.NoTrans:
				s, abs = dot2(g.k, g.a[i:], g.lda, g.b[j:], g.ldb)
			case g.tA == blas.NoTrans && g.tB != blas.NoTrans:
				s, abs = dot2(g.k, g.a[i*g.lda:], 1, g.b[j*g.ldb:], 1)
			default:
				s, abs = dot2(g.k, g.a[i:], g.lda, g.b[j*g.ldb:], 1)
			}
			alpha, beta := g.alpha, g.beta
			if !g.double {
				alpha, beta = float64(float32(alpha)), float64(float32(beta))
			}
			c0 := g.c0[i*g.ldc+j]
			ref := alpha*s + beta*c0
			mag := math.Abs(alpha)*abs + math.Abs(beta*c0)
			band := (gemmBandC1*float64(g.k) + gemmBandC2) * u * mag
			got := g.elem(bits, i, j)
			d := math.Abs(got - ref)
			if !(d <= band) {
				c.Violationf(g.routine()+"|"+g.class()+"|parallel|outside-rounding-band-of-reference",
					map[string]any{"case": g.String(), "i": i, "j": j, "got": got, "ref": ref, "band": band},
					"%s: C[%d,%d] = %v, reference %v, |diff| %.3g > band %.3g", g, i, j, got, ref, d, band)
				return
			}
			if band > 0 && d/band > *maxRatio {
				*maxRatio = d / band
			}
		}
	}
}

func (g *gemmCase) checkPadding(c *vrt.Ctx, bits []uint64) {
	for i := 0; i < g.m; i++ {
		for j := g.n; j < g.ldc; j++ {
			// The last row's padding is not part of the slice contract
			// (len may be ldc*(m-1)+n) but we allocate it and it must
			// stay untouched all the same.
			var want uint64
			if g.double {
				want = math.Float64bits(g.c0[i*g.ldc+j])
			} else {
				want = uint64(math.Float32bits(g.c032[i*g.ldc+j]))
			}
			if bits[i*g.ldc+j] != want {
				c.Violationf(g.routine()+"|"+g.class()+"|parallel|padding-of-C-written",
					map[string]any{"case": g.String(), "i": i, "j": j},
					"%s: padding element C[%d,%d] (column >= n) was modified", g, i, j)
				return
			}
		}
	}
}

// checkTrace verifies that the recorded block starts tile C exactly once.
func (g *gemmCase) checkTrace(c *vrt.Ctx, t *gemmTrace) (nblocks int, fp uint64) {
	t.mu.Lock()
	blocks := append([]blockRec(nil), t.blocks...)
	dbl := append([]bool(nil), t.double...)
	t.mu.Unlock()
	fp = uint64(len(blocks))
	for _, b := range blocks {
		fp = mix(fp ^ uint64(b.i)<<24 ^ uint64(b.j))
	}
	sigBase := g.routine() + "|" + g.class() + "|ownership|"
	want := blocksOf(g.m) * blocksOf(g.n)
	for _, d := range dbl {
		if d != g.double {
			c.Violationf(sigBase+"block-of-wrong-precision", map[string]any{"case": g.String()}, "%s: block hook reported double=%v", g, d)
			return len(blocks), fp
		}
	}
	seen := map[[2]int]int{}
	covered := 0
	for _, b := range blocks {
		seen[[2]int{b.i, b.j}]++
		wi, wj := gemmBlock, gemmBlock
		if b.i+wi > g.m {
			wi = g.m - b.i
		}
		if b.j+wj > g.n {
			wj = g.n - b.j
		}
		if b.i < 0 || b.j < 0 || b.i >= g.m || b.j >= g.n || b.i%gemmBlock != 0 || b.j%gemmBlock != 0 || b.leni != wi || b.lenj != wj {
			c.Violationf(sigBase+"block-not-on-the-tiling", map[string]any{"case": g.String(), "block": fmt.Sprint(b)},
				"%s: block goroutine started for i=%d j=%d leni=%d lenj=%d, not a tile of the %dx%d result", g, b.i, b.j, b.leni, b.lenj, g.m, g.n)
			return len(blocks), fp
		}
		covered += b.leni * b.lenj
	}
	for k, n := range seen {
		if n > 1 {
			c.Violationf(sigBase+"block-started-more-than-once", map[string]any{"case": g.String(), "block": fmt.Sprint(k)},
				"%s: block (%d,%d) of C was handed to %d goroutines", g, k[0], k[1], n)
			return len(blocks), fp
		}
	}
	if len(blocks) != want || covered != g.m*g.n {
		c.Violationf(sigBase+"blocks-do-not-cover-C", map[string]any{"case": g.String(), "blocks": len(blocks), "want": want},
			"%s: %d block goroutines covering %d elements, want %d blocks covering %d", g, len(blocks), covered, want, g.m*g.n)
	}
	return len(blocks), fp
}

func firstDiff(a, b []uint64) int {
	for i := range a {
		if a[i] != b[i] {
			return i
		}
	}
	return -1
}

func runGemm(c *vrt.Ctx, race bool) {
	cases := buildGemmCases(c, race)
	reps := c.Pick(5, 50)
	procs := []int{1, 2, 4, 16}
	if race {
		reps = c.Pick(1, 10)
	}
	impl := blasgonum.Implementation{}
	setBlockHook(gemmHook)
	defer setBlockHook(nil)
	prev := runtime.GOMAXPROCS(0)
	defer runtime.GOMAXPROCS(prev)

	first := make([][]uint64, len(cases))        // bits of the very first execution
	firstP := make([]int, len(cases))            // GOMAXPROCS of that execution
	perP := make([]map[int][]uint64, len(cases)) // first bits seen under each GOMAXPROCS
	orders := make([]map[uint64]bool, len(cases))
	for i := range perP {
		perP[i] = map[int][]uint64{}
		orders[i] = map[uint64]bool{}
	}
	var maxRatio float64
	var calls, parCalls int64
	for rep := 0; rep < reps; rep++ {
		// Rotate the order of the GOMAXPROCS values so that the reference
		// execution is not always the single-threaded one.
		for pi := range procs {
			p := procs[(pi+rep)%len(procs)]
			runtime.GOMAXPROCS(p)
			for ci, g := range cases {
				r := c.RNG("gemm-run", rep, p, ci)
				tr := &gemmTrace{p: newPerturb(r, !race)}
				c.LastCase(fmt.Sprintf("gemm %s GOMAXPROCS=%d rep=%d pattern=%s", g, p, rep, patternNames[tr.p.pattern]))
				curTrace.Store(tr)
				bits := g.call(impl)
				curTrace.Store(nil)
				calls++
				nb, fp := blocksOf(g.m)*blocksOf(g.n), uint64(0)
				if hooksAvailable {
					nb, fp = g.checkTrace(c, tr)
				}
				if nb >= 4 {
					parCalls++
				}
				orders[ci][fp] = true
				c.Eval(fmt.Sprintf("gemm|%s|%s|%dx%dx%d|P=%d|%s", g.routine(), g.class(), g.m, g.n, g.k, p, patternNames[tr.p.pattern]), nb >= 4)
				if first[ci] == nil {
					first[ci], firstP[ci] = bits, p
					g.checkReference(c, bits, &maxRatio)
					g.checkPadding(c, bits)
					if c.WantSample() && ci%7 == 0 {
						c.Sample(map[string]any{"sub": "gemm", "case": g.String(), "blocks": nb, "GOMAXPROCS": p})
					}
				}
				if ref, ok := perP[ci][p]; !ok {
					perP[ci][p] = bits
				} else if d := firstDiff(ref, bits); d >= 0 {
					c.Violationf(g.routine()+"|"+g.class()+"|parallel|bits-differ-run-to-run",
						map[string]any{"case": g.String(), "GOMAXPROCS": p, "index": d, "seed_rep": rep},
						"%s: two executions under GOMAXPROCS=%d differ at C[%d,%d]: %#x vs %#x", g, p, d/g.ldc, d%g.ldc, ref[d], bits[d])
					continue
				}
				if d := firstDiff(first[ci], bits); d >= 0 && p != firstP[ci] {
					c.Violationf(g.routine()+"|"+g.class()+"|parallel|bits-differ-across-GOMAXPROCS",
						map[string]any{"case": g.String(), "GOMAXPROCS": []int{firstP[ci], p}, "index": d},
						"%s: result under GOMAXPROCS=%d differs from GOMAXPROCS=%d at C[%d,%d]: %#x vs %#x", g, p, firstP[ci], d/g.ldc, d%g.ldc, bits[d], first[ci][d])
				}
			}
		}
	}
	runtime.GOMAXPROCS(prev)
	var distinctOrders []int
	total := 0
	for _, o := range orders {
		distinctOrders = append(distinctOrders, len(o))
		total += len(o)
	}
	sort.Ints(distinctOrders)
	c.Count("gemm.calls", calls)
	c.Count("gemm.calls_on_parallel_path", parCalls)
	c.Count("gemm.distinct_block_start_orders", int64(total))
	c.Note("gemm.cases", len(cases))
	c.Note("gemm.repetitions_per_GOMAXPROCS", reps)
	c.Note("gemm.max_band_ratio", maxRatio)
	if len(distinctOrders) > 0 {
		c.Note("gemm.block_start_orders_per_case_min_median_max", []int{distinctOrders[0], distinctOrders[len(distinctOrders)/2], distinctOrders[len(distinctOrders)-1]})
	}
	if parCalls != calls {
		c.Inconclusive("gemm", fmt.Sprintf("%d of %d calls did not take the goroutine-parallel path", calls-parCalls, calls))
	}
}
