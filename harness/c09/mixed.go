package main

import (
	"fmt"
	"hash"
	"hash/adler32"
	"hash/crc32"
	"hash/crc64"
	"hash/fnv"
	"math"
	"runtime"
	"sort"
	"strings"
	"sync"

	"gonum.org/v1/gonum/blas"
	"gonum.org/v1/gonum/blas/blas64"
	"gonum.org/v1/gonum/lapack"
	"gonum.org/v1/gonum/lapack/lapack64"
	"gonum.org/v1/gonum/mat"
	"gonum.org/v1/gonum/spatial/r1"
	"gonum.org/v1/gonum/stat"
	"gonum.org/v1/gonum/stat/card"
	"gonum.org/v1/gonum/stat/distmat"
	"gonum.org/v1/gonum/stat/distmv"
	"gonum.org/v1/gonum/unit"
	"gonum.org/v1/gonum/verifx/vrt"
)

// ---- sub-check 4: mixed parallel use on disjoint data ---------------------------------------------------
//
// G goroutines each run a seeded script of operations on data they own.
// Every operation reduces its outputs (values, errors, recovered panics) to
// a digest. The digests of the concurrent run must equal, bit for bit, the
// digests of the same script run alone. The workspace-pool sanitizer (H1) is
// armed with poisoning: protocol errors and poison NaNs in results are
// violations.

type mixShared struct {
	normal  *distmv.Normal
	wishart *distmat.Wishart
	tag     string // distinguishes the solo and the concurrent pass in names entered into global registries
}

// Hash constructors registered with card.RegisterHash: sketches restored by
// UnmarshalBinary into zero-value receivers obtain their hash from that
// package-level registry. All are stateful (Write/Sum/Reset on one object).
var (
	mixHash32 = []func() hash.Hash32{fnv.New32, fnv.New32a, crc32.NewIEEE, adler32.New}
	mixHash64 = []func() hash.Hash64{fnv.New64, fnv.New64a, func() hash.Hash64 { return crc64.New(crc64.MakeTable(crc64.ISO)) }}
)

func registerMixHashes() {
	for _, f := range mixHash32 {
		card.RegisterHash(f)
	}
	for _, f := range mixHash64 {
		card.RegisterHash(f)
	}
}

func (o *mixOut) bytes(b []byte) {
	h := fnv.New64a()
	h.Write(b)
	o.words = append(o.words, uint64(len(b)), h.Sum64())
}

func cardItems(r *vrt.Rand, n int) [][]byte {
	items := make([][]byte, n)
	for i := range items {
		b := make([]byte, r.Range(1, 24))
		for j := range b {
			b[j] = byte(r.Uint64())
		}
		items[i] = b
	}
	return items
}

type mixOut struct {
	words  []uint64
	poison bool
}

func (o *mixOut) f(vs ...float64) {
	for _, v := range vs {
		if isPoison(v) {
			o.poison = true
		}
		o.words = append(o.words, math.Float64bits(v))
	}
}

func (o *mixOut) m(a mat.Matrix) {
	if a == nil {
		o.words = append(o.words, 0xdead)
		return
	}
	r, c := a.Dims()
	o.words = append(o.words, uint64(r)<<32|uint64(c))
	for i := 0; i < r; i++ {
		for j := 0; j < c; j++ {
			o.f(a.At(i, j))
		}
	}
}

func (o *mixOut) s(strs ...string) {
	for _, s := range strs {
		o.words = append(o.words, hashStr(s))
	}
}

func (o *mixOut) b(bs ...bool) {
	for _, b := range bs {
		if b {
			o.words = append(o.words, 1)
		} else {
			o.words = append(o.words, 2)
		}
	}
}

func (o *mixOut) e(err error) {
	if err == nil {
		o.words = append(o.words, 0)
		return
	}
	o.s(err.Error())
}

type mixOp struct {
	name string
	f    func(r *vrt.Rand, sh *mixShared, o *mixOut)
}

func rndDense(r *vrt.Rand, m, n int) *mat.Dense {
	return mat.NewDense(m, n, r.Floats(m*n, r.Sym))
}

func rndSPD(r *vrt.Rand, n int) *mat.SymDense {
	a := rndDense(r, n+2, n)
	var s mat.SymDense
	s.SymOuterK(1, a.T())
	for i := 0; i < n; i++ {
		s.SetSym(i, i, s.At(i, i)+0.5)
	}
	return &s
}

func rndSingular(r *vrt.Rand, n int) *mat.Dense {
	a := rndDense(r, n, n)
	if n == 1 {
		a.Set(0, 0, 0)
		return a
	}
	// last row = first row: exactly singular
	for j := 0; j < n; j++ {
		a.Set(n-1, j, a.At(0, j))
	}
	return a
}

func hilbert(n int) *mat.Dense {
	a := mat.NewDense(n, n, nil)
	for i := 0; i < n; i++ {
		for j := 0; j < n; j++ {
			a.Set(i, j, 1/float64(i+j+1))
		}
	}
	return a
}

func dim(r *vrt.Rand) int {
	switch r.Intn(10) {
	case 0:
		return 1
	case 1:
		return r.Range(30, 45)
	}
	return r.Range(2, 14)
}

var mixOps = []mixOp{
	{"Dense.Mul", func(r *vrt.Rand, _ *mixShared, o *mixOut) {
		m, k, n := dim(r), dim(r), dim(r)
		if r.Intn(8) == 0 {
			m, k, n = r.PickInt(65, 130), r.PickInt(3, 70), r.PickInt(129, 70) // >= 4 blocks: goroutine-parallel gemm
		}
		a, b := rndDense(r, m, k), rndDense(r, k, n)
		var c mat.Dense
		c.Mul(a, b)
		o.m(&c)
	}},
	{"Dense.Mul-transposed", func(r *vrt.Rand, _ *mixShared, o *mixOut) {
		m, k, n := dim(r), dim(r), dim(r)
		a, b := rndDense(r, k, m), rndDense(r, n, k)
		var c mat.Dense
		c.Mul(a.T(), b.T())
		o.m(&c)
		var d mat.Dense
		d.Mul(a.T(), a)
		o.m(&d)
	}},
	{"Dense.Product", func(r *vrt.Rand, _ *mixShared, o *mixOut) {
		d := []int{dim(r), dim(r), dim(r), dim(r), dim(r)}
		var c mat.Dense
		c.Product(rndDense(r, d[0], d[1]), rndDense(r, d[1], d[2]), rndDense(r, d[2], d[3]), rndDense(r, d[3], d[4]))
		o.m(&c)
	}},
	{"Dense.Mul-shape-panic", func(r *vrt.Rand, _ *mixShared, o *mixOut) {
		a, b := rndDense(r, 3, 4), rndDense(r, 5, 2)
		var c mat.Dense
		c.Mul(a, b)
		o.m(&c)
	}},
	{"Dense.Solve", func(r *vrt.Rand, _ *mixShared, o *mixOut) {
		n, k := dim(r), r.Range(1, 4)
		a, b := rndDense(r, n, n), rndDense(r, n, k)
		for i := 0; i < n; i++ {
			a.Set(i, i, a.At(i, i)+float64(n))
		}
		var x mat.Dense
		o.e(x.Solve(a, b))
		o.m(&x)
	}},
	{"Dense.Solve-singular", func(r *vrt.Rand, _ *mixShared, o *mixOut) {
		n := dim(r)
		a, b := rndSingular(r, n), rndDense(r, n, 2)
		var x mat.Dense
		o.e(x.Solve(a, b))
	}},
	{"Dense.Solve-ill-conditioned", func(r *vrt.Rand, _ *mixShared, o *mixOut) {
		n := r.Range(9, 13)
		a, b := hilbert(n), rndDense(r, n, 1)
		var x mat.Dense
		o.e(x.Solve(a, b))
		o.m(&x)
	}},
	{"Dense.Solve-least-squares", func(r *vrt.Rand, _ *mixShared, o *mixOut) {
		m, n := r.Range(2, 20), r.Range(2, 20)
		a, b := rndDense(r, m, n), rndDense(r, m, 2)
		var x mat.Dense
		o.e(x.Solve(a, b))
		o.m(&x)
	}},
	{"Dense.Solve-rank-deficient-ls", func(r *vrt.Rand, _ *mixShared, o *mixOut) {
		m, n := r.Range(4, 12), r.Range(2, 4)
		a := rndDense(r, m, n)
		for i := 0; i < m; i++ {
			a.Set(i, n-1, a.At(i, 0)) // two equal columns
		}
		var x mat.Dense
		o.e(x.Solve(a, rndDense(r, m, 1)))
	}},
	{"Dense.Solve-shape-panic", func(r *vrt.Rand, _ *mixShared, o *mixOut) {
		var x mat.Dense
		o.e(x.Solve(rndDense(r, 4, 4), rndDense(r, 3, 1)))
	}},
	{"VecDense.SolveVec", func(r *vrt.Rand, _ *mixShared, o *mixOut) {
		n := dim(r)
		a := rndDense(r, n, n)
		for i := 0; i < n; i++ {
			a.Set(i, i, a.At(i, i)+float64(n))
		}
		var x mat.VecDense
		o.e(x.SolveVec(a, mat.NewVecDense(n, r.Floats(n, r.Sym))))
		o.m(&x)
		var y mat.VecDense
		o.e(y.SolveVec(rndSingular(r, n), mat.NewVecDense(n, r.Floats(n, r.Sym))))
	}},
	{"Dense.Inverse", func(r *vrt.Rand, _ *mixShared, o *mixOut) {
		n := dim(r)
		a := rndDense(r, n, n)
		for i := 0; i < n; i++ {
			a.Set(i, i, a.At(i, i)+float64(n))
		}
		var x mat.Dense
		o.e(x.Inverse(a))
		o.m(&x)
	}},
	{"Dense.Inverse-singular", func(r *vrt.Rand, _ *mixShared, o *mixOut) {
		var x mat.Dense
		o.e(x.Inverse(rndSingular(r, dim(r))))
	}},
	{"Dense.Inverse-ill-conditioned", func(r *vrt.Rand, _ *mixShared, o *mixOut) {
		var x mat.Dense
		o.e(x.Inverse(hilbert(r.Range(9, 14))))
		o.m(&x)
	}},
	{"Dense.Inverse-extreme-scaling", func(r *vrt.Rand, _ *mixShared, o *mixOut) {
		// Non-zero pivots (Getrf succeeds) but a reciprocal condition number
		// that underflows or is tiny: the later error returns of Inverse/Solve.
		n := r.Range(2, 6)
		a := mat.NewDense(n, n, nil)
		for i := 0; i < n; i++ {
			a.Set(i, i, r.Uniform(1, 2))
			if i+1 < n {
				a.Set(i, i+1, r.Sym())
			}
		}
		a.Set(n-1, n-1, r.PickFloat(1e-310, 1e-300, 5e-324, 1e-200))
		a.Set(0, 0, r.PickFloat(1, 1e300, 1e150))
		var x, y mat.Dense
		o.e(x.Inverse(a))
		o.e(y.Solve(a, rndDense(r, n, 1)))
		var lu mat.LU
		lu.Factorize(a)
		o.f(lu.Cond())
		var z mat.Dense
		o.e(lu.SolveTo(&z, false, rndDense(r, n, 1)))
	}},
	{"LU", func(r *vrt.Rand, _ *mixShared, o *mixOut) {
		n := dim(r)
		a := rndDense(r, n, n)
		if r.Intn(4) == 0 {
			a = rndSingular(r, n)
		}
		var lu mat.LU
		lu.Factorize(a)
		o.f(lu.Det(), lu.Cond())
		var x mat.Dense
		o.e(lu.SolveTo(&x, r.Bool(), rndDense(r, n, 2)))
		var l, u mat.TriDense
		lu.LTo(&l)
		lu.UTo(&u)
		o.m(&l)
		o.m(&u)
	}},
	{"QR-LQ", func(r *vrt.Rand, _ *mixShared, o *mixOut) {
		m, n := r.Range(3, 20), r.Range(1, 3)
		a := rndDense(r, m, n)
		var qr mat.QR
		qr.Factorize(a)
		var q, rr, x mat.Dense
		qr.QTo(&q)
		qr.RTo(&rr)
		o.m(&q)
		o.m(&rr)
		o.f(qr.Cond())
		o.e(qr.SolveTo(&x, false, rndDense(r, m, 2)))
		o.m(&x)
		var lq mat.LQ
		lq.Factorize(a.T())
		var y mat.Dense
		o.e(lq.SolveTo(&y, false, rndDense(r, n, 1)))
		o.m(&y)
	}},
	{"Cholesky", func(r *vrt.Rand, _ *mixShared, o *mixOut) {
		n := dim(r)
		s := rndSPD(r, n)
		var ch mat.Cholesky
		ok := ch.Factorize(s)
		o.b(ok)
		if !ok {
			return
		}
		o.f(ch.Det(), ch.LogDet(), ch.Cond())
		var x mat.Dense
		o.e(ch.SolveTo(&x, rndDense(r, n, 2)))
		o.m(&x)
		var inv mat.SymDense
		o.e(ch.InverseTo(&inv))
		o.m(&inv)
		var up mat.Cholesky
		o.b(up.SymRankOne(&ch, 0.5, mat.NewVecDense(n, r.Floats(n, r.Sym))))
		var ext mat.Cholesky
		v := r.Floats(n+1, r.Sym)
		v[n] = float64(n) + 3
		o.b(ext.ExtendVecSym(&ch, mat.NewVecDense(n+1, v)))
		var t mat.TriDense
		up.UTo(&t)
		o.m(&t)
	}},
	{"Cholesky-not-positive-definite", func(r *vrt.Rand, _ *mixShared, o *mixOut) {
		n := r.Range(2, 12)
		s := rndSPD(r, n)
		s.SetSym(n-1, n-1, -1)
		var ch mat.Cholesky
		o.b(ch.Factorize(s))
		var down mat.Cholesky
		var ok2 mat.Cholesky
		good := rndSPD(r, n)
		o.b(ok2.Factorize(good))
		big := make([]float64, n)
		for i := range big {
			big[i] = 100
		}
		// downdate that destroys positive definiteness: ok == false path
		o.b(down.SymRankOne(&ok2, -1, mat.NewVecDense(n, big)))
	}},
	{"SVD", func(r *vrt.Rand, _ *mixShared, o *mixOut) {
		m, n := r.Range(1, 14), r.Range(1, 14)
		a := rndDense(r, m, n)
		var svd mat.SVD
		kind := mat.SVDKind(mat.SVDThin)
		if r.Bool() {
			kind = mat.SVDFull
		}
		o.b(svd.Factorize(a, kind))
		o.f(svd.Values(nil)...)
		var u, v mat.Dense
		svd.UTo(&u)
		svd.VTo(&v)
		o.m(&u)
		o.m(&v)
		rk := svd.Rank(1e-12)
		var x mat.Dense
		o.f(svd.SolveTo(&x, rndDense(r, m, 2), rk)...)
		o.m(&x)
	}},
	{"Eigen", func(r *vrt.Rand, _ *mixShared, o *mixOut) {
		n := r.Range(1, 12)
		var e mat.Eigen
		o.b(e.Factorize(rndDense(r, n, n), mat.EigenBoth))
		for _, v := range e.Values(nil) {
			o.f(real(v), imag(v))
		}
		var es mat.EigenSym
		o.b(es.Factorize(rndSPD(r, n), true))
		o.f(es.Values(nil)...)
		var ev mat.Dense
		es.VectorsTo(&ev)
		o.m(&ev)
	}},
	{"Dense.Pow-Exp", func(r *vrt.Rand, _ *mixShared, o *mixOut) {
		n := r.Range(1, 10)
		a := rndDense(r, n, n)
		var p, e mat.Dense
		p.Pow(a, r.Intn(10))
		o.m(&p)
		a.Scale(0.5, a)
		e.Exp(a)
		o.m(&e)
	}},
	{"SymDense.SymRankK", func(r *vrt.Rand, _ *mixShared, o *mixOut) {
		n, k := dim(r), r.Range(1, 9)
		s := rndSPD(r, n)
		var d mat.SymDense
		d.SymRankK(s, 0.75, rndDense(r, n, k))
		o.m(&d)
		var q mat.SymDense
		q.SymOuterK(-0.5, rndDense(r, n, k))
		o.m(&q)
		var one mat.SymDense
		one.SymRankOne(s, 2, mat.NewVecDense(n, r.Floats(n, r.Sym)))
		o.m(&one)
	}},
	{"mat.Det-Cond-Norm", func(r *vrt.Rand, _ *mixShared, o *mixOut) {
		n := dim(r)
		a := rndDense(r, n, n)
		ld, sign := mat.LogDet(a)
		o.f(mat.Det(a), ld, sign, mat.Cond(a, 1), mat.Cond(a, 2), mat.Norm(a, 2))
	}},
	{"lapack64.Potrf-Getrf-Getri", func(r *vrt.Rand, _ *mixShared, o *mixOut) {
		n := dim(r)
		s := rndSPD(r, n)
		t, ok := lapack64.Potrf(s.RawSymmetric())
		o.b(ok)
		o.f(t.Data...)
		a := rndDense(r, n, n)
		if r.Intn(4) == 0 {
			a = rndSingular(r, n)
		}
		g := a.RawMatrix()
		ipiv := make([]int, n)
		ok = lapack64.Getrf(g, ipiv)
		o.b(ok)
		o.f(g.Data...)
		b := rndDense(r, n, 2).RawMatrix()
		if ok {
			lapack64.Getrs(blas.NoTrans, g, b, ipiv)
			o.f(b.Data...)
			work := make([]float64, 1)
			lapack64.Getri(g, ipiv, work, -1)
			work = make([]float64, int(work[0]))
			o.b(lapack64.Getri(g, ipiv, work, len(work)))
			o.f(g.Data...)
		}
	}},
	{"lapack64.Geqrf-Gels-Syev-Gesvd", func(r *vrt.Rand, _ *mixShared, o *mixOut) {
		m, n := r.Range(2, 16), r.Range(1, 8)
		if m < n {
			m, n = n, m
		}
		a := rndDense(r, m, n).RawMatrix()
		tau := make([]float64, n)
		work := make([]float64, 1)
		lapack64.Geqrf(a, tau, work, -1)
		work = make([]float64, int(work[0]))
		lapack64.Geqrf(a, tau, work, len(work))
		o.f(a.Data...)
		o.f(tau...)
		a2 := rndDense(r, m, n).RawMatrix()
		b := rndDense(r, m, 2).RawMatrix()
		work = make([]float64, 1)
		lapack64.Gels(blas.NoTrans, a2, b, work, -1)
		work = make([]float64, int(work[0]))
		o.b(lapack64.Gels(blas.NoTrans, a2, b, work, len(work)))
		o.f(b.Data...)
		s := rndSPD(r, n).RawSymmetric()
		w := make([]float64, n)
		work = make([]float64, 1)
		lapack64.Syev(lapack.EVCompute, s, w, work, -1)
		work = make([]float64, int(work[0]))
		o.b(lapack64.Syev(lapack.EVCompute, s, w, work, len(work)))
		o.f(w...)
		a3 := rndDense(r, m, n).RawMatrix()
		sv := make([]float64, n)
		u := blas64.General{Rows: m, Cols: n, Stride: n, Data: make([]float64, m*n)}
		vt := blas64.General{Rows: n, Cols: n, Stride: n, Data: make([]float64, n*n)}
		work = make([]float64, 1)
		lapack64.Gesvd(lapack.SVDStore, lapack.SVDStore, a3, u, vt, sv, work, -1)
		work = make([]float64, int(work[0]))
		o.b(lapack64.Gesvd(lapack.SVDStore, lapack.SVDStore, a3, u, vt, sv, work, len(work)))
		o.f(sv...)
		o.f(u.Data...)
	}},
	{"stat.CovarianceMatrix", func(r *vrt.Rand, _ *mixShared, o *mixOut) {
		n, d := r.Range(2, 40), r.Range(1, 8)
		x := rndDense(r, n, d)
		var w []float64
		if r.Bool() {
			w = r.Floats(n, func() float64 { return r.Uniform(0.1, 2) })
		}
		var cov, cor mat.SymDense
		stat.CovarianceMatrix(&cov, x, w)
		stat.CorrelationMatrix(&cor, x, w)
		o.m(&cov)
		o.m(&cor)
		var ch mat.Cholesky
		if ch.Factorize(&cov) {
			o.f(stat.Mahalanobis(mat.NewVecDense(d, r.Floats(d, r.Sym)), mat.NewVecDense(d, r.Floats(d, r.Sym)), &ch))
		}
	}},
	{"stat.PC", func(r *vrt.Rand, _ *mixShared, o *mixOut) {
		n, d := r.Range(2, 30), r.Range(1, 7)
		x := rndDense(r, n, d)
		var w []float64
		if r.Bool() {
			w = r.Floats(n, func() float64 { return r.Uniform(0.1, 2) })
		}
		var pc stat.PC
		ok := pc.PrincipalComponents(x, w)
		o.b(ok)
		if ok {
			o.f(pc.VarsTo(nil)...)
			var v mat.Dense
			pc.VectorsTo(&v)
			o.m(&v)
		}
	}},
	{"stat.CC", func(r *vrt.Rand, _ *mixShared, o *mixOut) {
		n, dx, dy := r.Range(8, 30), r.Range(1, 4), r.Range(1, 4)
		x, y := rndDense(r, n, dx), rndDense(r, n, dy)
		if r.Intn(4) == 0 {
			// error path: a constant column makes the covariance singular
			for i := 0; i < n; i++ {
				x.Set(i, 0, 1)
			}
		}
		var cc stat.CC
		err := cc.CanonicalCorrelations(x, y, nil)
		o.e(err)
		if err == nil {
			o.f(cc.CorrsTo(nil)...)
			var l, rt mat.Dense
			cc.LeftTo(&l, r.Bool())
			cc.RightTo(&rt, false)
			o.m(&l)
			o.m(&rt)
		}
	}},
	{"distmv.Normal-shared", func(r *vrt.Rand, sh *mixShared, o *mixOut) {
		n := sh.normal.Dim()
		x := r.Floats(n, r.Sym)
		o.f(sh.normal.LogProb(x), sh.normal.Prob(x), sh.normal.Entropy())
		o.f(sh.normal.ScoreInput(nil, x)...)
		o.f(sh.normal.TransformNormal(nil, x)...)
		p := r.Floats(n, func() float64 { return r.Uniform(0.05, 0.95) })
		o.f(sh.normal.Quantile(nil, p)...)
		var cov mat.SymDense
		sh.normal.CovarianceMatrix(&cov)
		o.m(&cov)
		marg, ok := sh.normal.MarginalNormal([]int{0, n - 1}, nil)
		o.b(ok)
		if ok {
			o.f(marg.LogProb([]float64{x[0], x[1]}))
		}
		cond, ok := sh.normal.ConditionNormal([]int{1}, []float64{x[1]}, nil)
		o.b(ok)
		if ok {
			o.f(cond.Mean(nil)...)
			var cc mat.SymDense
			cond.CovarianceMatrix(&cc)
			o.m(&cc)
		}
	}},
	{"distmat.Wishart-shared", func(r *vrt.Rand, sh *mixShared, o *mixOut) {
		d := 5
		var mean mat.SymDense
		if r.Bool() {
			sh.wishart.MeanSymTo(&mean)
			o.m(&mean)
		}
		x := rndSPD(r, d)
		o.f(sh.wishart.LogProbSym(x), sh.wishart.ProbSym(x))
		var ch mat.Cholesky
		if ch.Factorize(x) {
			o.f(sh.wishart.LogProbSymChol(&ch))
		}
		x.SetSym(d-1, d-1, -3) // not positive definite: -Inf path
		o.f(sh.wishart.LogProbSym(x))
		sh.wishart.MeanSymTo(&mean)
		o.m(&mean)
	}},
	{"distmv.NewNormal", func(r *vrt.Rand, _ *mixShared, o *mixOut) {
		n := r.Range(1, 8)
		s := rndSPD(r, n)
		if r.Intn(3) == 0 {
			s.SetSym(0, 0, -1) // not positive definite: ok == false
		}
		nm, ok := distmv.NewNormal(r.Floats(n, r.Sym), s, vrt.NewRand(r.Uint64()))
		o.b(ok)
		if ok {
			o.f(nm.Rand(nil)...)
			o.f(nm.LogProb(r.Floats(n, r.Sym)))
		}
		w, ok := distmat.NewWishart(rndSPD(r, n), float64(n)+1.5, vrt.NewRand(r.Uint64()))
		o.b(ok)
		if ok {
			var rs mat.SymDense
			w.RandSymTo(&rs)
			o.m(&rs)
		}
	}},
}

// Operations on objects obtained through package-level registries and
// factories (round 4): every goroutine owns its objects, but a library that
// hands out shared state behind them would make them interfere.
var mixOpsRegistry = []mixOp{
	{"card.HyperLogLog32-restored", func(r *vrt.Rand, _ *mixShared, o *mixOut) {
		hf := mixHash32[r.Intn(len(mixHash32))]
		prec := r.Range(4, 10)
		restore := func(seedItems int) *card.HyperLogLog32 {
			src, err := card.NewHyperLogLog32(prec, hf())
			o.e(err)
			for _, it := range cardItems(r, seedItems) {
				src.Write(it)
			}
			blob, err := src.MarshalBinary()
			o.e(err)
			var sk card.HyperLogLog32 // zero value: the registry supplies the hash
			o.e(sk.UnmarshalBinary(blob))
			o.f(sk.Count(), src.Count())
			return &sk
		}
		a, b := restore(r.Intn(50)), restore(r.Intn(50))
		for _, it := range cardItems(r, r.Range(300, 900)) {
			a.Write(it)
			if len(it)&1 == 0 {
				b.Write(it)
			}
		}
		o.f(a.Count(), b.Count())
		var u card.HyperLogLog32
		o.e(u.Union(a, b))
		o.f(u.Count())
		ba, err := a.MarshalBinary()
		o.e(err)
		o.bytes(ba)
		// reuse after Reset
		a.Reset()
		for _, it := range cardItems(r, 100) {
			a.Write(it)
		}
		o.f(a.Count())
		// restoring into a sketch that already has a hash of the right type
		keep, _ := card.NewHyperLogLog32(prec, hf())
		o.e(keep.UnmarshalBinary(ba))
		keep.Write([]byte("c09"))
		o.f(keep.Count())
	}},
	{"card.HyperLogLog64-restored", func(r *vrt.Rand, _ *mixShared, o *mixOut) {
		hf := mixHash64[r.Intn(len(mixHash64))]
		prec := r.Range(4, 12)
		restore := func(seedItems int) *card.HyperLogLog64 {
			src, err := card.NewHyperLogLog64(prec, hf())
			o.e(err)
			for _, it := range cardItems(r, seedItems) {
				src.Write(it)
			}
			blob, err := src.MarshalBinary()
			o.e(err)
			var sk card.HyperLogLog64
			o.e(sk.UnmarshalBinary(blob))
			o.f(sk.Count(), src.Count())
			return &sk
		}
		a, b := restore(r.Intn(50)), restore(r.Intn(50))
		for _, it := range cardItems(r, r.Range(300, 900)) {
			a.Write(it)
			if len(it)&1 == 0 {
				b.Write(it)
			}
		}
		o.f(a.Count(), b.Count())
		var u card.HyperLogLog64
		o.e(u.Union(a, b))
		o.f(u.Count())
		ba, err := a.MarshalBinary()
		o.e(err)
		o.bytes(ba)
		a.Reset()
		for _, it := range cardItems(r, 100) {
			a.Write(it)
		}
		o.f(a.Count())
		keep, _ := card.NewHyperLogLog64(prec, hf())
		o.e(keep.UnmarshalBinary(ba))
		keep.Write([]byte("c09"))
		o.f(keep.Count())
	}},
	{"unit-registry-values", func(r *vrt.Rand, sh *mixShared, o *mixOut) {
		// A dimension of its own, created through the global registry, then
		// arithmetic and formatting (which reads the registry) on values
		// that use it together with the built-in dimensions.
		sym := fmt.Sprintf("c09%s%x", sh.tag, r.Uint64())
		o.b(unit.SymbolExists(sym))
		d := unit.NewDimension(sym)
		o.b(unit.SymbolExists(sym))
		clean := func(s string) string { return strings.ReplaceAll(s, sym, "SYM") }
		o.s(clean(d.String()))
		a := unit.New(r.Uniform(1, 9), unit.Dimensions{d: 2, unit.LengthDim: 1})
		b := unit.New(r.Uniform(1, 9), unit.Dimensions{d: -1, unit.MassDim: 1, unit.TimeDim: -2})
		for k := 0; k < 20; k++ {
			a.Mul(b)
			o.s(clean(fmt.Sprintf("%v|%.3e|%+v", a, a, a.Dimensions())))
			a.Div(b)
			o.b(unit.DimensionsMatch(a, b), unit.SymbolExists(sym))
		}
		c := unit.New(2, unit.Dimensions{d: 2, unit.LengthDim: 1})
		a.Add(c)
		o.f(a.Value())
		o.s(clean(fmt.Sprint(a)), fmt.Sprint(unit.Length(3).Unit(), unit.Mass(2*unit.Kilo), unit.Pressure(4)))
		// duplicate registration must panic and leave the registry usable
		p := vrt.TryFast(func() { unit.NewDimension(sym) })
		o.b(p != nil)
		o.s(clean(d.String()))
	}},
	{"distmv-constructed-instances", func(r *vrt.Rand, _ *mixShared, o *mixOut) {
		n := r.Range(1, 6)
		st, ok := distmv.NewStudentsT(r.Floats(n, r.Sym), rndSPD(r, n), r.Uniform(2.5, 9), vrt.NewRand(r.Uint64()))
		o.b(ok)
		if ok {
			for k := 0; k < 5; k++ {
				x := st.Rand(nil)
				o.f(x...)
				o.f(st.LogProb(x))
			}
			var cov mat.SymDense
			st.CovarianceMatrix(&cov)
			o.m(&cov)
		}
		al := r.Floats(n+1, func() float64 { return r.Uniform(0.3, 4) })
		di := distmv.NewDirichlet(al, vrt.NewRand(r.Uint64()))
		for k := 0; k < 5; k++ {
			x := di.Rand(nil)
			o.f(x...)
			o.f(di.LogProb(x))
		}
		bnds := make([]r1.Interval, n)
		for i := range bnds {
			bnds[i] = r1.Interval{Min: -r.Uniform(0.1, 2), Max: r.Uniform(0.1, 2)}
		}
		un := distmv.NewUniform(bnds, vrt.NewRand(r.Uint64()))
		for k := 0; k < 5; k++ {
			x := un.Rand(nil)
			o.f(x...)
			o.f(un.LogProb(x), un.Entropy())
		}
		nm, ok := distmv.NewNormal(r.Floats(n, r.Sym), rndSPD(r, n), vrt.NewRand(r.Uint64()))
		o.b(ok)
		if ok {
			for k := 0; k < 5; k++ {
				o.f(nm.Rand(nil)...)
			}
		}
		pm := distmat.NewUniformPermutation(vrt.NewRand(r.Uint64()))
		pd := mat.NewDense(n+2, n+2, nil)
		pm.PermTo(pd)
		o.m(pd)
		w, ok := distmat.NewWishart(rndSPD(r, n), float64(n)+2, vrt.NewRand(r.Uint64()))
		o.b(ok)
		if ok {
			var rs, mean mat.SymDense
			for k := 0; k < 3; k++ {
				w.RandSymTo(&rs)
				o.m(&rs)
				o.f(w.LogProbSym(&rs))
			}
			w.MeanSymTo(&mean)
			o.m(&mean)
		}
	}},
}

func init() { mixOps = append(mixOps, mixOpsRegistry...) }

func newMixShared(r *vrt.Rand) *mixShared {
	n := 6
	nm, ok := distmv.NewNormal(r.Floats(n, r.Sym), rndSPD(r, n), nil)
	if !ok {
		panic("c09: shared Normal not positive definite")
	}
	w, ok := distmat.NewWishart(rndSPD(r, 5), 9, nil)
	if !ok {
		panic("c09: shared Wishart not positive definite")
	}
	return &mixShared{normal: nm, wishart: w}
}

type scriptStep struct {
	op   int
	seed uint64
}

type stepResult struct {
	digest uint64
	panic  string
	poison bool
}

func runStep(st scriptStep, sh *mixShared) stepResult {
	o := &mixOut{}
	var res stepResult
	p := vrt.TryFast(func() { mixOps[st.op].f(vrt.NewRand(st.seed), sh, o) })
	if p != nil {
		res.panic = p.Msg
		if p.Runtime {
			res.panic = "runtime: " + p.Msg
		}
		o.s(res.panic)
	}
	res.digest = hashWords(o.words...)
	res.poison = o.poison
	return res
}

func mixHook(double bool, i, j, leni, lenj int) {
	if mix(uint64(i)<<20^uint64(j))&1 == 0 {
		runtime.Gosched()
	}
}

// poolErrSig classifies a pool sanitizer error string into
// (kind of protocol error, first non-pool gonum function on the stack).
func poolErrSig(e string) string {
	kind := "protocol-error"
	switch {
	case strings.Contains(e, "still outstanding"):
		kind = "buffer-handed-out-twice"
	case strings.Contains(e, "not outstanding"):
		kind = "put-of-buffer-not-outstanding"
	case strings.Contains(e, "obtained from pool"):
		kind = "put-into-wrong-pool"
	}
	who := "unknown"
	for _, f := range strings.Split(e, " <- ")[1:] {
		f = strings.TrimSpace(f)
		l := strings.ToLower(f)
		if strings.Contains(l, "verifpool") || strings.Contains(l, "workspace") || strings.Contains(l, "getfloat") || strings.Contains(l, "putfloat") || strings.Contains(l, "getints") || strings.Contains(l, "putints") {
			continue
		}
		who = strings.TrimPrefix(f, "gonum.org/v1/gonum/")
		break
	}
	return "pool|" + who + "|" + kind
}

func runMixed(c *vrt.Ctx, race bool) {
	rounds, steps := c.Pick(6, 16), c.Pick(40, 80)
	if race {
		rounds, steps = c.Pick(2, 10), c.Pick(31, 64)
	}
	gs := []int{2, 8, 32}
	procs := []int{16, 4, 2}
	prev := runtime.GOMAXPROCS(0)
	defer runtime.GOMAXPROCS(prev)
	setBlockHook(mixHook)
	defer setBlockHook(nil)
	poolPoison(true)
	defer poolPoison(false)
	poolReset()
	registerMixHashes()
	var nops, npanics int64
	highWater := 0
	outstandingStart := poolSnapshot().outstanding
	panicsSeen := map[string]bool{}
	reportPool := func(where string) {
		snap := poolSnapshot()
		if snap.highWater > highWater {
			highWater = snap.highWater
		}
		for _, e := range snap.errors {
			c.Violationf(poolErrSig(e), map[string]any{"error": e, "where": where}, "workspace pool sanitizer (%s): %s", where, e)
		}
		c.Count("mixed.pool_gets", snap.gets)
		c.Count("mixed.pool_puts", snap.puts)
		poolReset()
	}
	round := 0
	for rep := 0; rep < rounds; rep++ {
		for _, g := range gs {
			round++
			p := procs[round%len(procs)]
			// Build the scripts: every goroutine gets its own op order and seeds.
			scripts := make([][]scriptStep, g)
			for gi := range scripts {
				r := c.RNG("mixed-script", rep, g, gi)
				perm := r.Perm(len(mixOps))
				for k := 0; k < steps; k++ {
					op := perm[k%len(perm)]
					if k >= len(perm) {
						op = r.Intn(len(mixOps))
					}
					scripts[gi] = append(scripts[gi], scriptStep{op: op, seed: r.Uint64()})
				}
			}
			shr := c.RNG("mixed-shared", rep, g)
			shSeed := shr.Uint64()
			shSolo := newMixShared(vrt.NewRand(shSeed))
			shConc := newMixShared(vrt.NewRand(shSeed))
			shSolo.tag, shConc.tag = fmt.Sprintf("s%dr%dg%d", c.Seed, rep, g), fmt.Sprintf("c%dr%dg%d", c.Seed, rep, g)
			// Solo pass: one script after the other, nothing else running.
			runtime.GOMAXPROCS(prev)
			c.LastCase(fmt.Sprintf("mixed solo pass rep=%d G=%d", rep, g))
			solo := make([][]stepResult, g)
			for gi, sc := range scripts {
				for _, st := range sc {
					solo[gi] = append(solo[gi], runStep(st, shSolo))
				}
			}
			reportPool("solo pass")
			// Concurrent pass.
			runtime.GOMAXPROCS(p)
			c.LastCase(fmt.Sprintf("mixed concurrent pass rep=%d G=%d GOMAXPROCS=%d", rep, g, p))
			conc := make([][]stepResult, g)
			var wg sync.WaitGroup
			start := make(chan struct{})
			for gi := range scripts {
				wg.Add(1)
				go func(gi int) {
					defer wg.Done()
					<-start
					out := make([]stepResult, 0, len(scripts[gi]))
					for _, st := range scripts[gi] {
						out = append(out, runStep(st, shConc))
					}
					conc[gi] = out
				}(gi)
			}
			close(start)
			wg.Wait()
			runtime.GOMAXPROCS(prev)
			reportPool(fmt.Sprintf("concurrent pass G=%d", g))
			for gi := range scripts {
				for k, st := range scripts[gi] {
					name := mixOps[st.op].name
					a, b := solo[gi][k], conc[gi][k]
					nops++
					c.Eval(fmt.Sprintf("mixed|%s|G=%d|P=%d", name, g, p), true)
					rp := map[string]any{"op": name, "op_seed": st.seed, "G": g, "goroutine": gi, "step": k, "GOMAXPROCS": p, "rep": rep}
					if b.panic != "" {
						npanics++
						panicsSeen[name+": "+b.panic] = true
					}
					if strings.HasPrefix(b.panic, "runtime: ") || strings.HasPrefix(a.panic, "runtime: ") {
						c.Violationf("mixed|"+name+"|runtime-panic", rp, "%s (seed %#x): runtime panic: solo %q, concurrent %q", name, st.seed, a.panic, b.panic)
					}
					if a.poison || b.poison {
						c.Violationf("mixed|"+name+"|pool-poison-in-result", rp, "%s (seed %#x): a result element is the workspace poison NaN (uninitialised or released workspace was read)", name, st.seed)
					}
					if a.digest != b.digest {
						c.Violationf("mixed|"+name+"|result-differs-from-solo-run", rp, "%s (seed %#x) as step %d of goroutine %d of %d: digest %#x concurrently vs %#x alone (panic: %q vs %q)", name, st.seed, k, gi, g, b.digest, a.digest, b.panic, a.panic)
					}
				}
			}
		}
	}
	if c.WantSample() {
		c.Sample(map[string]any{"sub": "mixed", "ops": len(mixOps), "steps_per_goroutine": steps, "G": gs, "rounds": rounds})
	}
	c.Count("mixed.operations_compared", nops)
	c.Count("mixed.expected_panics_recovered", npanics)
	c.Note("mixed.pool_high_water", highWater)
	c.Note("mixed.pool_outstanding_at_start", outstandingStart)
	c.Note("mixed.pool_outstanding_at_end", poolSnapshot().outstanding)
	var ps []string
	for k := range panicsSeen {
		ps = append(ps, k)
	}
	sort.Strings(ps)
	c.Note("mixed.panics_seen", ps)
}
