// Command c09 is the runtime monitor for property C09: results do not depend
// on goroutine scheduling and concurrent use of the library is race-free.
//
// It has five sub-checks (one file each):
//
//	gemm      parallel Dgemm/Sgemm: bit-identity over repetitions and GOMAXPROCS,
//	          block ownership trace (hook H3), rounding band against a reference
//	quadfd    quad.Fixed / diff/fd with concurrency: callback ledgers, serial
//	          equivalence, goroutine leaks
//	minimize  optimize.Minimize: protocol proxy Method, ledgers, every
//	          early-termination cause x Concurrent x methods, yields (hook H2)
//	mixed     many goroutines running seeded scripts of mat/lapack/stat/dist
//	          operations on disjoint data, pool sanitizer (hook H1)
//	registry  unit and stat/card registries: linearizability of recorded histories
//
// Modes (flag -mode, set per build variant in variants.json):
//
//	det       gemm, quadfd, mixed, registry      (asm build, bit-identity)
//	minimize  minimize only                      (timer-free child)
//	race      all five, reduced                  (noasm + race detector, hooks and ledgers active)
//	racepure  all five, reduced, no hooks, no ledgers, lock-free callbacks
//	          (noasm + race detector, built WITHOUT the verif tag: the pool
//	          sanitizer's global lock and the monitor's own mutexes would
//	          otherwise add happens-before edges that hide races)
package main

import (
	"flag"
	"strings"

	"gonum.org/v1/gonum/verifx/vrt"
)

var (
	mode = flag.String("mode", "det", "det | minimize | race | racepure")
	sub  = flag.String("sub", "", "comma separated sub-checks to run (debugging); empty = all of the mode")
)

func main() { vrt.Main("C09", run) }

func want(name string) bool {
	if *sub == "" {
		return true
	}
	for _, s := range strings.Split(*sub, ",") {
		if s == name {
			return true
		}
	}
	return false
}

// pure is set in the racepure mode: user callbacks take no locks and record
// nothing, no hooks are installed, and only results, termination, leaks and
// the race detector are observed.
var pure bool

func run(c *vrt.Ctx) {
	race := *mode == "race" || *mode == "racepure"
	pure = *mode == "racepure" || !hooksAvailable
	c.Note("hooks_available", hooksAvailable)
	switch *mode {
	case "det":
		if want("gemm") {
			runGemm(c, race)
		}
		if want("quadfd") {
			runQuadFD(c, race)
		}
		if want("mixed") {
			runMixed(c, race)
		}
		if want("registry") {
			runRegistry(c, race)
		}
	case "minimize":
		if want("minimize") {
			runMinimize(c, race)
		}
	case "race", "racepure":
		if want("gemm") {
			runGemm(c, race)
		}
		if want("quadfd") {
			runQuadFD(c, race)
		}
		if want("minimize") {
			runMinimize(c, race)
		}
		if want("mixed") {
			runMixed(c, race)
		}
		if want("registry") {
			runRegistry(c, race)
		}
	default:
		c.Inconclusive("mode", "unknown -mode "+*mode)
	}
}
