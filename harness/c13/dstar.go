package main

// D* Lite: the documented replanning loop (Step / UpdateWorld) on a mutable
// world, judged after every operation against the reference optimum from
// Here() in the *current* world.

import (
	"fmt"
	"math"
	"strings"

	"gonum.org/v1/gonum/graph"
	"gonum.org/v1/gonum/graph/path"
	"gonum.org/v1/gonum/graph/path/dynamic"
	"gonum.org/v1/gonum/graph/simple"
	"gonum.org/v1/gonum/verifx/vrt"
)

type dsOp struct {
	Op      string       `json:"op"`
	Changes [][3]float64 `json:"changes_from_to_weight,omitempty"` // weight +Inf rendered by San as string
	Here    int64        `json:"here_after"`
	PathW   string       `json:"path_weight_after"`
	RefW    string       `json:"reference_weight_after"`
}

type dsWitness struct {
	World   string  `json:"initial_world"`
	Start   int64   `json:"start"`
	Goal    int64   `json:"goal"`
	Heur    string  `json:"heuristic"`
	History []dsOp  `json:"history"`
	Path    []int64 `json:"observed_path"`
	Detail  string  `json:"detail"`
}

// guardedModel is the world model handed to D* Lite: a plain
// simple.WeightedDirectedGraph whose From/To queries are counted. Path()
// follows successor pointers until it reaches the goal; if the stored g
// values ever describe a cycle it never returns and appends to the path
// forever. A budget far above any legitimate use (worlds have <= 70 nodes;
// the budget is 2e6 queries per API call) turns that into a recoverable
// panic, so the history is reported instead of the process being killed.
type guardedModel struct {
	*simple.WeightedDirectedGraph
	budget int
}

const (
	modelBudget = 2000000
	runawayMsg  = "c13: world-model query budget exhausted"
)

func (m *guardedModel) From(id int64) graph.Nodes {
	if m.budget--; m.budget < 0 {
		panic(runawayMsg)
	}
	return m.WeightedDirectedGraph.From(id)
}

func (m *guardedModel) To(id int64) graph.Nodes {
	if m.budget--; m.budget < 0 {
		panic(runawayMsg)
	}
	return m.WeightedDirectedGraph.To(id)
}

// runDStar runs one history. Edge costs are positive integers (the D* Lite
// papers assume 0 < c <= Inf; gonum's own tests skip zero-weight cycles),
// except with zero=true: then costs are drawn from {0,0,1,2}, the heuristic
// is nil/Null, and every signature carries the class "zero-weight" (the doc
// comments of graph/path/dynamic only exclude negative weights).
func runDStar(c *vrt.Ctx, r *vrt.Rand, steps int, zero bool) {
	kind := r.Intn(4) // 0,1 grid; 2 planar; 3 random
	if zero && kind == 2 {
		kind = 3
	}
	cost := func(lo, hi int) float64 {
		if zero {
			return r.PickFloat(0, 0, 1, 2)
		}
		return float64(r.Range(lo, hi))
	}
	grid := kind <= 1
	planar := kind == 2
	var g *RG
	var rows, cols int
	var px, py []int
	euclid := func(i, j int) float64 { return math.Hypot(float64(px[i]-px[j]), float64(py[i]-py[j])) }
	switch {
	case grid:
		rows, cols = r.Range(2, 8), r.Range(2, 8)
		g = newRG(rows*cols, true, "dstar-grid")
		for y := 0; y < rows; y++ {
			for x := 0; x < cols; x++ {
				i := y*cols + x
				if x+1 < cols && !r.Chance(0.15) {
					g.setArc(i, i+1, cost(1, 4))
					g.setArc(i+1, i, cost(1, 4))
				}
				if y+1 < rows && !r.Chance(0.15) {
					g.setArc(i, i+cols, cost(1, 4))
					g.setArc(i+cols, i, cost(1, 4))
				}
			}
		}
	case planar:
		// random points with integer coordinates; arcs between near points
		// with integer cost >= Euclidean length, so the Euclidean distance is
		// a consistent heuristic for every world of the history.
		n := r.Range(5, 16)
		used := map[[2]int]bool{}
		for len(px) < n {
			x, y := r.Range(0, 10), r.Range(0, 10)
			if !used[[2]int{x, y}] {
				used[[2]int{x, y}] = true
				px, py = append(px, x), append(py, y)
			}
		}
		g = newRG(n, true, "dstar-planar")
		reach := r.Uniform(3, 7)
		for i := 0; i < n; i++ {
			for j := 0; j < n; j++ {
				if i != j && euclid(i, j) <= reach && r.Chance(0.8) {
					g.setArc(i, j, math.Ceil(euclid(i, j))+float64(r.Range(0, 3)))
				}
			}
		}
	default:
		n := r.Range(2, 14)
		g = newRG(n, true, "dstar-random")
		pal := palPos
		if zero {
			pal = palZero
		}
		fillRandom(r, g, r.Uniform(0.15, 0.5), pal, nil)
	}
	if zero {
		g.Class += "-zero"
	}
	n := g.N
	// room for nodes added later
	const extra = 3
	big := newRG(n+extra, true, g.Class)
	for i := 0; i < n; i++ {
		copy(big.W[i][:n], g.W[i])
	}
	g = big
	live := n // nodes [0,live) exist
	if !grid && !planar {
		assignIDs(r, g, r.Intn(2))
	}
	world := simple.NewWeightedDirectedGraph(0, math.Inf(1))
	for i := 0; i < live; i++ {
		world.AddNode(simple.Node(g.IDs[i]))
	}
	for i := 0; i < live; i++ {
		for j := 0; j < live; j++ {
			if g.has(i, j) {
				world.SetWeightedEdge(simple.WeightedEdge{F: simple.Node(g.IDs[i]), T: simple.Node(g.IDs[j]), W: g.W[i][j]})
			}
		}
	}
	s, t := r.Intn(n), r.Intn(n)
	wit := dsWitness{World: g.String(), Start: g.IDs[s], Goal: g.IDs[t]}

	// Floor costs: F[i][j] is the smallest cost the arc i->j can ever take in
	// this history (+Inf: the arc can never exist). Existing arcs start at or
	// slightly above their floor, so heuristics derived from the floors are
	// tight and many vertices stay unexpanded in D* Lite's queue.
	N := g.N
	F := make([][]float64, N)
	for i := range F {
		F[i] = make([]float64, N)
		for j := range F[i] {
			F[i][j] = pInf
			if i == j {
				continue
			}
			switch {
			case zero:
				F[i][j] = 0
				if grid {
					if i >= rows*cols || j >= rows*cols {
						F[i][j] = pInf
					} else if dx, dy := i%cols-j%cols, i/cols-j/cols; dx*dx+dy*dy != 1 {
						F[i][j] = pInf
					}
				}
			case grid:
				if i < rows*cols && j < rows*cols {
					if dx, dy := i%cols-j%cols, i/cols-j/cols; dx*dx+dy*dy == 1 {
						F[i][j] = float64(r.Range(1, 3))
					}
				}
			case planar:
				if i < len(px) && j < len(px) {
					F[i][j] = math.Ceil(euclid(i, j))
				}
			default:
				// arcs that do not exist yet can only be added at a high
				// cost, which keeps the floor metric close to the real
				// distances of the sparse world
				F[i][j] = float64(r.Range(3, 10))
			}
			if g.has(i, j) {
				w := g.W[i][j]
				switch {
				case zero:
					F[i][j] = 0
				case planar:
					// ceil(euclid) <= w by construction
				case grid:
					F[i][j] = math.Max(1, w-float64(r.PickInt(0, 0, 1, 2)))
				default:
					// tight: at most 2 below the initial cost
					F[i][j] = math.Max(1, w-float64(r.PickInt(0, 0, 1, 2)))
				}
			}
		}
	}
	// FD = all-pairs shortest distances over the floors (naive triple loop):
	// an integer metric that is a lower bound of the distance in every world
	// of the history and satisfies the triangle inequality exactly.
	FD := make([][]float64, N)
	for i := range FD {
		FD[i] = append([]float64(nil), F[i]...)
		FD[i][i] = 0
	}
	for k := 0; k < N; k++ {
		for i := 0; i < N; i++ {
			for j := 0; j < N; j++ {
				if x := FD[i][k] + FD[k][j]; x < FD[i][j] {
					FD[i][j] = x
				}
			}
		}
	}
	var h path.Heuristic
	wit.Heur = "nil"
	switch x := r.Intn(10); {
	case zero:
		if x < 5 {
			wit.Heur = "NullHeuristic"
			h = path.NullHeuristic
		}
	case x < 3 && grid:
		// Manhattan distance times a factor <= 1: consistent as long as
		// every arc joins grid neighbours and costs >= 1 (floors are >= 1).
		f := r.PickFloat(1, 0.5, 0.25)
		wit.Heur = fmt.Sprintf("manhattan*%g", f)
		h = func(a, b graph.Node) float64 {
			ai, bi := int(a.ID()), int(b.ID())
			if ai >= rows*cols || bi >= rows*cols {
				return 0
			}
			return f * (math.Abs(float64(ai%cols-bi%cols)) + math.Abs(float64(ai/cols-bi/cols)))
		}
	case x < 3 && planar:
		f := r.PickFloat(1, 1, 0.5)
		wit.Heur = fmt.Sprintf("euclid*%g", f)
		h = func(a, b graph.Node) float64 {
			ai, bi := int(a.ID()), int(b.ID())
			if ai >= len(px) || bi >= len(px) {
				return 0
			}
			return f * euclid(ai, bi)
		}
	case x < 8:
		// the floor metric scaled by 0 < f <= 1 (exact in float64)
		f := r.PickFloat(1, 1, 1, 0.5, 0.25)
		wit.Heur = fmt.Sprintf("floor-metric*%g", f)
		h = func(a, b graph.Node) float64 {
			ai, bi := g.idx(a.ID()), g.idx(b.ID())
			if ai < 0 || bi < 0 {
				return 0
			}
			if math.IsInf(FD[ai][bi], 1) {
				return 1e6 // never connected in any world of the history
			}
			return f * FD[ai][bi]
		}
	case x < 9:
		wit.Heur = "NullHeuristic"
		h = path.NullHeuristic
	}
	// minCost(i,j): the floor of the arc (+Inf: no such arc may be added).
	minCost := func(i, j int) float64 { return F[i][j] }
	class := g.Class + "|" + wit.Heur
	viol := func(clause string, detail string, p []graph.Node) {
		w := wit
		w.Detail = detail
		w.Path = idsOf(p)
		if zero {
			// one root cause (zero-weight cycles support each other's rhs
			// values and Path()'s greedy descent can cycle): the operation
			// is dropped from the signature, it stays in the detail
			detail = "after " + clause + ": " + detail
			if i := strings.IndexByte(clause, '|'); i >= 0 {
				clause = clause[i+1:]
			}
			if clause != "path-does-not-terminate" {
				clause = "wrong-plan" // suboptimal/absent plan, Step result: same root cause
			}
			clause = "zero-weight|" + clause
		}
		c.Violation("DStarLite|"+clause, detail+" world="+wit.World, w)
	}

	var d *dynamic.DStarLite
	model := &guardedModel{WeightedDirectedGraph: simple.NewWeightedDirectedGraph(0, math.Inf(1))}
	c.LastCase("NewDStarLite " + wit.World)
	if p := vrt.Try(func() {
		model.budget = modelBudget
		d = dynamic.NewDStarLite(simple.Node(g.IDs[s]), simple.Node(g.IDs[t]), world, h, model)
	}); p != nil {
		viol("new|panic", p.Msg+"\n"+p.Stack, nil)
		return
	}
	c.Eval("NewDStarLite|"+class, s != t)

	here := s
	var plan []graph.Node
	// check judges Path() against the reference in the current world.
	check := func(op string) (ref float64, ok bool) {
		restrict := &RG{N: live, IDs: g.IDs[:live], Directed: true, W: g.W}
		dist := restrict.ssspTo(t)
		ref = dist[here]
		var p []graph.Node
		var w float64
		model.budget = 50*live + 1000 // Path() makes one From query per node of the plan
		if pn := vrt.Try(func() { p, w = d.Path() }); pn != nil {
			if pn.Msg == runawayMsg {
				viol(op+"|path-does-not-terminate", "Path() made more than 50*n+1000 world-model queries (plan reconstruction cycles forever)", nil)
				return ref, false
			}
			viol(op+"|path-panic", pn.Msg+"\n"+pn.Stack, nil)
			return ref, false
		}
		c.Eval("DStarLite.Path|"+class+"|after-"+op, len(p) > 1)
		rec := &wit.History[len(wit.History)-1]
		rec.Here, rec.PathW, rec.RefW = g.IDs[here], fstr(w), fstr(ref)
		plan = p
		if hid := d.Here().ID(); hid != g.IDs[here] {
			viol(op+"|here", fmt.Sprintf("Here()=%d, expected %d", hid, g.IDs[here]), p)
			return ref, false
		}
		if math.IsInf(ref, 1) {
			if p != nil || !math.IsInf(w, 1) {
				viol(op+"|unreachable-goal-has-plan", fmt.Sprintf("Path() weight %g, goal unreachable", w), p)
				return ref, false
			}
			return ref, true
		}
		if w != ref {
			viol(op+"|plan-not-optimal", fmt.Sprintf("Path() weight %g, optimum %g from %d", w, ref, g.IDs[here]), p)
			return ref, false
		}
		if len(p) == 0 || p[0].ID() != g.IDs[here] || p[len(p)-1].ID() != g.IDs[t] {
			viol(op+"|plan-endpoints", "Path() does not lead from Here() to the goal", p)
			return ref, false
		}
		sum := 0.0
		for i := 1; i < len(p); i++ {
			a, b := g.idx(p[i-1].ID()), g.idx(p[i].ID())
			if a < 0 || b < 0 || a >= live || b >= live || !g.has(a, b) {
				viol(op+"|plan-not-a-walk", fmt.Sprintf("arc %d->%d is not in the current world", p[i-1].ID(), p[i].ID()), p)
				return ref, false
			}
			sum += g.W[a][b]
		}
		if sum != w {
			viol(op+"|plan-weight-sum", fmt.Sprintf("arc weights sum to %g, reported %g", sum, w), p)
			return ref, false
		}
		return ref, true
	}

	wit.History = append(wit.History, dsOp{Op: "new"})
	if _, ok := check("new"); !ok {
		return
	}

	setArc := func(i, j int, w float64, changes *[]graph.Edge, rec *dsOp) {
		g.W[i][j] = w
		u, v := simple.Node(g.IDs[i]), simple.Node(g.IDs[j])
		if math.IsInf(w, 1) {
			world.RemoveEdge(u.ID(), v.ID())
		} else {
			world.SetWeightedEdge(simple.WeightedEdge{F: u, T: v, W: w})
		}
		*changes = append(*changes, simple.Edge{F: u, T: v})
		rec.Changes = append(rec.Changes, [3]float64{float64(u), float64(v), w})
	}
	var cut [][3]float64 // arcs removed by "cut-goal", restored later
	restricted := func() *RG { return &RG{N: live, IDs: g.IDs[:live], Directed: true, W: g.W} }
	// MoveTo is deliberately not exercised: the property quantifies over Step
	// and UpdateWorld only (see OUT_OF_SCOPE_OBSERVATIONS.md).
	afterQuiet := 0 // Steps made since the last world change
	quiet := 0      // Steps left in the current run without a world change
	for step := 0; step < steps; step++ {
		if quiet == 0 && r.Chance(0.5) {
			quiet = r.Range(1, 5)
		}
		if quiet > 0 {
			quiet--
			// ---- Step ----
			distHere := restricted().ssspTo(t)
			wit.History = append(wit.History, dsOp{Op: "step"})
			var moved bool
			model.budget = modelBudget
			if pn := vrt.Try(func() { moved = d.Step() }); pn != nil {
				viol("step|panic", pn.Msg+"\n"+pn.Stack, nil)
				return
			}
			c.Eval("DStarLite.Step|"+class, moved)
			want := here != t && !math.IsInf(distHere[here], 1)
			if moved != want {
				viol("step|return-value", fmt.Sprintf("Step()=%v at %d (goal %d, optimum %g)", moved, g.IDs[here], g.IDs[t], distHere[here]), nil)
				return
			}
			if moved {
				ni := g.idx(d.Here().ID())
				if ni < 0 || ni >= live || !g.has(here, ni) || g.W[here][ni]+distHere[ni] != distHere[here] {
					viol("step|not-along-optimal-path", fmt.Sprintf("Step() moved %d->%d, which is not the first arc of an optimal path (optimum %g)", g.IDs[here], d.Here().ID(), distHere[here]), nil)
					return
				}
				here = ni
				afterQuiet++
			}
			if _, ok := check("step"); !ok {
				return
			}
			if r.Chance(0.4) {
				// the documented loop calls UpdateWorld after every step,
				// here with nothing to report
				var none []graph.Edge
				if r.Bool() {
					none = []graph.Edge{}
				}
				wit.History = append(wit.History, dsOp{Op: "update-nothing"})
				if pn := vrt.Try(func() { d.UpdateWorld(none) }); pn != nil {
					viol("update|panic", pn.Msg+"\n"+pn.Stack, nil)
					return
				}
				c.Eval("DStarLite.UpdateWorld|"+class+"|nothing", true)
				if _, ok := check("update"); !ok {
					return
				}
			}
			continue
		}
		// ---- UpdateWorld ----
		rec := dsOp{Op: "update"}
		var changes []graph.Edge
		kind := r.Intn(10)
		switch {
		case kind == 0 && len(cut) == 0: // make the goal unreachable
			rec.Op = "update-cut-goal"
			for i := 0; i < live; i++ {
				if g.has(i, t) {
					cut = append(cut, [3]float64{float64(i), float64(t), g.W[i][t]})
					setArc(i, t, pInf, &changes, &rec)
				}
			}
		case kind <= 2 && len(cut) > 0: // and reachable again
			rec.Op = "update-restore-goal"
			for _, a := range cut {
				setArc(int(a[0]), int(a[1]), a[2], &changes, &rec)
			}
			cut = nil
		case kind == 3 && live < g.N && !grid && !planar: // a new node with arcs in and out
			rec.Op = "update-add-node"
			ni := live
			live++
			if g.idm != nil {
				g.idm = nil
			}
			world.AddNode(simple.Node(g.IDs[ni]))
			for c := 0; c < 2; c++ {
				a := r.Intn(ni)
				setArc(a, ni, F[a][ni]+float64(r.Range(0, 5)), &changes, &rec)
				b := r.Intn(ni)
				setArc(ni, b, F[ni][b]+float64(r.Range(0, 5)), &changes, &rec)
			}
		default:
			m := r.Range(1, 4)
			seen := map[[2]int]bool{}
			for c := 0; c < m; c++ {
				var i, j int
				switch x := r.Intn(10); {
				case (x < 2 || afterQuiet >= 2 && x < 7) && len(plan) >= 2 && c == 0:
					// near-tie: raise an arc of the plan so that the best
					// detour wins or loses by a small margin
					at := 0
					if r.Chance(0.3) {
						at = r.Intn(len(plan) - 1)
					}
					i, j = g.idx(plan[at].ID()), g.idx(plan[at+1].ID())
					if i >= 0 && j >= 0 && g.has(i, j) {
						ref := restricted().ssspTo(t)[here]
						old := g.W[i][j]
						g.W[i][j] = pInf
						alt := restricted().ssspTo(t)[here]
						g.W[i][j] = old
						if !math.IsInf(alt, 1) && !math.IsInf(ref, 1) {
							nw := old + (alt - ref) + float64(r.PickInt(-1, 0, 1, 1, 2, 3))
							if nw <= old {
								nw = old + 1
							}
							seen[[2]int{i, j}] = true
							rec.Op = "update-near-tie"
							setArc(i, j, nw, &changes, &rec)
						}
					}
					continue
				case x < 4 && len(plan) >= 2:
					// an arc of the current plan: increases and removals here
					// force a real replan
					at := r.Intn(len(plan) - 1)
					i, j = g.idx(plan[at].ID()), g.idx(plan[at+1].ID())
				case x < 6:
					// arcs near the current position or the goal
					i, j = here, r.Intn(live)
					if r.Bool() {
						i, j = r.Intn(live), t
					}
				default:
					i, j = r.Intn(live), r.Intn(live)
				}
				if i < 0 || j < 0 || i == j || seen[[2]int{i, j}] {
					continue
				}
				lo := minCost(i, j)
				if g.has(i, j) {
					seen[[2]int{i, j}] = true
					switch r.Intn(5) {
					case 0:
						setArc(i, j, pInf, &changes, &rec) // removal
					case 1, 2:
						setArc(i, j, g.W[i][j]+r.PickFloat(1, 1, 2, 3, 5, 8), &changes, &rec)
					case 3:
						nw := g.W[i][j] - float64(r.Range(1, 3))
						if nw < lo {
							nw = lo
						}
						setArc(i, j, nw, &changes, &rec)
					default:
						setArc(i, j, g.W[i][j], &changes, &rec) // reported but unchanged
					}
				} else if !math.IsInf(lo, 1) {
					seen[[2]int{i, j}] = true
					setArc(i, j, lo+float64(r.Range(0, 8)), &changes, &rec) // addition
				}
			}
		}
		if len(changes) == 0 {
			continue
		}
		afterQuiet = 0
		wit.History = append(wit.History, rec)
		c.LastCase(fmt.Sprintf("DStarLite.UpdateWorld %v world0=%s", rec, wit.World))
		model.budget = modelBudget
		if pn := vrt.Try(func() { d.UpdateWorld(changes) }); pn != nil {
			if pn.Msg == runawayMsg {
				viol("update|replanning-does-not-terminate", "UpdateWorld made more than 2e6 world-model queries", nil)
				return
			}
			viol("update|panic", pn.Msg+"\n"+pn.Stack, nil)
			return
		}
		c.Eval("DStarLite.UpdateWorld|"+class+"|"+rec.Op, true)
		if _, ok := check("update"); !ok {
			return
		}
	}
	if c.WantSample() {
		c.Sample(wit)
	}
}

// ssspTo returns the distances from every node TO t (non-negative weights
// only): naive Bellman-Ford on the reversed arcs.
func (g *RG) ssspTo(t int) []float64 {
	n := g.N
	d := make([]float64, n)
	for i := range d {
		d[i] = pInf
	}
	d[t] = 0
	for round := 0; round < n; round++ {
		for u := 0; u < n; u++ {
			for v := 0; v < n; v++ {
				if g.has(u, v) && !math.IsInf(d[v], 1) {
					if x := g.W[u][v] + d[v]; x < d[u] {
						d[u] = x
					}
				}
			}
		}
	}
	return d
}
