package main

import (
	"fmt"
	"math"

	"gonum.org/v1/gonum/graph/path"
	"gonum.org/v1/gonum/graph/simple"
)

func main() {
	// s=0, m=1, x=2, v=3 ; negative cycle 4<->5 hanging off s, not leading anywhere
	cnt := 0
	var ex any
	for rep := 0; rep < 2000; rep++ {
		g := simple.NewWeightedDirectedGraph(0, math.Inf(1))
		for _, e := range [][3]float64{{0, 1, -1}, {0, 2, -1}, {2, 1, -1}, {1, 3, 0}, {0, 4, 1}, {4, 5, -1}, {5, 4, 0}} {
			g.SetWeightedEdge(simple.WeightedEdge{F: simple.Node(int64(e[0])), T: simple.Node(int64(e[1])), W: e[2]})
		}
		sh, ok := path.BellmanFordFrom(simple.Node(0), g)
		p, w := sh.To(3)
		if math.IsInf(w, -1) {
			cnt++
			ex = fmt.Sprint(p, w, ok)
		}
	}
	fmt.Println("BellmanFordFrom(0).To(3) reported -Inf in", cnt, "of 2000 runs; true distance -2, no walk 0->3 touches the negative cycle 4<->5; e.g.", ex)
}
