package main

// Second pass with random float64 weights: sums are no longer exact, so
// weights are compared within a band and ties (All*, unique) are not judged.

import (
	"fmt"
	"math"
	"sort"
	"sync"

	"gonum.org/v1/gonum/graph"
	"gonum.org/v1/gonum/graph/path"
	"gonum.org/v1/gonum/graph/simple"
	"gonum.org/v1/gonum/verifx/vrt"
)

// floatBandFactor: a reported weight w may differ from the reference by at
// most floatBandFactor * n * eps * (n * max|w|). Both sides sum at most n-1
// arc weights (and Johnson adds and subtracts two potentials of that size),
// each operation contributing at most eps * |partial sum| <= eps * n * max|w|.
// Calibration on the pinned tree (seeds 1,2,3,7,42, thorough): largest
// observed |w-ref| / (n*eps*n*max|w|) = 0.012; a wrong relaxation gives errors
// of the order of an arc weight, i.e. > 1e10 times the band.
const floatBandFactor = 16

type maxFloat struct {
	mu sync.Mutex
	v  float64
}

func (m *maxFloat) Observe(x float64) {
	m.mu.Lock()
	if x > m.v {
		m.v = x
	}
	m.mu.Unlock()
}
func (m *maxFloat) Get() float64 { m.mu.Lock(); defer m.mu.Unlock(); return m.v }

func floatGraphs(c *vrt.Ctx, count int) {
	var worst maxFloat
	vrt.Parallel(count, func(i int) {
		r := c.RNG("float", i)
		directed := r.Chance(0.7)
		n := r.Range(3, 30)
		st := structures[i%len(structures)]
		g := genRandom(r, n, directed, st, palPos)
		g.Class = st + "/float"
		// every second graph uses decimal fractions: sums are not exactly
		// representable and depend on the order of summation, and there are
		// many ties up to rounding
		decimal := i%2 == 1
		if decimal {
			g.Class = st + "/decimal"
		}
		// replace the integer weights by floats
		for a := 0; a < g.N; a++ {
			for b := 0; b < g.N; b++ {
				if g.has(a, b) && (g.Directed || a < b) {
					if decimal {
						g.setArc(a, b, decimals[r.Intn(len(decimals))])
					} else {
						g.setArc(a, b, math.Exp(r.Uniform(-4, 4)))
					}
				}
			}
		}
		potential := directed && r.Chance(0.5)
		if potential {
			p := make([]float64, g.N)
			for a := range p {
				p[a] = r.Uniform(-5, 5)
			}
			for a := 0; a < g.N; a++ {
				for b := 0; b < g.N; b++ {
					if g.has(a, b) {
						g.W[a][b] += p[a] - p[b]
					}
				}
			}
			g.Class += "+potential"
		}
		if r.Chance(0.3) {
			assignIDs(r, g, 1)
		}
		maxAbs := 0.0
		for a := 0; a < g.N; a++ {
			for b := 0; b < g.N; b++ {
				if g.has(a, b) {
					maxAbs = math.Max(maxAbs, math.Abs(g.W[a][b]))
				}
			}
		}
		unit := float64(g.N) * 0x1p-52 * float64(g.N) * maxAbs
		tol := floatBandFactor * unit
		b := build(r, g, "simple")
		d := g.apsp()
		for s := range d {
			if anyNegInf(d[s]) {
				// rounding in the potential made a cycle negative: impossible
				// with base weights >= e^-4, but do not judge if it happens.
				c.Count("float.skipped_negcycle", 1)
				return
			}
		}
		c.LastCase("C13 float pass " + g.String())
		neg := g.hasNegArc()

		judge := func(routine string, s, t int, p []graph.Node, w float64) {
			exp := d[s][t]
			bad := func(clause string) {
				sig := routine + "|float|" + clause
				c.Violation(sig, fmt.Sprintf("%s(%d,%d) on %s: observed %v %g, expected %g (band %g)", routine, g.IDs[s], g.IDs[t], g.String(), idsOf(p), w, exp, tol),
					g.witness("simple", fmt.Sprintf("%s(%d,%d)", routine, g.IDs[s], g.IDs[t]), mkObs(p, w), fstr(exp)))
			}
			if math.IsInf(exp, 1) {
				if !math.IsInf(w, 1) || len(p) != 0 {
					bad("unreachable-weight")
				}
				return
			}
			if math.IsInf(w, 0) || math.IsNaN(w) || math.Abs(w-exp) > tol {
				bad("wrong-weight")
				return
			}
			if unit > 0 {
				worst.Observe(math.Abs(w-exp) / unit)
			}
			if len(p) == 0 {
				bad("no-path")
				return
			}
			ip := make([]int, len(p))
			for j, nd := range p {
				ip[j] = g.idx(nd.ID())
				if ip[j] < 0 {
					bad("not-a-walk")
					return
				}
			}
			if ip[0] != s || ip[len(ip)-1] != t {
				bad("wrong-endpoints")
				return
			}
			sum, ok := g.walkWeight(ip)
			if !ok {
				bad("not-a-walk")
				return
			}
			if math.Abs(sum-w) > tol {
				bad("weight-sum")
			}
		}

		srcs := r.Perm(g.N)
		if len(srcs) > 4 {
			srcs = srcs[:4]
		}
		for _, s := range srcs {
			u := simple.Node(g.IDs[s])
			if !neg {
				var sh path.Shortest
				if p := tryFn(func() { sh = path.DijkstraFrom(u, b.T) }); p != nil {
					c.Violation("DijkstraFrom|float|panic", p.Msg+" on "+g.String(), g.witness("simple", "DijkstraFrom", p.Msg, "no panic"))
				} else {
					c.Eval("DijkstraFrom|float|"+g.Class, true)
					for t := 0; t < g.N; t++ {
						p, w := sh.To(g.IDs[t])
						judge("DijkstraFrom.To", s, t, p, w)
					}
				}
				for q := 0; q < 4; q++ {
					t := r.Intn(g.N)
					var pth []graph.Node
					var w float64
					if p := tryFn(func() { pth, w = path.DijkstraFromTo(u, simple.Node(g.IDs[t]), b.T) }); p != nil {
						c.Violation("DijkstraFromTo|float|panic", p.Msg+" on "+g.String(), g.witness("simple", "DijkstraFromTo", p.Msg, "no panic"))
						continue
					}
					c.Eval("DijkstraFromTo|float|"+g.Class, true)
					if !(s == t && g.outDeg(s) == 0) { // known sink-source defect is reported by the integer pass
						judge("DijkstraFromTo", s, t, pth, w)
					}
					// A* with nil and with a (consistent up to rounding) scaled heuristic
					var h path.Heuristic
					if q%2 == 1 {
						h = func(x, y graph.Node) float64 {
							dd := d[g.idx(x.ID())][g.idx(y.ID())]
							if math.IsInf(dd, 0) {
								return 0
							}
							return 0.5 * dd
						}
					}
					var ash path.Shortest
					if p := tryFn(func() { ash, _ = path.AStar(u, simple.Node(g.IDs[t]), b.T, h) }); p != nil {
						c.Violation("AStar|float|panic", p.Msg+" on "+g.String(), g.witness("simple", "AStar", p.Msg, "no panic"))
						continue
					}
					c.Eval("AStar|float|"+g.Class, true)
					pth, w = ash.To(g.IDs[t])
					judge("AStar", s, t, pth, w)
				}
			}
			sh, ok := path.BellmanFordFrom(u, b.T)
			c.Eval("BellmanFordFrom|float|"+g.Class, true)
			if !ok {
				c.Violation("BellmanFordFrom|float|negcycle-flag", "ok=false on "+g.String(), g.witness("simple", "BellmanFordFrom", "ok=false", "ok=true"))
			} else {
				for t := 0; t < g.N; t++ {
					p, w := sh.To(g.IDs[t])
					judge("BellmanFordFrom.To", s, t, p, w)
				}
			}
		}
		type ap struct {
			name string
			f    func() (path.AllShortest, bool)
		}
		aps := []ap{
			{"FloydWarshall", func() (path.AllShortest, bool) { return path.FloydWarshall(b.G) }},
			{"JohnsonAllPaths", func() (path.AllShortest, bool) { return path.JohnsonAllPaths(b.G) }},
		}
		if !neg {
			aps = append(aps, ap{"DijkstraAllPaths", func() (path.AllShortest, bool) { return path.DijkstraAllPaths(b.G), true }})
		}
		for _, a := range aps {
			var res path.AllShortest
			var ok bool
			if p := tryFn(func() { res, ok = a.f() }); p != nil {
				c.Violation(a.name+"|float|panic", p.Msg+" on "+g.String()+"\n"+p.Stack, g.witness("simple", a.name, p.Msg, "no panic"))
				continue
			}
			c.Eval(a.name+"|float|"+g.Class, true)
			if !ok {
				c.Violation(a.name+"|float|negcycle-flag", "ok=false on "+g.String(), g.witness("simple", a.name, "ok=false", "ok=true"))
				continue
			}
			for s := 0; s < g.N; s++ {
				for t := 0; t < g.N; t++ {
					p, w, _ := res.Between(g.IDs[s], g.IDs[t])
					judge(a.name+".Between", s, t, p, w)
				}
			}
		}
	})
	c.Note("float.worst_ratio_to_unit_band", worst.Get())
}

// decimals: multiples of 0.1 and 1/3; none of their sums is exact in binary
// and equal real sums differ in the last bits depending on the order.
var decimals = []float64{0.1, 0.2, 0.3, 0.4, 0.7, 1.0 / 3, 2.0 / 3, 0.1, 0.3, 1.1}

// yenDecimal exercises YenKShortestPaths with decimal weights. The oracle
// needs no exact arithmetic: every returned path must be a real loopless s-t
// walk, the paths pairwise distinct as node sequences, their weights
// non-decreasing and equal, position by position, to the sorted weights of
// all simple s-t paths within a band; the number of paths is bounded from
// both sides by the reference counts at (limit -/+ band). Each query is
// repeated 8 times on the natively (randomly) ordered graph because which of
// two tied paths is found first depends on map iteration order.
func yenDecimal(c *vrt.Ctx, count int) {
	ks := []int{-1, 2, 3, 5, 6, 8, 50}
	costs := []float64{0.5, 1, 100, math.Inf(1)}
	vrt.Parallel(count, func(i int) {
		r := c.RNG("yen-decimal", i)
		directed := r.Chance(0.7)
		n := r.Range(4, 7)
		st := []string{"dense", "sparse", "layered", "ring", "grid"}[i%5]
		g := genRandom(r, n, directed, st, palPos)
		g.Class = st + "/decimal"
		few := r.Intn(3) + 3 // a small palette per graph makes tied sums frequent
		for a := 0; a < g.N; a++ {
			for b := 0; b < g.N; b++ {
				if g.has(a, b) && (g.Directed || a < b) {
					g.setArc(a, b, decimals[r.Intn(few+2)])
				}
			}
		}
		if r.Chance(0.3) {
			assignIDs(r, g, 1)
		}
		b := build(r, g, []string{"simple", "simple", "pw-only", "multi-min"}[r.Intn(4)])
		c.LastCase("C13 Yen decimal " + g.String())
		band := 16 * float64(g.N) * 0x1p-52 * float64(g.N) * 1.1
		for q := 0; q < 4; q++ {
			s, t := r.Intn(g.N), r.Intn(g.N)
			kk, cost := ks[r.Intn(len(ks))], costs[r.Intn(len(costs))]
			type sp struct {
				w float64
			}
			var all []float64
			g.simplePaths(s, t, func(p []int, w float64) bool { all = append(all, w); return len(all) < 20000 })
			if len(all) >= 20000 || len(all) > 2500 && kk < 0 {
				continue
			}
			sort.Float64s(all)
			for rep := 0; rep < 8; rep++ {
				var ps [][]graph.Node
				u, v := simple.Node(g.IDs[s]), simple.Node(g.IDs[t])
				q := fmt.Sprintf("YenKShortestPaths(k=%d,cost=%g,%d,%d)", kk, cost, u, v)
				bad := func(clause string, exp any) {
					c.Violation("YenKShortestPaths|decimal|"+clause, q+" on "+g.String()+fmt.Sprintf(": observed %v, expected %v", mkObsAll(ps, 0).Paths, exp),
						g.witness(b.Flavor, q, mkObsAll(ps, 0), exp))
				}
				if p := tryFn(func() { ps = path.YenKShortestPaths(b.G, kk, cost, u, v) }); p != nil {
					bad("panic", p.Msg)
					break
				}
				c.Eval(fmt.Sprintf("YenKShortestPaths|decimal|k=%d|cost=%g|%s", kk, cost, g.Class), len(all) > 1)
				if len(all) == 0 {
					if len(ps) != 0 {
						bad("unreachable", "no paths")
					}
					break
				}
				limit := all[0] + cost
				lo, hi := 0, 0
				for _, w := range all {
					if w < limit-band {
						lo++
					}
					if w <= limit+band {
						hi++
					}
				}
				if kk >= 0 {
					lo, hi = min(lo, kk), min(hi, kk)
				}
				seen := map[string]bool{}
				var ws []float64
				fail := false
				for _, pth := range ps {
					ip := make([]int, len(pth))
					for j, nd := range pth {
						ip[j] = g.idx(nd.ID())
					}
					sum, ok := 0.0, len(ip) > 0 && ip[0] == s && ip[len(ip)-1] == t
					if ok {
						for j := range ip {
							ok = ok && ip[j] >= 0
						}
					}
					if ok {
						sum, ok = g.walkWeight(ip)
					}
					switch {
					case !ok:
						bad("not-a-walk", "real s-t walks")
					case !isSimple(ip):
						bad("loop", "loopless paths")
					case seen[pathKey(ip)]:
						bad("duplicate-path", "pairwise distinct paths")
					case len(ws) > 0 && sum < ws[len(ws)-1]-band:
						bad("wrong-order", "non-decreasing weights")
					default:
						seen[pathKey(ip)] = true
						ws = append(ws, sum)
						continue
					}
					fail = true
					break
				}
				if fail {
					break
				}
				if len(ps) < lo || len(ps) > hi {
					bad("path-count", fmt.Sprintf("between %d and %d paths", lo, hi))
					break
				}
				for j, w := range ws {
					if math.Abs(w-all[j]) > band {
						bad("missing-cheaper-path", fmt.Sprintf("weight %g at position %d", all[j], j))
						fail = true
						break
					}
				}
				if fail {
					break
				}
			}
		}
	})
}
