package main

// Second pass with random float64 weights: sums are no longer exact, so
// weights are compared within a band and ties (All*, unique) are not judged.

import (
	"fmt"
	"math"
	"sync"

	"gonum.org/v1/gonum/graph"
	"gonum.org/v1/gonum/graph/path"
	"gonum.org/v1/gonum/graph/simple"
	"gonum.org/v1/gonum/verifx/vrt"
)

// floatBandFactor: a reported weight w may differ from the reference by at
// most floatBandFactor * n * eps * (n * max|w|). Both sides sum at most n-1
// arc weights (and Johnson adds and subtracts two potentials of that size),
// each operation contributing at most eps * |partial sum| <= eps * n * max|w|.
// Calibration on the pinned tree (seeds 1,2,3,7,42, thorough): largest
// observed |w-ref| / (n*eps*n*max|w|) = 0.012; a wrong relaxation gives errors
// of the order of an arc weight, i.e. > 1e10 times the band.
const floatBandFactor = 16

type maxFloat struct {
	mu sync.Mutex
	v  float64
}

func (m *maxFloat) Observe(x float64) {
	m.mu.Lock()
	if x > m.v {
		m.v = x
	}
	m.mu.Unlock()
}
func (m *maxFloat) Get() float64 { m.mu.Lock(); defer m.mu.Unlock(); return m.v }

func floatGraphs(c *vrt.Ctx, count int) {
	var worst maxFloat
	vrt.Parallel(count, func(i int) {
		r := c.RNG("float", i)
		directed := r.Chance(0.7)
		n := r.Range(3, 30)
		st := structures[i%len(structures)]
		g := genRandom(r, n, directed, st, palPos)
		g.Class = st + "/float"
		// replace the integer weights by floats
		for a := 0; a < g.N; a++ {
			for b := 0; b < g.N; b++ {
				if g.has(a, b) && (g.Directed || a < b) {
					g.setArc(a, b, math.Exp(r.Uniform(-4, 4)))
				}
			}
		}
		potential := directed && r.Chance(0.5)
		if potential {
			p := make([]float64, g.N)
			for a := range p {
				p[a] = r.Uniform(-5, 5)
			}
			for a := 0; a < g.N; a++ {
				for b := 0; b < g.N; b++ {
					if g.has(a, b) {
						g.W[a][b] += p[a] - p[b]
					}
				}
			}
			g.Class += "+potential"
		}
		if r.Chance(0.3) {
			assignIDs(r, g, 1)
		}
		maxAbs := 0.0
		for a := 0; a < g.N; a++ {
			for b := 0; b < g.N; b++ {
				if g.has(a, b) {
					maxAbs = math.Max(maxAbs, math.Abs(g.W[a][b]))
				}
			}
		}
		unit := float64(g.N) * 0x1p-52 * float64(g.N) * maxAbs
		tol := floatBandFactor * unit
		b := build(r, g, "simple")
		d := g.apsp()
		for s := range d {
			if anyNegInf(d[s]) {
				// rounding in the potential made a cycle negative: impossible
				// with base weights >= e^-4, but do not judge if it happens.
				c.Count("float.skipped_negcycle", 1)
				return
			}
		}
		c.LastCase("C13 float pass " + g.String())
		neg := g.hasNegArc()

		judge := func(routine string, s, t int, p []graph.Node, w float64) {
			exp := d[s][t]
			bad := func(clause string) {
				sig := routine + "|float|" + clause
				c.Violation(sig, fmt.Sprintf("%s(%d,%d) on %s: observed %v %g, expected %g (band %g)", routine, g.IDs[s], g.IDs[t], g.String(), idsOf(p), w, exp, tol),
					g.witness("simple", fmt.Sprintf("%s(%d,%d)", routine, g.IDs[s], g.IDs[t]), mkObs(p, w), fstr(exp)))
			}
			if math.IsInf(exp, 1) {
				if !math.IsInf(w, 1) || len(p) != 0 {
					bad("unreachable-weight")
				}
				return
			}
			if math.IsInf(w, 0) || math.IsNaN(w) || math.Abs(w-exp) > tol {
				bad("wrong-weight")
				return
			}
			if unit > 0 {
				worst.Observe(math.Abs(w-exp) / unit)
			}
			if len(p) == 0 {
				bad("no-path")
				return
			}
			ip := make([]int, len(p))
			for j, nd := range p {
				ip[j] = g.idx(nd.ID())
				if ip[j] < 0 {
					bad("not-a-walk")
					return
				}
			}
			if ip[0] != s || ip[len(ip)-1] != t {
				bad("wrong-endpoints")
				return
			}
			sum, ok := g.walkWeight(ip)
			if !ok {
				bad("not-a-walk")
				return
			}
			if math.Abs(sum-w) > tol {
				bad("weight-sum")
			}
		}

		srcs := r.Perm(g.N)
		if len(srcs) > 4 {
			srcs = srcs[:4]
		}
		for _, s := range srcs {
			u := simple.Node(g.IDs[s])
			if !neg {
				var sh path.Shortest
				if p := tryFn(func() { sh = path.DijkstraFrom(u, b.T) }); p != nil {
					c.Violation("DijkstraFrom|float|panic", p.Msg+" on "+g.String(), g.witness("simple", "DijkstraFrom", p.Msg, "no panic"))
				} else {
					c.Eval("DijkstraFrom|float|"+g.Class, true)
					for t := 0; t < g.N; t++ {
						p, w := sh.To(g.IDs[t])
						judge("DijkstraFrom.To", s, t, p, w)
					}
				}
				for q := 0; q < 4; q++ {
					t := r.Intn(g.N)
					var pth []graph.Node
					var w float64
					if p := tryFn(func() { pth, w = path.DijkstraFromTo(u, simple.Node(g.IDs[t]), b.T) }); p != nil {
						c.Violation("DijkstraFromTo|float|panic", p.Msg+" on "+g.String(), g.witness("simple", "DijkstraFromTo", p.Msg, "no panic"))
						continue
					}
					c.Eval("DijkstraFromTo|float|"+g.Class, true)
					if !(s == t && g.outDeg(s) == 0) { // known sink-source defect is reported by the integer pass
						judge("DijkstraFromTo", s, t, pth, w)
					}
					// A* with nil and with a (consistent up to rounding) scaled heuristic
					var h path.Heuristic
					if q%2 == 1 {
						h = func(x, y graph.Node) float64 {
							dd := d[g.idx(x.ID())][g.idx(y.ID())]
							if math.IsInf(dd, 0) {
								return 0
							}
							return 0.5 * dd
						}
					}
					var ash path.Shortest
					if p := tryFn(func() { ash, _ = path.AStar(u, simple.Node(g.IDs[t]), b.T, h) }); p != nil {
						c.Violation("AStar|float|panic", p.Msg+" on "+g.String(), g.witness("simple", "AStar", p.Msg, "no panic"))
						continue
					}
					c.Eval("AStar|float|"+g.Class, true)
					pth, w = ash.To(g.IDs[t])
					judge("AStar", s, t, pth, w)
				}
			}
			sh, ok := path.BellmanFordFrom(u, b.T)
			c.Eval("BellmanFordFrom|float|"+g.Class, true)
			if !ok {
				c.Violation("BellmanFordFrom|float|negcycle-flag", "ok=false on "+g.String(), g.witness("simple", "BellmanFordFrom", "ok=false", "ok=true"))
			} else {
				for t := 0; t < g.N; t++ {
					p, w := sh.To(g.IDs[t])
					judge("BellmanFordFrom.To", s, t, p, w)
				}
			}
		}
		type ap struct {
			name string
			f    func() (path.AllShortest, bool)
		}
		aps := []ap{
			{"FloydWarshall", func() (path.AllShortest, bool) { return path.FloydWarshall(b.G) }},
			{"JohnsonAllPaths", func() (path.AllShortest, bool) { return path.JohnsonAllPaths(b.G) }},
		}
		if !neg {
			aps = append(aps, ap{"DijkstraAllPaths", func() (path.AllShortest, bool) { return path.DijkstraAllPaths(b.G), true }})
		}
		for _, a := range aps {
			var res path.AllShortest
			var ok bool
			if p := tryFn(func() { res, ok = a.f() }); p != nil {
				c.Violation(a.name+"|float|panic", p.Msg+" on "+g.String()+"\n"+p.Stack, g.witness("simple", a.name, p.Msg, "no panic"))
				continue
			}
			c.Eval(a.name+"|float|"+g.Class, true)
			if !ok {
				c.Violation(a.name+"|float|negcycle-flag", "ok=false on "+g.String(), g.witness("simple", a.name, "ok=false", "ok=true"))
				continue
			}
			for s := 0; s < g.N; s++ {
				for t := 0; t < g.N; t++ {
					p, w, _ := res.Between(g.IDs[s], g.IDs[t])
					judge(a.name+".Between", s, t, p, w)
				}
			}
		}
	})
	c.Note("float.worst_ratio_to_unit_band", worst.Get())
}
