package main

// Reference model for C13. Deliberately naive: dense weight matrix,
// textbook Bellman-Ford with V-1 rounds plus V rounds of -Inf propagation,
// exhaustive DFS enumeration of simple paths. No priority queues, no
// predecessor lists, nothing shared with gonum's implementation.

import (
	"math"
	"sort"
	"strconv"
	"strings"
)

var (
	pInf = math.Inf(1)
	nInf = math.Inf(-1)
)

// RG is the reference graph: node i has ID IDs[i]; W[i][j] is the weight of
// the arc i->j or +Inf when there is none. There are no self loops. An
// undirected graph is stored as a symmetric matrix (gonum's path routines
// treat an undirected edge as two arcs).
type RG struct {
	N        int
	IDs      []int64
	Directed bool
	W        [][]float64
	Class    string // generator class (for Eval keys and witnesses)

	idm map[int64]int
}

// idx returns the index of the node with the given ID or -1.
func (g *RG) idx(id int64) int {
	if g.idm == nil {
		g.idm = make(map[int64]int, g.N)
		for i, x := range g.IDs {
			g.idm[x] = i
		}
	}
	if i, ok := g.idm[id]; ok {
		return i
	}
	return -1
}

func newRG(n int, directed bool, class string) *RG {
	g := &RG{N: n, Directed: directed, Class: class, IDs: make([]int64, n), W: make([][]float64, n)}
	for i := range g.W {
		g.IDs[i] = int64(i)
		g.W[i] = make([]float64, n)
		for j := range g.W[i] {
			g.W[i][j] = pInf
		}
	}
	return g
}

func (g *RG) setArc(i, j int, w float64) {
	if i == j {
		return
	}
	g.W[i][j] = w
	if !g.Directed {
		g.W[j][i] = w
	}
}

func (g *RG) has(i, j int) bool { return !math.IsInf(g.W[i][j], 1) }

func (g *RG) numArcs() int {
	m := 0
	for i := 0; i < g.N; i++ {
		for j := 0; j < g.N; j++ {
			if g.has(i, j) {
				m++
			}
		}
	}
	return m
}

func (g *RG) outDeg(i int) int {
	d := 0
	for j := 0; j < g.N; j++ {
		if g.has(i, j) {
			d++
		}
	}
	return d
}

func (g *RG) indexOf(id int64) int {
	for i, x := range g.IDs {
		if x == id {
			return i
		}
	}
	return -1
}

// hasNegArc reports whether any arc has negative weight.
func (g *RG) hasNegArc() bool {
	for i := 0; i < g.N; i++ {
		for j := 0; j < g.N; j++ {
			if g.has(i, j) && g.W[i][j] < 0 {
				return true
			}
		}
	}
	return false
}

// reach returns the set of nodes reachable from s (including s).
func (g *RG) reach(s int) []bool {
	seen := make([]bool, g.N)
	seen[s] = true
	// naive closure
	for changed := true; changed; {
		changed = false
		for i := 0; i < g.N; i++ {
			if !seen[i] {
				continue
			}
			for j := 0; j < g.N; j++ {
				if g.has(i, j) && !seen[j] {
					seen[j] = true
					changed = true
				}
			}
		}
	}
	return seen
}

// negArcReachable reports whether a negative arc leaves a node reachable
// from s.
func (g *RG) negArcReachable(s int) bool {
	r := g.reach(s)
	for i := 0; i < g.N; i++ {
		if !r[i] {
			continue
		}
		for j := 0; j < g.N; j++ {
			if g.has(i, j) && g.W[i][j] < 0 {
				return true
			}
		}
	}
	return false
}

// sssp returns the true distances from s: +Inf unreachable, -Inf when some
// walk from s to the node passes through a negative cycle, else the minimum
// walk (= simple path) weight.
func (g *RG) sssp(s int) []float64 {
	n := g.N
	d := make([]float64, n)
	for i := range d {
		d[i] = pInf
	}
	d[s] = 0
	for round := 0; round < n-1; round++ {
		for u := 0; u < n; u++ {
			if math.IsInf(d[u], 1) {
				continue
			}
			for v := 0; v < n; v++ {
				if !g.has(u, v) {
					continue
				}
				if x := d[u] + g.W[u][v]; x < d[v] {
					d[v] = x
				}
			}
		}
	}
	// Any arc that can still be relaxed is on or behind a negative cycle.
	for round := 0; round < n+1; round++ {
		for u := 0; u < n; u++ {
			if math.IsInf(d[u], 1) {
				continue
			}
			for v := 0; v < n; v++ {
				if !g.has(u, v) {
					continue
				}
				if math.IsInf(d[u], -1) {
					d[v] = nInf
				} else if d[u]+g.W[u][v] < d[v] {
					d[v] = nInf
				}
			}
		}
	}
	return d
}

// apsp returns sssp for every source.
func (g *RG) apsp() [][]float64 {
	d := make([][]float64, g.N)
	for s := range d {
		d[s] = g.sssp(s)
	}
	return d
}

func anyNegInf(d []float64) bool {
	for _, x := range d {
		if math.IsInf(x, -1) {
			return true
		}
	}
	return false
}

// simplePaths enumerates every simple path from s to t (for s==t the single
// path [s]) by depth-first search and calls visit with the path (valid only
// during the call) and its weight. Enumeration stops when visit returns
// false.
func (g *RG) simplePaths(s, t int, visit func(p []int, w float64) bool) {
	on := make([]bool, g.N)
	path := make([]int, 0, g.N)
	var rec func(u int, w float64) bool
	rec = func(u int, w float64) bool {
		path = append(path, u)
		on[u] = true
		defer func() {
			on[u] = false
			path = path[:len(path)-1]
		}()
		if u == t {
			return visit(path, w)
		}
		for v := 0; v < g.N; v++ {
			if g.has(u, v) && !on[v] {
				if !rec(v, w+g.W[u][v]) {
					return false
				}
			}
		}
		return true
	}
	rec(s, 0)
}

func pathKey(p []int) string {
	var b strings.Builder
	for i, x := range p {
		if i > 0 {
			b.WriteByte(' ')
		}
		b.WriteString(strconv.Itoa(x))
	}
	return b.String()
}

// shortestSimple returns the keys of all simple s-t paths of weight want.
func (g *RG) shortestSimple(s, t int, want float64) map[string]bool {
	set := make(map[string]bool)
	g.simplePaths(s, t, func(p []int, w float64) bool {
		if w == want {
			set[pathKey(p)] = true
		}
		return true
	})
	return set
}

// minSimple returns the minimum simple-path weight from s to t (+Inf if none).
func (g *RG) minSimple(s, t int) float64 {
	best := pInf
	g.simplePaths(s, t, func(p []int, w float64) bool {
		if w < best {
			best = w
		}
		return true
	})
	return best
}

// allSimpleWeights returns the sorted weights of all simple s-t paths; it
// gives up (ok=false) after limit paths.
func (g *RG) allSimpleWeights(s, t, limit int) (ws []float64, ok bool) {
	ok = true
	g.simplePaths(s, t, func(p []int, w float64) bool {
		if len(ws) >= limit {
			ok = false
			return false
		}
		ws = append(ws, w)
		return true
	})
	sort.Float64s(ws)
	return ws, ok
}

// onZeroCycle reports for every node whether it lies on a cycle of total
// weight zero. Only meaningful when the graph has no negative cycle; d must
// be apsp().
func (g *RG) onZeroCycle(d [][]float64) []bool {
	z := make([]bool, g.N)
	for x := 0; x < g.N; x++ {
		for y := 0; y < g.N; y++ {
			if g.has(x, y) && g.W[x][y]+d[y][x] == 0 {
				z[x] = true
			}
		}
	}
	return z
}

// walkWeight validates that p (node indices) is a walk in g and returns the
// sum of its arc weights.
func (g *RG) walkWeight(p []int) (w float64, ok bool) {
	for i := 1; i < len(p); i++ {
		if !g.has(p[i-1], p[i]) {
			return 0, false
		}
		w += g.W[p[i-1]][p[i]]
	}
	return w, true
}

func isSimple(p []int) bool {
	seen := make(map[int]bool, len(p))
	for _, x := range p {
		if seen[x] {
			return false
		}
		seen[x] = true
	}
	return true
}

// countTightPaths counts the shortest paths from s to every node by DP over
// the tight-arc subgraph (arcs with d[u]+w == d[v]). It returns ok=false
// when that subgraph has a cycle (zero-weight cycle), in which case the
// count of simple shortest paths is not given by the DP. Counts saturate at
// cap.
func (g *RG) countTightPaths(s int, d []float64, cap int) (cnt []int, ok bool) {
	n := g.N
	// order nodes by distance, breaking ties by repeated relaxation: do a
	// Kahn topological sort on the tight subgraph restricted to finite d.
	indeg := make([]int, n)
	tight := func(u, v int) bool {
		return g.has(u, v) && !math.IsInf(d[u], 0) && !math.IsInf(d[v], 0) && d[u]+g.W[u][v] == d[v]
	}
	for u := 0; u < n; u++ {
		for v := 0; v < n; v++ {
			if tight(u, v) {
				indeg[v]++
			}
		}
	}
	cnt = make([]int, n)
	cnt[s] = 1
	var queue []int
	for v := 0; v < n; v++ {
		if indeg[v] == 0 {
			queue = append(queue, v)
		}
	}
	done := 0
	for len(queue) > 0 {
		u := queue[0]
		queue = queue[1:]
		done++
		for v := 0; v < n; v++ {
			if tight(u, v) {
				cnt[v] += cnt[u]
				if cnt[v] > cap {
					cnt[v] = cap
				}
				indeg[v]--
				if indeg[v] == 0 {
					queue = append(queue, v)
				}
			}
		}
	}
	return cnt, done == n
}

// unitCopy returns g with every arc weight replaced by 1: the reference for
// routines that, per their documentation, fall back to UniformCost because
// the graph value does not expose the weight interface they ask for.
func (g *RG) unitCopy() *RG {
	u := newRG(g.N, g.Directed, g.Class+",as-uniform-cost")
	copy(u.IDs, g.IDs)
	for i := 0; i < g.N; i++ {
		for j := 0; j < g.N; j++ {
			if g.has(i, j) {
				u.W[i][j] = 1
			}
		}
	}
	return u
}
