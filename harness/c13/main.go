// Command c13 is the runtime monitor for property C13: shortest-path
// routines return true optimal weights and real paths.
package main

import (
	"flag"
	"fmt"
	"math"
	"math/bits"
	"os"
	"runtime"
	"runtime/debug"
	"runtime/metrics"
	"runtime/pprof"
	"strings"
	"time"

	"gonum.org/v1/gonum/verifx/vrt"
)

var only = flag.String("workload", "", "comma separated subset of workloads: ex4,ex4u,small,large,ties,yen,dstar,dstar0,yendec,float (default all)")

func main() { vrt.Main("C13", run) }

func want(w string) bool {
	if *only == "" {
		return true
	}
	for _, x := range strings.Split(*only, ",") {
		if x == w {
			return true
		}
	}
	return false
}

var cpuprof = flag.String("cpuprofile", "", "write a CPU profile (development aid)")

func run(c *vrt.Ctx) {
	if *cpuprof != "" {
		f, _ := os.Create(*cpuprof)
		pprof.StartCPUProfile(f)
		defer pprof.StopCPUProfile()
	}
	// The workload allocates many small short-lived objects on all cores;
	// a larger heap target cuts the GC share of the run considerably.
	debug.SetGCPercent(400)
	go memoryWatchdog()
	if want("ex4") {
		exhaustive4(c)
	}
	if want("ex4u") {
		exhaustive4u(c)
	}
	if want("small") {
		randomGraphs(c, "small", c.Pick(6000, 80000), 5, 7)
	}
	if want("large") {
		randomGraphs(c, "large", c.Pick(1000, 16000), 8, 60)
	}
	if want("ties") {
		tiesGraphs(c, c.Pick(300, 4000))
	}
	if want("yen") {
		yenGraphs(c, c.Pick(15000, 250000))
	}
	if want("dstar") {
		n := c.Pick(12000, 80000)
		vrt.Parallel(n, func(i int) {
			runDStar(c, c.RNG("dstar", i), 50, false)
		})
	}
	if want("dstar0") {
		// zero-weight worlds: outside the D* Lite papers' domain but not
		// excluded by gonum's documentation
		n := c.Pick(400, 4000)
		vrt.Parallel(n, func(i int) {
			runDStar(c, c.RNG("dstar0", i), 30, true)
		})
	}
	if want("yendec") {
		yenDecimal(c, c.Pick(2500, 30000))
	}
	if want("float") {
		floatGraphs(c, c.Pick(1500, 25000))
	}
}

// ---------------- workload 1: exhaustive 4-node digraphs ----------------

var arcs4 = func() [][2]int {
	var a [][2]int
	for i := 0; i < 4; i++ {
		for j := 0; j < 4; j++ {
			if i != j {
				a = append(a, [2]int{i, j})
			}
		}
	}
	return a
}()

func exhaustive4(c *vrt.Ctx) {
	allUpTo := c.Pick(3, 4) // all 4^m weight assignments for m <= allUpTo arcs
	samples := c.Pick(4, 48)
	wset := []float64{-1, 0, 1, 2}
	vrt.Parallel(4096, func(mask int) {
		r := c.RNG("ex4", mask)
		var arcs [][2]int
		for b, a := range arcs4 {
			if mask>>b&1 == 1 {
				arcs = append(arcs, a)
			}
		}
		m := len(arcs)
		mk := func(ws []float64) *RG {
			g := newRG(4, true, "exhaustive4")
			for i, a := range arcs {
				g.setArc(a[0], a[1], ws[i])
			}
			return g
		}
		ws := make([]float64, m)
		if m <= allUpTo {
			total := 1 << (2 * m)
			for code := 0; code < total; code++ {
				for i := range ws {
					ws[i] = wset[code>>(2*i)&3]
				}
				fullCheck(c, r, mk(ws), mask+code, true)
			}
			return
		}
		for sidx := 0; sidx < samples; sidx++ {
			lo := 0
			if sidx%2 == 0 {
				lo = 1 // non-negative half: {0,1,2}
			}
			for i := range ws {
				ws[i] = wset[r.Range(lo, 3)]
			}
			fullCheck(c, r, mk(ws), mask+sidx, true)
		}
	})
}

// exhaustive4u: all 64 undirected graphs on 4 nodes with every weight
// assignment from {-1,0,1,2}.
func exhaustive4u(c *vrt.Ctx) {
	var edges [][2]int
	for i := 0; i < 4; i++ {
		for j := i + 1; j < 4; j++ {
			edges = append(edges, [2]int{i, j})
		}
	}
	wset := []float64{-1, 0, 1, 2}
	vrt.Parallel(64, func(mask int) {
		r := c.RNG("ex4u", mask)
		var es [][2]int
		for b, e := range edges {
			if mask>>b&1 == 1 {
				es = append(es, e)
			}
		}
		m := bits.OnesCount(uint(mask))
		for code := 0; code < 1<<(2*m); code++ {
			g := newRG(4, false, "exhaustive4u")
			for i, e := range es {
				g.setArc(e[0], e[1], wset[code>>(2*i)&3])
			}
			fullCheck(c, r, g, mask+code, true)
		}
	})
}

// fullCheck runs every static routine on g. idx rotates flavours, ID
// schemes and Yen/A* parameters deterministically.
func fullCheck(c *vrt.Ctx, r *vrt.Rand, g *RG, idx int, small bool) {
	// ID scheme
	switch idx % 5 {
	case 3:
		g.Class += "," + assignIDs(r, g, 1)
	case 4:
		g.Class += "," + assignIDs(r, g, 2)
	}
	flavor := "simple"
	unit := true
	for i := 0; i < g.N && unit; i++ {
		for j := 0; j < g.N; j++ {
			if g.has(i, j) && g.W[i][j] != 1 {
				unit = false
				break
			}
		}
	}
	switch idx % 8 {
	case 0:
		flavor = "ordered"
	case 7:
		flavor = "simple"
	case 1:
		flavor = "multi-min"
	case 2:
		flavor = "multi-sum"
	case 3:
		flavor = "trav"
	case 4:
		flavor = "trav-noempty"
	case 5:
		if unit {
			flavor = "uniform"
		}
	case 6:
		if unit {
			flavor = "trav-uniform"
		}
	}
	switch idx % 11 {
	case 8, 9:
		flavor = "pw-only"
	case 10:
		flavor = "hide-weights"
	}
	b := build(r, g, flavor)
	// The reference follows the documented weighting rule: a graph value that
	// does not expose the weight interface a routine asks for is a
	// uniform-cost graph for that routine.
	var kAllPaths *K // reference for DijkstraAllPaths (asks for graph.Weighted)
	switch flavor {
	case "hide-weights":
		g = g.unitCopy()
	case "pw-only":
		kAllPaths = newK(c, r, g.unitCopy(), b)
		defer kAllPaths.flush()
	}
	k := newK(c, r, g, b)
	defer k.flush()
	if kAllPaths == nil {
		kAllPaths = k
	}
	if c.WantSample() && g.numArcs() >= 3 {
		c.Sample(map[string]any{"graph": g.String(), "flavor": flavor})
	}

	for _, s := range k.sources() {
		k.runDijkstraFrom(s)
		k.runDijkstraAllFrom(s)
		k.runBellmanFordFrom(s)
		k.runBellmanFordAllFrom(s)
		if small {
			k.runDijkstraFromTo(s, k.targets())
		} else {
			k.runDijkstraFromTo(s, append(k.sampleTargets(8), s))
		}
	}
	kAllPaths.runDijkstraAllPaths()
	k.runFloydWarshall()
	k.runJohnson()

	// A*
	if small {
		for s := -1; s < g.N; s++ {
			for t := -1; t < g.N; t++ {
				k.runAStar(s, t, (idx+s+2*t+8)%4)
			}
		}
	} else {
		for i := 0; i < 24; i++ {
			k.runAStar(r.Intn(g.N), r.Intn(g.N), i%4)
		}
		k.runAStar(-1, 0, 0)
		k.runAStar(0, -1, 1)
	}

	// Yen (needs graph.Graph; exhaustive reference needs small n)
	if small && b.G != nil {
		ks := []int{-1, 1, 2, 5, 50}
		costs := []float64{0, 1, math.Inf(1)}
		for s := -1; s < g.N; s++ {
			for t := -1; t < g.N; t++ {
				sel := idx + 3*s + 5*t + 100
				k.runYen(s, t, ks[sel%5], costs[(sel/5)%3])
			}
		}
	}
}

// ---------------- workloads 2/3: random graphs ----------------

func pickPalette(r *vrt.Rand, directed bool) (palette, bool) {
	// returns palette and whether to apply a potential afterwards
	if directed {
		switch r.Intn(12) {
		case 0, 1:
			return palPos, false
		case 2:
			return palTies, false
		case 3:
			return palZero, false
		case 4:
			return palZero2, false
		case 5:
			return palNeg, false
		case 6:
			return palNeg2, false
		case 7:
			return palUnit, false
		case 8:
			return palTies, true
		case 9:
			return palZero, true
		case 10:
			return palZero2, true
		default:
			return palPos, true
		}
	}
	switch r.Intn(8) {
	case 0, 1:
		return palPos, false
	case 2:
		return palTies, false
	case 3:
		return palZero, false
	case 4:
		return palZero2, false
	case 5:
		return palUnit, false
	case 6:
		return palNeg2, false
	default:
		return palTies, false
	}
}

func randomGraphs(c *vrt.Ctx, name string, count, nmin, nmax int) {
	vrt.Parallel(count, func(i int) {
		r := c.RNG(name, i)
		directed := r.Chance(0.65)
		pal, pot := pickPalette(r, directed)
		n := r.Range(nmin, nmax)
		if nmax > 20 && r.Chance(0.5) {
			n = r.Range(nmin, 20) // keep most large cases mid-sized
		}
		g := genRandom(r, n, directed, structures[i%len(structures)], pal)
		if pot {
			applyPotential(r, g)
		}
		fullCheck(c, r, g, int(r.Uint64()%1000), exhaustiveOK(g))
	})
}

// ---------------- workload 4: Yen ----------------

func yenGraphs(c *vrt.Ctx, count int) {
	ks := []int{-1, 1, 2, 3, 5, 8, 50}
	costs := []float64{0, 1, 2, math.Inf(1)}
	vrt.Parallel(count, func(i int) {
		r := c.RNG("yen", i)
		directed := r.Bool()
		pal := []palette{palPos, palTies, palZero, palZero2, palUnit}[r.Intn(5)]
		st := []string{"sparse", "dense", "grid", "ring", "layered", "disconnected"}[i%6]
		n := r.Range(4, 9)
		if st == "dense" {
			n = r.Range(4, 7)
		}
		g := genRandom(r, n, directed, st, pal)
		distinct := r.Chance(0.35)
		if distinct {
			// no ties at all: arc weights are distinct powers of two, so all
			// path weights differ and the k shortest paths are determined
			// uniquely (the weight sequence then pins the exact paths).
			var arcs [][2]int
			for a := 0; a < g.N; a++ {
				for b := 0; b < g.N; b++ {
					if g.has(a, b) && (g.Directed || a < b) {
						arcs = append(arcs, [2]int{a, b})
					}
				}
			}
			if len(arcs) <= 44 {
				for pos, ai := range r.Perm(len(arcs)) {
					g.setArc(arcs[ai][0], arcs[ai][1], math.Ldexp(1, pos))
				}
				g.Class = st + "/distinct-pow2"
			} else {
				distinct = false
			}
		}
		if r.Chance(0.3) {
			g.Class += "," + assignIDs(r, g, 1+r.Intn(2))
		}
		flavor := []string{"simple", "simple", "ordered", "multi-min"}[r.Intn(4)]
		b := build(r, g, flavor)
		k := newK(c, r, g, b)
		defer k.flush()
		for q := 0; q < 8; q++ {
			s, t := r.Intn(g.N), r.Intn(g.N)
			kk := ks[r.Intn(len(ks))]
			cost := costs[r.Intn(len(costs))]
			if kk < 0 && math.IsInf(cost, 1) && g.N > 7 {
				cost = 1 // all simple paths of a larger graph: bound the output
			}
			k.runYen(s, t, kk, cost)
		}
	})
}

// ---------------- workload: many-way ties on dense graphs ----------------

// tiesGraphs: dense / layered / grid graphs with n = 8..40 and weights from
// {1,2}, {1,2,3} or {1}: three-, four- and many-way ties between shortest
// paths and no zero-weight cycle, so the number of shortest paths is given by
// a DP over the tight arcs. Every All* query of every pair is made (up to
// allPathsCap alternatives): all returned paths must be distinct, real,
// simple and optimal and their number must equal the DP count, i.e. the
// returned set is exactly the set of simple shortest paths. Half of the
// graphs use the seeded fixed iteration order, half Go's random map order.
func tiesGraphs(c *vrt.Ctx, count int) {
	vrt.Parallel(count, func(i int) {
		r := c.RNG("ties", i)
		directed := r.Chance(0.6)
		pal := []palette{palTies2, palTies3, palUnit, palTies}[r.Intn(4)]
		st := []string{"dense", "layered", "grid", "dense", "ring"}[i%5]
		n := r.Range(8, 40)
		if r.Chance(0.5) {
			n = r.Range(8, 16)
		}
		g := genRandom(r, n, directed, st, pal)
		if r.Chance(0.3) {
			g.Class += "," + assignIDs(r, g, 1+r.Intn(2))
		}
		flavor := []string{"ordered", "simple", "ordered", "multi-min"}[r.Intn(4)]
		b := build(r, g, flavor)
		k := newK(c, r, g, b)
		k.allQueries = true
		defer k.flush()
		for _, s := range k.sources() {
			k.runDijkstraAllFrom(s)
			k.runBellmanFordAllFrom(s)
		}
		k.runDijkstraAllPaths()
		k.runFloydWarshall()
		k.runJohnson()
	})
}

// memoryWatchdog protects the (shared) machine against a gonum routine that
// loops forever while appending to a path (observed with broken D* Lite and
// Floyd-Warshall variants: Path()/Between() then never terminate). A normal
// run peaks below 1 GiB; at 5 GiB of live heap the process reports a fatal
// error, which vctl turns into a "crash|<variant>|fatal error: ..." violation
// carrying the last-case file.
func memoryWatchdog() {
	const limit = 5 << 30
	sample := []metrics.Sample{{Name: "/memory/classes/heap/objects:bytes"}}
	for {
		time.Sleep(100 * time.Millisecond) // watchdog only: no oracle depends on the clock
		metrics.Read(sample)
		if sample[0].Value.Kind() == metrics.KindUint64 && sample[0].Value.Uint64() > limit {
			fmt.Fprintln(os.Stderr, "fatal error: C13 monitor: runaway memory use inside a gonum call (non-terminating path reconstruction?)")
			buf := make([]byte, 1<<20)
			buf = buf[:runtime.Stack(buf, true)]
			os.Stderr.Write(buf) // the goroutine inside gonum shows the routine and, via its frames, the query
			os.Exit(3)
		}
	}
}
