package main

// Graph generators (reference side) and builders of the gonum inputs.

import (
	"fmt"
	"math"
	"sort"

	"gonum.org/v1/gonum/graph"
	"gonum.org/v1/gonum/graph/iterator"
	"gonum.org/v1/gonum/graph/multi"
	"gonum.org/v1/gonum/graph/simple"
	"gonum.org/v1/gonum/graph/traverse"
	"gonum.org/v1/gonum/verifx/vrt"
)

// ---------- weight palettes ----------

type palette struct {
	name string
	vals []float64
}

var (
	palPos   = palette{"pos", []float64{1, 2, 3, 4, 5, 6, 7, 8, 9}}
	palTies  = palette{"ties", []float64{1, 1, 2}}
	palZero  = palette{"zero", []float64{0, 0, 1, 2}}
	palZero2 = palette{"zeroheavy", []float64{0, 0, 0, 1}}
	palNeg   = palette{"neg", []float64{-1, 0, 1, 2, 3}}
	palNeg2  = palette{"negrare", []float64{-2, 1, 2, 3, 4, 5, 6, 7}}
	palUnit  = palette{"unit", []float64{1}}
	palTies3 = palette{"ties3", []float64{1, 2, 3}}
	palTies2 = palette{"ties2", []float64{1, 2}}
)

func (p palette) pick(r *vrt.Rand) float64 { return p.vals[r.Intn(len(p.vals))] }

// ---------- ID schemes ----------

func assignIDs(r *vrt.Rand, g *RG, scheme int) string {
	switch scheme {
	case 0:
		return "ids-dense"
	case 1: // shuffled, non-contiguous, negative
		used := map[int64]bool{}
		for i := range g.IDs {
			for {
				id := int64(r.Range(-500, 500)) * 7
				if !used[id] {
					used[id] = true
					g.IDs[i] = id
					break
				}
			}
		}
		return "ids-sparse"
	default: // extremes included
		used := map[int64]bool{}
		ext := []int64{1 << 62, -(1 << 62), math.MaxInt64, -1, 0, 1 << 40}
		for i := range g.IDs {
			for {
				var id int64
				if r.Chance(0.5) {
					id = ext[r.Intn(len(ext))]
				} else {
					id = int64(r.Uint64()>>1) - (1 << 62)
				}
				if !used[id] {
					used[id] = true
					g.IDs[i] = id
					break
				}
			}
		}
		return "ids-extreme"
	}
}

// absentID returns an ID that is not in g.
func absentID(r *vrt.Rand, g *RG) int64 {
	for {
		id := int64(r.Range(-2000, 2000))
		if r.Chance(0.2) {
			id = int64(g.N) // just past the dense range
		}
		if g.indexOf(id) < 0 {
			return id
		}
	}
}

// ---------- random structures ----------

var structures = []string{"sparse", "dense", "disconnected", "dag", "grid", "ring", "layered", "dagsink"}

// genRandom builds a random reference graph with n nodes (approximately,
// for grids) of the given structure and palette.
func genRandom(r *vrt.Rand, n int, directed bool, structure string, pal palette) *RG {
	class := structure + "/" + pal.name
	var g *RG
	switch structure {
	case "sparse":
		g = newRG(n, directed, class)
		p := 2.5 / float64(n)
		fillRandom(r, g, p, pal, nil)
	case "dense":
		g = newRG(n, directed, class)
		fillRandom(r, g, r.Uniform(0.4, 0.9), pal, nil)
	case "disconnected":
		g = newRG(n, directed, class)
		k := r.Range(2, 3)
		comp := make([]int, n)
		for i := range comp {
			comp[i] = r.Intn(k)
		}
		fillRandom(r, g, r.Uniform(0.2, 0.6), pal, func(i, j int) bool { return comp[i] == comp[j] })
	case "dag":
		g = newRG(n, true, class)
		perm := r.Perm(n)
		fillRandom(r, g, r.Uniform(0.15, 0.6), pal, func(i, j int) bool { return perm[i] < perm[j] })
	case "dagsink":
		// a DAG (negative arcs allowed, no cycle) plus a small negative
		// cycle that is entered from the DAG but leads nowhere: Bellman-Ford
		// reports ok=false although the distances to all DAG nodes are
		// finite and no walk to them touches the cycle.
		if n < 4 {
			n = 4
		}
		g = newRG(n, true, class)
		c := 2
		if n >= 6 && r.Bool() {
			c = 3
		}
		m := n - c
		perm := r.Perm(m)
		dagPal := pal
		if r.Bool() {
			dagPal = palNeg
		}
		fillRandom(r, g, r.Uniform(0.3, 0.8), dagPal, func(i, j int) bool { return i < m && j < m && perm[i] < perm[j] })
		for i := 0; i < c; i++ {
			w := float64(r.Range(-2, 0))
			if i == 0 {
				w = -1
			}
			g.setArc(m+i, m+(i+1)%c, w)
		}
		for e := r.Range(1, 3); e > 0; e-- {
			g.setArc(r.Intn(m), m+r.Intn(c), pal.pick(r))
		}
	case "grid":
		rows := 1 + int(math.Sqrt(float64(n)))
		if rows < 2 {
			rows = 2
		}
		cols := (n + rows - 1) / rows
		if cols < 2 {
			cols = 2
		}
		g = newRG(rows*cols, directed, class)
		for y := 0; y < rows; y++ {
			for x := 0; x < cols; x++ {
				i := y*cols + x
				if x+1 < cols {
					gridArc(r, g, i, i+1, pal)
				}
				if y+1 < rows {
					gridArc(r, g, i, i+cols, pal)
				}
			}
		}
	case "ring":
		g = newRG(n, directed, class)
		for i := 0; i < n; i++ {
			g.setArc(i, (i+1)%n, pal.pick(r))
		}
		for c := 0; c < n; c++ {
			g.setArc(r.Intn(n), r.Intn(n), pal.pick(r))
		}
	case "layered": // many equal-length alternatives
		g = newRG(n, directed, class)
		width := r.Range(2, 4)
		for i := 0; i < n; i++ {
			li := i / width
			for j := 0; j < n; j++ {
				if j/width == li+1 && r.Chance(0.8) {
					g.setArc(i, j, pal.pick(r))
				}
			}
		}
		// a few back arcs
		for c := 0; c < n/4; c++ {
			g.setArc(r.Intn(n), r.Intn(n), pal.pick(r))
		}
	default:
		panic("unknown structure " + structure)
	}
	return g
}

func gridArc(r *vrt.Rand, g *RG, i, j int, pal palette) {
	if r.Chance(0.12) {
		return // wall
	}
	g.setArc(i, j, pal.pick(r))
	if g.Directed && r.Chance(0.85) {
		g.setArc(j, i, pal.pick(r))
	}
}

func fillRandom(r *vrt.Rand, g *RG, p float64, pal palette, allow func(i, j int) bool) {
	for i := 0; i < g.N; i++ {
		for j := 0; j < g.N; j++ {
			if i == j || (!g.Directed && j < i) {
				continue
			}
			if allow != nil && !allow(i, j) {
				continue
			}
			if r.Chance(p) {
				g.setArc(i, j, pal.pick(r))
			}
		}
	}
}

// applyPotential rewrites w(u,v) += p(u)-p(v) with random integer
// potentials: distances change by p(s)-p(t), negative arcs appear, but no
// negative cycle is introduced and zero-weight cycles stay zero-weight.
func applyPotential(r *vrt.Rand, g *RG) {
	if !g.Directed {
		return
	}
	p := make([]float64, g.N)
	for i := range p {
		p[i] = float64(r.Range(-3, 3))
	}
	for i := 0; i < g.N; i++ {
		for j := 0; j < g.N; j++ {
			if g.has(i, j) {
				g.W[i][j] += p[i] - p[j]
			}
		}
	}
	g.Class += "+potential"
}

// ---------- gonum inputs ----------

// travOnly exposes only traverse.Graph plus Weight: the path routines then
// cannot enumerate nodes up front and store only what they reach.
type travOnly struct {
	g        graph.Graph
	w        func(x, y int64) (float64, bool)
	keepEmpt bool // pass graph.Empty through (true) or return a fresh empty iterator (false)
}

func (t travOnly) From(id int64) graph.Nodes {
	it := t.g.From(id)
	if !t.keepEmpt && it == graph.Empty {
		return iterator.NewOrderedNodes(nil)
	}
	return it
}
func (t travOnly) Edge(u, v int64) graph.Edge             { return t.g.Edge(u, v) }
func (t travOnly) Weight(x, y int64) (w float64, ok bool) { return t.w(x, y) }

// travUnweighted exposes only traverse.Graph (UniformCost is used).
type travUnweighted struct{ g graph.Graph }

func (t travUnweighted) From(id int64) graph.Nodes  { return t.g.From(id) }
func (t travUnweighted) Edge(u, v int64) graph.Edge { return t.g.Edge(u, v) }

// orderedGraph wraps a weighted graph so that Nodes() and From() iterate in
// a fixed order derived from the case seed instead of Go's random map order.
// FloydWarshall's predecessor bookkeeping and every tie-break depend on that
// order; with this flavour a case is reproducible from its seed (up to
// gonum's own unseedable PRNG draws).
type orderedGraph struct {
	weightedGraph
	rank map[int64]int
}

func (o orderedGraph) sorted(it graph.Nodes) graph.Nodes {
	ns := graph.NodesOf(it)
	if len(ns) == 0 {
		return graph.Empty
	}
	sort.Slice(ns, func(i, j int) bool { return o.rank[ns[i].ID()] < o.rank[ns[j].ID()] })
	return iterator.NewOrderedNodes(ns)
}
func (o orderedGraph) Nodes() graph.Nodes        { return o.sorted(o.weightedGraph.Nodes()) }
func (o orderedGraph) From(id int64) graph.Nodes { return o.sorted(o.weightedGraph.From(id)) }

// orderedDirected additionally satisfies graph.Directed (Yen asks for it to
// decide whether a removed edge blocks both directions).
type orderedDirected struct {
	orderedGraph
	d graph.Directed
}

func (o orderedDirected) HasEdgeFromTo(u, v int64) bool { return o.d.HasEdgeFromTo(u, v) }
func (o orderedDirected) To(id int64) graph.Nodes       { return o.sorted(o.d.To(id)) }

// budgetGraph counts From queries and panics with runawayMsg when a budget far
// above any legitimate use is exhausted. It is put between Yen's algorithm
// and the graph so that a non-terminating variant (k<0 with corrupted
// candidate paths) is reported as a violation with its witness instead of
// hanging the whole monitor.
type budgetGraph struct {
	graph.Graph
	weight func(x, y int64) (float64, bool)
	left   *int
}

func (b budgetGraph) From(id int64) graph.Nodes {
	if *b.left--; *b.left < 0 {
		panic(runawayMsg)
	}
	return b.Graph.From(id)
}
func (b budgetGraph) Weight(x, y int64) (float64, bool) { return b.weight(x, y) }

type budgetDirected struct {
	budgetGraph
	d graph.Directed
}

func (b budgetDirected) HasEdgeFromTo(u, v int64) bool { return b.d.HasEdgeFromTo(u, v) }
func (b budgetDirected) To(id int64) graph.Nodes       { return b.d.To(id) }

// withBudget wraps g (which must have a Weight function) for a Yen call.
func withBudget(g graph.Graph, weight func(x, y int64) (float64, bool), budget int) graph.Graph {
	left := budget
	bg := budgetGraph{Graph: g, weight: weight, left: &left}
	if d, ok := g.(graph.Directed); ok {
		return budgetDirected{budgetGraph: bg, d: d}
	}
	return bg
}

// pwOnly exposes graph.Graph plus a Weight method and nothing else: it
// satisfies path.Weighted but not graph.Weighted (no WeightedEdge), like
// gonum's own re-weighting views. Routines documented to use "Weighted" must
// use its weights; DijkstraAllPaths and NewDStarLite, documented to ask for
// graph.Weighted ("graph.Weighter"), must fall back to UniformCost.
type pwOnly struct {
	graph.Graph
	w func(x, y int64) (float64, bool)
}

func (p pwOnly) Weight(x, y int64) (float64, bool) { return p.w(x, y) }

type pwOnlyDirected struct {
	pwOnly
	d graph.Directed
}

func (p pwOnlyDirected) HasEdgeFromTo(u, v int64) bool { return p.d.HasEdgeFromTo(u, v) }
func (p pwOnlyDirected) To(id int64) graph.Nodes       { return p.d.To(id) }

// hideWeights exposes graph.Graph only: every routine must use UniformCost.
type hideWeights struct{ graph.Graph }

type hideWeightsDirected struct {
	hideWeights
	d graph.Directed
}

func (p hideWeightsDirected) HasEdgeFromTo(u, v int64) bool { return p.d.HasEdgeFromTo(u, v) }
func (p hideWeightsDirected) To(id int64) graph.Nodes       { return p.d.To(id) }

// weightedGraph is graph.Weighted: DijkstraAllPaths and NewDStarLite ask for
// the full graph.Weighted (with WeightedEdge) and silently fall back to
// UniformCost otherwise, so the wrappers must keep satisfying it.
type weightedGraph interface {
	graph.Weighted
}

// Built is a gonum rendering of an RG.
type Built struct {
	Flavor string
	G      graph.Graph    // nil for traverse-only flavours
	T      traverse.Graph // what single-source routines are given
	Weight func(x, y int64) (float64, bool)
}

var flavors = []string{"simple", "ordered", "multi-min", "multi-sum", "trav", "trav-noempty"}

func minLines(l graph.WeightedLines) float64 {
	if l == nil {
		return 0
	}
	m := math.Inf(1)
	for l.Next() {
		if w := l.WeightedLine().Weight(); w < m {
			m = w
		}
	}
	l.Reset()
	return m
}

// build renders g in the given flavor. Node insertion order is shuffled.
// Flavor "uniform" requires every weight to be 1.
func build(r *vrt.Rand, g *RG, flavor string) Built {
	order := r.Perm(g.N)
	switch flavor {
	case "simple", "ordered", "trav", "trav-noempty", "pw-only", "hide-weights":
		var wg weightedGraph
		if g.Directed {
			h := simple.NewWeightedDirectedGraph(0, math.Inf(1))
			for _, i := range order {
				h.AddNode(simple.Node(g.IDs[i]))
			}
			for _, i := range r.Perm(g.N) {
				for j := 0; j < g.N; j++ {
					if g.has(i, j) {
						h.SetWeightedEdge(simple.WeightedEdge{F: simple.Node(g.IDs[i]), T: simple.Node(g.IDs[j]), W: g.W[i][j]})
					}
				}
			}
			wg = h
		} else {
			h := simple.NewWeightedUndirectedGraph(0, math.Inf(1))
			for _, i := range order {
				h.AddNode(simple.Node(g.IDs[i]))
			}
			for _, i := range r.Perm(g.N) {
				for j := i + 1; j < g.N; j++ {
					if g.has(i, j) {
						h.SetWeightedEdge(simple.WeightedEdge{F: simple.Node(g.IDs[i]), T: simple.Node(g.IDs[j]), W: g.W[i][j]})
					}
				}
			}
			wg = h
		}
		switch flavor {
		case "simple":
			return Built{Flavor: flavor, G: wg, T: wg, Weight: wg.Weight}
		case "pw-only":
			pw := pwOnly{Graph: wg, w: wg.Weight}
			if dg, ok := wg.(graph.Directed); ok {
				pd := pwOnlyDirected{pwOnly: pw, d: dg}
				return Built{Flavor: flavor, G: pd, T: pd, Weight: wg.Weight}
			}
			return Built{Flavor: flavor, G: pw, T: pw, Weight: wg.Weight}
		case "hide-weights":
			hw := hideWeights{Graph: wg}
			if dg, ok := wg.(graph.Directed); ok {
				hd := hideWeightsDirected{hideWeights: hw, d: dg}
				return Built{Flavor: flavor, G: hd, T: hd}
			}
			return Built{Flavor: flavor, G: hw, T: hw}
		case "ordered":
			rank := make(map[int64]int, g.N)
			for pos, i := range r.Perm(g.N) {
				rank[g.IDs[i]] = pos
			}
			og := orderedGraph{weightedGraph: wg, rank: rank}
			if dg, ok := wg.(graph.Directed); ok {
				od := orderedDirected{orderedGraph: og, d: dg}
				return Built{Flavor: flavor, G: od, T: od, Weight: wg.Weight}
			}
			return Built{Flavor: flavor, G: og, T: og, Weight: wg.Weight}
		case "trav":
			return Built{Flavor: flavor, T: travOnly{g: wg, w: wg.Weight, keepEmpt: true}, Weight: wg.Weight}
		default:
			return Built{Flavor: flavor, T: travOnly{g: wg, w: wg.Weight, keepEmpt: false}, Weight: wg.Weight}
		}
	case "multi-min", "multi-sum":
		useMin := flavor == "multi-min"
		// split W into 1..3 parallel lines aggregating to W.
		lines := func(w float64) []float64 {
			k := r.Range(1, 3)
			out := make([]float64, k)
			if useMin {
				at := r.Intn(k)
				for i := range out {
					out[i] = w + float64(r.Range(0, 3))
				}
				out[at] = w
			} else {
				rest := w
				for i := 0; i < k-1; i++ {
					out[i] = float64(r.Range(-2, 2))
					rest -= out[i]
				}
				out[k-1] = rest
			}
			return out
		}
		if g.Directed {
			h := multi.NewWeightedDirectedGraph()
			if useMin {
				h.EdgeWeightFunc = minLines
			}
			for _, i := range order {
				h.AddNode(multi.Node(g.IDs[i]))
			}
			for _, i := range r.Perm(g.N) {
				for j := 0; j < g.N; j++ {
					if g.has(i, j) {
						for _, w := range lines(g.W[i][j]) {
							h.SetWeightedLine(h.NewWeightedLine(multi.Node(g.IDs[i]), multi.Node(g.IDs[j]), w))
						}
					}
				}
			}
			return Built{Flavor: flavor, G: h, T: h, Weight: h.Weight}
		}
		h := multi.NewWeightedUndirectedGraph()
		if useMin {
			h.EdgeWeightFunc = minLines
		}
		for _, i := range order {
			h.AddNode(multi.Node(g.IDs[i]))
		}
		for _, i := range r.Perm(g.N) {
			for j := i + 1; j < g.N; j++ {
				if g.has(i, j) {
					for _, w := range lines(g.W[i][j]) {
						h.SetWeightedLine(h.NewWeightedLine(multi.Node(g.IDs[i]), multi.Node(g.IDs[j]), w))
					}
				}
			}
		}
		return Built{Flavor: flavor, G: h, T: h, Weight: h.Weight}
	case "uniform", "trav-uniform":
		var ug graph.Graph
		if g.Directed {
			h := simple.NewDirectedGraph()
			for _, i := range order {
				h.AddNode(simple.Node(g.IDs[i]))
			}
			for i := 0; i < g.N; i++ {
				for j := 0; j < g.N; j++ {
					if g.has(i, j) {
						h.SetEdge(simple.Edge{F: simple.Node(g.IDs[i]), T: simple.Node(g.IDs[j])})
					}
				}
			}
			ug = h
		} else {
			h := simple.NewUndirectedGraph()
			for _, i := range order {
				h.AddNode(simple.Node(g.IDs[i]))
			}
			for i := 0; i < g.N; i++ {
				for j := i + 1; j < g.N; j++ {
					if g.has(i, j) {
						h.SetEdge(simple.Edge{F: simple.Node(g.IDs[i]), T: simple.Node(g.IDs[j])})
					}
				}
			}
			ug = h
		}
		if flavor == "uniform" {
			return Built{Flavor: flavor, G: ug, T: ug}
		}
		return Built{Flavor: flavor, T: travUnweighted{ug}}
	}
	panic("unknown flavor " + flavor)
}

// ---------- witness rendering ----------

// Witness is what goes into a replay file: the whole input graph as arcs.
type Witness struct {
	Class    string       `json:"class"`
	Flavor   string       `json:"flavor"`
	Directed bool         `json:"directed"`
	IDs      []int64      `json:"ids"`
	Arcs     [][3]float64 `json:"arcs_from_to_weight"` // IDs as floats are lossy for extremes; ArcIdx is exact
	ArcIdx   [][2]int     `json:"arcs_index"`
	Query    string       `json:"query"`
	Observed any          `json:"observed"`
	Expected any          `json:"expected"`
}

func (g *RG) witness(flavor, query string, observed, expected any) Witness {
	w := Witness{Class: g.Class, Flavor: flavor, Directed: g.Directed, IDs: g.IDs, Query: query, Observed: observed, Expected: expected}
	if g.N > 16 {
		// keep witnesses of large graphs bounded: arcs only by index
		for i := 0; i < g.N; i++ {
			for j := 0; j < g.N; j++ {
				if g.has(i, j) && (g.Directed || i < j) {
					w.ArcIdx = append(w.ArcIdx, [2]int{i, j})
					w.Arcs = append(w.Arcs, [3]float64{float64(i), float64(j), g.W[i][j]})
				}
			}
		}
		w.Query += " (arcs given by node INDEX into ids)"
		return w
	}
	for i := 0; i < g.N; i++ {
		for j := 0; j < g.N; j++ {
			if g.has(i, j) && (g.Directed || i < j) {
				w.ArcIdx = append(w.ArcIdx, [2]int{i, j})
				w.Arcs = append(w.Arcs, [3]float64{float64(g.IDs[i]), float64(g.IDs[j]), g.W[i][j]})
			}
		}
	}
	return w
}

func (g *RG) String() string {
	s := fmt.Sprintf("%s directed=%v n=%d arcs:", g.Class, g.Directed, g.N)
	for i := 0; i < g.N; i++ {
		for j := 0; j < g.N; j++ {
			if g.has(i, j) && (g.Directed || i < j) {
				s += fmt.Sprintf(" %d>%d:%g", g.IDs[i], g.IDs[j], g.W[i][j])
			}
		}
	}
	return s
}
