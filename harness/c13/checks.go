package main

// Oracles for the static shortest-path routines of graph/path.

import (
	"fmt"
	"math"
	"runtime"
	"runtime/debug"
	"sort"
	"strings"
	"sync"

	"gonum.org/v1/gonum/graph"
	"gonum.org/v1/gonum/graph/path"
	"gonum.org/v1/gonum/graph/simple"
	"gonum.org/v1/gonum/verifx/vrt"
)

// K checks one (reference graph, gonum rendering) pair.
type K struct {
	c *vrt.Ctx
	g *RG
	b Built
	r *vrt.Rand
	// R is the number of repetitions of queries that draw from gonum's
	// unseedable global PRNG (Between / To on alternatives).
	R int

	d           [][]float64 // reference all-pairs distances
	zc          []bool      // node lies on a zero-weight cycle
	anyNegCycle bool        // a negative cycle exists anywhere in the graph
	negArc      bool        // a negative arc exists anywhere
	exhaustive  bool        // n small enough to enumerate all simple paths
	allQueries  bool        // query All* for every pair even on large graphs (ties workload)
	tag         string      // "" or "[trav]" (routine suffix: different documented node-storage behaviour)
	absent      int64

	evals map[string]int
}

const exhaustiveN = 7

// exhaustiveOK reports whether all simple paths of g are enumerated for the
// All*-set and Yen oracles: always up to 7 nodes, up to 9 nodes when the
// graph is not too dense.
func exhaustiveOK(g *RG) bool {
	return g.N <= exhaustiveN || (g.N <= 9 && g.numArcs() <= 40)
}

func newK(c *vrt.Ctx, r *vrt.Rand, g *RG, b Built) *K {
	k := &K{c: c, g: g, b: b, r: r, R: c.Pick(3, 20), evals: map[string]int{}}
	k.d = g.apsp()
	for i := 0; i < g.N; i++ {
		if k.d[i][i] < 0 {
			k.anyNegCycle = true
		}
	}
	k.negArc = g.hasNegArc()
	k.zc = g.onZeroCycle(k.d)
	k.exhaustive = exhaustiveOK(g)
	if b.G == nil {
		k.tag = "[trav]"
	}
	k.absent = absentID(r, g)
	if k.exhaustive && r.Intn(8) == 0 {
		// Oracle self-check: the two independent reference computations
		// (Bellman-Ford with -Inf propagation; minimum over all enumerated
		// simple paths) must agree wherever no negative cycle interferes.
		for s := 0; s < g.N; s++ {
			for t := 0; t < g.N; t++ {
				if math.IsInf(k.d[s][t], -1) {
					continue
				}
				if m := g.minSimple(s, t); m != k.d[s][t] {
					c.Inconclusive("oracle-selfcheck", fmt.Sprintf("reference disagreement %g vs %g for %d->%d on %s", k.d[s][t], m, s, t, g.String()))
				}
			}
		}
		c.Count("oracle.selfchecked_graphs", 1)
	}
	c.LastCase("C13 static routines on " + g.String() + " [" + b.Flavor + "]")
	return k
}

func (k *K) flush() {
	for key, n := range k.evals {
		k.c.EvalN(key, n, true)
	}
	k.evals = map[string]int{}
}

// ev counts one real call of gonum code under the class key.
func (k *K) ev(routine string) {
	dir := "undirected"
	if k.g.Directed {
		dir = "directed"
	}
	sz := "n<=4"
	switch {
	case k.g.N > 30:
		sz = "n>30"
	case k.g.N > 7:
		sz = "n8-30"
	case k.g.N > 4:
		sz = "n5-7"
	}
	k.evals[routine+"|"+k.b.Flavor+"|"+dir+"|"+k.g.Class+"|"+sz]++
}

func (k *K) id(i int) int64 {
	if i < 0 {
		return k.absent
	}
	return k.g.IDs[i]
}

// exp returns the reference distance between node indices (-1 = absent).
func (k *K) exp(s, t int) float64 {
	if s < 0 || t < 0 {
		return pInf
	}
	return k.d[s][t]
}

// qclass returns the path-class tags of a query that are relevant for it.
func (k *K) qclass(s, t int) string {
	var tags []string
	if s < 0 || t < 0 {
		tags = append(tags, "absent")
	}
	if s == t {
		tags = append(tags, "s=t")
	}
	if s >= 0 && k.g.outDeg(s) == 0 {
		tags = append(tags, "sink-src")
	}
	if s >= 0 && anyNegInf(k.d[s]) {
		tags = append(tags, "negcycle")
	} else if s >= 0 && t >= 0 && k.zeroCycleOn(s, t) {
		tags = append(tags, "zerocycle")
	}
	if len(tags) == 0 {
		return "plain"
	}
	return strings.Join(tags, ",")
}

// zeroCycleOn reports whether some shortest s-t walk can pass through a
// zero-weight cycle.
func (k *K) zeroCycleOn(s, t int) bool {
	dst := k.d[s][t]
	if math.IsInf(dst, 0) {
		return false
	}
	for x := 0; x < k.g.N; x++ {
		if k.zc[x] && !math.IsInf(k.d[s][x], 0) && !math.IsInf(k.d[x][t], 0) && k.d[s][x]+k.d[x][t] == dst {
			return true
		}
	}
	return false
}

// uniqueJudged reports whether the unique flag of To/Between is determined
// by the docs for the query: with two or more simple shortest paths it must
// be false; with exactly one and no zero-weight cycle touching any shortest
// walk it must be true. With one simple shortest path and a zero-weight
// cycle through one of its nodes the docs ("if a cycle with zero weight
// exists in the path ... unique will be returned false") do not settle
// cycles through the end points, and gonum answers true for a cycle through
// the source: either answer is accepted. Under a negative cycle elsewhere in
// the graph the zero-cycle test is not meaningful: not judged.
func (k *K) uniqueJudged(s, t, nShortest int) bool {
	if nShortest >= 2 {
		return true
	}
	if k.anyNegCycle {
		return false
	}
	return !k.zeroCycleOn(s, t)
}

func idsOf(p []graph.Node) []int64 {
	if p == nil {
		return nil
	}
	out := make([]int64, len(p))
	for i, n := range p {
		if n == nil {
			out[i] = math.MinInt64
			continue
		}
		out[i] = n.ID()
	}
	return out
}

func (k *K) toIdx(p []graph.Node) ([]int, bool) {
	out := make([]int, len(p))
	for i, n := range p {
		if n == nil {
			return nil, false
		}
		out[i] = k.g.idx(n.ID())
		if out[i] < 0 {
			return nil, false
		}
	}
	return out, true
}

func fstr(x float64) string { return fmt.Sprintf("%g", x) }

func (k *K) viol(routine string, s, t int, clause string, query fmt.Stringer, observed, expected any) {
	sig := routine + k.tag + "|" + k.qclass(s, t) + "|" + clause
	k.violSig(sig, query, observed, expected)
}

func (k *K) violSig(sig string, query fmt.Stringer, observed, expected any) {
	// Only the first witness of a signature is kept by vrt: do not build
	// details for the (possibly hundreds of thousands of) repeats.
	if _, dup := seenSigs.LoadOrStore(sig, true); dup {
		k.c.Violation(sig, "", nil)
		return
	}
	k.c.Violation(sig,
		fmt.Sprintf("%s on %s [%s]: observed %v, expected %v", query, k.g.String(), k.b.Flavor, observed, expected),
		k.g.witness(k.b.Flavor, query.String(), observed, expected))
}

var seenSigs sync.Map

// lq is a lazily formatted query description.
type lq struct {
	f string
	a []any
}

func lazy(f string, a ...any) *lq { return &lq{f, a} }
func (q *lq) String() string      { return fmt.Sprintf(q.f, q.a...) }

type strq string

func (q strq) String() string { return string(q) }

// tryFn runs f and recovers a panic. The (expensive) stack is captured only
// for panics other than the documented "negative edge weight" ones.
func tryFn(f func()) (p *vrt.PanicInfo) {
	defer func() {
		if r := recover(); r != nil {
			if s, ok := r.(string); ok && strings.Contains(s, "negative edge weight") {
				p = &vrt.PanicInfo{Value: r, Msg: s}
				return
			}
			p = &vrt.PanicInfo{Value: r, Msg: fmt.Sprint(r)}
			if re, ok := r.(runtime.Error); ok {
				p.Runtime = true
				p.Msg = re.Error()
			}
			st := string(debug.Stack())
			if len(st) > 3000 {
				st = st[:3000]
			}
			p.Stack = st
		}
	}()
	f()
	return nil
}

// judgePath applies the path clauses of the property to one returned
// (path, weight) for the query s->t (indices, -1 = absent) whose reference
// distance is not -Inf. It returns the failing clause or "".
func (k *K) judgePath(s, t int, p []graph.Node, w float64) string {
	exp := k.exp(s, t)
	if s < 0 || t < 0 {
		if k.id(s) == k.id(t) {
			// A node that is not in the graph: "the trivial path" and "no
			// path" are both defensible; the docs are silent.
			if w == 0 && len(p) == 1 && p[0] != nil && p[0].ID() == k.id(s) {
				return ""
			}
		}
		if !math.IsInf(w, 1) {
			return "absent-node-weight"
		}
		if len(p) != 0 {
			return "absent-node-path"
		}
		return ""
	}
	if math.IsInf(exp, 1) {
		if !math.IsInf(w, 1) {
			return "unreachable-weight"
		}
		if len(p) != 0 {
			return "unreachable-path"
		}
		return ""
	}
	if w != exp {
		return "wrong-weight"
	}
	if len(p) == 0 {
		return "no-path"
	}
	ip, ok := k.toIdx(p)
	if !ok {
		return "not-a-walk"
	}
	if ip[0] != s || ip[len(ip)-1] != t {
		return "wrong-endpoints"
	}
	sum, ok := k.g.walkWeight(ip)
	if !ok {
		return "not-a-walk"
	}
	if sum != w {
		return "weight-sum"
	}
	return ""
}

type obsPath struct {
	Path   []int64 `json:"path"`
	Weight string  `json:"weight"`
	Unique *bool   `json:"unique,omitempty"`
}

func mkObs(p []graph.Node, w float64) obsPath { return obsPath{Path: idsOf(p), Weight: fstr(w)} }

// try runs f; an escaped panic is reported as a violation of routine and
// true is returned.
func (k *K) try(routine string, s, t int, query fmt.Stringer, f func()) (panicked bool) {
	if p := tryFn(f); p != nil {
		clause := "unexpected-panic"
		if p.Runtime {
			clause = "runtime-panic"
		}
		k.viol(routine, s, t, clause, query, p.Msg+"\n"+p.Stack, "no panic")
		return true
	}
	return false
}

// sources returns the source indices to use (-1 = absent node).
func (k *K) sources() []int {
	var out []int
	if k.exhaustive || k.allQueries {
		for i := 0; i < k.g.N; i++ {
			out = append(out, i)
		}
		return append(out, -1)
	}
	m := map[int]bool{}
	for len(m) < 3 {
		m[k.r.Intn(k.g.N)] = true
	}
	for i := 0; i < k.g.N; i++ { // one sink, if any
		if k.g.outDeg(i) == 0 {
			m[i] = true
			break
		}
	}
	for i := range m {
		out = append(out, i)
	}
	sort.Ints(out)
	return append(out, -1)
}

// targets returns all target indices plus the absent node.
func (k *K) targets() []int {
	out := make([]int, 0, k.g.N+1)
	for i := 0; i < k.g.N; i++ {
		out = append(out, i)
	}
	return append(out, -1)
}

func (k *K) sampleTargets(m int) []int {
	if k.g.N <= m {
		return k.targets()
	}
	out := k.r.Perm(k.g.N)[:m]
	return append(out, -1)
}

// ---------------- single-source trees ----------------

// sourceMissing detects the "empty tree" state of a single-source result on a
// traverse.Graph-only input whose source has no out-edges: the routines
// return a tree that does not even hold the source, so the distance from the
// source to itself is +Inf instead of 0 (and AllTo(source) indexes an empty
// slice). It is reported once per constructor under one signature and the
// s==t queries on that tree are then skipped; all other targets stay judged.
func (k *K) sourceMissing(routine string, s int, weightTo func(int64) float64) bool {
	if s < 0 || k.b.G != nil || k.g.outDeg(s) != 0 {
		return false
	}
	var w float64
	if p := tryFn(func() { w = weightTo(k.id(s)) }); p != nil || w == 0 {
		return false
	}
	k.violSig(routine+"[trav]|sink-src|source-not-in-tree", lazy("%s(%d).WeightTo(%d)", routine, k.id(s), k.id(s)), fstr(w), "0")
	return true
}

// checkShortest judges a path.Shortest built from source s on a graph
// without a negative cycle reachable from s.
func (k *K) checkShortest(routine string, sh path.Shortest, s int) {
	skipSelf := k.sourceMissing(routine, s, sh.WeightTo)
	for _, t := range k.targets() {
		if skipSelf && t == s {
			continue
		}
		tid := k.id(t)
		q := lazy("%s(%d).WeightTo(%d)", routine, k.id(s), tid)
		var w float64
		if k.try(routine+".WeightTo", s, t, q, func() { w = sh.WeightTo(tid) }) {
			continue
		}
		if exp := k.exp(s, t); w != exp && !(s < 0 && s == t && w == 0) {
			k.viol(routine+".WeightTo", s, t, "wrong-weight", q, fstr(w), fstr(exp))
		}
		q = lazy("%s(%d).To(%d)", routine, k.id(s), tid)
		var p []graph.Node
		if k.try(routine+".To", s, t, q, func() { p, w = sh.To(tid) }) {
			continue
		}
		if cl := k.judgePath(s, t, p, w); cl != "" {
			k.viol(routine+".To", s, t, cl, q, mkObs(p, w), fstr(k.exp(s, t)))
		}
	}
}

// checkNegCycleTree judges a Bellman-Ford tree returned with ok=false.
// What the docs promise in that state is weak: the search stops as soon as
// the cycle is detected, WeightTo "will not reflect the true path weight",
// To reports -Inf "if the path to v includes a negative cycle" (the stored
// tree path; the example test calls the set of cycles found
// "non-exhaustive"). What remains decidable:
//   - unreachable nodes stay (+Inf, nil);
//   - reachable nodes are not reported unreachable;
//   - -Inf is never reported for a node whose true distance is finite
//     (no walk to it passes through a negative cycle);
//   - a finite reported weight is the weight of some real walk, hence not
//     below the true minimum;
//   - the returned node sequence consists of real arcs and ends at v.
func (k *K) checkNegCycleTree(routine string, to func(int64) ([]graph.Node, float64), weightTo func(int64) float64, s int) {
	for _, t := range k.targets() {
		tid := k.id(t)
		exp := k.exp(s, t)
		q := lazy("%s(%d).To(%d)", routine, k.id(s), tid)
		var p []graph.Node
		var w float64
		if k.try(routine+".To", s, t, q, func() { p, w = to(tid) }) {
			continue
		}
		if math.IsInf(exp, 1) {
			if !math.IsInf(w, 1) || len(p) != 0 {
				k.viol(routine+".To", s, t, "unreachable-weight", q, mkObs(p, w), "+Inf, nil")
			}
			if ww := weightTo(tid); !math.IsInf(ww, 1) {
				k.viol(routine+".WeightTo", s, t, "unreachable-weight", q, fstr(ww), "+Inf")
			}
			continue
		}
		if math.IsInf(w, 1) {
			k.viol(routine+".To", s, t, "reachable-reported-unreachable", q, mkObs(p, w), fstr(exp))
			continue
		}
		if !math.IsInf(exp, -1) {
			if math.IsInf(w, -1) {
				// the mark is made in Shortest.set / ShortestAlts.set, shared
				// by both input kinds: one signature per result type
				typ := "Shortest"
				if routine == "BellmanFordAllFrom" {
					typ = "ShortestAlts"
				}
				k.violSig(typ+".To|negcycle|false-negcycle-flag", q, mkObs(p, w), fstr(exp))
				continue
			}
			if w < exp {
				k.viol(routine+".To", s, t, "weight-below-optimum", q, mkObs(p, w), fstr(exp))
				continue
			}
		}
		if math.IsInf(w, -1) {
			k.c.Count("bf.negcycle_flagged_targets", 1)
		} else if math.IsInf(exp, -1) {
			k.c.Count("bf.negcycle_unflagged_targets(documented non-exhaustive)", 1)
		}
		k.judgeNegWalk(routine+".To", s, t, q, p, w)
	}
}

// judgeNegWalk: "one pass through the cycle will be included in path, but any
// path leading into the negative cycle will be lost": the node sequence must
// consist of real arcs and end at the target.
func (k *K) judgeNegWalk(routine string, s, t int, q fmt.Stringer, p []graph.Node, w float64) {
	if len(p) == 0 {
		k.viol(routine, s, t, "negcycle-no-path", q, mkObs(p, w), "non-empty walk ending at target")
		return
	}
	ip, ok := k.toIdx(p)
	if !ok {
		k.viol(routine, s, t, "negcycle-not-a-walk", q, mkObs(p, w), "real arcs")
		return
	}
	if ip[len(ip)-1] != t {
		k.viol(routine, s, t, "negcycle-wrong-endpoint", q, mkObs(p, w), "walk ending at target")
		return
	}
	if _, ok := k.g.walkWeight(ip); !ok {
		k.viol(routine, s, t, "negcycle-not-a-walk", q, mkObs(p, w), "real arcs")
	}
}

func wantPanic(p *vrt.PanicInfo, sub string) bool {
	return p != nil && !p.Runtime && strings.Contains(p.Msg, sub)
}

// runDijkstraFrom exercises DijkstraFrom from s.
func (k *K) runDijkstraFrom(s int) {
	const routine = "DijkstraFrom"
	u := simple.Node(k.id(s))
	var sh path.Shortest
	q := lazy("DijkstraFrom(%d)", u)
	p := tryFn(func() { sh = path.DijkstraFrom(u, k.b.T) })
	k.ev(routine)
	if s >= 0 && k.g.negArcReachable(s) {
		if !wantPanic(p, "negative edge weight") {
			obs := "no panic"
			if p != nil {
				obs = p.Msg
			}
			k.viol(routine, s, s, "negarc-no-panic", q, obs, `panic "dijkstra: negative edge weight"`)
		}
		return
	}
	if p != nil {
		k.reportPanic(routine, s, s, q, p)
		return
	}
	k.checkShortest(routine, sh, s)
}

func (k *K) reportPanic(routine string, s, t int, q fmt.Stringer, p *vrt.PanicInfo) {
	clause := "unexpected-panic"
	if p.Runtime {
		clause = "runtime-panic"
	}
	k.viol(routine, s, t, clause, q, p.Msg+"\n"+p.Stack, "no panic")
}

// runDijkstraFromTo exercises DijkstraFromTo for all targets from s.
func (k *K) runDijkstraFromTo(s int, targets []int) {
	const routine = "DijkstraFromTo"
	u := simple.Node(k.id(s))
	neg := s >= 0 && k.g.negArcReachable(s)
	negOut := false
	if s >= 0 {
		for j := 0; j < k.g.N; j++ {
			if k.g.has(s, j) && k.g.W[s][j] < 0 {
				negOut = true
			}
		}
	}
	for _, t := range targets {
		v := simple.Node(k.id(t))
		q := lazy("DijkstraFromTo(%d,%d)", u, v)
		var pth []graph.Node
		var w float64
		p := tryFn(func() { pth, w = path.DijkstraFromTo(u, v, k.b.T) })
		k.ev(routine)
		if neg {
			// "will panic if g has a u-reachable negative edge weight that is
			// discovered before reaching t": only the certain case is judged
			// (negative arc out of the source itself, t != s).
			if negOut && s != t && !wantPanic(p, "negative edge weight") {
				k.viol(routine, s, t, "negarc-no-panic", q, "no panic", "panic")
			}
			if p != nil && !wantPanic(p, "negative edge weight") {
				k.reportPanic(routine, s, t, q, p)
			}
			continue
		}
		if p != nil {
			k.reportPanic(routine, s, t, q, p)
			continue
		}
		if cl := k.judgePath(s, t, pth, w); cl != "" {
			if s >= 0 && s == t && k.g.outDeg(s) == 0 && cl == "wrong-weight" && pth == nil && math.IsInf(w, 1) {
				// same code path for graph.Graph and traverse-only inputs
				k.violSig("DijkstraFromTo|s=t,sink-src|wrong-weight", q, mkObs(pth, w), "[s], 0")
				continue
			}
			k.viol(routine, s, t, cl, q, mkObs(pth, w), fstr(k.exp(s, t)))
		}
	}
}

func (k *K) runBellmanFordFrom(s int) {
	const routine = "BellmanFordFrom"
	u := simple.Node(k.id(s))
	var sh path.Shortest
	var ok bool
	q := lazy("BellmanFordFrom(%d)", u)
	p := tryFn(func() { sh, ok = path.BellmanFordFrom(u, k.b.T) })
	k.ev(routine)
	if p != nil {
		k.reportPanic(routine, s, s, q, p)
		return
	}
	neg := s >= 0 && anyNegInf(k.d[s])
	if ok == neg {
		k.viol(routine, s, s, "negcycle-flag", q, fmt.Sprintf("ok=%v", ok), fmt.Sprintf("ok=%v", !neg))
		return
	}
	if neg {
		k.checkNegCycleTree(routine, sh.To, sh.WeightTo, s)
		return
	}
	k.checkShortest(routine, sh, s)
}

// ---------------- single-source trees with alternatives ----------------

func (k *K) checkAlts(routine string, sh path.ShortestAlts, s int) {
	var cnt []int
	cntOK := false
	if !k.exhaustive && s >= 0 {
		cnt, cntOK = k.g.countTightPaths(s, k.d[s], allPathsCap+1)
	}
	allTargets := map[int]bool{}
	if !k.exhaustive {
		ts := k.sampleTargets(6)
		if k.allQueries {
			ts = k.targets()
		}
		for _, t := range ts {
			allTargets[t] = true
		}
	}
	skipSelf := k.sourceMissing(routine, s, sh.WeightTo)
	for _, t := range k.targets() {
		if skipSelf && t == s {
			continue
		}
		tid := k.id(t)
		exp := k.exp(s, t)
		q := lazy("%s(%d).WeightTo(%d)", routine, k.id(s), tid)
		var w float64
		if k.try(routine+".WeightTo", s, t, q, func() { w = sh.WeightTo(tid) }) {
			continue
		}
		if w != exp && !(s < 0 && s == t && w == 0) {
			k.viol(routine+".WeightTo", s, t, "wrong-weight", q, fstr(w), fstr(exp))
		}

		// number of simple shortest paths, if known
		nShortest := -1
		var want map[string]bool
		if s >= 0 && t >= 0 && !math.IsInf(exp, 0) {
			if k.exhaustive {
				want = k.g.shortestSimple(s, t, exp)
				nShortest = len(want)
			} else if cntOK {
				nShortest = cnt[t]
			}
		}

		// To: draws from the global PRNG when alternatives exist.
		q = lazy("%s(%d).To(%d)", routine, k.id(s), tid)
		reps := k.R
		if nShortest == 1 && !k.zeroCycleOn(s, t) || s < 0 || t < 0 || math.IsInf(exp, 0) {
			reps = 1
		}
		for rep := 0; rep < reps; rep++ {
			var p []graph.Node
			var unique bool
			if k.try(routine+".To", s, t, q, func() { p, w, unique = sh.To(tid) }) {
				break
			}
			if cl := k.judgePath(s, t, p, w); cl != "" {
				o := mkObs(p, w)
				o.Unique = &unique
				if (cl == "not-a-walk" || cl == "weight-sum") && k.zeroCycleOn(s, t) {
					// the reconstruction (zero-weight cycle cutting) is in the
					// query method, shared by all constructors
					k.violSig("ShortestAlts.To|zerocycle|"+cl, q, o, fstr(exp))
					break
				}
				k.viol(routine+".To", s, t, cl, q, o, fstr(exp))
				break
			}
			if s >= 0 && t >= 0 && s != t && nShortest >= 0 && nShortest <= allPathsCap && k.uniqueJudged(s, t, nShortest) {
				wantU := nShortest == 1
				if unique != wantU {
					o := mkObs(p, w)
					o.Unique = &unique
					k.viol(routine+".To", s, t, "unique-flag", q, o, fmt.Sprintf("unique=%v (%d simple shortest paths)", wantU, nShortest))
					break
				}
			}
		}

		// AllTo
		if !k.exhaustive && (!allTargets[t] || nShortest > allPathsCap || (nShortest < 0 && s >= 0 && t >= 0 && !math.IsInf(exp, 0))) {
			continue
		}
		q = lazy("%s(%d).AllTo(%d)", routine, k.id(s), tid)
		var ps [][]graph.Node
		if s < 0 && t == s {
			// The tree of a source that is not in the graph is empty;
			// AllTo(source) on it indexes an empty node slice.
			if p := tryFn(func() { ps, w = sh.AllTo(tid) }); p != nil {
				if p.Runtime {
					k.violSig("ShortestAlts.AllTo|empty-tree,s=t|runtime-panic", q, p.Msg+"\n"+p.Stack, "no panic")
				} else {
					k.reportPanic(routine+".AllTo", s, t, q, p)
				}
				continue
			}
		} else if k.try(routine+".AllTo", s, t, q, func() { ps, w = sh.AllTo(tid) }) {
			continue
		}
		k.judgeAll(routine+".AllTo", s, t, q, ps, w, want, nShortest)
		if k.exhaustive {
			var fps [][]graph.Node
			if !k.try(routine+".AllToFunc", s, t, q, func() {
				sh.AllToFunc(tid, func(p []graph.Node) { fps = append(fps, append([]graph.Node(nil), p...)) })
			}) && !samePathSet(ps, fps) {
				k.viol(routine+".AllToFunc", s, t, "differs-from-AllTo", q, mkObsAll(fps, w), mkObsAll(ps, w))
			}
		}
	}
}

// samePathSet reports whether a and b hold the same paths (as multisets of
// ID sequences).
func samePathSet(a, b [][]graph.Node) bool {
	if len(a) != len(b) {
		return false
	}
	m := map[string]int{}
	for _, p := range a {
		m[fmt.Sprint(idsOf(p))]++
	}
	for _, p := range b {
		m[fmt.Sprint(idsOf(p))]--
	}
	for _, v := range m {
		if v != 0 {
			return false
		}
	}
	return true
}

// allPathsCap bounds the number of alternative shortest paths for which
// All* queries are made on large graphs.
const allPathsCap = 300

type obsPaths struct {
	Paths  [][]int64 `json:"paths"`
	Weight string    `json:"weight"`
}

func mkObsAll(ps [][]graph.Node, w float64) obsPaths {
	o := obsPaths{Weight: fstr(w)}
	for i, p := range ps {
		if i >= 64 {
			break
		}
		o.Paths = append(o.Paths, idsOf(p))
	}
	return o
}

// judgeAll applies the "precisely the set of distinct simple shortest
// paths" clause. want is the exhaustive set (nil if not enumerated);
// nShortest the number of simple shortest paths if known (-1 otherwise).
func (k *K) judgeAll(routine string, s, t int, q fmt.Stringer, ps [][]graph.Node, w float64, want map[string]bool, nShortest int) {
	exp := k.exp(s, t)
	if s < 0 || t < 0 {
		if k.id(s) == k.id(t) && w == 0 && len(ps) == 1 && len(ps[0]) == 1 && ps[0][0].ID() == k.id(s) {
			return
		}
		if !math.IsInf(w, 1) || len(ps) != 0 {
			k.viol(routine, s, t, "absent-node", q, mkObsAll(ps, w), "+Inf, nil")
		}
		return
	}
	if math.IsInf(exp, 1) {
		if !math.IsInf(w, 1) || len(ps) != 0 {
			k.viol(routine, s, t, "unreachable", q, mkObsAll(ps, w), "+Inf, nil")
		}
		return
	}
	if w != exp {
		k.viol(routine, s, t, "wrong-weight", q, mkObsAll(ps, w), fstr(exp))
		return
	}
	got := make(map[string]bool, len(ps))
	for _, p := range ps {
		ip, ok := k.toIdx(p)
		if !ok || len(ip) == 0 {
			k.viol(routine, s, t, "not-a-walk", q, mkObsAll(ps, w), "real paths")
			return
		}
		if ip[0] != s || ip[len(ip)-1] != t {
			k.viol(routine, s, t, "wrong-endpoints", q, mkObsAll(ps, w), "paths from s to t")
			return
		}
		sum, ok := k.g.walkWeight(ip)
		if !ok {
			k.viol(routine, s, t, "not-a-walk", q, mkObsAll(ps, w), "real paths")
			return
		}
		if sum != w {
			k.viol(routine, s, t, "weight-sum", q, mkObsAll(ps, w), fstr(w))
			return
		}
		if !isSimple(ip) {
			k.viol(routine, s, t, "non-simple-path", q, mkObsAll(ps, w), "simple paths only")
			return
		}
		key := pathKey(ip)
		if got[key] {
			k.viol(routine, s, t, "duplicate-path", q, mkObsAll(ps, w), "distinct paths")
			return
		}
		got[key] = true
	}
	if want != nil {
		for key := range want {
			if !got[key] {
				k.viol(routine, s, t, "missing-path", q, mkObsAll(ps, w), fmt.Sprintf("%d paths incl. (indices) %s", len(want), key))
				return
			}
		}
		// extra paths are impossible here: every returned path was shown to
		// be a simple s-t path of the optimal weight, hence in want.
	} else if nShortest >= 0 && len(got) != nShortest {
		k.viol(routine, s, t, "path-count", q, mkObsAll(ps, w), fmt.Sprintf("%d paths", nShortest))
	}
}

func (k *K) runDijkstraAllFrom(s int) {
	const routine = "DijkstraAllFrom"
	u := simple.Node(k.id(s))
	var sh path.ShortestAlts
	q := lazy("DijkstraAllFrom(%d)", u)
	p := tryFn(func() { sh = path.DijkstraAllFrom(u, k.b.T) })
	k.ev(routine)
	if s >= 0 && k.g.negArcReachable(s) {
		if !wantPanic(p, "negative edge weight") {
			k.viol(routine, s, s, "negarc-no-panic", q, "no panic", "panic")
		}
		return
	}
	if p != nil {
		k.reportPanic(routine, s, s, q, p)
		return
	}
	k.checkAlts(routine, sh, s)
}

func (k *K) runBellmanFordAllFrom(s int) {
	const routine = "BellmanFordAllFrom"
	u := simple.Node(k.id(s))
	var sh path.ShortestAlts
	var ok bool
	q := lazy("BellmanFordAllFrom(%d)", u)
	p := tryFn(func() { sh, ok = path.BellmanFordAllFrom(u, k.b.T) })
	k.ev(routine)
	if p != nil {
		k.reportPanic(routine, s, s, q, p)
		return
	}
	neg := s >= 0 && anyNegInf(k.d[s])
	if ok == neg {
		k.viol(routine, s, s, "negcycle-flag", q, fmt.Sprintf("ok=%v", ok), fmt.Sprintf("ok=%v", !neg))
		return
	}
	if neg {
		to := func(id int64) ([]graph.Node, float64) { p, w, _ := sh.To(id); return p, w }
		for rep := 0; rep < k.R; rep++ {
			k.checkNegCycleTree(routine, to, sh.WeightTo, s)
		}
		// AllTo: "If a negative cycle exists between u and v, paths is
		// returned nil and weight is returned as -Inf."
		for _, t := range k.targets() {
			if t < 0 || !k.exhaustive {
				// AllTo enumerates every path of the predecessor structure:
				// only affordable on small graphs once cycles are in it.
				continue
			}
			tid := k.id(t)
			q := lazy("%s(%d).AllTo(%d)", routine, k.id(s), tid)
			var ps [][]graph.Node
			var w float64
			if k.try(routine+".AllTo", s, t, q, func() { ps, w = sh.AllTo(tid) }) {
				continue
			}
			// (nil, -Inf) only where a negative cycle really lies on some
			// walk to t; otherwise every returned path must be a real simple
			// s-t path (weights may be unsettled: the search stopped early).
			exp := k.d[s][t]
			if ps == nil && math.IsInf(w, -1) {
				if !math.IsInf(exp, -1) {
					k.violSig("ShortestAlts.AllTo|negcycle|false-negcycle-flag", q, mkObsAll(ps, w), fstr(exp))
				}
				continue
			}
			if math.IsInf(exp, 1) {
				if len(ps) != 0 || !math.IsInf(w, 1) {
					k.viol(routine+".AllTo", s, t, "unreachable", q, mkObsAll(ps, w), "+Inf, nil")
				}
				continue
			}
			for _, pth := range ps {
				ip, ok := k.toIdx(pth)
				if !ok || len(ip) == 0 || ip[len(ip)-1] != t {
					k.viol(routine+".AllTo", s, t, "negcycle-not-a-walk", q, mkObsAll(ps, w), "real paths ending at t")
					break
				}
				if _, ok := k.g.walkWeight(ip); !ok {
					k.viol(routine+".AllTo", s, t, "negcycle-not-a-walk", q, mkObsAll(ps, w), "real paths")
					break
				}
			}
		}
		return
	}
	k.checkAlts(routine, sh, s)
}

// ---------------- all-pairs ----------------

// checkAllShortest judges ap and then, on enumerated graphs, asks every
// pair again in a different (shuffled) order: the result objects are queried
// repeatedly in practice and the answers must not depend on earlier queries.
func (k *K) checkAllShortest(routine string, ap path.AllShortest) {
	k.checkAllShortestOnce(routine, ap)
	if !k.exhaustive || k.c.NumViolations() > 40 {
		return
	}
	n := k.g.N
	for _, x := range k.r.Perm(n * n) {
		s, t := x/n, x%n
		if math.IsInf(k.d[s][t], -1) {
			continue
		}
		var w float64
		var p []graph.Node
		q := lazy("%s.Between(%d,%d) [second pass]", routine, k.g.IDs[s], k.g.IDs[t])
		if k.try(routine+".Between", s, t, q, func() { p, w, _ = ap.Between(k.g.IDs[s], k.g.IDs[t]) }) {
			continue
		}
		if cl := k.judgePath(s, t, p, w); cl != "" {
			if (cl == "not-a-walk" || cl == "weight-sum") && k.zeroCycleOn(s, t) {
				k.violSig("AllShortest.Between|zerocycle|"+cl, q, mkObs(p, w), fstr(k.d[s][t]))
				continue
			}
			k.viol(routine+".Between(requery)", s, t, cl, q, mkObs(p, w), fstr(k.d[s][t]))
		}
		if ww := ap.Weight(k.g.IDs[s], k.g.IDs[t]); ww != k.d[s][t] {
			k.viol(routine+".Weight(requery)", s, t, "wrong-weight", q, fstr(ww), fstr(k.d[s][t]))
		}
	}
}

func (k *K) checkAllShortestOnce(routine string, ap path.AllShortest) {
	n := k.g.N
	type pair struct{ s, t int }
	var pairs []pair
	if k.exhaustive || k.allQueries {
		for s := -1; s < n; s++ {
			for t := -1; t < n; t++ {
				pairs = append(pairs, pair{s, t})
			}
		}
	} else {
		// all weights are compared below; path queries on a sample
		for i := 0; i < 3*n; i++ {
			pairs = append(pairs, pair{k.r.Intn(n), k.r.Intn(n)})
		}
		pairs = append(pairs, pair{-1, 0}, pair{0, -1}, pair{-1, -1})
		for s := 0; s < n; s++ {
			for t := 0; t < n; t++ {
				w := ap.Weight(k.g.IDs[s], k.g.IDs[t])
				if w != k.d[s][t] {
					q := lazy("%s.Weight(%d,%d)", routine, k.g.IDs[s], k.g.IDs[t])
					k.viol(routine+".Weight", s, t, "wrong-weight", q, fstr(w), fstr(k.d[s][t]))
				}
			}
		}
	}
	cnts := map[int][]int{}
	cntOK := map[int]bool{}
	nAll := 0
	for _, pr := range pairs {
		s, t := pr.s, pr.t
		sid, tid := k.id(s), k.id(t)
		exp := k.exp(s, t)
		q := lazy("%s.Weight(%d,%d)", routine, sid, tid)
		var w float64
		if k.try(routine+".Weight", s, t, q, func() { w = ap.Weight(sid, tid) }) {
			continue
		}
		if w != exp && !((s < 0 || t < 0) && sid == tid && w == 0) {
			k.viol(routine+".Weight", s, t, "wrong-weight", q, fstr(w), fstr(exp))
		}

		nShortest := -1
		var want map[string]bool
		if s >= 0 && t >= 0 && !math.IsInf(exp, 0) {
			if k.exhaustive {
				want = k.g.shortestSimple(s, t, exp)
				nShortest = len(want)
			} else if !k.anyNegCycle {
				if _, done := cnts[s]; !done {
					cnts[s], cntOK[s] = k.g.countTightPaths(s, k.d[s], allPathsCap+1)
				}
				if cntOK[s] {
					nShortest = cnts[s][t]
				}
			}
		}

		q = lazy("%s.Between(%d,%d)", routine, sid, tid)
		reps := k.R
		if s < 0 || t < 0 || math.IsInf(exp, 0) || (nShortest == 1 && !k.zeroCycleOn(s, t)) {
			reps = 1
		}
		for rep := 0; rep < reps; rep++ {
			var p []graph.Node
			var unique bool
			if k.try(routine+".Between", s, t, q, func() { p, w, unique = ap.Between(sid, tid) }) {
				break
			}
			if math.IsInf(exp, -1) {
				// "If a negative cycle exists on the path from u to v, path will
				// be returned nil, weight will be -Inf and unique will be false."
				// For u == v the trivial path [u] with weight 0 is accepted as
				// well (gonum returns it when u is not itself on the cycle
				// but lies on a closed walk through one).
				if s == t && w == 0 && len(p) == 1 && p[0].ID() == sid {
					break
				}
				if p != nil || !math.IsInf(w, -1) || unique {
					o := mkObs(p, w)
					o.Unique = &unique
					k.viol(routine+".Between", s, t, "negcycle-not-flagged", q, o, "nil, -Inf, false")
				}
				break
			}
			if cl := k.judgePath(s, t, p, w); cl != "" {
				o := mkObs(p, w)
				o.Unique = &unique
				if (cl == "not-a-walk" || cl == "weight-sum") && s >= 0 && t >= 0 && k.zeroCycleOn(s, t) {
					k.violSig("AllShortest.Between|zerocycle|"+cl, q, o, fstr(exp))
					break
				}
				k.viol(routine+".Between", s, t, cl, q, o, fstr(exp))
				break
			}
			if s >= 0 && t >= 0 && s != t && nShortest >= 0 && nShortest <= allPathsCap && !math.IsInf(exp, 0) && k.uniqueJudged(s, t, nShortest) {
				wantU := nShortest == 1
				if unique != wantU {
					o := mkObs(p, w)
					o.Unique = &unique
					k.viol(routine+".Between", s, t, "unique-flag", q, o, fmt.Sprintf("unique=%v (%d simple shortest paths)", wantU, nShortest))
					break
				}
			}
		}

		if !k.exhaustive {
			if (nAll >= 12 && !k.allQueries) || nShortest > allPathsCap || (nShortest < 0 && s >= 0 && t >= 0 && !math.IsInf(exp, 0)) {
				continue
			}
			nAll++
		}
		q = lazy("%s.AllBetween(%d,%d)", routine, sid, tid)
		var ps [][]graph.Node
		if k.try(routine+".AllBetween", s, t, q, func() { ps, w = ap.AllBetween(sid, tid) }) {
			continue
		}
		if math.IsInf(exp, -1) {
			if s == t && w == 0 && len(ps) == 1 && len(ps[0]) == 1 && ps[0][0].ID() == sid {
				continue
			}
			if ps != nil || !math.IsInf(w, -1) {
				k.viol(routine+".AllBetween", s, t, "negcycle-not-flagged", q, mkObsAll(ps, w), "nil, -Inf")
			}
			continue
		}
		k.judgeAll(routine+".AllBetween", s, t, q, ps, w, want, nShortest)
		if k.exhaustive {
			var fps [][]graph.Node
			if !k.try(routine+".AllBetweenFunc", s, t, q, func() {
				ap.AllBetweenFunc(sid, tid, func(p []graph.Node) { fps = append(fps, append([]graph.Node(nil), p...)) })
			}) && !samePathSet(ps, fps) {
				k.viol(routine+".AllBetweenFunc", s, t, "differs-from-AllBetween", q, mkObsAll(fps, w), mkObsAll(ps, w))
			}
		}
	}
}

func (k *K) runDijkstraAllPaths() {
	const routine = "DijkstraAllPaths"
	if k.b.G == nil {
		return
	}
	var ap path.AllShortest
	q := strq(routine)
	p := tryFn(func() { ap = path.DijkstraAllPaths(k.b.G) })
	k.ev(routine)
	if k.negArc {
		if !wantPanic(p, "negative edge weight") {
			k.violSig(routine+"|negarc|negarc-no-panic", q, "no panic", "panic")
		}
		return
	}
	if p != nil {
		k.reportPanic(routine, 0, 0, q, p)
		return
	}
	k.checkAllShortest(routine, ap)
}

func (k *K) runFloydWarshall() {
	const routine = "FloydWarshall"
	if k.b.G == nil {
		return
	}
	var ap path.AllShortest
	var ok bool
	q := strq(routine)
	p := tryFn(func() { ap, ok = path.FloydWarshall(k.b.G) })
	k.ev(routine)
	if p != nil {
		k.reportPanic(routine, 0, 0, q, p)
		return
	}
	if ok == k.anyNegCycle {
		k.violSig(routine+"|negcycle-flag", q, fmt.Sprintf("ok=%v", ok), fmt.Sprintf("ok=%v", !k.anyNegCycle))
		return
	}
	// "If a negative cycle exists in the graph the returned paths will be
	// valid and edge weights on the negative cycle will be set to -Inf":
	// the full oracle applies in both cases.
	k.checkAllShortest(routine, ap)
}

func (k *K) runJohnson() {
	const routine = "JohnsonAllPaths"
	if k.b.G == nil {
		return
	}
	var ap path.AllShortest
	var ok bool
	q := strq(routine)
	p := tryFn(func() { ap, ok = path.JohnsonAllPaths(k.b.G) })
	k.ev(routine)
	if p != nil {
		k.reportPanic(routine, 0, 0, q, p)
		return
	}
	if ok == k.anyNegCycle {
		k.violSig(routine+"|negcycle-flag", q, fmt.Sprintf("ok=%v", ok), fmt.Sprintf("ok=%v", !k.anyNegCycle))
		return
	}
	if !ok {
		return // "paths will not contain valid data"
	}
	k.checkAllShortest(routine, ap)
}

// ---------------- A* ----------------

// runAStar exercises AStar for s->t with heuristics derived from the true
// distances: kind 0 = NullHeuristic (nil), 1 = exact, 2 = uniformly scaled
// (consistent), 3 = per-node scale in [0,1] (admissible, in general
// inconsistent).
func (k *K) runAStar(s, t int, kind int) {
	routine := "AStar"
	hclass := [...]string{"h=nil", "h=exact", "h=scaled", "h=inconsistent"}[kind]
	u, v := simple.Node(k.id(s)), simple.Node(k.id(t))
	var h path.Heuristic
	scale := make(map[int64]float64)
	if kind != 0 {
		alpha := k.r.Float64()
		for i := 0; i < k.g.N; i++ {
			switch kind {
			case 1:
				scale[k.g.IDs[i]] = 1
			case 2:
				scale[k.g.IDs[i]] = alpha
			case 3:
				scale[k.g.IDs[i]] = k.r.PickFloat(0, 0, 0.25, 0.5, 1, 1, k.r.Float64())
			}
		}
		h = func(x, y graph.Node) float64 {
			xi, yi := k.g.idx(x.ID()), k.g.idx(y.ID())
			if xi < 0 || yi < 0 {
				return 0
			}
			d := k.d[xi][yi]
			if math.IsInf(d, 0) {
				return 0
			}
			return math.Floor(scale[x.ID()] * d)
		}
	}
	q := lazy("AStar(%d,%d,%s)", u, v, hclass)
	var sh path.Shortest
	p := tryFn(func() { sh, _ = path.AStar(u, v, k.b.T, h) })
	k.ev(routine + "|" + hclass)
	if s >= 0 && k.g.negArcReachable(s) {
		// not in the documented domain; only panics other than the documented one are reported
		if p != nil && !wantPanic(p, "negative edge weight") {
			k.reportPanic(routine, s, t, q, p)
		}
		return
	}
	if p != nil {
		k.reportPanic(routine, s, t, q, p)
		return
	}
	var pth []graph.Node
	var w float64
	if k.try(routine+".To", s, t, q, func() { pth, w = sh.To(v.ID()) }) {
		return
	}
	if cl := k.judgePath(s, t, pth, w); cl != "" {
		if kind == 3 {
			// one signature for the whole class: the doc promises optimality
			// for any admissible heuristic
			k.violSig("AStar|admissible-inconsistent-heuristic|"+cl, q, mkObs(pth, w), fstr(k.exp(s, t)))
			return
		}
		k.viol(routine, s, t, cl, q, mkObs(pth, w), fstr(k.exp(s, t)))
	}
}

// ---------------- Yen ----------------

// runYen exercises YenKShortestPaths for one (s,t,k,cost).
func (k *K) runYen(s, t int, kk int, cost float64) {
	const routine = "YenKShortestPaths"
	if k.b.G == nil {
		return
	}
	u, v := simple.Node(k.id(s)), simple.Node(k.id(t))
	q := lazy("YenKShortestPaths(k=%d,cost=%g,%d,%d)", kk, cost, u, v)
	var ps [][]graph.Node
	// Reference first: the sorted weights of all simple s-t paths. It also
	// guards the call: an unbounded request (k<0) is only made when the
	// number of admissible paths is moderate (Yen is quadratic in it).
	var all []float64
	complete := true
	admissible := 50 // number of paths a correct Yen may have to produce
	if !k.negArc && s >= 0 && t >= 0 && !math.IsInf(k.exp(s, t), 0) {
		all, complete = k.g.allSimpleWeights(s, t, 200000)
		if !complete {
			k.c.Count("yen.skipped_too_many_paths", 1)
			return
		}
		n := 0
		for _, x := range all {
			if x <= k.exp(s, t)+cost {
				n++
			}
		}
		if kk < 0 && n > 3000 {
			k.c.Count("yen.skipped_unbounded_request", 1)
			return
		}
		if kk >= 0 && kk < n {
			n = kk
		}
		admissible = n
	}
	yg := k.b.G
	if k.b.Weight != nil && !k.negArc {
		// (inputs with negative arcs are outside Yen's domain and not
		// judged: no budget there.) A correct run makes at most (paths+1) * n spur searches of at most
		// n From queries each; four times that (plus slack) is the budget.
		yg = withBudget(k.b.G, k.b.Weight, 4*(admissible+2)*k.g.N*(k.g.N+1)+1000)
	}
	p := tryFn(func() { ps = path.YenKShortestPaths(yg, kk, cost, u, v) })
	if p != nil && p.Msg == runawayMsg {
		k.viol(routine, s, t, "does-not-terminate", q, "graph-query budget (4x the bound of a correct run) exhausted", "termination")
		return
	}
	k.ev(fmt.Sprintf("%s|k=%d|cost=%g", routine, kk, cost))
	if k.negArc {
		if p != nil && !wantPanic(p, "negative edge weight") {
			k.reportPanic(routine, s, t, q, p)
		}
		return
	}
	if p != nil {
		k.reportPanic(routine, s, t, q, p)
		return
	}
	exp := k.exp(s, t)
	if s < 0 || t < 0 {
		if k.id(s) == k.id(t) && len(ps) == 1 && len(ps[0]) == 1 {
			return
		}
		if len(ps) != 0 {
			k.viol(routine, s, t, "absent-node", q, mkObsAll(ps, 0), "no paths")
		}
		return
	}
	if math.IsInf(exp, 1) {
		if len(ps) != 0 {
			k.viol(routine, s, t, "unreachable", q, mkObsAll(ps, pInf), "no paths")
		}
		return
	}
	limit := exp + cost
	var elig []float64
	for _, x := range all {
		if x <= limit {
			elig = append(elig, x)
		}
	}
	wantN := len(elig)
	if kk >= 0 && kk < wantN {
		wantN = kk
	}
	// every returned path: real, simple, s->t, distinct, non-decreasing
	got := map[string]bool{}
	var ws []float64
	for _, pth := range ps {
		ip, ok := k.toIdx(pth)
		if !ok || len(ip) == 0 {
			k.viol(routine, s, t, "not-a-walk", q, mkObsAll(ps, exp), "real paths")
			return
		}
		if ip[0] != s || ip[len(ip)-1] != t {
			k.viol(routine, s, t, "wrong-endpoints", q, mkObsAll(ps, exp), "s-t paths")
			return
		}
		sum, ok := k.g.walkWeight(ip)
		if !ok {
			k.viol(routine, s, t, "not-a-walk", q, mkObsAll(ps, exp), "real paths")
			return
		}
		if !isSimple(ip) {
			k.viol(routine, s, t, "loop", q, mkObsAll(ps, exp), "loopless paths")
			return
		}
		key := pathKey(ip)
		if got[key] {
			k.viol(routine, s, t, "duplicate-path", q, mkObsAll(ps, exp), "distinct paths")
			return
		}
		got[key] = true
		if len(ws) > 0 && sum < ws[len(ws)-1] {
			k.viol(routine, s, t, "wrong-order", q, mkObsAll(ps, exp), "non-decreasing weights")
			return
		}
		if sum > limit {
			k.viol(routine, s, t, "over-cost-bound", q, mkObsAll(ps, exp), fmt.Sprintf("weights <= %g", limit))
			return
		}
		ws = append(ws, sum)
	}
	if len(ps) > 0 && ws[0] != exp {
		k.viol(routine, s, t, "first-not-shortest", q, mkObsAll(ps, exp), fstr(exp))
		return
	}
	if len(ps) != wantN {
		clause := "too-few-paths"
		if len(ps) > wantN {
			clause = "too-many-paths"
		}
		k.viol(routine, s, t, clause, q, mkObsAll(ps, exp), fmt.Sprintf("%d paths with weights %v", wantN, elig[:wantN]))
		return
	}
	for i := range ws {
		if ws[i] != elig[i] {
			k.viol(routine, s, t, "missing-cheaper-path", q, mkObsAll(ps, exp), fmt.Sprintf("weights %v", elig[:wantN]))
			return
		}
	}
}
