package main

import (
	"fmt"
	"math"
	"sort"
	"strings"
	"sync"

	"gonum.org/v1/gonum/blas"
	"gonum.org/v1/gonum/lapack"
	"gonum.org/v1/gonum/lapack/gonum"
	"gonum.org/v1/gonum/verifx/c02/lapackgen"
	"gonum.org/v1/gonum/verifx/vrt"
)

// Sub-check 2: LAPACK single-fault argument perturbation. A valid tuple of
// the C02 generator (c02/lapackgen) or of the eigen/SVD descriptors in
// lapack_eigen.go is called as it is (valid side: must return, must not
// touch anything outside its operands) and then once per applicable fault
// with exactly one argument damaged according to its role (invalid side:
// must panic with a "lapack:" string before any operand word changes).

// lroutine is a LAPACK routine descriptor plus what C07 needs on top.
type lroutine struct {
	*lapackgen.Routine
	// fill, when set, writes valid operand contents after FillDefault.
	fill func(a *lapackgen.Args, r *vrt.Rand)
	// emptyIf names the dimensions whose being zero makes the problem empty
	// (slice-length checks are then "trivially satisfied"); nil = every
	// dimension.
	sizeDims []string
	// params, when set, replaces Routine.RandomParams.
	params func(r *vrt.Rand, maxDim int) lapackgen.Params
	// skipFault filters faults the documentation does not promise to reject.
	skipFault func(f *fault, a *lapackgen.Args) bool
	// eitherFault marks faults for which the documentation leaves open
	// whether the value is legal: a normal return and a "lapack:" panic are
	// both accepted, a runtime error or a write before a panic is not.
	eitherFault func(f *fault, a *lapackgen.Args) bool
	// adjust is called on every freshly built tuple (doc-derived minima).
	adjust func(a *lapackgen.Args)
	// elemFaults lists integer-vector arguments whose ELEMENTS the routine
	// promises to validate (own panic message), with a generator of illegal
	// values; the faulty element is placed first, in the middle and last.
	elemFaults map[string]func(a *lapackgen.Args) []int
	// fixed are directed base tuples used before the random ones, so that
	// corners in which a defect of the current tree lives are visited by
	// every run (the set of signatures must not depend on the seed).
	fixed []lapackgen.Params
}

func allLapackRoutines() []*lroutine {
	var out []*lroutine
	for _, n := range lapackgen.Names() {
		out = append(out, &lroutine{Routine: lapackgen.Get(n)})
	}
	for _, l := range out {
		lapackgenHooks(l)
	}
	out = append(out, eigenRoutines()...)
	sort.Slice(out, func(i, j int) bool { return out[i].Name < out[j].Name })
	return out
}

// dims that never make a problem empty when they are zero.
var widthDims = map[string]bool{"ai": true, "bi": true, "kd": true, "kl": true, "ku": true, "offset": true, "k1": true, "k2": true, "ilo": true, "ihi": true}

type fault struct {
	arg   string
	kind  string // what is done to the argument, part of the signature
	apply func(a *lapackgen.Args)
	// needsNonEmpty: only meaningful when no dimension of the problem is 0
	needsNonEmpty bool
}

const illegalFlagByte = '?'

// faultsOf lists the single faults applicable to the valid tuple a.
func faultsOf(a *lapackgen.Args) []*fault {
	var fs []*fault
	for _, x := range a.List {
		name := x.Name
		switch x.Role {
		case lapackgen.RoleFlag:
			if len(x.Values) == 2 && x.Values[0] == 0 && x.Values[1] == 1 {
				continue // a Go bool
			}
			fs = append(fs, &fault{arg: name, kind: "illegal-value", apply: func(a *lapackgen.Args) { a.Arg(name).I = illegalFlagByte }})
		case lapackgen.RoleDim:
			fs = append(fs, &fault{arg: name, kind: "below-minimum", apply: func(a *lapackgen.Args) { y := a.Arg(name); y.I = y.Min - 1 }})
			if x.Max >= 0 {
				fs = append(fs, &fault{arg: name, kind: "above-maximum", apply: func(a *lapackgen.Args) { y := a.Arg(name); y.I = y.Max + 1 }})
			}
		case lapackgen.RoleLD:
			fs = append(fs, &fault{arg: name, kind: "below-minimum", apply: func(a *lapackgen.Args) { y := a.Arg(name); y.I = y.Min - 1 }})
		case lapackgen.RoleInc:
			fs = append(fs, &fault{arg: name, kind: "zero", apply: func(a *lapackgen.Args) { a.Arg(name).I = 0 }})
		case lapackgen.RoleLWork:
			if x.I == -1 {
				continue
			}
			fs = append(fs, &fault{arg: name, kind: "below-minimum", apply: func(a *lapackgen.Args) { y := a.Arg(name); y.I = y.Min - 1 }})
		case lapackgen.RoleData, lapackgen.RoleTau, lapackgen.RoleWork:
			if x.Min > 0 && len(x.S) == x.Min {
				fs = append(fs, &fault{arg: name, kind: "one-short", needsNonEmpty: true, apply: func(a *lapackgen.Args) { y := a.Arg(name); y.S = y.S[:len(y.S)-1] }})
			}
			if x.Exact {
				fs = append(fs, &fault{arg: name, kind: "one-long", needsNonEmpty: true, apply: func(a *lapackgen.Args) {
					y := a.Arg(name)
					s := make([]float64, len(y.S)+1+8)
					vrt.FillTaint(s)
					s = s[4 : 4+len(y.S)+1 : 4+len(y.S)+1]
					copy(s, y.S)
					s[len(s)-1] = 0.5
					y.S = s
				}})
			}
		case lapackgen.RoleIPiv, lapackgen.RoleIWork:
			if x.Min > 0 && len(x.IS) == x.Min {
				fs = append(fs, &fault{arg: name, kind: "one-short", needsNonEmpty: true, apply: func(a *lapackgen.Args) { y := a.Arg(name); y.IS = y.IS[:len(y.IS)-1] }})
			}
			if x.Exact {
				fs = append(fs, &fault{arg: name, kind: "one-long", needsNonEmpty: true, apply: func(a *lapackgen.Args) {
					y := a.Arg(name)
					s := make([]int, len(y.IS)+1)
					copy(s, y.IS)
					if len(s) > 1 {
						s[len(s)-1] = s[len(s)-2]
					}
					y.IS = s
				}})
			}
		}
	}
	return fs
}

// opImage is C07's own bit image of the slice operands (lapackgen's
// Trespasses ignores work[0] in its strictest mode).
type opImage struct {
	f [][]uint64
	i [][]int
}

const imgMask = 0x5a5a5a5a5a5a5a5a

func imageOf(a *lapackgen.Args) *opImage {
	im := &opImage{}
	for _, x := range a.List {
		var fb []uint64
		if x.S != nil {
			fb = make([]uint64, len(x.S))
			for k, v := range x.S {
				fb[k] = math.Float64bits(v) ^ imgMask
			}
		}
		im.f = append(im.f, fb)
		var ib []int
		if x.IS != nil {
			ib = append(ib, x.IS...)
		}
		im.i = append(im.i, ib)
	}
	return im
}

// firstChange returns a description of the first changed operand word and
// the number of changed words; with scratch=false workspaces (Access ==
// Scratch) are skipped, with scratch=true only they are looked at.
func (im *opImage) firstChange(a *lapackgen.Args, scratch bool) (string, int) {
	n := 0
	first := ""
	for k, x := range a.List {
		if (x.Access == lapackgen.Scratch) != scratch {
			continue
		}
		for j, v := range x.S {
			if j < len(im.f[k]) && math.Float64bits(v)^imgMask != im.f[k][j] {
				if n == 0 {
					first = fmt.Sprintf("%s[%d]", x.Name, j)
				}
				n++
			}
		}
		for j, v := range x.IS {
			if j < len(im.i[k]) && v != im.i[k][j] {
				if n == 0 {
					first = fmt.Sprintf("%s[%d]", x.Name, j)
				}
				n++
			}
		}
	}
	return first, n
}

type lapackStats struct {
	mu        sync.Mutex
	valid     int64
	faults    int64
	weakBlas  map[string]int64
	byKind    map[string]int64
	routines  map[string]bool
	skippedNE int64
	eitherOK  int64
	weakWork  map[string]int64
}

func (l *lroutine) randomParams(r *vrt.Rand, maxDim int) lapackgen.Params {
	if l.params != nil {
		return l.params(r, maxDim)
	}
	return l.RandomParams(r, maxDim)
}

func (l *lroutine) nonEmpty(p lapackgen.Params) bool {
	for d, v := range p.Dims {
		if widthDims[d] {
			continue
		}
		if l.sizeDims != nil {
			found := false
			for _, s := range l.sizeDims {
				if s == d {
					found = true
				}
			}
			if !found {
				continue
			}
		}
		if v == 0 {
			return false
		}
	}
	return true
}

// allLarge reports whether every size dimension is at least lo.
func (l *lroutine) allLarge(p lapackgen.Params, lo int) bool {
	for d, v := range p.Dims {
		if widthDims[d] || d == "nrhs" || d == "ncvt" || d == "nru" || d == "ncc" || d == "mm" || d == "nb" || d == "rows" {
			continue
		}
		if v < lo {
			return false
		}
	}
	return true
}

func (l *lroutine) build(p lapackgen.Params, r *vrt.Rand) *lapackgen.Args {
	a := l.Build(p)
	a.FillDefault(r)
	if l.fill != nil {
		l.fill(a, r)
	}
	if l.adjust != nil {
		l.adjust(a)
	}
	return a
}

func runLapack(c *vrt.Ctx) {
	impl := gonum.Implementation{}
	rs := allLapackRoutines()
	st := &lapackStats{weakWork: map[string]int64{}, weakBlas: map[string]int64{}, byKind: map[string]int64{}, routines: map[string]bool{}}
	bases := c.Pick(40, 240)
	if *lite {
		bases = 24
	}
	type job struct{ ri, bi int }
	var jobs []job
	for ri := range rs {
		for bi := 0; bi < bases; bi++ {
			jobs = append(jobs, job{ri, bi})
		}
	}
	vrt.Parallel(len(jobs), func(k int) {
		j := jobs[k]
		lapackBase(c, st, impl, rs[j.ri], j.ri, j.bi)
	})
	c.Note("lapack.routines", len(st.routines))
	c.Count("lapack.valid_calls", st.valid)
	c.Count("lapack.single_fault_calls", st.faults)
	c.Count("lapack.slice_faults_skipped_on_empty_problems", st.skippedNE)
	c.Note("lapack.single_fault_calls_by_kind", st.byKind)
	c.Note("lapack.weak_observation_blas_panic_without_write", st.weakBlas)
	c.Note("lapack.weak_observation_only_workspace_written_before_panic", st.weakWork)
	c.Count("lapack.unspecified_value_accepted_either_way", st.eitherOK)
	var unrec []string
	docUnrecognised.Range(func(k, _ any) bool { unrec = append(unrec, k.(string)); return true })
	sort.Strings(unrec)
	if len(unrec) > 0 {
		c.Note("lapack.doc_wording_not_recognised(fallback_used)", unrec)
	}
}

func lapackBase(c *vrt.Ctx, st *lapackStats, impl gonum.Implementation, l *lroutine, ri, bi int) {
	rng := c.RNG("lapack.params", ri, bi)
	maxDim := []int{3, 6, 9, 13}[bi%4]
	// Two bases in forty are large enough for the blocked code paths
	// (block sizes 32 and 64), whose argument handling differs.
	large := bi%20 == 19 && !*lite
	if large {
		maxDim = c.Pick(100, 150)
	}
	var p lapackgen.Params
	if bi < len(l.fixed) {
		p = l.fixed[bi].Clone()
	} else {
		p = l.randomParams(rng, maxDim)
		if bi%3 == 0 {
			for try := 0; try < 30 && !l.nonEmpty(p); try++ {
				p = l.randomParams(rng, maxDim)
			}
		}
		if large {
			for try := 0; try < 300 && !l.allLarge(p, 2*maxDim/3); try++ {
				p = l.randomParams(rng, maxDim)
			}
		}
		p.LDPad = []int{0, 3}[(bi/2)%2]
	}
	p.LWork = 0
	nonEmpty := l.nonEmpty(p)
	sizeClass := "nonempty"
	if !nonEmpty {
		sizeClass = "zero-dim"
	}

	// ---- valid side ---------------------------------------------------
	p.Guard = bi%2 == 0
	a := l.build(p, c.RNG("lapack.fill", ri, bi))
	a.Snapshot()
	desc := a.Describe()
	c.LastCase("lapack valid " + desc)
	pn := vrt.Try(func() { a.Invoke(impl) })
	mem := "heap"
	if p.Guard {
		mem = "guard"
	}
	c.Eval(fmt.Sprintf("lapack.%s|valid|%s|%s|ldpad=%d", l.Name, sizeClass, mem, p.LDPad), nonEmpty)
	if pn != nil {
		cls, own := panicClass(pn, "lapack:")
		switch {
		case pn.Msg == "lapack: insufficient declared workspace length" || pn.Msg == "lapack: insufficient length of work":
			// one class for every way a nested routine can reject the
			// documented minimal workspace
			cls = "documented-minimum-workspace-rejected"
		case own:
			// which nested check fires first depends on the shape
			cls = "lapack-panic"
		}
		vclass := "valid-arguments"
		for d, v := range p.Dims {
			if v == 0 && !widthDims[d] {
				vclass = "valid-arguments:zero-dimension"
			}
		}
		c.Violation(fmt.Sprintf("lapack.%s|%s|panic:%s", l.Name, vclass, cls),
			fmt.Sprintf("%s satisfies the documented contract (exactly minimal slices, lwork = minimum) but panicked: %s\n%s", desc, pn.Msg, pn.Stack), map[string]any{"call": desc, "params": p.String()})
	} else if tr := a.Trespasses(false); len(tr) > 0 {
		c.Violation(fmt.Sprintf("lapack.%s|valid-arguments|trespass:%s:%s", l.Name, tr[0].Arg, tr[0].Kind),
			fmt.Sprintf("%s changed storage it must not touch: %v", desc, tr), map[string]any{"call": desc, "params": p.String()})
	}
	nFaultBase := faultsOf(a)
	for name, gen := range l.elemFaults {
		name := name
		n := len(a.Arg(name).IS)
		if n == 0 {
			continue
		}
		vals := gen(a)
		for pi, pos := range []int{0, n / 2, n - 1} {
			if pi > 0 && pos == []int{0, n / 2, n - 1}[pi-1] {
				continue
			}
			pos, v := pos, vals[(pi+bi)%len(vals)]
			nFaultBase = append(nFaultBase, &fault{arg: name, kind: "illegal-element", needsNonEmpty: true,
				apply: func(a *lapackgen.Args) { a.Arg(name).IS[pos] = v }})
		}
	}
	if pn == nil && nonEmpty {
		sampLapackValid.offer(c, 1, func() any {
			return map[string]any{"sub_check": "lapack valid side", "call": desc, "slices": "exactly minimal, lwork = documented minimum",
				"on_guard_pages": p.Guard, "outcome": "returned normally", "trespasses": len(a.Trespasses(false))}
		})
	}
	a.Release()
	if l.HasLWork && pn == nil && bi%4 == 1 {
		lapackQueryAndOpt(c, st, impl, l, ri, bi, p, sizeClass)
	}
	st.mu.Lock()
	st.valid++
	st.routines[l.Name] = true
	st.mu.Unlock()
	if pn != nil {
		return // the base tuple is not usable for perturbation
	}

	// ---- invalid side: one fault at a time -----------------------------------
	p.Guard = false
	for _, f := range nFaultBase {
		if f.needsNonEmpty && !nonEmpty {
			st.mu.Lock()
			st.skippedNE++
			st.mu.Unlock()
			continue
		}
		b := l.build(p, c.RNG("lapack.fill", ri, bi))
		if l.skipFault != nil && l.skipFault(f, b) {
			continue
		}
		f.apply(b)
		b.Snapshot()
		im := imageOf(b)
		fdesc := b.Describe()
		c.LastCase("lapack fault " + f.arg + ":" + f.kind + " " + fdesc)
		pf := vrt.TryFast(func() { b.Invoke(impl) })
		c.Eval(fmt.Sprintf("lapack.%s|fault|%s:%s|%s", l.Name, f.arg, f.kind, sizeClass), true)
		st.mu.Lock()
		st.faults++
		st.byKind[f.kind]++
		st.mu.Unlock()
		path := f.arg + ":" + f.kind
		replay := map[string]any{"call": fdesc, "fault": path, "params": p.String()}
		either := l.eitherFault != nil && l.eitherFault(f, b)
		if pf == nil && either {
			st.mu.Lock()
			st.eitherOK++
			st.mu.Unlock()
			continue
		}
		if pf == nil {
			c.Violation(fmt.Sprintf("lapack.%s|%s|returned-normally", l.Name, path),
				fmt.Sprintf("%s: argument %s is %s, every other argument is valid; the call returned normally", fdesc, f.arg, f.kind), replay)
			continue
		}
		if nonEmpty {
			sampLapackFault.offer(c, 1, func() any {
				_, nch := im.firstChange(b, false)
				return map[string]any{"sub_check": "lapack single fault", "call": fdesc, "argument": f.arg, "role": b.Arg(f.arg).Role.String(), "fault": f.kind,
					"outcome": "panic: " + pf.Msg, "panic_is_runtime_error": pf.Runtime, "operand_words_changed": nch}
			})
		}
		cls, own := panicClass(pf, "lapack:")
		weak := false
		if !own {
			if s, ok := pf.Value.(string); ok && strings.HasPrefix(s, "blas:") {
				weak = true
			} else {
				c.Violation(fmt.Sprintf("lapack.%s|%s|panic:%s", l.Name, path, cls),
					fmt.Sprintf("%s: argument %s is %s; expected a \"lapack:\" string panic, got %T: %s", fdesc, f.arg, f.kind, pf.Value, pf.Msg), replay)
			}
		}
		first, n := im.firstChange(b, false)
		if n == 0 {
			for _, t := range b.Trespasses(true) {
				if b.Arg(t.Arg).Access == lapackgen.Scratch && t.Kind != "canary" {
					continue
				}
				if n == 0 {
					first = t.String()
				}
				n++
			}
		}
		if _, ns := im.firstChange(b, true); ns > 0 && n == 0 {
			// Only a workspace changed before the panic: the contents of
			// a workspace are unspecified at all times ("temporary
			// storage"); recorded as a weak observation.
			st.mu.Lock()
			st.weakWork[l.Name+"|"+path]++
			st.mu.Unlock()
		}
		if n > 0 {
			c.Violation(fmt.Sprintf("lapack.%s|%s|operand-modified-before-panic", l.Name, path),
				fmt.Sprintf("%s: panicked with %q after modifying %d operand words (first %s)", fdesc, pf.Msg, n, first), replay)
		} else if weak {
			st.mu.Lock()
			st.weakBlas[l.Name+"|"+path+"|"+pf.Msg]++
			st.mu.Unlock()
		}
	}
}

// lapackgenHooks attaches the C07-specific knowledge about routines of
// c02/lapackgen (documented exceptions to the single-fault expectations).
func lapackgenHooks(l *lroutine) {
	switch l.Name {
	case "Dgels":
		// lapackgen uses the documented minimum of lwork; read it from the
		// doc comment of the tree under test.
		l.adjust = func(a *lapackgen.Args) {
			vars := map[string]int{"m": a.Int("m"), "n": a.Int("n"), "nrhs": a.Int("nrhs")}
			if v, ok := docMin("lapack/gonum/dgels.go", "Dgels", reGelsLwork, vars); ok {
				a.Arg("lwork").Min = max(1, v)
			} else {
				docUnrecognised.Store("Dgels.lwork", true)
			}
		}
	case "Dgeqp3":
		// Base tuples with a mix of free (-1) and fixed (>= 0) columns, so
		// that the routine has moved columns around by the time it reaches
		// a later element; illegal elements are < -1 or >= n ("bad element
		// of jpvt").
		l.fill = func(a *lapackgen.Args, r *vrt.Rand) {
			jp := a.Ints("jpvt")
			if r.Intn(4) == 0 {
				return // all columns free
			}
			for j := range jp {
				if r.Bool() {
					jp[j] = r.Intn(len(jp))
				}
			}
		}
		l.elemFaults = map[string]func(a *lapackgen.Args) []int{
			"jpvt": func(a *lapackgen.Args) []int { return []int{-2, a.Int("n"), -7, a.Int("n") + 3} },
		}
	case "Dlarfx":
		// "work is not referenced if H has order < 11."
		l.skipFault = func(f *fault, a *lapackgen.Args) bool {
			nh := a.Int("n")
			if a.Int("side") == int(blas.Left) {
				nh = a.Int("m")
			}
			return f.arg == "work" && nh <= 10
		}
	case "Dlaswp":
		// The doc only demands k2+1 rows of a; which further rows are
		// addressed depends on the contents of ipiv.
		l.skipFault = func(f *fault, a *lapackgen.Args) bool {
			return f.arg == "a" && f.kind == "one-short" && a.Arg("a").Min != a.Int("k2")*a.Int("lda")+a.Int("n")
		}
	case "Dlaqps":
		// The doc comment only demands nb <= n; lapackgen additionally
		// bounds nb by m-offset (the routine's real domain). Between the
		// two the documentation leaves the value open.
		l.eitherFault = func(f *fault, a *lapackgen.Args) bool {
			return f.arg == "nb" && f.kind == "above-maximum" && a.Arg("nb").Max+1 <= a.Int("n")
		}
	case "Dlarfb":
		l.fixed = []lapackgen.Params{
			{Dims: map[string]int{"m": 1, "n": 11, "k": 1}, LDPad: 3,
				Flags: map[string]int{"side": int(blas.Right), "trans": int(blas.Trans), "direct": int(lapack.Backward), "store": int(lapack.ColumnWise)}},
			{Dims: map[string]int{"m": 7, "n": 2, "k": 1}, LDPad: 3,
				Flags: map[string]int{"side": int(blas.Left), "trans": int(blas.NoTrans), "direct": int(lapack.Backward), "store": int(lapack.ColumnWise)}},
		}
		// The doc comment does not say whether k == 0 is legal (the check
		// is k < 0; lapackgen assumes k >= 1).
		l.eitherFault = func(f *fault, a *lapackgen.Args) bool {
			return f.arg == "k" && f.kind == "below-minimum" && a.Arg("k").Min == 1
		}
	}
}

// lapackQueryAndOpt covers the remaining lwork values of the property's
// grid on the valid side: lwork == -1 (workspace query: must return and may
// change nothing but work[0]) and lwork == the optimum the query reported
// (must return).
func lapackQueryAndOpt(c *vrt.Ctx, st *lapackStats, impl gonum.Implementation, l *lroutine, ri, bi int, p lapackgen.Params, sizeClass string) {
	q := p.Clone()
	q.LWork = -1
	q.Guard = false
	a := l.build(q, c.RNG("lapack.fill", ri, bi))
	a.Snapshot()
	desc := a.Describe()
	c.LastCase("lapack query " + desc)
	pn := vrt.Try(func() { a.Invoke(impl) })
	c.Eval(fmt.Sprintf("lapack.%s|workspace-query|%s", l.Name, sizeClass), true)
	st.mu.Lock()
	st.valid++
	st.mu.Unlock()
	if pn != nil {
		cls, own := panicClass(pn, "lapack:")
		if own {
			cls = "lapack-panic"
		}
		c.Violation(fmt.Sprintf("lapack.%s|workspace-query|panic:%s", l.Name, cls),
			fmt.Sprintf("%s: workspace query with otherwise valid arguments panicked: %s\n%s", desc, pn.Msg, pn.Stack), map[string]any{"call": desc})
		return
	}
	if tr := a.Trespasses(true); len(tr) > 0 {
		c.Violation(fmt.Sprintf("lapack.%s|workspace-query|modified:%s", l.Name, tr[0].Arg),
			fmt.Sprintf("%s: the workspace query changed %v", desc, tr), map[string]any{"call": desc})
	}
	var opt int
	for _, x := range a.List {
		if x.Role == lapackgen.RoleWork && x.LWorkName != "" && len(x.S) > 0 {
			opt = int(x.S[0])
		}
	}
	var minL int
	for _, x := range a.List {
		if x.Role == lapackgen.RoleLWork {
			minL = x.Min
		}
	}
	if opt < minL || opt > 1<<22 {
		if opt < minL {
			c.Count("lapack.query_optimum_below_documented_minimum."+l.Name, 1)
		}
		return
	}
	o := p.Clone()
	o.LWork = opt
	o.Guard = bi%8 == 1
	b := l.build(o, c.RNG("lapack.fill", ri, bi))
	b.Snapshot()
	odesc := b.Describe()
	c.LastCase("lapack lwork=opt " + odesc)
	po := vrt.Try(func() { b.Invoke(impl) })
	c.Eval(fmt.Sprintf("lapack.%s|lwork=optimal|%s", l.Name, sizeClass), true)
	st.mu.Lock()
	st.valid++
	st.mu.Unlock()
	if po != nil {
		cls, own := panicClass(po, "lapack:")
		if own {
			cls = "lapack-panic"
		}
		c.Violation(fmt.Sprintf("lapack.%s|lwork=optimal|panic:%s", l.Name, cls),
			fmt.Sprintf("%s: lwork = the optimum reported by the workspace query; panicked: %s\n%s", odesc, po.Msg, po.Stack), map[string]any{"call": odesc})
	} else if tr := b.Trespasses(false); len(tr) > 0 {
		c.Violation(fmt.Sprintf("lapack.%s|lwork=optimal|trespass:%s:%s", l.Name, tr[0].Arg, tr[0].Kind),
			fmt.Sprintf("%s changed storage it must not touch: %v", odesc, tr), map[string]any{"call": odesc})
	}
	b.Release()
}
