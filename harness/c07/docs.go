package main

import (
	"fmt"
	"os"
	"path/filepath"
	"regexp"
	"strconv"
	"strings"
	"sync"
	"unicode"
)

// Some minimal workspace sizes are taken from the doc comments of the tree
// under test ($VERIF_REPO, default /repo) at run time, so that a repaired
// comment changes the expectation with it.

func repoDir() string {
	if d := os.Getenv("VERIF_REPO"); d != "" {
		return d
	}
	return "/repo"
}

var (
	docMu    sync.Mutex
	docCache = map[string]string{}
)

// docOf returns the doc comment (one line, "//" stripped) that precedes the
// declaration of method name in file (relative to the gonum tree).
func docOf(file, name string) string {
	docMu.Lock()
	defer docMu.Unlock()
	key := file + "#" + name
	if d, ok := docCache[key]; ok {
		return d
	}
	b, err := os.ReadFile(filepath.Join(repoDir(), file))
	d := ""
	if err == nil {
		lines := strings.Split(string(b), "\n")
		re := regexp.MustCompile(`^func \([^)]*\) ` + regexp.QuoteMeta(name) + `\(`)
		for i, l := range lines {
			if !re.MatchString(l) {
				continue
			}
			var doc []string
			for j := i - 1; j >= 0 && strings.HasPrefix(lines[j], "//"); j-- {
				doc = append([]string{strings.TrimSpace(strings.TrimPrefix(lines[j], "//"))}, doc...)
			}
			d = strings.Join(doc, " ")
			break
		}
	}
	docCache[key] = d
	return d
}

// evalExpr evaluates an integer expression made of identifiers, decimal
// numbers, + - *, parentheses and max(...)/min(...).
func evalExpr(s string, vars map[string]int) (v int, err error) {
	p := &exprParser{s: s, vars: vars}
	defer func() {
		if r := recover(); r != nil {
			err = fmt.Errorf("%v", r)
		}
	}()
	v = p.sum()
	p.skip()
	if p.i != len(p.s) {
		panic("trailing text: " + p.s[p.i:])
	}
	return v, nil
}

type exprParser struct {
	s    string
	i    int
	vars map[string]int
}

func (p *exprParser) skip() {
	for p.i < len(p.s) && p.s[p.i] == ' ' {
		p.i++
	}
}

func (p *exprParser) peek() byte {
	p.skip()
	if p.i < len(p.s) {
		return p.s[p.i]
	}
	return 0
}

func (p *exprParser) sum() int {
	v := p.prod()
	for {
		switch p.peek() {
		case '+':
			p.i++
			v += p.prod()
		case '-':
			p.i++
			v -= p.prod()
		default:
			return v
		}
	}
}

func (p *exprParser) prod() int {
	v := p.atom()
	for p.peek() == '*' {
		p.i++
		v *= p.atom()
	}
	return v
}

func (p *exprParser) atom() int {
	c := p.peek()
	switch {
	case c == '(':
		p.i++
		v := p.sum()
		if p.peek() != ')' {
			panic("missing )")
		}
		p.i++
		return v
	case c >= '0' && c <= '9':
		j := p.i
		for j < len(p.s) && p.s[j] >= '0' && p.s[j] <= '9' {
			j++
		}
		v, _ := strconv.Atoi(p.s[p.i:j])
		p.i = j
		return v
	case unicode.IsLetter(rune(c)):
		j := p.i
		for j < len(p.s) && (unicode.IsLetter(rune(p.s[j])) || unicode.IsDigit(rune(p.s[j]))) {
			j++
		}
		id := p.s[p.i:j]
		p.i = j
		if (id == "max" || id == "min") && p.peek() == '(' {
			p.i++
			v := p.sum()
			for p.peek() == ',' {
				p.i++
				w := p.sum()
				if id == "max" {
					v = max(v, w)
				} else {
					v = min(v, w)
				}
			}
			if p.peek() != ')' {
				panic("missing ) after " + id)
			}
			p.i++
			return v
		}
		v, ok := p.vars[id]
		if !ok {
			panic("unknown identifier " + id)
		}
		return v
	}
	panic(fmt.Sprintf("unexpected %q", string(c)))
}

// docMin evaluates the first capture group of re in the doc comment of
// method name as an integer expression.
func docMin(file, name string, re *regexp.Regexp, vars map[string]int) (int, bool) {
	m := re.FindStringSubmatch(docOf(file, name))
	if m == nil {
		return 0, false
	}
	v, err := evalExpr(strings.TrimSpace(m[1]), vars)
	if err != nil {
		return 0, false
	}
	return v, true
}

var (
	reGelsLwork     = regexp.MustCompile(`lwork >= (.+?), and this function will panic otherwise`)
	reBdsqrWork     = regexp.MustCompile(`work contains temporary storage and must have length at least ([^.]+)\. `)
	reBdsqrWork2    = regexp.MustCompile(`must have length at least (\S+) if ncvt == nru == ncc == 0( and n > 1)?,? and at least (\S+) otherwise`)
	reGgsvd3Lwork2  = regexp.MustCompile(`lwork must be -1 or at least ([^ ]+), otherwise`)
	reGgsvd3Lwork   = regexp.MustCompile(`lwork must be -1 or greater than ([^,]+), otherwise`)
	docUnrecognised sync.Map // "Routine.arg" -> true
)
