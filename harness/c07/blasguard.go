package main

import (
	"bytes"
	"fmt"
	"reflect"
	"sync/atomic"
	"unsafe"

	"gonum.org/v1/gonum/blas"
	"gonum.org/v1/gonum/verifx/c01/blasmodel"
	"gonum.org/v1/gonum/verifx/vrt"
)

// Sub-check 4a: every BLAS Level 1 and Level 2 routine is called with valid
// arguments whose slices have exactly the required length and lie flush
// against an inaccessible page (at their end: GuardTail, at their start:
// GuardHead). A call must return normally; a fault (read or write past
// either end by a kernel), a runtime error or a changed word outside the
// result elements is a violation. Values are C01's business.

// rawGuard is a reusable guarded mapping in which an operand copy is placed
// flush against the trailing or the leading inaccessible page. (blasmodel's
// own guard mode maps and unmaps a region per operand and call; at a million
// calls the mmap lock dominates.)
type rawGuard struct {
	reg    *vrt.GuardRegion
	data   []byte
	off, n int // placement of the operand bytes
	lo, hi int // checked margin [lo, off) and [off+n, hi)
	margin []byte
}

const (
	rawGuardBytes  = 9 * 4096
	rawGuardMargin = 512
)

func newRawGuard() *rawGuard {
	g, err := vrt.NewGuardRegion(rawGuardBytes)
	if err != nil {
		panic(err)
	}
	f := g.Float64sHead(rawGuardBytes / 8)
	return &rawGuard{reg: g, data: unsafe.Slice((*byte)(unsafe.Pointer(&f[0])), rawGuardBytes), margin: make([]byte, 2*rawGuardMargin)}
}

// place copies the contents of slice value v into the mapping, flush against
// the trailing (tail) or leading guard page, and returns a slice value of the
// same type over the copy.
func (g *rawGuard) place(v reflect.Value, tail bool) reflect.Value {
	n := v.Len()
	et := v.Type().Elem()
	nb := n * int(et.Size())
	if nb > rawGuardBytes {
		panic("c07: operand larger than the guarded mapping")
	}
	g.off, g.n = 0, nb
	if tail {
		g.off = rawGuardBytes - nb
	}
	g.lo, g.hi = max(0, g.off-rawGuardMargin), min(rawGuardBytes, g.off+nb+rawGuardMargin)
	for i := g.lo; i < g.off; i++ {
		g.data[i] = byte(0x3C ^ i)
	}
	for i := g.off + nb; i < g.hi; i++ {
		g.data[i] = byte(0x3C ^ i)
	}
	copy(g.margin, g.data[g.lo:g.off])
	copy(g.margin[g.off-g.lo:], g.data[g.off+nb:g.hi])
	if n == 0 {
		return reflect.MakeSlice(v.Type(), 0, 0)
	}
	copy(g.data[g.off:g.off+nb], unsafe.Slice((*byte)(v.UnsafePointer()), nb))
	return reflect.SliceAt(et, unsafe.Pointer(&g.data[g.off]), n)
}

// back copies the operand bytes back into v and reports whether the margin
// around the operand is unchanged.
func (g *rawGuard) back(v reflect.Value) (marginOK bool) {
	if g.n > 0 {
		copy(unsafe.Slice((*byte)(v.UnsafePointer()), g.n), g.data[g.off:g.off+g.n])
	}
	return bytes.Equal(g.margin[:g.off-g.lo], g.data[g.lo:g.off]) &&
		bytes.Equal(g.margin[g.off-g.lo:g.off-g.lo+g.hi-g.off-g.n], g.data[g.off+g.n:g.hi])
}

type guardFlags struct {
	side   blas.Side
	uplo   blas.Uplo
	tA, tB blas.Transpose
	diag   blas.Diag
}

func legalFlagCombos(r *blasmodel.Routine) []guardFlags {
	out := []guardFlags{{}}
	mul := func(n int, set func(f *guardFlags, i int)) {
		var next []guardFlags
		for _, f := range out {
			for i := 0; i < n; i++ {
				g := f
				set(&g, i)
				next = append(next, g)
			}
		}
		out = next
	}
	f := r.Fam
	if f.Has(blasmodel.RSide) {
		mul(2, func(f *guardFlags, i int) { f.side = sideVals[i] })
	}
	if f.Has(blasmodel.RUplo) {
		mul(2, func(f *guardFlags, i int) { f.uplo = uploVals[i] })
	}
	if f.Has(blasmodel.RTransA) {
		ta := r.TransAllowed()
		mul(len(ta), func(f *guardFlags, i int) { f.tA = ta[i] })
	}
	if f.Has(blasmodel.RTransB) {
		mul(3, func(f *guardFlags, i int) { f.tB = allTrans[i] })
	}
	if f.Has(blasmodel.RDiag) {
		mul(2, func(f *guardFlags, i int) { f.diag = diagVals[i] })
	}
	return out
}

func runBlasGuard(c *vrt.Ctx) {
	var calls, quick atomic.Int64
	thorough := c.Thorough()
	var ns []int
	for n := 0; n <= 40; n++ {
		if thorough || n <= 17 || n%8 <= 1 || n%8 == 7 {
			ns = append(ns, n)
		}
	}
	incsFull := []int{1, 2, 3, -1, -2, -3}
	incsL2 := incsFull
	if !thorough {
		incsL2 = []int{1, -1, 2, -3}
	}
	mnDims := []int{0, 1, 2, 3, 4, 5, 6, 7, 8, 9}
	if *lite {
		ns = []int{0, 1, 2, 3, 5, 8, 9, 16, 17, 33}
		incsFull = []int{1, -2, 3}
		incsL2 = []int{1, -2}
		mnDims = []int{0, 1, 3, 4, 9}
	}
	bands := [][2]int{{0, 0}, {1, 0}, {0, 2}, {2, 1}, {3, 3}}
	type job struct {
		g  *gridRoutine
		fl guardFlags
		ri int
		fi int
	}
	var jobs []job
	for ri, r := range blasmodel.Routines() {
		if r.Fam.Level > 2 || r.Fam.Name == "rotg" || r.Fam.Name == "rotmg" {
			continue
		}
		g := newGridRoutine(r, 0)
		for fi, fl := range legalFlagCombos(r) {
			jobs = append(jobs, job{g, fl, ri, fi})
		}
	}
	vrt.Parallel(len(jobs), func(ji int) {
		j := jobs[ji]
		r := j.g.r
		f := r.Fam
		rnd := c.RNG("blasguard", j.ri, j.fi)
		s := &gridState{g: j.g}
		var guards [blasmodel.NumOps]*rawGuard
		for i := range guards {
			guards[i] = newRawGuard()
			defer guards[i].reg.Free()
		}
		hasY := f.Has(blasmodel.RIncY)
		hasX := f.Has(blasmodel.RIncX)
		mn := f.Has(blasmodel.RM) // gemv, gbmv, ger*: m×n matrices up to 9×9
		band := f.Has(blasmodel.RKL)
		kband := f.Has(blasmodel.RK) // sbmv, hbmv, tbmv, tbsv
		incs := incsFull
		if f.Level == 2 {
			incs = incsL2
		}
		var local, localQuick int64
		one := func(p blasmodel.Params, class string) {
			for _, tail := range []bool{true, false} {
				p.Side, p.Uplo, p.TransA, p.TransB, p.Diag = j.fl.side, j.fl.uplo, j.fl.tA, j.fl.tB, j.fl.diag
				p.Alpha, p.Beta = complex(0.5, 0.25), complex(0.75, -0.5)
				if local%5 == 3 {
					p.Beta = 0
				}
				p.RotC, p.RotS = 0.6, 0.8
				p.RotmFlag = []blas.Flag{blas.Rescaling, blas.OffDiagonal, blas.Diagonal, blas.Identity}[local%4]
				p.RotmH = [4]float64{0.5, -0.25, 0.75, 1.5}
				p.FiniteFill = local%2 == 1
				call := r.NewCall(p, rnd)
				s.call = call
				snap := call.Snapshot()
				c.LastCase("blas guard " + call.Describe())
				for op, b := range call.Buf {
					s.override[op] = reflect.Value{}
					if b != nil {
						s.override[op] = guards[op].place(b.Slice(), tail)
					}
				}
				pn := s.invoke()
				marginOK := true
				for op, b := range call.Buf {
					if b != nil && !guards[op].back(b.Slice()) {
						marginOK = false
					}
				}
				local++
				mem := "trailing"
				if !tail {
					mem = "leading"
				}
				trivial := p.N == 0 || (mn && p.M == 0) || (r.SingleVector() && p.IncX < 0)
				if trivial {
					localQuick++
				}
				if pn == nil && !trivial && p.N > 4 {
					sampBlasGuard.offer(c, 1, func() any {
						return map[string]any{"sub_check": "blas entry points on guard pages", "call": call.Describe(), "operands": "exactly minimal, flush against the " + mem + " PROT_NONE page",
							"outcome": "returned normally", "margin_bytes_unchanged": marginOK, "words_changed_outside_result": len(call.Changed(snap, false))}
					})
				}
				sigClass := call.FlagString() + " " + class
				if bad := call.Invalid(); len(bad) > 0 {
					panic("c07: generated guard tuple is invalid: " + call.Describe())
				}
				if pn != nil {
					cls, _ := panicClass(pn, "\x00")
					c.Violation(fmt.Sprintf("blas.%s|guard:%s|%s", r.Name, sigClass, cls),
						fmt.Sprintf("%s with exactly minimal slices flush against the %s guard page: %s", call.Describe(), mem, pn.Msg), call.Replay())
				} else if !marginOK {
					c.Violation(fmt.Sprintf("blas.%s|guard:%s|wrote-outside-slice", r.Name, sigClass),
						fmt.Sprintf("%s (%s guard): bytes next to an operand slice changed", call.Describe(), mem), call.Replay())
				} else if ch := call.Changed(snap, false); len(ch) > 0 {
					c.Violation(fmt.Sprintf("blas.%s|guard:%s|wrote-outside-result:%s:%s", r.Name, sigClass, blasmodel.OpName(ch[0].Op), ch[0].Region),
						fmt.Sprintf("%s (%s guard): %s of %s changed", call.Describe(), mem, ch[0].Where, blasmodel.OpName(ch[0].Op)), call.Replay())
				}
				call.Scrub()
			}
		}
		strideClass := func(ix, iy int) string {
			switch {
			case (!hasX || ix == 1) && (!hasY || iy == 1):
				return "unit"
			case ix < 0 || (hasY && iy < 0):
				return "inc<0"
			}
			return "inc>0"
		}
		incYs := []int{1}
		if hasY {
			incYs = incs
		}
		incXs := []int{1}
		if hasX {
			incXs = incs
		}
		switch {
		case mn:
			bw := [][2]int{{0, 0}}
			if band {
				bw = bands
			}
			for _, m := range mnDims {
				for _, n := range mnDims {
					for _, b := range bw {
						for _, ix := range incXs {
							for _, iy := range incYs {
								p := blasmodel.Params{M: m, N: n, KL: b[0], KU: b[1], IncX: ix, IncY: iy}
								p.LdExtra[0] = int(local/2) % 2
								one(p, strideClass(ix, iy))
							}
						}
					}
				}
			}
		default:
			ks := []int{0}
			if kband {
				ks = []int{0, 1, 3}
			}
			for _, n := range ns {
				if f.Level == 2 && !thorough && n > 17 && n%8 != 0 {
					continue
				}
				for _, k := range ks {
					for _, ix := range incXs {
						for _, iy := range incYs {
							p := blasmodel.Params{N: n, K: k, IncX: ix, IncY: iy}
							p.LdExtra[0] = int(local/2) % 2
							one(p, strideClass(ix, iy))
						}
					}
				}
			}
		}
		calls.Add(local)
		quick.Add(localQuick)
		c.EvalN(fmt.Sprintf("blasguard.%s|%s", r.Name, s.flagKey(j.fl)), int(local), local > localQuick)
	})
	c.Count("blasguard.calls_with_exact_slices_on_guard_pages", calls.Load())
	c.Count("blasguard.calls_taking_a_quick_return", quick.Load())
}

func (s *gridState) flagKey(f guardFlags) string {
	return fmt.Sprintf("%d/%d/%d/%d/%d", f.side, f.uplo, f.tA, f.tB, f.diag)
}
