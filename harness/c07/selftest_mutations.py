#!/usr/bin/env python3
"""Mutation self-test driver for C07: apply one mutation to /tmp/c07-mut, run vctl, report new signatures."""
import subprocess, sys, os, re, json
WT='/tmp/c07-mut'
def sh(cmd, **kw):
    return subprocess.run(cmd, shell=True, capture_output=True, text=True, **kw)
def reset():
    sh('git -C %s checkout -- . && git -C %s clean -fdq' % (WT, WT))
def sub(path, old, new, count=1):
    p=os.path.join(WT,path); s=open(p).read()
    assert s.count(old)==count, (path, old[:60], s.count(old))
    open(p,'w').write(s.replace(old,new))
def run(tier='quick', variant=None, repo=WT):
    env=dict(os.environ, VERIF_REPO=repo, GOFLAGS='-mod=mod', GOPROXY='off', GOSUMDB='off', GOTOOLCHAIN='local')
    cmd='/verif/bin/vctl run C07 --tier %s' % tier
    if variant: cmd+=' --variant '+variant
    r=subprocess.run(cmd, shell=True, capture_output=True, text=True, env=env)
    sigs={}
    for line in r.stdout.splitlines():
        m=re.match(r'^  witness \[(\w+)\] (.*?): ', line)
        if m: sigs.setdefault(m.group(2), set()).add(m.group(1))
    tail=[l for l in r.stdout.splitlines() if l.startswith('SUMMARY') or 'BUILD-FAILED' in l or 'HARNESS' in l or l.startswith('[C07')]
    crash=[l for l in r.stdout.splitlines() if 'crash|' in l or 'hang|' in l]
    return sigs, tail, crash, r.stdout

MUT={}
def mut(name):
    def d(f): MUT[name]=f; return f
    return d

@mut('M1 Daxpy: negative-increment length check uses incX instead of |incX|')
def _():
    s=open(WT+'/blas/gonum/level1float64.go').read()
    i=s.index('func (Implementation) Daxpy(')
    old='(incX < 0 && len(x) <= (1-n)*incX)'
    j=s.index(old,i)
    s=s[:j]+'(incX < 0 && len(x) <= (n-1)*incX)'+s[j+len(old):]
    open(WT+'/blas/gonum/level1float64.go','w').write(s)

@mut('M2 Dgemv: alpha==0 scaling of y moved before the slice length checks (check after first write)')
def _():
    p='blas/gonum/level2float64.go'
    blk='''	if alpha == 0 {
		// First form y = beta * y
		if incY > 0 {
			Implementation{}.Dscal(lenY, beta, y, incY)
		} else {
			Implementation{}.Dscal(lenY, beta, y, -incY)
		}
		return
	}

	// Form y = alpha * A * x + y
	if tA == blas.NoTrans {
		f64.GemvN('''
    s=open(WT+'/'+p).read(); assert s.count(blk)==1
    s=s.replace(blk,'''	// Form y = alpha * A * x + y
	if tA == blas.NoTrans {
		f64.GemvN(''')
    old='''	if (incX > 0 && (lenX-1)*incX >= len(x)) || (incX < 0 && (1-lenX)*incX >= len(x)) {
		panic(shortX)
	}
	if (incY > 0 && (lenY-1)*incY >= len(y)) || (incY < 0 && (1-lenY)*incY >= len(y)) {
		panic(shortY)
	}
	if len(a) < lda*(m-1)+n {
		panic(shortA)
	}

	// Quick return if possible
	if alpha == 0 && beta == 1 {
		return
	}
'''
    i=s.index('func (Implementation) Dgemv('); j=s.index(old,i)
    new='''	if (incY > 0 && (lenY-1)*incY >= len(y)) || (incY < 0 && (1-lenY)*incY >= len(y)) {
		panic(shortY)
	}
	if alpha == 0 && beta != 1 {
		// First form y = beta * y
		if incY > 0 {
			Implementation{}.Dscal(lenY, beta, y, incY)
		} else {
			Implementation{}.Dscal(lenY, beta, y, -incY)
		}
	}
	if (incX > 0 && (lenX-1)*incX >= len(x)) || (incX < 0 && (1-lenX)*incX >= len(x)) {
		panic(shortX)
	}
	if len(a) < lda*(m-1)+n {
		panic(shortA)
	}

	// Quick return if possible
	if alpha == 0 {
		return
	}
'''
    s=s[:j]+new+s[j+len(old):]
    open(WT+'/'+p,'w').write(s)

@mut('M3 Dsymv: lda < max(1,n) weakened to lda < n')
def _():
    p=WT+'/blas/gonum/level2float64.go'; s=open(p).read()
    i=s.index('func (Implementation) Dsymv('); old='	if lda < max(1, n) {'; j=s.index(old,i)
    s=s[:j]+'	if lda < n {'+s[j+len(old):]; open(p,'w').write(s)

@mut('M4 Dtrmm: zero-size quick return placed before flag validation')
def _():
    sub('blas/gonum/level3float64.go','''func (Implementation) Dtrmm(s blas.Side, ul blas.Uplo, tA blas.Transpose, d blas.Diag, m, n int, alpha float64, a []float64, lda int, b []float64, ldb int) {
	if s != blas.Left''','''func (Implementation) Dtrmm(s blas.Side, ul blas.Uplo, tA blas.Transpose, d blas.Diag, m, n int, alpha float64, a []float64, lda int, b []float64, ldb int) {
	if m == 0 || n == 0 {
		return
	}
	if s != blas.Left''')

@mut('M5 c64 DotuInc/DotcInc tail loads 16 bytes (revert of fix 45320e8)')
def _():
    r=sh('git -C %s show 45320e8 | git -C %s apply -R' % (WT, WT)); assert r.returncode==0, r.stderr

@mut('M6 Dgetrf: len(ipiv) check dropped')
def _():
    p=WT+'/lapack/gonum/dgetrf.go'; s=open(p).read()
    m=re.search(r'\tif len\(ipiv\) != mn \{\n\t\tpanic\(badLenIpiv\)\n\t\}\n', s) or re.search(r'\tcase len\(ipiv\) != mn:\n\t\tpanic\(badLenIpiv\)\n', s)
    assert m, 'pattern'
    s=s[:m.start()]+s[m.end():]; open(p,'w').write(s)

@mut('M7 Dpotrf: lda check weakened to lda < n')
def _():
    sub('lapack/gonum/dpotrf.go','case lda < max(1, n):','case lda < n:')

@mut('M8 mat Dense.At (default build): row check i > rows instead of >=')
def _():
    p=WT+'/mat/index_no_bound_checks.go'; s=open(p).read()
    i=s.index('func (m *Dense) At(i, j int) float64 {'); old='if uint(i) >= uint(m.mat.Rows) {'; j=s.index(old,i)
    s=s[:j]+'if uint(i) > uint(m.mat.Rows) {'+s[j+len(old):]; open(p,'w').write(s)

@mut('M9 mat VecDense.AddVec: operand length check dropped')
def _():
    p=WT+'/mat/vector.go'; s=open(p).read()
    i=s.index('func (v *VecDense) AddVec(a, b Vector) {'); 
    old='\tif ar != br {\n'; j=s.index(old,i); assert j-i<200
    s=s[:j]+'\tif false && ar != br {\n'+s[j+len(old):]; open(p,'w').write(s)

@mut('M10 Dtbmv: lda < k+1 weakened to lda < k')
def _():
    p=WT+'/blas/gonum/level2float64.go'; s=open(p).read()
    i=s.index('func (Implementation) Dtbmv('); old='	if lda < k+1 {'; j=s.index(old,i)
    s=s[:j]+'	if lda < k {'+s[j+len(old):]; open(p,'w').write(s)

@mut('M11 Dgeqr2: work length check dropped')
def _():
    p=WT+'/lapack/gonum/dgeqr2.go'; s=open(p).read()
    m=re.search(r'\tcase len\(work\) < n:\n\t\tpanic\(shortWork\)\n', s); assert m
    s=s[:m.start()]+s[m.end():]; open(p,'w').write(s)

@mut('M12 Zhemv: shortX check uses (n-1)*incX for negative increments too')
def _():
    p=WT+'/blas/gonum/level2cmplx128.go'; s=open(p).read()
    i=s.index('func (Implementation) Zhemv(')
    old='(incX < 0 && len(x) <= (1-n)*incX)'; j=s.index(old,i); assert j-i<3000
    s=s[:j]+'(incX < 0 && len(x) <= (n-1)*incX)'+s[j+len(old):]; open(p,'w').write(s)

@mut('M13 Dgbmv: kU < 0 check dropped')
def _():
    p=WT+'/blas/gonum/level2float64.go'; s=open(p).read()
    i=s.index('func (Implementation) Dgbmv(')
    m=re.compile(r'\tif kU < 0 \{\n\t\tpanic\(kULT0\)\n\t\}\n').search(s,i); assert m
    s=s[:m.start()]+s[m.end():]; open(p,'w').write(s)

@mut('M14 Dsyev: lwork minimum weakened to 1')
def _():
    sub('lapack/gonum/dsyev.go','case lwork < max(1, 3*n-1) && lwork != -1:','case lwork < 1 && lwork != -1:')

if __name__=='__main__':
    which=sys.argv[1:]
    base=json.load(open('/tmp/c07-work/baseline.json')) if os.path.exists('/tmp/c07-work/baseline.json') else None
    if which==['baseline']:
        sigs,tail,crash,out=run('quick', repo='/repo')
        json.dump(sorted(sigs), open('/tmp/c07-work/baseline.json','w'), indent=1)
        print(len(sigs),'baseline signatures'); print('\n'.join(tail)); sys.exit(0)
    tier=os.environ.get('TIER','quick')
    for name,f in MUT.items():
        if which and not any(name.startswith(w+' ') for w in which): continue
        reset(); f()
        sigs,tail,crash,out=run(tier, variant=os.environ.get('VARIANT'))
        new=sorted(s for s in sigs if s not in base)
        print('==', name); print('   ', tail[-1] if tail else out[-500:])
        for s in new[:12]: print('    NEW', s, sorted(sigs[s]))
        if len(new)>12: print('    ... +%d more' % (len(new)-12))
        for c in crash[:3]: print('    ', c[:200])
        if not new: print('    MISSED at tier', tier)
        sys.stdout.flush()
    reset()
