package main

import (
	"bytes"
	"fmt"
	"sync/atomic"
	"unsafe"

	"gonum.org/v1/gonum/internal/asm/c128"
	"gonum.org/v1/gonum/internal/asm/c64"
	"gonum.org/v1/gonum/internal/asm/f32"
	"gonum.org/v1/gonum/internal/asm/f64"
	"gonum.org/v1/gonum/verifx/vrt"
)

// Sub-check 4b: every exported function of internal/asm/{f64,f32,c128,c64}
// is called on exactly minimal slices placed flush against an inaccessible
// page: at the trailing guard (an over-read or over-write of one element
// past the end faults) and directly behind the leading guard (an access
// before the first element faults). Values are C08's business; here only
// faults, runtime errors and writes outside the destination elements count.

type elem interface {
	~float32 | ~float64 | ~complex64 | ~complex128
}

const pageBytes = 4096

// gop is one operand living in its own guarded page.
type gop[T elem] struct {
	reg  *vrt.GuardRegion
	page []byte
	snap []byte
	s    []T
	off  int // byte offset of s[0] in page
}

func newGop[T elem]() *gop[T] {
	g, err := vrt.NewGuardRegion(pageBytes)
	if err != nil {
		panic(err)
	}
	f := g.Float64sHead(pageBytes / 8)
	return &gop[T]{reg: g, page: unsafe.Slice((*byte)(unsafe.Pointer(&f[0])), pageBytes), snap: make([]byte, pageBytes)}
}

func (o *gop[T]) free() { o.reg.Free() }

// place carves a slice of n elements at the tail or the head of the page,
// fills the page with a byte pattern and the slice with gen(i).
func (o *gop[T]) place(n int, tail bool, gen func(i int) T) []T {
	var z T
	sz := int(unsafe.Sizeof(z))
	if n*sz > pageBytes {
		panic("c07: operand larger than a page")
	}
	for i := range o.page {
		o.page[i] = byte(0xC3 ^ (i * 7))
	}
	o.off = 0
	if tail {
		o.off = pageBytes - n*sz
	}
	if n == 0 {
		o.s = []T{}
	} else {
		o.s = unsafe.Slice((*T)(unsafe.Pointer(&o.page[o.off])), n)
		for i := range o.s {
			o.s[i] = gen(i)
		}
	}
	copy(o.snap, o.page)
	return o.s
}

// changedOutside returns the offset (relative to the slice start, in bytes)
// of the first byte of the page that differs from the snapshot and does not
// belong to an element for which written(i) is true; ok is false if none.
func (o *gop[T]) changedOutside(written func(i int) bool) (int, bool) {
	if bytes.Equal(o.page, o.snap) {
		return 0, false
	}
	var z T
	sz := int(unsafe.Sizeof(z))
	for b := 0; b < pageBytes; b++ {
		if o.page[b] == o.snap[b] {
			continue
		}
		rel := b - o.off
		if written != nil && rel >= 0 && rel < len(o.s)*sz && written(rel/sz) {
			continue
		}
		return rel, true
	}
	return 0, false
}

// kernel is one exported function of an asm package in a normal form.
type kernel[T elem] struct {
	name    string
	nops    int  // slice operands, in the order given to call
	strided bool // operands are addressed with increments
	negOK   bool // negative increments are part of the interface
	writes  int  // index of the written operand, -1 if none
	// call receives the operands, the element count, the (signed)
	// increments and a scalar.
	call func(op [3][]T, n int, inc [3]int, alpha T)
}

// uinc converts a signed increment to the two's-complement uintptr the asm
// kernels take, start returns the index of the first element of a walk.
func uinc(inc int) uintptr { return uintptr(inc) }
func start(n, inc int) uintptr {
	if inc < 0 {
		return uintptr((n - 1) * -inc)
	}
	return 0
}

type kernelStats struct {
	calls atomic.Int64
}

func small[T elem](i int) T {
	var z T
	v := float64(i%7-3) * 0.25
	switch p := any(&z).(type) {
	case *float32:
		*p = float32(v + 0.125)
	case *float64:
		*p = v + 0.125
	case *complex64:
		*p = complex(float32(v+0.125), float32(0.5-v))
	case *complex128:
		*p = complex(v+0.125, 0.5-v)
	}
	return z
}

// runKernelSet sweeps one list of kernels.
func runKernelSet[T elem](c *vrt.Ctx, st *kernelStats, ks []kernel[T]) {
	incsPos := []int{1, 2, 3}
	incsAll := []int{1, 2, 3, -1, -2, -3}
	nMax, nStep := 40, 1
	if *lite {
		incsPos = []int{1, 3}
		incsAll = []int{1, -2, 3}
		nStep = 3
	}
	vrt.Parallel(len(ks), func(ki int) {
		k := ks[ki]
		var ops [3]*gop[T]
		for i := range ops {
			ops[i] = newGop[T]()
			defer ops[i].free()
		}
		var incSets [][3]int
		if !k.strided {
			incSets = [][3]int{{1, 1, 1}}
		} else {
			choice := incsPos
			if k.negOK {
				choice = incsAll
			}
			var rec func(d int, cur [3]int)
			rec = func(d int, cur [3]int) {
				if d == k.nops {
					incSets = append(incSets, cur)
					return
				}
				ch := choice
				if k.nops == 3 && d == 0 {
					ch = incsPos // destination of the *IncTo kernels
				}
				for _, v := range ch {
					cur[d] = v
					rec(d+1, cur)
				}
			}
			rec(0, [3]int{1, 1, 1})
		}
		n0 := 0
		if k.strided {
			n0 = 1 // the callers return before the kernel for n == 0
		}
		var local int64
		for n := n0; n <= nMax; n += nStep {
			for _, inc := range incSets {
				for _, tail := range []bool{true, false} {
					var sl [3][]T
					for i := 0; i < k.nops; i++ {
						l := n
						if k.strided && n > 0 {
							l = (n-1)*abs(inc[i]) + 1
						}
						sl[i] = ops[i].place(l, tail, func(j int) T { return small[T](j + 3*i) })
					}
					class := "unit"
					if k.strided {
						class = "inc>0"
						for i := 0; i < k.nops; i++ {
							if inc[i] < 0 {
								class = "inc<0"
							}
						}
					}
					mem := "head"
					if tail {
						mem = "tail"
					}
					desc := func() string {
						return fmt.Sprintf("%s n=%d inc=%v operands flush against the %s guard page", k.name, n, inc[:k.nops], map[bool]string{true: "trailing", false: "leading"}[tail])
					}
					c.LastCase(desc())
					alpha := small[T](5)
					p := vrt.TryFast(func() { k.call(sl, n, inc, alpha) })
					local++
					if p != nil {
						cls, _ := panicClass(p, "\x00")
						c.Violation(fmt.Sprintf("asm.%s|%s|%s", k.name, class, cls),
							fmt.Sprintf("%s: %s", desc(), p.Msg), map[string]any{"case": desc(), "guard": mem})
						continue
					}
					if n == 13 && k.strided {
						sampAsm.offer(c, 1, func() any {
							return map[string]any{"sub_check": "asm kernels on guard pages", "case": desc(), "outcome": "returned normally, no fault"}
						})
					}
					for i := 0; i < k.nops; i++ {
						var wr func(j int) bool
						if i == k.writes {
							step := 1
							if k.strided {
								step = abs(inc[i])
							}
							wr = func(j int) bool { return j%step == 0 }
						}
						if rel, bad := ops[i].changedOutside(wr); bad {
							clause := "modified-read-only-operand"
							if i == k.writes {
								clause = "wrote-outside-destination-elements"
							}
							c.Violation(fmt.Sprintf("asm.%s|%s|%s", k.name, class, clause),
								fmt.Sprintf("%s: operand %d changed at byte offset %d relative to its first element (length %d elements)", desc(), i, rel, len(sl[i])),
								map[string]any{"case": desc(), "guard": mem})
						}
					}
				}
			}
		}
		st.calls.Add(local)
		c.EvalN("asm."+k.name+"|guard-pages", int(local), true)
	})
}

func abs(x int) int {
	if x < 0 {
		return -x
	}
	return x
}

// ---- normal-form constructors ------------------------------------------------

func kReduce1[T elem](name string, f func(x []T)) kernel[T] {
	return kernel[T]{name: name, nops: 1, writes: -1, call: func(op [3][]T, n int, inc [3]int, a T) { f(op[0]) }}
}
func kInPlace1[T elem](name string, f func(a T, x []T)) kernel[T] {
	return kernel[T]{name: name, nops: 1, writes: 0, call: func(op [3][]T, n int, inc [3]int, a T) { f(a, op[0]) }}
}
func kReduce2[T elem](name string, f func(x, y []T)) kernel[T] {
	return kernel[T]{name: name, nops: 2, writes: -1, call: func(op [3][]T, n int, inc [3]int, a T) { f(op[0], op[1]) }}
}
func kDst2[T elem](name string, f func(dst, s []T)) kernel[T] {
	return kernel[T]{name: name, nops: 2, writes: 0, call: func(op [3][]T, n int, inc [3]int, a T) { f(op[0], op[1]) }}
}
func kAxpyU[T elem](name string, f func(a T, x, y []T)) kernel[T] {
	return kernel[T]{name: name, nops: 2, writes: 1, call: func(op [3][]T, n int, inc [3]int, a T) { f(a, op[0], op[1]) }}
}
func kScalUTo[T elem](name string, f func(dst []T, a T, x []T)) kernel[T] {
	return kernel[T]{name: name, nops: 2, writes: 0, call: func(op [3][]T, n int, inc [3]int, a T) { f(op[0], a, op[1]) }}
}
func kDst3[T elem](name string, f func(dst, x, y []T)) kernel[T] {
	return kernel[T]{name: name, nops: 3, writes: 0, call: func(op [3][]T, n int, inc [3]int, a T) { f(op[0], op[1], op[2]) }}
}
func kAxpyUTo[T elem](name string, f func(dst []T, a T, x, y []T)) kernel[T] {
	return kernel[T]{name: name, nops: 3, writes: 0, call: func(op [3][]T, n int, inc [3]int, a T) { f(op[0], a, op[1], op[2]) }}
}
func kAxpyInc[T elem](name string, f func(a T, x, y []T, n, incX, incY, ix, iy uintptr)) kernel[T] {
	return kernel[T]{name: name, nops: 2, strided: true, negOK: true, writes: 1, call: func(op [3][]T, n int, inc [3]int, a T) {
		f(a, op[0], op[1], uintptr(n), uinc(inc[0]), uinc(inc[1]), start(n, inc[0]), start(n, inc[1]))
	}}
}
func kDotInc[T elem](name string, f func(x, y []T, n, incX, incY, ix, iy uintptr)) kernel[T] {
	return kernel[T]{name: name, nops: 2, strided: true, negOK: true, writes: -1, call: func(op [3][]T, n int, inc [3]int, a T) {
		f(op[0], op[1], uintptr(n), uinc(inc[0]), uinc(inc[1]), start(n, inc[0]), start(n, inc[1]))
	}}
}
func kAxpyIncTo[T elem](name string, f func(dst []T, incDst, idst uintptr, a T, x, y []T, n, incX, incY, ix, iy uintptr)) kernel[T] {
	return kernel[T]{name: name, nops: 3, strided: true, negOK: true, writes: 0, call: func(op [3][]T, n int, inc [3]int, a T) {
		f(op[0], uinc(inc[0]), start(n, inc[0]), a, op[1], op[2], uintptr(n), uinc(inc[1]), uinc(inc[2]), start(n, inc[1]), start(n, inc[2]))
	}}
}
func kScalInc[T elem](name string, f func(a T, x []T, n, incX uintptr)) kernel[T] {
	return kernel[T]{name: name, nops: 1, strided: true, writes: 0, call: func(op [3][]T, n int, inc [3]int, a T) {
		f(a, op[0], uintptr(n), uinc(inc[0]))
	}}
}
func kScalIncTo[T elem](name string, f func(dst []T, incDst uintptr, a T, x []T, n, incX uintptr)) kernel[T] {
	return kernel[T]{name: name, nops: 2, strided: true, writes: 0, call: func(op [3][]T, n int, inc [3]int, a T) {
		f(op[0], uinc(inc[0]), a, op[1], uintptr(n), uinc(inc[1]))
	}}
}
func kNormInc[T elem](name string, f func(x []T, n, incX uintptr)) kernel[T] {
	return kernel[T]{name: name, nops: 1, strided: true, writes: -1, call: func(op [3][]T, n int, inc [3]int, a T) {
		f(op[0], uintptr(n), uinc(inc[0]))
	}}
}

func f64Kernels() []kernel[float64] {
	type T = float64
	return []kernel[T]{
		kDst2("f64.Add", f64.Add),
		kInPlace1("f64.AddConst", f64.AddConst),
		kAxpyInc("f64.AxpyInc", f64.AxpyInc),
		kAxpyIncTo("f64.AxpyIncTo", f64.AxpyIncTo),
		kAxpyU("f64.AxpyUnitary", f64.AxpyUnitary),
		kAxpyUTo("f64.AxpyUnitaryTo", f64.AxpyUnitaryTo),
		kDst2("f64.CumProd", func(d, s []T) { f64.CumProd(d, s) }),
		kDst2("f64.CumSum", func(d, s []T) { f64.CumSum(d, s) }),
		kDst2("f64.Div", f64.Div),
		kDst3("f64.DivTo", func(d, x, y []T) { f64.DivTo(d, x, y) }),
		kDotInc("f64.DotInc", func(x, y []T, n, ix, iy, sx, sy uintptr) { f64.DotInc(x, y, n, ix, iy, sx, sy) }),
		kReduce2("f64.DotUnitary", func(x, y []T) { f64.DotUnitary(x, y) }),
		kReduce2("f64.L1Dist", func(x, y []T) { f64.L1Dist(x, y) }),
		kReduce1("f64.L1Norm", func(x []T) { f64.L1Norm(x) }),
		kNormInc("f64.L1NormInc", func(x []T, n, inc uintptr) { f64.L1NormInc(x, int(n), int(inc)) }),
		kReduce2("f64.L2DistanceUnitary", func(x, y []T) { f64.L2DistanceUnitary(x, y) }),
		kNormInc("f64.L2NormInc", func(x []T, n, inc uintptr) { f64.L2NormInc(x, n, inc) }),
		kReduce1("f64.L2NormUnitary", func(x []T) { f64.L2NormUnitary(x) }),
		kReduce2("f64.LinfDist", func(x, y []T) { f64.LinfDist(x, y) }),
		kScalInc("f64.ScalInc", f64.ScalInc),
		kScalIncTo("f64.ScalIncTo", f64.ScalIncTo),
		kInPlace1("f64.ScalUnitary", f64.ScalUnitary),
		kScalUTo("f64.ScalUnitaryTo", f64.ScalUnitaryTo),
		kReduce1("f64.Sum", func(x []T) { f64.Sum(x) }),
	}
}

func f32Kernels() []kernel[float32] {
	type T = float32
	return []kernel[T]{
		kAxpyInc("f32.AxpyInc", f32.AxpyInc),
		kAxpyIncTo("f32.AxpyIncTo", f32.AxpyIncTo),
		kAxpyU("f32.AxpyUnitary", f32.AxpyUnitary),
		kAxpyUTo("f32.AxpyUnitaryTo", f32.AxpyUnitaryTo),
		kDotInc("f32.DdotInc", func(x, y []T, n, ix, iy, sx, sy uintptr) { f32.DdotInc(x, y, n, ix, iy, sx, sy) }),
		kReduce2("f32.DdotUnitary", func(x, y []T) { f32.DdotUnitary(x, y) }),
		kDotInc("f32.DotInc", func(x, y []T, n, ix, iy, sx, sy uintptr) { f32.DotInc(x, y, n, ix, iy, sx, sy) }),
		kReduce2("f32.DotUnitary", func(x, y []T) { f32.DotUnitary(x, y) }),
		kReduce2("f32.L2DistanceUnitary", func(x, y []T) { f32.L2DistanceUnitary(x, y) }),
		kNormInc("f32.L2NormInc", func(x []T, n, inc uintptr) { f32.L2NormInc(x, n, inc) }),
		kReduce1("f32.L2NormUnitary", func(x []T) { f32.L2NormUnitary(x) }),
		kScalInc("f32.ScalInc", f32.ScalInc),
		kScalIncTo("f32.ScalIncTo", f32.ScalIncTo),
		kInPlace1("f32.ScalUnitary", f32.ScalUnitary),
		kScalUTo("f32.ScalUnitaryTo", f32.ScalUnitaryTo),
		kReduce1("f32.Sum", func(x []T) { f32.Sum(x) }),
	}
}

func c128Kernels() []kernel[complex128] {
	type T = complex128
	return []kernel[T]{
		kDst2("c128.Add", c128.Add),
		kInPlace1("c128.AddConst", c128.AddConst),
		kAxpyInc("c128.AxpyInc", c128.AxpyInc),
		kAxpyIncTo("c128.AxpyIncTo", c128.AxpyIncTo),
		kAxpyU("c128.AxpyUnitary", c128.AxpyUnitary),
		kAxpyUTo("c128.AxpyUnitaryTo", c128.AxpyUnitaryTo),
		kDst2("c128.CumProd", func(d, s []T) { c128.CumProd(d, s) }),
		kDst2("c128.CumSum", func(d, s []T) { c128.CumSum(d, s) }),
		kDst2("c128.Div", c128.Div),
		kDst3("c128.DivTo", func(d, x, y []T) { c128.DivTo(d, x, y) }),
		kReduce2("c128.DotUnitary", func(x, y []T) { c128.DotUnitary(x, y) }),
		kDotInc("c128.DotcInc", func(x, y []T, n, ix, iy, sx, sy uintptr) { c128.DotcInc(x, y, n, ix, iy, sx, sy) }),
		kReduce2("c128.DotcUnitary", func(x, y []T) { c128.DotcUnitary(x, y) }),
		kDotInc("c128.DotuInc", func(x, y []T, n, ix, iy, sx, sy uintptr) { c128.DotuInc(x, y, n, ix, iy, sx, sy) }),
		kReduce2("c128.DotuUnitary", func(x, y []T) { c128.DotuUnitary(x, y) }),
		kScalInc("c128.DscalInc", func(a T, x []T, n, inc uintptr) { c128.DscalInc(real(a), x, n, inc) }),
		kInPlace1("c128.DscalUnitary", func(a T, x []T) { c128.DscalUnitary(real(a), x) }),
		kReduce2("c128.L2DistanceUnitary", func(x, y []T) { c128.L2DistanceUnitary(x, y) }),
		kReduce1("c128.L2NormUnitary", func(x []T) { c128.L2NormUnitary(x) }),
		kScalInc("c128.ScalInc", c128.ScalInc),
		kScalIncTo("c128.ScalIncTo", c128.ScalIncTo),
		kInPlace1("c128.ScalUnitary", c128.ScalUnitary),
		kScalUTo("c128.ScalUnitaryTo", c128.ScalUnitaryTo),
		kReduce1("c128.Sum", func(x []T) { c128.Sum(x) }),
	}
}

func c64Kernels() []kernel[complex64] {
	type T = complex64
	return []kernel[T]{
		kDst2("c64.Add", c64.Add),
		kInPlace1("c64.AddConst", c64.AddConst),
		kAxpyInc("c64.AxpyInc", c64.AxpyInc),
		kAxpyIncTo("c64.AxpyIncTo", c64.AxpyIncTo),
		kAxpyU("c64.AxpyUnitary", c64.AxpyUnitary),
		kAxpyUTo("c64.AxpyUnitaryTo", c64.AxpyUnitaryTo),
		kDst2("c64.CumProd", func(d, s []T) { c64.CumProd(d, s) }),
		kDst2("c64.CumSum", func(d, s []T) { c64.CumSum(d, s) }),
		kDst2("c64.Div", c64.Div),
		kDst3("c64.DivTo", func(d, x, y []T) { c64.DivTo(d, x, y) }),
		kReduce2("c64.DotUnitary", func(x, y []T) { c64.DotUnitary(x, y) }),
		kDotInc("c64.DotcInc", func(x, y []T, n, ix, iy, sx, sy uintptr) { c64.DotcInc(x, y, n, ix, iy, sx, sy) }),
		kReduce2("c64.DotcUnitary", func(x, y []T) { c64.DotcUnitary(x, y) }),
		kDotInc("c64.DotuInc", func(x, y []T, n, ix, iy, sx, sy uintptr) { c64.DotuInc(x, y, n, ix, iy, sx, sy) }),
		kReduce2("c64.DotuUnitary", func(x, y []T) { c64.DotuUnitary(x, y) }),
		kReduce2("c64.L2DistanceUnitary", func(x, y []T) { c64.L2DistanceUnitary(x, y) }),
		kReduce1("c64.L2NormUnitary", func(x []T) { c64.L2NormUnitary(x) }),
		kScalInc("c64.ScalInc", c64.ScalInc),
		kScalIncTo("c64.ScalIncTo", c64.ScalIncTo),
		kInPlace1("c64.ScalUnitary", c64.ScalUnitary),
		kScalUTo("c64.ScalUnitaryTo", c64.ScalUnitaryTo),
		kScalInc("c64.SscalInc", func(a T, x []T, n, inc uintptr) { c64.SscalInc(real(a), x, n, inc) }),
		kInPlace1("c64.SscalUnitary", func(a T, x []T) { c64.SscalUnitary(real(a), x) }),
		kReduce1("c64.Sum", func(x []T) { c64.Sum(x) }),
	}
}

// ---- Gemv / Ger kernels -------------------------------------------------------

type geKernel[T elem] struct {
	name string
	ger  bool
	call func(m, n int, alpha T, a []T, lda int, x []T, incX int, beta T, y []T, incY int)
	// xlen, ylen of the vectors for an m×n matrix
	trans bool
}

func runGeKernels[T elem](c *vrt.Ctx, st *kernelStats, ks []geKernel[T]) {
	incs := []int{1, 2, 3, -1, -2, -3}
	if *lite {
		incs = []int{1, -2, 3}
	}
	vrt.Parallel(len(ks), func(ki int) {
		k := ks[ki]
		oa, ox, oy := newGop[T](), newGop[T](), newGop[T]()
		defer oa.free()
		defer ox.free()
		defer oy.free()
		var zero, one T
		switch p := any(&one).(type) {
		case *float32:
			*p = 1
		case *float64:
			*p = 1
		case *complex64:
			*p = 1
		case *complex128:
			*p = 1
		}
		var local int64
		for m := 1; m <= 9; m++ {
			for n := 1; n <= 9; n++ {
				for _, ldx := range []int{0, 1, 3} {
					lda := n + ldx
					for _, incX := range incs {
						for _, incY := range incs {
							for bi, beta := range []T{zero, one, small[T](6)} {
								for _, tail := range []bool{true, false} {
									lx, ly := n, m
									if k.trans || k.ger {
										lx, ly = m, n
									}
									a := oa.place((m-1)*lda+n, tail, func(j int) T { return small[T](j) })
									x := ox.place((lx-1)*abs(incX)+1, tail, func(j int) T { return small[T](j + 2) })
									y := oy.place((ly-1)*abs(incY)+1, tail, func(j int) T { return small[T](j + 4) })
									if k.ger && bi > 0 {
										continue
									}
									class := "inc>0"
									switch {
									case incX == 1 && incY == 1:
										class = "unit"
									case incX < 0 || incY < 0:
										class = "inc<0"
									}
									desc := func() string {
										return fmt.Sprintf("%s m=%d n=%d lda=%d incX=%d incY=%d beta-class=%d, a, x, y exactly minimal and flush against the %s guard page",
											k.name, m, n, lda, incX, incY, bi, map[bool]string{true: "trailing", false: "leading"}[tail])
									}
									c.LastCase(desc())
									p := vrt.TryFast(func() { k.call(m, n, small[T](5), a, lda, x, incX, beta, y, incY) })
									local++
									if p != nil {
										cls, _ := panicClass(p, "\x00")
										c.Violation(fmt.Sprintf("asm.%s|%s|%s", k.name, class, cls), desc()+": "+p.Msg, map[string]any{"case": desc()})
										continue
									}
									var wa, wy func(j int) bool
									if k.ger {
										wa = func(j int) bool { return j%lda < n }
									} else {
										step := abs(incY)
										wy = func(j int) bool { return j%step == 0 }
									}
									for i, o := range []*gop[T]{oa, ox, oy} {
										w := [](func(int) bool){wa, nil, wy}[i]
										if rel, bad := o.changedOutside(w); bad {
											clause := "modified-read-only-operand"
											if w != nil {
												clause = "wrote-outside-destination-elements"
											}
											c.Violation(fmt.Sprintf("asm.%s|%s|%s", k.name, class, clause),
												fmt.Sprintf("%s: operand %s changed at byte offset %d relative to its first element", desc(), []string{"a", "x", "y"}[i], rel), map[string]any{"case": desc()})
										}
									}
								}
							}
						}
					}
				}
			}
		}
		st.calls.Add(local)
		c.EvalN("asm."+k.name+"|guard-pages", int(local), true)
	})
}

func runAsmKernels(c *vrt.Ctx) {
	st := &kernelStats{}
	runKernelSet(c, st, f64Kernels())
	runKernelSet(c, st, f32Kernels())
	runKernelSet(c, st, c128Kernels())
	runKernelSet(c, st, c64Kernels())
	u := func(v int) uintptr { return uintptr(v) }
	runGeKernels(c, st, []geKernel[float64]{
		{name: "f64.GemvN", call: func(m, n int, al float64, a []float64, lda int, x []float64, ix int, be float64, y []float64, iy int) {
			f64.GemvN(u(m), u(n), al, a, u(lda), x, u(ix), be, y, u(iy))
		}},
		{name: "f64.GemvT", trans: true, call: func(m, n int, al float64, a []float64, lda int, x []float64, ix int, be float64, y []float64, iy int) {
			f64.GemvT(u(m), u(n), al, a, u(lda), x, u(ix), be, y, u(iy))
		}},
		{name: "f64.Ger", ger: true, call: func(m, n int, al float64, a []float64, lda int, x []float64, ix int, be float64, y []float64, iy int) {
			f64.Ger(u(m), u(n), al, x, u(ix), y, u(iy), a, u(lda))
		}},
	})
	runGeKernels(c, st, []geKernel[float32]{
		{name: "f32.GemvN", call: func(m, n int, al float32, a []float32, lda int, x []float32, ix int, be float32, y []float32, iy int) {
			f32.GemvN(u(m), u(n), al, a, u(lda), x, u(ix), be, y, u(iy))
		}},
		{name: "f32.GemvT", trans: true, call: func(m, n int, al float32, a []float32, lda int, x []float32, ix int, be float32, y []float32, iy int) {
			f32.GemvT(u(m), u(n), al, a, u(lda), x, u(ix), be, y, u(iy))
		}},
		{name: "f32.Ger", ger: true, call: func(m, n int, al float32, a []float32, lda int, x []float32, ix int, be float32, y []float32, iy int) {
			f32.Ger(u(m), u(n), al, x, u(ix), y, u(iy), a, u(lda))
		}},
	})
	c.Count("asm.kernel_calls_on_guard_pages", st.calls.Load())
	c.Note("asm.kernels_covered", len(f64Kernels())+len(f32Kernels())+len(c128Kernels())+len(c64Kernels())+6)
}
