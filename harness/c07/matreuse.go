package main

import (
	"fmt"
	"strings"
	"sync/atomic"

	"gonum.org/v1/gonum/mat"
	"gonum.org/v1/gonum/verifx/vrt"
)

// Sub-check 3b: receiver histories. "Valid arguments never fault" also
// quantifies over what the receiver was used for before: every mat type with
// internal workspace or cached state (the factorizations, and Dense /
// VecDense / SymDense / TriDense receivers through Reset and reuse) is driven
// through short sequences of VALID calls on ONE value - shapes that shrink,
// grow or stay equal, calls after Reset, after a factorization that reported
// failure, after a call that was rejected for invalid arguments - and no
// valid call may panic. (Values are property C06's business.)

// hist is one sequence on one receiver.
type hist struct {
	c     *vrt.Ctx
	r     *vrt.Rand
	obj   string
	prev  string   // class of the previous step: fresh, same, smaller, larger, mixed, reset, failed, rejected
	seq   []string // executed steps, for the witness
	steps *atomic.Int64
	dead  bool // a valid call panicked: the receiver state is unknown, stop
}

// valid executes a call that satisfies the documented contract.
func (h *hist) valid(method, args string, f func()) {
	if h.dead {
		return
	}
	h.seq = append(h.seq, method+"("+args+")")
	h.c.LastCase("mat reuse " + h.obj + ": " + strings.Join(h.seq, "; "))
	p := vrt.Try(f)
	h.steps.Add(1)
	h.c.Eval("matreuse."+h.obj+"."+method+"|after:"+h.prev, true)
	if p != nil {
		cls, _ := matPanicOK(p)
		if s, ok := p.Value.(string); ok && (strings.HasPrefix(s, "lapack:") || strings.HasPrefix(s, "blas:")) {
			cls = "leaked-" + s[:strings.IndexByte(s, ':')] + "-panic"
		}
		// The history class is not part of the signature: which histories
		// reach a given defect depends on the seed.
		h.c.Violation(fmt.Sprintf("matreuse.%s.%s|reused-receiver|panic:%s", h.obj, method, cls),
			fmt.Sprintf("valid call panicked on a reused receiver (previous use: %s); history: %s; panic: %s\n%s", h.prev, strings.Join(h.seq, "; "), p.Msg, p.Stack),
			map[string]any{"type": h.obj, "history": h.seq})
		h.dead = true
	}
}

// rejected executes a call with invalid arguments (it is expected to panic
// with mat's own error; what it panics with is sub-check 3's business, a
// runtime error is reported here too) and marks the history.
func (h *hist) rejected(method, args string, f func()) {
	if h.dead {
		return
	}
	h.seq = append(h.seq, method+"("+args+")!invalid")
	p := vrt.TryFast(f)
	h.steps.Add(1)
	if p != nil && (p.Runtime || p.Fault) {
		h.c.Violation(fmt.Sprintf("matreuse.%s.%s|invalid-arguments|panic:runtime-error", h.obj, method),
			fmt.Sprintf("history: %s; panic: %s", strings.Join(h.seq, "; "), p.Msg), map[string]any{"type": h.obj, "history": h.seq})
	}
	h.prev = "rejected"
}

// next draws a new dimension and the size class relative to old.
func (h *hist) next(old int) (int, string) {
	if old == 0 {
		return 1 + h.r.Intn(8), "fresh"
	}
	switch h.r.Intn(3) {
	case 0:
		return old, "same"
	case 1:
		if old > 1 {
			return 1 + h.r.Intn(old-1), "smaller"
		}
		return old, "same"
	}
	return old + 1 + h.r.Intn(4), "larger"
}

// next2 draws two dimensions; the class is the pair of classes when they differ.
func (h *hist) next2(om, on int) (int, int, string) {
	m, cm := h.next(om)
	n, cn := h.next(on)
	if cm == cn {
		return m, n, cm
	}
	return m, n, cm + "-rows/" + cn + "-cols"
}

// transition decides what happens before the next (re)use: nothing, Reset,
// or (handled by the caller) a failing / rejected call.
const (
	trNone = iota
	trReset
	trFail
	trReject
)

func (h *hist) transition(first bool) int {
	if first {
		return trNone
	}
	switch u := h.r.Intn(10); {
	case u < 5:
		return trNone
	case u < 7:
		return trReset
	case u < 8:
		return trFail
	}
	return trReject
}

// spd returns a strictly diagonally dominant (hence positive definite) matrix.
func spd(r *vrt.Rand, n int) *mat.SymDense {
	s := mat.NewSymDense(n, nil)
	for i := 0; i < n; i++ {
		for j := i; j < n; j++ {
			v := 0.8 * r.Sym() / float64(n)
			if i == j {
				v = 2 + r.Float64()
			}
			s.SetSym(i, j, v)
		}
	}
	return s
}

func notPD(n int) *mat.SymDense {
	s := mat.NewSymDense(n, nil)
	for i := 0; i < n; i++ {
		s.SetSym(i, i, -1)
	}
	return s
}

func wellCond(r *vrt.Rand, n int) *mat.Dense {
	a := rdense(r, n, n)
	for i := 0; i < n; i++ {
		a.Set(i, i, a.At(i, i)+4)
	}
	return a
}

func sd(m, n int) string { return fmt.Sprintf("%dx%d", m, n) }

type reuseObj struct {
	name string
	run  func(h *hist, rounds int)
}

func reuseObjects() []reuseObj {
	var objs []reuseObj
	add := func(name string, run func(h *hist, rounds int)) { objs = append(objs, reuseObj{name, run}) }

	// ---- LU ------------------------------------------------------------------
	add("LU", func(h *hist, rounds int) {
		var lu mat.LU
		var dst mat.Dense
		var dv mat.VecDense
		n := 0
		for k := 0; k < rounds; k++ {
			switch h.transition(k == 0) {
			case trReset:
				h.valid("Reset", "", func() { lu.Reset() })
				h.prev = "reset"
				n = 0
			case trFail:
				// exactly singular: Factorize has no result, SolveTo reports it
				m := 1 + h.r.Intn(5)
				h.valid("Factorize", sd(m, m)+" singular", func() { lu.Factorize(mat.NewDense(m, m, nil)) })
				h.valid("SolveTo", "singular", func() { var d mat.Dense; _ = lu.SolveTo(&d, false, rdense(h.r, m, 2)) })
				h.valid("Det", "", func() { lu.Det() })
				h.prev, n = "failed", m
			case trReject:
				h.rejected("Factorize", "non-square", func() { lu.Factorize(rdense(h.r, 3, 4)) })
			}
			var cls string
			nn, cls := h.next(n)
			if h.prev == "reset" || h.prev == "failed" || h.prev == "rejected" {
				cls = h.prev
			}
			h.prev, n = cls, nn
			a := wellCond(h.r, n)
			h.valid("Factorize", sd(n, n), func() { lu.Factorize(a) })
			nr := 1 + h.r.Intn(3)
			trans := h.r.Bool()
			for _, u := range h.r.Perm(8)[:4] {
				switch u {
				case 0:
					h.valid("Det", "", func() { lu.Det(); lu.LogDet(); lu.Cond() })
				case 1:
					h.valid("RowPivots", "nil", func() { lu.RowPivots(nil); lu.Pivot(nil) })
				case 2:
					h.valid("LTo", "empty", func() { var l, u mat.TriDense; lu.LTo(&l); lu.UTo(&u) })
				case 3:
					h.valid("SolveTo", "dst after Reset", func() { dst.Reset(); _ = lu.SolveTo(&dst, trans, rdense(h.r, n, nr)) })
				case 4:
					h.valid("SolveTo", "fresh dst", func() { var d mat.Dense; _ = lu.SolveTo(&d, trans, rdense(h.r, n, nr)) })
				case 5:
					h.valid("SolveVecTo", "dst after Reset", func() { dv.Reset(); _ = lu.SolveVecTo(&dv, trans, rvec(h.r, n)) })
				case 6:
					h.valid("RankOne", "in place", func() { lu.RankOne(&lu, 0.01, rvec(h.r, n), rvec(h.r, n)) })
				case 7:
					h.valid("At", "", func() { lu.At(n-1, 0); lu.T().At(0, n-1) })
				}
			}
		}
	})

	// ---- Cholesky --------------------------------------------------------------
	add("Cholesky", func(h *hist, rounds int) {
		var ch mat.Cholesky
		var dst mat.Dense
		var ds mat.SymDense
		n := 0
		for k := 0; k < rounds; k++ {
			switch h.transition(k == 0) {
			case trReset:
				h.valid("Reset", "", func() { ch.Reset() })
				h.prev, n = "reset", 0
			case trFail:
				m := 1 + h.r.Intn(5)
				h.valid("Factorize", sd(m, m)+" not positive definite", func() { ch.Factorize(notPD(m)) })
				h.prev, n = "failed", m
			case trReject:
				if n > 0 {
					h.rejected("SolveTo", "row mismatch", func() { var d mat.Dense; _ = ch.SolveTo(&d, rdense(h.r, n+1, 1)) })
				}
			}
			nn, cls := h.next(n)
			if h.prev == "reset" || h.prev == "failed" || h.prev == "rejected" {
				cls = h.prev
			}
			h.prev, n = cls, nn
			a := spd(h.r, n)
			ok := false
			if h.r.Intn(5) == 0 {
				t := rtri(h.r, n, mat.Upper)
				// a non-empty receiver must already be n×n (documented): reset it
				h.valid("Reset", "", func() { ch.Reset() })
				h.valid("SetFromU", sd(n, n), func() { ch.SetFromU(t); ok = true })
			} else {
				h.valid("Factorize", sd(n, n), func() { ok = ch.Factorize(a) })
			}
			if !ok {
				continue
			}
			nr := 1 + h.r.Intn(3)
			for _, u := range h.r.Perm(10)[:4] {
				switch u {
				case 0:
					h.valid("Det", "", func() { ch.Det(); ch.LogDet(); ch.Cond() })
				case 1:
					h.valid("SolveTo", "dst after Reset", func() { dst.Reset(); _ = ch.SolveTo(&dst, rdense(h.r, n, nr)) })
				case 2:
					h.valid("SolveVecTo", "fresh dst", func() { var d mat.VecDense; _ = ch.SolveVecTo(&d, rvec(h.r, n)) })
				case 3:
					h.valid("UTo", "empty", func() { var u, l mat.TriDense; ch.UTo(&u); ch.LTo(&l) })
				case 4:
					h.valid("ToSym", "dst after Reset", func() { ds.Reset(); ch.ToSym(&ds) })
				case 5:
					h.valid("InverseTo", "dst after Reset", func() { ds.Reset(); _ = ch.InverseTo(&ds) })
				case 6:
					h.valid("Scale", "in place", func() { ch.Scale(2, &ch) })
				case 7:
					h.valid("SymRankOne", "in place update", func() { ch.SymRankOne(&ch, 0.5, rvec(h.r, n)) })
				case 8:
					h.valid("ExtendVecSym", "into another reused value", func() {
						var e mat.Cholesky
						e.Factorize(spd(h.r, 1+h.r.Intn(6)))
						v := rvec(h.r, n+1)
						v.SetVec(n, 50)
						e.ExtendVecSym(&ch, v)
					})
				case 9:
					h.valid("Clone", "into a used value", func() {
						var e mat.Cholesky
						e.Factorize(spd(h.r, 1+h.r.Intn(6)))
						e.Clone(&ch)
						e.Det()
					})
				}
			}
		}
	})

	// ---- BandCholesky -------------------------------------------------------------
	bandSPD := func(r *vrt.Rand, n, k int) *mat.SymBandDense {
		b := mat.NewSymBandDense(n, k, nil)
		for i := 0; i < n; i++ {
			b.SetSymBand(i, i, 4+r.Float64())
			for j := i + 1; j <= min(n-1, i+k); j++ {
				b.SetSymBand(i, j, 0.3*r.Sym())
			}
		}
		return b
	}
	add("BandCholesky", func(h *hist, rounds int) {
		var ch mat.BandCholesky
		var dst mat.Dense
		n := 0
		for k := 0; k < rounds; k++ {
			switch h.transition(k == 0) {
			case trReset:
				h.valid("Reset", "", func() { ch.Reset() })
				h.prev, n = "reset", 0
			case trFail:
				m := 2 + h.r.Intn(4)
				b := mat.NewSymBandDense(m, 1, nil)
				for i := 0; i < m; i++ {
					b.SetSymBand(i, i, -1)
				}
				h.valid("Factorize", sd(m, m)+" not positive definite", func() { ch.Factorize(b) })
				h.prev, n = "failed", m
			case trReject:
				if n > 0 {
					h.rejected("SolveTo", "row mismatch", func() { var d mat.Dense; _ = ch.SolveTo(&d, rdense(h.r, n+1, 1)) })
				}
			}
			nn, cls := h.next(n)
			if h.prev == "reset" || h.prev == "failed" || h.prev == "rejected" {
				cls = h.prev
			}
			h.prev, n = cls, nn
			kd := h.r.Intn(min(n, 4))
			a := bandSPD(h.r, n, kd)
			ok := false
			h.valid("Factorize", fmt.Sprintf("%dx%d k=%d", n, n, kd), func() { ok = ch.Factorize(a) })
			if !ok {
				continue
			}
			h.valid("Det", "", func() { ch.Det(); ch.LogDet(); ch.Cond(); ch.At(n-1, 0) })
			h.valid("SolveTo", "dst after Reset", func() { dst.Reset(); _ = ch.SolveTo(&dst, rdense(h.r, n, 2)) })
			h.valid("SolveVecTo", "fresh dst", func() { var d mat.VecDense; _ = ch.SolveVecTo(&d, rvec(h.r, n)) })
		}
	})

	// ---- PivotedCholesky ----------------------------------------------------------
	add("PivotedCholesky", func(h *hist, rounds int) {
		var ch mat.PivotedCholesky
		n := 0
		for k := 0; k < rounds; k++ {
			switch h.transition(k == 0) {
			case trFail:
				m := 1 + h.r.Intn(5)
				h.valid("Factorize", sd(m, m)+" not positive semidefinite", func() { ch.Factorize(notPD(m), -1) })
				h.prev, n = "failed", m
			case trReject:
				if n > 0 {
					h.rejected("SolveTo", "row mismatch", func() { var d mat.Dense; _ = ch.SolveTo(&d, rdense(h.r, n+1, 1)) })
				}
			}
			nn, cls := h.next(n)
			if h.prev == "failed" || h.prev == "rejected" {
				cls = h.prev
			}
			h.prev, n = cls, nn
			a := spd(h.r, n)
			ok := false
			h.valid("Factorize", sd(n, n), func() { ok = ch.Factorize(a, -1) })
			if !ok {
				continue
			}
			h.valid("Rank", "", func() { ch.Rank(); ch.Cond(); ch.At(n-1, 0); ch.ColumnPivots(nil) })
			h.valid("UTo", "empty", func() { var u mat.TriDense; ch.UTo(&u) })
			h.valid("SolveTo", "fresh dst", func() { var d mat.Dense; _ = ch.SolveTo(&d, rdense(h.r, n, 2)) })
			h.valid("SolveVecTo", "fresh dst", func() { var d mat.VecDense; _ = ch.SolveVecTo(&d, rvec(h.r, n)) })
		}
	})

	// ---- QR / LQ -------------------------------------------------------------------
	add("QR", func(h *hist, rounds int) {
		var qr mat.QR
		var dst mat.Dense
		m, n := 0, 0
		for k := 0; k < rounds; k++ {
			if h.transition(k == 0) == trReject {
				h.rejected("Factorize", "more columns than rows", func() { qr.Factorize(rdense(h.r, 2, 5)) })
			}
			mm, nn, cls := h.next2(m, n)
			if mm < nn {
				mm, nn = nn, mm
			}
			if h.prev == "rejected" {
				cls = h.prev
			}
			h.prev, m, n = cls, mm, nn
			a := rdense(h.r, m, n)
			h.valid("Factorize", sd(m, n), func() { qr.Factorize(a) })
			for _, u := range h.r.Perm(6)[:3] {
				switch u {
				case 0:
					h.valid("RTo", "empty", func() { var d mat.Dense; qr.RTo(&d) })
				case 1:
					h.valid("QTo", "dst after Reset", func() { dst.Reset(); qr.QTo(&dst) })
				case 2:
					h.valid("Cond", "", func() { qr.Cond(); qr.At(m-1, 0); qr.T().At(0, m-1) })
				case 3:
					h.valid("SolveTo", "notrans", func() { var d mat.Dense; _ = qr.SolveTo(&d, false, rdense(h.r, m, 2)) })
				case 4:
					h.valid("SolveTo", "trans", func() { var d mat.Dense; _ = qr.SolveTo(&d, true, rdense(h.r, n, 2)) })
				case 5:
					h.valid("SolveVecTo", "notrans", func() { var d mat.VecDense; _ = qr.SolveVecTo(&d, false, rvec(h.r, m)) })
				}
			}
		}
	})
	add("LQ", func(h *hist, rounds int) {
		var lq mat.LQ
		var dst mat.Dense
		m, n := 0, 0
		for k := 0; k < rounds; k++ {
			if h.transition(k == 0) == trReject {
				h.rejected("Factorize", "more rows than columns", func() { lq.Factorize(rdense(h.r, 5, 2)) })
			}
			mm, nn, cls := h.next2(m, n)
			if mm > nn {
				mm, nn = nn, mm
			}
			if h.prev == "rejected" {
				cls = h.prev
			}
			h.prev, m, n = cls, mm, nn
			a := rdense(h.r, m, n)
			h.valid("Factorize", sd(m, n), func() { lq.Factorize(a) })
			for _, u := range h.r.Perm(6)[:3] {
				switch u {
				case 0:
					h.valid("LTo", "empty", func() { var d mat.Dense; lq.LTo(&d) })
				case 1:
					h.valid("QTo", "dst after Reset", func() { dst.Reset(); lq.QTo(&dst) })
				case 2:
					h.valid("Cond", "", func() { lq.Cond(); lq.At(m-1, 0); lq.T().At(0, m-1) })
				case 3:
					h.valid("SolveTo", "notrans", func() { var d mat.Dense; _ = lq.SolveTo(&d, false, rdense(h.r, m, 2)) })
				case 4:
					h.valid("SolveTo", "trans", func() { var d mat.Dense; _ = lq.SolveTo(&d, true, rdense(h.r, n, 2)) })
				case 5:
					h.valid("SolveVecTo", "notrans", func() { var d mat.VecDense; _ = lq.SolveVecTo(&d, false, rvec(h.r, m)) })
				}
			}
		}
	})

	// ---- SVD --------------------------------------------------------------------------
	add("SVD", func(h *hist, rounds int) {
		var svd mat.SVD
		var dst mat.Dense
		m, n := 0, 0
		kinds := []mat.SVDKind{mat.SVDNone, mat.SVDThin, mat.SVDFull, mat.SVDThinU, mat.SVDFullV, mat.SVDThinU | mat.SVDFullV}
		for k := 0; k < rounds; k++ {
			if h.transition(k == 0) == trReject && m > 0 {
				h.rejected("Values", "short destination", func() { svd.Values(make([]float64, min(m, n)+1)) })
			}
			mm, nn, cls := h.next2(m, n)
			if h.prev == "rejected" {
				cls = h.prev
			}
			h.prev, m, n = cls, mm, nn
			kind := kinds[h.r.Intn(len(kinds))]
			a := rdense(h.r, m, n)
			ok := false
			h.valid("Factorize", fmt.Sprintf("%s kind=%d", sd(m, n), kind), func() { ok = svd.Factorize(a, kind) })
			if !ok {
				continue
			}
			h.valid("Values", "nil", func() { svd.Values(nil); svd.Cond(); svd.Rank(1e-12); svd.Kind() })
			if kind&(mat.SVDThinU|mat.SVDFullU) != 0 {
				h.valid("UTo", "dst after Reset", func() { dst.Reset(); svd.UTo(&dst) })
			}
			if kind&(mat.SVDThinV|mat.SVDFullV) != 0 {
				h.valid("VTo", "fresh dst", func() { var d mat.Dense; svd.VTo(&d) })
			}
			if kind == mat.SVDThin || kind == mat.SVDFull {
				rank := svd.Rank(1e-12)
				if rank > 0 {
					h.valid("SolveTo", "fresh dst", func() { var d mat.Dense; svd.SolveTo(&d, rdense(h.r, m, 2), rank) })
					h.valid("SolveVecTo", "fresh dst", func() { var d mat.VecDense; svd.SolveVecTo(&d, rvec(h.r, m), rank) })
				}
			}
		}
	})

	// ---- EigenSym / Eigen ------------------------------------------------------------------
	add("EigenSym", func(h *hist, rounds int) {
		var es mat.EigenSym
		var dst mat.Dense
		n := 0
		for k := 0; k < rounds; k++ {
			if h.transition(k == 0) == trReject && n > 0 {
				h.rejected("Values", "wrong destination length", func() { es.Values(make([]float64, n+1)) })
			}
			nn, cls := h.next(n)
			if h.prev == "rejected" {
				cls = h.prev
			}
			h.prev, n = cls, nn
			vectors := h.r.Bool()
			a := spd(h.r, n)
			ok := false
			h.valid("Factorize", fmt.Sprintf("%s vectors=%v", sd(n, n), vectors), func() { ok = es.Factorize(a, vectors) })
			if !ok {
				continue
			}
			h.valid("Values", "nil", func() { es.Values(nil); es.RawValues() })
			if vectors {
				h.valid("VectorsTo", "dst after Reset", func() { dst.Reset(); es.VectorsTo(&dst) })
				h.valid("At", "", func() { es.At(n-1, 0); es.RawQ() })
			}
		}
	})
	add("Eigen", func(h *hist, rounds int) {
		var e mat.Eigen
		var dst mat.CDense
		n := 0
		kinds := []mat.EigenKind{mat.EigenNone, mat.EigenLeft, mat.EigenRight, mat.EigenBoth}
		for k := 0; k < rounds; k++ {
			if h.transition(k == 0) == trReject {
				h.rejected("Factorize", "non-square", func() { e.Factorize(rdense(h.r, 2, 3), mat.EigenRight) })
			}
			nn, cls := h.next(n)
			if h.prev == "rejected" {
				cls = h.prev
			}
			h.prev, n = cls, nn
			kind := kinds[h.r.Intn(len(kinds))]
			a := rdense(h.r, n, n)
			ok := false
			h.valid("Factorize", fmt.Sprintf("%s kind=%d", sd(n, n), kind), func() { ok = e.Factorize(a, kind) })
			if !ok {
				continue
			}
			h.valid("Values", "nil", func() { e.Values(nil); e.Kind() })
			if kind&mat.EigenRight != 0 {
				h.valid("VectorsTo", "dst after Reset", func() { dst.Reset(); e.VectorsTo(&dst) })
			}
			if kind&mat.EigenLeft != 0 {
				h.valid("LeftVectorsTo", "fresh dst", func() { var d mat.CDense; e.LeftVectorsTo(&d) })
			}
		}
	})

	// ---- GSVD / HOGSVD ---------------------------------------------------------------------------
	add("GSVD", func(h *hist, rounds int) {
		var g mat.GSVD
		var dst mat.Dense
		r0, p0, c0 := 0, 0, 0
		kinds := []mat.GSVDKind{mat.GSVDNone, mat.GSVDAll, mat.GSVDU, mat.GSVDV | mat.GSVDQ, mat.GSVDU | mat.GSVDQ}
		for k := 0; k < rounds; k++ {
			if h.transition(k == 0) == trReject {
				h.rejected("Factorize", "column mismatch", func() { g.Factorize(rdense(h.r, 3, 3), rdense(h.r, 3, 4), mat.GSVDNone) })
			}
			rr, cc, cls := h.next2(r0, c0)
			pp, _ := h.next(p0)
			if h.prev == "rejected" {
				cls = h.prev
			}
			h.prev, r0, p0, c0 = cls, rr, pp, cc
			kind := kinds[h.r.Intn(len(kinds))]
			a, b := rdense(h.r, r0, c0), rdense(h.r, p0, c0)
			ok := false
			h.valid("Factorize", fmt.Sprintf("a %s b %s kind=%d", sd(r0, c0), sd(p0, c0), kind), func() { ok = g.Factorize(a, b, kind) })
			if !ok {
				continue
			}
			h.valid("Values", "nil", func() { g.Rank(); g.GeneralizedValues(nil); g.ValuesA(nil); g.ValuesB(nil); g.Kind() })
			h.valid("SigmaATo", "dst after Reset", func() {
				dst.Reset()
				g.SigmaATo(&dst)
				dst.Reset()
				g.SigmaBTo(&dst)
				dst.Reset()
				g.ZeroRTo(&dst)
			})
			if kind&mat.GSVDU != 0 {
				h.valid("UTo", "fresh dst", func() { var d mat.Dense; g.UTo(&d) })
			}
			if kind&mat.GSVDV != 0 {
				h.valid("VTo", "fresh dst", func() { var d mat.Dense; g.VTo(&d) })
			}
			if kind&mat.GSVDQ != 0 {
				h.valid("QTo", "dst after Reset", func() { dst.Reset(); g.QTo(&dst) })
			}
		}
	})
	add("HOGSVD", func(h *hist, rounds int) {
		var g mat.HOGSVD
		var dst mat.Dense
		c0 := 0
		for k := 0; k < rounds; k++ {
			if h.transition(k == 0) == trReject {
				h.rejected("Factorize", "column mismatch", func() { g.Factorize(rdense(h.r, 4, 3), rdense(h.r, 4, 2)) })
			}
			cc, cls := h.next(c0)
			cc = min(cc, 6)
			if h.prev == "rejected" {
				cls = h.prev
			}
			h.prev, c0 = cls, cc
			nm := 2 + h.r.Intn(2)
			ms := make([]mat.Matrix, nm)
			for i := range ms {
				ms[i] = rdense(h.r, c0+h.r.Intn(4), c0)
			}
			ok := false
			h.valid("Factorize", fmt.Sprintf("%d matrices with %d columns", nm, c0), func() { ok = g.Factorize(ms...) })
			if !ok {
				continue
			}
			h.valid("Values", "nil", func() { g.Len(); g.Values(nil, nm-1); _ = g.Err() })
			h.valid("UTo", "dst after Reset", func() { dst.Reset(); g.UTo(&dst, 0) })
			h.valid("VTo", "fresh dst", func() { var d mat.Dense; g.VTo(&d) })
		}
	})

	// ---- plain receivers: Reset and reuse --------------------------------------------------------
	add("Dense", func(h *hist, rounds int) {
		var m mat.Dense
		r0, c0 := 0, 0
		for k := 0; k < rounds; k++ {
			rr, cc, cls := h.next2(r0, c0)
			if cls != "same" && r0 > 0 {
				switch h.r.Intn(3) {
				case 0:
					// a non-empty receiver of another shape is rejected; Reset makes it reusable
					h.rejected("Add", "receiver shape mismatch", func() { m.Add(rdense(h.r, r0+1, c0), rdense(h.r, r0+1, c0)) })
					h.valid("Reset", "", func() { m.Reset() })
					cls = "rejected+reset"
				case 1:
					h.valid("Reset", "", func() { m.Reset() })
					cls = "reset:" + cls
				case 2:
					a := rdense(h.r, rr, cc)
					h.valid("CloneFrom", sd(rr, cc), func() { m.CloneFrom(a) })
					cls = "clonefrom:" + cls
				}
			}
			h.prev, r0, c0 = cls, rr, cc
			kk := 1 + h.r.Intn(5)
			switch h.r.Intn(12) {
			case 0:
				h.valid("Mul", sd(r0, c0), func() { m.Mul(rdense(h.r, r0, kk), rdense(h.r, kk, c0)) })
			case 1:
				h.valid("Mul", sd(r0, c0)+" transposed operands", func() { m.Mul(rdense(h.r, kk, r0).T(), rdense(h.r, c0, kk).T()) })
			case 2:
				h.valid("Add", sd(r0, c0), func() { m.Add(rdense(h.r, r0, c0), rdense(h.r, r0, c0)) })
			case 3:
				h.valid("Scale", sd(r0, c0), func() { m.Scale(2, rdense(h.r, r0, c0)) })
			case 4:
				h.valid("Apply", sd(r0, c0), func() { m.Apply(func(i, j int, v float64) float64 { return v + 1 }, rdense(h.r, r0, c0)) })
			case 5:
				h.valid("Product", sd(r0, c0), func() { m.Product(rdense(h.r, r0, kk), rdense(h.r, kk, 3), rdense(h.r, 3, c0)) })
			case 6:
				h.valid("Outer", sd(r0, c0), func() { m.Outer(0.5, rvec(h.r, r0), rvec(h.r, c0)) })
			case 7:
				h.valid("Solve", sd(r0, c0), func() { _ = m.Solve(wellCond(h.r, r0), rdense(h.r, r0, c0)) })
			case 8:
				h.valid("Solve", sd(r0, c0)+" least squares", func() { _ = m.Solve(rdense(h.r, r0+3, r0), rdense(h.r, r0+3, c0)) })
			case 9:
				// square results: the receiver must be reset first unless it is square already
				n := r0
				h.valid("Reset", "", func() { m.Reset() })
				h.valid("Inverse", sd(n, n), func() { _ = m.Inverse(wellCond(h.r, n)) })
				h.valid("Exp", sd(n, n), func() { m.Exp(rdense(h.r, n, n)) })
				h.valid("Pow", sd(n, n), func() { m.Pow(rdense(h.r, n, n), 3) })
				c0 = n
			case 10:
				h.valid("Reset", "", func() { m.Reset() })
				h.valid("Stack", "", func() { m.Stack(rdense(h.r, r0, c0), rdense(h.r, kk, c0)) })
				r0 += kk
			case 11:
				h.valid("Reset", "", func() { m.Reset() })
				h.valid("ReuseAs", sd(r0, c0), func() { m.ReuseAs(r0, c0) })
				h.valid("Copy", "", func() { m.Copy(rdense(h.r, r0+1, c0)) })
				h.valid("Grow", "", func() { g := m.Grow(1, 2).(*mat.Dense); g.Set(r0, c0+1, 1) })
			}
		}
	})
	add("VecDense", func(h *hist, rounds int) {
		var v mat.VecDense
		n := 0
		for k := 0; k < rounds; k++ {
			nn, cls := h.next(n)
			if cls != "same" && n > 0 {
				switch h.r.Intn(3) {
				case 0:
					h.rejected("AddVec", "receiver length mismatch", func() { v.AddVec(rvec(h.r, n+1), rvec(h.r, n+1)) })
					h.valid("Reset", "", func() { v.Reset() })
					cls = "rejected+reset"
				case 1:
					h.valid("Reset", "", func() { v.Reset() })
					cls = "reset:" + cls
				case 2:
					h.valid("CloneFromVec", fmt.Sprint(nn), func() { v.CloneFromVec(rvec(h.r, nn)) })
					cls = "clonefrom:" + cls
				}
			}
			h.prev, n = cls, nn
			kk := 1 + h.r.Intn(5)
			switch h.r.Intn(6) {
			case 0:
				h.valid("AddVec", fmt.Sprint(n), func() { v.AddVec(rvec(h.r, n), rvec(h.r, n)) })
			case 1:
				h.valid("ScaleVec", fmt.Sprint(n), func() { v.ScaleVec(2, rvec(h.r, n)) })
			case 2:
				h.valid("MulVec", fmt.Sprint(n), func() { v.MulVec(rdense(h.r, n, kk), rvec(h.r, kk)) })
			case 3:
				h.valid("MulVec", fmt.Sprint(n)+" transposed", func() { v.MulVec(rdense(h.r, kk, n).T(), rvec(h.r, kk)) })
			case 4:
				h.valid("SolveVec", fmt.Sprint(n), func() { _ = v.SolveVec(wellCond(h.r, n), rvec(h.r, n)) })
			case 5:
				h.valid("Reset", "", func() { v.Reset() })
				h.valid("ReuseAsVec", fmt.Sprint(n), func() { v.ReuseAsVec(n) })
				h.valid("CopyVec", "", func() { v.CopyVec(rvec(h.r, n+2)) })
			}
		}
	})
	add("SymDense", func(h *hist, rounds int) {
		var s mat.SymDense
		n := 0
		for k := 0; k < rounds; k++ {
			nn, cls := h.next(n)
			if cls != "same" && n > 0 {
				if h.r.Bool() {
					h.rejected("AddSym", "receiver shape mismatch", func() { s.AddSym(spd(h.r, n+1), spd(h.r, n+1)) })
					cls = "rejected+reset"
				} else {
					cls = "reset:" + cls
				}
				h.valid("Reset", "", func() { s.Reset() })
			}
			h.prev, n = cls, nn
			kk := 1 + h.r.Intn(4)
			switch h.r.Intn(7) {
			case 0:
				h.valid("AddSym", sd(n, n), func() { s.AddSym(spd(h.r, n), spd(h.r, n)) })
			case 1:
				h.valid("SymRankOne", sd(n, n), func() { s.SymRankOne(spd(h.r, n), 0.5, rvec(h.r, n)) })
			case 2:
				h.valid("SymOuterK", sd(n, n), func() { s.SymOuterK(0.5, rdense(h.r, n, kk)) })
			case 3:
				h.valid("ScaleSym", sd(n, n), func() { s.ScaleSym(2, spd(h.r, n)) })
			case 4:
				h.valid("PowPSD", sd(n, n), func() { _ = s.PowPSD(spd(h.r, n), 0.5) })
			case 5:
				h.valid("SubsetSym", sd(n, n), func() {
					set := make([]int, n)
					for i := range set {
						set[i] = h.r.Intn(n + 2)
					}
					s.SubsetSym(spd(h.r, n+2), set)
				})
			case 6:
				h.valid("Reset", "", func() { s.Reset() })
				h.valid("ReuseAsSym", sd(n, n), func() { s.ReuseAsSym(n) })
				h.valid("CopySym", "", func() { s.CopySym(spd(h.r, n+1)) })
				h.valid("GrowSym", "", func() { g := s.GrowSym(2).(*mat.SymDense); g.SetSym(n, n+1, 1) })
			}
		}
	})
	add("TriDense", func(h *hist, rounds int) {
		var t mat.TriDense
		n := 0
		for k := 0; k < rounds; k++ {
			nn, cls := h.next(n)
			if cls != "same" && n > 0 {
				h.valid("Reset", "", func() { t.Reset() })
				cls = "reset:" + cls
			} else if n > 0 && h.r.Bool() {
				// the triangle kind of a non-empty receiver must match: reset
				h.valid("Reset", "", func() { t.Reset() })
				cls = "reset:same"
			}
			h.prev, n = cls, nn
			kind := []mat.TriKind{mat.Upper, mat.Lower}[h.r.Intn(2)]
			if !t.IsEmpty() {
				_, kind = t.Triangle()
			}
			switch h.r.Intn(5) {
			case 0:
				h.valid("MulTri", sd(n, n), func() { t.MulTri(rtri(h.r, n, kind), rtri(h.r, n, kind)) })
			case 1:
				h.valid("ScaleTri", sd(n, n), func() { t.ScaleTri(2, rtri(h.r, n, kind)) })
			case 2:
				h.valid("InverseTri", sd(n, n), func() { _ = t.InverseTri(rtri(h.r, n, kind)) })
			case 3:
				h.valid("Reset", "", func() { t.Reset() })
				h.valid("ReuseAsTri", sd(n, n), func() { t.ReuseAsTri(n, kind) })
				h.valid("Copy", "", func() { t.Copy(rdense(h.r, n+1, n+1)) })
			case 4:
				h.valid("SolveTo", sd(n, n), func() {
					if t.IsEmpty() {
						t.ScaleTri(1, rtri(h.r, n, kind))
					}
					var d mat.Dense
					_ = t.SolveTo(&d, h.r.Bool(), rdense(h.r, n, 2))
				})
			}
		}
	})
	return objs
}

func runMatReuse(c *vrt.Ctx) {
	objs := reuseObjects()
	seqs := c.Pick(120, 1500)
	if *lite {
		seqs = 40
	}
	var steps atomic.Int64
	type job struct{ oi, si int }
	var jobs []job
	for oi := range objs {
		for si := 0; si < seqs; si += 20 {
			jobs = append(jobs, job{oi, si})
		}
	}
	vrt.Parallel(len(jobs), func(j int) {
		o := objs[jobs[j].oi]
		for si := jobs[j].si; si < min(seqs, jobs[j].si+20); si++ {
			h := &hist{c: c, r: c.RNG("matreuse", jobs[j].oi, si), obj: o.name, prev: "fresh", steps: &steps}
			o.run(h, 3+h.r.Intn(6))
		}
	})
	c.Count("matreuse.calls", steps.Load())
	c.Note("matreuse.receiver_types", len(objs))
	c.Note("matreuse.sequences_per_type", seqs)
}
