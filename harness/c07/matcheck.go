package main

import (
	"fmt"
	"math"
	"strings"
	"sync/atomic"

	"gonum.org/v1/gonum/blas/blas64"
	"gonum.org/v1/gonum/mat"
	"gonum.org/v1/gonum/verifx/vrt"
)

// Sub-check 3: package mat. Every entry of the operation table is executed
// in two forms: with arguments that satisfy the documented contract (must
// not panic) and with exactly one perturbation (a mismatched shape, an index
// outside the matrix, a negative or zero dimension or a wrong data length in
// a constructor). The perturbed call must panic with a mat.Error (or one of
// mat's own "mat: ..." strings), never with a runtime.Error, and must leave
// the receiver bit-identical.

type matCase struct {
	op    string
	fault string
	// mk builds one call; bad selects the perturbed form. recv is the
	// receiver whose state must survive a rejected call (nil: none).
	mk func(r *vrt.Rand, bad bool) (call func(), recv any)
}

func rdense(r *vrt.Rand, m, n int) *mat.Dense {
	d := make([]float64, m*n)
	for i := range d {
		d[i] = r.Sym()
	}
	return mat.NewDense(m, n, d)
}

// rview returns an m×n view with a stride larger than n.
func rview(r *vrt.Rand, m, n int) *mat.Dense {
	return rdense(r, m+1, n+2).Slice(1, m+1, 1, n+1).(*mat.Dense)
}

func rvec(r *vrt.Rand, n int) *mat.VecDense {
	d := make([]float64, n)
	for i := range d {
		d[i] = r.Sym()
	}
	return mat.NewVecDense(n, d)
}

func rsym(r *vrt.Rand, n int) *mat.SymDense {
	s := mat.NewSymDense(n, nil)
	for i := 0; i < n; i++ {
		for j := i; j < n; j++ {
			v := 0.2 * r.Sym()
			if i == j {
				v = 2 + r.Float64()
			}
			s.SetSym(i, j, v)
		}
	}
	return s
}

func rtri(r *vrt.Rand, n int, kind mat.TriKind) *mat.TriDense {
	t := mat.NewTriDense(n, kind, nil)
	for i := 0; i < n; i++ {
		for j := 0; j < n; j++ {
			if (kind == mat.Upper && j >= i) || (kind == mat.Lower && j <= i) {
				v := 0.3 * r.Sym()
				if i == j {
					v = 1 + r.Float64()
				}
				t.SetTri(i, j, v)
			}
		}
	}
	return t
}

func dim(r *vrt.Rand) int { return 1 + r.Intn(6) }

// matState is a bit image of a mat value (shape, stride and backing data).
func matState(v any) []uint64 {
	var out []uint64
	add := func(ints []int, data []float64) {
		for _, i := range ints {
			out = append(out, uint64(int64(i)))
		}
		for _, f := range data {
			out = append(out, math.Float64bits(f))
		}
	}
	switch m := v.(type) {
	case nil:
	case *mat.Dense:
		rm := m.RawMatrix()
		add([]int{rm.Rows, rm.Cols, rm.Stride, len(rm.Data)}, rm.Data)
	case *mat.VecDense:
		rv := m.RawVector()
		add([]int{rv.N, rv.Inc, len(rv.Data)}, rv.Data)
	case *mat.SymDense:
		rs := m.RawSymmetric()
		add([]int{rs.N, rs.Stride, int(rs.Uplo), len(rs.Data)}, rs.Data)
	case *mat.TriDense:
		rt := m.RawTriangular()
		add([]int{rt.N, rt.Stride, int(rt.Uplo), int(rt.Diag), len(rt.Data)}, rt.Data)
	case *mat.BandDense:
		rb := m.RawBand()
		add([]int{rb.Rows, rb.Cols, rb.KL, rb.KU, rb.Stride, len(rb.Data)}, rb.Data)
	case *mat.SymBandDense:
		rb := m.RawSymBand()
		add([]int{rb.N, rb.K, rb.Stride, len(rb.Data)}, rb.Data)
	case *mat.TriBandDense:
		rb := m.RawTriBand()
		add([]int{rb.N, rb.K, rb.Stride, len(rb.Data)}, rb.Data)
	case *mat.DiagDense:
		rb := m.RawBand()
		add([]int{rb.Rows, rb.Cols, len(rb.Data)}, rb.Data)
	case *mat.Tridiag:
		rt := m.RawTridiagonal()
		add([]int{rt.N, len(rt.DL), len(rt.D), len(rt.DU)}, rt.DL)
		add(nil, rt.D)
		add(nil, rt.DU)
	case *mat.CDense:
		rc := m.RawCMatrix()
		out = append(out, uint64(rc.Rows), uint64(rc.Cols), uint64(rc.Stride))
		for _, z := range rc.Data {
			out = append(out, math.Float64bits(real(z)), math.Float64bits(imag(z)))
		}
	default:
		panic(fmt.Sprintf("c07: matState: unsupported %T", v))
	}
	return out
}

func sameState(a, b []uint64) bool {
	if len(a) != len(b) {
		return false
	}
	for i := range a {
		if a[i] != b[i] {
			return false
		}
	}
	return true
}

// off returns n when ok, n+1 otherwise (a one-off shape perturbation).
func off(n int, bad bool) int {
	if bad {
		return n + 1
	}
	return n
}

func matCases() []matCase {
	var cs []matCase
	add := func(op, fault string, mk func(r *vrt.Rand, bad bool) (func(), any)) {
		cs = append(cs, matCase{op, fault, mk})
	}

	// ---- constructors --------------------------------------------------------
	type ctor struct {
		name string
		// call with dims (a, b) and a data length delta relative to the
		// required length (math.MinInt: nil data)
		f func(a, b, delta int)
	}
	data := func(n, delta int) []float64 {
		if delta == math.MinInt {
			return nil
		}
		return make([]float64, max(0, n+delta))
	}
	ctors := []ctor{
		{"NewDense", func(a, b, d int) { mat.NewDense(a, b, data(a*b, d)) }},
		{"NewVecDense", func(a, b, d int) { mat.NewVecDense(a, data(a, d)) }},
		{"NewSymDense", func(a, b, d int) { mat.NewSymDense(a, data(a*a, d)) }},
		{"NewTriDense", func(a, b, d int) { mat.NewTriDense(a, mat.Upper, data(a*a, d)) }},
		{"NewDiagDense", func(a, b, d int) { mat.NewDiagDense(a, data(a, d)) }},
		{"NewCDense", func(a, b, d int) {
			var z []complex128
			if d != math.MinInt {
				z = make([]complex128, max(0, a*b+d))
			}
			mat.NewCDense(a, b, z)
		}},
		{"NewBandDense", func(a, b, d int) { mat.NewBandDense(a, b, 0, 0, data(min(a, b), d)) }},
		{"NewSymBandDense", func(a, b, d int) { mat.NewSymBandDense(a, 0, data(a, d)) }},
		{"NewTriBandDense", func(a, b, d int) { mat.NewTriBandDense(a, 0, mat.Upper, data(a, d)) }},
		{"NewDiagonalRect", func(a, b, d int) { mat.NewDiagonalRect(a, b, data(min(a, b), d)) }},
	}
	for _, ct := range ctors {
		ct := ct
		add(ct.name, "negative-dimension", func(r *vrt.Rand, bad bool) (func(), any) {
			a, b := dim(r), dim(r)
			if bad {
				if r.Bool() {
					a = -a
				} else if ct.name == "NewDense" || ct.name == "NewCDense" || ct.name == "NewBandDense" || ct.name == "NewDiagonalRect" {
					b = -b
				} else {
					a = -a
				}
			}
			return func() { ct.f(a, b, math.MinInt) }, nil
		})
		add(ct.name, "data-length", func(r *vrt.Rand, bad bool) (func(), any) {
			a, b := dim(r), dim(r)
			d := 0
			if bad {
				d = []int{-1, 1}[r.Intn(2)]
			}
			return func() { ct.f(a, b, d) }, nil
		})
	}
	add("NewBandDense", "bandwidth-out-of-range", func(r *vrt.Rand, bad bool) (func(), any) {
		m, n := dim(r), dim(r)
		kl, ku := r.Intn(m), r.Intn(n)
		if bad {
			if r.Bool() {
				kl = m + 1
			} else {
				ku = n + 1
			}
		}
		return func() { mat.NewBandDense(m, n, kl, ku, nil) }, nil
	})
	add("NewTridiag", "data-length", func(r *vrt.Rand, bad bool) (func(), any) {
		n := 1 + dim(r)
		dl, d, du := make([]float64, n-1), make([]float64, n), make([]float64, n-1)
		if bad {
			switch r.Intn(3) {
			case 0:
				dl = make([]float64, n)
			case 1:
				d = make([]float64, n-1)
			case 2:
				du = make([]float64, n-2)
			}
		}
		return func() { mat.NewTridiag(n, dl, d, du) }, nil
	})
	add("NewTridiag", "negative-dimension", func(r *vrt.Rand, bad bool) (func(), any) {
		n := dim(r)
		if bad {
			n = -n
		}
		return func() { mat.NewTridiag(n, nil, nil, nil) }, nil
	})

	// ---- element access --------------------------------------------------------
	// idx draws an index pair; bad moves exactly one coordinate out of range.
	idx := func(r *vrt.Rand, rows, cols int, bad bool) (int, int) {
		i, j := r.Intn(rows), r.Intn(cols)
		if bad {
			switch r.Intn(4) {
			case 0:
				i = -1
			case 1:
				i = rows
			case 2:
				j = -1
			case 3:
				j = cols
			}
		}
		return i, j
	}
	add("Dense.At", "index-out-of-range", func(r *vrt.Rand, bad bool) (func(), any) {
		m := rview(r, dim(r), dim(r))
		rr, cc := m.Dims()
		i, j := idx(r, rr, cc, bad)
		return func() { m.At(i, j) }, m
	})
	add("Dense.Set", "index-out-of-range", func(r *vrt.Rand, bad bool) (func(), any) {
		m := rview(r, dim(r), dim(r))
		rr, cc := m.Dims()
		i, j := idx(r, rr, cc, bad)
		return func() { m.Set(i, j, 7) }, m
	})
	add("CDense.At", "index-out-of-range", func(r *vrt.Rand, bad bool) (func(), any) {
		m := mat.NewCDense(dim(r), dim(r), nil)
		rr, cc := m.Dims()
		i, j := idx(r, rr, cc, bad)
		return func() { m.At(i, j) }, m
	})
	add("CDense.Set", "index-out-of-range", func(r *vrt.Rand, bad bool) (func(), any) {
		m := mat.NewCDense(dim(r), dim(r), nil)
		rr, cc := m.Dims()
		i, j := idx(r, rr, cc, bad)
		return func() { m.Set(i, j, 7i) }, m
	})
	add("VecDense.AtVec", "index-out-of-range", func(r *vrt.Rand, bad bool) (func(), any) {
		v := rvec(r, dim(r))
		i, _ := idx(r, v.Len(), 1, false)
		if bad {
			i = []int{-1, v.Len()}[r.Intn(2)]
		}
		return func() { v.AtVec(i) }, v
	})
	add("VecDense.SetVec", "index-out-of-range", func(r *vrt.Rand, bad bool) (func(), any) {
		v := rvec(r, dim(r))
		i := r.Intn(v.Len())
		if bad {
			i = []int{-1, v.Len()}[r.Intn(2)]
		}
		return func() { v.SetVec(i, 7) }, v
	})
	add("VecDense.At", "index-out-of-range", func(r *vrt.Rand, bad bool) (func(), any) {
		v := rvec(r, dim(r))
		i, j := idx(r, v.Len(), 1, bad)
		return func() { v.At(i, j) }, v
	})
	add("SymDense.At", "index-out-of-range", func(r *vrt.Rand, bad bool) (func(), any) {
		s := rsym(r, dim(r))
		n := s.SymmetricDim()
		i, j := idx(r, n, n, bad)
		return func() { s.At(i, j) }, s
	})
	add("SymDense.SetSym", "index-out-of-range", func(r *vrt.Rand, bad bool) (func(), any) {
		s := rsym(r, dim(r))
		n := s.SymmetricDim()
		i, j := idx(r, n, n, bad)
		return func() { s.SetSym(i, j, 7) }, s
	})
	add("TriDense.At", "index-out-of-range", func(r *vrt.Rand, bad bool) (func(), any) {
		t := rtri(r, dim(r), mat.Upper)
		n, _ := t.Triangle()
		i, j := idx(r, n, n, bad)
		return func() { t.At(i, j) }, t
	})
	add("TriDense.SetTri", "index-out-of-range", func(r *vrt.Rand, bad bool) (func(), any) {
		kind := []mat.TriKind{mat.Upper, mat.Lower}[r.Intn(2)]
		t := rtri(r, dim(r), kind)
		n, _ := t.Triangle()
		i, j := idx(r, n, n, bad)
		if !bad && ((kind == mat.Upper && i > j) || (kind == mat.Lower && i < j)) {
			i, j = j, i
		}
		return func() { t.SetTri(i, j, 7) }, t
	})
	add("TriDense.SetTri", "wrong-triangle", func(r *vrt.Rand, bad bool) (func(), any) {
		n := 1 + dim(r)
		t := rtri(r, n, mat.Upper)
		i, j := 0, n-1
		if bad {
			i, j = n-1, 0
		}
		return func() { t.SetTri(i, j, 7) }, t
	})
	add("BandDense.At", "index-out-of-range", func(r *vrt.Rand, bad bool) (func(), any) {
		m, n := 1+dim(r), 1+dim(r)
		b := mat.NewBandDense(m, n, 1, 1, nil)
		i, j := idx(r, m, n, bad)
		return func() { b.At(i, j) }, b
	})
	add("BandDense.SetBand", "index-out-of-range", func(r *vrt.Rand, bad bool) (func(), any) {
		m, n := 1+dim(r), 1+dim(r)
		b := mat.NewBandDense(m, n, 1, 1, nil)
		i := r.Intn(min(m, n))
		j := i
		if bad {
			switch r.Intn(4) {
			case 0:
				i = -1
			case 1:
				i = m
			case 2:
				j = -1
			case 3:
				j = n
			}
		}
		return func() { b.SetBand(i, j, 7) }, b
	})
	add("BandDense.SetBand", "outside-band", func(r *vrt.Rand, bad bool) (func(), any) {
		n := 3 + dim(r)
		b := mat.NewBandDense(n, n, 1, 1, nil)
		i, j := 1, 2
		if bad {
			i, j = 0, n-1
		}
		return func() { b.SetBand(i, j, 7) }, b
	})
	add("SymBandDense.At", "index-out-of-range", func(r *vrt.Rand, bad bool) (func(), any) {
		n := 1 + dim(r)
		b := mat.NewSymBandDense(n, 1, nil)
		i, j := idx(r, n, n, bad)
		return func() { b.At(i, j) }, b
	})
	add("SymBandDense.SetSymBand", "index-out-of-range", func(r *vrt.Rand, bad bool) (func(), any) {
		n := 1 + dim(r)
		b := mat.NewSymBandDense(n, 1, nil)
		i := r.Intn(n)
		j := i
		if bad {
			if r.Bool() {
				i = []int{-1, n}[r.Intn(2)]
			} else {
				j = []int{-1, n}[r.Intn(2)]
			}
		}
		return func() { b.SetSymBand(i, j, 7) }, b
	})
	add("TriBandDense.At", "index-out-of-range", func(r *vrt.Rand, bad bool) (func(), any) {
		n := 1 + dim(r)
		b := mat.NewTriBandDense(n, 1, mat.Upper, nil)
		i, j := idx(r, n, n, bad)
		return func() { b.At(i, j) }, b
	})
	add("TriBandDense.SetTriBand", "index-out-of-range", func(r *vrt.Rand, bad bool) (func(), any) {
		n := 1 + dim(r)
		b := mat.NewTriBandDense(n, 1, mat.Upper, nil)
		i := r.Intn(n)
		j := i
		if bad {
			if r.Bool() {
				i = []int{-1, n}[r.Intn(2)]
			} else {
				j = []int{-1, n}[r.Intn(2)]
			}
		}
		return func() { b.SetTriBand(i, j, 7) }, b
	})
	add("DiagDense.At", "index-out-of-range", func(r *vrt.Rand, bad bool) (func(), any) {
		n := dim(r)
		d := mat.NewDiagDense(n, nil)
		i, j := idx(r, n, n, bad)
		return func() { d.At(i, j) }, d
	})
	add("DiagDense.SetDiag", "index-out-of-range", func(r *vrt.Rand, bad bool) (func(), any) {
		n := dim(r)
		d := mat.NewDiagDense(n, nil)
		i := r.Intn(n)
		if bad {
			i = []int{-1, n}[r.Intn(2)]
		}
		return func() { d.SetDiag(i, 7) }, d
	})
	add("Tridiag.At", "index-out-of-range", func(r *vrt.Rand, bad bool) (func(), any) {
		n := 1 + dim(r)
		t := mat.NewTridiag(n, nil, nil, nil)
		i, j := idx(r, n, n, bad)
		return func() { t.At(i, j) }, t
	})
	add("Tridiag.SetBand", "index-out-of-range", func(r *vrt.Rand, bad bool) (func(), any) {
		n := 1 + dim(r)
		t := mat.NewTridiag(n, nil, nil, nil)
		i := r.Intn(n)
		j := i
		if bad {
			if r.Bool() {
				i = []int{-1, n}[r.Intn(2)]
			} else {
				j = []int{-1, n}[r.Intn(2)]
			}
		}
		return func() { t.SetBand(i, j, 7) }, t
	})

	// ---- views, rows, columns ----------------------------------------------------
	one := func(r *vrt.Rand, n int, bad bool) int {
		if bad {
			return []int{-1, n}[r.Intn(2)]
		}
		return r.Intn(n)
	}
	add("Dense.RowView", "index-out-of-range", func(r *vrt.Rand, bad bool) (func(), any) {
		m := rview(r, dim(r), dim(r))
		rr, _ := m.Dims()
		i := one(r, rr, bad)
		return func() { m.RowView(i) }, m
	})
	add("Dense.ColView", "index-out-of-range", func(r *vrt.Rand, bad bool) (func(), any) {
		m := rview(r, dim(r), dim(r))
		_, cc := m.Dims()
		j := one(r, cc, bad)
		return func() { m.ColView(j) }, m
	})
	add("Dense.RawRowView", "index-out-of-range", func(r *vrt.Rand, bad bool) (func(), any) {
		m := rview(r, dim(r), dim(r))
		rr, _ := m.Dims()
		i := one(r, rr, bad)
		return func() { m.RawRowView(i) }, m
	})
	add("Dense.SetRow", "index-out-of-range", func(r *vrt.Rand, bad bool) (func(), any) {
		m := rview(r, dim(r), dim(r))
		rr, cc := m.Dims()
		i := one(r, rr, bad)
		return func() { m.SetRow(i, make([]float64, cc)) }, m
	})
	add("Dense.SetRow", "source-length", func(r *vrt.Rand, bad bool) (func(), any) {
		m := rview(r, dim(r), dim(r))
		rr, cc := m.Dims()
		i := r.Intn(rr)
		l := cc
		if bad {
			l += []int{-1, 1}[r.Intn(2)]
		}
		return func() { m.SetRow(i, make([]float64, l)) }, m
	})
	add("Dense.SetCol", "index-out-of-range", func(r *vrt.Rand, bad bool) (func(), any) {
		m := rview(r, dim(r), dim(r))
		rr, cc := m.Dims()
		j := one(r, cc, bad)
		return func() { m.SetCol(j, make([]float64, rr)) }, m
	})
	add("Dense.SetCol", "source-length", func(r *vrt.Rand, bad bool) (func(), any) {
		m := rview(r, dim(r), dim(r))
		rr, cc := m.Dims()
		j := r.Intn(cc)
		l := rr
		if bad {
			l += []int{-1, 1}[r.Intn(2)]
		}
		return func() { m.SetCol(j, make([]float64, l)) }, m
	})
	add("Dense.Slice", "index-out-of-range", func(r *vrt.Rand, bad bool) (func(), any) {
		m := rdense(r, 1+dim(r), 1+dim(r))
		rr, cc := m.Dims()
		i, k, j, l := 0, rr, 0, cc
		if bad {
			switch r.Intn(4) {
			case 0:
				i = -1
			case 1:
				k = rr + 1
			case 2:
				j = -1
			case 3:
				l = cc + 1
			}
		}
		return func() { m.Slice(i, k, j, l) }, m
	})
	add("Dense.Grow", "negative-dimension", func(r *vrt.Rand, bad bool) (func(), any) {
		m := rdense(r, dim(r), dim(r))
		a, b := r.Intn(3), r.Intn(3)
		if bad {
			if r.Bool() {
				a = -1
			} else {
				b = -1
			}
		}
		return func() { m.Grow(a, b) }, m
	})
	add("VecDense.SliceVec", "index-out-of-range", func(r *vrt.Rand, bad bool) (func(), any) {
		v := rvec(r, 1+dim(r))
		i, k := 0, v.Len()
		if bad {
			if r.Bool() {
				i = -1
			} else {
				k = v.Len() + 1
			}
		}
		return func() { v.SliceVec(i, k) }, v
	})
	add("SymDense.SliceSym", "index-out-of-range", func(r *vrt.Rand, bad bool) (func(), any) {
		s := rsym(r, 1+dim(r))
		i, k := 0, s.SymmetricDim()
		if bad {
			if r.Bool() {
				i = -1
			} else {
				k++
			}
		}
		return func() { s.SliceSym(i, k) }, s
	})
	add("TriDense.SliceTri", "index-out-of-range", func(r *vrt.Rand, bad bool) (func(), any) {
		t := rtri(r, 1+dim(r), mat.Upper)
		n, _ := t.Triangle()
		i, k := 0, n
		if bad {
			if r.Bool() {
				i = -1
			} else {
				k++
			}
		}
		return func() { t.SliceTri(i, k) }, t
	})
	add("mat.Row", "index-out-of-range", func(r *vrt.Rand, bad bool) (func(), any) {
		m := rdense(r, dim(r), dim(r))
		rr, _ := m.Dims()
		i := one(r, rr, bad)
		return func() { mat.Row(nil, i, m) }, m
	})
	add("mat.Col", "destination-length", func(r *vrt.Rand, bad bool) (func(), any) {
		m := rdense(r, dim(r), dim(r))
		rr, cc := m.Dims()
		return func() { mat.Col(make([]float64, off(rr, bad)), r.Intn(cc), m) }, m
	})
	add("VecDense.ColViewOf", "index-out-of-range", func(r *vrt.Rand, bad bool) (func(), any) {
		m := rdense(r, dim(r), dim(r))
		_, cc := m.Dims()
		j := one(r, cc, bad)
		var v mat.VecDense
		return func() { v.ColViewOf(m, j) }, m
	})

	// ---- Dense arithmetic -------------------------------------------------------
	type bin func(m *mat.Dense, a, b mat.Matrix)
	for name, f := range map[string]bin{
		"Dense.Add":     func(m *mat.Dense, a, b mat.Matrix) { m.Add(a, b) },
		"Dense.Sub":     func(m *mat.Dense, a, b mat.Matrix) { m.Sub(a, b) },
		"Dense.MulElem": func(m *mat.Dense, a, b mat.Matrix) { m.MulElem(a, b) },
		"Dense.DivElem": func(m *mat.Dense, a, b mat.Matrix) { m.DivElem(a, b) },
	} {
		f := f
		add(name, "operand-shape-mismatch", func(r *vrt.Rand, bad bool) (func(), any) {
			p, q := dim(r), dim(r)
			m := rview(r, p, q)
			a := rdense(r, p, q)
			var b mat.Matrix
			if r.Bool() {
				b = rdense(r, off(p, bad), q)
			} else {
				b = rdense(r, q, off(p, bad)).T()
			}
			return func() { f(m, a, b) }, m
		})
		add(name, "receiver-shape-mismatch", func(r *vrt.Rand, bad bool) (func(), any) {
			p, q := dim(r), dim(r)
			m := rview(r, p, off(q, bad))
			a, b := rdense(r, p, q), rdense(r, p, q)
			return func() { f(m, a, b) }, m
		})
	}
	add("Dense.Mul", "inner-dimension-mismatch", func(r *vrt.Rand, bad bool) (func(), any) {
		p, q, k := dim(r), dim(r), dim(r)
		m := rview(r, p, q)
		a := rdense(r, p, k)
		var b mat.Matrix = rdense(r, off(k, bad), q)
		if r.Bool() {
			b = rdense(r, q, off(k, bad)).T()
		}
		return func() { m.Mul(a, b) }, m
	})
	add("Dense.Mul", "receiver-shape-mismatch", func(r *vrt.Rand, bad bool) (func(), any) {
		p, q, k := dim(r), dim(r), dim(r)
		m := rview(r, off(p, bad), q)
		a, b := rdense(r, p, k), rdense(r, k, q)
		return func() { m.Mul(a, b) }, m
	})
	add("Dense.Product", "inner-dimension-mismatch", func(r *vrt.Rand, bad bool) (func(), any) {
		p, q, k, l := dim(r), dim(r), dim(r), dim(r)
		var m mat.Dense
		a, b, c := rdense(r, p, k), rdense(r, k, l), rdense(r, off(l, bad), q)
		return func() { m.Product(a, b, c) }, &m
	})
	add("Dense.Scale", "receiver-shape-mismatch", func(r *vrt.Rand, bad bool) (func(), any) {
		p, q := dim(r), dim(r)
		m := rview(r, p, off(q, bad))
		a := rdense(r, p, q)
		return func() { m.Scale(0.5, a) }, m
	})
	add("Dense.Apply", "receiver-shape-mismatch", func(r *vrt.Rand, bad bool) (func(), any) {
		p, q := dim(r), dim(r)
		m := rview(r, off(p, bad), q)
		a := rdense(r, p, q)
		return func() { m.Apply(func(i, j int, v float64) float64 { return v + 1 }, a) }, m
	})
	add("Dense.Stack", "column-mismatch", func(r *vrt.Rand, bad bool) (func(), any) {
		p, q, k := dim(r), dim(r), dim(r)
		var m mat.Dense
		a, b := rdense(r, p, q), rdense(r, k, off(q, bad))
		return func() { m.Stack(a, b) }, &m
	})
	add("Dense.Augment", "row-mismatch", func(r *vrt.Rand, bad bool) (func(), any) {
		p, q, k := dim(r), dim(r), dim(r)
		var m mat.Dense
		a, b := rdense(r, p, q), rdense(r, off(p, bad), k)
		return func() { m.Augment(a, b) }, &m
	})
	add("Dense.Kronecker", "receiver-shape-mismatch", func(r *vrt.Rand, bad bool) (func(), any) {
		p, q, k, l := 1+r.Intn(3), 1+r.Intn(3), 1+r.Intn(3), 1+r.Intn(3)
		m := rview(r, p*k, off(q*l, bad))
		a, b := rdense(r, p, q), rdense(r, k, l)
		return func() { m.Kronecker(a, b) }, m
	})
	add("Dense.RankOne", "vector-length-mismatch", func(r *vrt.Rand, bad bool) (func(), any) {
		p, q := dim(r), dim(r)
		m := rview(r, p, q)
		a := rdense(r, p, q)
		x, y := rvec(r, p), rvec(r, q)
		if bad {
			if r.Bool() {
				x = rvec(r, p+1)
			} else {
				y = rvec(r, q+1)
			}
		}
		return func() { m.RankOne(a, 0.5, x, y) }, m
	})
	add("Dense.Outer", "receiver-shape-mismatch", func(r *vrt.Rand, bad bool) (func(), any) {
		p, q := dim(r), dim(r)
		m := rview(r, p, off(q, bad))
		x, y := rvec(r, p), rvec(r, q)
		return func() { m.Outer(0.5, x, y) }, m
	})
	add("Dense.Inverse", "non-square", func(r *vrt.Rand, bad bool) (func(), any) {
		n := dim(r)
		var m mat.Dense
		a := rdense(r, n, off(n, bad))
		for i := 0; i < n; i++ {
			a.Set(i, i, 3+a.At(i, i))
		}
		return func() { _ = m.Inverse(a) }, &m
	})
	add("Dense.Exp", "non-square", func(r *vrt.Rand, bad bool) (func(), any) {
		n := dim(r)
		var m mat.Dense
		a := rdense(r, n, off(n, bad))
		return func() { m.Exp(a) }, &m
	})
	add("Dense.Pow", "non-square", func(r *vrt.Rand, bad bool) (func(), any) {
		n := dim(r)
		var m mat.Dense
		a := rdense(r, off(n, bad), n)
		return func() { m.Pow(a, 3) }, &m
	})
	add("Dense.Pow", "negative-exponent", func(r *vrt.Rand, bad bool) (func(), any) {
		n := dim(r)
		var m mat.Dense
		a := rdense(r, n, n)
		e := 2
		if bad {
			e = -1
		}
		return func() { m.Pow(a, e) }, &m
	})
	add("Dense.Permutation", "length-mismatch", func(r *vrt.Rand, bad bool) (func(), any) {
		n := dim(r)
		var m mat.Dense
		p := r.Perm(off(n, bad))
		return func() { m.Permutation(n, p) }, &m
	})
	add("Dense.Permutation", "malformed-permutation", func(r *vrt.Rand, bad bool) (func(), any) {
		n := 1 + dim(r)
		var m mat.Dense
		p := r.Perm(n)
		if bad {
			p[0] = n
		}
		return func() { m.Permutation(n, p) }, &m
	})
	add("Dense.PermuteRows", "length-mismatch", func(r *vrt.Rand, bad bool) (func(), any) {
		p, q := dim(r), dim(r)
		m := rview(r, p, q)
		perm := r.Perm(off(p, bad))
		return func() { m.PermuteRows(perm, false) }, m
	})
	add("Dense.PermuteCols", "length-mismatch", func(r *vrt.Rand, bad bool) (func(), any) {
		p, q := dim(r), dim(r)
		m := rview(r, p, q)
		perm := r.Perm(off(q, bad))
		return func() { m.PermuteCols(perm, true) }, m
	})
	add("Dense.ReuseAs", "non-empty-receiver", func(r *vrt.Rand, bad bool) (func(), any) {
		m := rdense(r, dim(r), dim(r))
		if !bad {
			m.Reset()
		}
		return func() { m.ReuseAs(dim(r), dim(r)) }, nilIf(!bad, m)
	})
	add("Dense.ReuseAs", "zero-dimension", func(r *vrt.Rand, bad bool) (func(), any) {
		var m mat.Dense
		a := dim(r)
		if bad {
			a = 0
		}
		return func() { m.ReuseAs(a, dim(r)) }, nil
	})
	add("Dense.Solve", "row-mismatch", func(r *vrt.Rand, bad bool) (func(), any) {
		n, k := dim(r), dim(r)
		var m mat.Dense
		a := rdense(r, n, n)
		for i := 0; i < n; i++ {
			a.Set(i, i, 4+a.At(i, i))
		}
		b := rdense(r, off(n, bad), k)
		return func() { _ = m.Solve(a, b) }, &m
	})
	add("Dense.Trace", "non-square", func(r *vrt.Rand, bad bool) (func(), any) {
		n := dim(r)
		m := rdense(r, n, off(n, bad))
		return func() { m.Trace() }, m
	})
	add("Dense.Norm", "invalid-norm-order", func(r *vrt.Rand, bad bool) (func(), any) {
		m := rdense(r, dim(r), dim(r))
		o := []float64{1, 2, math.Inf(1)}[r.Intn(3)]
		if bad {
			o = 3
		}
		return func() { m.Norm(o) }, m
	})
	add("mat.Det", "non-square", func(r *vrt.Rand, bad bool) (func(), any) {
		n := dim(r)
		m := rdense(r, n, off(n, bad))
		return func() { mat.Det(m) }, m
	})
	add("mat.Dot", "length-mismatch", func(r *vrt.Rand, bad bool) (func(), any) {
		n := dim(r)
		a, b := rvec(r, n), rvec(r, off(n, bad))
		return func() { mat.Dot(a, b) }, a
	})
	add("mat.Inner", "shape-mismatch", func(r *vrt.Rand, bad bool) (func(), any) {
		p, q := dim(r), dim(r)
		x, a, y := rvec(r, p), rdense(r, p, q), rvec(r, q)
		if bad {
			if r.Bool() {
				x = rvec(r, p+1)
			} else {
				y = rvec(r, q+1)
			}
		}
		return func() { mat.Inner(x, a, y) }, a
	})

	// ---- VecDense ------------------------------------------------------------------
	type vbin func(v *mat.VecDense, a, b mat.Vector)
	for name, f := range map[string]vbin{
		"VecDense.AddVec":       func(v *mat.VecDense, a, b mat.Vector) { v.AddVec(a, b) },
		"VecDense.SubVec":       func(v *mat.VecDense, a, b mat.Vector) { v.SubVec(a, b) },
		"VecDense.MulElemVec":   func(v *mat.VecDense, a, b mat.Vector) { v.MulElemVec(a, b) },
		"VecDense.DivElemVec":   func(v *mat.VecDense, a, b mat.Vector) { v.DivElemVec(a, b) },
		"VecDense.AddScaledVec": func(v *mat.VecDense, a, b mat.Vector) { v.AddScaledVec(a, 0.5, b) },
	} {
		f := f
		add(name, "operand-length-mismatch", func(r *vrt.Rand, bad bool) (func(), any) {
			n := dim(r)
			v := rvec(r, n)
			a, b := rvec(r, n), rvec(r, off(n, bad))
			return func() { f(v, a, b) }, v
		})
		add(name, "receiver-length-mismatch", func(r *vrt.Rand, bad bool) (func(), any) {
			n := dim(r)
			v := rvec(r, off(n, bad))
			a, b := rvec(r, n), rvec(r, n)
			return func() { f(v, a, b) }, v
		})
	}
	add("VecDense.ScaleVec", "receiver-length-mismatch", func(r *vrt.Rand, bad bool) (func(), any) {
		n := dim(r)
		v := rvec(r, off(n, bad))
		a := rvec(r, n)
		return func() { v.ScaleVec(2, a) }, v
	})
	add("VecDense.MulVec", "inner-dimension-mismatch", func(r *vrt.Rand, bad bool) (func(), any) {
		p, q := dim(r), dim(r)
		v := rvec(r, p)
		var a mat.Matrix = rdense(r, p, q)
		if r.Bool() {
			a = rdense(r, q, p).T()
		}
		b := rvec(r, off(q, bad))
		return func() { v.MulVec(a, b) }, v
	})
	add("VecDense.MulVec", "receiver-length-mismatch", func(r *vrt.Rand, bad bool) (func(), any) {
		p, q := dim(r), dim(r)
		v := rvec(r, off(p, bad))
		a, b := rdense(r, p, q), rvec(r, q)
		return func() { v.MulVec(a, b) }, v
	})
	add("VecDense.ReuseAsVec", "negative-length", func(r *vrt.Rand, bad bool) (func(), any) {
		var v mat.VecDense
		n := dim(r)
		if bad {
			n = -n
		}
		return func() { v.ReuseAsVec(n) }, nil
	})
	add("VecDense.SolveVec", "row-mismatch", func(r *vrt.Rand, bad bool) (func(), any) {
		n := dim(r)
		var v mat.VecDense
		a := rdense(r, n, n)
		for i := 0; i < n; i++ {
			a.Set(i, i, 4+a.At(i, i))
		}
		b := rvec(r, off(n, bad))
		return func() { _ = v.SolveVec(a, b) }, nil
	})
	add("VecDense.Permute", "length-mismatch", func(r *vrt.Rand, bad bool) (func(), any) {
		n := dim(r)
		v := rvec(r, n)
		p := r.Perm(off(n, bad))
		return func() { v.Permute(p, false) }, v
	})

	// ---- SymDense, TriDense -----------------------------------------------------------
	add("SymDense.AddSym", "operand-shape-mismatch", func(r *vrt.Rand, bad bool) (func(), any) {
		n := dim(r)
		s := rsym(r, n)
		a, b := rsym(r, n), rsym(r, off(n, bad))
		return func() { s.AddSym(a, b) }, s
	})
	add("SymDense.AddSym", "receiver-shape-mismatch", func(r *vrt.Rand, bad bool) (func(), any) {
		n := dim(r)
		s := rsym(r, off(n, bad))
		a, b := rsym(r, n), rsym(r, n)
		return func() { s.AddSym(a, b) }, s
	})
	add("SymDense.SymRankOne", "vector-length-mismatch", func(r *vrt.Rand, bad bool) (func(), any) {
		n := dim(r)
		s := rsym(r, n)
		a, x := rsym(r, n), rvec(r, off(n, bad))
		return func() { s.SymRankOne(a, 0.5, x) }, s
	})
	add("SymDense.SymRankK", "row-mismatch", func(r *vrt.Rand, bad bool) (func(), any) {
		n, k := dim(r), dim(r)
		s := rsym(r, n)
		a, x := rsym(r, n), rdense(r, off(n, bad), k)
		return func() { s.SymRankK(a, 0.5, x) }, s
	})
	add("SymDense.SymOuterK", "receiver-shape-mismatch", func(r *vrt.Rand, bad bool) (func(), any) {
		n, k := dim(r), dim(r)
		s := rsym(r, off(n, bad))
		x := rdense(r, n, k)
		return func() { s.SymOuterK(0.5, x) }, s
	})
	add("SymDense.RankTwo", "vector-length-mismatch", func(r *vrt.Rand, bad bool) (func(), any) {
		n := dim(r)
		s := rsym(r, n)
		a, x, y := rsym(r, n), rvec(r, n), rvec(r, off(n, bad))
		return func() { s.RankTwo(a, 0.5, x, y) }, s
	})
	add("SymDense.ScaleSym", "receiver-shape-mismatch", func(r *vrt.Rand, bad bool) (func(), any) {
		n := dim(r)
		s := rsym(r, off(n, bad))
		a := rsym(r, n)
		return func() { s.ScaleSym(2, a) }, s
	})
	add("SymDense.SubsetSym", "index-out-of-range", func(r *vrt.Rand, bad bool) (func(), any) {
		n := 1 + dim(r)
		var s mat.SymDense
		a := rsym(r, n)
		set := []int{0, n - 1}
		if bad {
			set[1] = []int{-1, n}[r.Intn(2)]
		}
		return func() { s.SubsetSym(a, set) }, nil
	})
	add("SymDense.ReuseAsSym", "non-empty-receiver", func(r *vrt.Rand, bad bool) (func(), any) {
		s := rsym(r, dim(r))
		if !bad {
			s.Reset()
		}
		return func() { s.ReuseAsSym(dim(r)) }, nilIf(!bad, s)
	})
	add("SymDense.GrowSym", "negative-dimension", func(r *vrt.Rand, bad bool) (func(), any) {
		s := rsym(r, dim(r))
		n := r.Intn(3)
		if bad {
			n = -1
		}
		return func() { s.GrowSym(n) }, s
	})
	add("SymDense.PowPSD", "receiver-shape-mismatch", func(r *vrt.Rand, bad bool) (func(), any) {
		n := dim(r)
		s := rsym(r, off(n, bad))
		a := rsym(r, n)
		return func() { _ = s.PowPSD(a, 0.5) }, s
	})
	add("TriDense.MulTri", "operand-shape-mismatch", func(r *vrt.Rand, bad bool) (func(), any) {
		n := dim(r)
		var t mat.TriDense
		a, b := rtri(r, n, mat.Upper), rtri(r, off(n, bad), mat.Upper)
		return func() { t.MulTri(a, b) }, nil
	})
	add("TriDense.MulTri", "triangle-kind-mismatch", func(r *vrt.Rand, bad bool) (func(), any) {
		n := dim(r)
		var t mat.TriDense
		kb := mat.Upper
		if bad {
			kb = mat.Lower
		}
		a, b := rtri(r, n, mat.Upper), rtri(r, n, kb)
		return func() { t.MulTri(a, b) }, nil
	})
	add("TriDense.ScaleTri", "receiver-shape-mismatch", func(r *vrt.Rand, bad bool) (func(), any) {
		n := dim(r)
		t := rtri(r, off(n, bad), mat.Upper)
		a := rtri(r, n, mat.Upper)
		return func() { t.ScaleTri(2, a) }, t
	})
	add("TriDense.ScaleTri", "triangle-kind-mismatch", func(r *vrt.Rand, bad bool) (func(), any) {
		n := dim(r)
		kb := mat.Upper
		if bad {
			kb = mat.Lower
		}
		t := rtri(r, n, mat.Upper)
		a := rtri(r, n, kb)
		return func() { t.ScaleTri(2, a) }, t
	})
	add("TriDense.InverseTri", "receiver-shape-mismatch", func(r *vrt.Rand, bad bool) (func(), any) {
		n := dim(r)
		t := rtri(r, off(n, bad), mat.Lower)
		a := rtri(r, n, mat.Lower)
		return func() { _ = t.InverseTri(a) }, t
	})
	add("TriDense.ReuseAsTri", "non-empty-receiver", func(r *vrt.Rand, bad bool) (func(), any) {
		t := rtri(r, dim(r), mat.Upper)
		if !bad {
			t.Reset()
		}
		return func() { t.ReuseAsTri(dim(r), mat.Upper) }, nilIf(!bad, t)
	})
	add("TriDense.SolveTo", "row-mismatch", func(r *vrt.Rand, bad bool) (func(), any) {
		n, k := dim(r), dim(r)
		t := rtri(r, n, mat.Upper)
		var dst mat.Dense
		b := rdense(r, off(n, bad), k)
		return func() { _ = t.SolveTo(&dst, r.Bool(), b) }, t
	})

	// ---- factorizations ------------------------------------------------------------------
	add("Cholesky.SolveTo", "row-mismatch", func(r *vrt.Rand, bad bool) (func(), any) {
		n, k := dim(r), dim(r)
		var ch mat.Cholesky
		ch.Factorize(rsym(r, n))
		var dst mat.Dense
		b := rdense(r, off(n, bad), k)
		return func() { _ = ch.SolveTo(&dst, b) }, nil
	})
	add("Cholesky.SolveVecTo", "length-mismatch", func(r *vrt.Rand, bad bool) (func(), any) {
		n := dim(r)
		var ch mat.Cholesky
		ch.Factorize(rsym(r, n))
		var dst mat.VecDense
		b := rvec(r, off(n, bad))
		return func() { _ = ch.SolveVecTo(&dst, b) }, nil
	})
	add("Cholesky.SymRankOne", "vector-length-mismatch", func(r *vrt.Rand, bad bool) (func(), any) {
		n := dim(r)
		var ch, dst mat.Cholesky
		ch.Factorize(rsym(r, n))
		x := rvec(r, off(n, bad))
		return func() { dst.SymRankOne(&ch, 0.5, x) }, nil
	})
	add("Cholesky.ExtendVecSym", "vector-length-mismatch", func(r *vrt.Rand, bad bool) (func(), any) {
		n := dim(r)
		var ch, dst mat.Cholesky
		ch.Factorize(rsym(r, n))
		v := rvec(r, off(n+1, bad))
		v.SetVec(v.Len()-1, 9)
		return func() { dst.ExtendVecSym(&ch, v) }, nil
	})
	add("Cholesky.InverseTo", "receiver-shape-mismatch", func(r *vrt.Rand, bad bool) (func(), any) {
		n := dim(r)
		var ch mat.Cholesky
		ch.Factorize(rsym(r, n))
		dst := rsym(r, off(n, bad))
		return func() { _ = ch.InverseTo(dst) }, dst
	})
	add("Cholesky.ToSym", "receiver-shape-mismatch", func(r *vrt.Rand, bad bool) (func(), any) {
		n := dim(r)
		var ch mat.Cholesky
		ch.Factorize(rsym(r, n))
		dst := rsym(r, off(n, bad))
		return func() { ch.ToSym(dst) }, dst
	})
	add("Cholesky.UTo", "receiver-shape-mismatch", func(r *vrt.Rand, bad bool) (func(), any) {
		n := dim(r)
		var ch mat.Cholesky
		ch.Factorize(rsym(r, n))
		dst := rtri(r, off(n, bad), mat.Upper)
		return func() { ch.UTo(dst) }, dst
	})
	add("LU.Factorize", "non-square", func(r *vrt.Rand, bad bool) (func(), any) {
		n := dim(r)
		var lu mat.LU
		a := rdense(r, n, off(n, bad))
		return func() { lu.Factorize(a) }, a
	})
	add("LU.SolveTo", "row-mismatch", func(r *vrt.Rand, bad bool) (func(), any) {
		n, k := dim(r), dim(r)
		var lu mat.LU
		a := rdense(r, n, n)
		for i := 0; i < n; i++ {
			a.Set(i, i, 4+a.At(i, i))
		}
		lu.Factorize(a)
		var dst mat.Dense
		b := rdense(r, off(n, bad), k)
		return func() { _ = lu.SolveTo(&dst, r.Bool(), b) }, nil
	})
	add("LU.RankOne", "vector-length-mismatch", func(r *vrt.Rand, bad bool) (func(), any) {
		n := dim(r)
		var lu, dst mat.LU
		a := rdense(r, n, n)
		for i := 0; i < n; i++ {
			a.Set(i, i, 4+a.At(i, i))
		}
		lu.Factorize(a)
		x, y := rvec(r, n), rvec(r, off(n, bad))
		return func() { dst.RankOne(&lu, 0.5, x, y) }, nil
	})
	add("QR.Factorize", "more-columns-than-rows", func(r *vrt.Rand, bad bool) (func(), any) {
		n := dim(r)
		var qr mat.QR
		a := rdense(r, n+1, n+1)
		if bad {
			a = rdense(r, n, n+1)
		}
		return func() { qr.Factorize(a) }, a
	})
	add("LQ.Factorize", "more-rows-than-columns", func(r *vrt.Rand, bad bool) (func(), any) {
		n := dim(r)
		var lq mat.LQ
		a := rdense(r, n+1, n+1)
		if bad {
			a = rdense(r, n+1, n)
		}
		return func() { lq.Factorize(a) }, a
	})
	add("QR.SolveTo", "row-mismatch", func(r *vrt.Rand, bad bool) (func(), any) {
		p, q, k := 2+dim(r), 1+r.Intn(2), dim(r)
		var qr mat.QR
		qr.Factorize(rdense(r, p, q))
		var dst mat.Dense
		b := rdense(r, off(p, bad), k)
		return func() { _ = qr.SolveTo(&dst, false, b) }, nil
	})
	add("QR.QTo", "receiver-shape-mismatch", func(r *vrt.Rand, bad bool) (func(), any) {
		p, q := 2+dim(r), 1+r.Intn(2)
		var qr mat.QR
		qr.Factorize(rdense(r, p, q))
		dst := rdense(r, p, off(p, bad))
		return func() { qr.QTo(dst) }, dst
	})
	add("SVD.UTo", "receiver-shape-mismatch", func(r *vrt.Rand, bad bool) (func(), any) {
		p, q := dim(r), dim(r)
		var svd mat.SVD
		svd.Factorize(rdense(r, p, q), mat.SVDThin)
		dst := rdense(r, off(p, bad), min(p, q))
		return func() { svd.UTo(dst) }, dst
	})
	add("SVD.Values", "destination-length", func(r *vrt.Rand, bad bool) (func(), any) {
		p, q := dim(r), dim(r)
		var svd mat.SVD
		svd.Factorize(rdense(r, p, q), mat.SVDNone)
		s := make([]float64, off(min(p, q), bad))
		return func() { svd.Values(s) }, nil
	})
	add("EigenSym.Values", "destination-length", func(r *vrt.Rand, bad bool) (func(), any) {
		n := dim(r)
		var es mat.EigenSym
		es.Factorize(rsym(r, n), true)
		s := make([]float64, off(n, bad))
		return func() { es.Values(s) }, nil
	})
	add("EigenSym.VectorsTo", "receiver-shape-mismatch", func(r *vrt.Rand, bad bool) (func(), any) {
		n := dim(r)
		var es mat.EigenSym
		es.Factorize(rsym(r, n), true)
		dst := rdense(r, n, off(n, bad))
		return func() { es.VectorsTo(dst) }, dst
	})
	add("Eigen.Factorize", "non-square", func(r *vrt.Rand, bad bool) (func(), any) {
		n := dim(r)
		var e mat.Eigen
		a := rdense(r, n, off(n, bad))
		return func() { e.Factorize(a, mat.EigenRight) }, a
	})

	// ---- band, raw setters -----------------------------------------------------------------
	add("BandDense.MulVecTo", "vector-length-mismatch", func(r *vrt.Rand, bad bool) (func(), any) {
		m, n := 1+dim(r), 1+dim(r)
		b := mat.NewBandDense(m, n, 1, 1, nil)
		var dst mat.VecDense
		x := rvec(r, off(n, bad))
		return func() { b.MulVecTo(&dst, false, x) }, b
	})
	add("SymBandDense.MulVecTo", "vector-length-mismatch", func(r *vrt.Rand, bad bool) (func(), any) {
		n := 1 + dim(r)
		b := mat.NewSymBandDense(n, 1, nil)
		var dst mat.VecDense
		x := rvec(r, off(n, bad))
		return func() { b.MulVecTo(&dst, false, x) }, b
	})
	add("Tridiag.MulVecTo", "vector-length-mismatch", func(r *vrt.Rand, bad bool) (func(), any) {
		n := 1 + dim(r)
		t := mat.NewTridiag(n, nil, nil, nil)
		var dst mat.VecDense
		x := rvec(r, off(n, bad))
		return func() { t.MulVecTo(&dst, r.Bool(), x) }, t
	})
	add("SymBandDense.SetRawSymBand", "lower-storage", func(r *vrt.Rand, bad bool) (func(), any) {
		n := 1 + dim(r)
		b := mat.NewSymBandDense(n, 1, nil)
		raw := b.RawSymBand()
		if bad {
			raw.Uplo = 122 // blas.Lower
		}
		return func() { b.SetRawSymBand(raw) }, b
	})
	add("DiagDense.DiagFrom", "receiver-length-mismatch", func(r *vrt.Rand, bad bool) (func(), any) {
		n := dim(r)
		d := mat.NewDiagDense(off(n, bad), nil)
		m := rdense(r, n, n)
		return func() { d.DiagFrom(m) }, d
	})
	_ = blas64.General{}
	return cs
}

func nilIf(c bool, v any) any {
	if c {
		return nil
	}
	return v
}

// matPanicOK reports whether the panic value is one of mat's own errors.
func matPanicOK(p *vrt.PanicInfo) (class string, ok bool) {
	switch v := p.Value.(type) {
	case mat.Error:
		return "mat.Error", true
	case mat.ErrorStack:
		return "mat.ErrorStack", true
	case string:
		if strings.HasPrefix(v, "mat:") {
			return "mat-string", true
		}
		return "foreign-string-panic", false
	}
	switch {
	case p.Fault:
		return "memory-fault", false
	case p.Runtime:
		return "runtime-error", false
	}
	return "non-mat-panic", false
}

func runMat(c *vrt.Ctx) {
	cs := matCases()
	reps := c.Pick(60, 600)
	if *lite {
		reps = 25
	}
	var calls, rejected atomic.Int64
	classes := map[string]bool{}
	for _, k := range cs {
		classes[k.op] = true
	}
	vrt.Parallel(len(cs), func(ci int) {
		k := cs[ci]
		for rep := 0; rep < reps; rep++ {
			for _, bad := range []bool{false, true} {
				b := 0
				if bad {
					b = 1
				}
				r := c.RNG("mat", ci, rep, b)
				call, recv := k.mk(r, bad)
				before := matState(recv)
				c.LastCase(fmt.Sprintf("mat %s %s bad=%v rep=%d", k.op, k.fault, bad, rep))
				p := vrt.Try(call)
				calls.Add(1)
				form := "valid"
				if bad {
					form = k.fault
				}
				c.Eval("mat."+k.op+"|"+form, true)
				if !bad {
					if p != nil {
						cls, _ := matPanicOK(p)
						c.Violation(fmt.Sprintf("mat.%s|valid-arguments(%s unperturbed)|panic:%s", k.op, k.fault, cls),
							fmt.Sprintf("%s with conforming arguments panicked: %s\n%s", k.op, p.Msg, p.Stack), nil)
					}
					continue
				}
				rejected.Add(1)
				if p != nil {
					sampMat.offer(c, 1, func() any {
						return map[string]any{"sub_check": "mat", "operation": k.op, "perturbation": k.fault, "outcome": fmt.Sprintf("panic %T: %s", p.Value, p.Msg),
							"receiver_unchanged": sameState(before, matState(recv))}
					})
				}
				if p == nil {
					c.Violation(fmt.Sprintf("mat.%s|%s|returned-normally", k.op, k.fault),
						fmt.Sprintf("%s: perturbation %q was accepted (rep %d)", k.op, k.fault, rep), nil)
					continue
				}
				if cls, ok := matPanicOK(p); !ok {
					c.Violation(fmt.Sprintf("mat.%s|%s|panic:%s", k.op, k.fault, cls),
						fmt.Sprintf("%s: perturbation %q: expected a mat.Error, got %T: %s\n%s", k.op, k.fault, p.Value, p.Msg, p.Stack), nil)
				}
				if !sameState(before, matState(recv)) {
					c.Violation(fmt.Sprintf("mat.%s|%s|receiver-modified-before-panic", k.op, k.fault),
						fmt.Sprintf("%s: perturbation %q: panicked with %q after changing the receiver (shape, stride or data)", k.op, k.fault, p.Msg), nil)
				}
			}
		}
	})
	c.Count("mat.calls", calls.Load())
	c.Count("mat.perturbed_calls", rejected.Load())
	c.Note("mat.operations_in_table", len(classes))
	c.Note("mat.table_entries", len(cs))
}
