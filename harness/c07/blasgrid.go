package main

import (
	"fmt"
	"reflect"
	"runtime/debug"
	"sort"
	"strings"
	"sync"
	"sync/atomic"

	"gonum.org/v1/gonum/blas"
	blasgonum "gonum.org/v1/gonum/blas/gonum"
	"gonum.org/v1/gonum/verifx/c01/blasmodel"
	"gonum.org/v1/gonum/verifx/vrt"
)

// Sub-check 1: the bounded argument grid of the property statement, per BLAS
// routine. Every tuple of the grid is built from a valid base tuple of the
// C01 signature model (c01/blasmodel) by overwriting flags, dimensions,
// leading dimensions, increments and slice lengths; the documented contract
// (blasmodel's Invalid) says whether the call must return or must panic.

// Grid values of the property statement.
var (
	gridDims   = []int{-1, 0, 1, 2, 3, 5}
	gridLd     = []int{-1, 0, 2} // relative to the minimal legal value
	gridInc    = []int{-2, -1, 0, 1, 2}
	gridLen    = []int{-1, 0, 3} // relative to the required length
	gridRotm   = []blas.Flag{blas.Identity, blas.Rescaling, blas.OffDiagonal, blas.Diagonal, 2}
	dimForNeg  = 2                 // size of the operands when a dimension is -1
	illegalVal = []int{0, 77, 255} // illegal flag bytes (one is picked per routine and seed)
)

type axisKind uint8

const (
	axFlag axisKind = iota
	axDim
	axLd
	axInc
	axLen
	axRotm
)

func (k axisKind) String() string {
	return [...]string{"flag", "dim", "ld", "inc", "len", "rotmflag"}[k]
}

// axis is one coordinate of the grid of a routine.
type axis struct {
	kind  axisKind
	role  blasmodel.Role // flag / dim axes
	op    int            // ld / len axes: operand; inc axes: 0 (x) or 1 (y)
	n     int            // number of grid values
	valid []int          // indices of the values that are legal on their own
	fault []int          // indices of the values that are illegal on their own
}

// gridRoutine is the per-routine static part of the grid.
type gridRoutine struct {
	r      *blasmodel.Routine
	method reflect.Value
	in     []reflect.Type
	axes   []axis
	size   int64 // number of grid points (before the need-1 < 0 exclusion)
	// flag value tables, indexed by axis value index
	transVals []blas.Transpose
	illegal   int
	// wrapMethod is the same method on the adapter built on the wrapper
	// package of the routine's precision (blas64, blas32, cblas128, cblas64).
	wrapMethod reflect.Value
}

var (
	sideVals = []blas.Side{blas.Left, blas.Right}
	uploVals = []blas.Uplo{blas.Upper, blas.Lower}
	diagVals = []blas.Diag{blas.NonUnit, blas.Unit}
	allTrans = []blas.Transpose{blas.NoTrans, blas.Trans, blas.ConjTrans}
)

func newGridRoutine(r *blasmodel.Routine, illegal int) *gridRoutine {
	g := &gridRoutine{r: r, illegal: illegal, transVals: allTrans}
	m, ok := reflect.TypeOf(blasgonum.Implementation{}).MethodByName(r.Name)
	if !ok {
		panic("no method " + r.Name)
	}
	g.method = reflect.ValueOf(blasgonum.Implementation{}).MethodByName(r.Name)
	if w := wrapperImpl(r.Prec); w != nil {
		g.wrapMethod = reflect.ValueOf(w).MethodByName(r.Name)
	}
	for i := 1; i < m.Type.NumIn(); i++ {
		g.in = append(g.in, m.Type.In(i))
	}
	f := r.Fam
	seq := func(n int) []int {
		s := make([]int, n)
		for i := range s {
			s[i] = i
		}
		return s
	}
	// slow axes first: flags, dims, ld, inc; the length axes vary fastest so
	// that consecutive grid points share their base tuple.
	for _, role := range f.Roles {
		switch role {
		case blasmodel.RSide, blasmodel.RUplo, blasmodel.RDiag:
			g.axes = append(g.axes, axis{kind: axFlag, role: role, n: 3, valid: []int{0, 1}, fault: []int{2}})
		case blasmodel.RTransA, blasmodel.RTransB:
			a := axis{kind: axFlag, role: role, n: 4, fault: []int{3}}
			for i, t := range allTrans {
				legal := role == blasmodel.RTransB
				for _, al := range r.TransAllowed() {
					if al == t {
						legal = true
					}
				}
				if legal {
					a.valid = append(a.valid, i)
				} else {
					a.fault = append(a.fault, i)
				}
			}
			g.axes = append(g.axes, a)
		}
	}
	for _, role := range f.Roles {
		switch role {
		case blasmodel.RM, blasmodel.RN, blasmodel.RK, blasmodel.RKL, blasmodel.RKU:
			g.axes = append(g.axes, axis{kind: axDim, role: role, n: len(gridDims), valid: seq(len(gridDims))[1:], fault: []int{0}})
		case blasmodel.RRotmP:
			g.axes = append(g.axes, axis{kind: axRotm, n: len(gridRotm), valid: []int{0, 1, 2, 3}, fault: []int{4}})
		}
	}
	for _, role := range f.Roles {
		switch role {
		case blasmodel.RLdA, blasmodel.RLdB, blasmodel.RLdC:
			g.axes = append(g.axes, axis{kind: axLd, op: int(role-blasmodel.RLdA) / 2, n: 3, valid: []int{1, 2}, fault: []int{0}})
		}
	}
	for _, role := range f.Roles {
		switch role {
		case blasmodel.RIncX:
			g.axes = append(g.axes, axis{kind: axInc, op: 0, n: 5, valid: []int{0, 1, 3, 4}, fault: []int{2}})
		case blasmodel.RIncY:
			g.axes = append(g.axes, axis{kind: axInc, op: 1, n: 5, valid: []int{0, 1, 3, 4}, fault: []int{2}})
		}
	}
	for _, role := range f.Roles {
		op := -1
		switch role {
		case blasmodel.RA, blasmodel.RAP:
			op = blasmodel.OpA
		case blasmodel.RB:
			op = blasmodel.OpB
		case blasmodel.RC:
			op = blasmodel.OpC
		case blasmodel.RX:
			op = blasmodel.OpX
		case blasmodel.RY:
			op = blasmodel.OpY
		}
		if op >= 0 {
			g.axes = append(g.axes, axis{kind: axLen, op: op, n: 3, valid: []int{1, 2}, fault: []int{0}})
		}
	}
	g.size = 1
	for _, a := range g.axes {
		g.size *= int64(a.n)
	}
	return g
}

func init() {
	// RLdA, RB, RLdB, RC, RLdC are laid out as a, lda, b, ldb, c, ldc in the
	// model's Role enumeration; the ld axis relies on it.
	if blasmodel.RLdB-blasmodel.RLdA != 2 || blasmodel.RLdC-blasmodel.RLdA != 4 {
		panic("c07: unexpected Role layout in blasmodel")
	}
}

// point is one grid point: one value index per axis.
type point []int

// gridState is the per-goroutine cache of the base tuple.
type gridState struct {
	g       *gridRoutine
	rnd     *vrt.Rand
	baseKey string
	call    *blasmodel.Call
	snap    blasmodel.Snapshot
	minLd   [3]int
	need    [blasmodel.NumOps]int
	args    []reflect.Value
	keyBuf  []byte
	// override, when set for an operand, is passed instead of the Buf's
	// own slice (guard-page copies of the operands).
	override [blasmodel.NumOps]reflect.Value
	// viaWrapper routes the next invoke through the wrapper package.
	viaWrapper bool
	npoints    int
}

func (s *gridState) slice(op int) reflect.Value {
	if s.override[op].IsValid() {
		return s.override[op]
	}
	return s.call.Buf[op].Slice()
}

// baseParams projects a grid point on the valid tuple it is derived from.
func (s *gridState) baseParams(p point) (bp blasmodel.Params, key []byte) {
	g := s.g
	bp = blasmodel.Params{Alpha: complex(0.5, 0.25), Beta: complex(0.75, -0.5), RotC: 0.6, RotS: 0.8,
		RotmFlag: blas.Rescaling, RotmH: [4]float64{0.5, -0.25, 0.75, 1.5}, LenExtra: 3, IncX: 1, IncY: 1}
	key = s.keyBuf[:0]
	for ai, a := range g.axes {
		v := p[ai]
		b := byte(0)
		switch a.kind {
		case axFlag:
			switch a.role {
			case blasmodel.RSide:
				if v > 1 {
					v = 0
				}
				bp.Side = sideVals[v]
			case blasmodel.RUplo:
				if v > 1 {
					v = 0
				}
				bp.Uplo = uploVals[v]
			case blasmodel.RDiag:
				if v > 1 {
					v = 0
				}
				bp.Diag = diagVals[v]
			case blasmodel.RTransA:
				if v > 2 {
					v = 0
				}
				bp.TransA = allTrans[v]
			case blasmodel.RTransB:
				if v > 2 {
					v = 0
				}
				bp.TransB = allTrans[v]
			}
			b = byte(v)
		case axDim:
			d := gridDims[v]
			if d < 0 {
				d = dimForNeg
			}
			switch a.role {
			case blasmodel.RM:
				bp.M = d
			case blasmodel.RN:
				bp.N = d
			case blasmodel.RK:
				bp.K = d
			case blasmodel.RKL:
				bp.KL = d
			case blasmodel.RKU:
				bp.KU = d
			}
			b = byte(d)
		case axLd:
			e := gridLd[v]
			if e < 0 {
				e = 0
			}
			bp.LdExtra[a.op] = e
			b = byte(e)
		case axInc:
			inc := gridInc[v]
			if inc == 0 {
				inc = 1
			}
			if a.op == 0 {
				bp.IncX = inc
			} else {
				bp.IncY = inc
			}
			b = byte(inc + 8)
		case axRotm:
			f := gridRotm[v]
			if v == 4 {
				f = blas.Rescaling
			}
			bp.RotmFlag = f
			b = byte(f + 8)
		case axLen:
			continue
		}
		key = append(key, b)
	}
	// alpha and beta classes (zero, one, general) follow from the base key,
	// so that the alpha == 0 / beta == 1 quick returns and the y := beta*y
	// pre-scaling paths are all part of the grid.
	h := 0
	for i, b := range key {
		h += (i + 1) * int(b)
	}
	bp.Alpha = []complex128{complex(0.5, 0.25), 0, 1}[h%3]
	bp.Beta = []complex128{complex(0.75, -0.5), 0, 1}[(h/3)%3]
	key = append(key, byte(h%9))
	s.keyBuf = key
	return bp, key
}

// prepare makes s.call the tuple of grid point p. It returns false when the
// point does not exist (a slice length of need-1 with need == 0).
func (s *gridState) prepare(p point, finite bool) bool {
	g := s.g
	bp, key := s.baseParams(p)
	if s.call == nil || string(key) != s.baseKey {
		if s.call != nil {
			s.call.Scrub()
		}
		bp.FiniteFill = finite
		s.baseKey = string(key)
		s.call = g.r.NewCall(bp, s.rnd)
		sh := s.call.Shapes()
		for op := 0; op < 3; op++ {
			s.minLd[op] = 0
			if sh.HasMat[op] {
				s.minLd[op] = sh.Mat[op].MinLd()
			}
		}
		for op, b := range s.call.Buf {
			s.need[op] = 0
			if b != nil {
				s.need[op] = b.Len() - 3
			}
		}
		s.snap = s.call.Snapshot()
	}
	c := s.call
	// Every mutable field is (re)written from the grid point.
	c.Side, c.Uplo, c.Diag, c.TransA, c.TransB = bp.Side, bp.Uplo, bp.Diag, bp.TransA, bp.TransB
	c.M, c.N, c.K, c.KL, c.KU = bp.M, bp.N, bp.K, bp.KL, bp.KU
	c.Inc = [2]int{bp.IncX, bp.IncY}
	c.RotmFlag = bp.RotmFlag
	for op := 0; op < 3; op++ {
		c.Ld[op] = 0
		if s.minLd[op] > 0 {
			c.Ld[op] = s.minLd[op] + bp.LdExtra[op]
		}
	}
	ill := g.illegal
	for ai, a := range g.axes {
		v := p[ai]
		switch a.kind {
		case axFlag:
			switch a.role {
			case blasmodel.RSide:
				if v == 2 {
					c.Side = blas.Side(ill)
				}
			case blasmodel.RUplo:
				if v == 2 {
					c.Uplo = blas.Uplo(ill)
				}
			case blasmodel.RDiag:
				if v == 2 {
					c.Diag = blas.Diag(ill)
				}
			case blasmodel.RTransA:
				if v == 3 {
					c.TransA = blas.Transpose(ill)
				}
			case blasmodel.RTransB:
				if v == 3 {
					c.TransB = blas.Transpose(ill)
				}
			}
		case axDim:
			if gridDims[v] < 0 {
				switch a.role {
				case blasmodel.RM:
					c.M = -1
				case blasmodel.RN:
					c.N = -1
				case blasmodel.RK:
					c.K = -1
				case blasmodel.RKL:
					c.KL = -1
				case blasmodel.RKU:
					c.KU = -1
				}
			}
		case axLd:
			if gridLd[v] < 0 {
				c.Ld[a.op] = s.minLd[a.op] - 1
			}
		case axInc:
			if gridInc[v] == 0 {
				c.Inc[a.op] = 0
			}
		case axRotm:
			c.RotmFlag = gridRotm[v]
		case axLen:
			n := s.need[a.op] + gridLen[v]
			if n < 0 {
				return false
			}
			c.Buf[a.op].SetLen(n)
		}
	}
	return true
}

// invoke calls the routine with the current tuple (blasmodel's Invoke
// records a stack trace for every panic, which is too slow for a workload in
// which most calls panic).
func (s *gridState) invoke() *vrt.PanicInfo {
	c := s.call
	g := s.g
	if s.args == nil {
		s.args = make([]reflect.Value, len(g.in))
	}
	args := s.args
	for i, role := range c.R.Fam.Roles {
		ty := g.in[i]
		var v reflect.Value
		switch role {
		case blasmodel.RSide:
			v = reflect.ValueOf(c.Side)
		case blasmodel.RUplo:
			v = reflect.ValueOf(c.Uplo)
		case blasmodel.RTransA:
			v = reflect.ValueOf(c.TransA)
		case blasmodel.RTransB:
			v = reflect.ValueOf(c.TransB)
		case blasmodel.RDiag:
			v = reflect.ValueOf(c.Diag)
		case blasmodel.RM:
			v = reflect.ValueOf(c.M)
		case blasmodel.RN:
			v = reflect.ValueOf(c.N)
		case blasmodel.RK:
			v = reflect.ValueOf(c.K)
		case blasmodel.RKL:
			v = reflect.ValueOf(c.KL)
		case blasmodel.RKU:
			v = reflect.ValueOf(c.KU)
		case blasmodel.RAlpha:
			v = scalarValue(ty, c.Alpha)
		case blasmodel.RBeta:
			v = scalarValue(ty, c.Beta)
		case blasmodel.RA, blasmodel.RAP:
			v = s.slice(blasmodel.OpA)
		case blasmodel.RB:
			v = s.slice(blasmodel.OpB)
		case blasmodel.RC:
			v = s.slice(blasmodel.OpC)
		case blasmodel.RX:
			v = s.slice(blasmodel.OpX)
		case blasmodel.RY:
			v = s.slice(blasmodel.OpY)
		case blasmodel.RLdA:
			v = reflect.ValueOf(c.Ld[blasmodel.OpA])
		case blasmodel.RLdB:
			v = reflect.ValueOf(c.Ld[blasmodel.OpB])
		case blasmodel.RLdC:
			v = reflect.ValueOf(c.Ld[blasmodel.OpC])
		case blasmodel.RIncX:
			v = reflect.ValueOf(c.Inc[0])
		case blasmodel.RIncY:
			v = reflect.ValueOf(c.Inc[1])
		case blasmodel.RRotC:
			v = scalarValue(ty, complex(c.RotC, 0))
		case blasmodel.RRotS:
			v = scalarValue(ty, complex(c.RotS, 0))
		case blasmodel.RRotmP:
			if c.R.Prec == blasmodel.S {
				var h [4]float32
				for k := range h {
					h[k] = float32(c.RotmH[k])
				}
				v = reflect.ValueOf(blas.SrotmParams{Flag: c.RotmFlag, H: h})
			} else {
				v = reflect.ValueOf(blas.DrotmParams{Flag: c.RotmFlag, H: c.RotmH})
			}
		default:
			panic("c07: role without value: " + role.String())
		}
		args[i] = v
	}
	m := g.method
	if s.viaWrapper && g.wrapMethod.IsValid() {
		m = g.wrapMethod
	}
	return vrt.TryFast(func() { m.Call(args) })
}

func scalarValue(ty reflect.Type, v complex128) reflect.Value {
	switch ty.Kind() {
	case reflect.Float32:
		return reflect.ValueOf(float32(real(v)))
	case reflect.Float64:
		return reflect.ValueOf(real(v))
	case reflect.Complex64:
		return reflect.ValueOf(complex64(v))
	}
	return reflect.ValueOf(v)
}

// clauseTok shortens a contract clause ("blas: insufficient length of x")
// to a signature token.
func clauseTok(msg string) string {
	msg = strings.TrimPrefix(msg, "blas: ")
	msg = strings.TrimPrefix(msg, "lapack: ")
	return strings.ReplaceAll(msg, " ", "-")
}

// panicClass classifies a recovered panic value for signatures.
func panicClass(p *vrt.PanicInfo, prefix string) (class string, own bool) {
	switch {
	case p.Fault:
		return "memory-fault", false
	case p.Runtime:
		return "runtime-error", false
	}
	if s, ok := p.Value.(string); ok {
		if strings.HasPrefix(s, prefix) {
			return clauseTok(s), true
		}
		return "foreign-string-panic", false
	}
	return "non-string-panic", false
}

type blasStats struct {
	points, skipped, valid, invalid atomic.Int64
	viaWrapper                      atomic.Int64
	multi                           atomic.Int64
	negSingle                       atomic.Int64
	rotmIllegalFlag                 atomic.Int64
	misdescribed                    atomic.Int64
	byClause                        sync.Map // clause -> *atomic.Int64
}

func (st *blasStats) clause(k string) {
	v, ok := st.byClause.Load(k)
	if !ok {
		v, _ = st.byClause.LoadOrStore(k, new(atomic.Int64))
	}
	v.(*atomic.Int64).Add(1)
}

// allClauses returns every violated clause of the tuple without the staging
// of blasmodel's Invalid (which stops after the first failing stage): the
// panic message of a rejected call must name one of them.
func allClauses(c *blasmodel.Call, staged []string) map[string]bool {
	out := map[string]bool{}
	for _, s := range staged {
		out[s] = true
	}
	f := c.R.Fam
	if f.Has(blasmodel.RX) && c.Inc[0] == 0 {
		out[blasmodel.MsgZeroIncX] = true
	}
	if f.Has(blasmodel.RY) && c.Inc[1] == 0 {
		out[blasmodel.MsgZeroIncY] = true
	}
	return out
}

// checkPoint evaluates the tuple currently held by s. It returns whether the
// call was valid and got past a quick return.
func (s *gridState) checkPoint(c *vrt.Ctx, st *blasStats, desc func() string) {
	call := s.call
	r := call.R
	bad := call.Invalid()
	// Documented deviation: nrm2/asum/iamax/scal return 0 / -1 / do nothing
	// for a negative increment "without further checks" (DESIGN §9): with
	// n < 0 both the documented return and the n < 0 panic are accepted.
	either := false
	if r.SingleVector() && call.Inc[0] < 0 && len(bad) == 1 && bad[0] == blasmodel.MsgNLT0 {
		either = true
		st.negSingle.Add(1)
	}
	// The modified-Givens flag is not a positional BLAS flag: its check (if
	// any) comes after the n == 0 return, like a slice length. The model
	// has no clause for it; add it here.
	rotmBad, rotmIllegal := false, false
	if r.Fam.Has(blasmodel.RRotmP) {
		f := call.RotmFlag
		rotmIllegal = f < blas.Identity || f > blas.Diagonal
		switch {
		case !rotmIllegal:
		case len(bad) == 0 && call.N > 0:
			rotmBad = true
			bad = []string{msgBadRotmFlag}
		case len(bad) == 0:
			// n == 0 with an illegal flag: whether the flag is validated
			// before the quick return is not specified; both outcomes are
			// accepted (a panic must be the rotm flag message).
			either = true
			bad = []string{msgBadRotmFlag}
		}
	}
	st.points.Add(1)
	s.npoints++
	// Every second contract-satisfying tuple goes through the wrapper
	// package (struct fields -> positional arguments), including the tuples
	// with spare slice elements and non-minimal strides. The wrappers'
	// documented extra restriction (no negative increment for the
	// single-vector routines) is respected.
	s.viaWrapper = len(bad) == 0 && !rotmIllegal && s.npoints&1 == 0 && !(r.SingleVector() && call.Inc[0] < 0) && call.N >= 0
	if s.viaWrapper {
		st.viaWrapper.Add(1)
	}
	via := s.viaWrapper
	p := s.invoke()
	s.viaWrapper = false
	changedAll := call.Changed(s.snap, true)
	flags := call.FlagString
	switch {
	case len(bad) == 0 && p == nil && call.N > 0:
		sampBlasValid.offer(c, 1, func() any {
			return map[string]any{"sub_check": "blas grid", "call": desc(), "contract": "satisfied", "outcome": "returned normally",
				"words_changed_in_operands": len(changedAll), "words_changed_outside_result": len(call.Changed(s.snap, false))}
		})
	case len(bad) > 0 && p != nil:
		sampBlasInvalid.offer(c, 1, func() any {
			return map[string]any{"sub_check": "blas grid", "call": desc(), "violated_clauses": bad, "outcome": "panic: " + p.Msg,
				"panic_is_runtime_error": p.Runtime, "words_changed_in_operands": len(changedAll)}
		})
	}
	switch {
	case len(bad) == 0:
		st.valid.Add(1)
		if p != nil {
			cls, _ := panicClass(p, "blas:")
			if via {
				c.Violation(fmt.Sprintf("blas.%s|valid-arguments-via-wrapper-package|panic:%s", r.Name, cls),
					fmt.Sprintf("%s satisfies the documented contract but panicked when called through the wrapper package: %s", desc(), p.Msg), call.Replay())
				break
			}
			c.Violation(fmt.Sprintf("blas.%s|valid-arguments|panic:%s", r.Name, cls),
				fmt.Sprintf("%s satisfies the documented contract but panicked: %s", desc(), p.Msg), call.Replay())
			break
		}
		// nothing outside the result region may change
		for _, ch := range call.Changed(s.snap, false) {
			c.Violation(fmt.Sprintf("blas.%s|valid-arguments|wrote-outside-result:%s:%s", r.Name, blasmodel.OpName(ch.Op), ch.Region),
				fmt.Sprintf("%s: %s of %s changed from %#x to %#x", desc(), ch.Where, blasmodel.OpName(ch.Op), ch.Old, ch.New), call.Replay())
			break
		}
		if len(changedAll) > 0 {
			// the result changed: new reference image for the following points
			s.snap = call.Snapshot()
		}
	default:
		st.invalid.Add(1)
		if len(bad) > 1 {
			st.multi.Add(1)
		}
		first := clauseTok(bad[0])
		st.clause(first)
		if p == nil {
			if either {
				break
			}
			if rotmBad {
				st.rotmIllegalFlag.Add(1)
			}
			c.Violation(fmt.Sprintf("blas.%s|%s|returned-normally", r.Name, first),
				fmt.Sprintf("%s violates the documented contract (%s) but returned normally; flags %s", desc(), strings.Join(bad, "; "), flags()), call.Replay())
			if len(changedAll) > 0 {
				s.snap = call.Snapshot()
			}
			break
		}
		cls, own := panicClass(p, "blas:")
		if !own {
			c.Violation(fmt.Sprintf("blas.%s|%s|panic:%s", r.Name, first, cls),
				fmt.Sprintf("%s violates %s; expected a \"blas:\" string panic, got %T: %s", desc(), strings.Join(bad, "; "), p.Value, p.Msg), call.Replay())
		} else if !rotmBad {
			all := allClauses(call, bad)
			if rotmIllegal {
				all[msgBadRotmFlag] = true
			}
			if !all[p.Msg] {
				st.misdescribed.Add(1)
				c.Violation(fmt.Sprintf("blas.%s|%s|panic-names-unviolated-clause:%s", r.Name, first, cls),
					fmt.Sprintf("%s violates %s but the panic says %q", desc(), strings.Join(bad, "; "), p.Msg), call.Replay())
			}
		}
		if len(changedAll) > 0 {
			ch := changedAll[0]
			c.Violation(fmt.Sprintf("blas.%s|%s|operand-modified-before-panic", r.Name, first),
				fmt.Sprintf("%s: panicked with %q after modifying %d words; first: %s of %s %#x -> %#x", desc(), p.Msg, len(changedAll), ch.Where, blasmodel.OpName(ch.Op), ch.Old, ch.New), call.Replay())
			s.snap = call.Snapshot()
		}
	}
}

const msgBadRotmFlag = "blas: illegal rotm flag"

func (g *gridRoutine) describe(s *gridState, p point) string {
	return s.call.Describe()
}

// decode turns a linear index into a grid point (last axis fastest).
func (g *gridRoutine) decode(idx int64, p point) {
	for ai := len(g.axes) - 1; ai >= 0; ai-- {
		n := int64(g.axes[ai].n)
		p[ai] = int(idx % n)
		idx /= n
	}
}

// evalCode is the case class of a grid point as an integer: per axis the
// flag value, or legal / faulted / zero dimension.
func (g *gridRoutine) evalCode(p point) (code uint64, nontrivial bool) {
	nontrivial = true
	for ai, a := range g.axes {
		d := 0
		switch a.kind {
		case axFlag, axRotm:
			d = p[ai]
		case axDim:
			switch gridDims[p[ai]] {
			case -1:
				d = 1
			case 0:
				d = 2
				nontrivial = false
			}
		default:
			if p[ai] == a.fault[0] {
				d = 1
			}
		}
		code = code*8 + uint64(d)
	}
	return code, nontrivial
}

// evalKey renders an evalCode.
func (g *gridRoutine) evalKey(code uint64) string {
	ds := make([]int, len(g.axes))
	for ai := len(g.axes) - 1; ai >= 0; ai-- {
		ds[ai] = int(code % 8)
		code /= 8
	}
	var sb strings.Builder
	sb.WriteString("blas.")
	sb.WriteString(g.r.Name)
	for ai, a := range g.axes {
		d := ds[ai]
		switch a.kind {
		case axFlag:
			fmt.Fprintf(&sb, "|%s=%d", a.role, d)
		case axRotm:
			fmt.Fprintf(&sb, "|rotm=%d", d)
		case axDim:
			if d != 0 {
				fmt.Fprintf(&sb, "|%s=%s", a.role, [...]string{"", "neg", "zero"}[d])
			}
		default:
			if d != 0 {
				fmt.Fprintf(&sb, "|%s%d=bad", a.kind, a.op)
			}
		}
	}
	return sb.String()
}

// runBlasExhaustive walks the complete grid of the routine in chunks.
func runBlasGrid(c *vrt.Ctx, st *blasStats, routines []*gridRoutine, exhaustive bool, samples int) {
	type chunk struct {
		g      *gridRoutine
		lo, hi int64
		sample bool
		idx    int
	}
	var chunks []chunk
	const chunkSize = 1 << 16
	for gi, g := range routines {
		if len(g.axes) == 0 {
			continue // rotg, rotmg: no argument contract
		}
		if exhaustive {
			for lo := int64(0); lo < g.size; lo += chunkSize {
				chunks = append(chunks, chunk{g: g, lo: lo, hi: min(g.size, lo+chunkSize), idx: gi})
			}
		}
		if samples > 0 {
			const per = 1024
			for lo := 0; lo < samples; lo += per {
				chunks = append(chunks, chunk{g: g, lo: int64(lo), hi: int64(min(samples, lo+per)), sample: true, idx: gi})
			}
		}
	}
	var evalMu sync.Mutex
	evalAgg := map[string][2]int64{} // key -> (count, nontrivial)
	vrt.Parallel(len(chunks), func(i int) {
		debug.SetPanicOnFault(true)
		ch := chunks[i]
		g := ch.g
		s := &gridState{g: g}
		local := map[uint64][2]int64{}
		p := make(point, len(g.axes))
		kind := 0
		if ch.sample {
			kind = 1
		}
		s.rnd = c.RNG("blasgrid", ch.idx, kind, int(ch.lo/1024))
		c.LastCase(fmt.Sprintf("blas grid %s points [%d,%d) sample=%v", g.r.Name, ch.lo, ch.hi, ch.sample))
		for k := ch.lo; k < ch.hi; k++ {
			if ch.sample {
				g.samplePoint(s.rnd, p)
			} else {
				g.decode(k, p)
			}
			if !s.prepare(p, k&1 == 1) {
				st.skipped.Add(1)
				continue
			}
			s.checkPoint(c, st, func() string { return s.call.Describe() })
			key, nt := g.evalCode(p)
			e := local[key]
			e[0]++
			if nt {
				e[1] = 1
			}
			local[key] = e
		}
		if s.call != nil {
			s.call.Scrub()
		}
		evalMu.Lock()
		for code, v := range local {
			k := g.evalKey(code)
			e := evalAgg[k]
			e[0] += v[0]
			e[1] |= v[1]
			evalAgg[k] = e
		}
		evalMu.Unlock()
	})
	keys := make([]string, 0, len(evalAgg))
	for k := range evalAgg {
		keys = append(keys, k)
	}
	sort.Strings(keys)
	for _, k := range keys {
		c.EvalN(k, int(evalAgg[k][0]), evalAgg[k][1] != 0)
	}
}

// samplePoint draws a stratified grid point: 0, 1 or 2 faulted axes
// (probabilities 25/55/20 %), every other axis uniform over its legal values.
func (g *gridRoutine) samplePoint(r *vrt.Rand, p point) {
	for ai, a := range g.axes {
		p[ai] = a.valid[r.Intn(len(a.valid))]
	}
	u := r.Intn(100)
	k := 0
	switch {
	case u < 25:
	case u < 80:
		k = 1
	default:
		k = 2
	}
	for ; k > 0; k-- {
		ai := r.Intn(len(g.axes))
		a := g.axes[ai]
		p[ai] = a.fault[r.Intn(len(a.fault))]
	}
}
