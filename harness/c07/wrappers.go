package main

import (
	"fmt"
	"strings"

	"gonum.org/v1/gonum/blas"
	"gonum.org/v1/gonum/blas/blas32"
	"gonum.org/v1/gonum/blas/blas64"
	"gonum.org/v1/gonum/blas/cblas128"
	"gonum.org/v1/gonum/blas/cblas64"
	"gonum.org/v1/gonum/verifx/vrt"
)

// Sub-check 1b: the argument checks that the wrapper packages blas64,
// blas32, cblas128 and cblas64 add on top of the implementation: the two
// vectors of a Level 1 call must have the same N ("will panic if the lengths
// of x and y do not match"), Nrm2/Asum/Iamax/Scal reject a negative
// increment ("will panic if the vector increment is negative"). Expected: a
// string panic with the package's own prefix and untouched data; the
// conforming call must not panic.

type wrapCase struct {
	name string
	two  bool // takes two vectors (length mismatch), else one (negative increment)
	// call runs the wrapper function on vectors with element counts nx, ny
	// and increments ix, iy over the given data (float64 bit images).
	call func(x, y []float64, nx, ny, ix, iy int)
}

func wrapCases() []wrapCase {
	v64 := func(d []float64, n, inc int) blas64.Vector { return blas64.Vector{N: n, Data: d, Inc: inc} }
	f32 := func(d []float64) []float32 {
		o := make([]float32, len(d))
		for i, v := range d {
			o[i] = float32(v)
		}
		return o
	}
	c128 := func(d []float64) []complex128 {
		o := make([]complex128, len(d))
		for i, v := range d {
			o[i] = complex(v, -v)
		}
		return o
	}
	c64 := func(d []float64) []complex64 {
		o := make([]complex64, len(d))
		for i, v := range d {
			o[i] = complex(float32(v), float32(-v))
		}
		return o
	}
	// Single precision and complex operands are converted copies: "nothing
	// modified" is observed for blas64 only.
	cs := []wrapCase{
		{"blas64.Dot", true, func(x, y []float64, nx, ny, ix, iy int) { blas64.Dot(v64(x, nx, ix), v64(y, ny, iy)) }},
		{"blas64.Swap", true, func(x, y []float64, nx, ny, ix, iy int) { blas64.Swap(v64(x, nx, ix), v64(y, ny, iy)) }},
		{"blas64.Copy", true, func(x, y []float64, nx, ny, ix, iy int) { blas64.Copy(v64(x, nx, ix), v64(y, ny, iy)) }},
		{"blas64.Axpy", true, func(x, y []float64, nx, ny, ix, iy int) { blas64.Axpy(0.5, v64(x, nx, ix), v64(y, ny, iy)) }},
		{"blas64.Rot", true, func(x, y []float64, nx, ny, ix, iy int) { blas64.Rot(v64(x, nx, ix), v64(y, ny, iy), 0.6, 0.8) }},
		{"blas64.Rotm", true, func(x, y []float64, nx, ny, ix, iy int) {
			blas64.Rotm(v64(x, nx, ix), v64(y, ny, iy), blas.DrotmParams{Flag: blas.Rescaling, H: [4]float64{1, 2, 3, 4}})
		}},
		{"blas64.Nrm2", false, func(x, y []float64, nx, ny, ix, iy int) { blas64.Nrm2(v64(x, nx, ix)) }},
		{"blas64.Asum", false, func(x, y []float64, nx, ny, ix, iy int) { blas64.Asum(v64(x, nx, ix)) }},
		{"blas64.Iamax", false, func(x, y []float64, nx, ny, ix, iy int) { blas64.Iamax(v64(x, nx, ix)) }},
		{"blas64.Scal", false, func(x, y []float64, nx, ny, ix, iy int) { blas64.Scal(0.5, v64(x, nx, ix)) }},
	}
	type v32 = blas32.Vector
	cs = append(cs,
		wrapCase{"blas32.Dot", true, func(x, y []float64, nx, ny, ix, iy int) {
			blas32.Dot(v32{N: nx, Data: f32(x), Inc: ix}, v32{N: ny, Data: f32(y), Inc: iy})
		}},
		wrapCase{"blas32.DDot", true, func(x, y []float64, nx, ny, ix, iy int) {
			blas32.DDot(v32{N: nx, Data: f32(x), Inc: ix}, v32{N: ny, Data: f32(y), Inc: iy})
		}},
		wrapCase{"blas32.SDDot", true, func(x, y []float64, nx, ny, ix, iy int) {
			blas32.SDDot(0.5, v32{N: nx, Data: f32(x), Inc: ix}, v32{N: ny, Data: f32(y), Inc: iy})
		}},
		wrapCase{"blas32.Swap", true, func(x, y []float64, nx, ny, ix, iy int) {
			blas32.Swap(v32{N: nx, Data: f32(x), Inc: ix}, v32{N: ny, Data: f32(y), Inc: iy})
		}},
		wrapCase{"blas32.Copy", true, func(x, y []float64, nx, ny, ix, iy int) {
			blas32.Copy(v32{N: nx, Data: f32(x), Inc: ix}, v32{N: ny, Data: f32(y), Inc: iy})
		}},
		wrapCase{"blas32.Axpy", true, func(x, y []float64, nx, ny, ix, iy int) {
			blas32.Axpy(0.5, v32{N: nx, Data: f32(x), Inc: ix}, v32{N: ny, Data: f32(y), Inc: iy})
		}},
		wrapCase{"blas32.Nrm2", false, func(x, y []float64, nx, ny, ix, iy int) { blas32.Nrm2(v32{N: nx, Data: f32(x), Inc: ix}) }},
		wrapCase{"blas32.Asum", false, func(x, y []float64, nx, ny, ix, iy int) { blas32.Asum(v32{N: nx, Data: f32(x), Inc: ix}) }},
		wrapCase{"blas32.Iamax", false, func(x, y []float64, nx, ny, ix, iy int) { blas32.Iamax(v32{N: nx, Data: f32(x), Inc: ix}) }},
		wrapCase{"blas32.Scal", false, func(x, y []float64, nx, ny, ix, iy int) { blas32.Scal(0.5, v32{N: nx, Data: f32(x), Inc: ix}) }},
	)
	type vz = cblas128.Vector
	cs = append(cs,
		wrapCase{"cblas128.Dotu", true, func(x, y []float64, nx, ny, ix, iy int) {
			cblas128.Dotu(vz{N: nx, Data: c128(x), Inc: ix}, vz{N: ny, Data: c128(y), Inc: iy})
		}},
		wrapCase{"cblas128.Dotc", true, func(x, y []float64, nx, ny, ix, iy int) {
			cblas128.Dotc(vz{N: nx, Data: c128(x), Inc: ix}, vz{N: ny, Data: c128(y), Inc: iy})
		}},
		wrapCase{"cblas128.Swap", true, func(x, y []float64, nx, ny, ix, iy int) {
			cblas128.Swap(vz{N: nx, Data: c128(x), Inc: ix}, vz{N: ny, Data: c128(y), Inc: iy})
		}},
		wrapCase{"cblas128.Copy", true, func(x, y []float64, nx, ny, ix, iy int) {
			cblas128.Copy(vz{N: nx, Data: c128(x), Inc: ix}, vz{N: ny, Data: c128(y), Inc: iy})
		}},
		wrapCase{"cblas128.Axpy", true, func(x, y []float64, nx, ny, ix, iy int) {
			cblas128.Axpy(0.5, vz{N: nx, Data: c128(x), Inc: ix}, vz{N: ny, Data: c128(y), Inc: iy})
		}},
		wrapCase{"cblas128.Nrm2", false, func(x, y []float64, nx, ny, ix, iy int) { cblas128.Nrm2(vz{N: nx, Data: c128(x), Inc: ix}) }},
		wrapCase{"cblas128.Asum", false, func(x, y []float64, nx, ny, ix, iy int) { cblas128.Asum(vz{N: nx, Data: c128(x), Inc: ix}) }},
		wrapCase{"cblas128.Iamax", false, func(x, y []float64, nx, ny, ix, iy int) { cblas128.Iamax(vz{N: nx, Data: c128(x), Inc: ix}) }},
		wrapCase{"cblas128.Scal", false, func(x, y []float64, nx, ny, ix, iy int) { cblas128.Scal(0.5, vz{N: nx, Data: c128(x), Inc: ix}) }},
		wrapCase{"cblas128.Dscal", false, func(x, y []float64, nx, ny, ix, iy int) { cblas128.Dscal(0.5, vz{N: nx, Data: c128(x), Inc: ix}) }},
	)
	type vc = cblas64.Vector
	cs = append(cs,
		wrapCase{"cblas64.Dotu", true, func(x, y []float64, nx, ny, ix, iy int) {
			cblas64.Dotu(vc{N: nx, Data: c64(x), Inc: ix}, vc{N: ny, Data: c64(y), Inc: iy})
		}},
		wrapCase{"cblas64.Dotc", true, func(x, y []float64, nx, ny, ix, iy int) {
			cblas64.Dotc(vc{N: nx, Data: c64(x), Inc: ix}, vc{N: ny, Data: c64(y), Inc: iy})
		}},
		wrapCase{"cblas64.Swap", true, func(x, y []float64, nx, ny, ix, iy int) {
			cblas64.Swap(vc{N: nx, Data: c64(x), Inc: ix}, vc{N: ny, Data: c64(y), Inc: iy})
		}},
		wrapCase{"cblas64.Copy", true, func(x, y []float64, nx, ny, ix, iy int) {
			cblas64.Copy(vc{N: nx, Data: c64(x), Inc: ix}, vc{N: ny, Data: c64(y), Inc: iy})
		}},
		wrapCase{"cblas64.Axpy", true, func(x, y []float64, nx, ny, ix, iy int) {
			cblas64.Axpy(0.5, vc{N: nx, Data: c64(x), Inc: ix}, vc{N: ny, Data: c64(y), Inc: iy})
		}},
		wrapCase{"cblas64.Nrm2", false, func(x, y []float64, nx, ny, ix, iy int) { cblas64.Nrm2(vc{N: nx, Data: c64(x), Inc: ix}) }},
		wrapCase{"cblas64.Asum", false, func(x, y []float64, nx, ny, ix, iy int) { cblas64.Asum(vc{N: nx, Data: c64(x), Inc: ix}) }},
		wrapCase{"cblas64.Iamax", false, func(x, y []float64, nx, ny, ix, iy int) { cblas64.Iamax(vc{N: nx, Data: c64(x), Inc: ix}) }},
		wrapCase{"cblas64.Scal", false, func(x, y []float64, nx, ny, ix, iy int) { cblas64.Scal(0.5, vc{N: nx, Data: c64(x), Inc: ix}) }},
	)
	return cs
}

func runWrappers(c *vrt.Ctx) {
	cs := wrapCases()
	reps := c.Pick(30, 300)
	var calls int64
	for ci, k := range cs {
		pkg := k.name[:strings.IndexByte(k.name, '.')]
		for rep := 0; rep < reps; rep++ {
			for _, bad := range []bool{false, true} {
				r := c.RNG("wrap", ci, rep)
				n := 1 + r.Intn(6)
				ix, iy := 1+r.Intn(3), 1+r.Intn(3)
				nx, ny := n, n
				fault := "valid"
				if bad {
					if k.two {
						if r.Bool() {
							nx++
						} else {
							ny++
						}
						fault = "vector-length-mismatch"
					} else {
						ix = -ix
						fault = "negative-increment"
					}
				} else if k.two && r.Bool() {
					// negative increments are legal for two-vector routines
					ix, iy = -ix, -iy
				}
				x := make([]float64, (max(nx, ny)-1)*abs(ix)+1)
				y := make([]float64, (max(nx, ny)-1)*abs(iy)+1)
				for i := range x {
					x[i] = r.Sym()
				}
				for i := range y {
					y[i] = r.Sym()
				}
				bx, by := vrt.Bits(x), vrt.Bits(y)
				c.LastCase(fmt.Sprintf("wrapper %s %s nx=%d ny=%d incx=%d incy=%d", k.name, fault, nx, ny, ix, iy))
				p := vrt.TryFast(func() { k.call(x, y, nx, ny, ix, iy) })
				calls++
				c.Eval("wrap."+k.name+"|"+fault, true)
				if bad && p != nil {
					sampWrap.offer(c, 1, func() any {
						return map[string]any{"sub_check": "wrapper packages", "call": fmt.Sprintf("%s(x{N:%d Inc:%d}, y{N:%d Inc:%d})", k.name, nx, ix, ny, iy),
							"perturbation": fault, "outcome": "panic: " + p.Msg, "data_changed": vrt.FirstBitDiff(x, bx, nil) >= 0 || vrt.FirstBitDiff(y, by, nil) >= 0}
					})
				}
				switch {
				case !bad:
					if p != nil {
						cls, _ := panicClass(p, pkg+":")
						c.Violation(fmt.Sprintf("wrap.%s|valid-arguments|panic:%s", k.name, cls),
							fmt.Sprintf("%s(nx=%d ny=%d incx=%d incy=%d) panicked: %s", k.name, nx, ny, ix, iy, p.Msg), nil)
					}
				case p == nil:
					c.Violation(fmt.Sprintf("wrap.%s|%s|returned-normally", k.name, fault),
						fmt.Sprintf("%s(nx=%d ny=%d incx=%d incy=%d) returned normally", k.name, nx, ny, ix, iy), nil)
				default:
					if cls, own := panicClass(p, pkg+":"); !own {
						c.Violation(fmt.Sprintf("wrap.%s|%s|panic:%s", k.name, fault, cls),
							fmt.Sprintf("%s(nx=%d ny=%d incx=%d incy=%d): expected a %q string panic, got %T: %s", k.name, nx, ny, ix, iy, pkg+":", p.Value, p.Msg), nil)
					}
					if vrt.FirstBitDiff(x, bx, nil) >= 0 || vrt.FirstBitDiff(y, by, nil) >= 0 {
						c.Violation(fmt.Sprintf("wrap.%s|%s|operand-modified-before-panic", k.name, fault), k.name+": data changed before the panic", nil)
					}
				}
			}
		}
	}
	c.Count("wrap.calls", calls)
	c.Note("wrap.functions", len(cs))
}
