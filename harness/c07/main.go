// Command c07 is the runtime monitor for property C07: invalid arguments
// panic with the package's own error before any operand is written; valid
// arguments (zero sizes and exactly minimal slices included) never fault; no
// call touches memory outside the slices it was given.
package main

import (
	"flag"
	"strings"
	"sync/atomic"

	"gonum.org/v1/gonum/verifx/c01/blasmodel"
	"gonum.org/v1/gonum/verifx/vrt"
)

var mode = flag.String("mode", "all", "comma separated sub-checks: blas,lapack,mat,kernels,wrappers (all = every one)")
var lite = flag.Bool("lite", false, "reduced workloads for slow instrumented builds (race, asan)")
var blasExhaustive = flag.String("blasgrid", "tier", "tier | exhaustive | sample")

func main() { vrt.Main("C07", run) }

func want(sub string) bool {
	if *mode == "all" {
		return true
	}
	for _, m := range strings.Split(*mode, ",") {
		if m == sub {
			return true
		}
	}
	return false
}

func run(c *vrt.Ctx) {
	if want("blas") {
		runBlas(c)
	}
	if want("wrappers") {
		runWrappers(c)
	}
	if want("lapack") {
		runLapack(c)
	}
	if want("lapack64") {
		runLapack64(c)
	}
	if want("mat") {
		runMat(c)
		runMatReuse(c)
	}
	if want("kernels") {
		runBlasGuard(c)
		runAsmKernels(c)
	}
}

func runBlas(c *vrt.Ctx) {
	st := &blasStats{}
	var rs []*gridRoutine
	var total int64
	for i, r := range blasmodel.Routines() {
		ill := illegalVal[int(c.RNG("illegal", i).Intn(len(illegalVal)))]
		g := newGridRoutine(r, ill)
		rs = append(rs, g)
		if len(g.axes) > 0 {
			total += g.size
		}
	}
	c.Note("blas.grid_points_in_statement", total)
	exhaustive := c.Thorough()
	switch *blasExhaustive {
	case "exhaustive":
		exhaustive = true
	case "sample":
		exhaustive = false
	}
	runBlasGrid(c, st, rs, exhaustive, c.Pick(3072, 8192))
	c.Count("blas.points", st.points.Load())
	c.Count("blas.points_nonexistent(need-1<0)", st.skipped.Load())
	c.Count("blas.valid_calls", st.valid.Load())
	c.Count("blas.valid_calls_through_blas64_blas32_cblas128_cblas64", st.viaWrapper.Load())
	c.Count("blas.invalid_calls", st.invalid.Load())
	c.Count("blas.invalid_calls_multi_clause", st.multi.Load())
	c.Count("blas.single_vector_neg_inc_neg_n(either_outcome_accepted)", st.negSingle.Load())
	by := map[string]int64{}
	st.byClause.Range(func(k, v any) bool {
		by[k.(string)] = v.(interface{ Load() int64 }).Load()
		return true
	})
	c.Note("blas.invalid_calls_by_first_clause", by)
}

// sampleGate limits the literal samples offered per sub-check, so that the
// eight samples vrt keeps come from all of them.
type sampleGate struct{ n atomic.Int32 }

func (g *sampleGate) offer(c *vrt.Ctx, limit int32, mk func() any) {
	if g.n.Load() >= limit {
		return
	}
	if g.n.Add(1) > limit {
		return
	}
	c.Sample(mk())
}

var (
	sampBlasValid, sampBlasInvalid, sampWrap  sampleGate
	sampLapackValid, sampLapackFault, sampMat sampleGate
	sampBlasGuard, sampAsm                    sampleGate
)
