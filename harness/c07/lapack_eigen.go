package main

import (
	"gonum.org/v1/gonum/blas"
	"gonum.org/v1/gonum/lapack"
	"gonum.org/v1/gonum/lapack/gonum"
	"gonum.org/v1/gonum/verifx/c02/lapackgen"
	"gonum.org/v1/gonum/verifx/vrt"
)

// Descriptors of the eigenvalue / SVD routines (property C03's routines),
// which c02/lapackgen does not contain, in lapackgen's style: named
// arguments with roles, minimal values and lengths as the doc comments state
// them (cross-checked against the argument checks; Exact only where the
// check is an inequality "!=").

type (
	lgParams  = lapackgen.Params
	lgBuilder = lapackgen.Builder
	lgArgs    = lapackgen.Args
	lgResult  = lapackgen.Result
	lgFlag    = lapackgen.FlagSpec
)

func ints(v ...byte) []int {
	o := make([]int, len(v))
	for i, x := range v {
		o[i] = int(x)
	}
	return o
}

var (
	svdJobs   = ints(byte(lapack.SVDAll), byte(lapack.SVDStore), byte(lapack.SVDNone))
	evJobs    = ints(byte(lapack.EVNone), byte(lapack.EVCompute))
	leftJobs  = ints(byte(lapack.LeftEVNone), byte(lapack.LeftEVCompute))
	rightJobs = ints(byte(lapack.RightEVNone), byte(lapack.RightEVCompute))
	schurJobs = ints(byte(lapack.EigenvaluesOnly), byte(lapack.EigenvaluesAndSchur))
	schurComp = ints(byte(lapack.SchurNone), byte(lapack.SchurHess), byte(lapack.SchurOrig))
	evComps   = ints(byte(lapack.EVCompNone), byte(lapack.EVTridiag), byte(lapack.EVOrig))
	evSides   = ints(byte(lapack.EVRight), byte(lapack.EVLeft), byte(lapack.EVBoth))
	evHowMany = ints(byte(lapack.EVAll), byte(lapack.EVAllMulQ), byte(lapack.EVSelected))
	gsvdU     = ints(byte(lapack.GSVDU), byte(lapack.GSVDNone))
	gsvdV     = ints(byte(lapack.GSVDV), byte(lapack.GSVDNone))
	gsvdQ     = ints(byte(lapack.GSVDQ), byte(lapack.GSVDNone))
)

// optMat declares an n×c matrix operand when want is true and an unused
// operand (empty slice, leading dimension >= 1) otherwise.
func optMat(b *lgBuilder, name, ld string, want bool, r, c int, acc lapackgen.Access) {
	if !want {
		r, c = 0, 0
	}
	b.Mat(name, ld, r, c, acc, nil)
}

func setIdentity(v lapackgen.View) {
	for i := 0; i < v.R; i++ {
		for j := 0; j < v.C; j++ {
			x := 0.0
			if i == j {
				x = 1
			}
			v.Set(i, j, x)
		}
	}
}

// hessParams draws (n, ilo, ihi) with 0 <= ilo <= ihi < n, or (0, 0, -1).
func hessParams(flags []lgFlag) func(r *vrt.Rand, maxDim int) lgParams {
	return func(r *vrt.Rand, maxDim int) lgParams {
		p := lgParams{Dims: map[string]int{}, Flags: map[string]int{}}
		for _, f := range flags {
			p.Flags[f.Name] = f.Values[r.Intn(len(f.Values))]
		}
		n := r.Intn(maxDim + 1)
		p.Dims["n"] = n
		if n == 0 {
			p.Dims["ilo"], p.Dims["ihi"] = 0, -1
			return p
		}
		ilo := r.Intn(n)
		if r.Bool() {
			ilo = 0
		}
		ihi := ilo + r.Intn(n-ilo)
		if r.Bool() {
			ihi = n - 1
		}
		p.Dims["ilo"], p.Dims["ihi"] = ilo, ihi
		return p
	}
}

// trevcBlocks says where the 2×2 diagonal blocks of Dtrevc3's test matrix
// T start and which eigenvectors are selected, as a function of n and the
// pattern number only (the layout must know the number of selected columns).
func trevcBlocks(n, pat int) (blockStart []bool, selected []bool, m int) {
	blockStart = make([]bool, n)
	selected = make([]bool, n)
	for j := 0; j+1 < n; j++ {
		if j%3 == 1 && pat != 0 {
			blockStart[j] = true
			j++
		}
	}
	for j := 0; j < n; j++ {
		switch pat {
		case 0:
			selected[j] = j%2 == 0
		case 1:
			selected[j] = j%3 != 0 // picks the second row of every 2×2 block
		case 2:
			selected[j] = true
		}
	}
	for j := 0; j < n; {
		if blockStart[j] {
			if selected[j] || selected[j+1] {
				m += 2
			}
			j += 2
		} else {
			if selected[j] {
				m++
			}
			j++
		}
	}
	return blockStart, selected, m
}

func eigenRoutines() []*lroutine {
	var out []*lroutine

	// ---- Dgesvd -------------------------------------------------------------
	// lapack.SVDOverwrite is documented but not implemented ("dgesvd: not
	// coded for overwrite"); it is left out of the legal values.
	gesvdFlags := []lgFlag{{Name: "jobU", Values: svdJobs}, {Name: "jobVT", Values: svdJobs}}
	out = append(out, &lroutine{
		sizeDims: []string{"m", "n"},
		fixed: []lgParams{
			{Dims: map[string]int{"m": 2, "n": 1}, LDPad: 3, Flags: map[string]int{"jobU": int(lapack.SVDStore), "jobVT": int(lapack.SVDAll)}},
			{Dims: map[string]int{"m": 3, "n": 1}, LDPad: 2, Flags: map[string]int{"jobU": int(lapack.SVDAll), "jobVT": int(lapack.SVDAll)}},
			{Dims: map[string]int{"m": 1, "n": 3}, LDPad: 2, Flags: map[string]int{"jobU": int(lapack.SVDAll), "jobVT": int(lapack.SVDStore)}},
		},
		Routine: &lapackgen.Routine{
			Name: "Dgesvd", Dims: []string{"m", "n"}, Flags: gesvdFlags, HasLWork: true,
			Layout: func(b *lgBuilder) {
				ju, jv := b.Flag("jobU"), b.Flag("jobVT")
				m, n := b.Dim("m"), b.Dim("n")
				mn := min(m, n)
				b.Mat("a", "lda", m, n, lapackgen.InOut, nil)
				b.Vec("s", mn, lapackgen.Out, false)
				switch ju {
				case int(lapack.SVDAll):
					b.Mat("u", "ldu", m, m, lapackgen.Out, nil)
				case int(lapack.SVDStore):
					b.Mat("u", "ldu", m, mn, lapackgen.Out, nil)
				default:
					b.Mat("u", "ldu", 0, 0, lapackgen.Out, nil)
				}
				switch jv {
				case int(lapack.SVDAll):
					b.Mat("vt", "ldvt", n, n, lapackgen.Out, nil)
				case int(lapack.SVDStore):
					b.Mat("vt", "ldvt", mn, n, lapackgen.Out, nil)
				default:
					b.Mat("vt", "ldvt", 0, 0, lapackgen.Out, nil)
				}
				minL := 1
				if mn > 0 {
					minL = max(5*mn, 3*mn+max(m, n))
				}
				b.WorkL("work", "lwork", minL)
			},
			Call: func(impl gonum.Implementation, a *lgArgs) lgResult {
				ok := impl.Dgesvd(lapack.SVDJob(a.Int("jobU")), lapack.SVDJob(a.Int("jobVT")), a.Int("m"), a.Int("n"), a.F64s("a"), a.Int("lda"),
					a.F64s("s"), a.F64s("u"), a.Int("ldu"), a.F64s("vt"), a.Int("ldvt"), a.F64s("work"), a.Int("lwork"))
				return lgResult{HasOK: true, OK: ok}
			},
		},
	})

	// ---- Dsyev --------------------------------------------------------------
	out = append(out, &lroutine{Routine: &lapackgen.Routine{
		Name: "Dsyev", Dims: []string{"n"}, Flags: []lgFlag{{Name: "jobz", Values: evJobs}, {Name: "uplo", Values: lapackgen.Uplos}}, HasLWork: true,
		Layout: func(b *lgBuilder) {
			b.Flag("jobz")
			b.Flag("uplo")
			n := b.Dim("n")
			b.Mat("a", "lda", n, n, lapackgen.InOut, nil)
			b.Vec("w", n, lapackgen.Out, false)
			b.WorkL("work", "lwork", max(1, 3*n-1))
		},
		Call: func(impl gonum.Implementation, a *lgArgs) lgResult {
			ok := impl.Dsyev(lapack.EVJob(a.Int("jobz")), blas.Uplo(a.Int("uplo")), a.Int("n"), a.F64s("a"), a.Int("lda"), a.F64s("w"), a.F64s("work"), a.Int("lwork"))
			return lgResult{HasOK: true, OK: ok}
		},
	}})

	// ---- Dgeev --------------------------------------------------------------
	out = append(out, &lroutine{Routine: &lapackgen.Routine{
		Name: "Dgeev", Dims: []string{"n"}, Flags: []lgFlag{{Name: "jobvl", Values: leftJobs}, {Name: "jobvr", Values: rightJobs}}, HasLWork: true,
		Layout: func(b *lgBuilder) {
			jl, jr := b.Flag("jobvl"), b.Flag("jobvr")
			wl, wr := jl == int(lapack.LeftEVCompute), jr == int(lapack.RightEVCompute)
			n := b.Dim("n")
			b.Mat("a", "lda", n, n, lapackgen.InOut, nil)
			b.Vec("wr", n, lapackgen.Out, true)
			b.Vec("wi", n, lapackgen.Out, true)
			optMat(b, "vl", "ldvl", wl, n, n, lapackgen.Out)
			optMat(b, "vr", "ldvr", wr, n, n, lapackgen.Out)
			minL := max(1, 3*n)
			if wl || wr {
				minL = max(1, 4*n)
			}
			b.WorkL("work", "lwork", minL)
		},
		Call: func(impl gonum.Implementation, a *lgArgs) lgResult {
			first := impl.Dgeev(lapack.LeftEVJob(a.Int("jobvl")), lapack.RightEVJob(a.Int("jobvr")), a.Int("n"), a.F64s("a"), a.Int("lda"),
				a.F64s("wr"), a.F64s("wi"), a.F64s("vl"), a.Int("ldvl"), a.F64s("vr"), a.Int("ldvr"), a.F64s("work"), a.Int("lwork"))
			return lgResult{Int: first}
		},
	}})

	// ---- Dhseqr -------------------------------------------------------------
	hseqrFlags := []lgFlag{{Name: "job", Values: schurJobs}, {Name: "compz", Values: schurComp}}
	out = append(out, &lroutine{
		params:   hessParams(hseqrFlags),
		sizeDims: []string{"n"},
		fill: func(a *lgArgs, r *vrt.Rand) {
			// H upper Hessenberg, already upper triangular in rows and
			// columns 0:ilo and ihi+1:n.
			n, ilo, ihi := a.Int("n"), a.Int("ilo"), a.Int("ihi")
			h := a.Mat("h")
			for i := 0; i < n; i++ {
				for j := 0; j < n; j++ {
					switch {
					case i > j+1:
						h.Set(i, j, 0)
					case i == j+1 && (j < ilo || j >= ihi):
						h.Set(i, j, 0)
					}
				}
			}
			if a.Int("compz") == int(lapack.SchurOrig) {
				setIdentity(a.Mat("z"))
			}
		},
		Routine: &lapackgen.Routine{
			Name: "Dhseqr", Dims: []string{"n", "ilo", "ihi"}, Flags: hseqrFlags, HasLWork: true,
			Layout: func(b *lgBuilder) {
				b.Flag("job")
				cz := b.Flag("compz")
				n := b.Dim("n")
				ilo := b.DimRange("ilo", 0, max(0, n-1))
				b.DimRange("ihi", min(ilo, n-1), n-1)
				b.Mat("h", "ldh", n, n, lapackgen.InOut, nil)
				b.Vec("wr", n, lapackgen.Out, false)
				b.Vec("wi", n, lapackgen.Out, false)
				acc := lapackgen.Out
				if cz == int(lapack.SchurOrig) {
					acc = lapackgen.InOut
				}
				optMat(b, "z", "ldz", cz != int(lapack.SchurNone), n, n, acc)
				b.WorkL("work", "lwork", max(1, n))
			},
			Call: func(impl gonum.Implementation, a *lgArgs) lgResult {
				u := impl.Dhseqr(lapack.SchurJob(a.Int("job")), lapack.SchurComp(a.Int("compz")), a.Int("n"), a.Int("ilo"), a.Int("ihi"),
					a.F64s("h"), a.Int("ldh"), a.F64s("wr"), a.F64s("wi"), a.F64s("z"), a.Int("ldz"), a.F64s("work"), a.Int("lwork"))
				return lgResult{Int: u}
			},
		},
	})

	// ---- Dgebrd -------------------------------------------------------------
	out = append(out, &lroutine{Routine: &lapackgen.Routine{
		Name: "Dgebrd", Dims: []string{"m", "n"}, HasLWork: true,
		Layout: func(b *lgBuilder) {
			m, n := b.Dim("m"), b.Dim("n")
			mn := min(m, n)
			b.Mat("a", "lda", m, n, lapackgen.InOut, nil)
			b.Vec("d", mn, lapackgen.Out, false)
			b.Vec("e", mn-1, lapackgen.Out, false)
			b.Tau("tauQ", mn, lapackgen.Out, false)
			b.Tau("tauP", mn, lapackgen.Out, false)
			b.WorkL("work", "lwork", max(1, max(m, n)))
		},
		Call: func(impl gonum.Implementation, a *lgArgs) lgResult {
			impl.Dgebrd(a.Int("m"), a.Int("n"), a.F64s("a"), a.Int("lda"), a.F64s("d"), a.F64s("e"), a.F64s("tauQ"), a.F64s("tauP"), a.F64s("work"), a.Int("lwork"))
			return lgResult{}
		},
	}})

	// ---- Dgehrd -------------------------------------------------------------
	out = append(out, &lroutine{
		params:   hessParams(nil),
		sizeDims: []string{"n"},
		Routine: &lapackgen.Routine{
			Name: "Dgehrd", Dims: []string{"n", "ilo", "ihi"}, HasLWork: true,
			Layout: func(b *lgBuilder) {
				n := b.Dim("n")
				ilo := b.DimRange("ilo", 0, max(0, n-1))
				b.DimRange("ihi", min(ilo, n-1), n-1)
				b.Mat("a", "lda", n, n, lapackgen.InOut, nil)
				b.Tau("tau", n-1, lapackgen.Out, true)
				b.WorkL("work", "lwork", max(1, n))
			},
			Call: func(impl gonum.Implementation, a *lgArgs) lgResult {
				impl.Dgehrd(a.Int("n"), a.Int("ilo"), a.Int("ihi"), a.F64s("a"), a.Int("lda"), a.F64s("tau"), a.F64s("work"), a.Int("lwork"))
				return lgResult{}
			},
		},
	})

	// ---- Dsytrd -------------------------------------------------------------
	out = append(out, &lroutine{Routine: &lapackgen.Routine{
		Name: "Dsytrd", Dims: []string{"n"}, Flags: []lgFlag{{Name: "uplo", Values: lapackgen.Uplos}}, HasLWork: true,
		Layout: func(b *lgBuilder) {
			b.Flag("uplo")
			n := b.Dim("n")
			b.Mat("a", "lda", n, n, lapackgen.InOut, nil)
			b.Vec("d", n, lapackgen.Out, false)
			b.Vec("e", n-1, lapackgen.Out, false)
			b.Tau("tau", n-1, lapackgen.Out, false)
			b.WorkL("work", "lwork", 1)
		},
		Call: func(impl gonum.Implementation, a *lgArgs) lgResult {
			impl.Dsytrd(blas.Uplo(a.Int("uplo")), a.Int("n"), a.F64s("a"), a.Int("lda"), a.F64s("d"), a.F64s("e"), a.F64s("tau"), a.F64s("work"), a.Int("lwork"))
			return lgResult{}
		},
	}})

	// ---- Dbdsqr -------------------------------------------------------------
	out = append(out, &lroutine{
		sizeDims: []string{"n"},
		fixed: []lgParams{
			{Dims: map[string]int{"n": 2, "ncvt": 0, "nru": 0, "ncc": 0}, Flags: map[string]int{"uplo": int(blas.Upper)}},
			{Dims: map[string]int{"n": 5, "ncvt": 0, "nru": 0, "ncc": 0}, LDPad: 3, Flags: map[string]int{"uplo": int(blas.Lower)}},
		},
		skipFault: func(f *fault, a *lgArgs) bool {
			_, known := docUnrecognised.Load("Dbdsqr.work")
			return known && f.arg == "work"
		},
		Routine: &lapackgen.Routine{
			Name: "Dbdsqr", Dims: []string{"n", "ncvt", "nru", "ncc"}, Flags: []lgFlag{{Name: "uplo", Values: lapackgen.Uplos}},
			Layout: func(b *lgBuilder) {
				b.Flag("uplo")
				n, ncvt, nru, ncc := b.Dim("n"), b.Dim("ncvt"), b.Dim("nru"), b.Dim("ncc")
				b.Vec("d", n, lapackgen.InOut, false)
				b.Vec("e", n-1, lapackgen.InOut, false)
				optMat(b, "vt", "ldvt", ncvt > 0, n, ncvt, lapackgen.InOut)
				if nru > 0 {
					b.Mat("u", "ldu", nru, n, lapackgen.InOut, nil)
				} else {
					b.Mat("u", "ldu", 0, 0, lapackgen.InOut, nil)
				}
				optMat(b, "c", "ldc", ncc > 0, n, ncc, lapackgen.InOut)
				// documented minimal length of work, read from the doc comment
				vars := map[string]int{"n": n, "ncvt": ncvt, "nru": nru, "ncc": ncc}
				w, ok := docMin("lapack/gonum/dbdsqr.go", "Dbdsqr", reBdsqrWork, vars)
				if m := reBdsqrWork2.FindStringSubmatch(docOf("lapack/gonum/dbdsqr.go", "Dbdsqr")); !ok && m != nil {
					ex := m[3]
					if ncvt == 0 && nru == 0 && ncc == 0 && (m[2] == "" || n > 1) {
						ex = m[1]
					}
					if v, err := evalExpr(ex, vars); err == nil {
						w, ok = v, true
					}
				}
				if !ok {
					docUnrecognised.Store("Dbdsqr.work", true)
					w = 4 * n
				}
				b.Work("work", w)
			},
			Call: func(impl gonum.Implementation, a *lgArgs) lgResult {
				ok := impl.Dbdsqr(blas.Uplo(a.Int("uplo")), a.Int("n"), a.Int("ncvt"), a.Int("nru"), a.Int("ncc"), a.F64s("d"), a.F64s("e"),
					a.F64s("vt"), a.Int("ldvt"), a.F64s("u"), a.Int("ldu"), a.F64s("c"), a.Int("ldc"), a.F64s("work"))
				return lgResult{HasOK: true, OK: ok}
			},
		},
	})

	// ---- Dsteqr -------------------------------------------------------------
	out = append(out, &lroutine{
		fill: func(a *lgArgs, r *vrt.Rand) {
			if a.Int("compz") == int(lapack.EVOrig) {
				setIdentity(a.Mat("z"))
			}
		},
		Routine: &lapackgen.Routine{
			Name: "Dsteqr", Dims: []string{"n"}, Flags: []lgFlag{{Name: "compz", Values: evComps}},
			Layout: func(b *lgBuilder) {
				cz := b.Flag("compz")
				n := b.Dim("n")
				b.Vec("d", n, lapackgen.InOut, false)
				b.Vec("e", n-1, lapackgen.InOut, false)
				acc := lapackgen.Out
				if cz == int(lapack.EVOrig) {
					acc = lapackgen.InOut
				}
				optMat(b, "z", "ldz", cz != int(lapack.EVCompNone), n, n, acc)
				if cz != int(lapack.EVCompNone) {
					b.Work("work", max(1, 2*n-2))
				} else {
					b.Work("work", 0)
				}
			},
			Call: func(impl gonum.Implementation, a *lgArgs) lgResult {
				ok := impl.Dsteqr(lapack.EVComp(a.Int("compz")), a.Int("n"), a.F64s("d"), a.F64s("e"), a.F64s("z"), a.Int("ldz"), a.F64s("work"))
				return lgResult{HasOK: true, OK: ok}
			},
		},
	})

	// ---- Dtrevc3 ------------------------------------------------------------
	// "selpat" is not an argument of the routine: it selects the contents
	// of the selected slice (the layout must know how many columns the
	// selected eigenvectors need).
	trevcFlags := []lgFlag{{Name: "side", Values: evSides}, {Name: "howmny", Values: evHowMany}, {Name: "selpat", Values: []int{0, 1, 2}}}
	out = append(out, &lroutine{
		sizeDims:  []string{"n"},
		skipFault: func(f *fault, a *lgArgs) bool { return f.arg == "selpat" },
		fixed: func() []lgParams {
			var ps []lgParams
			for _, side := range evSides {
				_, _, m := trevcBlocks(8, 1)
				ps = append(ps, lgParams{Dims: map[string]int{"n": 8, "mm": m}, LDPad: 3,
					Flags: map[string]int{"side": side, "howmny": int(lapack.EVSelected), "selpat": 1}})
			}
			return ps
		}(),
		params: func(r *vrt.Rand, maxDim int) lgParams {
			p := lgParams{Dims: map[string]int{}, Flags: map[string]int{}}
			for _, f := range trevcFlags {
				p.Flags[f.Name] = f.Values[r.Intn(len(f.Values))]
			}
			n := r.Intn(maxDim + 1)
			p.Dims["n"] = n
			m := n
			if p.Flags["howmny"] == int(lapack.EVSelected) {
				_, _, m = trevcBlocks(n, p.Flags["selpat"])
			}
			p.Dims["mm"] = m + r.Intn(3)
			return p
		},
		fill: func(a *lgArgs, r *vrt.Rand) {
			n := a.Int("n")
			blk, sel, _ := trevcBlocks(n, a.Int("selpat"))
			t := a.Mat("t")
			for i := 0; i < n; i++ {
				for j := 0; j < i; j++ {
					t.Set(i, j, 0)
				}
				t.Set(i, i, float64(i+1)*0.75) // distinct eigenvalues
			}
			for j := 0; j+1 < n; j++ {
				if blk[j] {
					// standardised 2×2 block: equal diagonal, off-diagonal
					// entries of opposite sign
					t.Set(j+1, j+1, t.At(j, j))
					t.Set(j, j+1, 0.5)
					t.Set(j+1, j, -0.25)
				}
			}
			if a.Int("howmny") == int(lapack.EVSelected) {
				is := a.Ints("selected")
				for j := range is {
					is[j] = 0
					if j < n && sel[j] {
						is[j] = 1
					}
				}
			}
			if a.Int("howmny") == int(lapack.EVAllMulQ) {
				for _, nm := range []string{"vl", "vr"} {
					if v := a.Mat(nm); v.R > 0 {
						setIdentity(v)
					}
				}
			}
		},
		Routine: &lapackgen.Routine{
			Name: "Dtrevc3", Dims: []string{"n"}, Flags: trevcFlags, HasLWork: true,
			Layout: func(b *lgBuilder) {
				side, how, pat := b.Flag("side"), b.Flag("howmny"), b.Flag("selpat")
				leftv := side == int(lapack.EVLeft) || side == int(lapack.EVBoth)
				rightv := side == int(lapack.EVRight) || side == int(lapack.EVBoth)
				nsel := 0
				if how == int(lapack.EVSelected) {
					nsel = -1
				}
				// selected precedes n in the signature
				n := b.Dim("n")
				m := n
				if nsel < 0 {
					_, _, m = trevcBlocks(n, pat)
					b.Ints("selected", lapackgen.RoleIPiv, n, lapackgen.InOut, true, lapackgen.IntTaint, 0)
				} else {
					b.Ints("selected", lapackgen.RoleIPiv, 0, lapackgen.In, false, lapackgen.IntTaint, 0)
				}
				b.Mat("t", "ldt", n, n, lapackgen.In, nil)
				acc := lapackgen.Out
				if how == int(lapack.EVAllMulQ) {
					acc = lapackgen.InOut
				}
				// vl, vr are n×mm; the minimal mm is the number of columns needed.
				mm := b.DimRange("mm", m, -1)
				optMat(b, "vl", "ldvl", leftv && m > 0, n, mm, acc)
				optMat(b, "vr", "ldvr", rightv && m > 0, n, mm, acc)
				b.WorkL("work", "lwork", max(1, 3*n))
			},
			Call: func(impl gonum.Implementation, a *lgArgs) lgResult {
				var sel []bool
				is := a.Ints("selected")
				if a.Int("howmny") == int(lapack.EVSelected) || len(is) > 0 {
					sel = make([]bool, len(is))
					for i, v := range is {
						sel[i] = v != 0
					}
				}
				defer func() {
					for i := range sel {
						v := 0
						if sel[i] {
							v = 1
						}
						is[i] = v
					}
				}()
				m := impl.Dtrevc3(lapack.EVSide(a.Int("side")), lapack.EVHowMany(a.Int("howmny")), sel, a.Int("n"), a.F64s("t"), a.Int("ldt"),
					a.F64s("vl"), a.Int("ldvl"), a.F64s("vr"), a.Int("ldvr"), a.Int("mm"), a.F64s("work"), a.Int("lwork"))
				return lgResult{Int: m}
			},
		},
	})

	// ---- Dggsvd3 ------------------------------------------------------------
	out = append(out, &lroutine{
		sizeDims: []string{"n"},
		fixed: []lgParams{
			{Dims: map[string]int{"m": 0, "n": 1, "p": 0}, Flags: map[string]int{"jobU": int(lapack.GSVDU), "jobV": int(lapack.GSVDNone), "jobQ": int(lapack.GSVDNone)}},
			{Dims: map[string]int{"m": 0, "n": 3, "p": 3}, Flags: map[string]int{"jobU": int(lapack.GSVDU), "jobV": int(lapack.GSVDV), "jobQ": int(lapack.GSVDQ)}},
			{Dims: map[string]int{"m": 4, "n": 3, "p": 2}, LDPad: 3, Flags: map[string]int{"jobU": int(lapack.GSVDU), "jobV": int(lapack.GSVDV), "jobQ": int(lapack.GSVDQ)}},
			{Dims: map[string]int{"m": 4, "n": 6, "p": 0}, Flags: map[string]int{"jobU": int(lapack.GSVDU), "jobV": int(lapack.GSVDV), "jobQ": int(lapack.GSVDQ)}},
			{Dims: map[string]int{"m": 5, "n": 0, "p": 2}, Flags: map[string]int{"jobU": int(lapack.GSVDU), "jobV": int(lapack.GSVDV), "jobQ": int(lapack.GSVDQ)}},
			{Dims: map[string]int{"m": 2, "n": 5, "p": 3}, Flags: map[string]int{"jobU": int(lapack.GSVDNone), "jobV": int(lapack.GSVDV), "jobQ": int(lapack.GSVDNone)}},
		},
		skipFault: func(f *fault, a *lgArgs) bool {
			_, unknown := docUnrecognised.Load("Dggsvd3.lwork")
			zero := a.Int("m") == 0 || a.Int("n") == 0 || a.Int("p") == 0
			return (unknown || zero) && f.arg == "lwork"
		},
		Routine: &lapackgen.Routine{
			Name: "Dggsvd3", Dims: []string{"m", "n", "p"}, HasLWork: true,
			Flags: []lgFlag{{Name: "jobU", Values: gsvdU}, {Name: "jobV", Values: gsvdV}, {Name: "jobQ", Values: gsvdQ}},
			Layout: func(b *lgBuilder) {
				ju, jv, jq := b.Flag("jobU"), b.Flag("jobV"), b.Flag("jobQ")
				m, n, p := b.Dim("m"), b.Dim("n"), b.Dim("p")
				b.Mat("a", "lda", m, n, lapackgen.InOut, nil)
				b.Mat("b", "ldb", p, n, lapackgen.InOut, nil)
				b.Vec("alpha", n, lapackgen.Out, true)
				b.Vec("beta", n, lapackgen.Out, true)
				optMat(b, "u", "ldu", ju == int(lapack.GSVDU), m, m, lapackgen.Out)
				optMat(b, "v", "ldv", jv == int(lapack.GSVDV), p, p, lapackgen.Out)
				optMat(b, "q", "ldq", jq == int(lapack.GSVDQ), n, n, lapackgen.Out)
				// "lwork must be -1 or greater than n", read from the doc comment.
				// Problems with a zero dimension get a generous workspace: the
				// routine mishandles them independently of the workspace size.
				w, ok := docMin("lapack/gonum/dggsvd3.go", "Dggsvd3", reGgsvd3Lwork, map[string]int{"m": m, "n": n, "p": p})
				switch {
				case m == 0 || n == 0 || p == 0:
					w = 8*n + 64*(m+n+p) + 64
				case ok:
					w++
				default:
					if w, ok = docMin("lapack/gonum/dggsvd3.go", "Dggsvd3", reGgsvd3Lwork2, map[string]int{"m": m, "n": n, "p": p}); !ok {
						docUnrecognised.Store("Dggsvd3.lwork", true)
						w = 8*n + 64*(m+n+p) + 64
					}
				}
				b.WorkL("work", "lwork", max(1, w))
				b.Ints("iwork", lapackgen.RoleIWork, n, lapackgen.Scratch, false, lapackgen.IntTaint, 0)
			},
			Call: func(impl gonum.Implementation, a *lgArgs) lgResult {
				k, l, ok := impl.Dggsvd3(lapack.GSVDJob(a.Int("jobU")), lapack.GSVDJob(a.Int("jobV")), lapack.GSVDJob(a.Int("jobQ")),
					a.Int("m"), a.Int("n"), a.Int("p"), a.F64s("a"), a.Int("lda"), a.F64s("b"), a.Int("ldb"), a.F64s("alpha"), a.F64s("beta"),
					a.F64s("u"), a.Int("ldu"), a.F64s("v"), a.Int("ldv"), a.F64s("q"), a.Int("ldq"), a.F64s("work"), a.Int("lwork"), a.Ints("iwork"))
				return lgResult{HasOK: true, OK: ok, Int: k*1000 + l}
			},
		},
	})
	return out
}
