package main

import (
	"fmt"
	"math"
	"sync"
	"sync/atomic"

	"gonum.org/v1/gonum/blas"
	"gonum.org/v1/gonum/blas/blas64"
	"gonum.org/v1/gonum/lapack"
	"gonum.org/v1/gonum/lapack/gonum"
	"gonum.org/v1/gonum/lapack/lapack64"
	"gonum.org/v1/gonum/verifx/c02/lapackgen"
	"gonum.org/v1/gonum/verifx/vrt"
)

// Sub-check 2b: the wrapper layer lapack/lapack64. Every exported function
// is called with contract-satisfying arguments: a valid tuple of the LAPACK
// generators converted to the blas64 / lapack64 structs, with the slack the
// contract allows - slices with three spare elements where the doc says "at
// least" (tau, work, iwork, data, w, s ...), Stride minimal and minimal+2,
// zero-sized problems included. The call must return, must give bit for bit
// the operand contents of the direct lapack/gonum call on an identical copy
// with exactly sized slices, and must leave the spare elements alone.

type l64Func struct {
	name    string // lapack64 function
	routine string // descriptor of the underlying routine
	// noSlack lists slice arguments whose LENGTH carries meaning in the
	// wrapper ("k is determined by the length of tau").
	noSlack map[string]bool
	// fix adjusts drawn parameters to what the wrapper can express.
	fix  func(p *lapackgen.Params)
	call func(a *lapackgen.Args) lapackgen.Result
}

func g64(a *lapackgen.Args, data, ld string, rows, cols int) blas64.General {
	return blas64.General{Rows: rows, Cols: cols, Stride: a.Int(ld), Data: a.F64s(data)}
}

func okR(ok bool) lapackgen.Result { return lapackgen.Result{HasOK: true, OK: ok} }

func l64Funcs() []l64Func {
	ul := func(a *lapackgen.Args) blas.Uplo { return blas.Uplo(a.Int("uplo")) }
	tr := func(a *lapackgen.Args) blas.Transpose { return blas.Transpose(a.Int("trans")) }
	dg := func(a *lapackgen.Args) blas.Diag { return blas.Diag(a.Int("diag")) }
	nrm := func(a *lapackgen.Args) lapack.MatrixNorm { return lapack.MatrixNorm(a.Int("norm")) }
	sym := func(a *lapackgen.Args) blas64.Symmetric {
		return blas64.Symmetric{N: a.Int("n"), Stride: a.Int("lda"), Data: a.F64s("a"), Uplo: ul(a)}
	}
	tri := func(a *lapackgen.Args, d blas.Diag) blas64.Triangular {
		return blas64.Triangular{N: a.Int("n"), Stride: a.Int("lda"), Data: a.F64s("a"), Uplo: ul(a), Diag: d}
	}
	symb := func(a *lapackgen.Args) blas64.SymmetricBand {
		return blas64.SymmetricBand{N: a.Int("n"), K: a.Int("kd"), Stride: a.Int("ldab"), Data: a.F64s("ab"), Uplo: ul(a)}
	}
	trib := func(a *lapackgen.Args) blas64.TriangularBand {
		return blas64.TriangularBand{N: a.Int("n"), K: a.Int("kd"), Stride: a.Int("ldab"), Data: a.F64s("ab"), Uplo: ul(a), Diag: blas.NonUnit}
	}
	tdg := func(a *lapackgen.Args) lapack64.Tridiagonal {
		return lapack64.Tridiagonal{N: a.Int("n"), DL: a.F64s("dl"), D: a.F64s("d"), DU: a.F64s("du")}
	}
	rhs := func(a *lapackgen.Args) blas64.General { return g64(a, "b", "ldb", a.Int("n"), a.Int("nrhs")) }
	none := lapackgen.Result{}
	tauIsK := map[string]bool{"tau": true}
	return []l64Func{
		{name: "Potrf", routine: "Dpotrf", call: func(a *lapackgen.Args) lapackgen.Result { _, ok := lapack64.Potrf(sym(a)); return okR(ok) }},
		{name: "Potri", routine: "Dpotri", call: func(a *lapackgen.Args) lapackgen.Result {
			_, ok := lapack64.Potri(tri(a, blas.NonUnit))
			return okR(ok)
		}},
		{name: "Potrs", routine: "Dpotrs", call: func(a *lapackgen.Args) lapackgen.Result { lapack64.Potrs(tri(a, blas.NonUnit), rhs(a)); return none }},
		{name: "Pbcon", routine: "Dpbcon", call: func(a *lapackgen.Args) lapackgen.Result {
			return lapackgen.Result{F: lapack64.Pbcon(symb(a), a.Flt("anorm"), a.F64s("work"), a.Ints("iwork"))}
		}},
		{name: "Pbtrf", routine: "Dpbtrf", call: func(a *lapackgen.Args) lapackgen.Result { _, ok := lapack64.Pbtrf(symb(a)); return okR(ok) }},
		{name: "Pbtrs", routine: "Dpbtrs", call: func(a *lapackgen.Args) lapackgen.Result { lapack64.Pbtrs(trib(a), rhs(a)); return none }},
		{name: "Pstrf", routine: "Dpstrf", call: func(a *lapackgen.Args) lapackgen.Result {
			_, rank, ok := lapack64.Pstrf(sym(a), a.Ints("piv"), a.Flt("tol"), a.F64s("work"))
			return lapackgen.Result{HasOK: true, OK: ok, Int: rank}
		}},
		{name: "Pocon", routine: "Dpocon", call: func(a *lapackgen.Args) lapackgen.Result {
			return lapackgen.Result{F: lapack64.Pocon(sym(a), a.Flt("anorm"), a.F64s("work"), a.Ints("iwork"))}
		}},
		{name: "Gecon", routine: "Dgecon", call: func(a *lapackgen.Args) lapackgen.Result {
			n := a.Int("n")
			return lapackgen.Result{F: lapack64.Gecon(nrm(a), g64(a, "a", "lda", n, n), a.Flt("anorm"), a.F64s("work"), a.Ints("iwork"))}
		}},
		{name: "Gels", routine: "Dgels", call: func(a *lapackgen.Args) lapackgen.Result {
			m, n := a.Int("m"), a.Int("n")
			return okR(lapack64.Gels(tr(a), g64(a, "a", "lda", m, n), g64(a, "b", "ldb", max(m, n), a.Int("nrhs")), a.F64s("work"), a.Int("lwork")))
		}},
		{name: "Geqp3", routine: "Dgeqp3", call: func(a *lapackgen.Args) lapackgen.Result {
			lapack64.Geqp3(g64(a, "a", "lda", a.Int("m"), a.Int("n")), a.Ints("jpvt"), a.F64s("tau"), a.F64s("work"), a.Int("lwork"))
			return none
		}},
		{name: "Geqrf", routine: "Dgeqrf", call: func(a *lapackgen.Args) lapackgen.Result {
			lapack64.Geqrf(g64(a, "a", "lda", a.Int("m"), a.Int("n")), a.F64s("tau"), a.F64s("work"), a.Int("lwork"))
			return none
		}},
		{name: "Gelqf", routine: "Dgelqf", call: func(a *lapackgen.Args) lapackgen.Result {
			lapack64.Gelqf(g64(a, "a", "lda", a.Int("m"), a.Int("n")), a.F64s("tau"), a.F64s("work"), a.Int("lwork"))
			return none
		}},
		{name: "Gesvd", routine: "Dgesvd", call: func(a *lapackgen.Args) lapackgen.Result {
			m, n := a.Int("m"), a.Int("n")
			ok := lapack64.Gesvd(lapack.SVDJob(a.Int("jobU")), lapack.SVDJob(a.Int("jobVT")), g64(a, "a", "lda", m, n),
				g64(a, "u", "ldu", m, m), g64(a, "vt", "ldvt", n, n), a.F64s("s"), a.F64s("work"), a.Int("lwork"))
			return okR(ok)
		}},
		{name: "Getrf", routine: "Dgetrf", call: func(a *lapackgen.Args) lapackgen.Result {
			return okR(lapack64.Getrf(g64(a, "a", "lda", a.Int("m"), a.Int("n")), a.Ints("ipiv")))
		}},
		{name: "Getri", routine: "Dgetri", call: func(a *lapackgen.Args) lapackgen.Result {
			n := a.Int("n")
			return okR(lapack64.Getri(g64(a, "a", "lda", n, n), a.Ints("ipiv"), a.F64s("work"), a.Int("lwork")))
		}},
		{name: "Getrs", routine: "Dgetrs", call: func(a *lapackgen.Args) lapackgen.Result {
			n := a.Int("n")
			lapack64.Getrs(tr(a), g64(a, "a", "lda", n, n), rhs(a), a.Ints("ipiv"))
			return none
		}},
		// "iwork must have length n" (Dggsvp3 enforces it with !=)
		{name: "Ggsvd3", routine: "Dggsvd3", noSlack: map[string]bool{"iwork": true}, call: func(a *lapackgen.Args) lapackgen.Result {
			m, n, p := a.Int("m"), a.Int("n"), a.Int("p")
			k, l, ok := lapack64.Ggsvd3(lapack.GSVDJob(a.Int("jobU")), lapack.GSVDJob(a.Int("jobV")), lapack.GSVDJob(a.Int("jobQ")),
				g64(a, "a", "lda", m, n), g64(a, "b", "ldb", p, n), a.F64s("alpha"), a.F64s("beta"),
				g64(a, "u", "ldu", m, m), g64(a, "v", "ldv", p, p), g64(a, "q", "ldq", n, n), a.F64s("work"), a.Int("lwork"), a.Ints("iwork"))
			return lapackgen.Result{HasOK: true, OK: ok, Int: k*1000 + l}
		}},
		{name: "Gtsv", routine: "Dgtsv", call: func(a *lapackgen.Args) lapackgen.Result { return okR(lapack64.Gtsv(blas.NoTrans, tdg(a), rhs(a))) }},
		{name: "Lagtm", routine: "Dlagtm", call: func(a *lapackgen.Args) lapackgen.Result {
			m, n := a.Int("m"), a.Int("n")
			lapack64.Lagtm(tr(a), a.Flt("alpha"), lapack64.Tridiagonal{N: m, DL: a.F64s("dl"), D: a.F64s("d"), DU: a.F64s("du")},
				g64(a, "b", "ldb", m, n), a.Flt("beta"), g64(a, "c", "ldc", m, n))
			return none
		}},
		{name: "Lange", routine: "Dlange", call: func(a *lapackgen.Args) lapackgen.Result {
			return lapackgen.Result{F: lapack64.Lange(nrm(a), g64(a, "a", "lda", a.Int("m"), a.Int("n")), a.F64s("work"))}
		}},
		{name: "Langb", routine: "Dlangb", call: func(a *lapackgen.Args) lapackgen.Result {
			return lapackgen.Result{F: lapack64.Langb(nrm(a), blas64.Band{Rows: a.Int("m"), Cols: a.Int("n"), KL: a.Int("kl"), KU: a.Int("ku"), Stride: a.Int("ldab"), Data: a.F64s("ab")})}
		}},
		{name: "Langt", routine: "Dlangt", call: func(a *lapackgen.Args) lapackgen.Result {
			return lapackgen.Result{F: lapack64.Langt(nrm(a), tdg(a))}
		}},
		{name: "Lansb", routine: "Dlansb", call: func(a *lapackgen.Args) lapackgen.Result {
			return lapackgen.Result{F: lapack64.Lansb(nrm(a), symb(a), a.F64s("work"))}
		}},
		{name: "Lansy", routine: "Dlansy", call: func(a *lapackgen.Args) lapackgen.Result {
			return lapackgen.Result{F: lapack64.Lansy(nrm(a), sym(a), a.F64s("work"))}
		}},
		{name: "Lantr", routine: "Dlantr", fix: func(p *lapackgen.Params) { p.Dims["m"] = p.Dims["n"] },
			call: func(a *lapackgen.Args) lapackgen.Result {
				return lapackgen.Result{F: lapack64.Lantr(nrm(a), tri(a, dg(a)), a.F64s("work"))}
			}},
		{name: "Lantb", routine: "Dlantb", call: func(a *lapackgen.Args) lapackgen.Result {
			t := blas64.TriangularBand{N: a.Int("n"), K: a.Int("k"), Stride: a.Int("lda"), Data: a.F64s("a"), Uplo: ul(a), Diag: dg(a)}
			return lapackgen.Result{F: lapack64.Lantb(nrm(a), t, a.F64s("work"))}
		}},
		{name: "Lapmr", routine: "Dlapmr", call: func(a *lapackgen.Args) lapackgen.Result {
			lapack64.Lapmr(a.Bool("forward"), g64(a, "x", "ldx", a.Int("m"), a.Int("n")), a.Ints("k"))
			return none
		}},
		{name: "Lapmt", routine: "Dlapmt", call: func(a *lapackgen.Args) lapackgen.Result {
			lapack64.Lapmt(a.Bool("forward"), g64(a, "x", "ldx", a.Int("m"), a.Int("n")), a.Ints("k"))
			return none
		}},
		{name: "Orglq", routine: "Dorglq", noSlack: tauIsK, call: func(a *lapackgen.Args) lapackgen.Result {
			lapack64.Orglq(g64(a, "a", "lda", a.Int("m"), a.Int("n")), a.F64s("tau"), a.F64s("work"), a.Int("lwork"))
			return none
		}},
		{name: "Orgqr", routine: "Dorgqr", noSlack: tauIsK, call: func(a *lapackgen.Args) lapackgen.Result {
			lapack64.Orgqr(g64(a, "a", "lda", a.Int("m"), a.Int("n")), a.F64s("tau"), a.F64s("work"), a.Int("lwork"))
			return none
		}},
		{name: "Ormlq", routine: "Dormlq", call: func(a *lapackgen.Args) lapackgen.Result {
			m, n, k := a.Int("m"), a.Int("n"), a.Int("k")
			nq := n
			if blas.Side(a.Int("side")) == blas.Left {
				nq = m
			}
			lapack64.Ormlq(blas.Side(a.Int("side")), tr(a), g64(a, "a", "lda", k, nq), a.F64s("tau"), g64(a, "c", "ldc", m, n), a.F64s("work"), a.Int("lwork"))
			return none
		}},
		{name: "Ormqr", routine: "Dormqr", noSlack: tauIsK, call: func(a *lapackgen.Args) lapackgen.Result {
			m, n, k := a.Int("m"), a.Int("n"), a.Int("k")
			nq := n
			if blas.Side(a.Int("side")) == blas.Left {
				nq = m
			}
			lapack64.Ormqr(blas.Side(a.Int("side")), tr(a), g64(a, "a", "lda", nq, k), a.F64s("tau"), g64(a, "c", "ldc", m, n), a.F64s("work"), a.Int("lwork"))
			return none
		}},
		{name: "Syev", routine: "Dsyev", call: func(a *lapackgen.Args) lapackgen.Result {
			return okR(lapack64.Syev(lapack.EVJob(a.Int("jobz")), sym(a), a.F64s("w"), a.F64s("work"), a.Int("lwork")))
		}},
		{name: "Tbtrs", routine: "Dtbtrs", call: func(a *lapackgen.Args) lapackgen.Result {
			t := blas64.TriangularBand{N: a.Int("n"), K: a.Int("kd"), Stride: a.Int("lda"), Data: a.F64s("a"), Uplo: ul(a), Diag: dg(a)}
			return okR(lapack64.Tbtrs(tr(a), t, rhs(a)))
		}},
		{name: "Trcon", routine: "Dtrcon", call: func(a *lapackgen.Args) lapackgen.Result {
			return lapackgen.Result{F: lapack64.Trcon(nrm(a), tri(a, dg(a)), a.F64s("work"), a.Ints("iwork"))}
		}},
		{name: "Trtri", routine: "Dtrtri", call: func(a *lapackgen.Args) lapackgen.Result { return okR(lapack64.Trtri(tri(a, dg(a)))) }},
		{name: "Trtrs", routine: "Dtrtrs", call: func(a *lapackgen.Args) lapackgen.Result { return okR(lapack64.Trtrs(tr(a), tri(a, dg(a)), rhs(a))) }},
		{name: "Geev", routine: "Dgeev", call: func(a *lapackgen.Args) lapackgen.Result {
			n := a.Int("n")
			first := lapack64.Geev(lapack.LeftEVJob(a.Int("jobvl")), lapack.RightEVJob(a.Int("jobvr")), g64(a, "a", "lda", n, n), a.F64s("wr"), a.F64s("wi"),
				g64(a, "vl", "ldvl", n, n), g64(a, "vr", "ldvr", n, n), a.F64s("work"), a.Int("lwork"))
			return lapackgen.Result{Int: first}
		}},
	}
}

// dlagtmRoutine describes Dlagtm (not in c02/lapackgen); lapack64.Lagtm is
// its wrapper. alpha and beta are restricted to 0, 1, -1 as documented.
func dlagtmRoutine() *lroutine {
	return &lroutine{
		params: func(r *vrt.Rand, maxDim int) lapackgen.Params {
			return lapackgen.Params{
				Dims:  map[string]int{"m": r.Intn(maxDim + 1), "n": r.Intn(maxDim + 1), "ai": r.Intn(3), "bi": r.Intn(3)},
				Flags: map[string]int{"trans": []int{int(blas.NoTrans), int(blas.Trans), int(blas.ConjTrans)}[r.Intn(3)]},
			}
		},
		Routine: &lapackgen.Routine{
			Name: "Dlagtm", Dims: []string{"m", "n"}, Flags: []lapackgen.FlagSpec{{Name: "trans", Values: []int{int(blas.NoTrans), int(blas.Trans), int(blas.ConjTrans)}}},
			Layout: func(b *lapackgen.Builder) {
				b.Flag("trans")
				m, n := b.Dim("m"), b.Dim("n")
				ai, bi := b.DimRange("ai", 0, 2), b.DimRange("bi", 0, 2)
				vals := []float64{0, 1, -1}
				b.Scalar("alpha", vals[ai%3])
				b.Vec("dl", m-1, lapackgen.In, false)
				b.Vec("d", m, lapackgen.In, false)
				b.Vec("du", m-1, lapackgen.In, false)
				b.Mat("b", "ldb", m, n, lapackgen.In, nil)
				b.Scalar("beta", vals[bi%3])
				b.Mat("c", "ldc", m, n, lapackgen.InOut, nil)
			},
			Call: func(impl gonum.Implementation, a *lapackgen.Args) lapackgen.Result {
				impl.Dlagtm(blas.Transpose(a.Int("trans")), a.Int("m"), a.Int("n"), a.Flt("alpha"), a.F64s("dl"), a.F64s("d"), a.F64s("du"),
					a.F64s("b"), a.Int("ldb"), a.Flt("beta"), a.F64s("c"), a.Int("ldc"))
				return lapackgen.Result{}
			},
		},
	}
}

const slackN = 3

// addSlack replaces every slice argument whose length may exceed the
// minimum by a copy with slackN spare elements (payload NaNs / sentinels)
// and returns a checker of the spare elements.
func addSlack(a *lapackgen.Args, noSlack map[string]bool, weak *atomic.Int64) (spareOK func() string) {
	type sp struct {
		name    string
		f       []float64
		i       []int
		n       int
		scratch bool
	}
	var sps []sp
	for _, x := range a.List {
		if x.Exact || noSlack[x.Name] {
			continue
		}
		switch {
		case x.S != nil:
			n := len(x.S)
			s := make([]float64, n+slackN)
			copy(s, x.S)
			for k := n; k < len(s); k++ {
				s[k] = vrt.Taint(k)
			}
			x.S = s
			sps = append(sps, sp{name: x.Name, f: s, n: n, scratch: x.Access == lapackgen.Scratch})
		case x.IS != nil && (x.Role == lapackgen.RoleIWork || x.Role == lapackgen.RoleIPiv):
			n := len(x.IS)
			s := make([]int, n+slackN)
			copy(s, x.IS)
			for k := n; k < len(s); k++ {
				s[k] = lapackgen.IntSentinel
			}
			x.IS = s
			sps = append(sps, sp{name: x.Name, i: s, n: n, scratch: x.Access == lapackgen.Scratch})
		}
	}
	return func() string {
		for _, s := range sps {
			for k := s.n; k < s.n+slackN; k++ {
				if (s.f != nil && !vrt.IsTaint(s.f[k])) || (s.i != nil && s.i[k] != lapackgen.IntSentinel) {
					if s.scratch {
						// workspace beyond lwork: contents of a workspace are
						// unspecified; weak observation as in sub-check 2
						weak.Add(1)
						break
					}
					return s.name
				}
			}
		}
		return ""
	}
}

func runLapack64(c *vrt.Ctx) {
	impl := gonum.Implementation{}
	byName := map[string]*lroutine{}
	for _, l := range allLapackRoutines() {
		byName[l.Name] = l
	}
	byName["Dlagtm"] = dlagtmRoutine()
	fs := l64Funcs()
	reps := c.Pick(60, 600)
	if *lite {
		reps = 20
	}
	var calls, directPanics, weakWork atomic.Int64
	var mu sync.Mutex
	slackArgs := map[string]bool{}
	type job struct{ fi, lo int }
	var jobs []job
	for fi := range fs {
		for lo := 0; lo < reps; lo += 20 {
			jobs = append(jobs, job{fi, lo})
		}
	}
	vrt.Parallel(len(jobs), func(j int) {
		f := fs[jobs[j].fi]
		l := byName[f.routine]
		if l == nil {
			panic("c07: no descriptor for " + f.routine)
		}
		for rep := jobs[j].lo; rep < min(reps, jobs[j].lo+20); rep++ {
			rng := c.RNG("lapack64.params", jobs[j].fi, rep)
			p := l.randomParams(rng, []int{3, 6, 9, 13}[rep%4])
			if f.fix != nil {
				f.fix(&p)
				if l.Valid != nil && !l.Valid(&p) {
					continue
				}
			}
			p.LDPad = []int{0, 2}[rep%2]
			p.LWork = 0
			slack := (rep/2)%2 == 0
			// direct call on exactly sized slices
			d := l.build(p, c.RNG("lapack64.fill", jobs[j].fi, rep))
			var dres lapackgen.Result
			if pd := vrt.TryFast(func() { dres = d.Invoke(impl) }); pd != nil {
				// a defect of the routine itself (sub-check 2's business)
				directPanics.Add(1)
				continue
			}
			w := l.build(p, c.RNG("lapack64.fill", jobs[j].fi, rep))
			spare := func() string { return "" }
			if slack {
				spare = addSlack(w, f.noSlack, &weakWork)
				mu.Lock()
				for _, x := range w.List {
					if len(x.S) > 0 || len(x.IS) > 0 {
						if !x.Exact && !f.noSlack[x.Name] {
							slackArgs[f.name+"."+x.Name] = true
						}
					}
				}
				mu.Unlock()
			}
			desc := "lapack64." + f.name + " <- " + w.Describe()
			c.LastCase(desc)
			var wres lapackgen.Result
			pw := vrt.Try(func() { wres = f.call(w) })
			calls.Add(1)
			class := "exact-slices"
			if slack {
				class = "spare-elements"
			}
			zero := false
			for dname, v := range p.Dims {
				if v == 0 && !widthDims[dname] {
					zero = true
				}
			}
			c.Eval(fmt.Sprintf("lapack64.%s|%s|ldpad=%d|zero=%v", f.name, class, p.LDPad, zero), !zero)
			replay := map[string]any{"call": desc, "params": p.String(), "slack": slack}
			if pw != nil {
				cls, own := panicClass(pw, "lapack:")
				if own {
					cls = "lapack-panic"
				}
				c.Violation(fmt.Sprintf("lapack64.%s|valid-arguments:%s|panic:%s", f.name, class, cls),
					fmt.Sprintf("%s: the direct lapack/gonum call with the same arguments returns, the wrapper panicked: %s\n%s", desc, pw.Msg, pw.Stack), replay)
				continue
			}
			if name := spare(); name != "" {
				c.Violation(fmt.Sprintf("lapack64.%s|valid-arguments:%s|wrote-spare-elements:%s", f.name, class, name),
					fmt.Sprintf("%s: elements of %s beyond the required length changed", desc, name), replay)
			}
			diff := ""
			for k, x := range d.List {
				y := w.List[k]
				if x.Access == lapackgen.Scratch {
					continue
				}
				for e := range x.S {
					if math.Float64bits(x.S[e]) != math.Float64bits(y.S[e]) {
						diff = x.Name
					}
				}
				for e := range x.IS {
					if x.IS[e] != y.IS[e] {
						diff = x.Name
					}
				}
			}
			if diff == "" && (dres.OK != wres.OK || dres.Int != wres.Int || math.Float64bits(dres.F) != math.Float64bits(wres.F)) {
				diff = "result"
			}
			if diff != "" {
				c.Violation(fmt.Sprintf("lapack64.%s|valid-arguments:%s|differs-from-direct-call:%s", f.name, class, diff),
					fmt.Sprintf("%s: %s differs from what lapack/gonum computes for the same arguments", desc, diff), replay)
			}
		}
	})
	c.Count("lapack64.wrapper_calls", calls.Load())
	c.Count("lapack64.skipped_because_direct_call_panics", directPanics.Load())
	c.Count("lapack64.weak_observation_workspace_written_beyond_lwork", weakWork.Load())
	c.Note("lapack64.functions", len(fs))
	c.NoteSet("lapack64.arguments_called_with_spare_elements", slackArgs)
}
