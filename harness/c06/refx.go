package main

import (
	"math"
	"math/big"

	"gonum.org/v1/gonum/verifx/ref"
)

// Reference computations beyond package ref. Nothing here calls gonum.

// cholRef computes the upper Cholesky factor of the symmetric matrix a
// (a = Ut U); ok is false when a non-positive pivot is met.
func cholRef(a *ref.M) (u *ref.M, ok bool) {
	n := a.R
	u = ref.New(n, n)
	for j := 0; j < n; j++ {
		s := a.D[j*n+j]
		for k := 0; k < j; k++ {
			s -= u.D[k*n+j] * u.D[k*n+j]
		}
		if !(s > 0) {
			return u, false
		}
		d := math.Sqrt(s)
		u.D[j*n+j] = d
		for i := j + 1; i < n; i++ {
			t := a.D[j*n+i]
			for k := 0; k < j; k++ {
				t -= u.D[k*n+j] * u.D[k*n+i]
			}
			u.D[j*n+i] = t / d
		}
	}
	return u, true
}

// logDetRef returns log|det a| and the sign of det a from the reference LU.
func logDetRef(a *ref.M) (logabs, sign float64, singular bool) {
	lu, _, sgn, sing := ref.LU(a)
	if sing {
		return math.Inf(-1), 0, true
	}
	n := a.R
	sign = sgn
	for i := 0; i < n; i++ {
		d := lu.D[i*n+i]
		if d < 0 {
			sign = -sign
		}
		logabs += math.Log(math.Abs(d))
	}
	return logabs, sign, false
}

// condRef returns ||a||_inf ||a^-1||_inf, ||a||_1 ||a^-1||_1 and the
// inverse, from the reference LU with refinement (ok=false if singular).
func condRef(a *ref.M) (condInf, cond1 float64, inv *ref.M, ok bool) {
	inv, ok = ref.Inverse(a)
	if !ok {
		return math.Inf(1), math.Inf(1), nil, false
	}
	return a.NormInf() * inv.NormInf(), a.Norm1() * inv.Norm1(), inv, true
}

// op returns a or its transpose.
func op(a *ref.M, trans bool) *ref.M {
	if trans {
		return a.T()
	}
	return a
}

// residRatio returns max over columns j of
//
//	||b_j - a x_j||_inf / (||a||_inf ||x_j||_inf + ||b_j||_inf)
//
// which is the normwise backward error of x as a solution of a x = b
// (Rigal-Gaches). A zero denominator with a zero numerator counts as 0.
func residRatio(a, x, b *ref.M) float64 {
	r := ref.Sub(b, ref.Mul(a, x))
	an := a.NormInf()
	var worst float64
	for j := 0; j < b.C; j++ {
		rn := infNorm(col(r, j))
		den := an*infNorm(col(x, j)) + infNorm(col(b, j))
		var q float64
		switch {
		case math.IsNaN(rn) || math.IsNaN(den):
			return math.NaN()
		case rn == 0:
			q = 0
		case den == 0:
			return math.Inf(1)
		default:
			q = rn / den
		}
		if q > worst {
			worst = q
		}
	}
	return worst
}

// normalRatio returns max over columns of
//
//	||at (b_j - a x_j)||_2 / (||a||_F (||a||_F ||x_j||_2 + ||b_j||_2))
//
// the scaled normal-equations residual of a least-squares solution.
func normalRatio(a, x, b *ref.M) float64 {
	r := ref.Sub(b, ref.Mul(a, x))
	g := ref.Mul(a.T(), r)
	af := a.NormFro()
	var worst float64
	for j := 0; j < b.C; j++ {
		gn := vecNorm2(col(g, j))
		den := af * (af*vecNorm2(col(x, j)) + vecNorm2(col(b, j)))
		var q float64
		switch {
		case math.IsNaN(gn) || math.IsNaN(den):
			return math.NaN()
		case gn == 0:
			q = 0
		case den == 0:
			return math.Inf(1)
		default:
			q = gn / den
		}
		if q > worst {
			worst = q
		}
	}
	return worst
}

// nullRatio returns max over columns of ||P x_j||_2 / ||x_j||_2 where P is
// the orthogonal projector onto the null space of the full-row-rank wide
// matrix a (computed from the reference SVD): 0 for a minimum-norm solution.
func nullRatio(a, x *ref.M) float64 {
	_, s, v := ref.SVD(a) // v is n x k, k = min(m,n)
	k := len(s)
	var worst float64
	for j := 0; j < x.C; j++ {
		xj := col(x, j)
		xn := vecNorm2(xj)
		if math.IsNaN(xn) {
			return math.NaN()
		}
		if xn == 0 {
			continue
		}
		// p = x - V (Vt x)
		p := append([]float64(nil), xj...)
		for t := 0; t < k; t++ {
			var d float64
			for i := range xj {
				d += v.D[i*v.C+t] * xj[i]
			}
			for i := range p {
				p[i] -= d * v.D[i*v.C+t]
			}
		}
		if q := vecNorm2(p) / xn; q > worst {
			worst = q
		}
	}
	return worst
}

func infNorm(x []float64) float64 {
	var mx float64
	for _, v := range x {
		if math.IsNaN(v) {
			return math.NaN()
		}
		if a := math.Abs(v); a > mx {
			mx = a
		}
	}
	return mx
}

// relDiff returns max|a-b| / max(max|b|, tiny).
func relDiff(a, b *ref.M) float64 {
	d := ref.MaxDiff(a, b)
	s := b.MaxAbs()
	if s == 0 {
		if d == 0 {
			return 0
		}
		return math.Inf(1)
	}
	return d / s
}

// powRef returns a^n by repeated multiplication.
func powRef(a *ref.M, n int) *ref.M {
	p := ref.Eye(a.R)
	for i := 0; i < n; i++ {
		p = ref.Mul(p, a)
	}
	return p
}

// powAbsRef returns |a|^n (companion for the rounding band of powRef).
func powAbsRef(a *ref.M, n int) *ref.M {
	abs := ref.FromFunc(a.R, a.C, func(i, j int) float64 { return math.Abs(a.At(i, j)) })
	return powRef(abs, n)
}

// symFunc returns V f(Lambda) Vt for the symmetric matrix a (reference
// Jacobi eigen-decomposition).
func symFunc(a *ref.M, f func(float64) float64) (*ref.M, []float64) {
	w, v := ref.SymEig(a)
	n := a.R
	out := ref.New(n, n)
	for i := 0; i < n; i++ {
		for j := 0; j < n; j++ {
			var t float64
			for l := 0; l < n; l++ {
				t += v.D[i*n+l] * f(w[l]) * v.D[j*n+l]
			}
			out.D[i*n+j] = t
		}
	}
	return out, w
}

// expmBig computes e^a with big.Float arithmetic: scaling so that the
// 1-norm is below 1/2, a Taylor series run until the terms vanish at the
// working precision, and repeated squaring.
func expmBig(a *ref.M) *ref.M {
	const prec = 320
	n := a.R
	nf := func() *big.Float { return new(big.Float).SetPrec(prec) }
	s := 0
	for nrm := a.Norm1(); nrm > 0.5; nrm /= 2 {
		s++
	}
	x := make([]*big.Float, n*n)
	for i, v := range a.D {
		x[i] = nf().SetFloat64(v)
		x[i].SetMantExp(x[i], -s)
	}
	mul := func(p, q []*big.Float) []*big.Float {
		r := make([]*big.Float, n*n)
		t := nf()
		for i := 0; i < n; i++ {
			for j := 0; j < n; j++ {
				acc := nf()
				for k := 0; k < n; k++ {
					t.Mul(p[i*n+k], q[k*n+j])
					acc.Add(acc, t)
				}
				r[i*n+j] = acc
			}
		}
		return r
	}
	sum := make([]*big.Float, n*n)
	term := make([]*big.Float, n*n)
	for i := range sum {
		sum[i] = nf()
		term[i] = nf()
	}
	for i := 0; i < n; i++ {
		sum[i*n+i].SetInt64(1)
		term[i*n+i].SetInt64(1)
	}
	for k := 1; k <= 80; k++ {
		term = mul(term, x)
		kf := nf().SetInt64(int64(k))
		for i := range term {
			term[i].Quo(term[i], kf)
			sum[i].Add(sum[i], term[i])
		}
	}
	for ; s > 0; s-- {
		sum = mul(sum, sum)
	}
	out := ref.New(n, n)
	for i := range sum {
		out.D[i], _ = sum[i].Float64()
	}
	return out
}

// absM returns |a| elementwise.
func absM(a *ref.M) *ref.M {
	return ref.FromFunc(a.R, a.C, func(i, j int) float64 { return math.Abs(a.At(i, j)) })
}

// isSym reports exact symmetry.
func isSym(a *ref.M) bool {
	for i := 0; i < a.R; i++ {
		for j := i + 1; j < a.C; j++ {
			if a.D[i*a.C+j] != a.D[j*a.C+i] {
				return false
			}
		}
	}
	return true
}

// permRows returns P a where row i of the result is row p[i] of a.
func permRows(a *ref.M, p []int) *ref.M {
	out := ref.New(a.R, a.C)
	for i, pi := range p {
		copy(out.D[i*a.C:(i+1)*a.C], a.D[pi*a.C:(pi+1)*a.C])
	}
	return out
}

// isPerm reports whether p is a permutation of 0..n-1.
func isPerm(p []int, n int) bool {
	if len(p) != n {
		return false
	}
	seen := make([]bool, n)
	for _, v := range p {
		if v < 0 || v >= n || seen[v] {
			return false
		}
		seen[v] = true
	}
	return true
}
