package main

import (
	"gonum.org/v1/gonum/mat"
	"gonum.org/v1/gonum/verifx/ref"
	"gonum.org/v1/gonum/verifx/vrt"
)

// aProvider builds the coefficient operand of a Dense.Solve call: the
// operand, its value (the matrix of the system actually to be solved), a
// label for signatures and the 2-norm condition number by construction.
type aProvider struct {
	name  string
	build func(rng *vrt.Rand, m, n int) (aOp mat.Matrix, val *ref.M, kappa float64, ok bool)
}

func genProvider(kind int, kappa float64) aProvider {
	return aProvider{"A=" + matKindNames[kind], func(rng *vrt.Rand, m, n int) (mat.Matrix, *ref.M, float64, bool) {
		v := rectMatrix(rng, m, n, kappa)
		return makeMat(kind, v), v, kappa, true
	}}
}

// structured square providers (SolveToer fast paths and factorization
// objects used as the coefficient matrix).
var squareProviders = []aProvider{
	{"A=TriDense.Upper", func(rng *vrt.Rand, m, n int) (mat.Matrix, *ref.M, float64, bool) {
		v := triM(rng, n, true)
		return makeTriDense(v, true), v, 0, m == n
	}},
	{"A=TriDense.Lower", func(rng *vrt.Rand, m, n int) (mat.Matrix, *ref.M, float64, bool) {
		v := triM(rng, n, false)
		return makeTriDense(v, false), v, 0, m == n
	}},
	{"A=TriDense.Upper.T", func(rng *vrt.Rand, m, n int) (mat.Matrix, *ref.M, float64, bool) {
		v := triM(rng, n, true)
		return makeTriDense(v, true).T(), v.T(), 0, m == n
	}},
	{"A=TriDense.Lower.TTri", func(rng *vrt.Rand, m, n int) (mat.Matrix, *ref.M, float64, bool) {
		v := triM(rng, n, false)
		return makeTriDense(v, false).TTri(), v.T(), 0, m == n
	}},
	{"A=TriBandDense.Upper", func(rng *vrt.Rand, m, n int) (mat.Matrix, *ref.M, float64, bool) {
		k := min(n-1, 1+rng.Intn(3))
		v := bandOf(triM(rng, n, true), k)
		return makeTriBand(v, k, true), v, 0, m == n
	}},
	{"A=TriBandDense.Lower.T", func(rng *vrt.Rand, m, n int) (mat.Matrix, *ref.M, float64, bool) {
		k := min(n-1, 1+rng.Intn(3))
		v := bandOf(triM(rng, n, false), k)
		return makeTriBand(v, k, false).T(), v.T(), 0, m == n
	}},
	{"A=Tridiag", func(rng *vrt.Rand, m, n int) (mat.Matrix, *ref.M, float64, bool) {
		v := bandOf(diagDominant(rng, n, 1.2), 1)
		return makeTridiag(v), v, 0, m == n
	}},
	{"A=Tridiag.T", func(rng *vrt.Rand, m, n int) (mat.Matrix, *ref.M, float64, bool) {
		v := bandOf(diagDominant(rng, n, 1.2), 1)
		return makeTridiag(v).T(), v.T(), 0, m == n
	}},
	{"A=*LU", func(rng *vrt.Rand, m, n int) (mat.Matrix, *ref.M, float64, bool) {
		v := rectMatrix(rng, n, n, 100)
		var lu mat.LU
		lu.Factorize(makeMat(mkDense, v))
		return &lu, v, 100, m == n
	}},
	{"A=*LU.T", func(rng *vrt.Rand, m, n int) (mat.Matrix, *ref.M, float64, bool) {
		v := rectMatrix(rng, n, n, 100)
		var lu mat.LU
		lu.Factorize(makeMat(mkDense, v))
		return lu.T(), v.T(), 100, m == n
	}},
	{"A=*Cholesky", func(rng *vrt.Rand, m, n int) (mat.Matrix, *ref.M, float64, bool) {
		v := spd(rng, n, 100, 1)
		var c mat.Cholesky
		if !c.Factorize(makeSym(skSym, v)) {
			return nil, nil, 0, false
		}
		return &c, v, 100, m == n
	}},
	{"A=SymDense", func(rng *vrt.Rand, m, n int) (mat.Matrix, *ref.M, float64, bool) {
		v := spd(rng, n, 100, 1)
		return makeSym(skSym, v), v, 100, m == n
	}},
	{"A=DiagDense", func(rng *vrt.Rand, m, n int) (mat.Matrix, *ref.M, float64, bool) {
		d := make([]float64, n)
		v := ref.New(n, n)
		for i := range d {
			d[i] = rng.Uniform(1, 3)
			v.D[i*n+i] = d[i]
		}
		return mat.NewDiagDense(n, d), v, 3, m == n
	}},
}

// rectangular factorization objects
var rectProviders = []aProvider{
	{"A=*QR", func(rng *vrt.Rand, m, n int) (mat.Matrix, *ref.M, float64, bool) {
		if m < n {
			return nil, nil, 0, false
		}
		v := rectMatrix(rng, m, n, 100)
		var qr mat.QR
		qr.Factorize(makeMat(mkDense, v))
		return &qr, v, 100, true
	}},
	{"A=*QR.T", func(rng *vrt.Rand, m, n int) (mat.Matrix, *ref.M, float64, bool) {
		// the system matrix is n x m... here value is the m x n transpose of a tall matrix
		if m > n {
			return nil, nil, 0, false
		}
		v := rectMatrix(rng, n, m, 100)
		var qr mat.QR
		qr.Factorize(makeMat(mkDense, v))
		return qr.T(), v.T(), 100, true
	}},
	{"A=*LQ", func(rng *vrt.Rand, m, n int) (mat.Matrix, *ref.M, float64, bool) {
		if m > n {
			return nil, nil, 0, false
		}
		v := rectMatrix(rng, m, n, 100)
		var lq mat.LQ
		lq.Factorize(makeMat(mkDense, v))
		return &lq, v, 100, true
	}},
	{"A=*LQ.T", func(rng *vrt.Rand, m, n int) (mat.Matrix, *ref.M, float64, bool) {
		if m < n {
			return nil, nil, 0, false
		}
		v := rectMatrix(rng, n, m, 100)
		var lq mat.LQ
		lq.Factorize(makeMat(mkDense, v))
		return lq.T(), v.T(), 100, true
	}},
}

func modeFor(m, n int) int {
	switch {
	case m == n:
		return modeSquare
	case m > n:
		return modeLS
	default:
		return modeMinNorm
	}
}

// checkDenseSolve runs Dense.Solve and VecDense.SolveVec for one provider
// and shape.
func (h *H) checkDenseSolve(idx int, pv aProvider, m, n int) {
	rng := h.c.RNG("dsolve", idx)
	aOp, val, kappa, ok := pv.build(rng, m, n)
	if !ok {
		return
	}
	if kappa == 0 {
		kappa = ref.Cond2(val)
	}
	id := idf("Dense.Solve %s %dx%d #%d", pv.name, m, n, idx)
	sp := &solveSpec{routine: "Dense.Solve", path: pv.name, aop: val, mode: modeFor(m, n), kappa: kappa, wellCond: kappa < 1e7}
	nrhs := nrhsFor(rng)
	for _, pr := range h.densePairs(idx) {
		if m < n {
			// dirty the workspace pool with an ordinary solve of the same shape
			var d mat.Dense
			_ = d.Solve(makeMat(mkDense, rectMatrix(rng, n, m, 10)), makeMat(mkDense, ref.Scale(1e3, rhs(rng, n, nrhs))))
		}
		h.solveDense(sp, id, rng, nrhs, pr[0], pr[1], func(dst *mat.Dense, b mat.Matrix) error { return dst.Solve(aOp, b) })
		h.count("dsolve", 1)
	}
	spv := *sp
	spv.routine = "VecDense.SolveVec"
	for _, pr := range h.vecPairs(idx) {
		h.solveVec(&spv, id, rng, pr[0], pr[1], func(dst *mat.VecDense, b mat.Vector) error { return dst.SolveVec(aOp, b) })
		h.count("dsolve", 1)
	}
	// unchanged coefficient operand
	if ref.MaxDiff(ref.FromAt(aOp), val) > 1e-9*val.MaxAbs() {
		h.fail("Dense.Solve", pv.name, "modified-coefficient-matrix", id, "A changed", nil)
	}
}

// checkDenseSolveSingular: exactly singular coefficient matrices must be
// reported by a Condition error on every path.
func (h *H) checkDenseSolveSingular(idx, n int) {
	rng := h.c.RNG("dsolve-singular", idx)
	id := idf("Dense.Solve singular n=%d #%d", n, idx)
	type cse struct {
		name string
		a    mat.Matrix
		val  *ref.M
	}
	var cases []cse
	d := dupRow(rng, n)
	cases = append(cases, cse{"A=Dense,duplicated-row", makeMat(mkDense, d), d})
	cases = append(cases, cse{"A=Dense.T,duplicated-row", makeMat(mkTrans, d), d})
	cases = append(cases, cse{"A=BasicMatrix,duplicated-row", makeMat(mkBasic, d), d})
	// triangular with an exactly zero diagonal entry
	for _, up := range []bool{true, false} {
		t := triM(rng, n, up)
		k := rng.Intn(n)
		t.D[k*n+k] = 0
		nm := "A=TriDense.Lower,zero-diagonal"
		if up {
			nm = "A=TriDense.Upper,zero-diagonal"
		}
		cases = append(cases, cse{nm, makeTriDense(t, up), t})
		kb := min(n-1, 2)
		tb := bandOf(t, kb)
		nb := "A=TriBandDense.Lower,zero-diagonal"
		if up {
			nb = "A=TriBandDense.Upper,zero-diagonal"
		}
		cases = append(cases, cse{nb, makeTriBand(tb, kb, up), tb})
	}
	// tridiagonal with two equal rows pattern: zero matrix row
	td := bandOf(diagDominant(rng, n, 1.2), 1)
	k := rng.Intn(n)
	for j := 0; j < n; j++ {
		td.D[k*n+j] = 0
	}
	cases = append(cases, cse{"A=Tridiag,zero-row", makeTridiag(td), td})
	// tall matrix with a zero column, wide matrix with a zero row
	tall := randM(rng, n+2, n)
	kc := rng.Intn(n)
	for i := 0; i < n+2; i++ {
		tall.D[i*n+kc] = 0
	}
	cases = append(cases, cse{"A=Dense,tall,zero-column", makeMat(mkDense, tall), tall})
	cases = append(cases, cse{"A=Dense,wide,zero-row", makeMat(mkDense, tall.T()), tall.T()})
	for _, cs := range cases {
		b := rhs(rng, cs.val.R, 2)
		var dst mat.Dense
		var err error
		replay := replayMats("A", cs.val, "B", b)
		if h.try("Dense.Solve", cs.name, id, replay, func() { err = dst.Solve(cs.a, makeMat(mkDense, b)) }) {
			continue
		}
		h.count("dsolve", 1)
		h.eval("Dense.Solve|"+cs.name+"|"+sizeClass(n), true)
		if _, ok := isCondition(err); !ok {
			h.fail("Dense.Solve", cs.name, "no-condition-error-for-exactly-singular", id, idf("err=%v", err), replay)
		}
		var v mat.VecDense
		if h.try("VecDense.SolveVec", cs.name, id, replay, func() { err = v.SolveVec(cs.a, makeVec(vkVec, col(b, 0))) }) {
			continue
		}
		h.count("dsolve", 1)
		if _, ok := isCondition(err); !ok {
			h.fail("VecDense.SolveVec", cs.name, "no-condition-error-for-exactly-singular", id, idf("err=%v", err), replay)
		}
	}
}

// checkSolveToDirect exercises the SolveTo / SolveVecTo methods of the
// triangular, triangular band and tridiagonal types directly (both trans
// flags, destination kinds, dst aliasing b).
func (h *H) checkSolveToDirect(idx, n int) {
	rng := h.c.RNG("tri-solveto", idx)
	id := idf("SolveTo-direct n=%d #%d", n, idx)
	up := idx%2 == 0
	t := triM(rng, n, up)
	td := makeTriDense(t, up)
	kb := min(n-1, 1+rng.Intn(3))
	tbv := bandOf(t, kb)
	tb := makeTriBand(tbv, kb, up)
	trv := bandOf(diagDominant(rng, n, 1.2), 1)
	tr := makeTridiag(trv)
	ud := "Lower"
	if up {
		ud = "Upper"
	}
	for _, trans := range []bool{false, true} {
		tp := ud + ",notrans"
		if trans {
			tp = ud + ",trans"
		}
		sp := &solveSpec{routine: "TriDense.SolveTo", path: tp, aop: op(t, trans), mode: modeSquare, wellCond: true}
		for _, pr := range h.densePairs(idx + boolInt(trans)) {
			h.solveDense(sp, id, rng, nrhsFor(rng), pr[0], pr[1], func(dst *mat.Dense, b mat.Matrix) error { return td.SolveTo(dst, trans, b) })
		}
		spb := &solveSpec{routine: "TriBandDense.SolveTo", path: tp, aop: op(tbv, trans), mode: modeSquare, wellCond: true}
		for _, pr := range h.densePairs(idx + 1 + boolInt(trans)) {
			h.solveDense(spb, id, rng, nrhsFor(rng), pr[0], pr[1], func(dst *mat.Dense, b mat.Matrix) error { return tb.SolveTo(dst, trans, b) })
		}
		spbv := &solveSpec{routine: "TriBandDense.SolveVecTo", path: tp, aop: op(tbv, trans), mode: modeSquare, wellCond: true}
		for _, pr := range h.vecPairs(idx + boolInt(trans)) {
			h.solveVec(spbv, id, rng, pr[0], pr[1], func(dst *mat.VecDense, b mat.Vector) error { return tb.SolveVecTo(dst, trans, b) })
		}
		tq := "notrans"
		if trans {
			tq = "trans"
		}
		spt := &solveSpec{routine: "Tridiag.SolveTo", path: tq, aop: op(trv, trans), mode: modeSquare, wellCond: true}
		for _, pr := range h.densePairs(idx + 2 + boolInt(trans)) {
			h.solveDense(spt, id, rng, nrhsFor(rng), pr[0], pr[1], func(dst *mat.Dense, b mat.Matrix) error { return tr.SolveTo(dst, trans, b) })
		}
		sptv := &solveSpec{routine: "Tridiag.SolveVecTo", path: tq, aop: op(trv, trans), mode: modeSquare, wellCond: true}
		for _, pr := range h.vecPairs(idx + 1 + boolInt(trans)) {
			h.solveVec(sptv, id, rng, pr[0], pr[1], func(dst *mat.VecDense, b mat.Vector) error { return tr.SolveVecTo(dst, trans, b) })
		}
	}
	h.count("tri-solveto", 1)
}

// checkSolveSelf: Dense.Solve(a, a) for a square nonsingular a is the
// identity (fast path in Solve).
func (h *H) checkSolveSelf(idx, n int) {
	rng := h.c.RNG("dsolve-self", idx)
	id := idf("Dense.Solve(a,a) n=%d #%d", n, idx)
	v := rectMatrix(rng, n, n, 10)
	a := makeMat(mkDense, v)
	dst, outside := dstDense(idx%nDstKinds, n, n)
	replay := replayMats("A", v)
	var err error
	if h.try("Dense.Solve", "a==b", id, replay, func() { err = dst.Solve(a, a) }) {
		return
	}
	h.count("dsolve", 1)
	h.eval("Dense.Solve|a==b|"+sizeClass(n)+"|dst="+dstKindNames[idx%nDstKinds], true)
	if outside() {
		h.fail("Dense.Solve", "a==b", "wrote-outside-destination-window", id, "", replay)
	}
	if err != nil {
		h.fail("Dense.Solve", "a==b", "condition-error-on-well-conditioned", id, err.Error(), replay)
		return
	}
	x, ok := h.finiteResult("Dense.Solve", "a==b", id, dst, replay)
	if ok {
		sp := &solveSpec{routine: "Dense.Solve", path: "a==b", aop: v, mode: modeSquare, wellCond: true}
		h.judge(sp, id, x, v, replay)
	}
}
