package main

import (
	"os"
	"path/filepath"
	"strings"
	"sync"
)

// Doc comments are read from the gonum tree under test at run time
// ($VERIF_REPO, default /repo): a clause that exists only because a doc
// comment promises it is demanded only while the comment says so.

var (
	docMu    sync.Mutex
	docCache = map[string][]string{}
)

func repoRoot() string {
	if r := os.Getenv("VERIF_REPO"); r != "" {
		return r
	}
	return "/repo"
}

func fileLines(rel string) []string {
	docMu.Lock()
	defer docMu.Unlock()
	if l, ok := docCache[rel]; ok {
		return l
	}
	b, err := os.ReadFile(filepath.Join(repoRoot(), rel))
	var l []string
	if err == nil {
		l = strings.Split(string(b), "\n")
	}
	docCache[rel] = l
	return l
}

// docOf returns the comment block immediately above the first line that
// starts with decl in file rel, with whitespace normalised to single
// spaces and comment markers removed; "" if not found.
func docOf(rel, decl string) string {
	lines := fileLines(rel)
	for i, ln := range lines {
		if !strings.HasPrefix(ln, decl) {
			continue
		}
		var parts []string
		for j := i - 1; j >= 0; j-- {
			t := strings.TrimSpace(lines[j])
			if !strings.HasPrefix(t, "//") {
				break
			}
			parts = append([]string{strings.TrimSpace(strings.TrimPrefix(t, "//"))}, parts...)
		}
		return strings.Join(strings.Fields(strings.Join(parts, " ")), " ")
	}
	return ""
}

// docSays reports whether the doc comment of decl contains phrase.
func docSays(rel, decl, phrase string) bool {
	return strings.Contains(docOf(rel, decl), strings.Join(strings.Fields(phrase), " "))
}
