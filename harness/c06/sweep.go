package main

import (
	"math"
	"regexp"
	"sort"
	"strconv"
	"strings"

	"gonum.org/v1/gonum/mat"
	"gonum.org/v1/gonum/verifx/ref"
	"gonum.org/v1/gonum/verifx/vrt"
)

// Norm sweep of Dense.Exp across the regime switches of the implementation
// and graded-scaling value classes for the determinant accessors.

// expThresholds reads the Pade thresholds from the implementation under
// test (theta: <x> literals and theta13 = <x>); the known values are the
// fallback.
func expThresholds() []float64 {
	th := map[float64]bool{0.015: true, 0.25: true, 0.95: true, 2.1: true, 5.4: true}
	src := strings.Join(fileLines("mat/dense_arithmetic.go"), "\n")
	for _, re := range []*regexp.Regexp{regexp.MustCompile(`theta:\s*([0-9.eE+-]+)`), regexp.MustCompile(`theta13\s*=\s*([0-9.eE+-]+)`)} {
		for _, m := range re.FindAllStringSubmatch(src, -1) {
			if v, err := strconv.ParseFloat(m[1], 64); err == nil && v > 0 && v < 100 {
				th[v] = true
			}
		}
	}
	out := make([]float64, 0, len(th))
	for v := range th {
		out = append(out, v)
	}
	sort.Float64s(out)
	return out
}

// expNormGrid: 30 log-spaced norms from 1e-3 to 50, and around every
// threshold t: t/2, 0.99 t, t, 1.01 t, 2 t, the mid-point to the next
// threshold, and around the largest threshold also t 2^k (0.99, 1.01),
// k = -1..3 (the squaring counts) and 0.8 t/2 .. 1.25 t/2.
func expNormGrid() []float64 {
	var g []float64
	for i := 0; i < 30; i++ {
		g = append(g, 1e-3*math.Pow(50/1e-3, float64(i)/29))
	}
	th := expThresholds()
	for i, t := range th {
		g = append(g, t/2, 0.99*t, t, 1.01*t, 2*t)
		if i+1 < len(th) {
			g = append(g, 0.5*(t+th[i+1]), math.Sqrt(t*th[i+1]))
		}
	}
	top := th[len(th)-1]
	for k := -1; k <= 3; k++ {
		g = append(g, 0.99*top*math.Ldexp(1, k), 1.01*top*math.Ldexp(1, k), 1.4*top*math.Ldexp(1, k))
	}
	g = append(g, 0.4*top, 0.45*top, 0.55*top, 0.62*top)
	sort.Float64s(g)
	return g
}

// sweepDirection builds the fixed direction matrix of a class with 1-norm 1.
func sweepDirection(rng *vrt.Rand, n int, class string) *ref.M {
	var a *ref.M
	switch class {
	case "general", "symmetric", "normal", "nilpotent":
		a = expMatrix(rng, n, class, 1)
	case "diagonal":
		a = ref.New(n, n)
		for i := 0; i < n; i++ {
			a.D[i*n+i] = rng.Sym()
		}
	case "skew":
		a = ref.New(n, n)
		for i := 0; i < n; i++ {
			for j := i + 1; j < n; j++ {
				v := rng.Sym()
				a.D[i*n+j] = v
				a.D[j*n+i] = -v
			}
		}
	}
	if n1 := a.Norm1(); n1 > 0 {
		a = ref.Scale(1/n1, a)
	}
	return a
}

// checkExpSweep runs Dense.Exp on target * direction for every norm of the
// grid.
func (h *H) checkExpSweep(idx, n int, class string) {
	rng := h.c.RNG("exp-sweep", idx)
	dir := sweepDirection(rng, n, class)
	if dir.Norm1() == 0 {
		return // 1x1 nilpotent / skew: nothing to scale
	}
	normal := class == "symmetric" || class == "normal" || class == "diagonal" || class == "skew"
	for gi, target := range expNormGrid() {
		a := ref.Scale(target, dir)
		n1 := a.Norm1()
		id := idf("Dense.Exp sweep n=%d class=%s |A|_1=%.6g #%d", n, class, n1, idx)
		replay := replayMats("A", a, "class", class)
		var want *ref.M
		switch {
		case class == "diagonal":
			want = ref.New(n, n)
			for i := 0; i < n; i++ {
				want.D[i*n+i] = math.Exp(a.D[i*n+i])
			}
		case n <= 4:
			want = expmBig(a)
		case class == "symmetric":
			want, _ = symFunc(a, math.Exp)
		}
		dst, outside := dstDense((idx+gi)%nDstKinds, n, n)
		aOp := makeMat((idx+gi)%nMatKinds, a)
		path := class + "," + padeClass(n1)
		if h.try("Dense.Exp", path, id, replay, func() { dst.Exp(aOp) }) {
			continue
		}
		h.count("exp", 1)
		h.eval("Dense.Exp|sweep|"+class+"|"+sizeClass(n)+idf("|grid%d", gi), true)
		if outside() {
			h.fail("Dense.Exp", path, "wrote-outside-destination-window", id, "", replay)
		}
		x, okf := h.finiteResult("Dense.Exp", path, id, dst, replay)
		if !okf {
			continue
		}
		if want != nil {
			if normal {
				scale := (1 + n1) * math.Max(want.MaxAbs(), 1e-300) * math.Sqrt(float64(n))
				h.check("exp-normal", "Dense.Exp", path, ref.MaxDiff(x, want), float64(n)*eps*scale, id, replay)
			} else {
				h.check("exp-general", "Dense.Exp", path, ref.MaxDiff(x, want), float64(n)*eps*(1+n1)*math.Exp(n1), id, replay)
			}
		}
		if class == "skew" {
			// the exponential of a skew-symmetric matrix is orthogonal
			h.check("exp-skew-orthogonal", "Dense.Exp", path, ref.OrthoResid(x), float64(n)*eps*(1+n1), id, replay)
		}
		// commuting pair: B = c A^2 + d I commutes with A, e^(A+B) = e^A e^B
		if (class == "general" || class == "symmetric") && n >= 2 && gi%3 == 0 {
			c, d := 0.3/math.Max(n1, 1e-3), 0.25
			b := ref.Scale(c, ref.Mul(a, a))
			for i := 0; i < n; i++ {
				b.D[i*n+i] += d
			}
			var eb, eab mat.Dense
			if h.try("Dense.Exp", path, id, replay, func() { eb.Exp(makeMat(mkDense, b)); eab.Exp(makeMat(mkDense, ref.Add(a, b))) }) {
				continue
			}
			h.count("exp", 2)
			prod := ref.Mul(x, ref.FromAt(&eb))
			nb := b.Norm1()
			h.check("exp-commuting-pair", "Dense.Exp", path, ref.MaxDiff(ref.FromAt(&eab), prod), float64(n)*eps*(1+n1+nb)*math.Exp(n1+nb), id, replay)
		}
	}
}

// ---------------------------------------------------------------------------
// graded determinants

// gradedExponents returns the exponent pattern of a diagonal scaling.
func gradedExponents(n int, pattern string, e int) []int {
	x := make([]int, n)
	for i := range x {
		switch pattern {
		case "large-first":
			x[i] = e
			if i >= (n+1)/2 {
				x[i] = -e
			}
		case "small-first":
			x[i] = -e
			if i >= (n+1)/2 {
				x[i] = e
			}
		case "interleaved":
			x[i] = e
			if i%2 == 1 {
				x[i] = -e
			}
		case "uniform-huge":
			x[i] = e
		case "uniform-tiny":
			x[i] = -e
		}
	}
	return x
}

// checkDetGraded: A = D1 S D2 with exact powers of two, so that
// logdet(A) = logdet(S) + ln 2 * sum of exponents exactly. Every Det /
// LogDet accessor is called directly and compared with the reference, with
// its own partner (Det == sign exp(LogDet) whenever representable) and
// across factorizations.
func (h *H) checkDetGraded(idx, n int, pattern string, e int, symmetric bool) {
	rng := h.c.RNG("det-graded", idx)
	id := idf("det-graded n=%d pattern=%s e=%d sym=%v #%d", n, pattern, e, symmetric, idx)
	var s *ref.M
	if symmetric {
		s = spd(rng, n, rng.PickFloat(5, 50), 1)
	} else {
		s = withSV(rng, n, n, geomSpectrum(n, rng.PickFloat(5, 50)))
	}
	e1 := gradedExponents(n, pattern, e)
	e2 := e1
	if !symmetric {
		// an independent column scaling, half the magnitude
		pats := []string{"large-first", "small-first", "interleaved"}
		e2 = gradedExponents(n, pats[idx%3], e/2)
	}
	a := ref.FromFunc(n, n, func(i, j int) float64 { return math.Ldexp(s.At(i, j), e1[i]+e2[j]) })
	sl, ss, sing := logDetRef(s)
	condS, _, _, okInv := condRef(s)
	if sing || !okInv {
		return
	}
	var esum int
	for i := 0; i < n; i++ {
		esum += e1[i] + e2[i]
	}
	rl := sl + math.Ln2*float64(esum)
	unit := float64(n) * eps * condS * (1 + math.Abs(rl) + math.Abs(sl))
	replay := replayMats("S", s, "e1", e1, "e2", e2, "A", a)
	path := pattern

	type acc struct {
		name      string
		det, ld   float64
		sign      float64
		hasDet    bool
		hasLogDet bool
	}
	var accs []acc
	run := func(name string, f func() acc) {
		var r acc
		if h.try(name, path, id, replay, func() { r = f() }) {
			return
		}
		r.name = name
		accs = append(accs, r)
	}
	dense := makeMat(idx%nMatKinds, a)
	run("LU", func() acc {
		var lu mat.LU
		lu.Factorize(dense)
		ld, sg := lu.LogDet()
		return acc{det: lu.Det(), ld: ld, sign: sg, hasDet: true, hasLogDet: true}
	})
	run("mat", func() acc {
		ld, sg := mat.LogDet(dense)
		return acc{det: mat.Det(dense), ld: ld, sign: sg, hasDet: true, hasLogDet: true}
	})
	if symmetric {
		run("Cholesky", func() acc {
			var c mat.Cholesky
			if !c.Factorize(makeSym(idx%nSymKinds, a)) {
				return acc{ld: math.NaN(), det: math.NaN(), sign: 1, hasDet: true, hasLogDet: true}
			}
			return acc{det: c.Det(), ld: c.LogDet(), sign: 1, hasDet: true, hasLogDet: true}
		})
		run("BandCholesky", func() acc {
			var c mat.BandCholesky
			if !c.Factorize(makeSymBand(a, n-1)) {
				return acc{ld: math.NaN(), det: math.NaN(), sign: 1, hasDet: true, hasLogDet: true}
			}
			return acc{det: c.Det(), ld: c.LogDet(), sign: 1, hasDet: true, hasLogDet: true}
		})
	}
	h.count("cross", len(accs)*3)
	h.eval("det-graded|"+pattern+idf("|e=%d|sym=%v|", e, symmetric)+sizeClass(n), true)
	for _, r := range accs {
		if math.IsNaN(r.ld) {
			h.fail(r.name+".Factorize", path, "ok-false-for-positive-definite", id, "Factorize of D S D returned false", replay)
			continue
		}
		if r.sign != ss {
			h.fail(r.name+".LogDet", path, "sign", id, idf("sign %v, reference %v", r.sign, ss), replay)
			continue
		}
		h.check("logdet", r.name+".LogDet", path, math.Abs(r.ld-rl), unit, id, replay)
		switch {
		case math.Abs(rl) < 650:
			want := ss * math.Exp(rl)
			// the unit is relative to the determinant: exp amplifies an
			// absolute error of the logarithm into a relative one.
			h.check("det", r.name+".Det", path, math.Abs(r.det-want), unit*math.Abs(want), id, replay)
		case rl > 720:
			if !math.IsInf(r.det, int(ss)) {
				h.fail(r.name+".Det", path, "not-infinite-for-overflowing-determinant", id, idf("Det=%v, log|det|=%v", r.det, rl), replay)
			}
		case rl < -760:
			if r.det != 0 {
				h.fail(r.name+".Det", path, "not-zero-for-underflowing-determinant", id, idf("Det=%v, log|det|=%v", r.det, rl), replay)
			}
		}
	}
	for i := range accs {
		for j := i + 1; j < len(accs); j++ {
			if math.IsNaN(accs[i].ld) || math.IsNaN(accs[j].ld) {
				continue
			}
			h.check("logdet-pairwise", accs[i].name+".LogDet~"+accs[j].name+".LogDet", path, math.Abs(accs[i].ld-accs[j].ld), 2*unit, id, replay)
		}
	}
}
