package main

import (
	"math"

	"gonum.org/v1/gonum/mat"
	"gonum.org/v1/gonum/verifx/ref"
	"gonum.org/v1/gonum/verifx/vrt"
)

// luFactors extracts L, U and the row permutation of lu and checks the
// structural clauses and the reconstruction P L U = a. extra scales the
// reconstruction unit (1 for a fresh factorization; the number of updates
// applied for an updated one).
func (h *H) luFactors(routine, path, id string, lu *mat.LU, a *ref.M, extra float64, replay func() any) (l, u *ref.M, piv []int, ok bool) {
	n := a.R
	var lt, ut mat.TriDense
	if h.try("LU.LTo", path, id, replay, func() { lu.LTo(&lt) }) {
		return
	}
	if h.try("LU.UTo", path, id, replay, func() { lu.UTo(&ut) }) {
		return
	}
	if h.try("LU.RowPivots", path, id, replay, func() { piv = lu.RowPivots(nil) }) {
		return
	}
	h.count("lu", 3)
	l, u = ref.FromAt(&lt), ref.FromAt(&ut)
	if l.R != n || u.R != n {
		h.fail(routine, path, "factor-shape", id, "L or U has the wrong size", replay)
		return
	}
	if !ref.IsLowerTri(l) || !ref.IsUpperTri(u) {
		h.fail(routine, path, "factor-not-triangular", id, "L not lower or U not upper triangular", replay)
		return
	}
	for i := 0; i < n; i++ {
		if l.At(i, i) != 1 {
			h.fail(routine, path, "L-diagonal-not-unit", id, idf("L[%d,%d]=%v", i, i, l.At(i, i)), replay)
			return
		}
	}
	if !isPerm(piv, n) {
		h.fail(routine, path, "pivots-not-a-permutation", id, idf("RowPivots=%v", piv), replay)
		return
	}
	// Deprecated Pivot must agree with RowPivots, also with a given dst.
	dst := make([]int, n)
	var p2 []int
	if !h.try("LU.Pivot", path, id, replay, func() { p2 = lu.Pivot(dst) }) {
		for i := range piv {
			if p2[i] != piv[i] || dst[i] != piv[i] {
				h.fail("LU.Pivot", path, "differs-from-RowPivots", id, idf("Pivot=%v RowPivots=%v", p2, piv), replay)
				break
			}
		}
	}
	// P L U = A with (P M)[i,:] = M[piv[i],:]  (Dense.Permutation: P[i,p[i]] = 1).
	lup := permRows(ref.Mul(l, u), piv)
	unit := float64(n) * eps * extra * math.Max(permRows(ref.MulAbs(l, u), piv).MaxAbs(), a.MaxAbs())
	if !h.check("lu-reconstruction", routine, path, ref.MaxDiff(lup, a), unit, id, replay) {
		return
	}
	// At (and T) must give the same matrix.
	at := ref.FromAt(lu)
	if !h.check("lu-At", "LU.At", path, ref.MaxDiff(at, a), unit, id, replay) {
		return
	}
	return l, u, piv, true
}

// luScalars checks Det, LogDet and Cond of lu against the reference values
// of the matrix a it represents. normBound is an upper bound on the norm
// gonum may legitimately use in place of ||a||_inf (>= ||a||_inf).
func (h *H) luScalars(path, id string, lu *mat.LU, a *ref.M, normBound, extra float64, replay func() any) {
	n := a.R
	condInf, _, inv, okInv := condRef(a)
	if !okInv || condInf > 1e10 {
		return
	}
	var det, ld, sign, cond float64
	if h.try("LU.Det", path, id, replay, func() { det = lu.Det() }) {
		return
	}
	if h.try("LU.LogDet", path, id, replay, func() { ld, sign = lu.LogDet() }) {
		return
	}
	if h.try("LU.Cond", path, id, replay, func() { cond = lu.Cond() }) {
		return
	}
	h.count("lu", 3)
	h.eval("LU.scalars|"+path+"|"+sizeClass(n), true)
	rl, rs, _ := logDetRef(a)
	unit := float64(n) * eps * condInf * extra
	if sign != rs {
		h.fail("LU.LogDet", path, "sign", id, idf("sign %v, reference %v (log|det| %v vs %v)", sign, rs, ld, rl), replay)
	} else {
		h.check("logdet", "LU.LogDet", path, math.Abs(ld-rl), unit*(1+math.Abs(rl)), id, replay)
	}
	if math.Abs(rl) < 600 {
		want := rs * math.Exp(rl)
		if det == 0 {
			h.fail("LU.Det", path, "zero-for-nonsingular", id, idf("Det=0, reference %v (cond_inf %.3g)", want, condInf), replay)
		} else {
			h.check("det", "LU.Det", path, math.Abs(det-want), unit*(1+math.Abs(rl))*math.Abs(want), id, replay)
		}
	}
	h.condBand("LU.Cond", path, id, cond, a.NormInf()*inv.NormInf(), normBound*inv.NormInf(), n, condInf, replay)
}

// condBand checks a condition-number estimate: it must not be below
// trueLow/(condUnderFactor*n) and not above trueHigh*(1+slack) where slack
// covers the rounding of the factors the estimate is computed from.
func (h *H) condBand(routine, path, id string, got, trueLow, trueHigh float64, n int, kappa float64, replay func() any) bool {
	if math.IsNaN(got) {
		h.fail(routine, path, "cond-nan", id, "Cond is NaN", replay)
		return false
	}
	// lower side: the estimator may underestimate, by an empirical factor.
	ok1 := h.check("cond-underestimate", routine, path, trueLow/got, 1, id, replay)
	slack := 1 + 1e-6 + 1e3*float64(n)*eps*kappa
	ok2 := h.check("cond-overestimate", routine, path, got/(trueHigh*slack), 1, id, replay)
	return ok1 && ok2
}

// luMatrix builds the test matrix of a class; cond is the 2-norm condition
// number by construction (0 = unknown).
func luMatrix(rng *vrt.Rand, n int, class string) (a *ref.M, wellCond bool) {
	switch class {
	case "random":
		// A random matrix is well conditioned with high probability but not
		// surely; callers decide wellCond from the reference condition number.
		return randM(rng, n, n), false
	case "cond1e3":
		return withSV(rng, n, n, geomSpectrum(n, 1e3)), true
	case "cond1e6":
		return withSV(rng, n, n, geomSpectrum(n, 1e6)), true
	case "diagdom":
		return diagDominant(rng, n, 1.5), true
	case "scaled":
		a := withSV(rng, n, n, geomSpectrum(n, 100))
		s := math.Ldexp(1, rng.Range(-40, 40))
		return ref.Scale(s, a), true
	case "duprow":
		return dupRow(rng, n), false
	}
	panic("luMatrix: class " + class)
}

func (h *H) checkLU(idx, n int, class string) {
	rng := h.c.RNG("lu", idx)
	id := idf("LU n=%d class=%s #%d", n, class, idx)
	a, _ := luMatrix(rng, n, class)
	aKind := idx % nMatKinds
	path := "A=" + matKindNames[aKind]
	replay := replayMats("A", a, "class", class)

	var lu mat.LU
	if idx%3 == 1 {
		// reuse: a receiver that has already factorized another matrix
		lu.Factorize(makeMat(mkDense, randM(rng, n+1, n+1)))
	} else if idx%3 == 2 {
		lu.Factorize(makeMat(mkDense, randM(rng, n, n)))
		lu.Reset()
	}
	aOp := makeMat(aKind, a)
	if h.try("LU.Factorize", path, id, replay, func() { lu.Factorize(aOp) }) {
		return
	}
	h.count("lu", 1)
	h.eval("LU.Factorize|"+path+"|"+class+"|"+sizeClass(n), true)
	if ref.MaxDiff(ref.FromAt(aOp), a) != 0 {
		h.fail("LU.Factorize", path, "modified-input", id, "A changed", replay)
	}

	if class == "duprow" {
		h.luSingular(id, path, &lu, a, rng, replay)
		return
	}
	_, _, _, ok := h.luFactors("LU.Factorize", path, id, &lu, a, 1, replay)
	if !ok {
		return
	}
	h.luScalars(path, id, &lu, a, a.NormInf(), 1, replay)

	condInf, _, _, okInv := condRef(a)
	well := okInv && condInf < 1e8
	for _, trans := range []bool{false, true} {
		tp := "notrans"
		if trans {
			tp = "trans"
		}
		sp := &solveSpec{routine: "LU.SolveTo", path: tp, aop: op(a, trans), mode: modeSquare, wellCond: well}
		for _, pr := range h.densePairs(idx + boolInt(trans)) {
			h.solveDense(sp, id, rng, nrhsFor(rng), pr[0], pr[1], func(dst *mat.Dense, b mat.Matrix) error { return lu.SolveTo(dst, trans, b) })
			h.count("lu", 1)
		}
		spv := &solveSpec{routine: "LU.SolveVecTo", path: tp, aop: op(a, trans), mode: modeSquare, wellCond: well}
		for _, pr := range h.vecPairs(idx + boolInt(trans)) {
			h.solveVec(spv, id, rng, pr[0], pr[1], func(dst *mat.VecDense, b mat.Vector) error { return lu.SolveVecTo(dst, trans, b) })
			h.count("lu", 1)
		}
	}
}

func boolInt(b bool) int {
	if b {
		return 1
	}
	return 0
}

// luSingular: a has an exactly zero pivot under every elimination order.
func (h *H) luSingular(id, path string, lu *mat.LU, a *ref.M, rng *vrt.Rand, replay func() any) {
	n := a.R
	// The factorization "will complete regardless of the singularity".
	h.luFactors("LU.Factorize", path+",singular", id, lu, a, 1, replay)
	var det float64
	if !h.try("LU.Det", path+",singular", id, replay, func() { det = lu.Det() }) {
		if det != 0 {
			h.fail("LU.Det", "singular", "nonzero-for-exactly-singular", id, idf("Det=%v", det), replay)
		}
	}
	var cond float64
	if !h.try("LU.Cond", path+",singular", id, replay, func() { cond = lu.Cond() }) {
		if !(cond > 1e15) {
			h.fail("LU.Cond", "singular", "finite-for-exactly-singular", id, idf("Cond=%v", cond), replay)
		}
	}
	b := rhs(rng, n, 2)
	for _, trans := range []bool{false, true} {
		var err error
		dst := &mat.Dense{}
		if h.try("LU.SolveTo", "singular", id, replay, func() { err = lu.SolveTo(dst, trans, makeMat(mkDense, b)) }) {
			continue
		}
		h.eval("LU.SolveTo|singular|"+sizeClass(n), true)
		if _, ok := isCondition(err); !ok {
			h.fail("LU.SolveTo", "singular", "no-condition-error-for-exactly-singular", id, idf("err=%v", err), replay)
		}
		var v mat.VecDense
		if h.try("LU.SolveVecTo", "singular", id, replay, func() { err = lu.SolveVecTo(&v, trans, makeVec(vkVec, col(b, 0))) }) {
			continue
		}
		if _, ok := isCondition(err); !ok {
			h.fail("LU.SolveVecTo", "singular", "no-condition-error-for-exactly-singular", id, idf("err=%v", err), replay)
		}
	}
	h.count("lu", 6)
}
