package main

import (
	"math"

	"gonum.org/v1/gonum/mat"
	"gonum.org/v1/gonum/verifx/ref"
	"gonum.org/v1/gonum/verifx/vrt"
)

// Update histories: a chain of operations applied to ONE factorization
// object; after each step the object is compared with the explicitly
// updated matrix (factors, At, Det/LogDet, Cond, solves, pivots).

// cholRecv names the receiver states an update can be stored into.
const (
	rvSelf  = iota // the object itself (in place)
	rvFresh        // zero value
	rvUsed         // holds another SPD matrix of the same size
	rvReset        // used, then Reset
	nRecv
)

var recvNames = [...]string{"in-place", "fresh-receiver", "used-receiver", "reset-receiver"}

type cholHist struct {
	h      *H
	id     string
	rng    *vrt.Rand
	cur    *mat.Cholesky
	a      *ref.M
	steps  int
	growth float64 // sum of downdate amplification factors
	trace  []string
	// forced choices for the next step (deterministic coverage of every
	// operation x receiver x vector-kind combination); "" / -1 = random.
	forceOp   string
	forceRecv int
	forceVec  int
}

func (ch *cholHist) replay() func() any {
	return func() any {
		return map[string]any{"history": append([]string(nil), ch.trace...), "A_k": rp("A_k", ch.a)}
	}
}

func (ch *cholHist) n() int { return ch.a.R }

// receiver builds a receiver in the given state for an n x n result and
// returns the matrix it currently represents (nil when empty).
func (ch *cholHist) receiver(state, n int) (*mat.Cholesky, *ref.M) {
	if state == rvReset && !docSays("mat/cholesky.go", "func (c *Cholesky) Reset", "so that it can be reused as the receiver of a dimensionally restricted operation") {
		state = rvFresh
	}
	switch state {
	case rvFresh:
		return &mat.Cholesky{}, nil
	case rvUsed:
		b := spd(ch.rng, n, 10, 1)
		var c mat.Cholesky
		c.Factorize(makeSym(skSym, b))
		return &c, b
	case rvReset:
		var c mat.Cholesky
		c.Factorize(makeSym(skSym, spd(ch.rng, n, 10, 1)))
		c.Reset()
		return &c, nil
	}
	panic("receiver state")
}

// solveQuad returns xt A^-1 x by the reference solver.
func solveQuad(a *ref.M, x []float64) float64 {
	n := a.R
	b := ref.FromFunc(n, 1, func(i, _ int) float64 { return x[i] })
	s, ok := ref.Solve(a, b)
	if !ok {
		return math.NaN()
	}
	var q float64
	for i := range x {
		q += x[i] * s.D[i]
	}
	return q
}

func rankOneSym(a *ref.M, alpha float64, x []float64) *ref.M {
	n := a.R
	out := a.Clone()
	for i := 0; i < n; i++ {
		for j := i; j < n; j++ {
			v := a.D[i*n+j] + alpha*x[i]*x[j]
			out.D[i*n+j] = v
			out.D[j*n+i] = v
		}
	}
	return out
}

// verify compares the current object with the current matrix.
func (ch *cholHist) verify(op, recv string) bool {
	h := ch.h
	path := op + "," + recv
	extra := float64(ch.steps+1) + ch.growth
	full := ch.n() <= 20
	if !h.cholFactor("Cholesky.history", path, ch.id, ch.cur, ch.a, extra, full, ch.replay()) {
		return false
	}
	n := ch.n()
	if !h.cholScalars(path, ch.id, ch.cur, ch.a, float64(n)*ch.a.NormInf(), extra, ch.replay()) {
		// A wrong cached condition number would be inherited by Scale and
		// Clone and be charged to them: recompute it from the factor.
		var ut mat.TriDense
		ch.cur.UTo(&ut)
		ch.cur.SetFromU(&ut)
		ch.note("(condition number recomputed by SetFromU after a Cond violation)")
	}
	condInf, _, _, okInv := condRef(ch.a)
	sp := &solveSpec{routine: "Cholesky.SolveVecTo", path: "after:" + path, aop: ch.a, mode: modeSquare, wellCond: okInv && condInf < 1e8/float64(n), slack: extra}
	h.solveVec(sp, ch.id, ch.rng, ch.steps%nVecKinds, ch.steps%nDstKinds, func(dst *mat.VecDense, b mat.Vector) error { return ch.cur.SolveVecTo(dst, b) })
	if ch.steps%4 == 0 {
		sp2 := *sp
		sp2.routine = "Cholesky.SolveTo"
		h.solveDense(&sp2, ch.id, ch.rng, 2, ch.steps%nMatKinds, (ch.steps/4)%nDstKinds, func(dst *mat.Dense, b mat.Matrix) error { return ch.cur.SolveTo(dst, b) })
	}
	return true
}

// unchanged checks that c still represents want (with its cond), used for
// originals that must not be touched and for receivers of failed updates.
func (ch *cholHist) unchanged(routine, path, clause string, c *mat.Cholesky, want *ref.M, wantCond float64) {
	h := ch.h
	var got *ref.M
	var cond float64
	p := vrt.TryFast(func() { got = ref.FromAt(c); cond = c.Cond() })
	if p != nil {
		h.fail(routine, path, clause, ch.id, "object unusable afterwards: "+p.Msg, ch.replay())
		return
	}
	if got.R != want.R || ref.MaxDiff(got, want) > 1e-9*want.MaxAbs() {
		h.fail(routine, path, clause, ch.id, "object represents a different matrix afterwards", ch.replay())
		return
	}
	if cond != wantCond {
		h.fail(routine, path, clause+":cond", ch.id, idf("Cond changed from %v to %v", wantCond, cond), ch.replay())
	}
}

func (ch *cholHist) note(format string, args ...any) {
	ch.trace = append(ch.trace, idf(format, args...))
	if len(ch.trace) > 60 {
		ch.trace = ch.trace[1:]
	}
}

// panicPath is the path class under which a panic of an update is
// reported: the receiver state decides first (its shape check precedes
// everything else), then the vector kind when it is not a RawVectorer.
func panicPath(recv, vk int) string {
	switch {
	case recv == rvReset:
		return recvNames[recv]
	case vk == vkBasic:
		return "x=" + vecKindNames[vk]
	}
	return recvNames[recv]
}

func (ch *cholHist) pickVec() int {
	if ch.forceVec >= 0 {
		return ch.forceVec
	}
	return ch.rng.Intn(nVecKinds)
}

// pickRecv chooses a receiver state; allowOther=false forces in place.
func (ch *cholHist) pickRecv(allowOther bool) int {
	if ch.forceRecv >= 0 {
		return ch.forceRecv
	}
	if !allowOther || ch.rng.Chance(0.55) {
		return rvSelf
	}
	return 1 + ch.rng.Intn(nRecv-1)
}

// step performs one random operation. It returns false when the history
// cannot continue (a violation made the state unknown).
func (ch *cholHist) step(allowOther bool) bool {
	h, rng := ch.h, ch.rng
	n := ch.n()
	condInf, _, _, okInv := condRef(ch.a)
	if !okInv {
		return false
	}
	illCond := condInf > 1e5
	var ops []string
	if illCond {
		ops = []string{"update", "scale", "setfromu", "setfromu", "clone"}
	} else {
		ops = []string{"update", "update", "downdate", "downdate", "downdate-notpd", "extend", "extend-notpd", "scale", "clone", "setfromu", "alpha0", "jump"}
	}
	if n >= 14 {
		ops = append(ops[:0:0], ops...)
		for i := 0; i < len(ops); i++ {
			if ops[i] == "extend" {
				ops[i] = "update"
			}
		}
	}
	opn := ops[rng.Intn(len(ops))]
	if ch.forceOp != "" {
		opn = ch.forceOp
	}
	ch.steps++
	switch opn {
	case "update", "downdate", "downdate-notpd", "alpha0", "jump":
		x := rng.Floats(n, rng.Sym)
		var alpha float64
		var amp float64
		wantOK := true
		switch opn {
		case "update":
			alpha = rng.PickFloat(1, 1, rng.Uniform(0.1, 4))
		case "alpha0":
			alpha = 0
		case "jump":
			// a large update: the condition number jumps by about 1e7
			var xx float64
			for _, v := range x {
				xx += v * v
			}
			alpha = 1e7 * ch.a.NormInf() / math.Max(xx, 1e-3)
		case "downdate":
			theta := rng.Uniform(0.05, 0.9)
			q := solveQuad(ch.a, x)
			alpha = -theta / q
			amp = 1 / (1 - theta)
		case "downdate-notpd":
			theta := rng.Uniform(1.5, 4)
			q := solveQuad(ch.a, x)
			alpha = -theta / q
			wantOK = false
		}
		xk := ch.pickVec()
		recv := ch.pickRecv(allowOther)
		path := opn + "," + recvNames[recv] + ",x=" + vecKindNames[xk]
		ch.note("SymRankOne %s alpha=%g", path, alpha)
		var dst *mat.Cholesky
		var dstWas *ref.M
		var dstCond float64
		if recv == rvSelf {
			dst = ch.cur
		} else {
			dst, dstWas = ch.receiver(recv, n)
			if dstWas != nil {
				dstCond = dst.Cond()
			}
		}
		curCond := ch.cur.Cond()
		var ok bool
		if h.try("Cholesky.SymRankOne", panicPath(recv, xk), ch.id, ch.replay(), func() { ok = dst.SymRankOne(ch.cur, alpha, makeVec(xk, x)) }) {
			// The panic left the pool and possibly dst in an unknown state;
			// the original must still be intact. Continue in place.
			ch.unchanged("Cholesky.SymRankOne", recvNames[recv], "original-modified-by-panicking-update", ch.cur, ch.a, curCond)
			return true
		}
		h.count("hist-chol", 1)
		h.eval("Cholesky.SymRankOne|"+path+"|"+sizeClass(n), true)
		if ok != wantOK {
			if wantOK {
				h.fail("Cholesky.SymRankOne", opn, "ok-false-for-positive-definite-result", ch.id, idf("alpha=%g", alpha), ch.replay())
			} else {
				h.fail("Cholesky.SymRankOne", opn, "ok-true-for-indefinite-result", ch.id, idf("alpha=%g", alpha), ch.replay())
			}
			return false
		}
		if recv != rvSelf {
			ch.unchanged("Cholesky.SymRankOne", recvNames[recv], "original-modified", ch.cur, ch.a, curCond)
		}
		if !wantOK {
			// "If the update fails the receiver is left unchanged."
			switch {
			case recv == rvSelf:
				ch.unchanged("Cholesky.SymRankOne", "failed-downdate,in-place", "receiver-modified", ch.cur, ch.a, curCond)
			case dstWas != nil && docSays("mat/cholesky.go", "func (c *Cholesky) SymRankOne", "If the update fails the receiver is left unchanged"):
				ch.unchanged("Cholesky.SymRankOne", "failed-downdate,used-receiver", "receiver-modified", dst, dstWas, dstCond)
			}
			return ch.verify(opn, recvNames[recv])
		}
		ch.a = rankOneSym(ch.a, alpha, x)
		ch.growth += amp
		ch.cur = dst
		return ch.verify(opn, recvNames[recv])

	case "extend", "extend-notpd":
		w := rng.Floats(n, rng.Sym)
		q := solveQuad(ch.a, w)
		var k float64
		wantOK := opn == "extend"
		if wantOK {
			k = q*(1+rng.Uniform(0.2, 3)) + rng.Uniform(0.01, 1)*ch.a.MaxAbs()
		} else {
			k = q * rng.Uniform(0.1, 0.8)
		}
		v := append(append([]float64(nil), w...), k)
		vk := ch.pickVec()
		recv := rvSelf
		if ch.forceRecv >= 0 {
			recv = ch.forceRecv
		} else if allowOther && rng.Chance(0.4) {
			recv = rng.PickInt(rvFresh, rvUsed, rvReset)
		}
		path := opn + "," + recvNames[recv] + ",v=" + vecKindNames[vk]
		ch.note("ExtendVecSym %s k=%g", path, k)
		var dst *mat.Cholesky
		var dstWas *ref.M
		var dstCond float64
		if recv == rvSelf {
			dst = ch.cur
		} else {
			dst, dstWas = ch.receiver(recv, n+1)
			if dstWas != nil {
				dstCond = dst.Cond()
			}
		}
		curCond := ch.cur.Cond()
		var ok bool
		if h.try("Cholesky.ExtendVecSym", panicPath(recv, vk), ch.id, ch.replay(), func() { ok = dst.ExtendVecSym(ch.cur, makeVec(vk, v)) }) {
			return false
		}
		h.count("hist-chol", 1)
		h.eval("Cholesky.ExtendVecSym|"+path+"|"+sizeClass(n), true)
		if ok != wantOK {
			if wantOK {
				h.fail("Cholesky.ExtendVecSym", opn, "ok-false-for-positive-definite-result", ch.id, idf("k=%g wtA^-1w=%g", k, q), ch.replay())
			} else {
				h.fail("Cholesky.ExtendVecSym", opn, "ok-true-for-indefinite-result", ch.id, idf("k=%g wtA^-1w=%g", k, q), ch.replay())
			}
			return false
		}
		if recv != rvSelf {
			ch.unchanged("Cholesky.ExtendVecSym", recvNames[recv], "original-modified", ch.cur, ch.a, curCond)
		}
		if !wantOK {
			// "ExtendVecSym will return false and the receiver will not be updated."
			switch {
			case recv == rvSelf:
				ch.unchanged("Cholesky.ExtendVecSym", "failed,in-place", "receiver-modified", ch.cur, ch.a, curCond)
			case dstWas != nil && docSays("mat/cholesky.go", "func (c *Cholesky) ExtendVecSym", "return false and the receiver will not be updated"):
				ch.unchanged("Cholesky.ExtendVecSym", "failed,used-receiver", "receiver-modified", dst, dstWas, dstCond)
			}
			return ch.verify(opn, recvNames[recv])
		}
		na := ref.New(n+1, n+1)
		for i := 0; i < n; i++ {
			copy(na.D[i*(n+1):i*(n+1)+n], ch.a.D[i*n:(i+1)*n])
			na.D[i*(n+1)+n] = w[i]
			na.D[n*(n+1)+i] = w[i]
		}
		na.D[n*(n+1)+n] = k
		ch.a = na
		ch.cur = dst
		return ch.verify(opn, recvNames[recv])

	case "scale":
		f := rng.PickFloat(0.25, 2, 1e3, 1e-3, rng.Uniform(0.1, 10))
		recv := ch.pickRecv(allowOther)
		path := "scale," + recvNames[recv]
		ch.note("Scale %s f=%g", path, f)
		dst := ch.cur
		if recv != rvSelf {
			dst, _ = ch.receiver(recv, n)
		}
		curCond := ch.cur.Cond()
		if h.try("Cholesky.Scale", recvNames[recv], ch.id, ch.replay(), func() { dst.Scale(f, ch.cur) }) {
			return true // the object itself is untouched; continue
		}
		h.count("hist-chol", 1)
		h.eval("Cholesky.Scale|"+path+"|"+sizeClass(n), true)
		if recv != rvSelf {
			ch.unchanged("Cholesky.Scale", recvNames[recv], "original-modified", ch.cur, ch.a, curCond)
		}
		ch.a = ref.Scale(f, ch.a)
		ch.cur = dst
		return ch.verify("scale", recvNames[recv])

	case "clone":
		state := rng.PickInt(rvFresh, rvUsed, rvReset)
		if ch.forceRecv > 0 {
			state = ch.forceRecv
		}
		size := n
		if state == rvUsed && rng.Bool() {
			size = n + 1 + rng.Intn(2) // "Clone does not place any restrictions on receiver shape"
		}
		path := "clone," + recvNames[state]
		ch.note("Clone %s size=%d", path, size)
		dst, _ := ch.receiver(state, size)
		curCond := ch.cur.Cond()
		if h.try("Cholesky.Clone", recvNames[state], ch.id, ch.replay(), func() { dst.Clone(ch.cur) }) {
			return true
		}
		h.count("hist-chol", 1)
		h.eval("Cholesky.Clone|"+path+"|"+sizeClass(n), true)
		ch.unchanged("Cholesky.Clone", recvNames[state], "original-modified", ch.cur, ch.a, curCond)
		old := ch.cur
		ch.cur = dst
		if !ch.verify("clone", recvNames[state]) {
			return false
		}
		// the clone must be independent: updating it leaves the original alone
		x := rng.Floats(n, rng.Sym)
		ch.note("SymRankOne on the clone (independence)")
		if !h.try("Cholesky.SymRankOne", "on-clone", ch.id, ch.replay(), func() { ch.cur.SymRankOne(ch.cur, 1, makeVec(vkVec, x)) }) {
			ch.unchanged("Cholesky.Clone", recvNames[state], "clone-shares-storage-with-original", old, ch.a, curCond)
			ch.a = rankOneSym(ch.a, 1, x)
			ch.steps++
			return ch.verify("update", "in-place")
		}
		return false

	case "setfromu":
		// a fresh well-conditioned factor of the same size
		b := spd(rng, n, rng.PickFloat(5, 50, 500), math.Ldexp(1, rng.Range(-3, 3)))
		u, ok := cholRef(b)
		if !ok {
			return true
		}
		tk := rng.Intn(2)
		var t mat.Triangular
		if tk == 0 {
			t = makeTriDense(u, true)
		} else {
			t = basicTri{u, mat.Upper}
		}
		path := "setfromu," + [...]string{"t=TriDense", "t=BasicTriangular"}[tk]
		ch.note("SetFromU %s", path)
		if h.try("Cholesky.SetFromU", path, ch.id, ch.replay(), func() { ch.cur.SetFromU(t) }) {
			return false
		}
		h.count("hist-chol", 1)
		h.eval("Cholesky.SetFromU|"+path+"|"+sizeClass(n), true)
		ch.a = ref.Mul(u.T(), u)
		// symmetrise exactly
		for i := 0; i < n; i++ {
			for j := i + 1; j < n; j++ {
				ch.a.D[j*n+i] = ch.a.D[i*n+j]
			}
		}
		ch.growth = 0
		ch.steps = 0
		return ch.verify("setfromu", "in-place")
	}
	panic("unknown op " + opn)
}

func (h *H) checkCholHistory(idx, n, length int, allowOther bool) {
	rng := h.c.RNG("hist-chol", idx)
	id := idf("Cholesky-history n=%d len=%d other=%v #%d", n, length, allowOther, idx)
	a := spd(rng, n, rng.PickFloat(5, 50), 1)
	var c mat.Cholesky
	if !c.Factorize(makeSym(skSym, a)) {
		return
	}
	ch := &cholHist{h: h, id: id, rng: rng, cur: &c, a: a, forceRecv: -1, forceVec: -1}
	ch.note("Factorize n=%d", n)
	for s := 0; s < length; s++ {
		if !ch.step(allowOther) {
			return
		}
	}
}

// checkCholForced runs, on a fresh small factorization, one forced
// operation (every operation x receiver state x vector kind is executed in
// every run, so that the set of signatures does not depend on the seed),
// followed by two random in-place steps.
func (h *H) checkCholForced(idx, n int, opn string, recv, vk int) {
	rng := h.c.RNG("hist-chol-forced", idx)
	id := idf("Cholesky-forced n=%d op=%s recv=%s vec=%s #%d", n, opn, recvNames[recv], vecKindNames[vk], idx)
	kappa := 20.0
	if opn == "alpha0" {
		// a stale condition number left in a used receiver (which held a
		// matrix with condition number 10) must be far outside the band
		kappa = 1e6
	}
	a := spd(rng, n, kappa, 1)
	var c mat.Cholesky
	if !c.Factorize(makeSym(skSym, a)) {
		return
	}
	ch := &cholHist{h: h, id: id, rng: rng, cur: &c, a: a, forceOp: opn, forceRecv: recv, forceVec: vk}
	ch.note("Factorize n=%d", n)
	if !ch.step(true) {
		return
	}
	ch.forceOp, ch.forceRecv, ch.forceVec = "", -1, -1
	for s := 0; s < 2; s++ {
		if !ch.step(false) {
			return
		}
	}
}

// ---------------------------------------------------------------------------
// LU histories

type luHist struct {
	h     *H
	id    string
	rng   *vrt.Rand
	cur   *mat.LU
	a     *ref.M
	piv   []int
	steps int
	// okFrom records where the ok flag of the current object comes from.
	okFrom string
	trace  []string
	// forced receiver for the next step (-1 = random); forceSing selects the
	// previously-singular used receiver.
	forceRecv int
	forceSing int
	forceVec  int
}

func (lh *luHist) replay() func() any {
	return func() any {
		return map[string]any{"history": append([]string(nil), lh.trace...), "A_k": rp("A_k", lh.a)}
	}
}

func (lh *luHist) note(format string, args ...any) {
	lh.trace = append(lh.trace, idf(format, args...))
	if len(lh.trace) > 60 {
		lh.trace = lh.trace[1:]
	}
}

// margin returns the smallest row/column diagonal-dominance margin of a.
func margin(a *ref.M) float64 {
	n := a.R
	m := math.Inf(1)
	for i := 0; i < n; i++ {
		var sr, sc float64
		for j := 0; j < n; j++ {
			if j != i {
				sr += math.Abs(a.D[i*n+j])
				sc += math.Abs(a.D[j*n+i])
			}
		}
		m = math.Min(m, math.Abs(a.D[i*n+i])-math.Max(sr, sc))
	}
	return m
}

func (lh *luHist) verify(op string) bool {
	h := lh.h
	n := lh.a.R
	_ = op
	path := "history,ok-from=" + lh.okFrom
	l, u, piv, ok := h.luFactors("LU.history", path, lh.id, lh.cur, lh.a, float64(lh.steps+1), lh.replay())
	if !ok {
		return false
	}
	// "in the updated decomposition P * L' * U'": P is unchanged by RankOne.
	if lh.piv != nil {
		for i := range piv {
			if piv[i] != lh.piv[i] {
				h.fail("LU.RowPivots", "history", "permutation-changed-by-update", lh.id, idf("%v -> %v", lh.piv, piv), lh.replay())
				return false
			}
		}
	}
	lh.piv = piv
	normBound := math.Max(absM(l).NormInf()*absM(u).NormInf(), lh.a.NormInf())
	h.luScalars(path, lh.id, lh.cur, lh.a, normBound, float64(lh.steps+1), lh.replay())
	condInf, _, _, okInv := condRef(lh.a)
	well := okInv && condInf*normBound/lh.a.NormInf() < 1e9
	trans := lh.steps%2 == 1
	tp := "notrans"
	if trans {
		tp = "trans"
	}
	_ = tp
	sp := &solveSpec{routine: "LU.SolveVecTo", path: path, aop: op2(lh.a, trans), mode: modeSquare, wellCond: well, slack: float64(lh.steps + 1)}
	h.solveVec(sp, lh.id, lh.rng, lh.steps%nVecKinds, lh.steps%nDstKinds, func(dst *mat.VecDense, b mat.Vector) error { return lh.cur.SolveVecTo(dst, trans, b) })
	if lh.steps%3 == 0 {
		sp2 := *sp
		sp2.routine = "LU.SolveTo"
		h.solveDense(&sp2, lh.id, lh.rng, 2, lh.steps%nMatKinds, (lh.steps/3)%nDstKinds, func(dst *mat.Dense, b mat.Matrix) error { return lh.cur.SolveTo(dst, trans, b) })
	}
	_ = n
	return true
}

func op2(a *ref.M, trans bool) *ref.M { return op(a, trans) }

func (lh *luHist) receiver(state, n int) (*mat.LU, string) {
	rng := lh.rng
	if state == rvReset && !docSays("mat/lu.go", "func (lu *LU) Reset", "so that it can be reused as the receiver of a dimensionally restricted operation") {
		state = rvFresh
	}
	switch state {
	case rvFresh:
		return &mat.LU{}, "fresh-receiver"
	case rvUsed:
		var lu mat.LU
		sing := rng.Bool()
		if lh.forceSing >= 0 {
			sing = lh.forceSing == 1
		}
		if !sing || n < 2 {
			lu.Factorize(makeMat(mkDense, diagDominant(rng, n, 2)))
			return &lu, "receiver-of-nonsingular"
		}
		lu.Factorize(makeMat(mkDense, dupRow(rng, n)))
		return &lu, "receiver-of-singular"
	case rvReset:
		var lu mat.LU
		lu.Factorize(makeMat(mkDense, diagDominant(rng, n, 2)))
		lu.Reset()
		return &lu, "reset-receiver"
	}
	panic("receiver state")
}

func (lh *luHist) step(allowOther bool) bool {
	h, rng := lh.h, lh.rng
	n := lh.a.R
	lh.steps++
	mg := margin(lh.a)
	condInf, _, _, _ := condRef(lh.a)
	if lh.forceRecv < 0 && (mg < 0.2 || condInf > 1e4 || rng.Chance(0.08)) {
		// refresh by a new factorization in the same object
		lh.a = diagDominant(rng, n, 2)
		lh.note("Factorize (refresh)")
		if h.try("LU.Factorize", "refresh", lh.id, lh.replay(), func() { lh.cur.Factorize(makeMat(mkDense, lh.a)) }) {
			return false
		}
		lh.piv = nil
		lh.steps = 0
		lh.okFrom = "Factorize"
		return lh.verify("factorize")
	}
	var x, y []float64
	var alpha float64
	opn := "rankone"
	if lh.forceRecv < 0 && rng.Chance(0.12) {
		// a large bump of one diagonal entry keeps the dominance and makes
		// the condition number jump by about 1e7
		j := rng.Intn(n)
		x = make([]float64, n)
		y = make([]float64, n)
		x[j], y[j] = 1, 1
		alpha = 1e7 * lh.a.NormInf()
		if lh.a.D[j*n+j] < 0 {
			alpha = -alpha
		}
		opn = "rankone-jump"
	} else {
		x = rng.Floats(n, rng.Sym)
		y = rng.Floats(n, rng.Sym)
		var y1 float64
		for _, v := range y {
			y1 += math.Abs(v)
		}
		size := infNorm(x) * math.Max(y1, infNorm(y)*float64(n))
		alpha = mg * rng.Uniform(0.01, 0.08) / math.Max(size, 1e-3)
		if rng.Bool() {
			alpha = -alpha
		}
	}
	xk, yk := rng.Intn(nVecKinds), rng.Intn(nVecKinds)
	if lh.forceVec >= 0 {
		xk, yk = lh.forceVec, (lh.forceVec+1)%nVecKinds
	}
	recv := rvSelf
	if lh.forceRecv >= 0 {
		recv = lh.forceRecv
	} else if allowOther && rng.Chance(0.35) {
		recv = 1 + rng.Intn(nRecv-1)
	}
	dst := lh.cur
	from := lh.okFrom
	if recv != rvSelf {
		dst, from = lh.receiver(recv, n)
	}
	path := recvNames[recv]
	lh.note("RankOne %s %s x=%s y=%s alpha=%g", opn, path, vecKindNames[xk], vecKindNames[yk], alpha)
	old := lh.cur
	oldA := lh.a
	if h.try("LU.RankOne", path, lh.id, lh.replay(), func() { dst.RankOne(lh.cur, alpha, makeVec(xk, x), makeVec(yk, y)) }) {
		return false
	}
	h.count("hist-lu", 1)
	h.eval("LU.RankOne|"+opn+"|"+path+",x="+vecKindNames[xk]+",y="+vecKindNames[yk]+"|"+sizeClass(n), true)
	na := lh.a.Clone()
	for i := 0; i < n; i++ {
		for j := 0; j < n; j++ {
			na.D[i*n+j] += alpha * x[i] * y[j]
		}
	}
	if recv != rvSelf {
		// the original must be untouched
		if ref.MaxDiff(ref.FromAt(old), oldA) > 1e-9*oldA.MaxAbs() {
			h.fail("LU.RankOne", recvNames[recv], "original-modified", lh.id, "", lh.replay())
		}
		lh.okFrom = from
	}
	lh.a = na
	lh.cur = dst
	return lh.verify(opn + "," + recvNames[recv])
}

func (h *H) checkLUHistory(idx, n, length int, allowOther bool) {
	rng := h.c.RNG("hist-lu", idx)
	id := idf("LU-history n=%d len=%d other=%v #%d", n, length, allowOther, idx)
	a := diagDominant(rng, n, 2)
	var lu mat.LU
	lu.Factorize(makeMat(mkDense, a))
	lh := &luHist{h: h, id: id, rng: rng, cur: &lu, a: a, okFrom: "Factorize", forceRecv: -1, forceSing: -1, forceVec: -1}
	lh.note("Factorize n=%d", n)
	if !lh.verify("factorize") {
		return
	}
	for s := 0; s < length; s++ {
		if !lh.step(allowOther) {
			return
		}
	}
}

// checkLUForced: one forced RankOne into every receiver state, then two
// random in-place steps.
func (h *H) checkLUForced(idx, n, recv, sing, vk int) {
	rng := h.c.RNG("hist-lu-forced", idx)
	id := idf("LU-forced n=%d recv=%s sing=%d vec=%s #%d", n, recvNames[recv], sing, vecKindNames[vk], idx)
	a := diagDominant(rng, n, 2)
	var lu mat.LU
	lu.Factorize(makeMat(mkDense, a))
	lh := &luHist{h: h, id: id, rng: rng, cur: &lu, a: a, okFrom: "Factorize", forceRecv: recv, forceSing: sing, forceVec: vk}
	lh.note("Factorize n=%d", n)
	if !lh.verify("factorize") {
		return
	}
	if !lh.step(true) {
		return
	}
	lh.forceRecv, lh.forceSing, lh.forceVec = -1, -1, -1
	for s := 0; s < 2; s++ {
		if !lh.step(false) {
			return
		}
	}
}
