package main

import (
	"math"

	"gonum.org/v1/gonum/verifx/ref"
	"gonum.org/v1/gonum/verifx/vrt"
)

// Generators of test matrices as plain ref.M values. Nothing here calls gonum.

// randM returns an r x c matrix with entries uniform in [-1,1).
func randM(rng *vrt.Rand, r, c int) *ref.M {
	return ref.FromFunc(r, c, func(i, j int) float64 { return rng.Sym() })
}

// randOrtho returns a random n x n orthogonal matrix as a product of n
// Householder reflectors applied to the identity.
func randOrtho(rng *vrt.Rand, n int) *ref.M {
	q := ref.Eye(n)
	v := make([]float64, n)
	w := make([]float64, n)
	for k := 0; k < n; k++ {
		var nn float64
		for i := range v {
			v[i] = rng.Norm()
			nn += v[i] * v[i]
		}
		if nn == 0 {
			continue
		}
		// q = q (I - 2 v vT / nn)
		for i := 0; i < n; i++ {
			var s float64
			for j := 0; j < n; j++ {
				s += q.D[i*n+j] * v[j]
			}
			w[i] = 2 * s / nn
		}
		for i := 0; i < n; i++ {
			for j := 0; j < n; j++ {
				q.D[i*n+j] -= w[i] * v[j]
			}
		}
	}
	return q
}

// geomSpectrum returns k values descending geometrically from 1 to 1/cond.
func geomSpectrum(k int, cond float64) []float64 {
	s := make([]float64, k)
	for i := range s {
		if k == 1 {
			s[i] = 1
		} else {
			s[i] = math.Pow(cond, -float64(i)/float64(k-1))
		}
	}
	return s
}

// withSV returns an m x n matrix U diag(s) Vt with random orthogonal U, V;
// len(s) = min(m,n).
func withSV(rng *vrt.Rand, m, n int, s []float64) *ref.M {
	u := randOrtho(rng, m)
	v := randOrtho(rng, n)
	k := min(m, n)
	a := ref.New(m, n)
	for i := 0; i < m; i++ {
		for j := 0; j < n; j++ {
			var t float64
			for l := 0; l < k; l++ {
				t += u.D[i*m+l] * s[l] * v.D[j*n+l]
			}
			a.D[i*n+j] = t
		}
	}
	return a
}

// spdWith returns an SPD matrix Q diag(lam) Qt, exactly symmetric.
func spdWith(rng *vrt.Rand, n int, lam []float64) *ref.M {
	q := randOrtho(rng, n)
	a := ref.New(n, n)
	for i := 0; i < n; i++ {
		for j := i; j < n; j++ {
			var t float64
			for l := 0; l < n; l++ {
				t += q.D[i*n+l] * lam[l] * q.D[j*n+l]
			}
			a.D[i*n+j] = t
			a.D[j*n+i] = t
		}
	}
	return a
}

// spd returns an SPD matrix with 2-norm condition number cond and norm scale.
func spd(rng *vrt.Rand, n int, cond, scale float64) *ref.M {
	lam := geomSpectrum(n, cond)
	for i := range lam {
		lam[i] *= scale
	}
	return spdWith(rng, n, lam)
}

// symM returns a random symmetric (indefinite) matrix.
func symM(rng *vrt.Rand, n int) *ref.M {
	a := ref.New(n, n)
	for i := 0; i < n; i++ {
		for j := i; j < n; j++ {
			v := rng.Sym()
			a.D[i*n+j] = v
			a.D[j*n+i] = v
		}
	}
	return a
}

// bandSPD returns an SPD band matrix with half bandwidth k (diagonally
// dominant, so that it is safely positive definite).
func bandSPD(rng *vrt.Rand, n, k int) *ref.M {
	a := ref.New(n, n)
	for i := 0; i < n; i++ {
		for j := i + 1; j <= i+k && j < n; j++ {
			v := rng.Sym()
			a.D[i*n+j] = v
			a.D[j*n+i] = v
		}
	}
	for i := 0; i < n; i++ {
		var s float64
		for j := 0; j < n; j++ {
			if j != i {
				s += math.Abs(a.D[i*n+j])
			}
		}
		a.D[i*n+i] = s + rng.Uniform(0.05, 1)
	}
	return a
}

// diagDominant returns a strictly row and column diagonally dominant n x n
// matrix (factor dom >= 1 over the off-diagonal sums).
func diagDominant(rng *vrt.Rand, n int, dom float64) *ref.M {
	a := randM(rng, n, n)
	for i := 0; i < n; i++ {
		var sr, sc float64
		for j := 0; j < n; j++ {
			if j != i {
				sr += math.Abs(a.D[i*n+j])
				sc += math.Abs(a.D[j*n+i])
			}
		}
		d := dom*math.Max(sr, sc) + rng.Uniform(0.5, 1.5)
		if rng.Bool() {
			d = -d
		}
		a.D[i*n+i] = d
	}
	return a
}

// intM returns an r x c matrix of small integers in [-lim, lim].
func intM(rng *vrt.Rand, r, c, lim int) *ref.M {
	return ref.FromFunc(r, c, func(i, j int) float64 { return float64(rng.Range(-lim, lim)) })
}

// dupRow returns a small-integer n x n matrix in which row dst is a copy of
// row src, built so that LU with partial pivoting meets an exactly zero
// pivot under every rounding (see below).
func dupRow(rng *vrt.Rand, n int) *ref.M {
	a := intM(rng, n, n, 3)
	// avoid accidental zero columns making the test trivial in another way
	for i := 0; i < n; i++ {
		if a.D[i*n+i] == 0 {
			a.D[i*n+i] = 2
		}
	}
	src := rng.Intn(n)
	dst := rng.Intn(n - 1)
	if dst >= src {
		dst++
	}
	// The duplicated rows carry the strictly largest entry of column 0, a
	// power of two: one of them is the first pivot row, the multiplier of
	// the other is 4*(1/4) = 1 exactly, so the other row becomes an exactly
	// zero row at step 0 and stays zero (0 - l*x = 0 for every finite l, x).
	a.D[src*n] = 4
	if rng.Bool() {
		a.D[src*n] = -4
	}
	copy(a.D[dst*n:dst*n+n], a.D[src*n:src*n+n])
	return a
}

// triM returns a well conditioned triangular matrix (upper if up) with a
// dominant diagonal; unit sets the diagonal to 1.
func triM(rng *vrt.Rand, n int, up bool) *ref.M {
	a := ref.New(n, n)
	for i := 0; i < n; i++ {
		for j := 0; j < n; j++ {
			if (up && j > i) || (!up && j < i) {
				a.D[i*n+j] = rng.Sym() / math.Sqrt(float64(n))
			}
		}
		d := rng.Uniform(1, 2)
		if rng.Bool() {
			d = -d
		}
		a.D[i*n+i] = d
	}
	return a
}

// gramInt returns the n x n integer Gram matrix B Bt of a random n x r
// small-integer B: positive semi-definite with rank <= r, exactly
// representable.
func gramInt(rng *vrt.Rand, n, r int) (*ref.M, *ref.M) {
	b := intM(rng, n, r, 2)
	return ref.Mul(b, b.T()), b
}

func vecNorm2(x []float64) float64 {
	var mx float64
	for _, v := range x {
		if a := math.Abs(v); a > mx {
			mx = a
		}
	}
	if mx == 0 || math.IsInf(mx, 0) || math.IsNaN(mx) {
		return mx
	}
	var s float64
	for _, v := range x {
		t := v / mx
		s += t * t
	}
	return mx * math.Sqrt(s)
}

// col returns column j of m.
func col(m *ref.M, j int) []float64 {
	x := make([]float64, m.R)
	for i := range x {
		x[i] = m.D[i*m.C+j]
	}
	return x
}
