package main

import (
	"fmt"
	"math"
	"regexp"
	"sort"
	"strings"
	"sync"

	"gonum.org/v1/gonum/mat"
	"gonum.org/v1/gonum/verifx/ref"
	"gonum.org/v1/gonum/verifx/vrt"
)

const eps = vrt.Eps64

// H is the monitor state shared by all cases.
type H struct {
	c *vrt.Ctx

	mu     sync.Mutex
	ratios map[string]float64 // band name -> largest observed ratio
	worst  map[string]string  // band name -> case with the largest ratio
	counts map[string]int64   // family -> gonum calls
}

func newH(c *vrt.Ctx) *H {
	return &H{c: c, ratios: map[string]float64{}, worst: map[string]string{}, counts: map[string]int64{}}
}

func (h *H) thorough() bool { return h.c.Thorough() }

func (h *H) pick(q, t int) int { return h.c.Pick(q, t) }

// sig builds a violation signature: routine | path class | failing clause.
func sig(routine, path, clause string) string {
	if path == "" {
		path = "-"
	}
	return routine + "|" + path + "|" + clause
}

// eval records one execution of gonum code.
func (h *H) eval(key string, nontrivial bool) {
	h.c.Eval(key, nontrivial)
}

// band records value/denom under the named limit and reports whether the
// ratio is within the limit. A NaN or infinite value is outside every band.
func (h *H) band(name string, value, denom float64, where ...string) (ratio float64, ok bool) {
	lim, known := limits[name]
	if !known {
		panic("c06: unknown band " + name)
	}
	switch {
	case math.IsNaN(value) || math.IsInf(value, 0):
		ratio = math.Inf(1)
	case value == 0:
		ratio = 0
	case denom == 0 || math.IsNaN(denom):
		ratio = math.Inf(1)
	default:
		ratio = value / denom
	}
	if !math.IsInf(ratio, 0) {
		h.mu.Lock()
		if ratio > h.ratios[name] {
			h.ratios[name] = ratio
			if len(where) > 0 {
				h.worst[name] = where[0]
			}
		}
		h.mu.Unlock()
	}
	return ratio, ratio <= lim
}

// check is band plus the violation report.
func (h *H) check(name, routine, path string, value, denom float64, id string, replay func() any) bool {
	ratio, ok := h.band(name, value, denom, routine+"|"+path+" "+id)
	if ok {
		return true
	}
	var rp any
	if replay != nil {
		rp = replay()
	}
	h.c.Violationf(sig(routine, path, name), rp, "%s: %s = %.3g x unit (limit %g; value %.3g, unit %.3g)", id, name, ratio, limits[name], value, denom)
	return false
}

// fail reports a clause that is not a band.
func (h *H) fail(routine, path, clause, id, detail string, replay func() any) {
	var rp any
	if replay != nil {
		rp = replay()
	}
	h.c.Violation(sig(routine, path, clause), id+": "+detail, rp)
}

var digits = regexp.MustCompile(`[0-9]+`)

// normMsg strips run-dependent numbers from a panic message.
func normMsg(m string) string {
	if i := strings.IndexByte(m, '\n'); i >= 0 {
		m = m[:i]
	}
	m = digits.ReplaceAllString(m, "N")
	if len(m) > 70 {
		m = m[:70]
	}
	return m
}

// try runs f; a panic is reported as a violation of (routine, path) and true
// is returned. The panic clause carries the normalised message so that a
// mat.Error, a string panic and a runtime error are distinct signatures.
func (h *H) try(routine, path, id string, replay func() any, f func()) (panicked bool) {
	h.c.LastCase(id + " " + routine + " " + path)
	p := vrt.Try(f)
	if p == nil {
		return false
	}
	kind := "panic"
	if p.Runtime {
		kind = "runtime-panic"
	}
	var rp any
	if replay != nil {
		rp = replay()
	}
	h.c.Violation(sig(routine, path, kind+":"+normMsg(p.Msg)), id+": "+p.Msg+"\n"+p.Stack, rp)
	return true
}

// expectPanic runs f, which must panic with a non-runtime panic value.
func (h *H) expectPanic(routine, path, clause, id string, f func()) {
	h.c.LastCase(id + " " + routine + " " + path)
	p := vrt.TryFast(f)
	if p == nil {
		h.fail(routine, path, clause+":no-panic", id, "call returned normally", nil)
		return
	}
	if p.Runtime {
		h.fail(routine, path, clause+":runtime-panic", id, p.Msg, nil)
	}
}

func (h *H) count(family string, n int) {
	h.mu.Lock()
	h.counts[family] += int64(n)
	h.mu.Unlock()
}

func (h *H) finish() {
	h.mu.Lock()
	defer h.mu.Unlock()
	r := map[string]any{}
	for k, v := range h.ratios {
		r[k] = v
	}
	h.c.Note("band_max_ratio", r)
	w := map[string]any{}
	for k, v := range h.worst {
		w[k] = v
	}
	h.c.Note("band_max_case", w)
	l := map[string]any{}
	for k, v := range limits {
		l[k] = v
	}
	h.c.Note("band_limits", l)
	keys := make([]string, 0, len(h.counts))
	for k := range h.counts {
		keys = append(keys, k)
	}
	sort.Strings(keys)
	for _, k := range keys {
		h.c.Count("calls."+k, h.counts[k])
	}
}

// ---------------------------------------------------------------------------
// reading results back

// nanScan classifies the non-finite content of m.
func nanScan(m *ref.M) (nan, poison, taint bool) {
	for _, v := range m.D {
		if math.IsNaN(v) {
			nan = true
			if mat.VerifIsPoison(v) {
				poison = true
			}
			if vrt.IsTaint(v) {
				taint = true
			}
		}
	}
	return
}

// finiteResult reads x through At and reports a violation (and false) if it
// holds NaN or Inf. Workspace poison and harness taint get their own clause.
func (h *H) finiteResult(routine, path, id string, x ref.Ater, replay func() any) (*ref.M, bool) {
	m := ref.FromAt(x)
	nan, poison, taint := nanScan(m)
	switch {
	case poison:
		h.fail(routine, path, "result-holds-workspace-poison", id, "result contains the pool poison NaN (read of un-cleared or released workspace)", replay)
		return m, false
	case taint:
		h.fail(routine, path, "result-holds-destination-garbage", id, "result contains the NaN the harness put into dst before the call", replay)
		return m, false
	case nan:
		h.fail(routine, path, "result-nan", id, "result contains NaN", replay)
		return m, false
	}
	for _, v := range m.D {
		if math.IsInf(v, 0) {
			h.fail(routine, path, "result-inf", id, "result contains Inf", replay)
			return m, false
		}
	}
	return m, true
}

// sizeClass buckets a dimension for evaluation keys.
func sizeClass(n int) string {
	switch {
	case n <= 1:
		return "1"
	case n <= 3:
		return "2-3"
	case n <= 8:
		return "4-8"
	case n <= 33:
		return "9-33"
	case n <= 65:
		return "34-65"
	default:
		return ">65"
	}
}

func shapeClass(m, n int) string {
	switch {
	case m == n:
		return "sq" + sizeClass(n)
	case m > n:
		return "tall" + sizeClass(m) + "x" + sizeClass(n)
	default:
		return "wide" + sizeClass(m) + "x" + sizeClass(n)
	}
}

// small replay object for a matrix.
func rp(name string, m *ref.M) map[string]any {
	if m == nil {
		return map[string]any{name: nil}
	}
	d := m.D
	if len(d) > 400 {
		d = d[:400]
	}
	return map[string]any{"name": name, "r": m.R, "c": m.C, "data": append([]float64(nil), d...)}
}

func replayMats(kv ...any) func() any {
	return func() any {
		out := map[string]any{}
		for i := 0; i+1 < len(kv); i += 2 {
			k := kv[i].(string)
			switch v := kv[i+1].(type) {
			case *ref.M:
				out[k] = rp(k, v)
			default:
				out[k] = v
			}
		}
		return out
	}
}

func idf(format string, args ...any) string { return fmt.Sprintf(format, args...) }
