package main

import (
	"math"
	"math/cmplx"

	"gonum.org/v1/gonum/mat"
	"gonum.org/v1/gonum/verifx/ref"
)

// checkCross factorizes ONE symmetric positive definite matrix with every
// factorization type and compares determinant, log-determinant and
// condition number between them and with the reference values.
func (h *H) checkCross(idx, n int, kappa, scale float64) {
	rng := h.c.RNG("cross", idx)
	id := idf("cross n=%d kappa=%g scale=%g #%d", n, kappa, scale, idx)
	a := spd(rng, n, kappa, scale)
	replay := replayMats("A", a)
	condInf, cond1, _, okInv := condRef(a)
	if !okInv {
		return
	}
	rl, rs, _ := logDetRef(a)
	if rs != 1 {
		return
	}
	cond2 := ref.Cond2(a)
	unit := float64(n) * eps * condInf * (1 + math.Abs(rl))

	type ld struct {
		name string
		val  float64
	}
	var lds []ld
	add := func(name string, f func() float64) {
		var v float64
		if h.try(name, "cross", id, replay, func() { v = f() }) {
			return
		}
		lds = append(lds, ld{name, v})
	}
	sym := makeSym(skSym, a)
	dense := makeMat(mkDense, a)
	var lu mat.LU
	var ch mat.Cholesky
	var pc mat.PivotedCholesky
	var es mat.EigenSym
	var eg mat.Eigen
	var svd mat.SVD
	var qr mat.QR
	okAll := true
	if h.try("factorize-all", "cross", id, replay, func() {
		lu.Factorize(dense)
		okAll = ch.Factorize(sym) && pc.Factorize(sym, -1) && es.Factorize(sym, false) && eg.Factorize(dense, mat.EigenNone) && svd.Factorize(dense, mat.SVDNone)
		qr.Factorize(dense)
	}) {
		return
	}
	if !okAll {
		h.fail("factorize-all", "cross", "ok-false", id, "a factorization of an SPD matrix failed", replay)
		return
	}
	h.count("cross", 7)
	h.eval("cross|"+sizeClass(n)+idf("|kappa=%g", kappa), true)
	add("LU.LogDet", func() float64 {
		l, s := lu.LogDet()
		if s != 1 {
			return math.NaN()
		}
		return l
	})
	add("Cholesky.LogDet", func() float64 { return ch.LogDet() })
	add("mat.LogDet", func() float64 {
		l, s := mat.LogDet(dense)
		if s != 1 {
			return math.NaN()
		}
		return l
	})
	add("EigenSym.Values", func() float64 {
		var s float64
		for _, v := range es.Values(nil) {
			s += math.Log(v)
		}
		return s
	})
	add("Eigen.Values", func() float64 {
		var s float64
		for _, v := range eg.Values(nil) {
			s += math.Log(cmplx.Abs(v))
		}
		return s
	})
	add("SVD.Values", func() float64 {
		var s float64
		for _, v := range svd.Values(nil) {
			s += math.Log(v)
		}
		return s
	})
	for _, l := range lds {
		h.check("logdet", l.name, "cross", math.Abs(l.val-rl), unit, id, replay)
	}
	// pairwise consistency (the cross-factorization clause proper)
	for i := range lds {
		for j := i + 1; j < len(lds); j++ {
			h.check("logdet-pairwise", lds[i].name+"~"+lds[j].name, "cross", math.Abs(lds[i].val-lds[j].val), 2*unit, id, replay)
		}
	}
	if math.Abs(rl) < 600 {
		want := math.Exp(rl)
		for _, d := range []struct {
			name string
			f    func() float64
		}{
			{"LU.Det", lu.Det}, {"Cholesky.Det", ch.Det}, {"mat.Det", func() float64 { return mat.Det(dense) }},
		} {
			var v float64
			if !h.try(d.name, "cross", id, replay, func() { v = d.f() }) {
				h.check("det", d.name, "cross", math.Abs(v-want), unit*want, id, replay)
			}
		}
	}
	// condition numbers
	tInf := condInf
	h.condBand("LU.Cond", "cross", id, lu.Cond(), tInf, tInf, n, condInf, replay)
	h.condBand("Cholesky.Cond", "cross", id, ch.Cond(), tInf, tInf, n, condInf, replay)
	h.condBand("PivotedCholesky.Cond", "cross", id, pc.Cond(), tInf, tInf, n, condInf, replay)
	h.condBand("QR.Cond", "cross", id, qr.Cond(), cond2/float64(n), cond2*float64(n), n, cond2, replay)
	h.check("svd-cond", "SVD.Cond", "cross", math.Abs(svd.Cond()-cond2), float64(n)*eps*cond2*cond2, id, replay)
	var c1, c2, ci float64
	if !h.try("mat.Cond", "cross", id, replay, func() { c1 = mat.Cond(dense, 1); c2 = mat.Cond(dense, 2); ci = mat.Cond(dense, math.Inf(1)) }) {
		h.condBand("mat.Cond", "norm=1", id, c1, cond1, cond1, n, cond1, replay)
		h.condBand("mat.Cond", "norm=Inf", id, ci, condInf, condInf, n, condInf, replay)
		h.check("svd-cond", "mat.Cond", "norm=2", math.Abs(c2-cond2), float64(n)*eps*cond2*cond2, id, replay)
	}
	// band Cholesky of the same matrix viewed as a full-bandwidth band matrix
	if n <= 33 {
		var bc mat.BandCholesky
		if bc.Factorize(makeSymBand(a, n-1)) {
			h.check("logdet", "BandCholesky.LogDet", "cross", math.Abs(bc.LogDet()-rl), unit, id, replay)
			h.condBand("BandCholesky.Cond", "-", id, bc.Cond(), tInf, tInf, n, condInf, replay)
		} else {
			h.fail("BandCholesky.Factorize", "cross", "ok-false-for-positive-definite", id, "", replay)
		}
	}
}

// checkCrossGeneral: nonsymmetric matrix: LU vs Eigen vs SVD vs mat.Det and
// mat.Cond for rectangular matrices through QR / LQ.
func (h *H) checkCrossGeneral(idx, n int) {
	rng := h.c.RNG("cross-general", idx)
	id := idf("cross-general n=%d #%d", n, idx)
	a := withSV(rng, n, n, geomSpectrum(n, 100))
	replay := replayMats("A", a)
	condInf, _, _, okInv := condRef(a)
	if !okInv {
		return
	}
	rl, rs, _ := logDetRef(a)
	unit := float64(n) * eps * condInf * (1 + math.Abs(rl))
	dense := makeMat(idx%nMatKinds, a)
	var l1, s1, l2, s2 float64
	var sv []float64
	if h.try("cross-general", "-", id, replay, func() {
		var lu mat.LU
		lu.Factorize(dense)
		l1, s1 = lu.LogDet()
		l2, s2 = mat.LogDet(dense)
		var svd mat.SVD
		svd.Factorize(dense, mat.SVDNone)
		sv = svd.Values(nil)
	}) {
		return
	}
	h.count("cross", 3)
	h.eval("cross-general|"+sizeClass(n), true)
	if s1 != rs || s2 != rs {
		h.fail("LU.LogDet", "cross", "sign", id, idf("signs %v %v, reference %v", s1, s2, rs), replay)
	}
	h.check("logdet", "LU.LogDet", "cross", math.Abs(l1-rl), unit, id, replay)
	h.check("logdet", "mat.LogDet", "cross", math.Abs(l2-rl), unit, id, replay)
	var ls float64
	for _, v := range sv {
		ls += math.Log(v)
	}
	h.check("logdet", "SVD.Values", "cross", math.Abs(ls-rl), unit, id, replay)
	// rectangular mat.Cond: QR / LQ based, 2-norm exact
	m := n + 1 + rng.Intn(3)
	r := rectMatrix(rng, m, n, 50)
	k2 := ref.Cond2(r)
	// mat.Cond documents (BUG note) that its 1- and infinity-norm values for
	// non-square matrices are inaccurate; only the 2-norm value is judged.
	var c2 float64
	if !h.try("mat.Cond", "rectangular", id, replay, func() { c2 = mat.Cond(makeMat(mkDense, r), 2) }) {
		h.check("svd-cond", "mat.Cond", "tall,norm=2", math.Abs(c2-k2), float64(m)*eps*k2*k2, id, replay)
	}
}
