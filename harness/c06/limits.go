package main

// limits holds the calibrated tolerance constants: a check named X passes
// while value <= limits[X] * unit, the unit being the (dimension * u * scale)
// expression stated at the call site and summarised here (u = 2^-53).
//
// Calibration: largest ratio observed on the tree with the candidate fixes
// applied (so that no defect masks a path) over VERIF_SEED in {1,2,3,7,42},
// quick and thorough tier (default build) and seeds 1, 42 thorough (noasm
// build), about 2 million judged results; each empirical limit is >= 100 x
// that maximum (the comment gives the observed maximum). The maxima of every
// run are written to the evidence (notes.band_max_ratio, band_max_case).
// Realistic breaks (a wrong transpose flag, a skipped update, a stale cached
// value, an un-cleared workspace) give ratios of 1e8 and more: the units are
// O(1e-14).
var limits = map[string]float64{
	// reconstruction of factors
	"lu-reconstruction":                  1000, // 1.33  max|P L U - A| / (n u max(|L||U|, |A|) k)      k = updates applied + 1
	"lu-At":                              1000, // 1.33  same unit, matrix read through At
	"chol-reconstruction":                2000, // 15.6  max|Ut U - A| / (n u max|A| (k + sum 1/(1-theta)))
	"chol-At":                            2000, // 15.6
	"chol-ToSym":                         2000, // 15.6
	"orthogonality":                      1000, // 5.75  max|Qt Q - I| / (order u)
	"qr-reconstruction":                  1000, // 2.32  max|Q R - A| / (order u |A|_F)
	"qr-At":                              1000, // 2.32
	"singular-values":                    1000, // 2     max|s - s_ref| / (max(m,n) u s_1)
	"svd-reconstruction":                 2000, // 11.6  max|U S Vt - A| / (max(m,n) u s_1)
	"svd-one-sided":                      2000, // 11.1  max|(A W)t (A W) - S^2| / (max(m,n) u s_1^2)
	"eigenvalues-sym":                    4000, // 32.5  max|w - w_ref| / (n u |A|_2)
	"eigen-residual-sym":                 1000, // 3.4   max|A V - V W| / (n u |A|_2)
	"eigen-At":                           1000, // 4.53
	"eigen-trace":                        1000, // 1.79  |sum w - tr A| / (n^2 u |A|_F)
	"eigenvalues-normal":                 1000, // 8.84  Hausdorff distance to the known spectrum / (n u |A|_F)
	"eigen-residual-right":               1000, // 3.64  max_j |A x_j - w_j x_j|_2 / (n u |A|_F)
	"eigen-residual-left":                1000, // 5.41  max_j |x_j^H A - w_j x_j^H|_2 / (n u |A|_F)
	"eigenvector-unit-norm":              1000, // 1.5   | |x_j|_2 - 1 | / (n u)
	"eigenvector-largest-component-real": 1000, // 0     |Im| of a largest component / (n u)
	"gsvd-reconstruction":                1000, // 1.13  max|U S [0 R] Qt - A|, |V S [0 R] Qt - B| / (max dim u |[A;B]|_F)
	"gsvd-sigma-identity":                1000, // 2     max|S1t S1 + S2t S2 - I| / (max dim u)
	"hogsvd-reconstruction":              1000, // 0.99  max|U_i S_i Vt - M_i| / (max dim u cond_2(V) |M_i|_F)

	// solves
	"solve-backward-residual":     4000, // 38.2  max_j |b_j - op x_j|_inf / (|op|_inf |x_j|_inf + |b_j|_inf) / (max(m,n) u k)
	"ls-normal-equations":         1000, // 2.06  max_j |opT(b_j - op x_j)|_2 / (|op|_F (|op|_F |x_j|_2 + |b_j|_2)) / (max(m,n) u)
	"min-norm-null-component":     1000, // 0.86  max_j |P_null x_j|_2 / |x_j|_2 / (max(m,n) u kappa_2)
	"svd-solve-vs-pseudo-inverse": 2000, // 10    max|X - pinv_r(A) B| / (max(m,n) u (s_1/s_r)^2 max(|X|, |B|/s_1))
	"svd-solve-residual":          1000, // 3.43  |res - |b - A x_ref|^2| / (max(m,n) u (s_1/s_r) |b|^2)
	"inverse-forward":             1000, // 3.24  max|X - A^-1| / (n u cond_inf max|A^-1|)

	// scalars
	"logdet":          1000, // 9.08  |logdet - ref| / (n u cond_inf (1+|logdet|) k)
	"det":             1000, // 9.09  |det - ref| / (n u cond_inf (1+|logdet|) |ref| k)
	"logdet-pairwise": 1000, // 1.49  |logdet_i - logdet_j| / (2 n u cond_inf (1+|logdet|))
	"svd-cond":        100,  // 0.72  |cond - ref| / (max(m,n) u cond^2)
	// Condition estimates. The upper side is a mathematical bound (the
	// LAPACK estimators return a lower bound of the norm of the inverse of
	// the computed factors), its rounding slack is part of the unit. The
	// lower side is empirical: the worst case seen is an SPD matrix with a
	// geometric spectrum, condition 1e6, n = 7, estimated 10.7 times too low.
	"cond-transpose-relation": 1000, // 0.93   |Cond(A,1) - Cond(At,Inf)| / (max(m,n) u Cond^2)
	"cond-overestimate":       1.01, // 1     Cond() / (rigorous upper bound (1 + 1e-6 + 1e3 n u kappa))
	"cond-underestimate":      1500, // 10.7  rigorous lower bound of the estimated quantity / Cond()

	// matrix functions
	"exp-skew-orthogonal": 1000, // 1.97   max|Xt X - I| / (n u (1+|A|_1)), A skew-symmetric
	"exp-commuting-pair":  1000, // 1.84   max|e^(A+B) - e^A e^B| / (n u (1+|A|_1+|B|_1) e^(|A|_1+|B|_1)), B = cA^2+dI
	"exp-general":         1000, // 2.29  max|X - e^A| / (n u (1+|A|_1) e^|A|_1)
	"exp-normal":          1000, // 3.42  max|X - e^A| / (n^1.5 u (1+|A|_1) max|e^A|)
	"pow-componentwise":   100,  // 0.56  max_ij |X - A^p|_ij / (n p u (|A|^p)_ij)
	"powpsd":              100,  // 0.43  max|X - V W^p Vt| / (n u (1+|p|) cond_2 |A^p|_inf)
}
