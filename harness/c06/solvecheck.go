package main

import (
	"errors"
	"math"

	"gonum.org/v1/gonum/mat"
	"gonum.org/v1/gonum/verifx/ref"
	"gonum.org/v1/gonum/verifx/vrt"
)

// Solve judging shared by all factorization types.

const (
	modeSquare  = iota // op x = b, op square nonsingular: backward residual
	modeLS             // op tall, full column rank: normal-equations residual
	modeMinNorm        // op wide, full row rank: residual and x orthogonal to null(op)
)

var modeNames = [...]string{"square", "least-squares", "minimum-norm"}

// solveSpec describes the mathematical problem a Solve call is judged by.
type solveSpec struct {
	routine string
	path    string  // path class for signatures and evaluation keys
	aop     *ref.M  // the operator: the call must solve aop x = b
	mode    int     // modeSquare, modeLS, modeMinNorm
	kappa   float64 // 2-norm condition number by construction (min-norm band)
	// wellCond: the operator is far from singular (condition number below
	// 1e8 by construction): a Condition error is then a violation.
	wellCond bool
	// slack multiplies the units (0 means 1): for an object that went
	// through k updates the factors represent the explicitly updated
	// matrix only up to k rounding-level perturbations.
	slack float64
}

func isCondition(err error) (mat.Condition, bool) {
	var c mat.Condition
	if errors.As(err, &c) {
		return c, true
	}
	return 0, false
}

// judge checks x against the spec for right-hand side b. Returns false on
// the first violated clause.
func (h *H) judge(sp *solveSpec, id string, x, b *ref.M, replay func() any) bool {
	m, n := sp.aop.R, sp.aop.C
	if x.R != n || x.C != b.C {
		h.fail(sp.routine, sp.path, "result-shape", id, idf("result is %dx%d, want %dx%d", x.R, x.C, n, b.C), replay)
		return false
	}
	dim := float64(max(m, n))
	if sp.slack > 0 {
		dim *= sp.slack
	}
	switch sp.mode {
	case modeSquare:
		return h.check("solve-backward-residual", sp.routine, sp.path, residRatio(sp.aop, x, b), dim*eps, id, replay)
	case modeLS:
		return h.check("ls-normal-equations", sp.routine, sp.path, normalRatio(sp.aop, x, b), dim*eps, id, replay)
	case modeMinNorm:
		if !h.check("solve-backward-residual", sp.routine, sp.path, residRatio(sp.aop, x, b), dim*eps, id, replay) {
			return false
		}
		return h.check("min-norm-null-component", sp.routine, sp.path, nullRatio(sp.aop, x), dim*eps*sp.kappa, id, replay)
	}
	panic("judge: mode")
}

// handleErr applies the error rules; it returns true when the result should
// be judged (err == nil).
func (h *H) handleErr(sp *solveSpec, id string, err error, replay func() any) bool {
	if err == nil {
		return true
	}
	if _, ok := isCondition(err); !ok {
		h.fail(sp.routine, sp.path, "error-not-Condition", id, "error is "+err.Error(), replay)
		return false
	}
	if sp.wellCond {
		h.fail(sp.routine, sp.path, "condition-error-on-well-conditioned", id, err.Error(), replay)
	}
	return false
}

// rhs builds a random right-hand side with rows rows.
func rhs(rng *vrt.Rand, rows, nrhs int) *ref.M { return randM(rng, rows, nrhs) }

// solveDense drives one SolveTo-style call with a Dense destination.
// bKind < 0 selects dst aliasing b (b is the destination *Dense itself);
// that is only meaningful when the result has the shape of b.
func (h *H) solveDense(sp *solveSpec, id string, rng *vrt.Rand, nrhs, bKind, dKind int, call func(dst *mat.Dense, b mat.Matrix) error) {
	b := rhs(rng, sp.aop.R, nrhs)
	var dst *mat.Dense
	var bOp mat.Matrix
	outside := func() bool { return false }
	var tag string
	if bKind < 0 {
		if sp.aop.R != sp.aop.C {
			return
		}
		if dKind == dkView {
			dst, _, _ = taintedView(b)
		} else {
			dst = mat.NewDense(b.R, b.C, append([]float64(nil), b.D...))
		}
		bOp = dst
		tag = "dst=b"
	} else {
		bOp = makeMat(bKind, b)
		dst, outside = dstDense(dKind, sp.aop.C, nrhs)
		tag = "b=" + matKindNames[bKind] + ",dst=" + dstKindNames[dKind]
	}
	id = id + " " + tag + idf(" nrhs=%d", nrhs)
	replay := replayMats("op(A)", sp.aop, "B", b, "call", sp.routine+" "+sp.path+" "+tag)
	var err error
	if h.try(sp.routine, sp.path, id, replay, func() { err = call(dst, bOp) }) {
		return
	}
	h.eval(sp.routine+"|"+sp.path+"|"+tag+"|"+shapeClass(sp.aop.R, sp.aop.C)+"|nrhs"+sizeClass(nrhs)+"|"+modeNames[sp.mode], true)
	if outside() {
		h.fail(sp.routine, sp.path, "wrote-outside-destination-window", id, "storage around the destination view changed", replay)
	}
	if bKind >= 0 {
		// b must be unchanged (value semantics of an input).
		if ref.MaxDiff(ref.FromAt(bOp), b) != 0 {
			h.fail(sp.routine, sp.path, "modified-right-hand-side", id, "b changed", replay)
		}
	}
	if !h.handleErr(sp, id, err, replay) {
		return
	}
	x, ok := h.finiteResult(sp.routine, sp.path, id, dst, replay)
	if !ok {
		return
	}
	if h.judge(sp, id, x, b, replay) && sp.aop.R <= 3 && sp.aop.C <= 3 && sp.aop.R > 1 && nrhs <= 2 && h.c.WantSample() {
		h.c.Sample(map[string]any{"call": sp.routine + " " + sp.path + " " + tag, "op(A)": rp("op(A)", sp.aop), "B": rp("B", b), "X": rp("X", x), "judged_as": modeNames[sp.mode]})
	}
}

// solveVec drives one SolveVecTo-style call. vKind < 0 selects dst == b.
func (h *H) solveVec(sp *solveSpec, id string, rng *vrt.Rand, vKind, dKind int, call func(dst *mat.VecDense, b mat.Vector) error) {
	b := rhs(rng, sp.aop.R, 1)
	var dst *mat.VecDense
	var bOp mat.Vector
	outside := func() bool { return false }
	var tag string
	if vKind < 0 {
		if sp.aop.R != sp.aop.C {
			return
		}
		dst = mat.NewVecDense(b.R, append([]float64(nil), b.D...))
		bOp = dst
		tag = "dst=b"
	} else {
		bOp = makeVec(vKind, b.D)
		dst, outside = dstVec(dKind, sp.aop.C)
		tag = "b=" + vecKindNames[vKind] + ",dst=" + dstKindNames[dKind]
	}
	id = id + " " + tag
	replay := replayMats("op(A)", sp.aop, "b", b, "call", sp.routine+" "+sp.path+" "+tag)
	var err error
	if h.try(sp.routine, sp.path, id, replay, func() { err = call(dst, bOp) }) {
		return
	}
	h.eval(sp.routine+"|"+sp.path+"|"+tag+"|"+shapeClass(sp.aop.R, sp.aop.C)+"|"+modeNames[sp.mode], true)
	if outside() {
		h.fail(sp.routine, sp.path, "wrote-outside-destination-window", id, "storage around the destination view changed", replay)
	}
	if vKind >= 0 {
		for i, v := range b.D {
			if bOp.AtVec(i) != v {
				h.fail(sp.routine, sp.path, "modified-right-hand-side", id, "b changed", replay)
				break
			}
		}
	}
	if !h.handleErr(sp, id, err, replay) {
		return
	}
	x, ok := h.finiteResult(sp.routine, sp.path, id, dst, replay)
	if !ok {
		return
	}
	h.judge(sp, id, x, b, replay)
}

// pickKinds returns the (b kind, dst kind) pairs exercised for one
// factorization: all pairs in the thorough tier, a rotating subset in the
// quick tier (every kind is used, not every pair).
func (h *H) densePairs(rot int) [][2]int {
	var out [][2]int
	if h.thorough() {
		for b := 0; b < nMatKinds; b++ {
			for d := 0; d < nDstKinds; d++ {
				out = append(out, [2]int{b, d})
			}
		}
		out = append(out, [2]int{-1, dkSized}, [2]int{-1, dkView})
		return out
	}
	for k := 0; k < 3; k++ {
		out = append(out, [2]int{(rot + k) % nMatKinds, (rot + 2*k) % nDstKinds})
	}
	if rot%2 == 0 {
		out = append(out, [2]int{-1, dkSized})
	} else {
		out = append(out, [2]int{-1, dkView})
	}
	return out
}

func (h *H) vecPairs(rot int) [][2]int {
	var out [][2]int
	if h.thorough() {
		for b := 0; b < nVecKinds; b++ {
			for d := 0; d < nDstKinds; d++ {
				out = append(out, [2]int{b, d})
			}
		}
		out = append(out, [2]int{-1, dkSized})
		return out
	}
	for k := 0; k < 2; k++ {
		out = append(out, [2]int{(rot + k) % nVecKinds, (rot + 3*k + 1) % nDstKinds})
	}
	if rot%3 == 0 {
		out = append(out, [2]int{-1, dkSized})
	}
	return out
}

// nrhsFor picks a number of right-hand sides.
func nrhsFor(rng *vrt.Rand) int { return rng.PickInt(1, 1, 2, 3, 5, 8, 17) }

func log10(x float64) float64 { return math.Log10(x) }
