package main

import (
	"math"
	"math/cmplx"
	"sort"

	"gonum.org/v1/gonum/mat"
	"gonum.org/v1/gonum/verifx/ref"
	"gonum.org/v1/gonum/verifx/vrt"
)

func (h *H) checkEigenSym(idx, n int, class string) {
	rng := h.c.RNG("eigsym", idx)
	id := idf("EigenSym n=%d class=%s #%d", n, class, idx)
	var a *ref.M
	switch class {
	case "indefinite":
		a = symM(rng, n)
	case "spd":
		a = spd(rng, n, 1e3, 1)
	case "clustered":
		// repeated eigenvalues: two clusters
		lam := make([]float64, n)
		for i := range lam {
			lam[i] = float64(1 + i%2)
		}
		a = spdWith(rng, n, lam)
	case "scaled":
		a = ref.Scale(math.Ldexp(1, rng.Range(-30, 30)), symM(rng, n))
	}
	sKind := idx % nSymKinds
	vectors := idx%4 != 3
	path := "A=" + symKindNames[sKind] + idf(",vectors=%v", vectors)
	replay := replayMats("A", a, "class", class)
	var e mat.EigenSym
	if idx%3 == 1 {
		e.Factorize(makeSym(skSym, symM(rng, n+1)), true)
	}
	var ok bool
	if h.try("EigenSym.Factorize", path, id, replay, func() { ok = e.Factorize(makeSym(sKind, a), vectors) }) {
		return
	}
	h.count("eigsym", 1)
	h.eval("EigenSym.Factorize|"+path+"|"+class+"|"+sizeClass(n), true)
	if !ok {
		h.fail("EigenSym.Factorize", path, "ok-false", id, "Factorize returned false", replay)
		return
	}
	if e.SymmetricDim() != n {
		h.fail("EigenSym.SymmetricDim", path, "wrong", id, idf("%d", e.SymmetricDim()), replay)
		return
	}
	var vals []float64
	if h.try("EigenSym.Values", path, id, replay, func() { vals = e.Values(nil) }) {
		return
	}
	wref, _ := ref.SymEig(a)
	an := math.Max(math.Abs(wref[0]), math.Abs(wref[n-1]))
	var worst float64
	for i, v := range vals {
		if math.IsNaN(v) || (i > 0 && v < vals[i-1]) {
			h.fail("EigenSym.Values", path, "not-ascending", id, idf("%v", vals), replay)
			return
		}
		worst = math.Max(worst, math.Abs(v-wref[i]))
	}
	if !h.check("eigenvalues-sym", "EigenSym.Values", path, worst, float64(n)*eps*an, id, replay) {
		return
	}
	if rv := e.RawValues(); len(rv) != n {
		h.fail("EigenSym.RawValues", path, "length", id, "", replay)
	}
	if !vectors {
		h.expectPanic("EigenSym.VectorsTo", "vectors-not-computed", "must-panic", id, func() { var d mat.Dense; e.VectorsTo(&d) })
		h.expectPanic("EigenSym.At", "vectors-not-computed", "must-panic", id, func() { e.At(0, 0) })
		if e.RawQ() != nil {
			h.fail("EigenSym.RawQ", "vectors-not-computed", "not-nil", id, "", replay)
		}
		return
	}
	dst, _ := dstDense(idx%2, n, n)
	if h.try("EigenSym.VectorsTo", path, id, replay, func() { e.VectorsTo(dst) }) {
		return
	}
	h.count("eigsym", 2)
	v := ref.FromAt(dst)
	if !h.check("orthogonality", "EigenSym.VectorsTo", path, ref.OrthoResid(v), float64(n)*eps, id, replay) {
		return
	}
	// A V = V Lambda
	av := ref.Mul(a, v)
	vl := ref.FromFunc(n, n, func(i, j int) float64 { return v.At(i, j) * vals[j] })
	if !h.check("eigen-residual-sym", "EigenSym.Factorize", path, ref.MaxDiff(av, vl), float64(n)*eps*an, id, replay) {
		return
	}
	h.check("eigen-At", "EigenSym.At", path, ref.MaxDiff(ref.FromAt(&e), a), float64(n)*eps*an, id, replay)
	if q := e.RawQ(); q == nil || ref.MaxDiff(ref.FromAt(q), v) != 0 {
		h.fail("EigenSym.RawQ", path, "differs-from-VectorsTo", id, "", replay)
	}
}

// normalMatrix returns Q blockdiag(D) Qt with 2x2 blocks [[a,b],[-b,a]]
// (eigenvalues a +- ib) and 1x1 blocks: a normal matrix with known spectrum.
func normalMatrix(rng *vrt.Rand, n int) (*ref.M, []complex128) {
	d := ref.New(n, n)
	var ev []complex128
	i := 0
	for i < n {
		if i+1 < n && rng.Chance(0.7) {
			a, b := rng.Sym()*2, rng.Uniform(0.3, 2)
			d.D[i*n+i], d.D[i*n+i+1] = a, b
			d.D[(i+1)*n+i], d.D[(i+1)*n+i+1] = -b, a
			ev = append(ev, complex(a, b), complex(a, -b))
			i += 2
		} else {
			a := rng.Sym() * 2
			d.D[i*n+i] = a
			ev = append(ev, complex(a, 0))
			i++
		}
	}
	q := randOrtho(rng, n)
	return ref.Mul(ref.Mul(q, d), q.T()), ev
}

func sortComplex(z []complex128) {
	sort.Slice(z, func(i, j int) bool {
		if real(z[i]) != real(z[j]) {
			return real(z[i]) < real(z[j])
		}
		return imag(z[i]) < imag(z[j])
	})
}

var eigenKinds = []struct {
	name string
	kind mat.EigenKind
}{
	{"None", mat.EigenNone},
	{"Left", mat.EigenLeft},
	{"Right", mat.EigenRight},
	{"Both", mat.EigenBoth},
}

func (h *H) checkEigen(idx, n int, class string) {
	rng := h.c.RNG("eigen", idx)
	id := idf("Eigen n=%d class=%s #%d", n, class, idx)
	var a *ref.M
	var known []complex128
	switch class {
	case "random":
		a = randM(rng, n, n)
	case "normal":
		a, known = normalMatrix(rng, n)
	case "symmetric":
		a = symM(rng, n)
		w, _ := ref.SymEig(a)
		for _, v := range w {
			known = append(known, complex(v, 0))
		}
	case "diagdom":
		a = diagDominant(rng, n, 1.2)
	}
	kk := eigenKinds[idx%len(eigenKinds)]
	aKind := (idx / len(eigenKinds)) % nMatKinds
	path := "kind=" + kk.name
	replay := replayMats("A", a, "class", class, "kind", kk.name)
	var e mat.Eigen
	if idx%3 == 1 {
		e.Factorize(makeMat(mkDense, randM(rng, n+1, n+1)), mat.EigenBoth)
	}
	var ok bool
	if h.try("Eigen.Factorize", path, id, replay, func() { ok = e.Factorize(makeMat(aKind, a), kk.kind) }) {
		return
	}
	h.count("eigen", 1)
	h.eval("Eigen.Factorize|"+path+"|A="+matKindNames[aKind]+"|"+class+"|"+sizeClass(n), true)
	if !ok {
		h.fail("Eigen.Factorize", path, "ok-false", id, "Factorize returned false", replay)
		return
	}
	if e.Kind() != kk.kind {
		h.fail("Eigen.Kind", path, "wrong", id, idf("%v", e.Kind()), replay)
	}
	var vals []complex128
	if h.try("Eigen.Values", path, id, replay, func() { vals = e.Values(nil) }) {
		return
	}
	if len(vals) != n {
		h.fail("Eigen.Values", path, "length", id, "", replay)
		return
	}
	af := a.NormFro()
	// trace
	var tr float64
	for i := 0; i < n; i++ {
		tr += a.At(i, i)
	}
	var sum complex128
	for _, z := range vals {
		if cmplx.IsNaN(z) {
			h.fail("Eigen.Values", path, "nan", id, "", replay)
			return
		}
		sum += z
	}
	h.check("eigen-trace", "Eigen.Values", path, cmplx.Abs(sum-complex(tr, 0)), float64(n)*float64(n)*eps*af, id, replay)
	// complex eigenvalues come in adjacent conjugate pairs, positive
	// imaginary part first (the layout VectorsTo relies on).
	for j := 0; j < n; j++ {
		if imag(vals[j]) != 0 {
			if j+1 >= n || vals[j+1] != cmplx.Conj(vals[j]) {
				h.fail("Eigen.Values", path, "conjugate-pair-broken", id, idf("%v", vals), replay)
				return
			}
			j++
		}
	}
	if known != nil {
		got := append([]complex128(nil), vals...)
		want := append([]complex128(nil), known...)
		sortComplex(got)
		sortComplex(want)
		// sorted comparison is safe only when real parts are separated; use
		// the assignment-free bound: every known value has a computed value
		// within the band and vice versa.
		var worst float64
		for _, w := range want {
			best := math.Inf(1)
			for _, g := range got {
				best = math.Min(best, cmplx.Abs(g-w))
			}
			worst = math.Max(worst, best)
		}
		for _, g := range got {
			best := math.Inf(1)
			for _, w := range want {
				best = math.Min(best, cmplx.Abs(g-w))
			}
			worst = math.Max(worst, best)
		}
		h.check("eigenvalues-normal", "Eigen.Values", path+","+class, worst, float64(n)*eps*af, id, replay)
	}
	// product of eigenvalues = det (cross-factorization clause)
	condInf, _, _, okInv := condRef(a)
	if okInv && condInf < 1e8 {
		rl, rs, _ := logDetRef(a)
		var ls float64
		sgn := complex(1, 0)
		for _, z := range vals {
			ls += math.Log(cmplx.Abs(z))
			sgn *= z / complex(cmplx.Abs(z), 0)
		}
		h.check("logdet", "Eigen.Values", "product-vs-det", math.Abs(ls-rl), float64(n)*eps*condInf*(1+math.Abs(rl)), id, replay)
		if math.Abs(real(sgn)-rs) > 1e-6 {
			h.fail("Eigen.Values", "product-vs-det", "sign", id, idf("sign of product %v, det sign %v", sgn, rs), replay)
		}
	}

	right := kk.kind&mat.EigenRight != 0
	left := kk.kind&mat.EigenLeft != 0
	if !right {
		h.expectPanic("Eigen.VectorsTo", "right-not-computed", "must-panic", id, func() { var d mat.CDense; e.VectorsTo(&d) })
	} else {
		var d mat.CDense
		if idx%2 == 1 {
			d = *mat.NewCDense(n, n, nil)
		}
		if h.try("Eigen.VectorsTo", path, id, replay, func() { e.VectorsTo(&d) }) {
			return
		}
		h.count("eigen", 1)
		h.eigenVectors("Eigen.VectorsTo", path, id, a, &d, vals, false, replay)
	}
	if !left {
		h.expectPanic("Eigen.LeftVectorsTo", "left-not-computed", "must-panic", id, func() { var d mat.CDense; e.LeftVectorsTo(&d) })
	} else {
		var d mat.CDense
		if idx%2 == 0 {
			d = *mat.NewCDense(n, n, nil)
		}
		if h.try("Eigen.LeftVectorsTo", path, id, replay, func() { e.LeftVectorsTo(&d) }) {
			return
		}
		h.count("eigen", 1)
		h.eigenVectors("Eigen.LeftVectorsTo", path, id, a, &d, vals, true, replay)
	}
}

// eigenVectors checks unit norm, "largest component real" and the residual
// A x = lambda x (right) or xH A = lambda xH (left) column by column.
func (h *H) eigenVectors(routine, path, id string, a *ref.M, d *mat.CDense, vals []complex128, left bool, replay func() any) {
	n := a.R
	if r, c := d.Dims(); r != n || c != n {
		h.fail(routine, path, "factor-shape", id, idf("%dx%d", r, c), replay)
		return
	}
	af := a.NormFro()
	x := make([]complex128, n)
	var worstRes, worstNorm, worstImag float64
	for j := 0; j < n; j++ {
		var nn float64
		big, bigAbs := 0, -1.0
		for i := 0; i < n; i++ {
			x[i] = d.At(i, j)
			if cmplx.IsNaN(x[i]) {
				h.fail(routine, path, "result-nan", id, "", replay)
				return
			}
			ab := cmplx.Abs(x[i])
			nn += ab * ab
			if ab > bigAbs {
				big, bigAbs = i, ab
			}
		}
		worstNorm = math.Max(worstNorm, math.Abs(math.Sqrt(nn)-1))
		// "largest component real": some component of (nearly) largest
		// modulus has (nearly) zero imaginary part.
		best := math.Inf(1)
		for i := 0; i < n; i++ {
			if cmplx.Abs(x[i]) >= bigAbs*(1-1e-8) {
				best = math.Min(best, math.Abs(imag(x[i])))
			}
		}
		_ = big
		worstImag = math.Max(worstImag, best)
		// residual
		lam := vals[j]
		var rr float64
		for i := 0; i < n; i++ {
			var s complex128
			if !left {
				for k := 0; k < n; k++ {
					s += complex(a.At(i, k), 0) * x[k]
				}
				s -= lam * x[i]
			} else {
				// (xH A)_i = sum_k conj(x_k) A[k,i];  lambda xH_i = lambda conj(x_i)
				for k := 0; k < n; k++ {
					s += cmplx.Conj(x[k]) * complex(a.At(k, i), 0)
				}
				s -= lam * cmplx.Conj(x[i])
			}
			rr += real(s)*real(s) + imag(s)*imag(s)
		}
		worstRes = math.Max(worstRes, math.Sqrt(rr))
	}
	clause := "eigen-residual-right"
	if left {
		clause = "eigen-residual-left"
	}
	h.check(clause, routine, path, worstRes, float64(n)*eps*af, id, replay)
	h.check("eigenvector-unit-norm", routine, path, worstNorm, float64(n)*eps, id, replay)
	h.check("eigenvector-largest-component-real", routine, path, worstImag, float64(n)*eps, id, replay)
}
