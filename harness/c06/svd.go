package main

import (
	"math"

	"gonum.org/v1/gonum/mat"
	"gonum.org/v1/gonum/verifx/ref"
)

var svdKinds = []struct {
	name string
	kind mat.SVDKind
}{
	{"None", mat.SVDNone},
	{"Thin", mat.SVDThin},
	{"Full", mat.SVDFull},
	{"ThinU|FullV", mat.SVDThinU | mat.SVDFullV},
	{"FullU|ThinV", mat.SVDFullU | mat.SVDThinV},
	{"ThinU", mat.SVDThinU},
	{"FullV", mat.SVDFullV},
}

// checkSVD: spectrum is geometric from 1 to 1/kappa on the first rank
// singular values and exactly zero beyond (rank == min(m,n): full rank).
func (h *H) checkSVD(idx, m, n, rank int, kappa float64) {
	rng := h.c.RNG("svd", idx)
	k := min(m, n)
	s := make([]float64, k)
	copy(s, geomSpectrum(rank, kappa))
	scale := math.Ldexp(1, rng.Range(-8, 8))
	for i := range s {
		s[i] *= scale
	}
	a := withSV(rng, m, n, s)
	kk := svdKinds[idx%len(svdKinds)]
	aKind := (idx / len(svdKinds)) % nMatKinds
	id := idf("SVD %dx%d rank=%d kappa=%g kind=%s #%d", m, n, rank, kappa, kk.name, idx)
	path := "kind=" + kk.name
	replay := replayMats("A", a, "kind", kk.name)

	var svd mat.SVD
	if idx%3 == 1 {
		svd.Factorize(makeMat(mkDense, randM(rng, m+1, n+2)), mat.SVDFull)
	}
	aOp := makeMat(aKind, a)
	var ok bool
	if h.try("SVD.Factorize", path, id, replay, func() { ok = svd.Factorize(aOp, kk.kind) }) {
		return
	}
	h.count("svd", 1)
	h.eval("SVD.Factorize|"+path+"|A="+matKindNames[aKind]+"|"+shapeClass(m, n)+idf("|deficient=%v", rank < k), true)
	if !ok {
		h.fail("SVD.Factorize", path, "ok-false", id, "Factorize returned false for a finite matrix", replay)
		return
	}
	if ref.MaxDiff(ref.FromAt(aOp), a) != 0 {
		h.fail("SVD.Factorize", path, "modified-input", id, "A changed", replay)
	}
	if svd.Kind() != kk.kind {
		h.fail("SVD.Kind", path, "wrong", id, idf("Kind=%v", svd.Kind()), replay)
	}
	var vals []float64
	if h.try("SVD.Values", path, id, replay, func() { vals = svd.Values(nil) }) {
		return
	}
	if len(vals) != k {
		h.fail("SVD.Values", path, "length", id, idf("len=%d want %d", len(vals), k), replay)
		return
	}
	sref := ref.SingularValues(a)
	dim := float64(max(m, n))
	var worst float64
	for i, v := range vals {
		if math.IsNaN(v) || v < 0 || (i > 0 && v > vals[i-1]) {
			h.fail("SVD.Values", path, "not-nonnegative-descending", id, idf("values %v", vals), replay)
			return
		}
		worst = math.Max(worst, math.Abs(v-sref[i]))
	}
	if !h.check("singular-values", "SVD.Values", path, worst, dim*eps*sref[0], id, replay) {
		return
	}
	// Rank and Cond
	if rank < k {
		var rk int
		if !h.try("SVD.Rank", path, id, replay, func() { rk = svd.Rank(1e-9) }) && rk != rank {
			h.fail("SVD.Rank", path, "wrong-rank", id, idf("Rank(1e-9)=%d, want %d (values %v)", rk, rank, vals), replay)
		}
	} else {
		var rk int
		if !h.try("SVD.Rank", path, id, replay, func() { rk = svd.Rank(0.5 / kappa) }) && rk != k {
			h.fail("SVD.Rank", path, "wrong-rank", id, idf("Rank(0.5/kappa)=%d, want %d", rk, k), replay)
		}
		var cond float64
		if !h.try("SVD.Cond", path, id, replay, func() { cond = svd.Cond() }) {
			want := sref[0] / sref[k-1]
			h.check("svd-cond", "SVD.Cond", path, math.Abs(cond-want), dim*eps*want*want, id, replay)
		}
	}

	hasU := kk.kind&(mat.SVDThinU|mat.SVDFullU) != 0
	hasV := kk.kind&(mat.SVDThinV|mat.SVDFullV) != 0
	var u, v *ref.M
	if hasU {
		wantC := k
		if kk.kind&mat.SVDFullU != 0 {
			wantC = m
		}
		dst, _ := dstDense(idx%2, m, wantC)
		if h.try("SVD.UTo", path, id, replay, func() { svd.UTo(dst) }) {
			return
		}
		u = ref.FromAt(dst)
		if u.R != m || u.C != wantC {
			h.fail("SVD.UTo", path, "factor-shape", id, idf("U %dx%d want %dx%d", u.R, u.C, m, wantC), replay)
			return
		}
		if !h.check("orthogonality", "SVD.UTo", path, ref.OrthoResid(u), dim*eps, id, replay) {
			return
		}
	} else {
		h.expectPanic("SVD.UTo", "U-not-computed", "must-panic", id, func() { var d mat.Dense; svd.UTo(&d) })
	}
	if hasV {
		wantC := k
		if kk.kind&mat.SVDFullV != 0 {
			wantC = n
		}
		dst, _ := dstDense((idx/2)%2, n, wantC)
		if h.try("SVD.VTo", path, id, replay, func() { svd.VTo(dst) }) {
			return
		}
		v = ref.FromAt(dst)
		if v.R != n || v.C != wantC {
			h.fail("SVD.VTo", path, "factor-shape", id, idf("V %dx%d want %dx%d", v.R, v.C, n, wantC), replay)
			return
		}
		if !h.check("orthogonality", "SVD.VTo", path, ref.OrthoResid(v), dim*eps, id, replay) {
			return
		}
	} else {
		h.expectPanic("SVD.VTo", "V-not-computed", "must-panic", id, func() { var d mat.Dense; svd.VTo(&d) })
	}
	h.count("svd", 4)
	if hasU && hasV {
		// A = U[:, :k] diag(s) V[:, :k]t
		rec := ref.New(m, n)
		for i := 0; i < m; i++ {
			for j := 0; j < n; j++ {
				var t float64
				for l := 0; l < k; l++ {
					t += u.D[i*u.C+l] * vals[l] * v.D[j*v.C+l]
				}
				rec.D[i*n+j] = t
			}
		}
		if !h.check("svd-reconstruction", "SVD.Factorize", path, ref.MaxDiff(rec, a), dim*eps*sref[0], id, replay) {
			return
		}
	} else if hasU {
		// U diag(s) must have the column space structure: At U[:, :k] = V diag(s), so
		// |At u_l|_2 = s_l.
		h.svdOneSide("SVD.UTo", path, id, a.T(), u, vals, replay)
	} else if hasV {
		h.svdOneSide("SVD.VTo", path, id, a, v, vals, replay)
	}

	if !(hasU && hasV) {
		h.expectPanic("SVD.SolveTo", "vectors-not-computed", "must-panic", id, func() {
			var d mat.Dense
			svd.SolveTo(&d, mat.NewDense(m, 1, nil), 1)
		})
		return
	}
	// SolveTo / SolveVecTo with the constructed rank and, for full-rank
	// inputs, also with a truncated rank (the spectrum is then cut inside
	// the geometric sequence: the gap is a factor kappa^(1/(k-1)), only used
	// when that gap is at least 8).
	fullU := kk.kind&mat.SVDFullU != 0
	ranks := []int{rank}
	if rank == k && k >= 2 && math.Pow(kappa, 1/float64(k-1)) >= 8 {
		ranks = append(ranks, 1+rng.Intn(k-1))
	}
	for _, r := range ranks {
		rp := "rank=full"
		if r < k {
			rp = "rank<min(m,n)"
		}
		rcond := math.Sqrt(sref[r-1]*sref[min(r, k-1)]) / sref[0]
		if r == k {
			rcond = 0.5 * sref[k-1] / sref[0]
		} else if sref[r] == 0 || sref[r] < 1e-10*sref[0] {
			rcond = 1e-9
		}
		pinv := ref.PseudoInverse(a, rcond)
		kr := sref[0] / sref[r-1]
		nrhs := nrhsFor(rng)
		b := rhs(rng, m, nrhs)
		xref := ref.Mul(pinv, b)
		rref := ref.Sub(b, ref.Mul(a, xref))
		for _, bKind := range []int{idx % nMatKinds, (idx + 2) % nMatKinds} {
			for _, dKind := range []int{dkEmpty, dkSized} {
				tag := rp + ",b=" + matKindNames[bKind] + ",dst=" + dstKindNames[dKind]
				dst, _ := dstDense(dKind, n, nrhs)
				var res []float64
				if h.try("SVD.SolveTo", rp, id+" "+tag, replay, func() { res = svd.SolveTo(dst, makeMat(bKind, b), r) }) {
					continue
				}
				h.count("svd", 1)
				h.eval("SVD.SolveTo|"+path+"|"+tag+"|"+shapeClass(m, n), true)
				x, okf := h.finiteResult("SVD.SolveTo", rp, id+" "+tag, dst, replay)
				if !okf {
					continue
				}
				if x.R != n || x.C != nrhs {
					h.fail("SVD.SolveTo", rp, "result-shape", id, idf("%dx%d", x.R, x.C), replay)
					continue
				}
				h.check("svd-solve-vs-pseudo-inverse", "SVD.SolveTo", rp, ref.MaxDiff(x, xref), dim*eps*kr*kr*math.Max(xref.MaxAbs(), b.MaxAbs()/sref[0]), id+" "+tag, replay)
				if fullU {
					if len(res) != nrhs {
						h.fail("SVD.SolveTo", rp, "residual-length", id, idf("len=%d", len(res)), replay)
						continue
					}
					for j := 0; j < nrhs; j++ {
						rj := vecNorm2(col(rref, j))
						bj := vecNorm2(col(b, j))
						h.check("svd-solve-residual", "SVD.SolveTo", rp+",FullU", math.Abs(res[j]-rj*rj), dim*eps*kr*bj*bj, id+" "+tag, replay)
					}
				}
			}
		}
		// vector form
		for _, vKind := range []int{idx % nVecKinds, (idx + 1) % nVecKinds} {
			dKind := (idx + vKind) % 2
			tag := rp + ",b=" + vecKindNames[vKind] + ",dst=" + dstKindNames[dKind]
			dst, _ := dstVec(dKind, n)
			var res float64
			if h.try("SVD.SolveVecTo", rp, id+" "+tag, replay, func() { res = svd.SolveVecTo(dst, makeVec(vKind, col(b, 0)), r) }) {
				continue
			}
			h.count("svd", 1)
			h.eval("SVD.SolveVecTo|"+path+"|"+tag+"|"+shapeClass(m, n), true)
			x, okf := h.finiteResult("SVD.SolveVecTo", rp, id+" "+tag, dst, replay)
			if !okf {
				continue
			}
			x0 := ref.FromFunc(n, 1, func(i, _ int) float64 { return xref.At(i, 0) })
			h.check("svd-solve-vs-pseudo-inverse", "SVD.SolveVecTo", rp, ref.MaxDiff(x, x0), dim*eps*kr*kr*math.Max(x0.MaxAbs(), infNorm(col(b, 0))/sref[0]), id+" "+tag, replay)
			if fullU {
				rj := vecNorm2(col(rref, 0))
				bj := vecNorm2(col(b, 0))
				h.check("svd-solve-residual", "SVD.SolveVecTo", rp+",FullU", math.Abs(res-rj*rj), dim*eps*kr*bj*bj, id+" "+tag, replay)
			}
		}
	}
}

// svdOneSide checks singular vectors when only one side was computed:
// |op w_l|_2 = s_l for the first k columns w_l, and op w_l mutually
// orthogonal (op = A for right vectors, At for left vectors).
func (h *H) svdOneSide(routine, path, id string, opm, w *ref.M, vals []float64, replay func() any) {
	k := len(vals)
	wk := ref.FromFunc(w.R, k, func(i, j int) float64 { return w.At(i, j) })
	p := ref.Mul(opm, wk) // columns should be s_l * (unit vectors, orthogonal)
	g := ref.Mul(p.T(), p)
	for l := 0; l < k; l++ {
		g.D[l*k+l] -= vals[l] * vals[l]
	}
	dim := float64(max(opm.R, opm.C))
	s0 := vals[0]
	h.check("svd-one-sided", routine, path, g.MaxAbs(), dim*eps*s0*s0, id, replay)
}
