// Command c06 is the runtime monitor for property C06: mat factorization
// types reconstruct, solve and update consistently.
//
// Every check calls the exported mat API on operands built from plain
// reference matrices (package ref) and judges the results with identities
// evaluated by package ref and the helpers of refx.go; no gonum call is part
// of an oracle. See variants.json for the rule and the assumptions.
package main

import (
	"flag"
	"sort"
	"strings"

	"gonum.org/v1/gonum/mat"
	"gonum.org/v1/gonum/verifx/vrt"
)

var onlyFamily = flag.String("family", "", "run only the families whose name contains this string (debugging)")

func main() { vrt.Main("C06", run) }

type job struct {
	family string
	cost   int
	run    func()
}

type addFn = func(family string, cost int, f func())

func run(c *vrt.Ctx) {
	h := newH(c)
	// Reads of un-cleared or released pool workspace surface as NaN.
	mat.VerifPoolPoison(true)
	mat.VerifPoolReset()

	var jobs []job
	add := func(family string, cost int, f func()) {
		if *onlyFamily != "" && !strings.Contains(family, *onlyFamily) {
			return
		}
		jobs = append(jobs, job{family, cost, f})
	}
	h.planLU(add)
	h.planChol(add)
	h.planQR(add)
	h.planSVD(add)
	h.planEigen(add)
	h.planGSVD(add)
	h.planDenseSolve(add)
	h.planFuncs(add)
	h.planCross(add)
	h.planHistories(add)
	h.planBoundary(add)
	h.planSweeps(add)
	h.planDefects(add)

	sort.SliceStable(jobs, func(i, j int) bool { return jobs[i].cost > jobs[j].cost })
	vrt.Parallel(len(jobs), func(i int) { jobs[i].run() })

	// Second phase without poisoning: pooled workspaces now keep the finite
	// values of their previous use, so a solve that relies on un-cleared
	// workspace being zero returns a finite, wrong (not minimum-norm)
	// answer instead of NaN. Every minimum-norm solve in this phase is
	// preceded by an ordinary solve of the same workspace shape.
	mat.VerifPoolPoison(false)
	n1 := len(jobs)
	h.planDirty(add)
	dirty := jobs[n1:]
	sort.SliceStable(dirty, func(i, j int) bool { return dirty[i].cost > dirty[j].cost })
	vrt.Parallel(len(dirty), func(i int) { dirty[i].run() })
	mat.VerifPoolPoison(true)

	fam := map[string]any{}
	for _, j := range jobs {
		if v, ok := fam[j.family]; ok {
			fam[j.family] = v.(int) + 1
		} else {
			fam[j.family] = 1
		}
	}
	c.Note("logical_inputs_per_family", fam)

	st := mat.VerifPoolSnapshot()
	c.Count("pool.errors", st.NumErrors)
	for _, e := range st.Errors {
		c.Violation(sig("mat.pool", "-", "protocol:"+normMsg(e)), e, nil)
	}
	h.finish()
}

var (
	quickSizes    = []int{1, 2, 3, 5, 8, 17, 33, 65, 100}
	thoroughSizes = []int{1, 2, 3, 4, 5, 8, 9, 17, 33, 64, 65, 100, 150}
)

func (h *H) sizes() []int {
	if h.thorough() {
		return thoroughSizes
	}
	return quickSizes
}

// sizesRep: the sizes above 65 are used in the first repetition only (their
// reference computations dominate the cost).
func (h *H) sizesRep(rep int) []int {
	all := h.sizes()
	if rep == 0 {
		return all
	}
	var out []int
	for _, n := range all {
		if n <= 65 {
			out = append(out, n)
		}
	}
	return out
}

func (h *H) rectsRep(rep int) [][2]int {
	all := h.rects()
	if rep == 0 {
		return all
	}
	var out [][2]int
	for _, s := range all {
		if s[0] <= 65 {
			out = append(out, s)
		}
	}
	return out
}

func (h *H) planLU(add addFn) {
	idx := 0
	classes := []string{"random", "cond1e3", "cond1e6", "diagdom", "scaled", "duprow"}
	for rep := 0; rep < h.pick(4, 6); rep++ {
		for _, n := range h.sizesRep(rep) {
			for _, cls := range classes {
				if cls == "duprow" && (n < 2 || n > 17) {
					continue
				}
				idx++
				i, n, cls := idx, n, cls
				add("lu", n*n*n, func() { h.checkLU(i, n, cls) })
			}
		}
	}
}

func (h *H) planChol(add addFn) {
	idx := 0
	classes := []string{"cond10", "cond1e3", "cond1e6", "scaled-up", "scaled-down", "gram"}
	for rep := 0; rep < h.pick(3, 5); rep++ {
		for _, n := range h.sizesRep(rep) {
			for _, cls := range classes {
				idx++
				i, n, cls := idx, n, cls
				add("cholesky", n*n*n, func() { h.checkCholesky(i, n, cls) })
				add("pivoted-cholesky", n*n*n, func() { h.checkPivotedCholesky(i, n, cls) })
			}
			if n >= 2 && n <= 33 {
				for r := 0; r < 3; r++ {
					idx++
					i, n := idx, n
					add("pivoted-cholesky", n*n*n, func() { h.checkPivotedCholesky(i, n, "rank-deficient") })
				}
			}
			for r := 0; r < 3; r++ {
				idx++
				i, n := idx, n
				add("cholesky-notpd", n*n*n, func() { h.checkCholeskyNotPD(i, n) })
			}
		}
	}
	// band Cholesky: bandwidths around the block size and the three scales
	idx = 0
	for rep := 0; rep < h.pick(1, 3); rep++ {
		for _, n := range h.sizesRep(rep) {
			for _, kd := range []int{0, 1, 2, 5, 31, 32, 40} {
				if kd >= n && !(kd == 0 && n == 1) {
					continue
				}
				for _, sc := range []float64{1, 0x1p30, 0x1p-30} {
					idx++
					i, n, kd, sc := idx, n, kd, sc
					add("band-cholesky", n*n*n, func() { h.checkBandCholesky(i, n, kd, sc) })
				}
			}
		}
	}
}

func (h *H) rects() [][2]int {
	if h.thorough() {
		return [][2]int{{1, 1}, {2, 1}, {3, 2}, {5, 3}, {8, 8}, {8, 5}, {17, 8}, {17, 17}, {33, 17}, {33, 32}, {65, 33}, {64, 64}, {100, 65}, {150, 100}, {150, 17}, {65, 1}}
	}
	return [][2]int{{1, 1}, {2, 1}, {3, 2}, {5, 5}, {8, 5}, {17, 8}, {33, 17}, {65, 33}, {40, 1}}
}

func (h *H) planQR(add addFn) {
	idx := 0
	for rep := 0; rep < h.pick(2, 3); rep++ {
		for _, s := range h.rectsRep(rep) {
			for _, cls := range []string{"cond10", "cond1e3", "cond1e6"} {
				idx++
				i, m, n, cls := idx, s[0], s[1], cls
				add("qr", m*n*n+m*m*m/4, func() { h.checkQR(i, m, n, cls) })
				add("lq", m*n*n+m*m*m/4, func() { h.checkLQ(i, n, m, cls) })
			}
			if s[1] >= 1 && s[0] <= 40 {
				idx++
				i, m, n := idx, s[0], s[1]
				add("qr-singular", m*n*n, func() { h.checkQRSingular(i, m, n) })
			}
		}
	}
}

func (h *H) planSVD(add addFn) {
	idx := 0
	for rep := 0; rep < h.pick(4, 8); rep++ {
		for _, s := range h.rectsRep(rep) {
			for _, tr := range []bool{false, true} {
				m, n := s[0], s[1]
				if tr {
					if m == n {
						continue
					}
					m, n = n, m
				}
				k := min(m, n)
				type cfg struct {
					rank  int
					kappa float64
				}
				cfgs := []cfg{{k, 10}, {k, 1e3}}
				if k >= 2 {
					cfgs = append(cfgs, cfg{max(1, k/2), 100})
				}
				for _, cf := range cfgs {
					idx++
					i, m, n, cf := idx, m, n, cf
					add("svd", m*n*max(m, n), func() { h.checkSVD(i, m, n, cf.rank, cf.kappa) })
				}
			}
		}
	}
}

func (h *H) planEigen(add addFn) {
	idx := 0
	for rep := 0; rep < h.pick(2, 4); rep++ {
		for _, n := range h.sizesRep(rep) {
			for _, cls := range []string{"indefinite", "spd", "clustered", "scaled"} {
				idx++
				i, n, cls := idx, n, cls
				add("eigensym", n*n*n*4, func() { h.checkEigenSym(i, n, cls) })
			}
			for _, cls := range []string{"random", "normal", "symmetric", "diagdom"} {
				for k := 0; k < 2; k++ {
					idx++
					i, n, cls := idx, n, cls
					add("eigen", n*n*n*4, func() { h.checkEigen(i, n, cls) })
				}
			}
		}
	}
}

func (h *H) planGSVD(add addFn) {
	idx := 0
	shapes := [][3]int{{3, 2, 2}, {2, 3, 4}, {5, 4, 3}, {4, 4, 4}, {8, 3, 5}, {3, 8, 5}, {6, 7, 9}, {17, 9, 8}, {9, 17, 12}, {20, 20, 20}}
	if h.thorough() {
		shapes = append(shapes, [3]int{33, 17, 20}, [3]int{40, 50, 33}, [3]int{65, 33, 40}, [3]int{1, 1, 1}, [3]int{1, 5, 3})
	}
	for rep := 0; rep < h.pick(2, 5); rep++ {
		for _, s := range shapes {
			for _, z := range []bool{false, true} {
				idx++
				i, s, z := idx, s, z
				add("gsvd", s[0]*s[1]*s[2], func() { h.checkGSVD(i, s[0], s[1], s[2], z) })
			}
		}
		if rep == 0 {
			// pinned small common-zero-column cases (data independent of the
			// seed and of the tier): they expose every clause through which
			// the open Dggsvp3 pivoting finding shows (rank and reconstruction).
			for j := 0; j < 24; j++ {
				i, sh := 1000+j, [][3]int{{2, 3, 4}, {3, 2, 4}, {2, 2, 3}}[j%3]
				add("gsvd", 100, func() { h.checkGSVD(i, sh[0], sh[1], sh[2], true) })
			}
		}
		for _, c := range []int{1, 2, 3, 5, 8, 17} {
			for _, nm := range []int{2, 3, 4} {
				idx++
				i, c, nm := idx, c, nm
				add("hogsvd", c*c*c*nm, func() { h.checkHOGSVD(i, c, nm) })
			}
		}
	}
}

func (h *H) planDenseSolve(add addFn) {
	idx := 0
	for rep := 0; rep < h.pick(2, 3); rep++ {
		for _, s := range h.rectsRep(rep) {
			for _, tr := range []bool{false, true} {
				m, n := s[0], s[1]
				if tr {
					if m == n {
						continue
					}
					m, n = n, m
				}
				for kind := 0; kind < nMatKinds; kind++ {
					idx++
					i, m, n := idx, m, n
					pv := genProvider(kind, []float64{10, 1e3, 1e5}[idx%3])
					add("dense-solve", m*n*max(m, n), func() { h.checkDenseSolve(i, pv, m, n) })
				}
				for _, pv := range rectProviders {
					idx++
					i, m, n, pv := idx, m, n, pv
					add("dense-solve", m*n*max(m, n), func() { h.checkDenseSolve(i, pv, m, n) })
				}
			}
		}
		for _, n := range h.sizesRep(rep) {
			for _, pv := range squareProviders {
				idx++
				i, n, pv := idx, n, pv
				add("dense-solve", n*n*n, func() { h.checkDenseSolve(i, pv, n, n) })
			}
			idx++
			i, n := idx, n
			add("solveto-direct", n*n*n, func() { h.checkSolveToDirect(i, n) })
			add("dense-solve", n*n*n, func() { h.checkSolveSelf(i, n) })
			if n >= 2 && n <= 17 {
				idx++
				i := idx
				add("dense-solve-singular", n*n*n, func() { h.checkDenseSolveSingular(i, n) })
			}
		}
	}
}

func (h *H) planFuncs(add addFn) {
	idx := 0
	for rep := 0; rep < h.pick(1, 3); rep++ {
		for _, n := range h.sizesRep(rep) {
			for _, cls := range []string{"random", "cond1e3", "cond1e6", "diagdom", "scaled", "duprow"} {
				if cls == "duprow" && (n < 2 || n > 17) {
					continue
				}
				idx++
				i, n, cls := idx, n, cls
				add("inverse", n*n*n, func() { h.checkInverse(i, n, cls) })
			}
			for k := 0; k < 4; k++ {
				idx++
				i, n := idx, n
				add("inverse-tri", n*n*n, func() { h.checkInverseTri(i, n) })
			}
			for _, p := range []int{0, 1, 2, 3, 4, 5, 7, 8, 13} {
				if n > 65 && p > 5 {
					continue
				}
				idx++
				i, n, p := idx, n, p
				add("pow", n*n*n*(p+1), func() { h.checkPow(i, n, p) })
			}
			for _, pw := range []float64{0.5, -0.5, 2, -1, 1.0 / 3} {
				if n > 100 {
					continue
				}
				idx++
				i, n, pw := idx, n, pw
				add("powpsd", n*n*n*6, func() { h.checkPowPSD(i, n, pw) })
			}
		}
	}
	// Exp: every Pade branch and several squaring counts
	targets := []float64{0, 0.01, 0.1, 0.5, 1.5, 4, 6, 12, 30}
	for rep := 0; rep < h.pick(3, 8); rep++ {
		for _, n := range []int{1, 2, 3, 4, 5, 6} {
			for _, cls := range []string{"general", "symmetric", "normal", "nilpotent"} {
				for _, tg := range targets {
					idx++
					i, n, cls, tg := idx, n, cls, tg
					add("exp", 100000, func() { h.checkExp(i, n, cls, tg) })
				}
			}
		}
		for _, n := range []int{8, 17, 33} {
			for _, tg := range targets {
				idx++
				i, n, tg := idx, n, tg
				add("exp", n*n*n*30, func() { h.checkExp(i, n, "symmetric", tg) })
			}
		}
	}
}

func (h *H) planCross(add addFn) {
	idx := 0
	for rep := 0; rep < h.pick(2, 4); rep++ {
		for _, n := range h.sizesRep(rep) {
			for _, kp := range []float64{10, 1e4} {
				for _, sc := range []float64{1, 0x1p20, 0x1p-20} {
					idx++
					i, n, kp, sc := idx, n, kp, sc
					add("cross", n*n*n*8, func() { h.checkCross(i, n, kp, sc) })
				}
			}
			idx++
			i, n := idx, n
			add("cross", n*n*n*4, func() { h.checkCrossGeneral(i, n) })
		}
	}
}

func (h *H) planHistories(add addFn) {
	idx := 0
	sizes := []int{1, 2, 3, 5, 8, 12}
	for rep := 0; rep < h.pick(25, 160); rep++ {
		for _, n := range sizes {
			idx++
			i, n := idx, n
			length := 1 + (idx*7)%40
			other := idx%3 != 0
			add("history-cholesky", 40*n*n*n+length*1000, func() { h.checkCholHistory(i, n, length, other) })
			add("history-lu", 40*n*n*n+length*1000, func() { h.checkLUHistory(i, n, length, other) })
		}
	}
	for rep := 0; rep < h.pick(1, 6); rep++ {
		for _, n := range []int{17, 33, 65} {
			idx++
			i, n := idx, n
			length := 5 + (idx*5)%20
			add("history-cholesky", 40*n*n*n, func() { h.checkCholHistory(i, n, length, true) })
			add("history-lu", 40*n*n*n, func() { h.checkLUHistory(i, n, length, true) })
		}
	}
	// every operation x receiver state x vector kind, deterministically
	idx = 0
	for _, n := range []int{1, 2, 4, 7} {
		for _, opn := range []string{"update", "downdate", "downdate-notpd", "alpha0", "jump", "extend", "extend-notpd", "scale", "clone"} {
			for recv := 0; recv < nRecv; recv++ {
				if opn == "clone" && recv == rvSelf {
					continue
				}
				for vk := 0; vk < nVecKinds; vk++ {
					if (opn == "scale" || opn == "clone") && vk > 0 {
						continue
					}
					idx++
					i, n, opn, recv, vk := idx, n, opn, recv, vk
					add("history-cholesky-forced", 5000, func() { h.checkCholForced(i, n, opn, recv, vk) })
				}
			}
		}
		for recv := 0; recv < nRecv; recv++ {
			for sing := 0; sing < 2; sing++ {
				if recv != rvUsed && sing == 1 {
					continue
				}
				for vk := 0; vk < nVecKinds; vk++ {
					idx++
					i, n, recv, sing, vk := idx, n, recv, sing, vk
					add("history-lu-forced", 5000, func() { h.checkLUForced(i, n, recv, sing, vk) })
				}
			}
		}
	}
}

func (h *H) planBoundary(add addFn) {
	idx := 0
	for rep := 0; rep < h.pick(8, 40); rep++ {
		for n := 1; n <= 8; n++ {
			idx++
			i, n := idx, n
			add("exact-boundary", 3000, func() { h.checkExactBoundary(i, n) })
		}
	}
	for i := 1; i <= h.pick(120, 600); i++ {
		i := i
		add("exact-thresholds", 2000, func() { h.checkExactThresholds(i) })
	}
	idx = 0
	for rep := 0; rep < h.pick(3, 8); rep++ {
		for _, s := range h.rectsRep(1) {
			for _, tr := range []bool{false, true} {
				m, n := s[0], s[1]
				if tr {
					if m == n {
						continue
					}
					m, n = n, m
				}
				idx++
				i, m, n := idx, m, n
				add("cond-relations", m*n*max(m, n)*4, func() { h.checkCondRelations(i, m, n) })
			}
		}
	}
}

// planSweeps: the Exp norm sweep across the implementation's thresholds
// and the graded-scaling determinant classes (both tiers).
func (h *H) planSweeps(add addFn) {
	idx := 0
	for rep := 0; rep < h.pick(1, 3); rep++ {
		for _, n := range []int{1, 2, 3} {
			for _, cls := range []string{"general", "symmetric", "normal", "nilpotent", "diagonal", "skew"} {
				idx++
				i, n, cls := idx, n, cls
				add("exp-sweep", 200000, func() { h.checkExpSweep(i, n, cls) })
			}
		}
		for _, cls := range []string{"diagonal", "symmetric", "skew"} {
			idx++
			i, cls := idx, cls
			add("exp-sweep", 400000, func() { h.checkExpSweep(i, 8, cls) })
		}
	}
	idx = 0
	for rep := 0; rep < h.pick(1, 4); rep++ {
		for _, n := range []int{1, 2, 3, 6, 9, 17} {
			for _, sym := range []bool{true, false} {
				for _, pat := range []string{"large-first", "small-first", "interleaved"} {
					for _, e := range []int{40, 300} {
						idx++
						i, n, sym, pat, e := idx, n, sym, pat, e
						add("det-graded", n*n*n*10, func() { h.checkDetGraded(i, n, pat, e, sym) })
					}
				}
				for _, pat := range []string{"uniform-huge", "uniform-tiny"} {
					for _, e := range []int{100, 300} {
						if !sym {
							continue
						}
						idx++
						i, n, pat, e := idx, n, pat, e
						add("det-graded", n*n*n*10, func() { h.checkDetGraded(i, n, pat, e, true) })
					}
				}
			}
		}
	}
}

func (h *H) planDefects(add addFn) {
	for _, n := range []int{2, 5, 17} {
		n := n
		add("near-singular", 1000, func() { h.checkNearSingular(n) })
	}
	add("empty-receivers", 1000, func() { h.checkEmptyReceivers() })
}

// planDirty: the minimum-norm and least-squares solves again, with pool
// poisoning off (see run).
func (h *H) planDirty(add addFn) {
	idx := 1 << 20
	for rep := 0; rep < h.pick(2, 4); rep++ {
		for _, s := range h.rectsRep(rep) {
			if s[0] == s[1] {
				continue
			}
			for _, cls := range []string{"cond10", "cond1e3"} {
				idx++
				i, m, n, cls := idx, s[0], s[1], cls
				add("dirty-qr", m*n*n+m*m*m/4, func() { h.checkQR(i, m, n, cls) })
				add("dirty-lq", m*n*n+m*m*m/4, func() { h.checkLQ(i, n, m, cls) })
			}
			for kind := 0; kind < nMatKinds; kind += 2 {
				idx++
				i, m, n := idx, s[1], s[0] // wide
				pv := genProvider(kind, 100)
				add("dirty-dense-solve", m*n*max(m, n), func() { h.checkDenseSolve(i, pv, m, n) })
			}
			for _, pv := range rectProviders {
				idx++
				i, m, n, pv := idx, s[1], s[0], pv
				add("dirty-dense-solve", m*n*max(m, n), func() { h.checkDenseSolve(i, pv, m, n) })
			}
		}
	}
}
