package main

import (
	"math"

	"gonum.org/v1/gonum/mat"
	"gonum.org/v1/gonum/verifx/ref"
	"gonum.org/v1/gonum/verifx/vrt"
)

// Exact-boundary inputs for the operations that can fail: the quantity that
// decides success is exactly 0 in floating point because every intermediate
// value is a small integer or dyadic number. The outcome must then be the
// documented one (not positive definite => false, receiver unchanged) and
// must agree with a fresh Factorize of the explicitly formed matrix.

// exactU returns an n x n upper triangular matrix with power-of-two diagonal
// entries and small-integer off-diagonal entries. Ut U, triangular solves
// with U and the Cholesky factorization of Ut U are all exact in float64.
func exactU(rng *vrt.Rand, n int) *ref.M {
	u := ref.New(n, n)
	for i := 0; i < n; i++ {
		u.D[i*n+i] = rng.PickFloat(0.5, 1, 1, 2, 4)
		for j := i + 1; j < n; j++ {
			u.D[i*n+j] = float64(rng.Range(-2, 2))
		}
	}
	return u
}

// gram returns Ut U, exactly symmetric.
func gram(u *ref.M) *ref.M {
	a := ref.Mul(u.T(), u)
	n := a.R
	for i := 0; i < n; i++ {
		for j := i + 1; j < n; j++ {
			a.D[j*n+i] = a.D[i*n+j]
		}
	}
	return a
}

// exactChol returns a Cholesky whose factor is bit-identical to u, obtained
// either by Factorize of Ut U (which is exact for these matrices) or by
// SetFromU; nil if Factorize did not reproduce u (then nothing is judged).
func exactChol(u *ref.M, viaFactorize bool) *mat.Cholesky {
	var c mat.Cholesky
	if viaFactorize {
		if !c.Factorize(makeSym(skSym, gram(u))) {
			return nil
		}
	} else {
		c.SetFromU(makeTriDense(u, true))
	}
	var ut mat.TriDense
	c.UTo(&ut)
	if ref.MaxDiff(ref.FromAt(&ut), u) != 0 {
		return nil
	}
	return &c
}

// usedChol returns a receiver that holds another matrix of size n.
func usedChol(rng *vrt.Rand, n int) (*mat.Cholesky, *ref.M) {
	b := spd(rng, n, 10, 1)
	var c mat.Cholesky
	c.Factorize(makeSym(skSym, b))
	return &c, b
}

// sameObject reports whether c still represents want with condition wantCond.
func sameObject(c *mat.Cholesky, want *ref.M, wantCond float64) (bool, string) {
	var got *ref.M
	var cond float64
	if p := vrt.TryFast(func() { got = ref.FromAt(c); cond = c.Cond() }); p != nil {
		return false, "object unusable afterwards: " + p.Msg
	}
	if got.R != want.R || ref.MaxDiff(got, want) > 1e-9*want.MaxAbs() {
		return false, "object represents a different matrix afterwards"
	}
	if cond != wantCond {
		return false, idf("Cond changed from %v to %v", wantCond, cond)
	}
	return true, ""
}

func (h *H) checkExactBoundary(idx, n int) {
	rng := h.c.RNG("exact-boundary", idx)
	id := idf("exact-boundary n=%d #%d", n, idx)
	u := exactU(rng, n)
	a := gram(u)
	viaF := idx%2 == 0

	// ---- ExtendVecSym with k == w' A^-1 w exactly -------------------------
	// t integer, w = Ut t, k = t.t + delta; delta = 0 is the boundary,
	// delta < 0 (dyadic) is indefinite, both must be rejected.
	t := make([]float64, n)
	for i := range t {
		t[i] = float64(rng.Range(-2, 2))
	}
	if idx%3 == 0 {
		t[rng.Intn(n)] = 1 // make sure t != 0 in a third of the cases
	}
	w := make([]float64, n)
	var tt float64
	for i := 0; i < n; i++ {
		for k := 0; k <= i; k++ {
			w[i] += u.D[k*n+i] * t[k]
		}
		tt += t[i] * t[i]
	}
	for _, delta := range []float64{0, -0.25} {
		k := tt + delta
		v := append(append([]float64(nil), w...), k)
		ext := ref.New(n+1, n+1)
		for i := 0; i < n; i++ {
			copy(ext.D[i*(n+1):i*(n+1)+n], a.D[i*n:(i+1)*n])
			ext.D[i*(n+1)+n] = w[i]
			ext.D[n*(n+1)+i] = w[i]
		}
		ext.D[n*(n+1)+n] = k
		replay := replayMats("U", u, "A", a, "v", v, "extended", ext)
		path := "exact-boundary"
		if delta < 0 {
			path = "exact-indefinite"
		}
		// the fresh factorization of the extended matrix
		var fresh mat.Cholesky
		freshOK := true
		if h.try("Cholesky.Factorize", path, id, replay, func() { freshOK = fresh.Factorize(makeSym(skSym, ext)) }) {
			continue
		}
		if freshOK {
			h.fail("Cholesky.Factorize", path, "ok-true-for-exactly-singular", id, "Factorize of the extended matrix whose last pivot is exactly <= 0 returned true", replay)
		}
		for recv := 0; recv < 3; recv++ { // in place, used receiver, fresh receiver
			orig := exactChol(u, viaF)
			if orig == nil {
				break
			}
			origCond := orig.Cond()
			dst := orig
			var dstWas *ref.M
			var dstCond float64
			rn := "in-place"
			switch recv {
			case 1:
				dst, dstWas = usedChol(rng, n+1)
				dstCond = dst.Cond()
				rn = "used-receiver"
			case 2:
				dst = &mat.Cholesky{}
				rn = "fresh-receiver"
			}
			vk := (idx + recv) % nVecKinds
			ok := false
			if h.try("Cholesky.ExtendVecSym", path, id+" "+rn, replay, func() { ok = dst.ExtendVecSym(orig, makeVec(vk, v)) }) {
				continue
			}
			h.count("boundary", 1)
			h.eval("Cholesky.ExtendVecSym|"+path+"|"+rn+"|v="+vecKindNames[vk]+"|"+sizeClass(n), true)
			if ok {
				h.fail("Cholesky.ExtendVecSym", path, "ok-true-for-not-positive-definite-extension", id+" "+rn, idf("k - w'A^-1w = %g exactly; the documented condition is k > w'A^-1w", delta), replay)
			}
			if ok != freshOK {
				h.fail("Cholesky.ExtendVecSym", path, "disagrees-with-fresh-Factorize", id+" "+rn, idf("ExtendVecSym ok=%v, Factorize of the extended matrix ok=%v", ok, freshOK), replay)
			}
			// "the receiver will not be updated"; the original is never touched
			if same, why := sameObject(orig, a, origCond); !same && recv != 0 {
				h.fail("Cholesky.ExtendVecSym", path, "original-modified", id+" "+rn, why, replay)
			}
			if docSays("mat/cholesky.go", "func (c *Cholesky) ExtendVecSym", "return false and the receiver will not be updated") {
				switch recv {
				case 0:
					if same, why := sameObject(dst, a, origCond); !same {
						h.fail("Cholesky.ExtendVecSym", path+",in-place", "receiver-modified", id, why, replay)
					}
				case 1:
					if same, why := sameObject(dst, dstWas, dstCond); !same {
						h.fail("Cholesky.ExtendVecSym", path+",used-receiver", "receiver-modified", id, why, replay)
					}
				case 2:
					if !dst.IsEmpty() {
						h.fail("Cholesky.ExtendVecSym", path+",fresh-receiver", "receiver-modified", id, "fresh receiver is no longer empty", replay)
					}
				}
			}
		}
	}

	// ---- SymRankOne downdate with |U^-T x| == 1 exactly --------------------
	// p has 2-norm exactly 1: a unit vector, or four entries of modulus 1/2.
	type pcase struct {
		name string
		p    []float64
	}
	var pcs []pcase
	ej := make([]float64, n)
	j := rng.Intn(n)
	ej[j] = 1
	if rng.Bool() {
		ej[j] = -1
	}
	pcs = append(pcs, pcase{"unit-vector", ej})
	if n >= 4 {
		hp := make([]float64, n)
		for _, i := range rng.Perm(n)[:4] {
			hp[i] = 0.5
			if rng.Bool() {
				hp[i] = -0.5
			}
		}
		pcs = append(pcs, pcase{"half-vector", hp})
	}
	for _, pc := range pcs {
		x := make([]float64, n)
		for i := 0; i < n; i++ {
			for k := 0; k <= i; k++ {
				x[i] += u.D[k*n+i] * pc.p[k]
			}
		}
		down := rankOneSym(a, -1, x) // exactly singular positive semi-definite
		replay := replayMats("U", u, "A", a, "x", x, "A-xxT", down)
		path := "exact-boundary," + pc.name
		freshKnown := pc.name == "unit-vector"
		freshOK := false
		if freshKnown {
			// A - x x' = Ut (I - e_j e_j') U: the elimination reproduces the
			// rows of U before j exactly and meets the pivot 0 at step j.
			var fresh mat.Cholesky
			if h.try("Cholesky.Factorize", path, id, replay, func() { freshOK = fresh.Factorize(makeSym(skSym, down)) }) {
				continue
			}
			if freshOK {
				h.fail("Cholesky.Factorize", "exact-boundary", "ok-true-for-exactly-singular", id, "Factorize of Ut(I-ejejT)U returned true", replay)
			}
		}
		for recv := 0; recv < 3; recv++ {
			orig := exactChol(u, viaF)
			if orig == nil {
				break
			}
			origCond := orig.Cond()
			dst := orig
			var dstWas *ref.M
			var dstCond float64
			rn := "in-place"
			switch recv {
			case 1:
				dst, dstWas = usedChol(rng, n)
				dstCond = dst.Cond()
				rn = "used-receiver"
			case 2:
				dst = &mat.Cholesky{}
				rn = "fresh-receiver"
			}
			vk := (idx + recv) % nVecKinds
			ok := false
			if h.try("Cholesky.SymRankOne", "exact-boundary", id+" "+rn, replay, func() { ok = dst.SymRankOne(orig, -1, makeVec(vk, x)) }) {
				continue
			}
			h.count("boundary", 1)
			h.eval("Cholesky.SymRankOne|"+path+"|"+rn+"|x="+vecKindNames[vk]+"|"+sizeClass(n), true)
			if ok {
				h.fail("Cholesky.SymRankOne", "exact-boundary", "ok-true-for-singular-result", id+" "+rn, "A - x x' is exactly singular (|U^-T x|_2 = 1 exactly); SymRankOne returns whether A' is positive definite", replay)
			}
			if freshKnown && ok != freshOK {
				h.fail("Cholesky.SymRankOne", "exact-boundary", "disagrees-with-fresh-Factorize", id+" "+rn, idf("SymRankOne ok=%v, Factorize of A - x x' ok=%v", ok, freshOK), replay)
			}
			if same, why := sameObject(orig, a, origCond); !same && recv != 0 {
				h.fail("Cholesky.SymRankOne", "exact-boundary", "original-modified", id+" "+rn, why, replay)
			}
			if docSays("mat/cholesky.go", "func (c *Cholesky) SymRankOne", "If the update fails the receiver is left unchanged") {
				switch recv {
				case 0:
					if same, why := sameObject(dst, a, origCond); !same {
						h.fail("Cholesky.SymRankOne", "exact-boundary,in-place", "receiver-modified", id, why, replay)
					}
				case 1:
					if same, why := sameObject(dst, dstWas, dstCond); !same {
						h.fail("Cholesky.SymRankOne", "exact-boundary,used-receiver", "receiver-modified", id, why, replay)
					}
				case 2:
					if !dst.IsEmpty() {
						h.fail("Cholesky.SymRankOne", "exact-boundary,fresh-receiver", "receiver-modified", id, "fresh receiver is no longer empty", replay)
					}
				}
			}
		}
		// Band Cholesky of the same exactly singular matrix (full bandwidth).
		if freshKnown && n >= 2 {
			var bc mat.BandCholesky
			okb := true
			if !h.try("BandCholesky.Factorize", "exact-boundary", id, replay, func() { okb = bc.Factorize(makeSymBand(down, n-1)) }) {
				h.eval("BandCholesky.Factorize|exact-boundary|"+sizeClass(n), true)
				if okb {
					h.fail("BandCholesky.Factorize", "exact-boundary", "ok-true-for-exactly-singular", id, "", replay)
				}
			}
		}
	}

	// ---- one step inside the boundary: must succeed and be right -----------
	// k = t.t + 1/4: the last pivot is exactly 1/4, the extension is positive
	// definite, d = 1/2.
	{
		k := tt + 0.25
		v := append(append([]float64(nil), w...), k)
		orig := exactChol(u, viaF)
		if orig != nil {
			ok := false
			replay := replayMats("U", u, "v", v)
			if !h.try("Cholesky.ExtendVecSym", "exact-inside", id, replay, func() { ok = orig.ExtendVecSym(orig, makeVec(vkVec, v)) }) {
				h.eval("Cholesky.ExtendVecSym|exact-inside|"+sizeClass(n), true)
				if !ok {
					h.fail("Cholesky.ExtendVecSym", "exact-inside", "ok-false-for-positive-definite-result", id, "k - w'A^-1w = 1/4 exactly", replay)
				} else {
					var ut mat.TriDense
					orig.UTo(&ut)
					got := ref.FromAt(&ut)
					want := ref.New(n+1, n+1)
					for i := 0; i < n; i++ {
						copy(want.D[i*(n+1):i*(n+1)+n], u.D[i*n:(i+1)*n])
						want.D[i*(n+1)+n] = t[i]
					}
					want.D[n*(n+1)+n] = 0.5
					if ref.MaxDiff(got, want) != 0 {
						h.fail("Cholesky.ExtendVecSym", "exact-inside", "factor-not-exact", id, idf("max diff %g on an exactly representable problem", ref.MaxDiff(got, want)), replay)
					}
				}
			}
		}
	}
	_ = math.Pi
}

// checkCondRelations: relations of mat.Cond that hold by construction: the
// documentation says 'the result from Cond will match the condition number
// used internally', i.e. the Cond() of the factorization type Solve uses for
// that shape (LU square, QR tall, LQ wide; all with CondNorm = infinity
// norm); and the 1-norm condition number of A is the infinity-norm condition
// number of At.
func (h *H) checkCondRelations(idx, m, n int) {
	rng := h.c.RNG("cond-relations", idx)
	id := idf("mat.Cond relations %dx%d #%d", m, n, idx)
	a := rectMatrix(rng, m, n, rng.PickFloat(10, 1e3, 1e5))
	if idx%3 == 0 {
		a = randM(rng, m, n)
	}
	replay := replayMats("A", a)
	kind := idx % nMatKinds
	aOp := makeMat(kind, a)
	atOp := makeMat(kind, a.T())
	var cInf, c1, ctInf, ct1, cf float64
	shape := "square"
	if h.try("mat.Cond", shape, id, replay, func() {
		cInf = mat.Cond(aOp, math.Inf(1))
		c1 = mat.Cond(aOp, 1)
		ctInf = mat.Cond(atOp, math.Inf(1))
		ct1 = mat.Cond(atOp, 1)
		switch {
		case m > n:
			var qr mat.QR
			qr.Factorize(aOp)
			cf = qr.Cond()
			shape = "tall"
		case m < n:
			var lq mat.LQ
			lq.Factorize(aOp)
			cf = lq.Cond()
			shape = "wide"
		default:
			var lu mat.LU
			lu.Factorize(aOp)
			cf = lu.Cond()
		}
	}) {
		return
	}
	h.count("cross", 5)
	h.eval("mat.Cond|relations|"+shape+"|A="+matKindNames[kind]+"|"+shapeClass(m, n), true)
	if math.IsInf(cInf, 0) || math.IsNaN(cInf) || cInf > 1e12 {
		return
	}
	if docSays("mat/matrix.go", "func Cond", "the result from Cond will match the condition number used internally") || m == n {
		if cInf != cf {
			h.fail("mat.Cond", shape+",norm=Inf", "differs-from-Cond-of-the-factorization", id, idf("mat.Cond(A, Inf) = %v, %s Cond() = %v", cInf, map[string]string{"tall": "QR", "wide": "LQ", "square": "LU"}[shape], cf), replay)
		}
	}
	if m == n {
		// Square: Cond(A, .) and Cond(At, .) come from two different LU
		// factorizations (different pivoting) and the LAPACK estimator only
		// returns a lower bound that may settle on different local maxima:
		// the two values need not agree (seed 91: 1 % apart). Only the
		// rectangular case, where the triangular factors are transposes of
		// each other and the estimator runs the same iteration, is judged.
		return
	}
	dim := float64(max(m, n))
	h.check("cond-transpose-relation", "mat.Cond", shape+",norm=1", math.Abs(c1-ctInf), dim*eps*math.Max(c1, ctInf)*math.Max(c1, ctInf), id, replay)
	h.check("cond-transpose-relation", "mat.Cond", shape+",norm=Inf", math.Abs(cInf-ct1), dim*eps*math.Max(cInf, ct1)*math.Max(cInf, ct1), id, replay)
}

// ---------------------------------------------------------------------------
// Exact ties with documented thresholds

func nextUp(x float64) float64   { return math.Nextafter(x, math.Inf(1)) }
func nextDown(x float64) float64 { return math.Nextafter(x, math.Inf(-1)) }

// signedPermDiag returns the m x n matrix P diag(s) Q with P, Q signed
// permutations: its singular values are exactly s (len(s) = min(m,n)).
func signedPermDiag(rng *vrt.Rand, m, n int, s []float64) *ref.M {
	a := ref.New(m, n)
	pr, pc := rng.Perm(m), rng.Perm(n)
	for i, v := range s {
		if rng.Bool() {
			v = -v
		}
		a.D[pr[i]*n+pc[i]] = v
	}
	return a
}

// checkExactThresholds places parameters exactly on, one ulp below and one
// ulp above the documented thresholds of rank-like accessors, on matrices
// whose singular values / pivots / condition numbers are exactly
// representable powers of two.
func (h *H) checkExactThresholds(idx int) {
	rng := h.c.RNG("exact-thresholds", idx)
	id := idf("exact-thresholds #%d", idx)

	// ---- SVD.Rank(rcond): "count of singular values greater than rcond
	// scaled by the largest singular value" -------------------------------
	m, n := 1+rng.Intn(6), 1+rng.Intn(6)
	k := min(m, n)
	s := make([]float64, k)
	e := rng.Range(-3, 3)
	for i := range s {
		s[i] = math.Ldexp(1, e)
		switch rng.Intn(4) {
		case 0: // repeated value
		case 1:
			e -= 2
		default:
			e--
		}
	}
	nz := k
	if idx%3 == 0 && k > 1 {
		nz = 1 + rng.Intn(k-1)
		for i := nz; i < k; i++ {
			s[i] = 0
		}
	}
	if idx%7 == 0 {
		for i := range s {
			s[i] = s[0] // orthogonal-like: all singular values equal
		}
		nz = k
	}
	a := signedPermDiag(rng, m, n, s)
	replay := replayMats("A", a, "singular values", s)
	strict := docSays("mat/svd.go", "func (svd *SVD) Rank", "count of singular values greater than rcond scaled by the largest singular value")
	var svd mat.SVD
	okf := false
	if h.try("SVD.Factorize", "exact-values", id, replay, func() { okf = svd.Factorize(makeMat(idx%nMatKinds, a), mat.SVDFull) }) || !okf {
		return
	}
	vals := svd.Values(nil)
	exact := true
	for i := range s {
		if vals[i] != s[i] {
			exact = false
		}
	}
	h.eval(idf("SVD.Rank|exact-tie|exact=%v|", exact)+shapeClass(m, n), true)
	if exact && strict {
		count := func(th float64) int { // values strictly greater than th
			c := 0
			for _, v := range s {
				if v > th {
					c++
				}
			}
			return c
		}
		for i := 0; i < nz; i++ {
			r0 := s[i] / s[0] // exact: ratio of powers of two
			for _, rc := range []struct {
				name string
				v    float64
			}{{"on-threshold", r0}, {"ulp-below", nextDown(r0)}, {"ulp-above", nextUp(r0)}} {
				if rc.v < 0 {
					continue
				}
				want := count(rc.v * s[0])
				var got int
				if h.try("SVD.Rank", rc.name, id, replay, func() { got = svd.Rank(rc.v) }) {
					continue
				}
				h.count("boundary", 1)
				if got != want {
					h.fail("SVD.Rank", rc.name, "wrong-rank", id, idf("singular values %v, rcond=%v (= s[%d]/s[0] %s): Rank=%d, documented count of values greater than rcond*s[0] is %d", s, rc.v, i, rc.name, got, want), replay)
					continue
				}
				// SolveTo with the rank Rank reports must truncate exactly
				// the directions the documentation excludes.
				if got >= 1 && rc.name == "on-threshold" {
					b := rhs(rng, m, 2)
					var x mat.Dense
					if h.try("SVD.SolveTo", "rank-from-Rank", id, replay, func() { svd.SolveTo(&x, makeMat(mkDense, b), got) }) {
						continue
					}
					cut := 0.0
					if want < k {
						cut = math.Sqrt(math.Max(s[want], math.Ldexp(s[want-1], -40))*s[want-1]) / s[0]
						if s[want] == 0 {
							cut = math.Ldexp(s[want-1], -20) / s[0]
						}
					} else {
						cut = math.Ldexp(s[k-1], -1) / s[0]
					}
					xref := ref.Mul(ref.PseudoInverse(a, cut), b)
					h.check("svd-solve-vs-pseudo-inverse", "SVD.SolveTo", "rank-from-Rank", ref.MaxDiff(ref.FromAt(&x), xref), float64(max(m, n))*eps*(s[0]/s[want-1])*(s[0]/s[want-1])*math.Max(xref.MaxAbs(), b.MaxAbs()/s[0]), id, replay)
				}
			}
		}
		// rcond = 0 counts the positive values
		if got := svd.Rank(0); got != nz {
			h.fail("SVD.Rank", "rcond=0", "wrong-rank", id, idf("Rank(0)=%d, %d positive singular values", got, nz), replay)
		}
	}

	// ---- PivotedCholesky tol: Dpstrf "terminates if the pivot is less than
	// or equal to tol" ------------------------------------------------------
	if docSays("lapack/gonum/dpstrf.go", "func (impl Implementation) Dpstrf", "The algorithm terminates if the pivot is less than or equal to tol") {
		np := 2 + rng.Intn(5)
		d := make([]float64, np)
		ee := rng.Range(0, 3)
		for i := range d {
			d[i] = math.Ldexp(1, ee)
			ee -= 1 + rng.Intn(2)
		}
		perm := rng.Perm(np)
		am := ref.New(np, np)
		for i, p := range perm {
			am.D[p*np+p] = d[i]
		}
		rp2 := replayMats("A", am, "pivots", d)
		for i := 1; i < np; i++ {
			for _, tc := range []struct {
				name string
				v    float64
				rank int
			}{{"on-threshold", d[i], i}, {"ulp-below", nextDown(d[i]), i + 1}, {"ulp-above", nextUp(d[i]), i}} {
				var pc mat.PivotedCholesky
				var ok bool
				if h.try("PivotedCholesky.Factorize", "tol-"+tc.name, id, rp2, func() { ok = pc.Factorize(makeSym(idx%nSymKinds, am), tc.v) }) {
					continue
				}
				h.count("boundary", 1)
				h.eval("PivotedCholesky.Factorize|tol-"+tc.name+"|"+sizeClass(np), true)
				if pc.Rank() != tc.rank || ok != (tc.rank == np) {
					h.fail("PivotedCholesky.Rank", "tol-"+tc.name, "wrong-rank", id, idf("pivots %v, tol=%v: Rank=%d ok=%v, want rank %d ok=%v (pivot <= tol terminates)", d, tc.v, pc.Rank(), ok, tc.rank, tc.rank == np), rp2)
				}
			}
		}
	}

	// ---- ConditionTolerance: "If the condition number is above this value,
	// the matrix is considered singular": a Condition error exactly when
	// Cond() > ConditionTolerance, carrying that value ---------------------
	if docSays("mat/errors.go", "const ConditionTolerance", "If the condition number is above this value, the matrix is considered singular") {
		nc := 2 + rng.Intn(4)
		for _, small := range []float64{math.Ldexp(1, -52), math.Ldexp(1, -53), math.Ldexp(1, -54), 1e-16, nextDown(1e-16), nextUp(1e-16), math.Ldexp(1, -60)} {
			dm := ref.New(nc, nc)
			pos := idx % nc
			for i := 0; i < nc; i++ {
				dm.D[i*nc+i] = 1
			}
			dm.D[pos*nc+pos] = small
			rp3 := replayMats("A", dm)
			b := makeMat(mkDense, rhs(rng, nc, 1))
			type cs struct {
				name string
				cond float64
				err  error
			}
			var cases []cs
			h.try("condition-tolerance", "-", id, rp3, func() {
				var lu mat.LU
				lu.Factorize(makeMat(mkDense, dm))
				var x mat.Dense
				cases = append(cases, cs{"LU", lu.Cond(), lu.SolveTo(&x, false, b)})
				var ch mat.Cholesky
				if ch.Factorize(makeSym(skSym, dm)) {
					var y mat.Dense
					cases = append(cases, cs{"Cholesky", ch.Cond(), ch.SolveTo(&y, b)})
				}
				var bc mat.BandCholesky
				if bc.Factorize(makeSymBand(dm, 0)) {
					var y mat.Dense
					cases = append(cases, cs{"BandCholesky", bc.Cond(), bc.SolveTo(&y, b)})
				}
				var pc mat.PivotedCholesky
				if pc.Factorize(makeSym(skSym, dm), 0) {
					var y mat.Dense
					cases = append(cases, cs{"PivotedCholesky", pc.Cond(), pc.SolveTo(&y, b)})
				}
				var qr mat.QR
				qr.Factorize(makeMat(mkDense, dm))
				var z mat.Dense
				cases = append(cases, cs{"QR", qr.Cond(), qr.SolveTo(&z, false, b)})
				var lq mat.LQ
				lq.Factorize(makeMat(mkDense, dm))
				var w mat.Dense
				cases = append(cases, cs{"LQ", lq.Cond(), lq.SolveTo(&w, false, b)})
			})
			h.count("boundary", 2*len(cases))
			h.eval("ConditionTolerance|boundary|"+sizeClass(nc), true)
			want := 1 / small
			for _, c := range cases {
				if math.Abs(c.cond-want) > 1e-12*want {
					h.fail(c.name+".Cond", "diagonal", "inexact-for-diagonal", id, idf("Cond=%v for diag with entries 1 and %v (condition %v)", c.cond, small, want), rp3)
					continue
				}
				ce, isC := isCondition(c.err)
				above := c.cond > mat.ConditionTolerance
				switch {
				case above && !isC:
					h.fail(c.name+".SolveTo", "condition-tolerance", "no-condition-error-above-tolerance", id, idf("Cond()=%v > ConditionTolerance, err=%v", c.cond, c.err), rp3)
				case !above && c.err != nil:
					h.fail(c.name+".SolveTo", "condition-tolerance", "condition-error-not-above-tolerance", id, idf("Cond()=%v is not above ConditionTolerance, err=%v", c.cond, c.err), rp3)
				case above && float64(ce) != c.cond:
					h.fail(c.name+".SolveTo", "condition-tolerance", "error-value-differs-from-Cond", id, idf("Cond()=%v, error carries %v", c.cond, float64(ce)), rp3)
				}
			}
		}
	}
}
