package main

import (
	"math"

	"gonum.org/v1/gonum/mat"
	"gonum.org/v1/gonum/verifx/ref"
	"gonum.org/v1/gonum/verifx/vrt"
)

// Exact-boundary inputs for the operations that can fail: the quantity that
// decides success is exactly 0 in floating point because every intermediate
// value is a small integer or dyadic number. The outcome must then be the
// documented one (not positive definite => false, receiver unchanged) and
// must agree with a fresh Factorize of the explicitly formed matrix.

// exactU returns an n x n upper triangular matrix with power-of-two diagonal
// entries and small-integer off-diagonal entries. Ut U, triangular solves
// with U and the Cholesky factorization of Ut U are all exact in float64.
func exactU(rng *vrt.Rand, n int) *ref.M {
	u := ref.New(n, n)
	for i := 0; i < n; i++ {
		u.D[i*n+i] = rng.PickFloat(0.5, 1, 1, 2, 4)
		for j := i + 1; j < n; j++ {
			u.D[i*n+j] = float64(rng.Range(-2, 2))
		}
	}
	return u
}

// gram returns Ut U, exactly symmetric.
func gram(u *ref.M) *ref.M {
	a := ref.Mul(u.T(), u)
	n := a.R
	for i := 0; i < n; i++ {
		for j := i + 1; j < n; j++ {
			a.D[j*n+i] = a.D[i*n+j]
		}
	}
	return a
}

// exactChol returns a Cholesky whose factor is bit-identical to u, obtained
// either by Factorize of Ut U (which is exact for these matrices) or by
// SetFromU; nil if Factorize did not reproduce u (then nothing is judged).
func exactChol(u *ref.M, viaFactorize bool) *mat.Cholesky {
	var c mat.Cholesky
	if viaFactorize {
		if !c.Factorize(makeSym(skSym, gram(u))) {
			return nil
		}
	} else {
		c.SetFromU(makeTriDense(u, true))
	}
	var ut mat.TriDense
	c.UTo(&ut)
	if ref.MaxDiff(ref.FromAt(&ut), u) != 0 {
		return nil
	}
	return &c
}

// usedChol returns a receiver that holds another matrix of size n.
func usedChol(rng *vrt.Rand, n int) (*mat.Cholesky, *ref.M) {
	b := spd(rng, n, 10, 1)
	var c mat.Cholesky
	c.Factorize(makeSym(skSym, b))
	return &c, b
}

// sameObject reports whether c still represents want with condition wantCond.
func sameObject(c *mat.Cholesky, want *ref.M, wantCond float64) (bool, string) {
	var got *ref.M
	var cond float64
	if p := vrt.TryFast(func() { got = ref.FromAt(c); cond = c.Cond() }); p != nil {
		return false, "object unusable afterwards: " + p.Msg
	}
	if got.R != want.R || ref.MaxDiff(got, want) > 1e-9*want.MaxAbs() {
		return false, "object represents a different matrix afterwards"
	}
	if cond != wantCond {
		return false, idf("Cond changed from %v to %v", wantCond, cond)
	}
	return true, ""
}

func (h *H) checkExactBoundary(idx, n int) {
	rng := h.c.RNG("exact-boundary", idx)
	id := idf("exact-boundary n=%d #%d", n, idx)
	u := exactU(rng, n)
	a := gram(u)
	viaF := idx%2 == 0

	// ---- ExtendVecSym with k == w' A^-1 w exactly -------------------------
	// t integer, w = Ut t, k = t.t + delta; delta = 0 is the boundary,
	// delta < 0 (dyadic) is indefinite, both must be rejected.
	t := make([]float64, n)
	for i := range t {
		t[i] = float64(rng.Range(-2, 2))
	}
	if idx%3 == 0 {
		t[rng.Intn(n)] = 1 // make sure t != 0 in a third of the cases
	}
	w := make([]float64, n)
	var tt float64
	for i := 0; i < n; i++ {
		for k := 0; k <= i; k++ {
			w[i] += u.D[k*n+i] * t[k]
		}
		tt += t[i] * t[i]
	}
	for _, delta := range []float64{0, -0.25} {
		k := tt + delta
		v := append(append([]float64(nil), w...), k)
		ext := ref.New(n+1, n+1)
		for i := 0; i < n; i++ {
			copy(ext.D[i*(n+1):i*(n+1)+n], a.D[i*n:(i+1)*n])
			ext.D[i*(n+1)+n] = w[i]
			ext.D[n*(n+1)+i] = w[i]
		}
		ext.D[n*(n+1)+n] = k
		replay := replayMats("U", u, "A", a, "v", v, "extended", ext)
		path := "exact-boundary"
		if delta < 0 {
			path = "exact-indefinite"
		}
		// the fresh factorization of the extended matrix
		var fresh mat.Cholesky
		freshOK := true
		if h.try("Cholesky.Factorize", path, id, replay, func() { freshOK = fresh.Factorize(makeSym(skSym, ext)) }) {
			continue
		}
		if freshOK {
			h.fail("Cholesky.Factorize", path, "ok-true-for-exactly-singular", id, "Factorize of the extended matrix whose last pivot is exactly <= 0 returned true", replay)
		}
		for recv := 0; recv < 3; recv++ { // in place, used receiver, fresh receiver
			orig := exactChol(u, viaF)
			if orig == nil {
				break
			}
			origCond := orig.Cond()
			dst := orig
			var dstWas *ref.M
			var dstCond float64
			rn := "in-place"
			switch recv {
			case 1:
				dst, dstWas = usedChol(rng, n+1)
				dstCond = dst.Cond()
				rn = "used-receiver"
			case 2:
				dst = &mat.Cholesky{}
				rn = "fresh-receiver"
			}
			vk := (idx + recv) % nVecKinds
			ok := false
			if h.try("Cholesky.ExtendVecSym", path, id+" "+rn, replay, func() { ok = dst.ExtendVecSym(orig, makeVec(vk, v)) }) {
				continue
			}
			h.count("boundary", 1)
			h.eval("Cholesky.ExtendVecSym|"+path+"|"+rn+"|v="+vecKindNames[vk]+"|"+sizeClass(n), true)
			if ok {
				h.fail("Cholesky.ExtendVecSym", path, "ok-true-for-not-positive-definite-extension", id+" "+rn, idf("k - w'A^-1w = %g exactly; the documented condition is k > w'A^-1w", delta), replay)
			}
			if ok != freshOK {
				h.fail("Cholesky.ExtendVecSym", path, "disagrees-with-fresh-Factorize", id+" "+rn, idf("ExtendVecSym ok=%v, Factorize of the extended matrix ok=%v", ok, freshOK), replay)
			}
			// "the receiver will not be updated"; the original is never touched
			if same, why := sameObject(orig, a, origCond); !same && recv != 0 {
				h.fail("Cholesky.ExtendVecSym", path, "original-modified", id+" "+rn, why, replay)
			}
			if docSays("mat/cholesky.go", "func (c *Cholesky) ExtendVecSym", "return false and the receiver will not be updated") {
				switch recv {
				case 0:
					if same, why := sameObject(dst, a, origCond); !same {
						h.fail("Cholesky.ExtendVecSym", path+",in-place", "receiver-modified", id, why, replay)
					}
				case 1:
					if same, why := sameObject(dst, dstWas, dstCond); !same {
						h.fail("Cholesky.ExtendVecSym", path+",used-receiver", "receiver-modified", id, why, replay)
					}
				case 2:
					if !dst.IsEmpty() {
						h.fail("Cholesky.ExtendVecSym", path+",fresh-receiver", "receiver-modified", id, "fresh receiver is no longer empty", replay)
					}
				}
			}
		}
	}

	// ---- SymRankOne downdate with |U^-T x| == 1 exactly --------------------
	// p has 2-norm exactly 1: a unit vector, or four entries of modulus 1/2.
	type pcase struct {
		name string
		p    []float64
	}
	var pcs []pcase
	ej := make([]float64, n)
	j := rng.Intn(n)
	ej[j] = 1
	if rng.Bool() {
		ej[j] = -1
	}
	pcs = append(pcs, pcase{"unit-vector", ej})
	if n >= 4 {
		hp := make([]float64, n)
		for _, i := range rng.Perm(n)[:4] {
			hp[i] = 0.5
			if rng.Bool() {
				hp[i] = -0.5
			}
		}
		pcs = append(pcs, pcase{"half-vector", hp})
	}
	for _, pc := range pcs {
		x := make([]float64, n)
		for i := 0; i < n; i++ {
			for k := 0; k <= i; k++ {
				x[i] += u.D[k*n+i] * pc.p[k]
			}
		}
		down := rankOneSym(a, -1, x) // exactly singular positive semi-definite
		replay := replayMats("U", u, "A", a, "x", x, "A-xxT", down)
		path := "exact-boundary," + pc.name
		freshKnown := pc.name == "unit-vector"
		freshOK := false
		if freshKnown {
			// A - x x' = Ut (I - e_j e_j') U: the elimination reproduces the
			// rows of U before j exactly and meets the pivot 0 at step j.
			var fresh mat.Cholesky
			if h.try("Cholesky.Factorize", path, id, replay, func() { freshOK = fresh.Factorize(makeSym(skSym, down)) }) {
				continue
			}
			if freshOK {
				h.fail("Cholesky.Factorize", "exact-boundary", "ok-true-for-exactly-singular", id, "Factorize of Ut(I-ejejT)U returned true", replay)
			}
		}
		for recv := 0; recv < 3; recv++ {
			orig := exactChol(u, viaF)
			if orig == nil {
				break
			}
			origCond := orig.Cond()
			dst := orig
			var dstWas *ref.M
			var dstCond float64
			rn := "in-place"
			switch recv {
			case 1:
				dst, dstWas = usedChol(rng, n)
				dstCond = dst.Cond()
				rn = "used-receiver"
			case 2:
				dst = &mat.Cholesky{}
				rn = "fresh-receiver"
			}
			vk := (idx + recv) % nVecKinds
			ok := false
			if h.try("Cholesky.SymRankOne", "exact-boundary", id+" "+rn, replay, func() { ok = dst.SymRankOne(orig, -1, makeVec(vk, x)) }) {
				continue
			}
			h.count("boundary", 1)
			h.eval("Cholesky.SymRankOne|"+path+"|"+rn+"|x="+vecKindNames[vk]+"|"+sizeClass(n), true)
			if ok {
				h.fail("Cholesky.SymRankOne", "exact-boundary", "ok-true-for-singular-result", id+" "+rn, "A - x x' is exactly singular (|U^-T x|_2 = 1 exactly); SymRankOne returns whether A' is positive definite", replay)
			}
			if freshKnown && ok != freshOK {
				h.fail("Cholesky.SymRankOne", "exact-boundary", "disagrees-with-fresh-Factorize", id+" "+rn, idf("SymRankOne ok=%v, Factorize of A - x x' ok=%v", ok, freshOK), replay)
			}
			if same, why := sameObject(orig, a, origCond); !same && recv != 0 {
				h.fail("Cholesky.SymRankOne", "exact-boundary", "original-modified", id+" "+rn, why, replay)
			}
			if docSays("mat/cholesky.go", "func (c *Cholesky) SymRankOne", "If the update fails the receiver is left unchanged") {
				switch recv {
				case 0:
					if same, why := sameObject(dst, a, origCond); !same {
						h.fail("Cholesky.SymRankOne", "exact-boundary,in-place", "receiver-modified", id, why, replay)
					}
				case 1:
					if same, why := sameObject(dst, dstWas, dstCond); !same {
						h.fail("Cholesky.SymRankOne", "exact-boundary,used-receiver", "receiver-modified", id, why, replay)
					}
				case 2:
					if !dst.IsEmpty() {
						h.fail("Cholesky.SymRankOne", "exact-boundary,fresh-receiver", "receiver-modified", id, "fresh receiver is no longer empty", replay)
					}
				}
			}
		}
		// Band Cholesky of the same exactly singular matrix (full bandwidth).
		if freshKnown && n >= 2 {
			var bc mat.BandCholesky
			okb := true
			if !h.try("BandCholesky.Factorize", "exact-boundary", id, replay, func() { okb = bc.Factorize(makeSymBand(down, n-1)) }) {
				h.eval("BandCholesky.Factorize|exact-boundary|"+sizeClass(n), true)
				if okb {
					h.fail("BandCholesky.Factorize", "exact-boundary", "ok-true-for-exactly-singular", id, "", replay)
				}
			}
		}
	}

	// ---- one step inside the boundary: must succeed and be right -----------
	// k = t.t + 1/4: the last pivot is exactly 1/4, the extension is positive
	// definite, d = 1/2.
	{
		k := tt + 0.25
		v := append(append([]float64(nil), w...), k)
		orig := exactChol(u, viaF)
		if orig != nil {
			ok := false
			replay := replayMats("U", u, "v", v)
			if !h.try("Cholesky.ExtendVecSym", "exact-inside", id, replay, func() { ok = orig.ExtendVecSym(orig, makeVec(vkVec, v)) }) {
				h.eval("Cholesky.ExtendVecSym|exact-inside|"+sizeClass(n), true)
				if !ok {
					h.fail("Cholesky.ExtendVecSym", "exact-inside", "ok-false-for-positive-definite-result", id, "k - w'A^-1w = 1/4 exactly", replay)
				} else {
					var ut mat.TriDense
					orig.UTo(&ut)
					got := ref.FromAt(&ut)
					want := ref.New(n+1, n+1)
					for i := 0; i < n; i++ {
						copy(want.D[i*(n+1):i*(n+1)+n], u.D[i*n:(i+1)*n])
						want.D[i*(n+1)+n] = t[i]
					}
					want.D[n*(n+1)+n] = 0.5
					if ref.MaxDiff(got, want) != 0 {
						h.fail("Cholesky.ExtendVecSym", "exact-inside", "factor-not-exact", id, idf("max diff %g on an exactly representable problem", ref.MaxDiff(got, want)), replay)
					}
				}
			}
		}
	}
	_ = math.Pi
}

// checkCondRelations: relations of mat.Cond that hold by construction: the
// documentation says 'the result from Cond will match the condition number
// used internally', i.e. the Cond() of the factorization type Solve uses for
// that shape (LU square, QR tall, LQ wide; all with CondNorm = infinity
// norm); and the 1-norm condition number of A is the infinity-norm condition
// number of At.
func (h *H) checkCondRelations(idx, m, n int) {
	rng := h.c.RNG("cond-relations", idx)
	id := idf("mat.Cond relations %dx%d #%d", m, n, idx)
	a := rectMatrix(rng, m, n, rng.PickFloat(10, 1e3, 1e5))
	if idx%3 == 0 {
		a = randM(rng, m, n)
	}
	replay := replayMats("A", a)
	kind := idx % nMatKinds
	aOp := makeMat(kind, a)
	atOp := makeMat(kind, a.T())
	var cInf, c1, ctInf, ct1, cf float64
	shape := "square"
	if h.try("mat.Cond", shape, id, replay, func() {
		cInf = mat.Cond(aOp, math.Inf(1))
		c1 = mat.Cond(aOp, 1)
		ctInf = mat.Cond(atOp, math.Inf(1))
		ct1 = mat.Cond(atOp, 1)
		switch {
		case m > n:
			var qr mat.QR
			qr.Factorize(aOp)
			cf = qr.Cond()
			shape = "tall"
		case m < n:
			var lq mat.LQ
			lq.Factorize(aOp)
			cf = lq.Cond()
			shape = "wide"
		default:
			var lu mat.LU
			lu.Factorize(aOp)
			cf = lu.Cond()
		}
	}) {
		return
	}
	h.count("cross", 5)
	h.eval("mat.Cond|relations|"+shape+"|A="+matKindNames[kind]+"|"+shapeClass(m, n), true)
	if math.IsInf(cInf, 0) || math.IsNaN(cInf) || cInf > 1e12 {
		return
	}
	if docSays("mat/matrix.go", "func Cond", "the result from Cond will match the condition number used internally") || m == n {
		if cInf != cf {
			h.fail("mat.Cond", shape+",norm=Inf", "differs-from-Cond-of-the-factorization", id, idf("mat.Cond(A, Inf) = %v, %s Cond() = %v", cInf, map[string]string{"tall": "QR", "wide": "LQ", "square": "LU"}[shape], cf), replay)
		}
	}
	dim := float64(max(m, n))
	h.check("cond-transpose-relation", "mat.Cond", shape+",norm=1", math.Abs(c1-ctInf), dim*eps*math.Max(c1, ctInf)*math.Max(c1, ctInf), id, replay)
	h.check("cond-transpose-relation", "mat.Cond", shape+",norm=Inf", math.Abs(cInf-ct1), dim*eps*math.Max(cInf, ct1)*math.Max(cInf, ct1), id, replay)
}
