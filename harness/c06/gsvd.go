package main

import (
	"math"

	"gonum.org/v1/gonum/mat"
	"gonum.org/v1/gonum/verifx/ref"
	"gonum.org/v1/gonum/verifx/vrt"
)

// checkGSVD: A is r x c, B is p x c. zeroCol forces a common zero column
// (the stacked matrix then has rank c-1).
func (h *H) checkGSVD(idx, r, p, c int, zeroCol bool) {
	rng := h.c.RNG("gsvd", idx)
	if zeroCol {
		// The common-zero-column class is pinned: its data do not depend on
		// VERIF_SEED, so that the signatures of the open finding it exposes
		// (Dggsvp3 does not pivot) are the same in every run.
		rng = vrt.NewRand(0xC06D12<<8 + uint64(idx))
	}
	id := idf("GSVD A=%dx%d B=%dx%d zerocol=%v #%d", r, c, p, c, zeroCol, idx)
	a := randM(rng, r, c)
	b := randM(rng, p, c)
	if zeroCol && c < 2 {
		return // the stacked matrix would be zero
	}
	if zeroCol {
		k := idx % c
		for i := 0; i < r; i++ {
			a.D[i*c+k] = 0
		}
		for i := 0; i < p; i++ {
			b.D[i*c+k] = 0
		}
	}
	replay := replayMats("A", a, "B", b)
	kindA, kindB := idx%nMatKinds, (idx/2)%nMatKinds
	path := "full-column-rank"
	if zeroCol {
		path = "common-zero-column"
	}
	var g mat.GSVD
	if idx%3 == 1 {
		g.Factorize(makeMat(mkDense, randM(rng, r+1, c+1)), makeMat(mkDense, randM(rng, p+2, c+1)), mat.GSVDAll)
	}
	var ok bool
	if h.try("GSVD.Factorize", path, id, replay, func() { ok = g.Factorize(makeMat(kindA, a), makeMat(kindB, b), mat.GSVDAll) }) {
		return
	}
	h.count("gsvd", 1)
	h.eval("GSVD.Factorize|"+shapeClass(r, c)+"|"+shapeClass(p, c)+idf("|zerocol=%v", zeroCol), true)
	if !ok {
		h.fail("GSVD.Factorize", path, "ok-false", id, "Factorize returned false", replay)
		return
	}
	k, l := g.Rank()
	// rank of the stacked matrix by the reference SVD
	st := ref.New(r+p, c)
	copy(st.D, a.D)
	copy(st.D[r*c:], b.D)
	ss := ref.SingularValues(st)
	wantRank := 0
	for _, v := range ss {
		if v > 1e-8*ss[0] {
			wantRank++
		}
	}
	// only judge the rank when the reference spectrum has a clear gap
	clear := true
	for _, v := range ss {
		if v > 1e-13*ss[0] && v <= 1e-4*ss[0] {
			clear = false
		}
	}
	if clear && k+l != wantRank {
		h.fail("GSVD.Rank", path, "wrong-rank", id, idf("k+l=%d+%d, rank of [A;B] is %d", k, l, wantRank), replay)
		return
	}
	var u, v, q, zr, s1, s2 mat.Dense
	if h.try("GSVD.extract", path, id, replay, func() {
		g.UTo(&u)
		g.VTo(&v)
		g.QTo(&q)
		g.ZeroRTo(&zr)
		g.SigmaATo(&s1)
		g.SigmaBTo(&s2)
	}) {
		return
	}
	h.count("gsvd", 6)
	um, vm, qm, zrm, s1m, s2m := ref.FromAt(&u), ref.FromAt(&v), ref.FromAt(&q), ref.FromAt(&zr), ref.FromAt(&s1), ref.FromAt(&s2)
	shapeOK := um.R == r && um.C == r && vm.R == p && vm.C == p && qm.R == c && qm.C == c &&
		zrm.R == k+l && zrm.C == c && s1m.R == r && s1m.C == k+l && s2m.R == p && s2m.C == k+l
	if !shapeOK {
		h.fail("GSVD.extract", path, "factor-shape", id, "a factor has the wrong shape", replay)
		return
	}
	dim := float64(max(r, p, c))
	nrm := st.NormFro()
	if !h.check("orthogonality", "GSVD.UTo", path, ref.OrthoResid(um), dim*eps, id, replay) ||
		!h.check("orthogonality", "GSVD.VTo", path, ref.OrthoResid(vm), dim*eps, id, replay) ||
		!h.check("orthogonality", "GSVD.QTo", path, ref.OrthoResid(qm), dim*eps, id, replay) {
		return
	}
	// A = U S1 [0 R] Qt, B = V S2 [0 R] Qt
	ra := ref.Mul(ref.Mul(ref.Mul(um, s1m), zrm), qm.T())
	rb := ref.Mul(ref.Mul(ref.Mul(vm, s2m), zrm), qm.T())
	if !h.check("gsvd-reconstruction", "GSVD.Factorize", path, math.Max(ref.MaxDiff(ra, a), ref.MaxDiff(rb, b)), dim*eps*nrm, id, replay) {
		return
	}
	// S1t S1 + S2t S2 = I
	ii := ref.Add(ref.Mul(s1m.T(), s1m), ref.Mul(s2m.T(), s2m))
	for i := 0; i < k+l; i++ {
		ii.D[i*(k+l)+i] -= 1
	}
	h.check("gsvd-sigma-identity", "GSVD.SigmaATo", path, ii.MaxAbs(), dim*eps, id, replay)
	// ValuesA / ValuesB / GeneralizedValues agree with the Sigma matrices.
	var va, vb, gv []float64
	if !h.try("GSVD.ValuesA", path, id, replay, func() { va = g.ValuesA(nil); vb = g.ValuesB(nil); gv = g.GeneralizedValues(nil) }) {
		d := min(r, c)
		if len(va) != d-k || len(vb) != d-k || len(gv) != d-k {
			h.fail("GSVD.ValuesA", path, "length", id, idf("len %d %d %d want %d", len(va), len(vb), len(gv), d-k), replay)
		} else {
			for i := range va {
				if i < min(l, r-k) {
					wantA := s1m.At(k+i, k+i)
					wantB := s2m.At(i, k+i)
					if va[i] != wantA || vb[i] != wantB {
						h.fail("GSVD.ValuesA", path, "differs-from-Sigma", id, idf("i=%d A %v/%v B %v/%v", i, va[i], wantA, vb[i], wantB), replay)
						break
					}
					if vb[i] != 0 && gv[i] != va[i]/vb[i] {
						h.fail("GSVD.GeneralizedValues", path, "not-ratio", id, "", replay)
						break
					}
				}
			}
		}
	}
	// partial kinds: only the requested vectors are available, values equal.
	sub := []mat.GSVDKind{mat.GSVDNone, mat.GSVDU, mat.GSVDV, mat.GSVDQ, mat.GSVDU | mat.GSVDQ, mat.GSVDU | mat.GSVDV}[idx%6]
	var g2 mat.GSVD
	var ok2 bool
	if h.try("GSVD.Factorize", "kind=partial", id, replay, func() { ok2 = g2.Factorize(makeMat(mkDense, a), makeMat(mkDense, b), sub) }) {
		return
	}
	if !ok2 {
		h.fail("GSVD.Factorize", "kind=partial", "ok-false", id, "", replay)
		return
	}
	k2, l2 := g2.Rank()
	if k2 != k || l2 != l {
		h.fail("GSVD.Rank", "kind=partial", "differs-from-full", id, idf("%d,%d vs %d,%d", k2, l2, k, l), replay)
		return
	}
	va2 := g2.ValuesA(nil)
	for i := range va2 {
		if math.Abs(va2[i]-va[i]) > 1e3*dim*eps {
			h.fail("GSVD.ValuesA", "kind=partial", "differs-from-full", id, idf("%v vs %v", va2, va), replay)
			break
		}
	}
	if sub&mat.GSVDU == 0 {
		h.expectPanic("GSVD.UTo", "U-not-computed", "must-panic", id, func() { var d mat.Dense; g2.UTo(&d) })
	} else {
		var d mat.Dense
		if !h.try("GSVD.UTo", "kind=partial", id, replay, func() { g2.UTo(&d) }) {
			h.check("orthogonality", "GSVD.UTo", "kind=partial", ref.OrthoResid(ref.FromAt(&d)), dim*eps, id, replay)
		}
	}
	if sub&mat.GSVDQ == 0 {
		h.expectPanic("GSVD.QTo", "Q-not-computed", "must-panic", id, func() { var d mat.Dense; g2.QTo(&d) })
	}
	if sub&mat.GSVDV == 0 {
		h.expectPanic("GSVD.VTo", "V-not-computed", "must-panic", id, func() { var d mat.Dense; g2.VTo(&d) })
	}
}

// checkHOGSVD: N tall matrices r_i x c of full column rank.
func (h *H) checkHOGSVD(idx, c, nmat int) {
	rng := h.c.RNG("hogsvd", idx)
	rows := make([]int, nmat)
	ms := make([]*ref.M, nmat)
	ops := make([]mat.Matrix, nmat)
	for i := range ms {
		rows[i] = c + rng.Intn(c+3)
		// Independent random spectra in [0.2, 1]: with equal prescribed
		// spectra the matrix S of the HOGSVD has a repeated eigenvalue (for
		// c = 2, N = 2 it is a multiple of the identity whenever
		// det(M0'M0) = det(M1'M1)), rounding turns it into a complex pair
		// and Factorize reports failure (ok = false, Err set), which is an
		// honest answer for a degenerate input, not a violation.
		sv := make([]float64, c)
		for j := range sv {
			sv[j] = rng.Uniform(0.2, 1)
		}
		ms[i] = withSV(rng, rows[i], c, sv)
		ops[i] = makeMat((idx+i)%nMatKinds, ms[i])
	}
	id := idf("HOGSVD c=%d rows=%v #%d", c, rows, idx)
	replay := func() any {
		out := map[string]any{}
		for i, m := range ms {
			out[idf("M%d", i)] = rp("M", m)
		}
		return out
	}
	var g mat.HOGSVD
	var ok bool
	if h.try("HOGSVD.Factorize", "-", id, replay, func() { ok = g.Factorize(ops...) }) {
		return
	}
	h.count("hogsvd", 1)
	h.eval(idf("HOGSVD.Factorize|N=%d|c=%s", nmat, sizeClass(c)), true)
	if !ok {
		h.fail("HOGSVD.Factorize", "-", "ok-false", id, idf("Factorize returned false: %v", g.Err()), replay)
		return
	}
	if g.Len() != nmat {
		h.fail("HOGSVD.Len", "-", "wrong", id, idf("%d", g.Len()), replay)
		return
	}
	var vd mat.Dense
	if h.try("HOGSVD.VTo", "-", id, replay, func() { g.VTo(&vd) }) {
		return
	}
	v := ref.FromAt(&vd)
	if v.R != c || v.C != c {
		h.fail("HOGSVD.VTo", "-", "factor-shape", id, "", replay)
		return
	}
	if nan, _, _ := nanScan(v); nan {
		h.fail("HOGSVD.VTo", "-", "result-nan", id, "", replay)
		return
	}
	kv := ref.Cond2(v)
	// columns of V have unit norm
	var worst float64
	for j := 0; j < c; j++ {
		worst = math.Max(worst, math.Abs(vecNorm2(col(v, j))-1))
	}
	h.check("eigenvector-unit-norm", "HOGSVD.VTo", "-", worst, float64(c)*eps, id, replay)
	for i := 0; i < nmat; i++ {
		var ud mat.Dense
		var sv []float64
		if h.try("HOGSVD.UTo", "-", id, replay, func() { g.UTo(&ud, i); sv = g.Values(nil, i) }) {
			return
		}
		h.count("hogsvd", 2)
		u := ref.FromAt(&ud)
		if u.R != rows[i] || u.C != c || len(sv) != c {
			h.fail("HOGSVD.UTo", "-", "factor-shape", id, idf("U_%d %dx%d", i, u.R, u.C), replay)
			return
		}
		// M_i = U_i diag(s_i) Vt
		us := ref.FromFunc(u.R, c, func(r, j int) float64 { return u.At(r, j) * sv[j] })
		rec := ref.Mul(us, v.T())
		dim := float64(max(rows[i], c))
		h.check("hogsvd-reconstruction", "HOGSVD.Factorize", "-", ref.MaxDiff(rec, ms[i]), dim*eps*kv*ms[i].NormFro(), id, replay)
		var wn float64
		for j := 0; j < c; j++ {
			wn = math.Max(wn, math.Abs(vecNorm2(col(u, j))-1))
		}
		h.check("eigenvector-unit-norm", "HOGSVD.UTo", "-", wn, dim*eps, id, replay)
	}
	// A wide input is reported through ok=false and Err.
	if c >= 2 {
		var g2 mat.HOGSVD
		wide := makeMat(mkDense, randM(rng, c-1, c))
		ok2 := true
		if !h.try("HOGSVD.Factorize", "wide-input", id, replay, func() { ok2 = g2.Factorize(ops[0], wide) }) {
			if ok2 || g2.Err() == nil || g2.Len() != 0 {
				h.fail("HOGSVD.Factorize", "wide-input", "not-rejected", id, idf("ok=%v err=%v", ok2, g2.Err()), replay)
			}
		}
	}
}
