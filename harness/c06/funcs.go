package main

import (
	"errors"
	"math"

	"gonum.org/v1/gonum/mat"
	"gonum.org/v1/gonum/verifx/ref"
	"gonum.org/v1/gonum/verifx/vrt"
)

// recvDense prepares a receiver for a Dense-receiver method producing an
// n x n result; kind dkView+1 (== nDstKinds) means "receiver is the
// operand itself" and is handled by the callers.
func recvName(k int) string { return "recv=" + dstKindNames[k] }

func (h *H) checkInverse(idx, n int, class string) {
	rng := h.c.RNG("inverse", idx)
	id := idf("Dense.Inverse n=%d class=%s #%d", n, class, idx)
	a, _ := luMatrix(rng, n, class)
	replay := replayMats("A", a, "class", class)
	condInf, _, inv, okInv := condRef(a)
	aKind := idx % nMatKinds
	for _, rk := range []int{idx % nDstKinds, (idx + 1) % nDstKinds, -1} {
		var dst *mat.Dense
		var aOp mat.Matrix
		outside := func() bool { return false }
		path := "A=" + matKindNames[aKind]
		if rk < 0 {
			// in place: receiver is the operand
			dst = mat.NewDense(n, n, append([]float64(nil), a.D...))
			aOp = dst
			if idx%2 == 1 {
				aOp = dst.T()
				path = "recv=A.T"
			} else {
				path = "recv=A"
			}
		} else {
			dst, outside = dstDense(rk, n, n)
			aOp = makeMat(aKind, a)
			path += "," + recvName(rk)
		}
		var err error
		if h.try("Dense.Inverse", path, id, replay, func() { err = dst.Inverse(aOp) }) {
			continue
		}
		h.count("inverse", 1)
		h.eval("Dense.Inverse|"+path+"|"+class+"|"+sizeClass(n), true)
		if outside() {
			h.fail("Dense.Inverse", path, "wrote-outside-destination-window", id, "", replay)
		}
		if class == "duprow" {
			if _, ok := isCondition(err); !ok {
				h.fail("Dense.Inverse", "singular", "no-condition-error-for-exactly-singular", id, idf("err=%v", err), replay)
			}
			continue
		}
		if !okInv {
			continue
		}
		if err != nil {
			if _, ok := isCondition(err); !ok {
				h.fail("Dense.Inverse", path, "error-not-Condition", id, err.Error(), replay)
			} else if condInf < 1e8 {
				h.fail("Dense.Inverse", path, "condition-error-on-well-conditioned", id, err.Error(), replay)
			}
			continue
		}
		x, okf := h.finiteResult("Dense.Inverse", path, id, dst, replay)
		if !okf {
			continue
		}
		want := inv
		if rk < 0 && idx%2 == 1 {
			want = inv.T()
		}
		h.check("inverse-forward", "Dense.Inverse", path, ref.MaxDiff(x, want), float64(n)*eps*condInf*want.MaxAbs(), id, replay)
	}
}

func (h *H) checkInverseTri(idx, n int) {
	rng := h.c.RNG("inversetri", idx)
	up := idx%2 == 0
	t := triM(rng, n, up)
	ud := "Lower"
	if up {
		ud = "Upper"
	}
	id := idf("TriDense.InverseTri n=%d %s #%d", n, ud, idx)
	replay := replayMats("T", t)
	condInf, _, inv, _ := condRef(t)
	var aOp mat.Triangular = makeTriDense(t, up)
	path := ud
	want := inv
	if idx%4 >= 2 {
		aOp = makeTriDense(t, up).TTri()
		want = inv.T()
		path += ".TTri"
	}
	var dst mat.TriDense
	var err error
	if h.try("TriDense.InverseTri", path, id, replay, func() { err = dst.InverseTri(aOp) }) {
		return
	}
	h.count("inverse", 1)
	h.eval("TriDense.InverseTri|"+path+"|"+sizeClass(n), true)
	if err != nil {
		h.fail("TriDense.InverseTri", path, "condition-error-on-well-conditioned", id, err.Error(), replay)
		return
	}
	x, okf := h.finiteResult("TriDense.InverseTri", path, id, &dst, replay)
	if okf {
		h.check("inverse-forward", "TriDense.InverseTri", path, ref.MaxDiff(x, want), float64(n)*eps*condInf*want.MaxAbs(), id, replay)
	}
	// exactly singular: a zero diagonal entry
	ts := t.Clone()
	k := rng.Intn(n)
	ts.D[k*n+k] = 0
	var d2 mat.TriDense
	if !h.try("TriDense.InverseTri", "singular", id, replay, func() { err = d2.InverseTri(makeTriDense(ts, up)) }) {
		if _, ok := isCondition(err); !ok {
			h.fail("TriDense.InverseTri", "singular", "no-condition-error-for-exactly-singular", id, idf("err=%v", err), replayMats("T", ts))
		}
	}
}

// expMatrix builds a test matrix for Exp with 1-norm about target.
func expMatrix(rng *vrt.Rand, n int, class string, target float64) *ref.M {
	var a *ref.M
	switch class {
	case "general":
		a = randM(rng, n, n)
	case "symmetric":
		a = symM(rng, n)
	case "normal":
		a, _ = normalMatrix(rng, n)
	case "nilpotent":
		a = ref.New(n, n)
		for i := 0; i < n; i++ {
			for j := i + 1; j < n; j++ {
				a.D[i*n+j] = rng.Sym()
			}
		}
	case "zero":
		return ref.New(n, n)
	}
	n1 := a.Norm1()
	if n1 == 0 {
		return a
	}
	return ref.Scale(target/n1, a)
}

// expNormal computes e^a for a = Q blockdiag Qt built by normalMatrix is not
// available in closed form from a alone; the normal class is judged by the
// big.Float reference (n <= 6) and, for symmetric matrices of any size, by
// the reference eigen-decomposition.
func (h *H) checkExp(idx, n int, class string, target float64) {
	rng := h.c.RNG("exp", idx)
	id := idf("Dense.Exp n=%d class=%s |A|_1=%g #%d", n, class, target, idx)
	a := expMatrix(rng, n, class, target)
	replay := replayMats("A", a, "class", class)
	var want *ref.M
	var refName string
	switch {
	case n <= 6:
		want = expmBig(a)
		refName = "big.Float-taylor"
	case class == "symmetric":
		want, _ = symFunc(a, math.Exp)
		refName = "eigen"
	default:
		return
	}
	n1 := a.Norm1()
	// e^|A| bounds both the result and the conditioning of the problem in
	// the sense of |e^(A+E) - e^A| <= |E| e^(|A|+|E|).
	var scale float64
	if class == "symmetric" || class == "normal" {
		// normal matrices: the exponential is perfectly conditioned relative
		// to |e^A|_2; the algorithm squares, so allow (1 + |A|) growth.
		scale = (1 + n1) * math.Max(want.MaxAbs(), 1e-300) * math.Sqrt(float64(n))
	} else {
		scale = (1 + n1) * math.Exp(n1)
	}
	aKind := idx % nMatKinds
	for _, rk := range []int{idx % nDstKinds, -1} {
		var dst *mat.Dense
		var aOp mat.Matrix
		outside := func() bool { return false }
		path := class
		if rk < 0 {
			dst = mat.NewDense(n, n, append([]float64(nil), a.D...))
			aOp = dst
			path += ",recv=A"
		} else {
			dst, outside = dstDense(rk, n, n)
			aOp = makeMat(aKind, a)
			path += "," + recvName(rk)
		}
		if h.try("Dense.Exp", path, id, replay, func() { dst.Exp(aOp) }) {
			continue
		}
		h.count("exp", 1)
		h.eval("Dense.Exp|"+path+"|A="+matKindNames[aKind]+"|"+sizeClass(n)+"|"+padeClass(n1)+"|"+refName, true)
		if outside() {
			h.fail("Dense.Exp", path, "wrote-outside-destination-window", id, "", replay)
		}
		x, okf := h.finiteResult("Dense.Exp", path, id, dst, replay)
		if !okf {
			continue
		}
		name := "exp-general"
		if class == "symmetric" || class == "normal" {
			name = "exp-normal"
		}
		h.check(name, "Dense.Exp", class+","+padeClass(n1), ref.MaxDiff(x, want), float64(n)*eps*scale, id, replay)
	}
}

func padeClass(n1 float64) string {
	switch {
	case n1 <= 0.015:
		return "pade3"
	case n1 <= 0.25:
		return "pade5"
	case n1 <= 0.95:
		return "pade7"
	case n1 <= 2.1:
		return "pade9"
	case n1 <= 5.4:
		return "pade13"
	default:
		return "pade13+squaring"
	}
}

func (h *H) checkPow(idx, n, p int) {
	rng := h.c.RNG("pow", idx)
	id := idf("Dense.Pow n=%d p=%d #%d", n, p, idx)
	a := randM(rng, n, n)
	// keep the powers finite and comparable: scale to spectral radius ~1
	a = ref.Scale(1/math.Max(a.Norm1(), 1e-300), a)
	a = ref.Scale(rng.Uniform(0.8, 1.6), a)
	replay := replayMats("A", a, "p", p)
	want := powRef(a, p)
	band := powAbsRef(a, p)
	aKind := idx % nMatKinds
	for _, rk := range []int{idx % nDstKinds, (idx + 2) % nDstKinds, -1} {
		var dst *mat.Dense
		var aOp mat.Matrix
		outside := func() bool { return false }
		path := ""
		if rk < 0 {
			dst = mat.NewDense(n, n, append([]float64(nil), a.D...))
			aOp = dst
			path = "recv=A"
		} else {
			dst, outside = dstDense(rk, n, n)
			aOp = makeMat(aKind, a)
			path = "A=" + matKindNames[aKind] + "," + recvName(rk)
		}
		if h.try("Dense.Pow", path, id, replay, func() { dst.Pow(aOp, p) }) {
			continue
		}
		h.count("pow", 1)
		h.eval("Dense.Pow|"+path+"|"+sizeClass(n)+idf("|p=%d", min(p, 9)), true)
		if outside() {
			h.fail("Dense.Pow", path, "wrote-outside-destination-window", id, "", replay)
		}
		x, okf := h.finiteResult("Dense.Pow", path, id, dst, replay)
		if !okf {
			continue
		}
		// componentwise: |fl(A^p) - A^p| <= gamma_{p n} |A|^p
		d := ref.Sub(x, want)
		var worst float64
		for i, v := range d.D {
			u := float64(n*max(p, 1)) * eps * math.Max(band.D[i], 1e-300)
			worst = math.Max(worst, math.Abs(v)/u)
		}
		pc := "p>=3"
		if p < 3 {
			pc = idf("p=%d", p)
		}
		h.check("pow-componentwise", "Dense.Pow", pc, worst, 1, id, replay)
	}
}

func (h *H) checkPowPSD(idx, n int, pow float64) {
	rng := h.c.RNG("powpsd", idx)
	id := idf("SymDense.PowPSD n=%d pow=%g #%d", n, pow, idx)
	a := spd(rng, n, rng.PickFloat(10, 1e3), math.Ldexp(1, rng.Range(-4, 4)))
	replay := replayMats("A", a, "pow", pow)
	want, w := symFunc(a, func(x float64) float64 { return math.Pow(x, pow) })
	kappa := w[n-1] / w[0]
	sKind := idx % nSymKinds
	path := "A=" + symKindNames[sKind]
	var dst mat.SymDense
	if idx%2 == 1 {
		back := make([]float64, n*n)
		vrt.FillTaint(back)
		dst = *mat.NewSymDense(n, back)
		path += ",recv=sized"
	}
	var err error
	if h.try("SymDense.PowPSD", path, id, replay, func() { err = dst.PowPSD(makeSym(sKind, a), pow) }) {
		return
	}
	h.count("powpsd", 1)
	h.eval("SymDense.PowPSD|"+path+"|"+sizeClass(n)+idf("|pow=%g", pow), true)
	if err != nil {
		h.fail("SymDense.PowPSD", path, "error-for-positive-definite", id, err.Error(), replay)
		return
	}
	x, okf := h.finiteResult("SymDense.PowPSD", path, id, &dst, replay)
	if okf {
		// eigenvalue perturbations of n u |A| change lambda^pow relatively by |pow| kappa n u.
		h.check("powpsd", "SymDense.PowPSD", "-", ref.MaxDiff(x, want), float64(n)*eps*(1+math.Abs(pow))*kappa*want.NormInf(), id, replay)
	}
	// not positive definite: must be reported
	b := a.Clone()
	k := rng.Intn(n)
	b.D[k*n+k] = -b.D[k*n+k] - 1
	var d2 mat.SymDense
	if !h.try("SymDense.PowPSD", "not-PD", id, replay, func() { err = d2.PowPSD(makeSym(skSym, b), pow) }) {
		h.eval("SymDense.PowPSD|not-PD|"+sizeClass(n), true)
		if !errors.Is(err, mat.ErrNotPSD) {
			h.fail("SymDense.PowPSD", "not-PD", "no-error-for-indefinite", id, idf("err=%v", err), replayMats("A", b))
		}
	}
}
