package main

import (
	"math"

	"gonum.org/v1/gonum/mat"
	"gonum.org/v1/gonum/verifx/ref"
	"gonum.org/v1/gonum/verifx/vrt"
)

// spdMatrix builds the SPD test matrix of a class.
func spdMatrix(rng *vrt.Rand, n int, class string) *ref.M {
	switch class {
	case "cond10":
		return spd(rng, n, 10, 1)
	case "cond1e3":
		return spd(rng, n, 1e3, 1)
	case "cond1e6":
		return spd(rng, n, 1e6, 1)
	case "scaled-up":
		return spd(rng, n, 100, math.Ldexp(1, rng.Range(24, 40)))
	case "scaled-down":
		return spd(rng, n, 100, math.Ldexp(1, -rng.Range(24, 40)))
	case "gram":
		b := randM(rng, n+3, n)
		a := ref.Mul(b.T(), b)
		for i := 0; i < n; i++ {
			a.D[i*n+i] += 0.1
			for j := i + 1; j < n; j++ {
				a.D[j*n+i] = a.D[i*n+j]
			}
		}
		return a
	}
	panic("spdMatrix: class " + class)
}

// cholFactor checks the factor U of a Cholesky against the matrix a it must
// represent: triangular, positive diagonal, Ut U = a, At, ToSym, LTo.
// extra scales the unit (number of updates applied).
func (h *H) cholFactor(routine, path, id string, c *mat.Cholesky, a *ref.M, extra float64, full bool, replay func() any) bool {
	n := a.R
	var ut mat.TriDense
	if h.try("Cholesky.UTo", path, id, replay, func() { c.UTo(&ut) }) {
		return false
	}
	h.count("chol", 1)
	u := ref.FromAt(&ut)
	if u.R != n || u.C != n {
		h.fail(routine, path, "factor-shape", id, idf("U is %dx%d, want %d", u.R, u.C, n), replay)
		return false
	}
	if !ref.IsUpperTri(u) {
		h.fail(routine, path, "factor-not-triangular", id, "U is not upper triangular", replay)
		return false
	}
	for i := 0; i < n; i++ {
		if !(u.At(i, i) > 0) {
			h.fail(routine, path, "factor-diagonal-not-positive", id, idf("U[%d,%d]=%v", i, i, u.At(i, i)), replay)
			return false
		}
	}
	unit := float64(n) * eps * extra * a.MaxAbs()
	if !h.check("chol-reconstruction", routine, path, ref.MaxDiff(ref.Mul(u.T(), u), a), unit, id, replay) {
		return false
	}
	if !full {
		return true
	}
	at := ref.FromAt(c)
	if !h.check("chol-At", "Cholesky.At", path, ref.MaxDiff(at, a), unit, id, replay) {
		return false
	}
	// RawU must be the same factor.
	if ru := c.RawU(); ru == nil || ref.MaxDiff(ref.FromAt(ru), u) != 0 {
		h.fail("Cholesky.RawU", path, "differs-from-UTo", id, "RawU and UTo disagree", replay)
	}
	// LTo into a sized destination.
	lt := mat.NewTriDense(n, mat.Lower, nil)
	if !h.try("Cholesky.LTo", path, id, replay, func() { c.LTo(lt) }) {
		if ref.MaxDiff(ref.FromAt(lt), u.T()) != 0 {
			h.fail("Cholesky.LTo", path, "not-transpose-of-U", id, "L != Ut", replay)
		}
	}
	// ToSym into an empty and into a sized destination.
	var s1 mat.SymDense
	if !h.try("Cholesky.ToSym", path+",dst=empty", id, replay, func() { c.ToSym(&s1) }) {
		h.check("chol-ToSym", "Cholesky.ToSym", path+",dst=empty", ref.MaxDiff(ref.FromAt(&s1), a), unit, id, replay)
	}
	back := make([]float64, n*n)
	vrt.FillTaint(back)
	s2 := mat.NewSymDense(n, back)
	if !h.try("Cholesky.ToSym", path+",dst=sized", id, replay, func() { c.ToSym(s2) }) {
		h.check("chol-ToSym", "Cholesky.ToSym", path+",dst=sized", ref.MaxDiff(ref.FromAt(s2), a), unit, id, replay)
	}
	h.count("chol", 4)
	return true
}

// cholScalars checks Det, LogDet and Cond. normBound >= ||a||_inf is the
// largest norm gonum may use for the condition estimate.
func (h *H) cholScalars(path, id string, c *mat.Cholesky, a *ref.M, normBound, extra float64, replay func() any) (condOK bool) {
	n := a.R
	condInf, _, inv, okInv := condRef(a)
	if !okInv || condInf > 1e10 {
		return true
	}
	var det, ld, cond float64
	if h.try("Cholesky.Det", path, id, replay, func() { det = c.Det() }) {
		return true
	}
	if h.try("Cholesky.LogDet", path, id, replay, func() { ld = c.LogDet() }) {
		return true
	}
	if h.try("Cholesky.Cond", path, id, replay, func() { cond = c.Cond() }) {
		return true
	}
	h.count("chol", 3)
	h.eval("Cholesky.scalars|"+path+"|"+sizeClass(n), true)
	rl, rs, _ := logDetRef(a)
	unit := float64(n) * eps * condInf * extra
	if rs != 1 {
		return true // reference says not positive: outside the domain
	}
	h.check("logdet", "Cholesky.LogDet", path, math.Abs(ld-rl), unit*(1+math.Abs(rl)), id, replay)
	if math.Abs(rl) < 600 {
		want := math.Exp(rl)
		h.check("det", "Cholesky.Det", path, math.Abs(det-want), unit*(1+math.Abs(rl))*want, id, replay)
	}
	return h.condBand("Cholesky.Cond", path, id, cond, a.NormInf()*inv.NormInf(), normBound*inv.NormInf(), n, condInf, replay)
}

func (h *H) cholSolves(id string, idx int, c *mat.Cholesky, a *ref.M, rng *vrt.Rand) {
	condInf, _, _, okInv := condRef(a)
	well := okInv && condInf < 1e8
	sp := &solveSpec{routine: "Cholesky.SolveTo", path: "-", aop: a, mode: modeSquare, wellCond: well}
	for _, pr := range h.densePairs(idx) {
		h.solveDense(sp, id, rng, nrhsFor(rng), pr[0], pr[1], func(dst *mat.Dense, b mat.Matrix) error { return c.SolveTo(dst, b) })
		h.count("chol", 1)
	}
	spv := &solveSpec{routine: "Cholesky.SolveVecTo", path: "-", aop: a, mode: modeSquare, wellCond: well}
	for _, pr := range h.vecPairs(idx) {
		h.solveVec(spv, id, rng, pr[0], pr[1], func(dst *mat.VecDense, b mat.Vector) error { return c.SolveVecTo(dst, b) })
		h.count("chol", 1)
	}
}

func (h *H) checkCholesky(idx, n int, class string) {
	rng := h.c.RNG("chol", idx)
	id := idf("Cholesky n=%d class=%s #%d", n, class, idx)
	a := spdMatrix(rng, n, class)
	sKind := idx % nSymKinds
	path := "A=" + symKindNames[sKind]
	replay := replayMats("A", a, "class", class)

	var c mat.Cholesky
	switch idx % 4 {
	case 1:
		c.Factorize(makeSym(skSym, spd(rng, n+2, 10, 1)))
	case 2:
		c.Factorize(makeSym(skSym, spd(rng, n, 10, 1)))
		c.Reset()
	}
	aOp := makeSym(sKind, a)
	var ok bool
	if h.try("Cholesky.Factorize", path, id, replay, func() { ok = c.Factorize(aOp) }) {
		return
	}
	h.count("chol", 1)
	h.eval("Cholesky.Factorize|"+path+"|"+class+"|"+sizeClass(n), true)
	if !ok {
		h.fail("Cholesky.Factorize", path, "ok-false-for-positive-definite", id, "Factorize returned false", replay)
		return
	}
	if !h.cholFactor("Cholesky.Factorize", path, id, &c, a, 1, true, replay) {
		return
	}
	h.cholScalars(path, id, &c, a, a.NormInf(), 1, replay)
	h.cholSolves(id, idx, &c, a, rng)

	condInf, _, inv, _ := condRef(a)
	// InverseTo
	for _, dk := range []int{dkEmpty, dkSized} {
		var dst mat.SymDense
		if dk == dkSized {
			back := make([]float64, n*n)
			vrt.FillTaint(back)
			dst = *mat.NewSymDense(n, back)
		}
		var err error
		p := "dst=" + dstKindNames[dk]
		if h.try("Cholesky.InverseTo", p, id, replay, func() { err = c.InverseTo(&dst) }) {
			continue
		}
		h.count("chol", 1)
		h.eval("Cholesky.InverseTo|"+p+"|"+sizeClass(n), true)
		if err != nil {
			if condInf < 1e8 {
				h.fail("Cholesky.InverseTo", p, "condition-error-on-well-conditioned", id, err.Error(), replay)
			}
			continue
		}
		x, okf := h.finiteResult("Cholesky.InverseTo", p, id, &dst, replay)
		if !okf {
			continue
		}
		h.check("inverse-forward", "Cholesky.InverseTo", p, ref.MaxDiff(x, inv), float64(n)*eps*condInf*inv.MaxAbs(), id, replay)
	}
	// SolveCholTo: A X = B with B given by its own factorization.
	bm := spd(rng, n, 10, 1)
	var cb mat.Cholesky
	if cb.Factorize(makeSym(skSym, bm)) {
		for _, dk := range []int{dkEmpty, dkSized, dkView} {
			dst, outside := dstDense(dk, n, n)
			var err error
			p := "dst=" + dstKindNames[dk]
			if h.try("Cholesky.SolveCholTo", p, id, replay, func() { err = c.SolveCholTo(dst, &cb) }) {
				continue
			}
			h.count("chol", 1)
			h.eval("Cholesky.SolveCholTo|"+p+"|"+sizeClass(n), true)
			if outside() {
				h.fail("Cholesky.SolveCholTo", p, "wrote-outside-destination-window", id, "", replay)
			}
			sp := &solveSpec{routine: "Cholesky.SolveCholTo", path: p, aop: a, mode: modeSquare, wellCond: condInf < 1e8}
			if !h.handleErr(sp, id, err, replay) {
				continue
			}
			if x, okf := h.finiteResult(sp.routine, p, id, dst, replay); okf {
				h.judge(sp, id, x, bm, replay)
			}
		}
	}
}

// checkCholeskyNotPD: clearly indefinite input must give ok=false and an
// unusable receiver.
func (h *H) checkCholeskyNotPD(idx, n int) {
	rng := h.c.RNG("chol-notpd", idx)
	id := idf("Cholesky not-PD n=%d #%d", n, idx)
	a := spd(rng, n, 10, 1)
	k := rng.Intn(n)
	switch idx % 3 {
	case 0:
		a.D[k*n+k] = -a.D[k*n+k] // a negative diagonal entry
	case 1:
		a.D[k*n+k] = 0 // a zero diagonal entry
	default:
		// subtract 2*lambda_max on one eigen-direction: x = e_k
		a.D[k*n+k] -= 4
	}
	replay := replayMats("A", a)
	sKind := idx % nSymKinds
	path := "A=" + symKindNames[sKind]
	var c mat.Cholesky
	if idx%2 == 1 {
		c.Factorize(makeSym(skSym, spd(rng, n, 10, 1)))
	}
	ok := true
	if h.try("Cholesky.Factorize", path+",not-PD", id, replay, func() { ok = c.Factorize(makeSym(sKind, a)) }) {
		return
	}
	h.count("chol", 1)
	h.eval("Cholesky.Factorize|not-PD|"+path+"|"+sizeClass(n), true)
	if ok {
		h.fail("Cholesky.Factorize", "not-PD", "ok-true-for-indefinite", id, "Factorize returned true", replay)
		return
	}
	// "Calls to methods of an unsuccessful Cholesky factorization will panic."
	h.expectPanic("Cholesky.Det", "after-failed-Factorize", "must-panic", id, func() { c.Det() })
	h.expectPanic("Cholesky.SolveTo", "after-failed-Factorize", "must-panic", id, func() {
		var d mat.Dense
		_ = c.SolveTo(&d, mat.NewDense(n, 1, nil))
	})

	// Pivoted Cholesky of the same matrix must not claim success either.
	var pc mat.PivotedCholesky
	okp := true
	if h.try("PivotedCholesky.Factorize", path+",not-PD", id, replay, func() { okp = pc.Factorize(makeSym(sKind, a), -1) }) {
		return
	}
	h.eval("PivotedCholesky.Factorize|not-PD|"+path+"|"+sizeClass(n), true)
	if okp {
		h.fail("PivotedCholesky.Factorize", "not-PD", "ok-true-for-indefinite", id, "Factorize returned true", replay)
	}
	// Band Cholesky likewise (the band of an indefinite diagonal entry).
	kd := min(n-1, 2)
	ab := bandOf(a, kd)
	if idx%3 != 2 {
		var bc mat.BandCholesky
		okb := true
		if h.try("BandCholesky.Factorize", "not-PD", id, replay, func() { okb = bc.Factorize(makeSymBand(ab, kd)) }) {
			return
		}
		h.eval("BandCholesky.Factorize|not-PD|"+sizeClass(n), true)
		if okb {
			h.fail("BandCholesky.Factorize", "not-PD", "ok-true-for-indefinite", id, "Factorize returned true", replay)
		}
	}
}

// ---------------------------------------------------------------------------
// BandCholesky

func (h *H) checkBandCholesky(idx, n, kd int, scale float64) {
	rng := h.c.RNG("bandchol", idx)
	id := idf("BandCholesky n=%d k=%d scale=%g #%d", n, kd, scale, idx)
	a := ref.Scale(scale, bandSPD(rng, n, kd))
	replay := replayMats("A", a, "k", kd)
	var aOp mat.SymBanded
	path := "A=SymBandDense"
	if idx%3 == 2 {
		aOp = basicSymBand{a.Clone(), kd}
		path = "A=BasicSymBanded"
	} else {
		aOp = makeSymBand(a, kd)
	}
	var c mat.BandCholesky
	if idx%4 == 1 {
		c.Factorize(makeSymBand(bandSPD(rng, n+1, min(n, kd+1)), min(n, kd+1)))
	}
	var ok bool
	if h.try("BandCholesky.Factorize", path, id, replay, func() { ok = c.Factorize(aOp) }) {
		return
	}
	h.count("bandchol", 1)
	h.eval("BandCholesky.Factorize|"+path+"|"+sizeClass(n)+"|k"+sizeClass(kd+1), true)
	if !ok {
		h.fail("BandCholesky.Factorize", path, "ok-false-for-positive-definite", id, "Factorize returned false", replay)
		return
	}
	if r, cc := c.Dims(); r != n || cc != n {
		h.fail("BandCholesky.Dims", path, "wrong", id, idf("%dx%d", r, cc), replay)
		return
	}
	if nn, k := c.SymBand(); nn != n || k != kd {
		h.fail("BandCholesky.SymBand", path, "wrong", id, idf("n=%d k=%d", nn, k), replay)
	}
	if kl, ku := c.Bandwidth(); kl != kd || ku != kd {
		h.fail("BandCholesky.Bandwidth", path, "wrong", id, idf("kl=%d ku=%d", kl, ku), replay)
	}
	unit := float64(n) * eps * a.MaxAbs()
	if !h.check("chol-At", "BandCholesky.At", path, ref.MaxDiff(ref.FromAt(&c), a), unit, id, replay) {
		return
	}
	condInf, _, inv, okInv := condRef(a)
	if okInv && condInf < 1e10 {
		var det, ld, cond float64
		if !h.try("BandCholesky.Det", path, id, replay, func() { det = c.Det(); ld = c.LogDet(); cond = c.Cond() }) {
			h.count("bandchol", 3)
			rl, rs, _ := logDetRef(a)
			u := float64(n) * eps * condInf
			if rs == 1 {
				h.check("logdet", "BandCholesky.LogDet", path, math.Abs(ld-rl), u*(1+math.Abs(rl)), id, replay)
				if math.Abs(rl) < 600 {
					want := math.Exp(rl)
					h.check("det", "BandCholesky.Det", path, math.Abs(det-want), u*(1+math.Abs(rl))*want, id, replay)
				}
			}
			tr := a.NormInf() * inv.NormInf()
			h.condBand("BandCholesky.Cond", "-", id, cond, tr, tr, n, condInf, replay)
		}
	}
	well := okInv && condInf < 1e8
	sp := &solveSpec{routine: "BandCholesky.SolveTo", path: "-", aop: a, mode: modeSquare, wellCond: well}
	for _, pr := range h.densePairs(idx) {
		h.solveDense(sp, id, rng, nrhsFor(rng), pr[0], pr[1], func(dst *mat.Dense, b mat.Matrix) error { return c.SolveTo(dst, b) })
		h.count("bandchol", 1)
	}
	spv := &solveSpec{routine: "BandCholesky.SolveVecTo", path: "-", aop: a, mode: modeSquare, wellCond: well}
	for _, pr := range h.vecPairs(idx) {
		h.solveVec(spv, id, rng, pr[0], pr[1], func(dst *mat.VecDense, b mat.Vector) error { return c.SolveVecTo(dst, b) })
		h.count("bandchol", 1)
	}
}

// ---------------------------------------------------------------------------
// PivotedCholesky

func (h *H) checkPivotedCholesky(idx, n int, class string) {
	rng := h.c.RNG("pivchol", idx)
	id := idf("PivotedCholesky n=%d class=%s #%d", n, class, idx)
	var a *ref.M
	wantRank := n
	deficient := false
	if class == "rank-deficient" {
		r := 1 + rng.Intn(n-1)
		var b *ref.M
		a, b = gramInt(rng, n, r)
		s := ref.SingularValues(b)
		if s[len(s)-1] < 0.3 {
			return // B not safely of full column rank: rank of A uncertain
		}
		wantRank = r
		deficient = true
	} else {
		a = spdMatrix(rng, n, class)
	}
	sKind := idx % nSymKinds
	path := "A=" + symKindNames[sKind]
	replay := replayMats("A", a, "class", class)
	var c mat.PivotedCholesky
	if idx%3 == 1 {
		c.Factorize(makeSym(skSym, spd(rng, n+1, 10, 1)), -1)
	}
	// Rank-deficient inputs are factorized with an explicit relative
	// tolerance that separates the rounding noise of the zero pivots
	// (about 1e-15) from the non-zero ones (at least about 1e-3): with the
	// default tolerance n*u*max(diag) the noise itself can pass for a pivot
	// when n is small, which is legitimate.
	tol := -1.0
	if deficient {
		tol = 1e-10
	}
	var ok bool
	if h.try("PivotedCholesky.Factorize", path, id, replay, func() { ok = c.Factorize(makeSym(sKind, a), tol) }) {
		return
	}
	h.count("pivchol", 1)
	h.eval("PivotedCholesky.Factorize|"+path+"|"+class+"|"+sizeClass(n), true)
	if deficient && ok {
		h.fail("PivotedCholesky.Factorize", "rank-deficient", "ok-true-for-singular", id, "Factorize returned true", replay)
	}
	if !deficient && !ok {
		h.fail("PivotedCholesky.Factorize", path, "ok-false-for-positive-definite", id, "Factorize returned false", replay)
		return
	}
	var rank int
	var piv []int
	var ut mat.TriDense
	if h.try("PivotedCholesky.UTo", path, id, replay, func() { rank = c.Rank(); piv = c.ColumnPivots(nil); c.UTo(&ut) }) {
		return
	}
	h.count("pivchol", 3)
	if rank != wantRank {
		h.fail("PivotedCholesky.Rank", class2(deficient), "wrong-rank", id, idf("Rank=%d, want %d", rank, wantRank), replay)
		return
	}
	if !isPerm(piv, n) {
		h.fail("PivotedCholesky.ColumnPivots", path, "not-a-permutation", id, idf("%v", piv), replay)
		return
	}
	u := ref.FromAt(&ut)
	if !ref.IsUpperTri(u) {
		h.fail("PivotedCholesky.UTo", path, "factor-not-triangular", id, "", replay)
		return
	}
	for i := rank; i < n; i++ {
		for j := 0; j < n; j++ {
			if u.At(i, j) != 0 {
				h.fail("PivotedCholesky.UTo", "rank-deficient", "rows-beyond-rank-not-zero", id, idf("U[%d,%d]=%v", i, j, u.At(i, j)), replay)
				return
			}
		}
	}
	// Pt A P = Ut U with P[p[k],k] = 1: (Pt A P)[i,j] = A[p[i],p[j]].
	pap := ref.FromFunc(n, n, func(i, j int) float64 { return a.At(piv[i], piv[j]) })
	unit := float64(n) * eps * a.MaxAbs()
	if !h.check("chol-reconstruction", "PivotedCholesky.Factorize", class2(deficient), ref.MaxDiff(ref.Mul(u.T(), u), pap), unit, id, replay) {
		return
	}
	if !h.check("chol-At", "PivotedCholesky.At", class2(deficient), ref.MaxDiff(ref.FromAt(&c), a), unit, id, replay) {
		return
	}
	if ru := c.RawU(); ru == nil || ref.MaxDiff(ref.FromAt(ru), u) != 0 {
		h.fail("PivotedCholesky.RawU", path, "differs-from-UTo", id, "", replay)
	}
	if !ok {
		// "If Factorize returned false, SolveTo will panic."
		h.expectPanic("PivotedCholesky.SolveTo", "after-failed-Factorize", "must-panic", id, func() {
			var d mat.Dense
			_ = c.SolveTo(&d, mat.NewDense(n, 1, nil))
		})
		if cd := c.Cond(); !math.IsInf(cd, 1) {
			h.fail("PivotedCholesky.Cond", "rank-deficient", "finite-for-singular", id, idf("Cond=%v", cd), replay)
		}
		return
	}
	condInf, _, inv, okInv := condRef(a)
	if okInv && condInf < 1e10 {
		var cond float64
		if !h.try("PivotedCholesky.Cond", path, id, replay, func() { cond = c.Cond() }) {
			tr := a.NormInf() * inv.NormInf()
			h.condBand("PivotedCholesky.Cond", path, id, cond, tr, tr, n, condInf, replay)
		}
	}
	well := okInv && condInf < 1e8
	sp := &solveSpec{routine: "PivotedCholesky.SolveTo", path: "-", aop: a, mode: modeSquare, wellCond: well}
	for _, pr := range h.densePairs(idx) {
		h.solveDense(sp, id, rng, nrhsFor(rng), pr[0], pr[1], func(dst *mat.Dense, b mat.Matrix) error { return c.SolveTo(dst, b) })
		h.count("pivchol", 1)
	}
	spv := &solveSpec{routine: "PivotedCholesky.SolveVecTo", path: "-", aop: a, mode: modeSquare, wellCond: well}
	for _, pr := range h.vecPairs(idx) {
		h.solveVec(spv, id, rng, pr[0], pr[1], func(dst *mat.VecDense, b mat.Vector) error { return c.SolveVecTo(dst, b) })
		h.count("pivchol", 1)
	}
}

func class2(deficient bool) string {
	if deficient {
		return "rank-deficient"
	}
	return "full-rank"
}
