package main

import (
	"gonum.org/v1/gonum/mat"
	"gonum.org/v1/gonum/verifx/ref"
	"gonum.org/v1/gonum/verifx/vrt"
)

// rectMatrix builds an m x n full-rank test matrix with 2-norm condition
// number kappa.
func rectMatrix(rng *vrt.Rand, m, n int, kappa float64) *ref.M {
	return withSV(rng, m, n, geomSpectrum(min(m, n), kappa))
}

func kappaOf(class string) float64 {
	switch class {
	case "cond10":
		return 10
	case "cond1e3":
		return 1e3
	case "cond1e6":
		return 1e6
	}
	panic("kappaOf: " + class)
}

// dirty performs an ordinary least-squares solve of the same workspace
// size right before a minimum-norm solve, so that the pooled workspace the
// latter obtains holds finite garbage (when pool poisoning is off) rather
// than zeros.
func dirtyQR(qr *mat.QR, m, nrhs int, rng *vrt.Rand) {
	var d mat.Dense
	b := mat.NewDense(m, nrhs, nil)
	for i := 0; i < m; i++ {
		for j := 0; j < nrhs; j++ {
			b.Set(i, j, 1e3*(1+rng.Float64()))
		}
	}
	_ = qr.SolveTo(&d, false, b)
}

func (h *H) checkQR(idx, m, n int, class string) {
	rng := h.c.RNG("qr", idx)
	id := idf("QR %dx%d class=%s #%d", m, n, class, idx)
	kappa := kappaOf(class)
	a := rectMatrix(rng, m, n, kappa)
	aKind := idx % nMatKinds
	path := "A=" + matKindNames[aKind]
	replay := replayMats("A", a, "class", class)

	var qr mat.QR
	recvState := "fresh-receiver"
	if idx%3 == 1 {
		qr.Factorize(makeMat(mkDense, randM(rng, m+2, n+1)))
		var q mat.Dense
		qr.QTo(&q) // a cached Q from the previous factorization
		recvState = "receiver-used-for-another-size"
	}
	aOp := makeMat(aKind, a)
	if h.try("QR.Factorize", recvState, id, replay, func() { qr.Factorize(aOp) }) {
		return
	}
	h.count("qr", 1)
	h.eval("QR.Factorize|"+path+"|"+class+"|"+shapeClass(m, n), true)
	if ref.MaxDiff(ref.FromAt(aOp), a) != 0 {
		h.fail("QR.Factorize", path, "modified-input", id, "A changed", replay)
	}

	// At before Q has been formed (row-by-row path), then the factors, then
	// At again (cached-Q path).
	unit := float64(m) * eps * a.NormFro()
	atPath := "Q-not-formed"
	if idx%3 == 1 {
		atPath = "Q-reset-by-Factorize"
	}
	if m*n <= 40*40 || h.thorough() && m*n <= 70*70 {
		var at *ref.M
		if !h.try("QR.At", atPath, id, replay, func() { at = ref.FromAt(&qr) }) {
			h.check("qr-At", "QR.At", atPath, ref.MaxDiff(at, a), unit, id, replay)
		}
	}
	qdst, _ := dstDense(idx%2, m, m) // empty or sized
	rdst, _ := dstDense((idx/2)%2, m, n)
	qPath, rPath := "dst="+dstKindNames[idx%2], "dst="+dstKindNames[(idx/2)%2]
	if h.try("QR.QTo", qPath, id, replay, func() { qr.QTo(qdst) }) {
		return
	}
	if h.try("QR.RTo", rPath, id, replay, func() { qr.RTo(rdst) }) {
		return
	}
	h.count("qr", 2)
	q, r := ref.FromAt(qdst), ref.FromAt(rdst)
	if q.R != m || q.C != m || r.R != m || r.C != n {
		h.fail("QR.QTo", path, "factor-shape", id, idf("Q %dx%d R %dx%d", q.R, q.C, r.R, r.C), replay)
		return
	}
	if !ref.IsUpperTri(r) {
		h.fail("QR.RTo", rPath, "factor-not-triangular", id, "R has non-zeros (or untouched destination content) below the diagonal", replay)
		return
	}
	if !h.check("orthogonality", "QR.QTo", qPath, ref.OrthoResid(q), float64(m)*eps, id, replay) {
		return
	}
	if !h.check("qr-reconstruction", "QR.Factorize", path, ref.MaxDiff(ref.Mul(q, r), a), unit, id, replay) {
		return
	}
	if m*n <= 40*40 {
		var at *ref.M
		if !h.try("QR.At", "Q-formed", id, replay, func() { at = ref.FromAt(&qr) }) {
			h.check("qr-At", "QR.At", "Q-formed", ref.MaxDiff(at, a), unit, id, replay)
		}
	}
	// Cond: documented as the condition number of the factorized matrix,
	// computed as the infinity-norm condition number of R, which is within
	// a factor n of the 2-norm condition number of A on either side.
	var cond float64
	if !h.try("QR.Cond", path, id, replay, func() { cond = qr.Cond() }) {
		k2 := ref.Cond2(a)
		h.condBand("QR.Cond", path, id, cond, k2/float64(n), k2*float64(n), n, k2, replay)
	}

	// least squares: A x = b
	nrhs := nrhsFor(rng)
	spLS := &solveSpec{routine: "QR.SolveTo", path: "notrans", aop: a, mode: modeLS, wellCond: true}
	if m == n {
		spLS.mode = modeSquare
	}
	for _, pr := range h.densePairs(idx) {
		if pr[0] < 0 {
			continue // dst aliasing b is not documented for QR
		}
		h.solveDense(spLS, id, rng, nrhs, pr[0], pr[1], func(dst *mat.Dense, b mat.Matrix) error { return qr.SolveTo(dst, false, b) })
		h.count("qr", 1)
	}
	spv := *spLS
	spv.routine = "QR.SolveVecTo"
	for _, pr := range h.vecPairs(idx) {
		if pr[0] < 0 {
			continue
		}
		h.solveVec(&spv, id, rng, pr[0], pr[1], func(dst *mat.VecDense, b mat.Vector) error { return qr.SolveVecTo(dst, false, b) })
		h.count("qr", 1)
	}
	// minimum norm: At x = b, preceded by an ordinary solve of the same
	// workspace shape.
	spMN := &solveSpec{routine: "QR.SolveTo", path: "trans", aop: a.T(), mode: modeMinNorm, kappa: kappa, wellCond: true}
	if m == n {
		spMN.mode = modeSquare
	}
	for _, pr := range h.densePairs(idx + 1) {
		if pr[0] < 0 {
			continue
		}
		dirtyQR(&qr, m, nrhs, rng)
		h.solveDense(spMN, id, rng, nrhs, pr[0], pr[1], func(dst *mat.Dense, b mat.Matrix) error { return qr.SolveTo(dst, true, b) })
		h.count("qr", 2)
	}
	spvm := *spMN
	spvm.routine = "QR.SolveVecTo"
	for _, pr := range h.vecPairs(idx + 1) {
		if pr[0] < 0 {
			continue
		}
		dirtyQR(&qr, m, 1, rng)
		h.solveVec(&spvm, id, rng, pr[0], pr[1], func(dst *mat.VecDense, b mat.Vector) error { return qr.SolveVecTo(dst, true, b) })
		h.count("qr", 2)
	}
}

func dirtyLQ(lq *mat.LQ, n, nrhs int, rng *vrt.Rand) {
	var d mat.Dense
	b := mat.NewDense(n, nrhs, nil)
	for i := 0; i < n; i++ {
		for j := 0; j < nrhs; j++ {
			b.Set(i, j, 1e3*(1+rng.Float64()))
		}
	}
	_ = lq.SolveTo(&d, true, b)
}

func (h *H) checkLQ(idx, m, n int, class string) {
	rng := h.c.RNG("lq", idx)
	id := idf("LQ %dx%d class=%s #%d", m, n, class, idx)
	kappa := kappaOf(class)
	a := rectMatrix(rng, m, n, kappa)
	aKind := idx % nMatKinds
	path := "A=" + matKindNames[aKind]
	replay := replayMats("A", a, "class", class)

	var lq mat.LQ
	recvState := "fresh-receiver"
	if idx%3 == 1 {
		lq.Factorize(makeMat(mkDense, randM(rng, m+1, n+2)))
		recvState = "receiver-used-for-another-size"
	} else if idx%3 == 2 {
		lq.Factorize(makeMat(mkDense, randM(rng, m, n)))
		recvState = "receiver-used-for-the-same-size"
	}
	aOp := makeMat(aKind, a)
	if h.try("LQ.Factorize", recvState, id, replay, func() { lq.Factorize(aOp) }) {
		return
	}
	h.count("lq", 1)
	h.eval("LQ.Factorize|"+path+"|"+class+"|"+shapeClass(m, n), true)
	if ref.MaxDiff(ref.FromAt(aOp), a) != 0 {
		h.fail("LQ.Factorize", path, "modified-input", id, "A changed", replay)
	}
	unit := float64(n) * eps * a.NormFro()
	ldst, _ := dstDense(idx%2, m, n)
	qdst, _ := dstDense((idx/2)%2, n, n)
	lPath, qPath := "dst="+dstKindNames[idx%2], "dst="+dstKindNames[(idx/2)%2]
	if h.try("LQ.LTo", lPath, id, replay, func() { lq.LTo(ldst) }) {
		return
	}
	if h.try("LQ.QTo", qPath, id, replay, func() { lq.QTo(qdst) }) {
		return
	}
	h.count("lq", 2)
	l, q := ref.FromAt(ldst), ref.FromAt(qdst)
	if l.R != m || l.C != n || q.R != n || q.C != n {
		h.fail("LQ.LTo", path, "factor-shape", id, idf("L %dx%d Q %dx%d", l.R, l.C, q.R, q.C), replay)
		return
	}
	if !ref.IsLowerTri(l) {
		h.fail("LQ.LTo", lPath, "factor-not-triangular", id, "L has non-zeros (or untouched destination content) above the diagonal", replay)
		return
	}
	if !h.check("orthogonality", "LQ.QTo", qPath, ref.OrthoResid(q), float64(n)*eps, id, replay) {
		return
	}
	if !h.check("qr-reconstruction", "LQ.Factorize", path, ref.MaxDiff(ref.Mul(l, q), a), unit, id, replay) {
		return
	}
	if m*n <= 40*40 {
		var at *ref.M
		if !h.try("LQ.At", path, id, replay, func() { at = ref.FromAt(&lq) }) {
			h.check("qr-At", "LQ.At", path, ref.MaxDiff(at, a), unit, id, replay)
		}
	}
	var cond float64
	if !h.try("LQ.Cond", path, id, replay, func() { cond = lq.Cond() }) {
		k2 := ref.Cond2(a)
		h.condBand("LQ.Cond", path, id, cond, k2/float64(m), k2*float64(m), m, k2, replay)
	}

	nrhs := nrhsFor(rng)
	// trans: At x = b is an overdetermined least-squares problem.
	spLS := &solveSpec{routine: "LQ.SolveTo", path: "trans", aop: a.T(), mode: modeLS, wellCond: true}
	if m == n {
		spLS.mode = modeSquare
	}
	for _, pr := range h.densePairs(idx) {
		if pr[0] < 0 {
			continue
		}
		h.solveDense(spLS, id, rng, nrhs, pr[0], pr[1], func(dst *mat.Dense, b mat.Matrix) error { return lq.SolveTo(dst, true, b) })
		h.count("lq", 1)
	}
	spv := *spLS
	spv.routine = "LQ.SolveVecTo"
	for _, pr := range h.vecPairs(idx) {
		if pr[0] < 0 {
			continue
		}
		h.solveVec(&spv, id, rng, pr[0], pr[1], func(dst *mat.VecDense, b mat.Vector) error { return lq.SolveVecTo(dst, true, b) })
		h.count("lq", 1)
	}
	// notrans: A x = b, minimum norm.
	spMN := &solveSpec{routine: "LQ.SolveTo", path: "notrans", aop: a, mode: modeMinNorm, kappa: kappa, wellCond: true}
	if m == n {
		spMN.mode = modeSquare
	}
	for _, pr := range h.densePairs(idx + 1) {
		if pr[0] < 0 {
			continue
		}
		dirtyLQ(&lq, n, nrhs, rng)
		h.solveDense(spMN, id, rng, nrhs, pr[0], pr[1], func(dst *mat.Dense, b mat.Matrix) error { return lq.SolveTo(dst, false, b) })
		h.count("lq", 2)
	}
	spvm := *spMN
	spvm.routine = "LQ.SolveVecTo"
	for _, pr := range h.vecPairs(idx + 1) {
		if pr[0] < 0 {
			continue
		}
		dirtyLQ(&lq, n, 1, rng)
		h.solveVec(&spvm, id, rng, pr[0], pr[1], func(dst *mat.VecDense, b mat.Vector) error { return lq.SolveVecTo(dst, false, b) })
		h.count("lq", 2)
	}
}

// qrSingular: an exactly zero diagonal entry of R (a zero column) must be
// reported as a Condition error by SolveTo.
func (h *H) checkQRSingular(idx, m, n int) {
	rng := h.c.RNG("qr-singular", idx)
	id := idf("QR singular %dx%d #%d", m, n, idx)
	a := randM(rng, m, n)
	k := rng.Intn(n)
	for i := 0; i < m; i++ {
		a.D[i*n+k] = 0
	}
	replay := replayMats("A", a)
	var qr mat.QR
	if h.try("QR.Factorize", "zero-column", id, replay, func() { qr.Factorize(makeMat(mkDense, a)) }) {
		return
	}
	for _, trans := range []bool{false, true} {
		rows := m
		if trans {
			rows = n
		}
		var d mat.Dense
		var err error
		if h.try("QR.SolveTo", "zero-column", id, replay, func() { err = qr.SolveTo(&d, trans, makeMat(mkDense, rhs(rng, rows, 2))) }) {
			continue
		}
		h.eval("QR.SolveTo|zero-column|"+shapeClass(m, n), true)
		if _, ok := isCondition(err); !ok {
			h.fail("QR.SolveTo", "zero-column", "no-condition-error-for-exactly-singular", id, idf("err=%v", err), replay)
		}
	}
	// the transposed problem for LQ: a zero row
	at := a.T()
	var lq mat.LQ
	if h.try("LQ.Factorize", "zero-row", id, replay, func() { lq.Factorize(makeMat(mkDense, at)) }) {
		return
	}
	for _, trans := range []bool{false, true} {
		rows := n
		if trans {
			rows = m
		}
		var d mat.Dense
		var err error
		if h.try("LQ.SolveTo", "zero-row", id, replay, func() { err = lq.SolveTo(&d, trans, makeMat(mkDense, rhs(rng, rows, 2))) }) {
			continue
		}
		h.eval("LQ.SolveTo|zero-row|"+shapeClass(n, m), true)
		if _, ok := isCondition(err); !ok {
			h.fail("LQ.SolveTo", "zero-row", "no-condition-error-for-exactly-singular", id, idf("err=%v", err), replay)
		}
	}
	h.count("qr", 6)
}
