package main

import (
	"math"

	"gonum.org/v1/gonum/mat"
	"gonum.org/v1/gonum/verifx/ref"
)

// Deterministic checks of clauses that rest on a doc comment (read at run
// time) and of near-singular inputs.

// nearSingularTri returns a triangular matrix with condition number about
// 1e22: far above ConditionTolerance whatever the estimator's slack.
func nearSingularTri(n int, up bool) *ref.M {
	t := ref.New(n, n)
	for i := 0; i < n; i++ {
		t.D[i*n+i] = 1
		for j := 0; j < n; j++ {
			if (up && j > i) || (!up && j < i) {
				t.D[i*n+j] = 0.25
			}
		}
	}
	t.D[(n-1)*n+n-1] = 1e-22
	if !up {
		t.D[0] = 1e-22
		t.D[(n-1)*n+n-1] = 1
	}
	return t
}

func (h *H) checkNearSingular(n int) {
	id := idf("near-singular n=%d", n)
	singularMeansAboveTol := docSays("mat/errors.go", "const ConditionTolerance", "If the condition number is above this value, the matrix is considered singular")
	for _, up := range []bool{true, false} {
		ud := "Lower"
		if up {
			ud = "Upper"
		}
		t := nearSingularTri(n, up)
		replay := replayMats("T", t)
		b := ref.FromFunc(n, 1, func(i, _ int) float64 { return 1 })
		// the general path (LU) on the same values must flag it: this is the
		// behaviour every other SolveTo has; it anchors the expectation.
		var err error
		var d0 mat.Dense
		if !h.try("Dense.Solve", "A=Dense,near-singular", id, replay, func() { err = d0.Solve(makeMat(mkDense, t), makeMat(mkDense, b)) }) {
			h.eval("Dense.Solve|A=Dense,near-singular|"+sizeClass(n), true)
			if _, ok := isCondition(err); !ok {
				h.fail("Dense.Solve", "A=Dense,near-singular", "no-condition-error-for-cond-1e22", id, idf("err=%v", err), replay)
			}
		}
		// LU, Cholesky-free types directly
		var lu mat.LU
		lu.Factorize(makeMat(mkDense, t))
		var d1 mat.Dense
		if !h.try("LU.SolveTo", "near-singular", id, replay, func() { err = lu.SolveTo(&d1, false, makeMat(mkDense, b)) }) {
			if _, ok := isCondition(err); !ok {
				h.fail("LU.SolveTo", "near-singular", "no-condition-error-for-cond-1e22", id, idf("err=%v", err), replay)
			}
		}
		var qr mat.QR
		qr.Factorize(makeMat(mkDense, t))
		var d2 mat.Dense
		if !h.try("QR.SolveTo", "near-singular", id, replay, func() { err = qr.SolveTo(&d2, false, makeMat(mkDense, b)) }) {
			if _, ok := isCondition(err); !ok {
				h.fail("QR.SolveTo", "near-singular", "no-condition-error-for-cond-1e22", id, idf("err=%v", err), replay)
			}
		}
		// TriDense.SolveTo: "If T is singular ... a Condition error will be
		// returned", and ConditionTolerance defines singular as cond > 1e16.
		if singularMeansAboveTol && docSays("mat/triangular.go", "func (t *TriDense) SolveTo", "If T is singular, the contents of dst will be undefined and a Condition error will be returned") {
			td := makeTriDense(t, up)
			for _, trans := range []bool{false, true} {
				var d mat.Dense
				if h.try("TriDense.SolveTo", ud+",near-singular", id, replay, func() { err = td.SolveTo(&d, trans, makeMat(mkDense, b)) }) {
					continue
				}
				h.eval("TriDense.SolveTo|near-singular|"+ud+"|"+sizeClass(n), true)
				if _, ok := isCondition(err); !ok {
					h.fail("TriDense.SolveTo", "near-singular", "no-condition-error-for-cond-1e22", id, idf("trans=%v err=%v", trans, err), replay)
				}
			}
			var d mat.Dense
			if !h.try("Dense.Solve", "A=TriDense,near-singular", id, replay, func() { err = d.Solve(td, makeMat(mkDense, b)) }) {
				h.eval("Dense.Solve|A=TriDense,near-singular|"+sizeClass(n), true)
				if _, ok := isCondition(err); !ok {
					h.fail("Dense.Solve", "A=TriDense,near-singular", "no-condition-error-for-cond-1e22", id, idf("err=%v", err), replay)
				}
			}
		}
		// TriDense.InverseTri: "If a is ill-conditioned, a Condition error will be returned."
		if docSays("mat/triangular.go", "func (t *TriDense) InverseTri", "If a is ill-conditioned, a Condition error will be returned") {
			var ti mat.TriDense
			if !h.try("TriDense.InverseTri", ud+",near-singular", id, replay, func() { err = ti.InverseTri(makeTriDense(t, up)) }) {
				h.eval("TriDense.InverseTri|near-singular|"+ud+"|"+sizeClass(n), true)
				if _, ok := isCondition(err); !ok {
					h.fail("TriDense.InverseTri", "near-singular", "no-condition-error-for-cond-1e22", id, idf("err=%v", err), replay)
				}
			}
		}
		// Dense.Inverse documents the same and must flag it.
		var di mat.Dense
		if !h.try("Dense.Inverse", "near-singular", id, replay, func() { err = di.Inverse(makeMat(mkDense, t)) }) {
			if _, ok := isCondition(err); !ok {
				h.fail("Dense.Inverse", "near-singular", "no-condition-error-for-cond-1e22", id, idf("err=%v", err), replay)
			}
		}
	}
	// near-singular SPD: Cholesky SolveTo / InverseTo must flag it
	lam := make([]float64, n)
	for i := range lam {
		lam[i] = 1
	}
	lam[n-1] = 1e-22
	d := ref.New(n, n)
	for i := range lam {
		d.D[i*n+i] = lam[i]
	}
	replay := replayMats("A", d)
	var c mat.Cholesky
	if c.Factorize(makeSym(skSym, d)) {
		var x mat.Dense
		var err error
		if !h.try("Cholesky.SolveTo", "near-singular", id, replay, func() { err = c.SolveTo(&x, mat.NewDense(n, 1, nil)) }) {
			if _, ok := isCondition(err); !ok {
				h.fail("Cholesky.SolveTo", "near-singular", "no-condition-error-for-cond-1e22", id, idf("err=%v", err), replay)
			}
		}
		var s mat.SymDense
		if !h.try("Cholesky.InverseTo", "near-singular", id, replay, func() { err = c.InverseTo(&s) }) {
			if _, ok := isCondition(err); !ok {
				h.fail("Cholesky.InverseTo", "near-singular", "no-condition-error-for-cond-1e22", id, idf("err=%v", err), replay)
			}
		}
		var bc mat.BandCholesky
		if bc.Factorize(makeSymBand(d, 0)) {
			if !h.try("BandCholesky.SolveTo", "near-singular", id, replay, func() { err = bc.SolveTo(&x, mat.NewDense(n, 1, nil)) }) {
				if _, ok := isCondition(err); !ok {
					h.fail("BandCholesky.SolveTo", "near-singular", "no-condition-error-for-cond-1e22", id, idf("err=%v", err), replay)
				}
			}
		}
	}
	h.count("defects", 12)
}

// checkEmptyReceivers: documented panics of methods on receivers that hold
// no factorization.
func (h *H) checkEmptyReceivers() {
	id := "empty-receivers"
	var lu mat.LU
	if docSays("mat/lu.go", "func (lu *LU) Det", "Det will panic if the receiver does not contain a factorization") {
		h.expectPanic("LU.Det", "no-factorization", "must-panic", id, func() { lu.Det() })
	}
	h.expectPanic("LU.LogDet", "no-factorization", "must-panic", id, func() { lu.LogDet() })
	h.expectPanic("LU.Cond", "no-factorization", "must-panic", id, func() { lu.Cond() })
	h.expectPanic("LU.SolveTo", "no-factorization", "must-panic", id, func() { var d mat.Dense; _ = lu.SolveTo(&d, false, mat.NewDense(1, 1, nil)) })
	h.expectPanic("LU.RowPivots", "no-factorization", "must-panic", id, func() { lu.RowPivots(nil) })
	var lu2 mat.LU
	h.expectPanic("LU.RankOne", "no-factorization", "must-panic", id, func() {
		lu2.RankOne(&lu, 1, mat.NewVecDense(1, nil), mat.NewVecDense(1, nil))
	})
	var c mat.Cholesky
	h.expectPanic("Cholesky.Det", "no-factorization", "must-panic", id, func() { c.Det() })
	h.expectPanic("Cholesky.Cond", "no-factorization", "must-panic", id, func() { c.Cond() })
	h.expectPanic("Cholesky.SymRankOne", "no-factorization", "must-panic", id, func() { var c2 mat.Cholesky; c2.SymRankOne(&c, 1, mat.NewVecDense(1, nil)) })
	h.expectPanic("Cholesky.Clone", "no-factorization", "must-panic", id, func() { var c2 mat.Cholesky; c2.Clone(&c) })
	h.expectPanic("Cholesky.Scale", "no-factorization", "must-panic", id, func() { var c2 mat.Cholesky; c2.Scale(2, &c) })
	if c.RawU() != nil {
		h.fail("Cholesky.RawU", "no-factorization", "not-nil", id, "", nil)
	}
	var qr mat.QR
	h.expectPanic("QR.Cond", "no-factorization", "must-panic", id, func() { qr.Cond() })
	h.expectPanic("QR.SolveTo", "no-factorization", "must-panic", id, func() { var d mat.Dense; _ = qr.SolveTo(&d, false, mat.NewDense(1, 1, nil)) })
	var lq mat.LQ
	h.expectPanic("LQ.Cond", "no-factorization", "must-panic", id, func() { lq.Cond() })
	var svd mat.SVD
	h.expectPanic("SVD.Values", "no-factorization", "must-panic", id, func() { svd.Values(nil) })
	h.expectPanic("SVD.Cond", "no-factorization", "must-panic", id, func() { svd.Cond() })
	if svd.Kind() != -1 {
		h.fail("SVD.Kind", "no-factorization", "not-minus-one", id, "", nil)
	}
	var es mat.EigenSym
	h.expectPanic("EigenSym.Values", "no-factorization", "must-panic", id, func() { es.Values(nil) })
	var eg mat.Eigen
	h.expectPanic("Eigen.Values", "no-factorization", "must-panic", id, func() { eg.Values(nil) })
	var g mat.GSVD
	h.expectPanic("GSVD.ValuesA", "no-factorization", "must-panic", id, func() { g.ValuesA(nil) })
	var hg mat.HOGSVD
	h.expectPanic("HOGSVD.VTo", "no-factorization", "must-panic", id, func() { var d mat.Dense; hg.VTo(&d) })
	// shape errors
	h.expectPanic("LU.Factorize", "non-square", "must-panic", id, func() { lu.Factorize(mat.NewDense(2, 3, nil)) })
	h.expectPanic("QR.Factorize", "wide", "must-panic", id, func() { qr.Factorize(mat.NewDense(2, 3, nil)) })
	h.expectPanic("LQ.Factorize", "tall", "must-panic", id, func() { lq.Factorize(mat.NewDense(3, 2, nil)) })
	h.expectPanic("Cholesky.Scale", "non-positive-factor", "must-panic", id, func() {
		var c3 mat.Cholesky
		c3.Factorize(mat.NewSymDense(1, []float64{2}))
		c3.Scale(-1, &c3)
	})
	h.expectPanic("Dense.Pow", "negative-power", "must-panic", id, func() { var d mat.Dense; d.Pow(mat.NewDense(2, 2, nil), -1) })
	h.eval("empty-receivers", true)
	h.count("defects", 30)
	_ = math.Pi
}
