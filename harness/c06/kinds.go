package main

import (
	"math"

	"gonum.org/v1/gonum/blas/blas64"
	"gonum.org/v1/gonum/lapack/lapack64"
	"gonum.org/v1/gonum/mat"
	"gonum.org/v1/gonum/verifx/ref"
	"gonum.org/v1/gonum/verifx/vrt"
)

// Operand representations. Every constructor takes the VALUE as a ref.M and
// returns a gonum operand with exactly that value under Dims/At.

// basicMatrix implements only mat.Matrix.
type basicMatrix struct{ m *ref.M }

func (b basicMatrix) Dims() (int, int)    { return b.m.R, b.m.C }
func (b basicMatrix) At(i, j int) float64 { return b.m.At(i, j) }
func (b basicMatrix) T() mat.Matrix       { return mat.Transpose{Matrix: b} }

// rawWrap implements mat.Matrix and mat.RawMatrixer without being a *Dense.
type rawWrap struct{ d *mat.Dense }

func (w rawWrap) Dims() (int, int)          { return w.d.Dims() }
func (w rawWrap) At(i, j int) float64       { return w.d.At(i, j) }
func (w rawWrap) T() mat.Matrix             { return mat.Transpose{Matrix: w} }
func (w rawWrap) RawMatrix() blas64.General { return w.d.RawMatrix() }

// basicSym implements only mat.Symmetric.
type basicSym struct{ m *ref.M }

func (b basicSym) Dims() (int, int)    { return b.m.R, b.m.C }
func (b basicSym) At(i, j int) float64 { return b.m.At(i, j) }
func (b basicSym) T() mat.Matrix       { return b }
func (b basicSym) SymmetricDim() int   { return b.m.R }

// basicVec implements only mat.Vector (no RawVector).
type basicVec struct{ x []float64 }

func (b basicVec) Dims() (int, int) { return len(b.x), 1 }
func (b basicVec) At(i, j int) float64 {
	if j != 0 {
		panic("basicVec: column index")
	}
	return b.x[i]
}
func (b basicVec) T() mat.Matrix       { return mat.Transpose{Matrix: b} }
func (b basicVec) AtVec(i int) float64 { return b.x[i] }
func (b basicVec) Len() int            { return len(b.x) }

// basicTri implements only mat.Triangular.
type basicTri struct {
	m    *ref.M
	kind mat.TriKind
}

func (b basicTri) Dims() (int, int)             { return b.m.R, b.m.C }
func (b basicTri) At(i, j int) float64          { return b.m.At(i, j) }
func (b basicTri) T() mat.Matrix                { return mat.Transpose{Matrix: b} }
func (b basicTri) Triangle() (int, mat.TriKind) { return b.m.R, b.kind }
func (b basicTri) TTri() mat.Triangular         { return mat.TransposeTri{Triangular: b} }

// general matrix kinds
const (
	mkDense = iota
	mkView
	mkTrans
	mkBasic
	mkRawWrap
	nMatKinds
)

var matKindNames = [...]string{"Dense", "DenseView", "Dense.T", "BasicMatrix", "RawMatrixer"}

// taintedView returns an r x c Dense that is a window into a larger backing
// array filled with taint NaNs, holding the values of v, plus the backing.
func taintedView(v *ref.M) (*mat.Dense, []float64, func(i int) bool) {
	r, c := v.R, v.C
	const top, left, right, bottom = 1, 2, 3, 1
	R, C := r+top+bottom, c+left+right
	back := make([]float64, R*C)
	vrt.FillTaint(back)
	big := mat.NewDense(R, C, back)
	w := big.Slice(top, top+r, left, left+c).(*mat.Dense)
	for i := 0; i < r; i++ {
		for j := 0; j < c; j++ {
			w.Set(i, j, v.At(i, j))
		}
	}
	inside := func(k int) bool {
		i, j := k/C, k%C
		return i >= top && i < top+r && j >= left && j < left+c
	}
	return w, back, inside
}

// makeMat builds a general-matrix operand of the given kind.
func makeMat(kind int, v *ref.M) mat.Matrix {
	switch kind {
	case mkDense:
		return mat.NewDense(v.R, v.C, append([]float64(nil), v.D...))
	case mkView:
		w, _, _ := taintedView(v)
		return w
	case mkTrans:
		t := v.T()
		return mat.NewDense(t.R, t.C, t.D).T()
	case mkBasic:
		return basicMatrix{v.Clone()}
	case mkRawWrap:
		w, _, _ := taintedView(v)
		return rawWrap{w}
	}
	panic("makeMat: kind")
}

// symmetric kinds
const (
	skSym = iota
	skSymView
	skBasic
	nSymKinds
)

var symKindNames = [...]string{"SymDense", "SymDense.SliceSym", "BasicSymmetric"}

func makeSym(kind int, v *ref.M) mat.Symmetric {
	n := v.R
	switch kind {
	case skSym:
		s := mat.NewSymDense(n, nil)
		for i := 0; i < n; i++ {
			for j := i; j < n; j++ {
				s.SetSym(i, j, v.At(i, j))
			}
		}
		return s
	case skSymView:
		N := n + 3
		back := make([]float64, N*N)
		vrt.FillTaint(back)
		big := mat.NewSymDense(N, back)
		s := big.SliceSym(2, 2+n).(*mat.SymDense)
		for i := 0; i < n; i++ {
			for j := i; j < n; j++ {
				s.SetSym(i, j, v.At(i, j))
			}
		}
		return s
	case skBasic:
		return basicSym{v.Clone()}
	}
	panic("makeSym: kind")
}

// vector kinds
const (
	vkVec = iota
	vkInc
	vkBasic
	nVecKinds
)

var vecKindNames = [...]string{"VecDense", "VecDense.inc>1", "BasicVector"}

func makeVec(kind int, x []float64) mat.Vector {
	n := len(x)
	switch kind {
	case vkVec:
		return mat.NewVecDense(n, append([]float64(nil), x...))
	case vkInc:
		back := make([]float64, n*3)
		vrt.FillTaint(back)
		d := mat.NewDense(n, 3, back)
		for i, v := range x {
			d.Set(i, 1, v)
		}
		return d.ColView(1)
	case vkBasic:
		return basicVec{append([]float64(nil), x...)}
	}
	panic("makeVec: kind")
}

// destination kinds
const (
	dkEmpty = iota
	dkSized
	dkView
	dkReset
	nDstKinds
)

var dstKindNames = [...]string{"empty", "sized", "view", "reset"}

// dstDense prepares a destination of the given kind for an r x c result.
// The returned check function reports whether storage outside the
// destination window was modified by the call.
func dstDense(kind, r, c int) (*mat.Dense, func() bool) {
	switch kind {
	case dkEmpty:
		return &mat.Dense{}, func() bool { return false }
	case dkSized:
		d := make([]float64, r*c)
		vrt.FillTaint(d)
		return mat.NewDense(r, c, d), func() bool { return false }
	case dkView:
		w, back, inside := taintedView(ref.FromFunc(r, c, func(i, j int) float64 { return vrt.Taint(i*c + j) }))
		snap := vrt.Bits(back)
		return w, func() bool { return vrt.FirstBitDiff(back, snap, inside) >= 0 }
	case dkReset:
		d := mat.NewDense(r+1, c+2, nil)
		d.Reset()
		return d, func() bool { return false }
	}
	panic("dstDense: kind")
}

// dstVec prepares a VecDense destination of length n.
func dstVec(kind, n int) (*mat.VecDense, func() bool) {
	switch kind {
	case dkEmpty:
		return &mat.VecDense{}, func() bool { return false }
	case dkSized:
		d := make([]float64, n)
		vrt.FillTaint(d)
		return mat.NewVecDense(n, d), func() bool { return false }
	case dkView:
		back := make([]float64, n*2+3)
		vrt.FillTaint(back)
		v := &mat.VecDense{}
		v.SetRawVector(blas64.Vector{N: n, Inc: 2, Data: back[1 : 1+(n-1)*2+1]})
		snap := vrt.Bits(back)
		return v, func() bool {
			return vrt.FirstBitDiff(back, snap, func(k int) bool { return k >= 1 && (k-1)%2 == 0 && (k-1)/2 < n }) >= 0
		}
	case dkReset:
		v := mat.NewVecDense(n+2, nil)
		v.Reset()
		return v, func() bool { return false }
	}
	panic("dstVec: kind")
}

// triangular operands

func makeTriDense(v *ref.M, up bool) *mat.TriDense {
	n := v.R
	kind := mat.Lower
	if up {
		kind = mat.Upper
	}
	// backing holds taint in the other triangle: it must never be read.
	back := make([]float64, n*n)
	vrt.FillTaint(back)
	t := mat.NewTriDense(n, kind, back)
	for i := 0; i < n; i++ {
		for j := 0; j < n; j++ {
			if (up && j >= i) || (!up && j <= i) {
				t.SetTri(i, j, v.At(i, j))
			}
		}
	}
	return t
}

func makeTriBand(v *ref.M, k int, up bool) *mat.TriBandDense {
	n := v.R
	kind := mat.Lower
	if up {
		kind = mat.Upper
	}
	t := mat.NewTriBandDense(n, k, kind, nil)
	for i := 0; i < n; i++ {
		for j := 0; j < n; j++ {
			if up && j >= i && j-i <= k || !up && j <= i && i-j <= k {
				t.SetTriBand(i, j, v.At(i, j))
			}
		}
	}
	return t
}

func makeTridiag(v *ref.M) *mat.Tridiag {
	n := v.R
	var dl, du []float64
	d := make([]float64, n)
	if n > 1 {
		dl = make([]float64, n-1)
		du = make([]float64, n-1)
	}
	for i := 0; i < n; i++ {
		d[i] = v.At(i, i)
		if i+1 < n {
			du[i] = v.At(i, i+1)
			dl[i] = v.At(i+1, i)
		}
	}
	t := &mat.Tridiag{}
	t.SetRawTridiagonal(lapack64.Tridiagonal{N: n, DL: dl, D: d, DU: du})
	return t
}

func makeSymBand(v *ref.M, k int) *mat.SymBandDense {
	n := v.R
	s := mat.NewSymBandDense(n, k, nil)
	for i := 0; i < n; i++ {
		for j := i; j < n && j-i <= k; j++ {
			s.SetSymBand(i, j, v.At(i, j))
		}
	}
	return s
}

// basicSymBand implements only mat.SymBanded.
type basicSymBand struct {
	m *ref.M
	k int
}

func (b basicSymBand) Dims() (int, int)      { return b.m.R, b.m.C }
func (b basicSymBand) At(i, j int) float64   { return b.m.At(i, j) }
func (b basicSymBand) T() mat.Matrix         { return b }
func (b basicSymBand) Bandwidth() (int, int) { return b.k, b.k }
func (b basicSymBand) TBand() mat.Banded     { return b }
func (b basicSymBand) SymmetricDim() int     { return b.m.R }
func (b basicSymBand) SymBand() (int, int)   { return b.m.R, b.k }

func bandOf(v *ref.M, k int) *ref.M {
	out := ref.New(v.R, v.C)
	for i := 0; i < v.R; i++ {
		for j := 0; j < v.C; j++ {
			if int(math.Abs(float64(i-j))) <= k {
				out.D[i*v.C+j] = v.D[i*v.C+j]
			}
		}
	}
	return out
}
