#!/usr/bin/env python3
"""Build proposed_known_findings.json from monitor result files.

usage: mkfindings.py <result.json>... > proposed_known_findings.json

Every signature observed in the given runs (current tree, seeds 1,2,3,7,42,
both tiers, default and noasm) must be matched by exactly one rule below;
an unmatched signature aborts (it would be an untriaged alarm).
"""
import json, re, sys

ROOT_CAUSES = {
    "bandcholesky-cond-norm-of-factor": {
        "where": "mat/cholesky.go (*BandCholesky).Factorize",
        "what": "aNorm is computed with Lansb AFTER Pbtrf has overwritten the band storage with the factor, so Cond() is |U_as_symmetric_band| * est|A^-1| instead of |A| * est|A^-1|: off by about sqrt(|A|) (0.5x for |A|~4, 1e-4x for |A|~1e8, 1e4x for |A|~1e-8); SolveTo's Condition threshold is shifted by the same factor.",
        "fix": "compute aNorm = Lansb(CondNorm, cSym, work) before the call of Pbtrf (candidate-fixes.diff hunk 1)",
    },
    "lu-rankone-ok-not-propagated": {
        "where": "mat/lu.go (*LU).RankOne",
        "what": "when the receiver is not orig, swaps, piv and lu are copied but the ok flag is not: a fresh receiver (ok == false), or one that last factorized a singular matrix, keeps ok == false, so Det() returns 0 and SolveTo/SolveVecTo return Condition(+Inf) for a well conditioned updated matrix.",
        "fix": "lu.ok = orig.ok in the orig != lu branch (hunk: mat/lu.go RankOne)",
    },
    "cholesky-symrankone-alpha0-cond": {
        "where": "mat/cholesky.go (*Cholesky).SymRankOne",
        "what": "alpha == 0 returns right after copying orig's factor into the receiver without setting c.cond: a fresh receiver reports Cond() == 0, a used one keeps the condition number of the matrix it held before (and SolveTo's Condition test uses it).",
        "fix": "c.cond = orig.cond before return true (hunk: SymRankOne)",
    },
    "cholesky-symrankone-nil-vecdense": {
        "where": "mat/cholesky.go (*Cholesky).SymRankOne",
        "what": "for an x that is a Vector but not a RawVectorer the code does `var tmp *VecDense; tmp.CopyVec(x)`: nil pointer dereference (runtime panic) for every such call.",
        "fix": "tmp := NewVecDense(n, nil) (hunk: SymRankOne)",
    },
    "tridense-trcon-reciprocal": {
        "where": "mat/triangular.go (*TriDense).SolveTo and (*TriDense).InverseTri",
        "what": "lapack64.Trcon returns the RECIPROCAL condition number; both methods compare it with ConditionTolerance (1e16) and math.IsInf, so a near-singular triangle (condition 1e22) is never reported: InverseTri contradicts its doc comment ('If a is ill-conditioned, a Condition error will be returned'), SolveTo (reached from Dense.Solve for TriDense a) silently returns a solution with forward error 1e6 where every other SolveTo returns Condition(2e22).",
        "fix": "cond := 1 / lapack64.Trcon(...) in both methods (hunk: mat/triangular.go)",
    },
    "cholesky-reset-receiver-rejected": {
        "where": "mat/cholesky.go (*Cholesky).Scale and (*Cholesky).SymRankOne",
        "what": "a receiver emptied with Reset() (documented: 'so that it can be reused as the receiver of a dimensionally restricted operation'; Scale: 'panics ... if the receiver is non-empty and is of a different size') has c.chol != nil with N == 0, which fails the `c.chol.mat.N != n` test: panic(ErrShape).",
        "fix": "treat an empty c.chol like nil (reuseAsNonZeroed) (hunks: Scale, SymRankOne)",
    },
    "cholesky-failed-downdate-overwrites-receiver": {
        "where": "mat/cholesky.go (*Cholesky).SymRankOne",
        "what": "doc: 'If the update fails the receiver is left unchanged', but with receiver != orig the factor of orig is copied into the receiver before the downdate is attempted; after ok == false the receiver represents orig's matrix with the receiver's OLD condition number.",
        "fix": "copy orig into the receiver only once the update is known to succeed (hunk: SymRankOne, copyOrig)",
    },
    "qr-rto-loop-bounds": {
        "where": "mat/qr.go (*QR).RTo",
        "what": "the loop that zeroes the rows below the triangle runs `for i := r; i < c` (never, since r >= c) instead of `for i := c; i < r`: with a non-empty m x n dst (m > n) rows n..m-1 keep the previous content of dst, so R is not upper trapezoidal and Q*R != A.",
        "fix": "for i := c; i < r; i++ (hunk: mat/qr.go)",
    },
    "lq-factorize-reuse-panics": {
        "where": "mat/lq.go (*LQ).updateQ",
        "what": "a receiver that has factorized an m x n matrix keeps its n x n q; Factorize of a matrix with another column count calls lq.q.reuseAsNonZeroed(n', n') on the non-empty q: panic(ErrShape). QR resets its q before reuse; LQ does not.",
        "fix": "lq.q.Reset() before reuseAsNonZeroed (hunk: mat/lq.go)",
    },
    "gsvd-partial-kind-zero-job": {
        "where": "mat/gsvd.go (*GSVD).Factorize",
        "what": "for a kind with some but not all of GSVDU|GSVDV|GSVDQ the jobs of the vectors not requested keep the zero value of lapack.GSVDJob, which Dggsvd3 rejects ('lapack: bad GSVDJobU/V/Q'): every partial kind documented in the Factorize comment panics.",
        "fix": "initialise jobU, jobV, jobQ to lapack.GSVDNone in that arm (hunk: mat/gsvd.go)",
    },
    "dggsvp3-dorm2r-for-dormr2": {
        "where": "lapack/gonum/dggsvp3.go (branch n-l > k, reached when [A;B] is column-rank deficient)",
        "what": "after the RQ factorization Dgerq2 the update Q := Q*Z1^T is applied with Dorm2r (QR reflector layout) instead of Dormr2, so Q is no longer orthogonal (max|QtQ-I| ~ 1); in the same branch the clean-up loop writes a[j] = 0 instead of r[j] = 0. mat.GSVD then returns a non-orthogonal Q.",
        "fix": "Dormr2 and r[j] = 0 (hunk: lapack/gonum/dggsvp3.go)",
    },
    "dggsvp3-jpvt-zero-marks-columns-fixed": {
        "where": "lapack/gonum/dggsvp3.go (both Dgeqp3 calls)",
        "what": "iwork is cleared to 0 before Dgeqp3 as in the Fortran original, but in gonum's zero-based Dgeqp3 a value >= 0 marks a FIXED column and -1 a free one: no column pivoting takes place, the numerical ranks k, l are read off an unpivoted R (a rank-3 B with a zero column gives l = 2) and A != U*S1*[0 R]*Qt / B != V*S2*[0 R]*Qt by O(1). Observable through mat.GSVD whenever [A;B] or B needs pivoting to reveal its rank.",
        "fix": "iwork[i] = -1 (two places). NOT proposed as a fix commit: it changes the output recorded in mat's ExampleGSVD (signs / order of singular vectors), so gonum's own suite does not pass unedited; lapack/gonum's tests pass.",
    },
    "lu-det-without-factorization": {
        "where": "mat/lu.go (*LU).Det",
        "what": "doc: 'Det will panic if the receiver does not contain a factorization', but `if !lu.ok { return 0 }` precedes the validity check: Det of a zero-value or Reset LU returns 0.",
        "fix": "check isValid() first (hunk: mat/lu.go Det), or repair the comment",
    },
}

RULES = [
    (r"^BandCholesky\.Cond\|-\|cond-(over|under)estimate$", "bandcholesky-cond-norm-of-factor"),
    (r"^LU\.(Det|SolveTo|SolveVecTo)\|history,ok-from=(fresh-receiver|receiver-of-singular)\|(zero-for-nonsingular|condition-error-on-well-conditioned)$", "lu-rankone-ok-not-propagated"),
    (r"^Cholesky\.Cond\|alpha0,(fresh|used)-receiver\|cond-(over|under)estimate$", "cholesky-symrankone-alpha0-cond"),
    (r"^Cholesky\.SymRankOne\|x=BasicVector\|runtime-panic:runtime error: invalid memory address or nil pointer dereference$", "cholesky-symrankone-nil-vecdense"),
    (r"^(TriDense\.SolveTo\|near-singular|Dense\.Solve\|A=TriDense,near-singular|TriDense\.InverseTri\|near-singular)\|no-condition-error-for-cond-1e22$", "tridense-trcon-reciprocal"),
    (r"^Cholesky\.(Scale|SymRankOne)\|reset-receiver\|panic:mat: dimension mismatch$", "cholesky-reset-receiver-rejected"),
    (r"^Cholesky\.SymRankOne\|failed-downdate,used-receiver\|receiver-modified(:cond)?$", "cholesky-failed-downdate-overwrites-receiver"),
    (r"^QR\.RTo\|dst=sized\|factor-not-triangular$", "qr-rto-loop-bounds"),
    (r"^LQ\.Factorize\|receiver-used-for-another-size\|panic:mat: dimension mismatch$", "lq-factorize-reuse-panics"),
    (r"^GSVD\.Factorize\|kind=partial\|panic:lapack: bad GSVDJob[UVQ]$", "gsvd-partial-kind-zero-job"),
    (r"^GSVD\.QTo\|common-zero-column\|orthogonality$", "dggsvp3-dorm2r-for-dormr2"),
    (r"^GSVD\.(Factorize|Rank)\|common-zero-column\|(gsvd-reconstruction|wrong-rank)$", "dggsvp3-jpvt-zero-marks-columns-fixed"),  # both clauses fire at every seed (pinned cases)
    (r"^LU\.Det\|no-factorization\|must-panic:no-panic$", "lu-det-without-factorization"),
]


def main():
    sigs = {}
    for f in sys.argv[1:]:
        r = json.load(open(f))
        for v in r.get("violations") or []:
            sigs.setdefault(v["sig"], v["detail"].split("\n")[0][:300])
    entries = []
    bad = []
    for s in sorted(sigs):
        rc = [name for pat, name in RULES if re.match(pat, s)]
        if len(rc) != 1:
            bad.append(s)
            continue
        entries.append({"signature": s, "description": "first witness: " + sigs[s], "root_cause": rc[0]})
    if bad:
        sys.stderr.write("UNTRIAGED signatures:\n" + "\n".join(bad) + "\n")
        sys.exit(1)
    used = {e["root_cause"] for e in entries}
    out = {"property": "C06", "entries": entries, "root_causes": {k: v for k, v in ROOT_CAUSES.items() if k in used}}
    json.dump(out, sys.stdout, indent=1)
    sys.stdout.write("\n")


if __name__ == "__main__":
    main()
