// Command repro prints minimal reproducers of the gonum defects found by
// the C06 monitor. Run from /verif/harness:
//
//	go run ./c06/tools/repro
package main

import (
	"fmt"
	"math"

	"gonum.org/v1/gonum/lapack"
	lgonum "gonum.org/v1/gonum/lapack/gonum"
	"gonum.org/v1/gonum/mat"
)

type noRaw struct{ x []float64 }

func (v noRaw) Dims() (int, int)    { return len(v.x), 1 }
func (v noRaw) At(i, _ int) float64 { return v.x[i] }
func (v noRaw) T() mat.Matrix       { return mat.Transpose{Matrix: v} }
func (v noRaw) AtVec(i int) float64 { return v.x[i] }
func (v noRaw) Len() int            { return len(v.x) }

func try(name string, f func()) {
	defer func() {
		if r := recover(); r != nil {
			fmt.Printf("%s: PANIC %v\n", name, r)
		}
	}()
	f()
}

func main() {
	// D1 BandCholesky.Cond is computed with the norm of the factor, not of A.
	try("D1", func() {
		for _, s := range []float64{1, 1e8, 1e-8} {
			a := mat.NewSymBandDense(3, 1, []float64{4 * s, 1 * s, 4 * s, 1 * s, 4 * s, 0})
			var bc mat.BandCholesky
			bc.Factorize(a)
			var c mat.Cholesky
			c.Factorize(a)
			fmt.Printf("D1 scale %g: BandCholesky.Cond=%.4g Cholesky.Cond=%.4g (same matrix)\n", s, bc.Cond(), c.Cond())
		}
	})
	// D2 LU.RankOne into another receiver does not carry the ok flag.
	try("D2", func() {
		a := mat.NewDense(2, 2, []float64{4, 1, 1, 3})
		var lu, lu2 mat.LU
		lu.Factorize(a)
		x := mat.NewVecDense(2, []float64{1, 0})
		y := mat.NewVecDense(2, []float64{0, 1})
		lu2.RankOne(&lu, 0.5, x, y)
		var sol mat.Dense
		err := lu2.SolveTo(&sol, false, mat.NewDense(2, 1, []float64{1, 1}))
		fmt.Printf("D2 fresh receiver: Det=%v (want 4*3-1.5*1=10.5) SolveTo err=%v Cond=%.3g\n", lu2.Det(), err, lu2.Cond())
	})
	// D3 Cholesky.SymRankOne(orig, 0, x) into another receiver leaves cond unset.
	try("D3", func() {
		var c, c2 mat.Cholesky
		c.Factorize(mat.NewSymDense(2, []float64{4, 1, 1, 3}))
		c2.SymRankOne(&c, 0, mat.NewVecDense(2, []float64{1, 1}))
		fmt.Printf("D3 alpha=0 into fresh receiver: Cond=%v, original Cond=%.4g\n", c2.Cond(), c.Cond())
	})
	// D4 Cholesky.SymRankOne with a Vector that is not a RawVectorer.
	try("D4", func() {
		var c mat.Cholesky
		c.Factorize(mat.NewSymDense(2, []float64{4, 1, 1, 3}))
		ok := c.SymRankOne(&c, 1, noRaw{[]float64{1, 1}})
		fmt.Println("D4 ok", ok)
	})
	// D5 TriDense.SolveTo / InverseTri compare the RECIPROCAL condition number with ConditionTolerance.
	try("D5", func() {
		t := mat.NewTriDense(2, mat.Upper, []float64{1, 1, 0, 1e-22})
		var x mat.Dense
		err := t.SolveTo(&x, false, mat.NewDense(2, 1, []float64{1, 1}))
		var ti mat.TriDense
		err2 := ti.InverseTri(t)
		var y mat.Dense
		err3 := y.Solve(mat.DenseCopyOf(t), mat.NewDense(2, 1, []float64{1, 1}))
		fmt.Printf("D5 cond 1e22: TriDense.SolveTo err=%v InverseTri err=%v; the same matrix as Dense: Solve err=%v\n", err, err2, err3)
	})
	// D6 Cholesky Scale / SymRankOne into a Reset receiver panic.
	try("D6a", func() {
		var c, r mat.Cholesky
		c.Factorize(mat.NewSymDense(2, []float64{4, 1, 1, 3}))
		r.Factorize(mat.NewSymDense(2, []float64{2, 0, 0, 2}))
		r.Reset()
		r.Scale(2, &c)
		fmt.Println("D6a fine")
	})
	try("D6b", func() {
		var c, r mat.Cholesky
		c.Factorize(mat.NewSymDense(2, []float64{4, 1, 1, 3}))
		r.Factorize(mat.NewSymDense(2, []float64{2, 0, 0, 2}))
		r.Reset()
		r.SymRankOne(&c, 1, mat.NewVecDense(2, []float64{1, 1}))
		fmt.Println("D6b fine")
	})
	// D7 a failed downdate into another receiver overwrites that receiver.
	try("D7", func() {
		var c, r mat.Cholesky
		c.Factorize(mat.NewSymDense(2, []float64{4, 1, 1, 3}))
		r.Factorize(mat.NewSymDense(2, []float64{9, 0, 0, 9}))
		ok := r.SymRankOne(&c, -100, mat.NewVecDense(2, []float64{1, 1}))
		fmt.Printf("D7 ok=%v receiver now represents [[%g %g][%g %g]] (was 9 I), Cond=%.4g\n", ok, r.At(0, 0), r.At(0, 1), r.At(1, 0), r.At(1, 1), r.Cond())
	})
	// D8 QR.RTo does not clear the rows below the triangle of a non-empty dst.
	try("D8", func() {
		var qr mat.QR
		qr.Factorize(mat.NewDense(3, 2, []float64{1, 2, 3, 4, 5, 6}))
		dst := mat.NewDense(3, 2, []float64{9, 9, 9, 9, 9, 9})
		qr.RTo(dst)
		fmt.Printf("D8 R into a 3x2 dst pre-filled with 9:\n%v\n", mat.Formatted(dst))
	})
	// D9 LQ.Factorize cannot be reused for another size.
	try("D9", func() {
		var lq mat.LQ
		lq.Factorize(mat.NewDense(2, 3, []float64{1, 2, 3, 4, 5, 6}))
		lq.Factorize(mat.NewDense(1, 2, []float64{1, 2}))
		fmt.Println("D9 fine")
	})
	// D10 GSVD with a partial kind panics inside lapack.
	try("D10", func() {
		var g mat.GSVD
		ok := g.Factorize(mat.NewDense(2, 2, []float64{1, 2, 3, 4}), mat.NewDense(2, 2, []float64{2, 1, 1, 3}), mat.GSVDU)
		fmt.Println("D10 ok", ok)
	})
	// D11 Dggsvp3: wrong routine (Dorm2r for Dormr2), jpvt 0 instead of -1, a[j] for r[j].
	try("D11", func() {
		impl := lgonum.Implementation{}
		m, p, n := 2, 3, 4
		a := []float64{1, 0, 2, 3, 4, 0, 5, 7}
		b := []float64{2, 0, 1, 1, 1, 0, 3, 2, 5, 0, 1, 4}
		u, v, q := make([]float64, m*m), make([]float64, p*p), make([]float64, n*n)
		iwork, tau, work := make([]int, n), make([]float64, n), make([]float64, 1)
		impl.Dggsvp3(lapack.GSVDU, lapack.GSVDV, lapack.GSVDQ, m, p, n, a, n, b, n, 1e-14, 1e-14, u, m, v, p, q, n, iwork, tau, work, -1)
		work = make([]float64, int(work[0]))
		k, l := impl.Dggsvp3(lapack.GSVDU, lapack.GSVDV, lapack.GSVDQ, m, p, n, a, n, b, n, 1e-14, 1e-14, u, m, v, p, q, n, iwork, tau, work, len(work))
		var mx float64
		for i := 0; i < n; i++ {
			for j := 0; j < n; j++ {
				var s float64
				for t := 0; t < n; t++ {
					s += q[t*n+i] * q[t*n+j]
				}
				if i == j {
					s--
				}
				mx = math.Max(mx, math.Abs(s))
			}
		}
		fmt.Printf("D11 Dggsvp3 (common zero column; rank B = 3): k=%d l=%d max|QtQ-I|=%.3g\n", k, l, mx)
	})
	// D12 LU.Det on a receiver without factorization returns 0 (documented to panic).
	try("D12", func() {
		var lu mat.LU
		fmt.Println("D12 Det of an empty LU:", lu.Det())
	})
}
