package main

import (
	"math"

	"gonum.org/v1/gonum/optimize"
	"gonum.org/v1/gonum/verifx/vrt"
)

var limitValues = []int{1, 2, 3, 10, 100}

// allMethodConfigs enumerates the method x line searcher grid once, with
// representative secondary parameters.
func allMethodConfigs(thorough bool) []methSpec {
	var l []methSpec
	for ls := 0; ls <= 3; ls++ {
		l = append(l, methSpec{kind: mGD, ls: ls})
		for v := 0; v < 5; v++ {
			l = append(l, methSpec{kind: mCG, variant: v, ls: ls})
		}
		l = append(l, methSpec{kind: mBFGS, ls: ls})
		l = append(l, methSpec{kind: mLBFGS, ls: ls, store: 0})
		l = append(l, methSpec{kind: mLBFGS, ls: ls, store: 1})
		if thorough {
			l = append(l, methSpec{kind: mLBFGS, ls: ls, store: 20})
			l = append(l, methSpec{kind: mLBFGS, ls: ls, store: 3})
		}
		l = append(l, methSpec{kind: mNewton, ls: ls})
	}
	l = append(l, methSpec{kind: mCG, variant: -1})
	l = append(l, methSpec{kind: mNM}, methSpec{kind: mNM, simplex: true}, methSpec{kind: mNM, simplex: true, nmParams: true}, methSpec{kind: mNM, nmParams: true})
	l = append(l, methSpec{kind: mCMA, cmaChol: true}, methSpec{kind: mCMA, cmaStep: true, cmaChol: true, forget: true}, methSpec{kind: mCMA, cmaStop: true})
	l = append(l, methSpec{kind: mCG, variant: 2, cgRestart: 1}, methSpec{kind: mCG, variant: 0, cgRestart: 2, ls: 2}, methSpec{kind: mNewton, newtonInc: 1}, methSpec{kind: mNewton, newtonInc: 2, ls: 3, lsParam: 2})
	l = append(l, methSpec{kind: mLS, rows: 7, locsT: true}, methSpec{kind: mGD, stepSizer: 4, ls: 1, lsParam: 2}, methSpec{kind: mCG, variant: 1, stepSizer: 5, ls: 2, lsParam: 2})
	for _, pop := range []int{0, 3} {
		l = append(l, methSpec{kind: mCMA, pop: pop}, methSpec{kind: mCMA, pop: pop, forget: true})
	}
	l = append(l, methSpec{kind: mGAC})
	l = append(l, methSpec{kind: mLS, rows: 1}, methSpec{kind: mLS, rows: 7})
	return l
}

// gridCases is the deterministic part of the workload: every method
// configuration x every limit kind x every limit value (and the unlimited
// run, Runtime, InitValues levels, GradientThreshold incl. NaN) on a fixed
// convex objective. Nothing here depends on VERIF_SEED.
func gridCases(thorough bool) []*caseSpec {
	var cases []*caseSpec
	dims := []int{2}
	if thorough {
		dims = []int{1, 2, 5}
	}
	add := func(m methSpec, s setSpec, dim int) {
		cases = append(cases, &caseSpec{group: "grid", m: m, s: s, obj: simpleBowl(dim), seed: uint64(len(cases) + 1)})
	}
	for _, dim := range dims {
		for _, m := range allMethodConfigs(thorough) {
			add(m, setSpec{}, dim)
			add(m, setSpec{noValve: true, limF: 1000}, dim)
			for _, v := range limitValues {
				add(m, setSpec{limF: v}, dim)
				add(m, setSpec{limMaj: v}, dim)
				if m.usesGrad() {
					add(m, setSpec{limG: v}, dim)
				}
				if m.usesHess() {
					add(m, setSpec{limH: v}, dim)
				}
			}
			add(m, setSpec{runtime: 1}, dim)
			add(m, setSpec{runtime: 3, limMaj: 20}, dim)
			add(m, setSpec{rec: -3}, dim)
			for init := 1; init <= 3; init++ {
				add(m, setSpec{init: init}, dim)
				add(m, setSpec{init: init, limF: 1}, dim)
				add(m, setSpec{init: init, limMaj: 1}, dim)
			}
			add(m, setSpec{gradThr: math.NaN()}, dim)
			add(m, setSpec{gradThr: 1e-3}, dim)
			add(m, setSpec{gradThr: 1e-3, init: 2}, dim)
			add(m, setSpec{gradThr: 1e3, init: 2}, dim)
			add(m, setSpec{conv: 1, limMaj: 30}, dim)
			add(m, setSpec{conv: 2, convK: 2, convStatus: optimize.FunctionThreshold}, dim)
			add(m, setSpec{conv: 3, convK: 3}, dim)
			add(m, setSpec{rec: -2}, dim)
			add(m, setSpec{rec: -1}, dim)
			for _, k := range []int{1, 2, 3, 4} {
				add(m, setSpec{rec: k}, dim)
				add(m, setSpec{rec: k, recOnce: true}, dim)
				add(m, setSpec{cbK: k, cbKind: 1}, dim)
				add(m, setSpec{cbK: k, cbKind: 2}, dim)
			}
			add(m, setSpec{cbK: 3, cbKind: 3}, dim)
			for _, conc := range []int{1, 2, 4, 8} {
				add(m, setSpec{concurrent: conc}, dim)
				add(m, setSpec{concurrent: conc, limF: 3}, dim)
			}
			for _, val := range []float64{math.NaN(), math.Inf(1), math.Inf(-1)} {
				for _, ft := range []fault{{kind: faultFirst, val: val}, {kind: faultAfterK, val: val, k: 1}, {kind: faultAfterK, val: val, k: 2}, {kind: faultAfterK, val: val, k: 5}, {kind: faultRegion, val: val, thr: -1}} {
					add(m, setSpec{limF: 500}, dim)
					cases[len(cases)-1].ft = ft
					add(m, setSpec{limF: 500, init: 2}, dim)
					cases[len(cases)-1].ft = ft
				}
			}
		}
	}
	// Non-finite gradient component at the starting location (and a -Inf /
	// +Inf / NaN function value there together with InitValues levels).
	for _, m := range allMethodConfigs(false) {
		for _, val := range []float64{math.NaN(), math.Inf(1), math.Inf(-1)} {
			if m.usesGrad() {
				add(m, setSpec{limF: 500}, 2)
				cases[len(cases)-1].gft = fault{kind: faultFirst, val: val}
				add(m, setSpec{limF: 500, init: 1}, 2)
				cases[len(cases)-1].gft = fault{kind: faultFirst, val: val}
			}
			for _, s := range []setSpec{{limF: 500, rec: -2}, {limF: 500, conv: 1}, {limMaj: 5}, {limF: 500, gradThr: 1e-3}, {limF: 500, concurrent: 4}} {
				add(m, s, 2)
				cases[len(cases)-1].ft = fault{kind: faultFirst, val: val}
			}
		}
	}
	// Non-finite objective values inside a line search, without an
	// evaluation limit (bounded-progress clause), and early stops of a
	// re-used CmaEsChol.
	for _, m := range allMethodConfigs(false) {
		if m.linesearch() && m.ls != 0 && (m.kind != mCG || m.variant == 2) && (m.kind != mLBFGS || m.store == 0) {
			for _, ft := range []fault{{kind: faultRegion, val: math.NaN(), thr: -1.2}, {kind: faultRegion, val: math.Inf(1), thr: -1.2}, {kind: faultAfterK, val: math.Inf(1), k: 2}} {
				add(m, setSpec{limMaj: 50, init: 1}, 2)
				cases[len(cases)-1].ft = ft
			}
		}
		if m.kind == mCMA {
			for _, reuse := range []bool{false, true} {
				for _, val := range []float64{math.Inf(1), math.NaN()} {
					add(m, setSpec{limF: 1}, 2)
					cases[len(cases)-1].ft = fault{kind: faultFirst, val: val}
					cases[len(cases)-1].reuse = reuse
				}
			}
		}
	}
	return cases
}

func pickLimit(r *vrt.Rand) int {
	if r.Chance(0.55) {
		return 0
	}
	return limitValues[r.Intn(len(limitValues))]
}

func randomMethod(r *vrt.Rand) methSpec {
	m := methSpec{}
	// weights: line-search methods dominate
	switch u := r.Intn(20); {
	case u < 2:
		m.kind = mGD
	case u < 7:
		m.kind = mCG
	case u < 9:
		m.kind = mBFGS
	case u < 12:
		m.kind = mLBFGS
	case u < 14:
		m.kind = mNewton
	case u < 16:
		m.kind = mNM
	case u < 18:
		m.kind = mCMA
	case u < 19:
		m.kind = mGAC
	default:
		m.kind = mLS
	}
	m.variant = r.Intn(6) - 1
	m.ls = r.Intn(4)
	m.lsParam = r.Intn(2)
	if r.Chance(0.4) {
		m.stepSizer = r.Intn(4)
	}
	if r.Chance(0.7) {
		m.store = 1 + r.Intn(20)
	}
	m.pop = r.PickInt(0, 0, 2, 3, 5, 10)
	m.forget = r.Chance(0.4)
	m.rows = 1 + r.Intn(12)
	m.simplex = r.Chance(0.3)
	m.nmParams = r.Chance(0.3)
	m.cmaChol = r.Chance(0.3)
	m.cmaStep = r.Chance(0.3)
	m.cmaStop = r.Chance(0.2)
	m.cgRestart = r.PickInt(0, 0, 1, 2)
	m.newtonInc = r.Intn(3)
	m.locsT = r.Bool()
	if r.Chance(0.3) {
		m.lsParam = 2
	}
	if r.Chance(0.2) {
		m.stepSizer = 4 + r.Intn(2)
	}
	m.gradStop = r.PickInt(0, 0, 0, 1, 2)
	return m
}

func randomObjective(r *vrt.Rand) *objective {
	switch u := r.Intn(10); {
	case u < 5:
		n := 1 + r.Intn(20)
		if r.Chance(0.5) {
			n = 1 + r.Intn(5)
		}
		return newQuadratic(r, n, math.Pow(10, 3*r.Float64()))
	case u < 8:
		return catalogueObjective(r.Intn(1000))
	default:
		return simpleBowl(1 + r.Intn(6))
	}
}

func randomSettings(r *vrt.Rand, m methSpec) setSpec {
	s := setSpec{}
	s.limF = pickLimit(r)
	s.limMaj = pickLimit(r)
	if m.usesGrad() {
		s.limG = pickLimit(r)
	}
	if m.usesHess() {
		s.limH = pickLimit(r)
	}
	if r.Chance(0.05) {
		s.runtime = r.PickInt(1, 1, 3)
	}
	switch r.Intn(6) {
	case 0:
		s.gradThr = math.NaN()
	case 1:
		s.gradThr = 1e-4
	case 2:
		s.gradThr = 10
	}
	switch r.Intn(8) {
	case 0:
		s.conv = 1
	case 1:
		s.conv, s.convK = 2, 1+r.Intn(6)
		s.convStatus = []optimize.Status{optimize.Success, optimize.FunctionThreshold, optimize.StepConvergence}[r.Intn(3)]
	case 2:
		s.conv, s.convK = 3, r.PickInt(0, 1, 2, 5, 20)
	}
	if r.Chance(0.4) {
		s.init = 1 + r.Intn(3)
	}
	if r.Chance(0.3) {
		s.concurrent = r.Intn(9)
	}
	switch r.Intn(8) {
	case 0:
		s.rec = r.PickInt(-2, -3)
	case 1:
		s.rec = 1 + r.Intn(12)
		s.recOnce = r.Bool()
	case 2:
		if r.Chance(0.2) {
			s.rec = -1
		}
	}
	if r.Chance(0.15) {
		s.cbK = 1 + r.Intn(12)
		s.cbKind = 1 + r.Intn(3)
	}
	return s
}

// ensureBounded adds an evaluation limit to runs that would otherwise be
// expensive (unlimited runs are the business of the natural/quadratic groups).
func ensureBounded(r *vrt.Rand, cs *caseSpec, p float64) {
	if !cs.unlimitedIsInDomain() || cs.obj.quad == nil && cs.obj.name != "bowl" || cs.s.limG > 0 && cs.s.limF == 0 && cs.s.limMaj == 0 && !cs.m.usesGrad() {
		p = 1
	}
	if cs.s.limF == 0 && cs.s.limMaj == 0 && !cs.s.runtimeStops() && cs.s.cbK == 0 && !(cs.s.rec > 0) && r.Chance(p) {
		cs.s.limF = 200 + r.Intn(800)
	}
}

func randomCase(r *vrt.Rand, group string) *caseSpec {
	cs := &caseSpec{group: group, seed: r.Uint64()}
	cs.m = randomMethod(r)
	cs.obj = randomObjective(r)
	if cs.m.usesHess() && cs.obj.h == nil {
		cs.obj = simpleBowl(1 + r.Intn(6))
	}
	cs.s = randomSettings(r, cs.m)
	ensureBounded(r, cs, 0.8)
	cs.s.noValve = cs.s.limF > 0 && cs.s.cbK == 0 && r.Chance(0.5)
	cs.reuse = r.Chance(0.15)
	return cs
}

func faultCase(r *vrt.Rand) *caseSpec {
	cs := randomCase(r, "fault")
	val := []float64{math.NaN(), math.Inf(1), math.Inf(-1)}[r.Intn(3)]
	switch r.Intn(3) {
	case 0:
		cs.ft = fault{kind: faultFirst, val: val}
	case 1:
		cs.ft = fault{kind: faultAfterK, val: val, k: 2 + r.Intn(30)}
	case 2:
		cs.ft = fault{kind: faultRegion, val: val, thr: cs.obj.x0[0] + r.Uniform(-0.5, 1.5)}
	}
	if !cs.s.anyLimit() {
		cs.s.limF = 200 + r.Intn(800)
	}
	if cs.m.usesGrad() && r.Chance(0.15) {
		cs.ft = fault{}
		cs.gft = fault{kind: faultFirst, val: val}
	}
	return cs
}

func concCase(r *vrt.Rand) *caseSpec {
	cs := &caseSpec{group: "conc", seed: r.Uint64()}
	cs.m = randomMethod(r)
	switch r.Intn(10) {
	case 0, 1, 2:
		cs.m.kind = mGAC
	case 3, 4, 5:
		cs.m.kind = mLS
	case 6, 7, 8:
		cs.m.kind = mCMA
	}
	if r.Chance(0.5) {
		cs.obj = simpleBowl(1 + r.Intn(4))
	} else {
		cs.obj = newQuadratic(r, 1+r.Intn(6), 100)
	}
	cs.s = randomSettings(r, cs.m)
	cs.s.concurrent = 2 + r.Intn(7)
	cs.s.yields = true
	if r.Chance(0.6) {
		cs.s.limF = r.PickInt(1, 2, 3, 10, 100, 37)
	}
	ensureBounded(r, cs, 1)
	return cs
}

// quadCases: every gradient-based method x every line searcher x every CG
// variant on nq random SPD quadratics with default settings (no limits).
func quadCases(c *vrt.Ctx, nq int) []*caseSpec {
	var cases []*caseSpec
	for qi := 0; qi < nq; qi++ {
		r := c.RNG("quad", qi)
		n := 1 + r.Intn(20)
		if qi%3 == 0 {
			n = 1 + r.Intn(4)
		}
		kappa := math.Pow(10, 3*r.Float64())
		if qi%4 == 0 {
			kappa = 1000
		}
		o := newQuadratic(r, n, kappa)
		for ls := 0; ls <= 3; ls++ {
			base := []methSpec{{kind: mGD, ls: ls}, {kind: mBFGS, ls: ls}, {kind: mLBFGS, ls: ls, store: 1 + r.Intn(20)}, {kind: mNewton, ls: ls}}
			for v := 0; v < 5; v++ {
				base = append(base, methSpec{kind: mCG, variant: v, ls: ls})
			}
			for _, m := range base {
				m.lsParam = (qi / 2) % 2
				cs := &caseSpec{group: "quad", m: m, obj: o, seed: r.Uint64()}
				switch qi % 5 {
				case 1:
					cs.s.gradThr = 1e-6
				case 2:
					cs.m.gradStop = 2
				case 3:
					cs.m.gradStop = 1 // method threshold disabled: FunctionConverge or the line search ends the run
				}
				cases = append(cases, cs)
			}
		}
	}
	return cases
}

// catCases: the optimize/functions catalogue from its standard starts.
func catCases(c *vrt.Ctx, thorough bool) []*caseSpec {
	var cases []*caseSpec
	cat := catalogue()
	for i := range cat {
		o := catalogueObjective(i)
		for _, m := range allMethodConfigs(false) {
			if m.usesHess() && o.h == nil {
				continue
			}
			if m.kind == mLS || m.kind == mGAC {
				continue
			}
			if !thorough && m.ls != 0 && (i+m.ls)%3 != 0 {
				continue
			}
			cs := &caseSpec{group: "cat", m: m, obj: o, seed: uint64(i*1000 + len(cases))}
			// Gradient descent and gradient-free methods can need very many
			// iterations on the badly scaled members; bound the work, the
			// unlimited runs are those of the quadratic group.
			cs.s.limMaj = 3000
			cases = append(cases, cs)
		}
	}
	return cases
}

// fixedDim reports whether the method value carries user data of a fixed
// dimension (documented to panic on a mismatch).
func (m methSpec) fixedDim() bool {
	return m.kind == mLS || m.kind == mNM && m.simplex || m.kind == mCMA && m.cmaChol
}

// gridHistories: every method configuration, the same method value used for
// several judged runs in a row (after an early stop, after a complete run,
// after a different dimension). Independent of the seed.
func gridHistories(thorough bool) [][]*caseSpec {
	var hs [][]*caseSpec
	seed := uint64(900000)
	mk := func(m methSpec, dim int, s setSpec) *caseSpec {
		seed++
		return &caseSpec{group: "hist", m: m, s: s, obj: simpleBowl(dim), seed: seed}
	}
	for _, m := range allMethodConfigs(thorough) {
		hs = append(hs, []*caseSpec{mk(m, 2, setSpec{limF: 1}), mk(m, 2, setSpec{}), mk(m, 2, setSpec{limMaj: 2}), mk(m, 2, setSpec{limF: 3, concurrent: 4})})
		hs = append(hs, []*caseSpec{mk(m, 2, setSpec{}), mk(m, 2, setSpec{})})
		if !m.fixedDim() {
			hs = append(hs, []*caseSpec{mk(m, 3, setSpec{limF: 2}), mk(m, 2, setSpec{}), mk(m, 5, setSpec{limMaj: 3}), mk(m, 1, setSpec{})})
		}
	}
	return hs
}

// randomHistory: 2-3 judged runs with one method value; objective, dimension
// (where the method value allows it), settings and limits change in between,
// and the first run often stops early.
func randomHistory(r *vrt.Rand) []*caseSpec {
	m := randomMethod(r)
	n := 2 + r.Intn(2)
	base := randomObjective(r)
	if m.usesHess() && base.h == nil {
		base = simpleBowl(1 + r.Intn(6))
	}
	var hist []*caseSpec
	for i := 0; i < n; i++ {
		obj := base
		if i > 0 && !(m.kind == mNM && m.simplex) {
			switch {
			case m.fixedDim() && r.Bool():
				obj = simpleBowl(base.dim)
			case m.fixedDim():
				obj = newQuadratic(r, base.dim, 100)
			default:
				obj = randomObjective(r)
				if m.usesHess() && obj.h == nil {
					obj = simpleBowl(1 + r.Intn(6))
				}
			}
		}
		cs := &caseSpec{group: "hist", m: m, obj: obj, seed: r.Uint64()}
		cs.s = randomSettings(r, m)
		if i == 0 && r.Bool() {
			cs.s.limF = r.PickInt(1, 2, 3, 10)
		}
		ensureBounded(r, cs, 0.9)
		hist = append(hist, cs)
	}
	return hist
}

// runtimeCases: Settings.Runtime = 20ms while the sleepAt-th Func call blocks
// for 50ms; NeverTerminate and a FuncEvaluations safety net are the only other
// rules. With and without a Recorder, one and four tasks.
func runtimeCases() []*caseSpec {
	var cases []*caseSpec
	for _, m := range allMethodConfigs(false) {
		if m.linesearch() && m.ls != 0 || m.cmaStop {
			continue
		}
		for _, rec := range []int{0, -2} {
			for _, conc := range []int{0, 4} {
				for _, k := range []int{1, 3} {
					if conc == 4 && m.local() && k == 3 {
						continue
					}
					cs := &caseSpec{group: "runtime", m: m, obj: simpleBowl(2), seed: uint64(700000 + len(cases))}
					cs.s = setSpec{runtime: 2, sleepAt: k, conv: 1, limF: 3000, rec: rec, concurrent: conc}
					cases = append(cases, cs)
				}
			}
		}
	}
	return cases
}
